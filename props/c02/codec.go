package c02

// The harness's own codecs, writers and readers for the six table formats.
// They are written from the format definitions (RFC 4180, ltsv.org, RFC 8259 /
// JSON Lines, "a fixed-length line is a sequence of byte columns") and from the
// csvq manual; nothing here calls csvq or go-text, so that a reader/writer bug
// shared between csvq's own two halves cannot hide.

import (
	"bytes"
	"encoding/json"
	"errors"
	"fmt"
	"io"
	"strings"
	"unicode"
	"unicode/utf16"
	"unicode/utf8"
)

// ---------------------------------------------------------------------
// encodings

// sjisTable: the Shift_JIS double-byte characters the generator uses (codes
// verified once against golang.org/x/text). Several have 0x5C (backslash) or
// 0x7C (|) as trail byte.
var sjisTable = map[rune][2]byte{
	'あ': {0x82, 0xA0}, '日': {0x93, 0xFA}, '本': {0x96, 0x7B}, '語': {0x8C, 0xEA},
	'表': {0x95, 0x5C}, 'ソ': {0x83, 0x5C}, 'ポ': {0x83, 0x7C}, 'Ａ': {0x82, 0x60},
	'１': {0x82, 0x50}, '　': {0x81, 0x40}, 'ー': {0x81, 0x5B},
}

var sjisRev = func() map[[2]byte]rune {
	m := map[[2]byte]rune{}
	for r, b := range sjisTable {
		m[b] = r
	}
	return m
}()

func sjisEncodable(s string) bool {
	for _, r := range s {
		if r < 0x80 {
			continue
		}
		if 0xFF61 <= r && r <= 0xFF9F {
			continue
		}
		if _, ok := sjisTable[r]; !ok {
			return false
		}
	}
	return true
}

func isUTF16(enc string) bool { return strings.HasPrefix(enc, "UTF16") }

// runeSize is the number of bytes of r in enc.
func runeSize(r rune, enc string) int {
	switch {
	case enc == "SJIS":
		if r < 0x80 || (0xFF61 <= r && r <= 0xFF9F) {
			return 1
		}
		return 2
	case isUTF16(enc):
		if r >= 0x10000 {
			return 4
		}
		return 2
	}
	return utf8.RuneLen(r)
}

func byteSize(s string, enc string) int {
	n := 0
	for _, r := range s {
		n += runeSize(r, enc)
	}
	return n
}

// encodeText encodes s (valid UTF-8) in enc including the BOM the encoding name prescribes.
func encodeText(s string, enc string) ([]byte, error) {
	switch enc {
	case "UTF8":
		return []byte(s), nil
	case "UTF8M":
		return append([]byte{0xEF, 0xBB, 0xBF}, s...), nil
	case "UTF16", "UTF16BE", "UTF16BEM", "UTF16LE", "UTF16LEM":
		le := strings.HasPrefix(enc, "UTF16LE")
		var out []byte
		put := func(u uint16) {
			if le {
				out = append(out, byte(u), byte(u>>8))
			} else {
				out = append(out, byte(u>>8), byte(u))
			}
		}
		if strings.HasSuffix(enc, "M") {
			put(0xFEFF)
		}
		for _, u := range utf16.Encode([]rune(s)) {
			put(u)
		}
		return out, nil
	case "SJIS":
		var out []byte
		for _, r := range s {
			switch {
			case r < 0x80:
				out = append(out, byte(r))
			case 0xFF61 <= r && r <= 0xFF9F:
				out = append(out, byte(r-0xFF61+0xA1))
			default:
				b, ok := sjisTable[r]
				if !ok {
					return nil, fmt.Errorf("rune %U not in the harness SJIS table", r)
				}
				out = append(out, b[0], b[1])
			}
		}
		return out, nil
	}
	return nil, fmt.Errorf("unknown encoding %s", enc)
}

// decodeText decodes b strictly: the BOM must be present exactly when the
// encoding name says so, the byte count must fit, surrogates must pair.
func decodeText(b []byte, enc string) (string, error) {
	switch enc {
	case "UTF8", "UTF8M":
		hasBOM := bytes.HasPrefix(b, []byte{0xEF, 0xBB, 0xBF})
		if enc == "UTF8M" {
			if !hasBOM {
				return "", errors.New("UTF8M: byte order mark missing")
			}
			b = b[3:]
		} else if hasBOM {
			return "", errors.New("UTF8: unexpected byte order mark")
		}
		if !utf8.Valid(b) {
			return "", errors.New("invalid UTF-8")
		}
		return string(b), nil
	case "UTF16", "UTF16BE", "UTF16BEM", "UTF16LE", "UTF16LEM":
		le := strings.HasPrefix(enc, "UTF16LE")
		if len(b)%2 != 0 {
			return "", fmt.Errorf("%s: odd number of bytes (%d)", enc, len(b))
		}
		us := make([]uint16, 0, len(b)/2)
		for i := 0; i+1 < len(b); i += 2 {
			if le {
				us = append(us, uint16(b[i])|uint16(b[i+1])<<8)
			} else {
				us = append(us, uint16(b[i])<<8|uint16(b[i+1]))
			}
		}
		if strings.HasSuffix(enc, "M") {
			if len(us) == 0 || us[0] != 0xFEFF {
				return "", fmt.Errorf("%s: byte order mark missing", enc)
			}
			us = us[1:]
		} else if len(us) > 0 && (us[0] == 0xFEFF || us[0] == 0xFFFE) {
			return "", fmt.Errorf("%s: unexpected byte order mark", enc)
		}
		for i := 0; i < len(us); i++ {
			switch {
			case 0xD800 <= us[i] && us[i] < 0xDC00:
				if i+1 >= len(us) || us[i+1] < 0xDC00 || us[i+1] > 0xDFFF {
					return "", fmt.Errorf("%s: unpaired surrogate", enc)
				}
				i++
			case 0xDC00 <= us[i] && us[i] <= 0xDFFF:
				return "", fmt.Errorf("%s: unpaired surrogate", enc)
			}
		}
		return string(utf16.Decode(us)), nil
	case "SJIS":
		var sb strings.Builder
		for i := 0; i < len(b); i++ {
			c := b[i]
			switch {
			case c < 0x80:
				sb.WriteByte(c)
			case 0xA1 <= c && c <= 0xDF:
				sb.WriteRune(rune(c) - 0xA1 + 0xFF61)
			default:
				if i+1 >= len(b) {
					return "", errors.New("SJIS: truncated double-byte character")
				}
				r, ok := sjisRev[[2]byte{c, b[i+1]}]
				if !ok {
					return "", fmt.Errorf("SJIS: unknown double-byte character %02X%02X", c, b[i+1])
				}
				sb.WriteRune(r)
				i++
			}
		}
		return sb.String(), nil
	}
	return "", fmt.Errorf("unknown encoding %s", enc)
}

func lbValue(name string) string {
	switch name {
	case "CRLF":
		return "\r\n"
	case "CR":
		return "\r"
	}
	return "\n"
}

// ---------------------------------------------------------------------
// table model

type cell struct {
	S    string `json:"s"`
	Null bool   `json:"null,omitempty"`
}

func (c cell) String() string {
	if c.Null {
		return "NULL"
	}
	return fmt.Sprintf("%q", c.S)
}

type field struct {
	S      string
	Quoted bool
	Null   bool // JSON null
}

// ---------------------------------------------------------------------
// CSV (RFC 4180 with a configurable delimiter; CR, LF and CRLF end a record)

// parseCSV returns the records and the line breaks seen outside quoted fields.
// A final line break is a terminator, not an empty record.
func parseCSV(text string, delim rune) ([][]field, []string, error) {
	rs := []rune(text)
	var recs [][]field
	var lbs []string
	var rec []field
	var cur strings.Builder
	quoted, inQuotes, afterQuote, any := false, false, false, false
	endField := func() {
		rec = append(rec, field{S: cur.String(), Quoted: quoted})
		cur.Reset()
		quoted, afterQuote = false, false
	}
	endRecord := func(lb string) {
		endField()
		recs = append(recs, rec)
		rec = nil
		lbs = append(lbs, lb)
		any = false
	}
	for i := 0; i < len(rs); i++ {
		r := rs[i]
		if inQuotes {
			if r == '"' {
				if i+1 < len(rs) && rs[i+1] == '"' {
					cur.WriteRune('"')
					i++
				} else {
					inQuotes = false
					afterQuote = true
				}
			} else {
				cur.WriteRune(r)
			}
			continue
		}
		switch {
		case r == delim:
			endField()
			any = true
		case r == '\r':
			if i+1 < len(rs) && rs[i+1] == '\n' {
				i++
				endRecord("\r\n")
			} else {
				endRecord("\r")
			}
		case r == '\n':
			endRecord("\n")
		case r == '"':
			if cur.Len() == 0 && !quoted && !afterQuote {
				quoted, inQuotes = true, true
				any = true
			} else {
				return nil, nil, fmt.Errorf("bare quotation mark in field at rune %d", i)
			}
		default:
			if afterQuote {
				return nil, nil, fmt.Errorf("text after closing quotation mark at rune %d", i)
			}
			cur.WriteRune(r)
			any = true
		}
	}
	if inQuotes {
		return nil, nil, errors.New("unterminated quoted field")
	}
	if any || cur.Len() > 0 || quoted || len(rec) > 0 {
		endField()
		recs = append(recs, rec)
	}
	return recs, lbs, nil
}

func csvQuote(s string) string { return `"` + strings.ReplaceAll(s, `"`, `""`) + `"` }

// writeCSV is the harness writer: NULL is an unquoted empty field; a text is
// quoted when allQuoted, or when it is empty or contains the delimiter, a
// quotation mark, CR, LF or an edge blank.
func writeCSV(header []string, rows [][]cell, delim rune, lb string, allQuoted bool) string {
	var b strings.Builder
	q := func(s string) string {
		if allQuoted || s == "" || strings.ContainsRune(s, delim) || strings.ContainsAny(s, "\"\r\n") || strings.HasPrefix(s, " ") || strings.HasSuffix(s, " ") {
			return csvQuote(s)
		}
		return s
	}
	if header != nil {
		for i, h := range header {
			if i > 0 {
				b.WriteRune(delim)
			}
			b.WriteString(q(h))
		}
		b.WriteString(lb)
	}
	for _, r := range rows {
		for i, c := range r {
			if i > 0 {
				b.WriteRune(delim)
			}
			if !c.Null {
				b.WriteString(q(c.S))
			}
		}
		b.WriteString(lb)
	}
	return b.String()
}

// ---------------------------------------------------------------------
// line splitting for the line-oriented formats

// splitLines splits text at the given line break only; the last element is
// what follows the last line break ("" when the text is terminated).
func splitLines(text, lb string) []string { return strings.Split(text, lb) }

// foreignBreaks reports a CR or LF in text that is not part of lb.
func foreignBreaks(text, lb string) bool {
	rest := strings.ReplaceAll(text, lb, "")
	return strings.ContainsAny(rest, "\r\n")
}

// ---------------------------------------------------------------------
// LTSV

func parseLTSV(text, lb string) ([][][2]string, error) {
	lines := splitLines(text, lb)
	if lines[len(lines)-1] == "" {
		lines = lines[:len(lines)-1]
	}
	var out [][][2]string
	for n, ln := range lines {
		var rec [][2]string
		for _, item := range strings.Split(ln, "\t") {
			k := strings.IndexByte(item, ':')
			if k < 0 {
				return nil, fmt.Errorf("line %d: field %q has no label separator", n+1, item)
			}
			rec = append(rec, [2]string{item[:k], item[k+1:]})
		}
		out = append(out, rec)
	}
	return out, nil
}

func writeLTSV(header []string, rows [][]cell, lb string) string {
	var b strings.Builder
	for _, r := range rows {
		for i, c := range r {
			if i > 0 {
				b.WriteByte('\t')
			}
			b.WriteString(header[i] + ":" + c.S)
		}
		b.WriteString(lb)
	}
	return b.String()
}

func ltsvLabelOK(s string) bool {
	if s == "" {
		return false
	}
	for _, r := range s {
		if !(r == '-' || r == '.' || r == '_' || ('0' <= r && r <= '9') || ('A' <= r && r <= 'Z') || ('a' <= r && r <= 'z')) {
			return false
		}
	}
	return true
}

// ---------------------------------------------------------------------
// fixed-length

// cutFixed cuts one line into fields by end positions counted in bytes of enc.
func cutFixed(line string, ends []int, enc string) ([]string, error) {
	out := make([]string, len(ends))
	pos, fi := 0, 0
	var cur strings.Builder
	for _, r := range line {
		for fi < len(ends) && pos >= ends[fi] {
			out[fi] = cur.String()
			cur.Reset()
			fi++
		}
		if fi >= len(ends) {
			return nil, fmt.Errorf("line is longer than %d bytes", ends[len(ends)-1])
		}
		pos += runeSize(r, enc)
		if pos > ends[fi] {
			return nil, fmt.Errorf("a character straddles the column boundary at byte %d", ends[fi])
		}
		cur.WriteRune(r)
	}
	if fi < len(ends) {
		out[fi] = cur.String()
	}
	return out, nil
}

func padRight(s string, width int, enc string) string {
	n := width - byteSize(s, enc)
	if n < 0 {
		n = 0
	}
	return s + strings.Repeat(" ", n/runeSize(' ', enc))
}

// writeFixed writes adjacent left-aligned columns of the given byte widths.
func writeFixed(header []string, rows [][]cell, widths []int, lb string, enc string) string {
	var b strings.Builder
	line := func(ss []string) {
		for i, s := range ss {
			b.WriteString(padRight(s, widths[i], enc))
		}
		b.WriteString(lb)
	}
	if header != nil {
		line(header)
	}
	for _, r := range rows {
		ss := make([]string, len(r))
		for i, c := range r {
			ss[i] = c.S
		}
		line(ss)
	}
	return b.String()
}

func trimBlank(s string) string { return strings.TrimFunc(s, unicode.IsSpace) }

// ---------------------------------------------------------------------
// JSON through encoding/json, keeping member order and detecting duplicates

type jmember struct {
	Key string
	Val field
	Obj []jmember // nested object (column names with a period)
}

func readJSONObject(dec *json.Decoder) ([]jmember, error) {
	var ms []jmember
	seen := map[string]bool{}
	for dec.More() {
		kt, err := dec.Token()
		if err != nil {
			return nil, err
		}
		k, ok := kt.(string)
		if !ok {
			return nil, fmt.Errorf("object key is %v", kt)
		}
		if seen[k] {
			return nil, &dupError{k}
		}
		seen[k] = true
		vt, err := dec.Token()
		if err != nil {
			return nil, err
		}
		m := jmember{Key: k}
		switch v := vt.(type) {
		case string:
			m.Val = field{S: v}
		case nil:
			m.Val = field{Null: true}
		case json.Delim:
			if v != '{' {
				return nil, fmt.Errorf("unexpected %v as member value", v)
			}
			sub, err := readJSONObject(dec)
			if err != nil {
				return nil, err
			}
			m.Obj = sub
		default:
			m.Val = field{S: fmt.Sprint(v)}
		}
		ms = append(ms, m)
	}
	if _, err := dec.Token(); err != nil { // closing brace
		return nil, err
	}
	return ms, nil
}

type dupError struct{ key string }

func (e *dupError) Error() string { return fmt.Sprintf("duplicate object member %q", e.key) }

// parseJSONTable reads `[ {..}, {..} ]`.
func parseJSONTable(text string) ([][]jmember, error) {
	if !utf8.ValidString(text) {
		return nil, errors.New("invalid UTF-8")
	}
	dec := json.NewDecoder(strings.NewReader(text))
	t, err := dec.Token()
	if err != nil {
		return nil, err
	}
	if d, ok := t.(json.Delim); !ok || d != '[' {
		return nil, fmt.Errorf("top level is %v, expected an array", t)
	}
	var out [][]jmember
	for dec.More() {
		t, err := dec.Token()
		if err != nil {
			return nil, err
		}
		if d, ok := t.(json.Delim); !ok || d != '{' {
			return nil, fmt.Errorf("array element is %v, expected an object", t)
		}
		ms, err := readJSONObject(dec)
		if err != nil {
			return nil, err
		}
		out = append(out, ms)
	}
	if _, err := dec.Token(); err != nil {
		return nil, err
	}
	if _, err := dec.Token(); err != io.EOF {
		return nil, errors.New("trailing data after the array")
	}
	return out, nil
}

// parseJSONLine reads one object that must fill the whole line.
func parseJSONLine(line string) ([]jmember, error) {
	dec := json.NewDecoder(strings.NewReader(line))
	t, err := dec.Token()
	if err != nil {
		return nil, err
	}
	if d, ok := t.(json.Delim); !ok || d != '{' {
		return nil, fmt.Errorf("line is %v, expected an object", t)
	}
	ms, err := readJSONObject(dec)
	if err != nil {
		return nil, err
	}
	if _, err := dec.Token(); err != io.EOF {
		return nil, errors.New("trailing data after the object")
	}
	return ms, nil
}

// jsonString spells a JSON string; backslashes as \u005C (csvq cannot load a
// string that ends in "\\", finding json_trailing_backslash_unloadable).
func jsonString(s string) string {
	b, _ := json.Marshal(s)
	// encoding/json escapes <, >, & as \u00XX: still valid JSON
	return strings.ReplaceAll(string(b), `\\`, `\u005C`)
}

func writeJSONObject(header []string, r []cell) string {
	var b strings.Builder
	b.WriteByte('{')
	for i, c := range r {
		if i > 0 {
			b.WriteByte(',')
		}
		b.WriteString(jsonString(header[i]) + ":")
		if c.Null {
			b.WriteString("null")
		} else {
			b.WriteString(jsonString(c.S))
		}
	}
	b.WriteByte('}')
	return b.String()
}

func writeJSON(header []string, rows [][]cell, lb string) string {
	var objs []string
	for _, r := range rows {
		objs = append(objs, writeJSONObject(header, r))
	}
	return "[" + strings.Join(objs, ",") + "]" + lb
}

func writeJSONL(header []string, rows [][]cell, lb string) string {
	var b strings.Builder
	for _, r := range rows {
		b.WriteString(writeJSONObject(header, r) + lb)
	}
	return b.String()
}
