package c02

import (
	"bytes"
	"context"
	"fmt"
	"os"
	"runtime"
	"sort"
	"strings"
	"unicode"
	"unicode/utf8"

	"github.com/mithrandie/csvq/lib/option"
	"github.com/mithrandie/csvq/lib/query"
	"github.com/mithrandie/csvq/lib/value"
	"pgregory.net/rapid"

	"verif/internal/fw"
	"verif/internal/run"
)

// ---------------------------------------------------------------------
// Known shapes. Each flag keeps the generator away from the exact shape of one
// genuine csvq defect that this check found, so that the search continues past
// it. C02_NOAVOID=name[,name...] (or "all") lets the generator produce the
// shape again (to reproduce the finding / after a fix).
const (
	avoidCSVLineBreakUnquoted   = false // csv_linebreak_unquoted: CSV/TSV field with CR/LF and no delimiter/quote is written unquoted
	avoidCSVSingleEmptyRecord   = true  // csv_single_empty_field_record_lost: a one-column CSV record whose field is empty (NULL, or "" quoted or not) is skipped on load like a blank line
	avoidLTSVSingleField        = true  // ltsv_single_field_record_dropped: the LTSV loader drops every line that has one field
	avoidLTSVColonInValue       = true  // ltsv_colon_in_value_dropped: the LTSV loader drops ':' inside values
	avoidFixedLineBreak         = true  // fixed_linebreak_accepted: fixed-length writer accepts CR/LF in a cell
	avoidFixedUTF16Padding      = true  // fixed_utf16_padding: fixed-length padding counts bytes but writes 2-byte blanks in UTF-16
	avoidJSONLCRLineBreak       = true  // jsonl_cr_linebreak_unloadable: JSON Lines written with line break CR cannot be loaded
	avoidJSONDuplicateMember    = true  // json_duplicate_member: column names "a.b" and "a" give {"a":{..},"a":..}
	avoidPartialOutputOnRefusal = true  // partial_output_on_refusal: LTSV/FIXED errors after the first 4 KiB were flushed
	avoidJSONLDoubleLineBreak   = false // jsonl_double_trailing_linebreak: every JSONL write path ends with two line breaks (CLI checks)
	avoidRawTrailingLineBreak   = true  // trailing_linebreak_not_encoded: the final line break is written as raw bytes (UTF-16 output gets an odd byte) (CLI checks)
	avoidCommitSessionLineBreak = false // commit_trailing_linebreak_from_session: COMMIT ends the file with the session's line break (CLI checks)
	avoidCRTerminatedFile       = true  // cr_terminated_file_unloadable: a CSV/TSV/LTSV/FIXED file whose last byte is a CR line break does not load ("invalid use of UnreadRune")
	avoidJSONNameTrimmed        = true  // json_column_name_trimmed: JSON output trims edge blanks of column names
	avoidJSONTrailingBackslash  = true  // json_trailing_backslash_unloadable: a JSON string ending in a backslash ("x\\") does not load
	avoidFixedSpacesCR          = true  // fixed_spaces_cr_linebreak: "SPACES" position detection does not recognise CR line breaks
)

var noAvoid = func() map[string]bool {
	m := map[string]bool{}
	for _, n := range strings.Split(os.Getenv("C02_NOAVOID"), ",") {
		if n = strings.TrimSpace(n); n != "" {
			m[n] = true
		}
	}
	return m
}()

func avoiding(flag bool, name string) bool { return flag && !noAvoid[name] && !noAvoid["all"] }

// ---------------------------------------------------------------------
// the case

type rtCase struct {
	Header []string `json:"header"`
	Rows   [][]cell `json:"rows"`
	Repeat int      `json:"repeat,omitempty"` // Rows are written Repeat times (big variants)
	Tail   [][]cell `json:"tail,omitempty"`   // rows after the repeated block

	Format        string `json:"format"`           // CSV TSV LTSV FIXED JSON JSONL
	Delim         string `json:"delim,omitempty"`  // CSV
	Fixed         string `json:"fixed,omitempty"`  // auto | explicit | single
	Slack         []int  `json:"slack,omitempty"`  // explicit/single: column width = widest content + slack (negative: too narrow)
	Widths        []int  `json:"widths,omitempty"` // explicit/single: absolute column widths in bytes (overrides Slack; CLI dialect check)
	Enc           string `json:"enc"`
	LB            string `json:"lb"`
	EncloseAll    bool   `json:"enclose_all,omitempty"`
	WithoutHeader bool   `json:"without_header,omitempty"`
	Strip         bool   `json:"strip,omitempty"`
	JsonEscape    string `json:"json_escape,omitempty"`
	Pretty        bool   `json:"pretty,omitempty"`

	ReadVia     string `json:"read_via,omitempty"`     // flags | func | spaces (FIXED auto, clean tables)
	ReadEnc     string `json:"read_enc,omitempty"`     // "" = Enc; AUTO/UTF8/UTF16 for encodings with a byte order mark
	WithoutNull bool   `json:"without_null,omitempty"` // reader option

	// CLI checks only
	Path  string `json:"path,omitempty"`  // out | stdout | create (CREATE TABLE .. AS SELECT + COMMIT)
	Color bool   `json:"color,omitempty"` // --color (file destinations only: colour on stdout is what the user asked for)
	Width string `json:"width,omitempty"` // subset of "WSA": --east-asian-encoding, --count-diacritical-sign, --count-format-code
}

func (c rtCase) ncols() int { return len(c.Header) }

func (c rtCase) allRows() [][]cell {
	n := c.Repeat
	if n < 1 {
		n = 1
	}
	out := make([][]cell, 0, len(c.Rows)*n+len(c.Tail))
	for i := 0; i < n; i++ {
		out = append(out, c.Rows...)
	}
	return append(out, c.Tail...)
}

func (c rtCase) delim() rune {
	if c.Format == "TSV" {
		return '\t'
	}
	r, _ := utf8.DecodeRuneInString(c.Delim)
	if c.Delim == "" {
		return ','
	}
	return r
}

func (c rtCase) isCSV() bool  { return c.Format == "CSV" || c.Format == "TSV" }
func (c rtCase) isJSON() bool { return c.Format == "JSON" || c.Format == "JSONL" }

// headerWritten: the format spells the header in its own line.
func (c rtCase) headerWritten() bool {
	switch c.Format {
	case "CSV", "TSV":
		return !c.WithoutHeader
	case "FIXED":
		return !c.WithoutHeader && c.Fixed != "single"
	}
	return false
}

var (
	formats   = []string{"CSV", "TSV", "LTSV", "FIXED", "JSON", "JSONL"}
	encodings = []string{"UTF8", "UTF8M", "UTF16", "UTF16BE", "UTF16LE", "UTF16BEM", "UTF16LEM", "SJIS"}
	lbs       = []string{"LF", "CRLF", "CR"}
)

func in(s string, xs []string) bool {
	for _, x := range xs {
		if s == x {
			return true
		}
	}
	return false
}

// malformed says why a case (e.g. a hand-edited replay file) is outside the domain.
func (c rtCase) malformed() string {
	if !in(c.Format, formats) || !in(c.Enc, encodings) || !in(c.LB, lbs) {
		return "unknown format/encoding/line break"
	}
	if c.ncols() < 1 || c.ncols() > 8 {
		return "column count"
	}
	seen := map[string]bool{}
	for _, h := range c.Header {
		k := strings.ToLower(trimBlank(h))
		if k == "" || seen[k] || !utf8.ValidString(h) {
			return "header names must be non-blank, valid and distinct"
		}
		seen[k] = true
	}
	for _, r := range append(append([][]cell{}, c.Rows...), c.Tail...) {
		if len(r) != c.ncols() {
			return "ragged rows"
		}
		for _, x := range r {
			if !utf8.ValidString(x.S) || (x.Null && x.S != "") {
				return "invalid cell"
			}
		}
	}
	if c.isJSON() && c.Enc != "UTF8" {
		return "JSON is UTF-8 only (manual)"
	}
	if strings.Trim(c.Width, "WSA") != "" {
		return "width flags"
	}
	if c.Format == "CSV" {
		d := c.delim()
		if d == '"' || d == '\r' || d == '\n' || utf8.RuneCountInString(c.Delim) > 1 {
			return "delimiter"
		}
	}
	if c.Format == "FIXED" {
		if !in(c.Fixed, []string{"auto", "explicit", "single"}) {
			return "fixed mode"
		}
		if c.Fixed != "auto" && len(c.Slack) != c.ncols() && len(c.Widths) != c.ncols() {
			return "slack length"
		}
		for _, w := range c.Widths {
			if w < 1 || w > 4096 || (isUTF16(c.Enc) && w%2 != 0) {
				return "column width"
			}
		}
	}
	if c.Enc == "SJIS" {
		for _, s := range c.allTexts() {
			if !sjisEncodable(s) {
				return "text outside the harness SJIS table"
			}
		}
	}
	if c.isJSON() && !in(c.JsonEscape, []string{"", "BACKSLASH", "HEX", "HEXALL"}) {
		return "json escape"
	}
	return ""
}

func (c rtCase) allTexts() []string {
	out := append([]string{}, c.Header...)
	for _, r := range append(append([][]cell{}, c.Rows...), c.Tail...) {
		for _, x := range r {
			out = append(out, x.S)
		}
	}
	return out
}

// writtenTexts: the texts the format has to spell (header only when it gets its own line or label).
func (c rtCase) writtenTexts() []string {
	var out []string
	if c.headerWritten() || c.Format == "LTSV" || c.isJSON() {
		out = append(out, c.Header...)
	}
	for _, r := range append(append([][]cell{}, c.Rows...), c.Tail...) {
		for _, x := range r {
			out = append(out, x.S)
		}
	}
	return out
}

// ---------------------------------------------------------------------
// classes of special content

func textClasses(s string, set map[string]bool) {
	if s == "" {
		return
	}
	if strings.ContainsAny(s, ",;|") {
		set["delim"] = true
	}
	if strings.Contains(s, "\t") {
		set["tab"] = true
	}
	if strings.Contains(s, `"`) {
		set["quote"] = true
	}
	if strings.ContainsAny(s, "'`\\") {
		set["otherquote"] = true
	}
	if strings.Contains(s, "\n") {
		set["lf"] = true
	}
	if strings.Contains(s, "\r") {
		set["cr"] = true
	}
	if strings.Contains(s, ":") {
		set["colon"] = true
	}
	if s != trimBlank(s) {
		set["edgeblank"] = true
	}
	if strings.Contains(strings.Trim(s, " "), " ") {
		set["innerblank"] = true
	}
	for _, r := range s {
		switch {
		case r < 0x80:
		case unicode.Is(unicode.Mn, r):
			set["combining"] = true
		case r == 0x3000 || (0xFF00 <= r && r <= 0xFFEF):
			set["fullwidth"] = true
		default:
			set[fmt.Sprintf("utf8x%d", utf8.RuneLen(r))] = true
		}
	}
}

func (c rtCase) contentClasses() []string {
	set := map[string]bool{}
	for _, s := range c.writtenTexts() {
		textClasses(s, set)
	}
	for _, r := range append(append([][]cell{}, c.Rows...), c.Tail...) {
		for _, x := range r {
			if x.Null {
				set["null"] = true
			} else if x.S == "" {
				set["empty"] = true
			}
		}
	}
	return fw.SortedKeys(set)
}

func (c rtCase) dialectString() string {
	var fl []string
	if c.EncloseAll {
		fl = append(fl, "Q")
	}
	if c.WithoutHeader {
		fl = append(fl, "N")
	}
	if c.Strip {
		fl = append(fl, "T")
	}
	if c.Pretty {
		fl = append(fl, "P")
	}
	if c.isJSON() && c.JsonEscape != "" && c.JsonEscape != "BACKSLASH" {
		fl = append(fl, c.JsonEscape)
	}
	f := c.Format
	if c.Format == "CSV" {
		f += "(" + string(c.delim()) + ")"
	}
	if c.Format == "FIXED" {
		f += "(" + c.Fixed + ")"
	}
	return fmt.Sprintf("%s/%s/%s/%s", f, c.Enc, c.LB, strings.Join(fl, ""))
}

func (c rtCase) defaultDialect() bool {
	return c.Format == "CSV" && c.delim() == ',' && c.Enc == "UTF8" && c.LB == "LF" && !c.EncloseAll && !c.WithoutHeader && !c.Strip
}

// outcome fills classes and, for a non-trivial case, the fingerprint. full:
// all labels (roundtrip_inproc; the other checks draw from the same generator
// and only label the format, the evidence histogram keeps the 80 largest labels).
func (c rtCase) outcome(full bool) fw.Outcome {
	cls := c.contentClasses()
	o := fw.Outcome{}
	if full {
		enc := c.Enc
		if isUTF16(enc) {
			enc = "UTF16*"
		}
		o.Classes = append(o.Classes, "fmt:"+c.Format, "enc:"+enc)
		if c.Format == "FIXED" {
			o.Classes = append(o.Classes, "fixed:"+c.Fixed)
		}
		for _, k := range cls {
			o.Classes = append(o.Classes, "has:"+k)
		}
		if len(c.allRows()) == 0 {
			o.Classes = append(o.Classes, "zero_rows")
		}
	}
	if c.Repeat > 1 {
		o.Classes = append(o.Classes, "big")
	}
	special := false
	for _, k := range cls {
		if k != "null" && k != "empty" && k != "innerblank" {
			special = true
		}
	}
	if special || !c.defaultDialect() {
		o.Fingerprint = c.dialectString() + "|" + strings.Join(cls, ",")
	}
	return o
}

// ---------------------------------------------------------------------
// spellability, from the format definitions

const (
	spellYes = iota
	spellNo
	spellOpen
)

func hasBreak(s string) bool { return strings.ContainsAny(s, "\r\n") }

// fixedWidths: the byte widths of the columns. auto: widest written content
// (what "SPACES" output measures); explicit/single: widest content + slack, at least 1.
func (c rtCase) fixedWidths() []int {
	if c.Fixed != "auto" && len(c.Widths) == c.ncols() {
		return append([]int{}, c.Widths...)
	}
	w := make([]int, c.ncols())
	if c.headerWritten() {
		for i, h := range c.Header {
			w[i] = byteSize(h, c.Enc)
		}
	}
	for _, r := range append(append([][]cell{}, c.Rows...), c.Tail...) {
		for i, x := range r {
			if n := byteSize(x.S, c.Enc); n > w[i] {
				w[i] = n
			}
		}
	}
	if c.Fixed != "auto" {
		unit := runeSize(' ', c.Enc)
		for i := range w {
			w[i] += c.Slack[i] * unit
			if w[i] < unit {
				w[i] = unit
			}
		}
	}
	return w
}

func (c rtCase) fixedFits() bool {
	w := c.fixedWidths()
	if c.headerWritten() {
		for i, h := range c.Header {
			if byteSize(h, c.Enc) > w[i] {
				return false
			}
		}
	}
	for _, r := range append(append([][]cell{}, c.Rows...), c.Tail...) {
		for i, x := range r {
			if byteSize(x.S, c.Enc) > w[i] {
				return false
			}
		}
	}
	return true
}

func jsonNameSpecial(h string) bool { return strings.ContainsAny(h, ".\\") }

func (c rtCase) spellable() (int, string) {
	nrows := len(c.allRows())
	switch c.Format {
	case "CSV", "TSV":
		if nrows == 0 && c.WithoutHeader {
			return spellOpen, "no header line and no records: nothing to write"
		}
		return spellYes, ""
	case "LTSV":
		if nrows == 0 {
			return spellOpen, "LTSV has no place for a header without records"
		}
		for _, h := range c.Header {
			if !ltsvLabelOK(h) {
				return spellNo, fmt.Sprintf("label %q has characters outside [0-9A-Za-z_.-]", h)
			}
		}
		for _, r := range c.allRows() {
			for _, x := range r {
				if strings.ContainsAny(x.S, "\t\r\n") {
					return spellNo, fmt.Sprintf("value %q contains TAB/CR/LF", x.S)
				}
			}
		}
		return spellYes, ""
	case "FIXED":
		if nrows == 0 && !c.headerWritten() {
			return spellOpen, "no header line and no records: nothing to write"
		}
		for _, s := range c.writtenTexts() {
			if hasBreak(s) {
				return spellNo, fmt.Sprintf("text %q contains a line break", s)
			}
		}
		if c.Fixed == "auto" {
			for _, w := range c.fixedWidths() {
				if w == 0 {
					return spellOpen, "a column of width 0"
				}
			}
			return spellYes, ""
		}
		if !c.fixedFits() {
			return spellNo, "a text is wider than its column"
		}
		return spellYes, ""
	}
	for _, h := range c.Header {
		if jsonNameSpecial(h) {
			return spellOpen, "column name with a period or backslash (path syntax)"
		}
	}
	return spellYes, ""
}

// jsonPath: the member path a column name stands for in JSON output: the name
// is trimmed, an unescaped period separates members, `\.` is a literal
// period and `\\` a literal backslash (lib/json/path_scanner.go).
func jsonPath(h string) []string {
	var segs []string
	var cur strings.Builder
	rs := []rune(trimBlank(h))
	for i := 0; i < len(rs); i++ {
		switch {
		case rs[i] == '\\' && i+1 < len(rs) && (rs[i+1] == '.' || rs[i+1] == '\\'):
			cur.WriteRune(rs[i+1])
			i++
		case rs[i] == '.':
			segs = append(segs, cur.String())
			cur.Reset()
		default:
			cur.WriteRune(rs[i])
		}
	}
	return append(segs, cur.String())
}

// jsonCollision: two column names whose member paths collide (one path is a
// prefix of, or equal to, the other): "a.b" with "a"; `\\a` with `\a`.
func jsonCollision(header []string) bool {
	paths := make([][]string, len(header))
	for i, h := range header {
		paths[i] = jsonPath(h)
	}
	for i := range paths {
		for j := range paths {
			if i == j || len(paths[i]) > len(paths[j]) {
				continue
			}
			pre := true
			for k := range paths[i] {
				if paths[i][k] != paths[j][k] {
					pre = false
				}
			}
			if pre && (len(paths[i]) < len(paths[j]) || i < j) {
				return true
			}
		}
	}
	return false
}

// ---------------------------------------------------------------------
// known shapes as predicates on the case (used for signatures and to count
// how often the generator still produces them)

func (c rtCase) unquotedBreakField() bool {
	if !c.isCSV() {
		return false
	}
	d := string(c.delim())
	bad := func(s string) bool { return hasBreak(s) && !strings.Contains(s, d) && !strings.Contains(s, `"`) }
	if c.headerWritten() && !c.EncloseAll {
		for _, h := range c.Header {
			if bad(h) {
				return true
			}
		}
	}
	if !c.EncloseAll {
		for _, r := range c.allRows() {
			for _, x := range r {
				if bad(x.S) {
					return true
				}
			}
		}
	}
	return false
}

func (c rtCase) singleEmptyRecord() bool {
	if !c.isCSV() || c.ncols() != 1 {
		return false
	}
	for _, r := range c.allRows() {
		if r[0].S == "" {
			return true
		}
	}
	return false
}

func (c rtCase) colonInValue() bool {
	for _, r := range c.allRows() {
		for _, x := range r {
			if strings.Contains(x.S, ":") {
				return true
			}
		}
	}
	return false
}

func (c rtCase) breakInWritten() bool {
	for _, s := range c.writtenTexts() {
		if hasBreak(s) {
			return true
		}
	}
	return false
}

func (c rtCase) trailingBackslash() bool {
	if !c.isJSON() || (c.JsonEscape != "" && c.JsonEscape != "BACKSLASH") {
		return false
	}
	for _, s := range c.writtenTexts() {
		if strings.HasSuffix(s, `\`) {
			return true
		}
	}
	for _, h := range c.Header {
		for _, seg := range strings.Split(h, ".") {
			if strings.HasSuffix(seg, `\`) {
				return true
			}
		}
	}
	return false
}

func (c rtCase) crTerminated() bool {
	if c.LB != "CR" || c.Strip || c.isJSON() || (c.Format == "FIXED" && c.Fixed == "single") {
		return false
	}
	return len(c.allRows()) > 0 || c.headerWritten()
}

func (c rtCase) jsonNameWithEdgeBlank() bool {
	if !c.isJSON() {
		return false
	}
	for _, h := range c.Header {
		if h != trimBlank(h) {
			return true
		}
	}
	return false
}

// knownShape names the known defect whose shape the case has ("" if none).
func (c rtCase) knownShape() string {
	switch {
	case c.unquotedBreakField():
		return "csv_linebreak_unquoted"
	case c.singleEmptyRecord():
		return "csv_single_empty_field_record_lost"
	case c.trailingBackslash():
		return "json_trailing_backslash_unloadable"
	case c.jsonNameWithEdgeBlank():
		return "json_column_name_trimmed"
	case c.Format == "LTSV" && c.ncols() == 1:
		return "ltsv_single_field_record_dropped"
	case c.Format == "LTSV" && c.colonInValue():
		return "ltsv_colon_in_value_dropped"
	case c.Format == "FIXED" && c.breakInWritten():
		return "fixed_linebreak_accepted"
	case c.Format == "FIXED" && isUTF16(c.Enc):
		return "fixed_utf16_padding"
	case c.Format == "FIXED" && c.ReadVia == "spaces" && c.LB == "CR":
		return "fixed_spaces_cr_linebreak"
	case c.Format == "JSONL" && c.LB == "CR" && len(c.allRows()) >= 2:
		return "jsonl_cr_linebreak_unloadable"
	case c.isJSON() && jsonCollision(c.Header):
		return "json_duplicate_member"
	case c.crTerminated():
		return "cr_terminated_file_unloadable"
	case c.Format == "JSONL" && c.Pretty && len(c.allRows()) > 0:
		return "jsonl_pretty_print_unloadable"
	}
	return ""
}

// sig: the known shape's signature if the case has one, else base_<format>.
func (c rtCase) sig(base string) string {
	if k := c.knownShape(); k != "" {
		return k
	}
	return base + "_" + strings.ToLower(c.Format)
}

// ---------------------------------------------------------------------
// generator

type tok struct {
	s   string
	cls string
}

var tokens = []tok{
	{"a", "plain"}, {"b", "plain"}, {"Zx", "plain"}, {"q", "plain"}, {"0", "plain"}, {"42", "plain"}, {"-1.5", "plain"},
	{" ", "blank"}, {" ", "blank"},
	{",", "delim"}, {";", "delim"}, {"|", "delim"}, {"\t", "tab"},
	{`"`, "quote"}, {`"`, "quote"}, {"'", "otherquote"}, {"`", "otherquote"}, {`\`, "otherquote"},
	{"\n", "break"}, {"\r", "break"}, {"\r\n", "break"},
	{":", "colon"},
	{"é", "nonascii"}, {"ß", "nonascii"}, {"日", "nonascii"}, {"あ", "nonascii"}, {"€", "nonascii"},
	{"Ａ", "nonascii"}, {"　", "nonascii"}, {"😀", "nonascii"}, {"𠮷", "nonascii"}, {"é", "nonascii"}, {"ö", "nonascii"},
}

var sjisTokens = []tok{{"あ", "nonascii"}, {"日本語", "nonascii"}, {"表", "nonascii"}, {"ソ", "nonascii"}, {"ポ", "nonascii"},
	{"ｱ", "nonascii"}, {"ｶﾞ", "nonascii"}, {"Ａ", "nonascii"}, {"１", "nonascii"}, {"　", "nonascii"}, {"ー", "nonascii"}}

var safeNames = []string{"a", "b", "id", "v", "name", "col_1", "X-y", "n0", "K", "key2", "Z_", "t-t"}

// allowedTokens: tokens whose use keeps the table spellable in the format and
// outside the known shapes; dirty lets unspellable tokens through.
func allowedTokens(c *rtCase, dirty bool, forHeader bool) []tok {
	var out []tok
	src := tokens
	if c.Enc == "SJIS" {
		src = nil
		for _, tk := range tokens {
			if tk.cls != "nonascii" {
				src = append(src, tk)
			}
		}
		src = append(src, sjisTokens...)
	}
	for _, tk := range src {
		ok := true
		switch tk.cls {
		case "break":
			switch c.Format {
			case "CSV", "TSV":
				if avoiding(avoidCSVLineBreakUnquoted, "csv_linebreak_unquoted") && !c.EncloseAll {
					ok = false
				}
			case "LTSV":
				ok = dirty
			case "FIXED":
				ok = dirty && !avoiding(avoidFixedLineBreak, "fixed_linebreak_accepted")
			}
		case "tab":
			if c.Format == "LTSV" {
				ok = dirty
			}
		case "colon":
			if c.Format == "LTSV" && !forHeader && avoiding(avoidLTSVColonInValue, "ltsv_colon_in_value_dropped") {
				ok = false
			}
		}
		if ok {
			out = append(out, tk)
		}
	}
	return out
}

func genText(t *rapid.T, label string, toks []tok, lo, hi int) string {
	n := fw.Range(t, label+"n", lo, hi)
	var b strings.Builder
	for i := 0; i < n; i++ {
		b.WriteString(fw.PickU(t, label, toks).s)
	}
	return b.String()
}

func genCell(t *rapid.T, toks []tok) cell {
	switch fw.Weighted(t, "cellkind", []int{8, 7, 25, 60}) {
	case 0:
		return cell{Null: true}
	case 1:
		return cell{}
	case 2:
		return cell{S: genText(t, "plain", tokens[:7], 1, 2)}
	}
	return cell{S: genText(t, "tok", toks, 1, 4)}
}

func genHeader(t *rapid.T, c *rtCase, n int, dirty bool) []string {
	toks := allowedTokens(c, dirty, true)
	seen := map[string]bool{}
	var out []string
	safePct := 55
	if c.Format == "LTSV" && !dirty {
		safePct = 100
	}
	for i := 0; i < n; i++ {
		var h string
		if fw.Pct(t, "hsafe", safePct) {
			h = fw.PickU(t, "hname", safeNames)
		} else {
			h = genText(t, "htok", toks, 1, 3)
		}
		if c.isJSON() && fw.Pct(t, "hperiod", 8) {
			// path syntax (documented: a period makes a child object): plain segments only
			h = fw.PickU(t, "hname", safeNames) + "." + fw.PickU(t, "hsub", safeNames)
		}
		if c.isJSON() && avoiding(avoidJSONNameTrimmed, "json_column_name_trimmed") {
			h = trimBlank(h)
		}
		if c.isJSON() && c.JsonEscape == "BACKSLASH" && strings.HasSuffix(h, `\`) && avoiding(avoidJSONTrailingBackslash, "json_trailing_backslash_unloadable") {
			h += "z"
		}
		if trimBlank(h) == "" {
			h = "h" + h
		}
		for seen[strings.ToLower(trimBlank(h))] {
			h += fmt.Sprint(i + 1)
		}
		seen[strings.ToLower(trimBlank(h))] = true
		out = append(out, h)
	}
	if c.isJSON() && avoiding(avoidJSONDuplicateMember, "json_duplicate_member") {
		for jsonCollision(out) {
			for i := range out {
				out[i] = strings.ReplaceAll(strings.ReplaceAll(out[i], ".", "_"), `\`, "/")
				if !jsonCollision(out) {
					break
				}
			}
			// replacing periods can create duplicates: make names distinct again
			seen = map[string]bool{}
			for i := range out {
				for seen[strings.ToLower(trimBlank(out[i]))] {
					out[i] += fmt.Sprint(i + 1)
				}
				seen[strings.ToLower(trimBlank(out[i]))] = true
			}
		}
	}
	return out
}

// genTableOpts draws the option vector and the table. cli: shapes for the CLI
// checks (no reader variants); allowDirty: 15% of the cases may contain texts
// the format cannot spell; safeHeader: column names are plain identifiers.
func genTableOpts(t *rapid.T, cli bool, allowDirty bool, safeHeader bool) rtCase {
	c := rtCase{}
	c.Format = formats[fw.Weighted(t, "format", []int{26, 12, 14, 20, 14, 14})]
	if c.isJSON() {
		c.Enc = "UTF8"
		c.JsonEscape = fw.PickU(t, "escape", []string{"BACKSLASH", "HEX", "HEXALL"})
		c.Pretty = fw.Pct(t, "pretty", 15)
	} else {
		c.Enc = encodings[fw.Weighted(t, "enc", []int{36, 10, 6, 6, 8, 8, 8, 18})]
	}
	c.LB = lbs[fw.Weighted(t, "lb", []int{45, 30, 25})]
	c.EncloseAll = fw.Pct(t, "encloseall", 35)
	c.WithoutHeader = fw.Pct(t, "withoutheader", 25)
	c.Strip = fw.Pct(t, "strip", 25)
	if c.Format == "CSV" {
		c.Delim = fw.PickU(t, "delim", []string{",", ",", ";", "|", "\t"})
	}
	if c.Format == "FIXED" {
		c.Fixed = []string{"auto", "explicit", "single"}[fw.Weighted(t, "fixedmode", []int{45, 35, 20})]
		if avoiding(avoidFixedUTF16Padding, "fixed_utf16_padding") && isUTF16(c.Enc) {
			c.Enc = fw.PickU(t, "fixedenc", []string{"UTF8", "UTF8M", "SJIS"})
		}
	}
	if c.Format == "JSONL" && c.LB == "CR" && avoiding(avoidJSONLCRLineBreak, "jsonl_cr_linebreak_unloadable") {
		c.LB = fw.PickU(t, "jsonllb", []string{"LF", "CRLF"})
	}
	if c.LB == "CR" && !c.isJSON() && avoiding(avoidCRTerminatedFile, "cr_terminated_file_unloadable") {
		c.Strip = true
	}
	dirty := fw.Pct(t, "dirty", 15) && allowDirty
	big := fw.Weighted(t, "big", []int{94, 4, 2})
	if safeHeader {
		big = 0
	}
	if big > 0 {
		if avoiding(avoidPartialOutputOnRefusal, "partial_output_on_refusal") {
			dirty = false
		} else if allowDirty && (c.Format == "LTSV" || c.Format == "FIXED") {
			dirty = fw.Pct(t, "bigdirty", 50)
		}
	}

	ncols := fw.Range(t, "ncols", 1, 4)
	if c.Format == "LTSV" && ncols == 1 && avoiding(avoidLTSVSingleField, "ltsv_single_field_record_dropped") {
		ncols = fw.Range(t, "ncols2", 2, 4)
	}
	if safeHeader {
		for i := 0; i < ncols; i++ {
			c.Header = append(c.Header, safeNames[(fw.Uniform(t, "hbase", len(safeNames))+i*5)%len(safeNames)])
		}
		for i := range c.Header { // distinct (case-insensitively)
			for j := 0; j < i; j++ {
				if strings.EqualFold(c.Header[i], c.Header[j]) {
					c.Header[i] += fmt.Sprint(i + 1)
				}
			}
		}
	} else {
		c.Header = genHeader(t, &c, ncols, dirty)
	}
	toks := allowedTokens(&c, dirty && big == 0, false)
	nrows := fw.Range(t, "nrows", 0, 6)
	if big > 0 && nrows == 0 {
		nrows = 2
	}
	fixCell := func(x cell) cell {
		if c.isCSV() && ncols == 1 && avoiding(avoidCSVSingleEmptyRecord, "csv_single_empty_field_record_lost") {
			if x.S == "" {
				return cell{S: "e"}
			}
		}
		if c.isJSON() && c.JsonEscape == "BACKSLASH" && strings.HasSuffix(x.S, `\`) && avoiding(avoidJSONTrailingBackslash, "json_trailing_backslash_unloadable") {
			x.S += "z"
		}
		return x
	}
	for i := 0; i < nrows; i++ {
		row := make([]cell, ncols)
		for j := range row {
			row[j] = fixCell(genCell(t, toks))
		}
		c.Rows = append(c.Rows, row)
	}
	if big > 0 {
		// a block of rows repeated until the output crosses 4 KiB resp. 64 KiB, then a tail row
		// (with dirty content the refusal comes after the writer's buffer was flushed)
		per := 0
		for _, r := range c.Rows {
			per += 2 * len(r)
			for _, x := range r {
				per += len(x.S)
			}
		}
		target := 5000
		if big == 2 {
			target = 70000
		}
		c.Repeat = target/per + 1
		if c.Format == "JSON" && c.Repeat*len(c.Rows) > 3000 {
			// a JSON record is longer than the estimate (it repeats the column names), so 3000 records cross 64 KiB as
			// well; the JSON reader of the go-text dependency copies its list of array elements for every element
			// (quadratic: 15 000 records allocate 2 GB and a 16-shard run exhausted the machine's memory)
			c.Repeat = 3000/len(c.Rows) + 1
		}
		tt := allowedTokens(&c, dirty, false)
		row := make([]cell, ncols)
		for j := range row {
			row[j] = fixCell(genCell(t, tt))
		}
		c.Tail = [][]cell{row}
	}
	if c.Format == "FIXED" && c.Fixed != "auto" {
		for i := 0; i < ncols; i++ {
			s := fw.Range(t, "slack", 0, 3)
			if dirty && fw.Pct(t, "narrow", 40) {
				s = -fw.Range(t, "narrowby", 1, 2)
			}
			c.Slack = append(c.Slack, s)
		}
	}
	if cli {
		c.Color = fw.Pct(t, "color", 35)
		for _, f := range []string{"W", "S", "A"} {
			if fw.Pct(t, "width"+f, 20) {
				c.Width += f
			}
		}
	}
	if !cli {
		c.ReadVia = fw.PickU(t, "readvia", []string{"flags", "func"})
		if c.Format == "FIXED" && c.Fixed == "auto" && c.spacesReadable() && fw.Pct(t, "spaces", 50) &&
			!(c.LB == "CR" && len(c.allRows())+len(c.Header) > 1 && avoiding(avoidFixedSpacesCR, "fixed_spaces_cr_linebreak")) {
			c.ReadVia = "spaces"
		}
		c.WithoutNull = fw.Pct(t, "withoutnull", 20)
		switch c.Enc {
		case "UTF8M":
			c.ReadEnc = fw.PickU(t, "readenc", []string{"", "", "AUTO", "UTF8"})
		case "UTF16BEM", "UTF16LEM":
			c.ReadEnc = fw.PickU(t, "readenc", []string{"", "", "AUTO", "UTF16"})
		}
	}
	return c
}

// spacesReadable: a table for which "SPACES" (split lines automatically by
// spaces) is well defined: every written text is non-empty and has no white space.
func (c rtCase) spacesReadable() bool {
	if c.Format != "FIXED" || c.Fixed != "auto" || len(c.allRows()) == 0 {
		return false
	}
	for _, s := range c.writtenTexts() {
		if s == "" || strings.IndexFunc(s, unicode.IsSpace) >= 0 {
			return false
		}
	}
	for _, r := range c.allRows() {
		for _, x := range r {
			if x.Null {
				return false
			}
		}
	}
	return true
}

// ---------------------------------------------------------------------
// writing through csvq (in-process)

func setFlags(s *run.Sess, kv ...interface{}) error {
	for i := 0; i+1 < len(kv); i += 2 {
		if err := s.Tx.SetFlag(kv[i].(string), kv[i+1]); err != nil {
			return fmt.Errorf("SetFlag(%s, %v): %v", kv[i], kv[i+1], err)
		}
	}
	return nil
}

func positionsArg(ends []int, single bool) string {
	ss := make([]string, len(ends))
	for i, e := range ends {
		ss[i] = fmt.Sprint(e)
	}
	p := "[" + strings.Join(ss, ", ") + "]"
	if single {
		p = "S" + p
	}
	return p
}

func cumulate(w []int, sep int) []int {
	ends := make([]int, len(w))
	pos := 0
	for i, x := range w {
		if i > 0 {
			pos += sep
		}
		pos += x
		ends[i] = pos
	}
	return ends
}

// writePositions: the --write-delimiter-positions value of the case ("" = SPACES).
func (c rtCase) writePositions() string {
	if c.Format != "FIXED" || c.Fixed == "auto" {
		return ""
	}
	return positionsArg(cumulate(c.fixedWidths(), 0), c.Fixed == "single")
}

// readEnds: the column end positions (bytes) of the lines csvq is expected to write.
func (c rtCase) readEnds() []int {
	if c.Fixed == "auto" {
		return cumulate(c.fixedWidths(), runeSize(' ', c.Enc)) // auto output puts one blank between columns
	}
	return cumulate(c.fixedWidths(), 0)
}

func buildView(c rtCase) *query.View {
	v := query.NewView()
	v.Header = query.NewHeader("t", c.Header)
	rows := c.allRows()
	v.RecordSet = make(query.RecordSet, len(rows))
	for i, r := range rows {
		vals := make([]value.Primary, len(r))
		for j, x := range r {
			if x.Null {
				vals[j] = value.NewNull()
			} else {
				vals[j] = value.NewString(x.S)
			}
		}
		v.RecordSet[i] = query.NewRecord(vals)
	}
	return v
}

// encodeInproc writes the table with query.EncodeView under the case's export options.
func encodeInproc(c rtCase) (out []byte, encErr error, harness error) {
	s, err := run.NewSess(run.Opt{Dir: fw.WorkDir()})
	if err != nil {
		return nil, nil, err
	}
	defer s.Close()
	if err := s.Tx.SetFormatFlag(c.Format, ""); err != nil {
		return nil, nil, err
	}
	kv := []interface{}{
		option.ExportEncodingFlag, c.Enc, option.LineBreakFlag, c.LB,
		option.EncloseAllFlag, c.EncloseAll, option.WithoutHeaderFlag, c.WithoutHeader,
		option.StripEndingLineBreakFlag, c.Strip, option.PrettyPrintFlag, c.Pretty,
	}
	if c.Format == "CSV" {
		kv = append(kv, option.ExportDelimiterFlag, string(c.delim()))
	}
	if p := c.writePositions(); p != "" {
		kv = append(kv, option.ExportDelimiterPositionsFlag, p)
	}
	if c.isJSON() && c.JsonEscape != "" {
		kv = append(kv, option.JsonEscapeFlag, c.JsonEscape)
	}
	if err := setFlags(s, kv...); err != nil {
		return nil, nil, err
	}
	opts := s.Tx.Flags.ExportOptions.Copy()
	var buf bytes.Buffer
	func() {
		defer func() {
			if r := recover(); r != nil {
				stack := make([]byte, 3000)
				stack = stack[:runtime.Stack(stack, false)]
				encErr = &encodePanic{fmt.Sprintf("%v\n%s", r, stack)}
			}
		}()
		_, encErr = query.EncodeView(context.Background(), &buf, buildView(c), opts, s.Tx.Palette)
	}()
	return buf.Bytes(), encErr, nil
}

// encodePanic: EncodeView panicked (reported as a violation, not as a refusal).
type encodePanic struct{ msg string }

func (e *encodePanic) Error() string { return "panic: " + e.msg }

// bomless is the encoding name without its byte order mark.
func bomless(enc string) string {
	switch enc {
	case "UTF8M":
		return "UTF8"
	case "UTF16BEM":
		return "UTF16BE"
	case "UTF16LEM":
		return "UTF16LE"
	}
	return enc
}

// terminated appends the ending line break the way the manual describes a
// written file (absent with --strip-ending-line-break, for single-line
// fixed-length data, and for JSON Lines whose records are already terminated).
func (c rtCase) terminated(out []byte) []byte {
	if c.Strip || (c.Format == "FIXED" && c.Fixed == "single") || c.Format == "JSONL" || len(out) == 0 {
		return out
	}
	lb, _ := encodeText(lbValue(c.LB), bomless(c.Enc))
	return append(append([]byte{}, out...), lb...)
}

func (c rtCase) fileName() string {
	switch c.Format {
	case "FIXED":
		return "t.txt"
	}
	return "t." + strings.ToLower(c.Format)
}

// ---------------------------------------------------------------------
// expectations for a re-loaded table

func (c rtCase) numberedHeader() []string {
	h := make([]string, c.ncols())
	for i := range h {
		h[i] = fmt.Sprintf("c%d", i+1)
	}
	return h
}

// compareLoaded compares what csvq loaded with the written table.
func compareLoaded(c rtCase, got run.Tbl, withoutNull bool) string {
	return compareLoadedMode(c, got, withoutNull, false)
}

// lenientNull: NULL and "" are interchangeable wherever the format is not JSON.
func compareLoadedMode(c rtCase, got run.Tbl, withoutNull bool, lenientNull bool) string {
	rows := c.allRows()
	if len(got.Rows) != len(rows) {
		return fmt.Sprintf("record count %d, written %d", len(got.Rows), len(rows))
	}
	open := false // column names in path syntax: only the record count is asserted
	if c.isJSON() {
		for _, h := range c.Header {
			if jsonNameSpecial(h) {
				open = true
			}
		}
		if len(rows) == 0 {
			return "" // JSON has no place for a header without records
		}
	}
	if open {
		return ""
	}
	var wantH []string
	switch {
	case c.isCSV() || c.Format == "FIXED":
		if c.headerWritten() {
			wantH = c.Header
		} else {
			wantH = c.numberedHeader()
		}
	default:
		wantH = c.Header
	}
	if len(got.Header) != len(wantH) {
		return fmt.Sprintf("field count %d, written %d (header %q)", len(got.Header), len(wantH), got.Header)
	}
	for i := range wantH {
		w := wantH[i]
		if c.Format == "FIXED" {
			w = trimBlank(w)
		}
		if got.Header[i] != w {
			return fmt.Sprintf("header[%d] %q, written %q", i, got.Header[i], w)
		}
	}
	for i, r := range rows {
		if len(got.Rows[i]) != len(r) {
			return fmt.Sprintf("record %d has %d fields, written %d", i+1, len(got.Rows[i]), len(r))
		}
		for j, w := range r {
			g := got.Rows[i][j]
			if g.K != "S" && g.K != "N" {
				return fmt.Sprintf("record %d field %d loaded as %s", i+1, j+1, g)
			}
			wt := w.S
			if c.Format == "FIXED" {
				wt = trimBlank(wt)
			}
			if g.S != wt {
				return fmt.Sprintf("record %d field %d: loaded %s, written %s", i+1, j+1, g, w)
			}
			// NULL-ness where the format has two spellings
			exact := c.isJSON() || (c.isCSV() && c.EncloseAll)
			if lenientNull && !c.isJSON() {
				continue
			}
			switch {
			case exact && !(withoutNull && !c.isJSON()):
				if w.Null != (g.K == "N") {
					return fmt.Sprintf("record %d field %d: loaded %s, written %s", i+1, j+1, g, w)
				}
			case c.isCSV() && wt == "":
				// manual: unquoted empty fields load as NULL, with --without-null as empty strings
				if (g.K == "N") == withoutNull {
					return fmt.Sprintf("record %d field %d: empty field loaded as %s with without-null=%v", i+1, j+1, g, withoutNull)
				}
			}
		}
	}
	return ""
}

func sortedCopy(xs []string) []string {
	out := append([]string{}, xs...)
	sort.Strings(out)
	return out
}
