package c02

import (
	"fmt"
	"os"
	"path/filepath"
	"strings"
	"testing"
	"time"

	"pgregory.net/rapid"

	"verif/internal/fw"
	"verif/internal/run"
	"verif/internal/val"
)

// ---------------------------------------------------------------------
// CLI plumbing

type cliRunner struct{ bin, home string }

func getRunner() (cliRunner, error) {
	bin, err := run.Binary(fw.WorkDir(), false)
	if err != nil {
		return cliRunner{}, err
	}
	home := filepath.Join(fw.WorkDir(), "clihome")
	_ = os.MkdirAll(home, 0755)
	return cliRunner{bin: bin, home: home}, nil
}

// exec runs csvq in dir. A watchdog hit is retried once with a longer limit;
// a second hit is a harness problem (hangs are not this property's business).
func (r cliRunner) exec(dir string, args []string, prog string) (run.CLIRes, error) {
	full := append([]string{"-q", "--timezone", "UTC"}, args...)
	if prog != "" {
		src := filepath.Join(r.home, fmt.Sprintf("prog-%d.sql", nextSeq()))
		if err := os.WriteFile(src, []byte(prog), 0644); err != nil {
			return run.CLIRes{}, err
		}
		defer os.Remove(src)
		full = append(full, "-s", src)
	}
	res := run.CLI(run.CLIOpt{Bin: r.bin, Dir: dir, Home: r.home, Args: full, Timeout: 60 * time.Second})
	if res.TimedOut {
		fw.AddExtra("watchdog_retries", 1)
		res = run.CLI(run.CLIOpt{Bin: r.bin, Dir: dir, Home: r.home, Args: full, Timeout: 240 * time.Second})
		if res.TimedOut {
			return res, fmt.Errorf("csvq did not finish within 240 s: %v", full)
		}
	}
	return res, nil
}

func nextSeq() int64 { return addSeq() }

// importArgs: the options under which a file in dialect c is read.
func importArgs(c rtCase) []string {
	var a []string
	if !c.isJSON() {
		a = append(a, "--encoding", c.Enc)
	}
	if (c.isCSV() || c.Format == "FIXED") && !c.headerWritten() {
		a = append(a, "--no-header")
	}
	switch c.Format {
	case "CSV":
		a = append(a, "--delimiter", string(c.delim()))
	case "FIXED":
		a = append(a, "--import-format", "FIXED", "--delimiter-positions", positionsArg(c.readEnds(), c.Fixed == "single"))
	}
	return a
}

// exportArgs: the options that make csvq write query results in dialect c.
func exportArgs(c rtCase) []string {
	a := []string{"--format", c.Format, "--line-break", c.LB}
	if !c.isJSON() {
		a = append(a, "--write-encoding", c.Enc)
	}
	if c.Format == "CSV" {
		a = append(a, "--write-delimiter", string(c.delim()))
	}
	if p := c.writePositions(); p != "" {
		a = append(a, "--write-delimiter-positions", p)
	}
	if c.EncloseAll {
		a = append(a, "--enclose-all")
	}
	if c.WithoutHeader {
		a = append(a, "--without-header")
	}
	if c.Strip {
		a = append(a, "--strip-ending-line-break")
	}
	if c.isJSON() && c.JsonEscape != "" {
		a = append(a, "--json-escape", c.JsonEscape)
	}
	if c.Pretty {
		a = append(a, "--pretty-print")
	}
	if c.Color && c.Path != "stdout" {
		a = append(a, "--color")
	}
	return append(a, widthArgs(c.Width)...)
}

func widthArgs(w string) []string {
	var a []string
	if strings.Contains(w, "W") {
		a = append(a, "--east-asian-encoding")
	}
	if strings.Contains(w, "S") {
		a = append(a, "--count-diacritical-sign")
	}
	if strings.Contains(w, "A") {
		a = append(a, "--count-format-code")
	}
	return a
}

// reloadCLI lets a fresh csvq process read name (in dir) under c's import
// options and returns what it loaded (printed as all-enclosed CSV and parsed
// by the harness reader).
func reloadCLI(r cliRunner, dir string, c rtCase, name string) (run.Tbl, string, error) {
	args := append(importArgs(c), "--format", "CSV", "--enclose-all", "--line-break", "LF", "--write-encoding", "UTF8")
	res, err := r.exec(dir, args, "SELECT * FROM "+val.QuoteIdent(name)+";")
	if err != nil {
		return run.Tbl{}, "", err
	}
	if res.Code != 0 {
		return run.Tbl{}, fmt.Sprintf("exit %d: %s", res.Code, strings.TrimSpace(res.Stderr)), nil
	}
	recs, _, perr := parseCSV(res.Stdout, ',')
	if perr != nil {
		return run.Tbl{}, "", fmt.Errorf("reload output is not CSV: %v: %q", perr, clip(res.Stdout))
	}
	var t run.Tbl
	for i, rec := range recs {
		if i == 0 {
			for _, f := range rec {
				t.Header = append(t.Header, f.S)
			}
			continue
		}
		row := make([]val.Val, len(rec))
		for j, f := range rec {
			if f.S == "" && !f.Quoted {
				row[j] = val.Null
			} else {
				row[j] = val.Str(f.S)
			}
		}
		t.Rows = append(t.Rows, row)
	}
	return t, "", nil
}

// harnessFile writes the table in dialect c with the harness writers.
func harnessFile(c rtCase, terminate bool) ([]byte, error) {
	lb := lbValue(c.LB)
	rows := c.allRows()
	var hdr []string
	if c.headerWritten() {
		hdr = c.Header
	}
	var text string
	switch c.Format {
	case "CSV", "TSV":
		text = writeCSV(hdr, rows, c.delim(), lb, c.EncloseAll)
	case "LTSV":
		text = writeLTSV(c.Header, rows, lb)
	case "FIXED":
		if c.Fixed == "single" {
			text = writeFixed(nil, rows, c.fixedWidths(), "", c.Enc)
		} else {
			text = writeFixed(hdr, rows, c.fixedWidths(), lb, c.Enc)
		}
	case "JSON":
		text = writeJSON(c.Header, rows, lb)
	case "JSONL":
		text = writeJSONL(c.Header, rows, lb)
	}
	if !terminate {
		text = strings.TrimSuffix(text, lb)
	}
	return encodeText(text, c.Enc)
}

// ---------------------------------------------------------------------
// C1. dialect_preserved: UPDATE / INSERT + COMMIT on a file in dialect D

type dialCase struct {
	D       rtCase `json:"d"`   // the file: dialect and contents (Strip = the session's --strip-ending-line-break)
	Op      string `json:"op"`  // update | insert
	Col     int    `json:"col"` // update: column index
	NewVal  cell   `json:"new_val"`
	NewRow  []cell `json:"new_row,omitempty"`
	SessLB  string `json:"sess_lb"`  // session export settings, deliberately unrelated to D
	SessEnc string `json:"sess_enc"` //
	SessDel string `json:"sess_delim"`
	SessQ   bool   `json:"sess_enclose_all"`
	SessN   bool   `json:"sess_without_header"`
	SessC   bool   `json:"sess_color,omitempty"`
	SessP   bool   `json:"sess_pretty,omitempty"`
	SessJ   string `json:"sess_json_escape,omitempty"`
	SessW   string `json:"sess_width,omitempty"`
	// AttrPretty: ALTER TABLE .. SET PRETTY_PRINT TO TRUE before the edit (JSON / JSON Lines files)
	AttrPretty bool `json:"attr_pretty,omitempty"`
}

func (dc dialCase) edited() rtCase {
	e := dc.D
	rows := dc.D.allRows()
	e.Repeat, e.Tail = 0, nil
	e.Rows = nil
	for _, r := range rows {
		nr := append([]cell{}, r...)
		if dc.Op == "update" {
			nr[dc.Col] = dc.NewVal
		}
		e.Rows = append(e.Rows, nr)
	}
	if dc.Op == "insert" {
		e.Rows = append(e.Rows, dc.NewRow)
	}
	return e
}

func genDialect(t *rapid.T) dialCase {
	d := genTableOpts(t, true, false, true)
	d.Pretty = false
	d.JsonEscape = ""
	dc := dialCase{}
	if d.Format == "FIXED" && d.Fixed == "auto" {
		d.Fixed = "explicit"
	}
	if (d.Format == "LTSV" || d.isJSON()) && len(d.Rows) == 0 {
		row := make([]cell, d.ncols())
		for j := range row {
			row[j] = cell{S: fmt.Sprintf("v%d", j)}
		}
		d.Rows = [][]cell{row}
	}
	toks := allowedTokens(&d, false, false)
	if d.isJSON() && avoiding(avoidJSONTrailingBackslash, "json_trailing_backslash_unloadable") {
		for _, r := range d.Rows {
			for j := range r {
				if strings.HasSuffix(r[j].S, `\`) {
					r[j].S += "z"
				}
			}
		}
	}
	fix := func(x cell, j int) cell {
		if x.S == "" && !x.Null && !d.isJSON() && !(d.isCSV() && d.EncloseAll) {
			x.Null = true // one spelling
		}
		if d.isCSV() && d.ncols() == 1 && x.S == "" && avoiding(avoidCSVSingleEmptyRecord, "csv_single_empty_field_record_lost") {
			x = cell{S: "e"}
		}
		if d.isJSON() && strings.HasSuffix(x.S, `\`) && avoiding(avoidJSONTrailingBackslash, "json_trailing_backslash_unloadable") {
			x.S += "z"
		}
		return x
	}
	if len(d.Rows) == 0 || fw.Pct(t, "insert", 40) {
		dc.Op = "insert"
		for j := 0; j < d.ncols(); j++ {
			dc.NewRow = append(dc.NewRow, fix(genCell(t, toks), j))
		}
	} else {
		dc.Op = "update"
		dc.Col = fw.Uniform(t, "col", d.ncols())
		dc.NewVal = fix(cell{S: genText(t, "newval", toks, 1, 3) + "#"}, dc.Col)
		if d.Format == "LTSV" && fw.Pct(t, "badval", 25) {
			dc.NewVal.S = "p" + fw.PickU(t, "badtok", []string{"\t", "\n", "\r\n"}) + "q"
		}
	}
	// session export settings
	dc.SessLB = fw.PickU(t, "sesslb", lbs)
	dc.SessEnc = fw.PickU(t, "sessenc", []string{"UTF8", "UTF8M", "UTF16LEM", "SJIS"})
	dc.SessDel = fw.PickU(t, "sessdelim", []string{",", ";", "|", "\t"})
	dc.SessQ = fw.Pct(t, "sessq", 50)
	dc.SessN = fw.Pct(t, "sessn", 50)
	dc.SessC = fw.Pct(t, "sessc", 40)
	dc.SessP = fw.Pct(t, "sessp", 40)
	dc.SessJ = fw.PickU(t, "sessj", []string{"", "BACKSLASH", "HEX", "HEXALL"})
	for _, f := range []string{"W", "S", "A"} {
		if fw.Pct(t, "sessw"+f, 20) {
			dc.SessW += f
		}
	}
	dc.AttrPretty = d.isJSON() && fw.Pct(t, "attrpretty", 35)
	d.Strip = fw.Pct(t, "sessstrip", 25)
	if d.LB != dc.SessLB && avoiding(avoidCommitSessionLineBreak, "commit_trailing_linebreak_from_session") {
		if fw.Pct(t, "samelb", 50) {
			dc.SessLB = d.LB
		} else {
			d.Strip = true
		}
	}
	if d.Format == "JSONL" {
		dc.SessLB = d.LB // the line break of JSON Lines files is not detected (not asserted)
		if avoiding(avoidJSONLDoubleLineBreak, "jsonl_double_trailing_linebreak") {
			d.Strip = true
		}
		if d.LB == "CR" && avoiding(avoidJSONLCRLineBreak, "jsonl_cr_linebreak_unloadable") {
			d.LB, dc.SessLB = "LF", "LF"
		}
	}
	if isUTF16(d.Enc) && avoiding(avoidRawTrailingLineBreak, "trailing_linebreak_not_encoded") {
		d.Strip = true
	}
	if d.LB == "CR" && !d.isJSON() && avoiding(avoidCRTerminatedFile, "cr_terminated_file_unloadable") {
		d.Strip = true
	}
	// a file without any line break has no line-break convention: at least two lines
	lines := len(d.Rows)
	if d.headerWritten() {
		lines++
	}
	for ; lines < 2 && !d.isJSON() && !(d.Format == "FIXED" && d.Fixed == "single"); lines++ {
		row := make([]cell, d.ncols())
		for j := range row {
			row[j] = cell{S: fmt.Sprintf("w%d", j)}
		}
		d.Rows = append(d.Rows, row)
	}
	// fixed-length columns wide enough for the edited table
	if d.Format == "FIXED" {
		dc.D = d
		after := dc.edited()
		after.Slack = make([]int, d.ncols())
		after.Widths = nil
		wa := after.fixedWidths()
		unit := runeSize(' ', d.Enc)
		d.Widths = nil
		for i := range wa {
			d.Widths = append(d.Widths, wa[i]+unit*fw.Range(t, "slack", 0, 2))
		}
		if dc.Op == "update" && wa[dc.Col] > unit && fw.Pct(t, "toonarrow", 20) {
			d.Widths[dc.Col] = wa[dc.Col] - unit // the new value does not fit
			for _, r := range d.Rows {
				if byteSize(r[dc.Col].S, d.Enc) > d.Widths[dc.Col] {
					d.Widths[dc.Col] = wa[dc.Col]
				}
			}
			if d.headerWritten() && byteSize(d.Header[dc.Col], d.Enc) > d.Widths[dc.Col] {
				d.Widths[dc.Col] = wa[dc.Col]
			}
		}
	}
	dc.D = d
	return dc
}

func sqlCell(x cell) string {
	if x.Null {
		return "NULL"
	}
	return val.QuoteSQL(x.S)
}

func checkDialect(dc dialCase) (fw.Outcome, *fw.Violation) {
	d := dc.D
	if why := d.malformed(); why != "" || !in(dc.Op, []string{"update", "insert"}) || !in(dc.SessLB, lbs) || !in(dc.SessJ, []string{"", "BACKSLASH", "HEX", "HEXALL"}) || strings.Trim(dc.SessW, "WSA") != "" {
		return fw.Outcome{Discard: true}, nil
	}
	after := dc.edited()
	if sp, _ := d.spellable(); sp != spellYes {
		return fw.Outcome{Discard: true}, nil
	}
	spAfter, whyAfter := after.spellable()
	if spAfter == spellOpen || after.malformed() != "" || (dc.Op == "update" && (dc.Col < 0 || dc.Col >= d.ncols())) || (dc.Op == "insert" && len(dc.NewRow) != d.ncols()) {
		return fw.Outcome{Discard: true}, nil
	}
	o := after.outcome(false)
	o.Classes = append(o.Classes, "fmt:"+d.Format, "op:"+dc.Op)
	o.Fingerprint = fmt.Sprintf("%s|%s|sess:%s,%s,c%v,p%v,%s,%s,ap%v|%s", d.dialectString(), dc.Op, dc.SessLB, dc.SessEnc, dc.SessC, dc.SessP, dc.SessJ, dc.SessW, dc.AttrPretty, strings.Join(after.contentClasses(), ","))
	if dc.SessC {
		o.Classes = append(o.Classes, "sess_color")
	}
	if dc.AttrPretty && d.isJSON() {
		o.Classes = append(o.Classes, "attr_pretty:"+d.Format)
		if dc.SessC {
			o.Classes = append(o.Classes, "attr_pretty+color")
		}
	}
	r, err := getRunner()
	if err != nil {
		return o, fw.Harness("%v", err)
	}
	dir := caseDir("dial")
	defer os.RemoveAll(dir)
	name := d.fileName()
	terminate := !(d.LB == "CR" && !d.isJSON()) // csvq cannot load a file ending in CR (known shape): the original is left unterminated
	orig, err := harnessFile(d, terminate)
	if err != nil {
		return o, fw.Harness("%v", err)
	}
	if err := os.WriteFile(filepath.Join(dir, name), orig, 0644); err != nil {
		return o, fw.Harness("%v", err)
	}
	tbl := val.QuoteIdent(name)
	var stmt string
	if dc.Op == "update" {
		col := d.Header[dc.Col]
		if !d.headerWritten() && (d.isCSV() || d.Format == "FIXED") {
			col = fmt.Sprintf("c%d", dc.Col+1)
		}
		stmt = fmt.Sprintf("UPDATE %s SET %s = %s;", tbl, val.QuoteIdent(col), sqlCell(dc.NewVal))
	} else {
		vs := make([]string, len(dc.NewRow))
		for i, x := range dc.NewRow {
			vs[i] = sqlCell(x)
		}
		stmt = fmt.Sprintf("INSERT INTO %s VALUES (%s);", tbl, strings.Join(vs, ", "))
	}
	args := importArgs(d)
	args = append(args, "--line-break", dc.SessLB, "--write-encoding", dc.SessEnc, "--write-delimiter", dc.SessDel, "--format", "CSV")
	if dc.SessQ {
		args = append(args, "--enclose-all")
	}
	if dc.SessN {
		args = append(args, "--without-header")
	}
	if d.Strip {
		args = append(args, "--strip-ending-line-break")
	}
	if dc.SessC {
		args = append(args, "--color")
	}
	if dc.SessP {
		args = append(args, "--pretty-print")
	}
	if dc.SessJ != "" {
		args = append(args, "--json-escape", dc.SessJ)
	}
	args = append(args, widthArgs(dc.SessW)...)
	if dc.AttrPretty && d.isJSON() {
		stmt = fmt.Sprintf("ALTER TABLE %s SET PRETTY_PRINT TO TRUE;\n", tbl) + stmt
	}
	res, err := r.exec(dir, args, stmt+"\nCOMMIT;\n")
	if err != nil {
		return o, fw.Harness("%v", err)
	}
	what := fmt.Sprintf("%s, session line-break %s write-encoding %s color=%v pretty-print=%v json-escape=%s width=%s; %s", d.dialectString(), dc.SessLB, dc.SessEnc, dc.SessC, dc.SessP, dc.SessJ, dc.SessW, stmt)
	if spAfter == spellNo {
		// the new value cannot be spelled in the file's format: the commit must be refused and leave the file as it was
		o.Classes = append(o.Classes, "unspellable_edit")
		now, rerr := os.ReadFile(filepath.Join(dir, name))
		if res.Code != 0 {
			if rerr != nil || string(now) != string(orig) {
				return o, fw.V(after.sig("refused_commit_changed_file"), "%s: exit %d (%s) but the file changed: %q -> %q", what, res.Code, strings.TrimSpace(res.Stderr), clip(string(orig)), clip(string(now)))
			}
			if left := run.ControlFiles(dir); len(left) > 0 {
				return o, fw.V(after.sig("refused_commit_litter"), "%s: exit %d, left behind %v", what, res.Code, left)
			}
			o.Classes = append(o.Classes, "refused")
			return o, nil
		}
		back, lerr, err := reloadCLI(r, dir, after, name)
		if err != nil {
			return o, fw.Harness("%v", err)
		}
		if lerr != "" {
			return o, fw.V(after.sig("accepted_unspellable_reload_error"), "%s: committed although %s; the file no longer loads: %s\nafter: %q", what, whyAfter, lerr, clip(string(now)))
		}
		if diff := compareLoadedMode(after, back, false, true); diff != "" {
			return o, fw.V(after.sig("accepted_unspellable_mismatch"), "%s: committed although %s: %s\nafter: %q", what, whyAfter, diff, clip(string(now)))
		}
		return o, nil
	}
	if res.Code != 0 {
		return o, fw.V(after.sig("dialect_edit_failed"), "%s: exit %d: %s\nfile: %q", what, res.Code, strings.TrimSpace(res.Stderr), clip(string(orig)))
	}
	got, err := os.ReadFile(filepath.Join(dir, name))
	if err != nil {
		return o, fw.V(after.sig("dialect_file_missing"), "%s: the table file is gone after COMMIT: %v", what, err)
	}
	// the committed bytes, read by the harness in D
	chk := after
	chk.EncloseAll = false // whether the quoting habit survives is not part of the property
	if v := verifyBytes(chk, got, true); v != nil {
		// is the only foreign thing the ending line break: the session's kind, or raw bytes?
		if !d.Strip && !d.isJSON() && !(d.Format == "FIXED" && d.Fixed == "single") {
			own, _ := encodeText(lbValue(d.LB), bomless(d.Enc))
			sessEnc, _ := encodeText(lbValue(dc.SessLB), bomless(d.Enc))
			sessRaw := []byte(lbValue(dc.SessLB))
			try := func(suffix []byte) bool {
				if !strings.HasSuffix(string(got), string(suffix)) {
					return false
				}
				repaired := append(append([]byte{}, got[:len(got)-len(suffix)]...), own...)
				return verifyBytes(chk, repaired, true) == nil
			}
			switch {
			case d.LB != dc.SessLB && try(sessEnc):
				return o, fw.V("commit_trailing_linebreak_from_session", "%s: every line break of the committed file is %s except the last, which is the session's %s\nbefore: %q\nafter:  %q", what, d.LB, dc.SessLB, clip(string(orig)), clip(string(got)))
			case isUTF16(d.Enc) && try(sessRaw):
				return o, fw.V("trailing_linebreak_not_encoded", "%s: the ending line break of the committed file is the raw byte(s) % X, not %s text\nafter: % X", what, sessRaw, d.Enc, got[max(0, len(got)-12):])
			}
		}
		v.Msg = what + "\nbefore: " + fmt.Sprintf("%q", clip(string(orig))) + "\n" + v.Msg
		if strings.Contains(string(got), "\x1b[") {
			v.Sig = "color_escape_in_file"
		} else if strings.HasPrefix(v.Sig, "independent_") {
			v.Sig = "dialect_" + strings.TrimPrefix(v.Sig, "independent_")
		}
		return o, v
	}
	// and by a fresh csvq process with the same import options
	back, lerr, err := reloadCLI(r, dir, after, name)
	if err != nil {
		return o, fw.Harness("%v", err)
	}
	if lerr != "" {
		return o, fw.V(after.sig("dialect_reload_error"), "%s: the committed file no longer loads: %s\nafter: %q", what, lerr, clip(string(got)))
	}
	if diff := compareLoadedMode(chk, back, false, true); diff != "" {
		return o, fw.V(after.sig("dialect_reload_mismatch"), "%s: re-loaded table differs from the edited table: %s\nafter: %q", what, diff, clip(string(got)))
	}
	return o, nil
}

func TestC02DialectPreserved(t *testing.T) {
	fw.Run(t, fw.Spec[dialCase]{
		ID: "C02", Name: "dialect_preserved", Quick: 400, Thorough: 8000,
		Gen: genDialect, Check: checkDialect,
		Rule: "a table file written by the harness's own writers in dialect D = (CSV with , ; | TAB / TSV / LTSV / FIXED explicit or single-line / JSON / JSONL) x encoding incl. byte order mark x line break x header-or-not x all-quoted-or-not, cells from the token alphabet (spellable in D); one UPDATE of a column or INSERT of a row + COMMIT through the real binary with the matching import options while the session's export flags (--line-break, --write-encoding, --write-delimiter, --enclose-all, --without-header) say something else; oracle on the committed bytes, read by the harness: decode strictly in D's encoding and BOM convention, every line break including the last is D's, delimiter and header convention are D's, data = edited table; then a fresh csvq process must load the same table from the file; non-trivial always (non-default dialect or special content), distinct by (D, op, session line break/encoding, content classes)",
		Assumptions: []string{"column names are plain identifiers (the edit is written in SQL)", "the line break of JSON and JSON Lines files is not asserted (csvq does not detect it; for JSON it is insignificant white space)",
			"whether an all-quoted file stays all-quoted is not asserted (not part of the property statement)"},
	})
}

// ---------------------------------------------------------------------
// C2. out_paths: SELECT results written to --out FILE / stdout with -f FORMAT

func genOut(t *rapid.T) rtCase {
	c := genTableOpts(t, true, true, false)
	if len(c.Rows) == 0 {
		row := make([]cell, c.ncols())
		for j := range row {
			row[j] = cell{S: fmt.Sprintf("v%d", j)}
		}
		c.Rows = [][]cell{row}
	}
	c.Path = fw.PickU(t, "path", []string{"out", "stdout", "create"})
	if c.Format == "FIXED" && c.Fixed == "single" && c.Path == "stdout" {
		c.Path = "out" // on stdout csvq adds a line break after single-line data (for the terminal)
	}
	if c.Format == "FIXED" && c.Path == "create" {
		c.Path = "out" // a new table cannot be created in fixed-length format (format follows the file extension)
	}
	if c.Format == "JSONL" && avoiding(avoidJSONLDoubleLineBreak, "jsonl_double_trailing_linebreak") {
		c.Strip = true
	}
	if isUTF16(c.Enc) && avoiding(avoidRawTrailingLineBreak, "trailing_linebreak_not_encoded") {
		c.Strip = true
	}
	if c.Path == "create" && c.isJSON() && avoiding(avoidJSONTrailingBackslash, "json_trailing_backslash_unloadable") {
		// a created table is written with the default escape type (BACKSLASH) whatever --json-escape says
		fixT := func(s string) string {
			if strings.HasSuffix(s, `\`) {
				return s + "z"
			}
			return s
		}
		for i := range c.Header {
			c.Header[i] = fixT(c.Header[i])
		}
		for _, rows := range [][][]cell{c.Rows, c.Tail} {
			for _, r := range rows {
				for j := range r {
					r[j].S = fixT(r[j].S)
				}
			}
		}
	}
	return c
}

// sourceJSON: the table as a JSON file csvq can load whatever the texts are
// (backslashes as \ because of the trailing-backslash loader defect).
func sourceJSON(c rtCase) string {
	js := jsonString
	var objs []string
	for _, r := range c.allRows() {
		var ms []string
		for i, x := range r {
			v := "null"
			if !x.Null {
				v = js(x.S)
			}
			ms = append(ms, js(c.Header[i])+":"+v)
		}
		objs = append(objs, "{"+strings.Join(ms, ",")+"}")
	}
	return "[" + strings.Join(objs, ",\n") + "]\n"
}

func checkOut(c rtCase) (fw.Outcome, *fw.Violation) {
	if why := c.malformed(); why != "" || len(c.allRows()) == 0 || !in(c.Path, []string{"out", "stdout", "create"}) || (c.Path == "create" && c.Format == "FIXED") {
		return fw.Outcome{Discard: true}, nil
	}
	o := c.outcome(false)
	o.Classes = append(o.Classes, "fmt:"+c.Format, "path:"+c.Path)
	if c.Color && c.Path != "stdout" {
		o.Classes = append(o.Classes, "color_to_file")
		if c.isJSON() && c.Pretty {
			o.Classes = append(o.Classes, "color+pretty_json_to_file")
		}
	}
	if c.Format == "JSONL" && c.Pretty {
		o.Classes = append(o.Classes, "jsonl_pretty")
	}
	if c.Width != "" {
		o.Classes = append(o.Classes, "width_flags")
	}
	if o.Fingerprint != "" {
		o.Fingerprint = fmt.Sprintf("%s|color=%v|%s|%s", c.Path, c.Color && c.Path != "stdout", c.Width, o.Fingerprint)
	}
	r, err := getRunner()
	if err != nil {
		return o, fw.Harness("%v", err)
	}
	dir := caseDir("out")
	defer os.RemoveAll(dir)
	if err := os.WriteFile(filepath.Join(dir, "src.json"), []byte(sourceJSON(c)), 0644); err != nil {
		return o, fw.Harness("%v", err)
	}
	name := c.fileName()
	args := exportArgs(c)
	if c.Path == "out" {
		args = append(args, "--out", name)
	}
	prog := "SELECT * FROM `src.json`;"
	if c.Path == "create" {
		prog = "CREATE TABLE " + val.QuoteIdent(name) + " AS SELECT * FROM `src.json`;\nCOMMIT;\n"
	}
	res, err := r.exec(dir, args, prog)
	if err != nil {
		return o, fw.Harness("%v", err)
	}
	d := fmt.Sprintf("%s color=%v width=%s to %s", c.dialectString(), c.Color && c.Path != "stdout", c.Width, c.Path)
	sigc := c // for signatures: a created JSON table is written with the default escape type
	if c.Path == "create" && c.isJSON() {
		sigc.JsonEscape = "BACKSLASH"
	}
	fileBytes, ferr := os.ReadFile(filepath.Join(dir, name))
	sp, why := c.spellable()
	if res.Code != 0 {
		// refused: nothing may have been written
		if ferr == nil {
			return o, fw.V("partial_output_on_refusal", "%s: exit %d (%s) but the --out file exists with %d bytes: %q", d, res.Code, strings.TrimSpace(res.Stderr), len(fileBytes), clip(string(fileBytes)))
		}
		if res.Stdout != "" {
			return o, fw.V("partial_output_on_refusal", "%s: exit %d (%s) but %d bytes were written to stdout: %q", d, res.Code, strings.TrimSpace(res.Stderr), len(res.Stdout), clip(res.Stdout))
		}
		if sp == spellYes {
			return o, fw.V(c.sig("refused_spellable"), "%s: every text is spellable but csvq exits %d: %s", d, res.Code, strings.TrimSpace(res.Stderr))
		}
		o.Classes = append(o.Classes, "refused")
		return o, nil
	}
	var data []byte
	if c.Path == "out" || c.Path == "create" {
		if res.Stdout != "" {
			return o, fw.V(c.sig("out_stdout_not_empty"), "%s: --out given but stdout has %q", d, clip(res.Stdout))
		}
		if ferr != nil {
			return o, fw.V(c.sig("out_file_missing"), "%s: exit 0 but no --out file (%d records selected)", d, len(c.allRows()))
		}
		data = fileBytes
	} else {
		data = []byte(res.Stdout)
		if err := os.WriteFile(filepath.Join(dir, name), data, 0644); err != nil {
			return o, fw.Harness("%v", err)
		}
	}
	o.Classes = append(o.Classes, "written")
	if len(data) > 65536 {
		o.Classes = append(o.Classes, "over64k")
	}
	base := "out"
	if c.Path == "create" {
		base = "create"
	}
	if sp == spellNo {
		base = "accepted_unspellable"
	} else if c.Path == "create" {
		// The manual does not say which session flags shape a created file: any mix of the
		// session's export settings and the defaults is accepted, as long as ONE dialect reads
		// the bytes as the table (and csvq then loads it under that dialect's import options).
		var first *fw.Violation
		found := false
		for _, cand := range createCandidates(c) {
			v := verifyBytes(cand, data, true)
			if v == nil {
				c, found = cand, true
				break
			}
			if first == nil {
				first = v
			}
		}
		if !found {
			first.Msg = "created table: " + first.Msg
			if strings.Contains(string(data), "\x1b[") {
				first.Sig = "color_escape_in_file"
			}
			return o, first
		}
	} else if v := verifyBytes(c, data, true); v != nil {
		v.Msg = "to " + c.Path + ": " + v.Msg
		if c.Path == "out" && strings.Contains(string(data), "\x1b[") {
			v.Sig = "color_escape_in_file"
		}
		return o, v
	}
	back, lerr, err := reloadCLI(r, dir, c, name)
	if err != nil {
		return o, fw.Harness("%v", err)
	}
	if lerr != "" {
		if c.Format == "JSONL" && !c.Strip {
			lb := lbValue(c.LB)
			if strings.HasSuffix(string(data), lb+lb) {
				return o, fw.V("jsonl_double_trailing_linebreak", "%s: the output ends with two line breaks and does not load: %s\noutput: %q", d, lerr, clip(string(data)))
			}
		}
		return o, fw.V(sigc.sig(base+"_reload_error"), "%s: written with exit 0 (%s) but a fresh csvq cannot load it: %s\noutput: %q", d, why, lerr, clip(string(data)))
	}
	if diff := compareLoaded(c, back, false); diff != "" {
		return o, fw.V(sigc.sig(base+"_reload_mismatch"), "%s: %s (%s)\noutput: %q", d, diff, why, clip(string(data)))
	}
	return o, nil
}

// createCandidates: the dialects a created table may have: per setting the
// session's value or csvq's default (session value first).
func createCandidates(c rtCase) []rtCase {
	out := []rtCase{c}
	vary := func(f func(*rtCase) bool) {
		n := len(out)
		for i := 0; i < n; i++ {
			x := out[i]
			if f(&x) {
				out = append(out, x)
			}
		}
	}
	vary(func(x *rtCase) bool {
		if x.Format != "CSV" || x.delim() == ',' {
			return false
		}
		x.Delim = ","
		return true
	})
	vary(func(x *rtCase) bool {
		if x.isJSON() || x.Enc == "UTF8" {
			return false
		}
		x.Enc = "UTF8"
		return true
	})
	vary(func(x *rtCase) bool {
		if !x.isCSV() || !x.WithoutHeader {
			return false
		}
		x.WithoutHeader = false
		return true
	})
	vary(func(x *rtCase) bool {
		if x.LB == "LF" {
			return false
		}
		x.LB = "LF"
		return true
	})
	vary(func(x *rtCase) bool {
		if !x.EncloseAll {
			return false
		}
		x.EncloseAll = false
		return true
	})
	return out
}

func TestC02OutPaths(t *testing.T) {
	fw.Run(t, fw.Spec[rtCase]{
		ID: "C02", Name: "out_paths", Quick: 400, Thorough: 8000,
		Gen: genOut, Check: checkOut,
		Rule:        "the tables and option vectors of roundtrip_inproc (>= 1 record; 6% past 4 KiB / 64 KiB), loaded by the real binary from a JSON source file and written with -f FORMAT and the export options to --out FILE, to stdout, or into a new table (CREATE TABLE file AS SELECT + COMMIT; CSV/TSV/LTSV/JSON/JSONL by extension), with --color (file destinations, 35%), --pretty-print (JSON and JSON Lines), --json-escape, --east-asian-encoding/--count-diacritical-sign/--count-format-code as further session flags; oracle: a non-zero exit leaves the --out file absent and stdout empty (and must not happen for a spellable table); otherwise the bytes satisfy the independent readers including csvq's own ending line break (decodes in the encoding, every line break is the configured one) and a fresh csvq process loads the same table from them with the matching import options; non-trivial as in roundtrip_inproc, distinct by (path, dialect, content classes)",
		Assumptions: []string{"a created table may follow, per setting, the session's export flag or the default (the manual is silent): it must read back under one such dialect", "--color is not passed on the stdout path (colour there is what the user asked for); a file must never contain escape sequences", "single-line fixed-length data is only written to --out (on stdout csvq appends a line break for the terminal)", "the source is a JSON file with backslashes spelled \\u005C (loader defect json_trailing_backslash_unloadable)"},
	})
}
