package c02

import (
	"bytes"
	"encoding/csv"
	"fmt"
	"os"
	"path/filepath"
	"strings"
	"sync/atomic"
	"testing"

	"github.com/mithrandie/csvq/lib/option"
	"github.com/mithrandie/csvq/lib/query"
	"pgregory.net/rapid"

	"verif/internal/fw"
	"verif/internal/run"
	"verif/internal/val"
)

func TestMain(m *testing.M) { fw.Main(m) }

var caseSeq int64

func caseDir(tag string) string {
	d := filepath.Join(fw.WorkDir(), fmt.Sprintf("%s-%d", tag, atomic.AddInt64(&caseSeq, 1)))
	_ = os.RemoveAll(d)
	_ = os.MkdirAll(d, 0755)
	return d
}

func addSeq() int64 { return atomic.AddInt64(&caseSeq, 1) }

func clip(s string) string {
	if len(s) > 400 {
		return s[:400] + "…"
	}
	return s
}

// ---------------------------------------------------------------------
// A. roundtrip_inproc: EncodeView -> bytes -> the real loader under the same settings

func genRoundTrip(t *rapid.T) rtCase { return genTableOpts(t, false, true, false) }

// loadInproc loads file (in dir) through a fresh csvq session under the case's settings.
func loadInproc(c rtCase, dir string) (run.Tbl, error, error) {
	s, err := run.NewSess(run.Opt{Dir: dir})
	if err != nil {
		return run.Tbl{}, nil, err
	}
	defer s.Close()
	enc := c.Enc
	if c.ReadEnc != "" {
		enc = c.ReadEnc
	}
	noHeader := (c.isCSV() || c.Format == "FIXED") && !c.headerWritten()
	name := val.QuoteIdent(c.fileName())
	pos := ""
	if c.Format == "FIXED" {
		if c.ReadVia == "spaces" && c.spacesReadable() {
			pos = "SPACES"
		} else {
			pos = positionsArg(c.readEnds(), c.Fixed == "single")
		}
	}
	var sql string
	if c.ReadVia == "func" {
		b := func(x bool) string {
			if x {
				return "TRUE"
			}
			return "FALSE"
		}
		switch c.Format {
		case "CSV", "TSV":
			sql = fmt.Sprintf("SELECT * FROM CSV(%s, %s, %s, %s, %s)", val.QuoteSQL(string(c.delim())), name, val.QuoteSQL(enc), b(noHeader), b(c.WithoutNull))
		case "FIXED":
			sql = fmt.Sprintf("SELECT * FROM FIXED(%s, %s, %s, %s, %s)", val.QuoteSQL(pos), name, val.QuoteSQL(enc), b(noHeader), b(c.WithoutNull))
		case "LTSV":
			sql = fmt.Sprintf("SELECT * FROM LTSV(%s, %s, %s)", name, val.QuoteSQL(enc), b(c.WithoutNull))
		case "JSON":
			sql = fmt.Sprintf("SELECT * FROM JSON('', %s)", name)
		case "JSONL":
			sql = fmt.Sprintf("SELECT * FROM JSONL('', %s)", name)
		}
	} else {
		kv := []interface{}{option.NoHeaderFlag, noHeader, option.WithoutNullFlag, c.WithoutNull}
		if !c.isJSON() {
			kv = append(kv, option.EncodingFlag, enc)
		}
		switch c.Format {
		case "CSV":
			kv = append(kv, option.DelimiterFlag, string(c.delim()))
		case "FIXED":
			kv = append(kv, option.ImportFormatFlag, "FIXED", option.DelimiterPositionsFlag, pos)
		}
		if err := setFlags(s, kv...); err != nil {
			return run.Tbl{}, nil, err
		}
		sql = "SELECT * FROM " + name
	}
	r := s.Exec(sql)
	if r.ParseErr {
		return run.Tbl{}, nil, fmt.Errorf("generated query does not parse: %s: %v", sql, r.Err)
	}
	if r.Err != nil {
		return run.Tbl{}, fmt.Errorf("%s: %v", sql, r.Err), nil
	}
	if len(r.Views) != 1 {
		return run.Tbl{}, nil, fmt.Errorf("expected one result, got %d", len(r.Views))
	}
	return r.Views[0], nil, nil
}

func checkRoundTrip(c rtCase) (fw.Outcome, *fw.Violation) {
	if why := c.malformed(); why != "" {
		return fw.Outcome{Discard: true}, nil
	}
	o := c.outcome(true)
	if k := c.knownShape(); k != "" {
		o.Classes = append(o.Classes, "knownshape:"+k)
	}
	out, encErr, herr := encodeInproc(c)
	if herr != nil {
		return o, fw.Harness("%v", herr)
	}
	sp, why := c.spellable()
	if pe, ok := encErr.(*encodePanic); ok {
		return o, fw.V(c.sig("encode_panic"), "%s: EncodeView panics: %s", c.dialectString(), pe.msg)
	}
	if encErr != nil {
		// refused: nothing may have been written
		if len(out) > 0 {
			return o, fw.V("partial_output_on_refusal", "%s: write refused (%v) after %d bytes had already been written: %q", c.dialectString(), encErr, len(out), clip(string(out)))
		}
		if sp == spellYes {
			return o, fw.V(c.sig("refused_spellable"), "%s: every text is spellable in the format but the write was refused: %v", c.dialectString(), encErr)
		}
		if encErr != query.DataEmpty && sp == spellOpen && len(c.allRows()) == 0 && !c.isJSON() {
			return o, fw.V(c.sig("refused_empty_table"), "%s: unexpected error for a table without records: %v", c.dialectString(), encErr)
		}
		o.Classes = append(o.Classes, "refused")
		return o, nil
	}
	if len(out) == 0 {
		// nothing to load back (no records and no header line)
		if len(c.allRows()) > 0 || c.headerWritten() {
			return o, fw.V(c.sig("empty_output"), "%s: nothing written for a table with %d records", c.dialectString(), len(c.allRows()))
		}
		o.Classes = append(o.Classes, "empty_output")
		return o, nil
	}
	o.Classes = append(o.Classes, "written")
	dir := caseDir("rt")
	defer os.RemoveAll(dir)
	if err := os.WriteFile(filepath.Join(dir, c.fileName()), c.terminated(out), 0644); err != nil {
		return o, fw.Harness("%v", err)
	}
	got, loadErr, herr := loadInproc(c, dir)
	if herr != nil {
		return o, fw.Harness("%v", herr)
	}
	base := "roundtrip"
	if sp == spellNo {
		base = "accepted_unspellable"
	}
	if loadErr != nil {
		return o, fw.V(c.sig(base+"_reload_error"), "%s: written without error (%s) but does not load back: %v\nbytes: %q", c.dialectString(), why, loadErr, clip(string(out)))
	}
	if diff := compareLoaded(c, got, c.WithoutNull); diff != "" {
		return o, fw.V(c.sig(base+"_mismatch"), "%s: %s (%s)\nbytes: %q", c.dialectString(), diff, why, clip(string(out)))
	}
	if sp == spellNo {
		o.Classes = append(o.Classes, "unspellable_by_model_but_round_trips")
	}
	return o, nil
}

const rtRule = "table (1-4 columns, 0-6 rows; cells and 45% of the header names concatenated from a token alphabet: letters, digits, blank, , ; | TAB, \" ' ` \\, LF CR CRLF, colon, 2/3/4-byte UTF-8, full-width, combining, empty, NULL; 6% repeated past 4 KiB / 64 KiB) x {CSV(, ; | TAB), TSV, LTSV, FIXED(auto, explicit, single line), JSON, JSONL} x {UTF8, UTF8M, UTF16, UTF16BE/LE, UTF16BEM/LEM, SJIS (JSON: UTF8)} x {LF, CRLF, CR} x enclose-all x without-header x strip-ending-line-break x json-escape x pretty-print; 15% of the cases may contain texts the format cannot spell; non-trivial = a written text with a delimiter, quote, line break, tab, colon, edge blank or non-ASCII rune, or a non-default dialect; distinct by (format, delimiter/fixed mode, encoding, line break, flags, set of special classes)"

func TestC02RoundTripInproc(t *testing.T) {
	fw.Run(t, fw.Spec[rtCase]{
		ID: "C02", Name: "roundtrip_inproc", Quick: 30000, Thorough: 600000,
		Gen: genRoundTrip, Check: checkRoundTrip,
		Rule: rtRule + "; oracle: query.EncodeView either refuses (error, zero bytes written; a table spellable by the harness's own per-format predicate must not be refused) or the bytes, terminated as the manual describes and stored as a file, load back through SELECT * (import flags or the CSV()/FIXED()/LTSV()/JSON()/JSONL() table objects, same settings) with the same record count, field count, header and cell texts (NULL = \"\" where the format has one spelling, FIXED modulo edge blanks)",
		Assumptions: []string{
			"the ending line break is appended by the harness in the file's encoding (the CLI checks cover csvq's own ending)",
			"column names are non-blank and distinct; JSON column names with a period or backslash (path syntax) only have to give loadable output with the same record count",
			"FIXED auto output is read back with the positions of the harness's own width model, and with SPACES only when no written text is empty or contains white space",
			"JSON Lines are not pretty-printed; SJIS texts come from a 22-character table verified against x/text",
			"known shapes are kept out of the generator by the avoid* constants (C02_NOAVOID=all re-enables them)",
		},
	})
}

// ---------------------------------------------------------------------
// B. independent_readers: the same bytes read by readers that share no code with csvq

// verifyBytes reads csvq's output with the harness readers (and encoding/csv,
// encoding/json). final: the bytes include csvq's own ending line break
// (CLI paths); otherwise they are EncodeView's raw output.
func verifyBytes(c rtCase, raw []byte, final bool) *fw.Violation {
	d := c.dialectString()
	lb := lbValue(c.LB)
	if final && isUTF16(c.Enc) && !c.Strip && bytes.HasSuffix(raw, []byte(lb)) {
		// would the output be fine had the ending line break been written in the encoding?
		proper, _ := encodeText(lb, bomless(c.Enc))
		if !bytes.HasSuffix(raw, proper) || len(raw)%2 == 1 {
			repaired := append(append([]byte{}, raw[:len(raw)-len(lb)]...), proper...)
			if verifyBytes(c, repaired, true) == nil {
				return fw.V("trailing_linebreak_not_encoded", "%s: the ending line break is written as the raw byte(s) % X instead of %s text; last bytes % X", d, []byte(lb), c.Enc, raw[max(0, len(raw)-8):])
			}
		}
	}
	text, err := decodeText(raw, c.Enc)
	if err != nil {
		return fw.V(c.sig("independent_decode"), "%s: the output does not decode as %s: %v; first bytes % X", d, c.Enc, err, raw[:min(len(raw), 24)])
	}
	rows := c.allRows()
	n := c.ncols()
	bad := func(base, format string, args ...interface{}) *fw.Violation {
		return fw.V(c.sig(base), "%s: %s\noutput: %q", d, fmt.Sprintf(format, args...), clip(text))
	}
	switch c.Format {
	case "CSV", "TSV":
		recs, seen, err := parseCSV(text, c.delim())
		if err != nil {
			return bad("independent_parse", "not RFC 4180: %v", err)
		}
		for _, s := range seen {
			if s != lb {
				return bad("independent_linebreak", "record ends with %q, the line break setting is %s", s, c.LB)
			}
		}
		want := len(rows)
		if c.headerWritten() {
			want++
		}
		if len(recs) != want {
			return bad("independent_shape", "%d records in the output, %d written", len(recs), want)
		}
		k := 0
		if c.headerWritten() {
			if len(recs[0]) != n {
				return bad("independent_shape", "header line has %d fields, %d written", len(recs[0]), n)
			}
			for i, h := range c.Header {
				if recs[0][i].S != h {
					return bad("independent_mismatch", "header[%d] reads %q, written %q", i, recs[0][i].S, h)
				}
				if c.EncloseAll && !recs[0][i].Quoted {
					return bad("enclose_all_not_quoted", "header[%d] is not enclosed", i)
				}
			}
			k = 1
		}
		for i, r := range rows {
			rec := recs[k+i]
			if len(rec) != n {
				return bad("independent_shape", "record %d has %d fields, %d written", i+1, len(rec), n)
			}
			for j, x := range r {
				if rec[j].S != x.S {
					return bad("independent_mismatch", "record %d field %d reads %q, written %s", i+1, j+1, rec[j].S, x)
				}
				if x.Null && rec[j].Quoted {
					return bad("independent_mismatch", "record %d field %d: NULL written as a quoted field", i+1, j+1)
				}
				if c.EncloseAll && !x.Null && !rec[j].Quoted {
					return bad("enclose_all_not_quoted", "record %d field %d (%s) is not enclosed", i+1, j+1, x)
				}
			}
		}
		// second opinion: Go's encoding/csv (no CR-only records, blank lines skipped, CRLF inside quotes normalised)
		blankLine := false
		for _, rec := range recs {
			if len(rec) == 1 && rec[0].S == "" && !rec[0].Quoted {
				blankLine = true
			}
		}
		if c.LB != "CR" && !blankLine && len(recs) > 0 {
			rd := csv.NewReader(strings.NewReader(text))
			rd.Comma = c.delim()
			rd.LazyQuotes = false
			rd.FieldsPerRecord = -1
			all, err := rd.ReadAll()
			if err != nil {
				return bad("independent_parse", "encoding/csv: %v", err)
			}
			if len(all) != len(recs) {
				return bad("independent_shape", "encoding/csv reads %d records, %d written", len(all), len(recs))
			}
			norm := func(s string) string { return strings.ReplaceAll(s, "\r\n", "\n") }
			for i := range all {
				if len(all[i]) != len(recs[i]) {
					return bad("independent_shape", "encoding/csv: record %d has %d fields, %d written", i+1, len(all[i]), len(recs[i]))
				}
				for j := range all[i] {
					if all[i][j] != norm(recs[i][j].S) {
						return bad("independent_mismatch", "encoding/csv: record %d field %d reads %q, written %q", i+1, j+1, all[i][j], recs[i][j].S)
					}
				}
			}
		}
	case "LTSV":
		if foreignBreaks(text, lb) {
			return bad("independent_linebreak", "a CR/LF that is not the line break %s", c.LB)
		}
		recs, err := parseLTSV(text, lb)
		if err != nil {
			return bad("independent_parse", "not LTSV: %v", err)
		}
		if len(recs) != len(rows) {
			return bad("independent_shape", "%d records in the output, %d written", len(recs), len(rows))
		}
		for i, r := range rows {
			if len(recs[i]) != n {
				return bad("independent_shape", "record %d has %d fields, %d written", i+1, len(recs[i]), n)
			}
			for j, x := range r {
				if recs[i][j][0] != c.Header[j] || recs[i][j][1] != x.S {
					return bad("independent_mismatch", "record %d field %d reads %q:%q, written %q:%s", i+1, j+1, recs[i][j][0], recs[i][j][1], c.Header[j], x)
				}
			}
		}
	case "FIXED":
		ends := c.readEnds()
		var lines []string
		if c.Fixed == "single" {
			if strings.ContainsAny(text, "\r\n") {
				if !(final && strings.TrimRight(text, "\r\n") == strings.TrimSuffix(text, lb) && !strings.ContainsAny(strings.TrimSuffix(text, lb), "\r\n")) {
					return bad("independent_linebreak", "single-line data contains a line break")
				}
				text = strings.TrimSuffix(text, lb)
			}
			total := ends[len(ends)-1]
			rs := []rune(text)
			pos, start := 0, 0
			for i, r := range rs {
				pos += runeSize(r, c.Enc)
				if pos == total {
					lines = append(lines, string(rs[start:i+1]))
					start, pos = i+1, 0
				} else if pos > total {
					return bad("independent_shape", "a character straddles the record boundary of %d bytes", total)
				}
			}
			if start != len(rs) {
				return bad("independent_shape", "the data is not a whole number of %d-byte records", total)
			}
		} else {
			if foreignBreaks(text, lb) {
				return bad("independent_linebreak", "a CR/LF that is not the line break %s", c.LB)
			}
			lines = splitLines(text, lb)
			if lines[len(lines)-1] == "" {
				lines = lines[:len(lines)-1]
			}
		}
		want := len(rows)
		if c.headerWritten() {
			want++
		}
		if len(lines) != want {
			return bad("independent_shape", "%d lines in the output, %d written", len(lines), want)
		}
		for i, ln := range lines {
			fs, err := cutFixed(ln, ends, c.Enc)
			if err != nil {
				return bad("independent_shape", "line %d (%q) with column ends %v: %v", i+1, ln, ends, err)
			}
			if byteSize(ln, c.Enc) != ends[len(ends)-1] {
				return bad("independent_shape", "line %d (%q) is %d bytes, the columns end at %v", i+1, ln, byteSize(ln, c.Enc), ends)
			}
			for j := range fs {
				var w string
				if c.headerWritten() && i == 0 {
					w = c.Header[j]
				} else if c.headerWritten() {
					w = rows[i-1][j].S
				} else {
					w = rows[i][j].S
				}
				if trimBlank(fs[j]) != trimBlank(w) {
					return bad("independent_mismatch", "line %d column %d reads %q, written %q", i+1, j+1, fs[j], w)
				}
			}
		}
	case "JSON", "JSONL":
		var recs [][]jmember
		if c.Format == "JSON" {
			recs, err = parseJSONTable(text)
			if _, dup := err.(*dupError); dup {
				return fw.V("json_duplicate_member", "%s: %v\noutput: %q", d, err, clip(text))
			}
			if err != nil {
				return bad("independent_parse", "encoding/json: %v", err)
			}
		} else {
			lines := splitLines(text, lb)
			if lines[len(lines)-1] != "" {
				return bad("independent_shape", "the last record is not terminated by the line break")
			}
			lines = lines[:len(lines)-1]
			if len(lines) > 0 && lines[len(lines)-1] == "" && len(lines)-1 == len(rows) {
				return fw.V("jsonl_double_trailing_linebreak", "%s: the output ends with two line breaks (an empty last line)\noutput: %q", d, clip(text))
			}
			for i, ln := range lines {
				ms, err := parseJSONLine(ln)
				if _, dup := err.(*dupError); dup {
					return fw.V("json_duplicate_member", "%s: %v\noutput: %q", d, err, clip(text))
				}
				if err != nil {
					return bad("independent_parse", "line %d: encoding/json: %v", i+1, err)
				}
				recs = append(recs, ms)
			}
		}
		if len(recs) != len(rows) {
			return bad("independent_shape", "%d objects in the output, %d written", len(recs), len(rows))
		}
		for _, h := range c.Header {
			if jsonNameSpecial(h) {
				return nil // path syntax: member layout is documented to differ
			}
		}
		for i, r := range rows {
			if len(recs[i]) != n {
				return bad("independent_shape", "object %d has %d members, %d written", i+1, len(recs[i]), n)
			}
			for j, x := range r {
				m := recs[i][j]
				if m.Key != c.Header[j] || m.Obj != nil || m.Val.Null != x.Null || m.Val.S != x.S {
					return bad("independent_mismatch", "object %d member %d reads %q:%v, written %q:%s", i+1, j+1, m.Key, m.Val, c.Header[j], x)
				}
			}
		}
	}
	return nil
}

func checkIndependent(c rtCase) (fw.Outcome, *fw.Violation) {
	if why := c.malformed(); why != "" {
		return fw.Outcome{Discard: true}, nil
	}
	o := c.outcome(false)
	out, encErr, herr := encodeInproc(c)
	if herr != nil {
		return o, fw.Harness("%v", herr)
	}
	if _, ok := encErr.(*encodePanic); ok {
		return o, fw.V(c.sig("encode_panic"), "%s: EncodeView panics: %v", c.dialectString(), encErr)
	}
	if encErr != nil || len(out) == 0 {
		// refusals are judged by roundtrip_inproc
		o.Fingerprint = ""
		o.Classes = append(o.Classes, "refused_or_empty")
		return o, nil
	}
	if sp, _ := c.spellable(); sp == spellNo {
		// accepted although the harness calls it unspellable: the read-back of roundtrip_inproc decides
		o.Fingerprint = ""
		o.Classes = append(o.Classes, "unspellable_accepted")
		return o, nil
	}
	if v := verifyBytes(c, out, false); v != nil {
		return o, v
	}
	return o, nil
}

func TestC02IndependentReaders(t *testing.T) {
	fw.Run(t, fw.Spec[rtCase]{
		ID: "C02", Name: "independent_readers", Quick: 30000, Thorough: 600000,
		Gen: genRoundTrip, Check: checkIndependent,
		Rule: rtRule + "; oracle: the bytes of query.EncodeView are decoded by the harness's own strict decoder (byte order mark exactly as the encoding name says) and read by readers that share no code with csvq: an RFC 4180 state machine plus Go's encoding/csv (CSV/TSV), encoding/json with member order and duplicate detection (JSON/JSONL), a label:value splitter (LTSV) and a byte-column cutter over the harness's own width model (FIXED): same shape, same texts, every record line break is the configured one, enclose-all encloses every text",
		Assumptions: []string{"cases csvq refuses, and accepted cases the harness's predicate calls unspellable, are left to roundtrip_inproc",
			"encoding/csv is consulted only for LF/CRLF output without blank lines (it cannot read CR-only records) and modulo its CRLF->LF normalisation inside quoted fields"},
	})
}

func min(a, b int) int {
	if a < b {
		return a
	}
	return b
}

func max(a, b int) int {
	if a > b {
		return a
	}
	return b
}
