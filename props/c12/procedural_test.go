package c12

import (
	"fmt"
	"sort"
	"strings"
	"testing"

	"pgregory.net/rapid"

	"verif/internal/fw"
)

// ---------------------------------------------------------------------
// Sub-check "procedural" (round 5): the statement forms around a query.
//
// Every other sub-check runs a flat list of SELECT / DML statements. The
// manual's other ways to run a query never occurred: cursors (OPEN evaluates
// the query, FETCH / WHILE .. IN walk over its rows IN ORDER), prepared
// statements executed several times with other values (the same parsed
// statement is evaluated again and again, also as the query of a cursor), WHILE
// / IF / CASE blocks whose statements are queries and data changes with the
// loop variable as a parameter, user-defined functions whose BODY runs queries,
// cursors and loops and which are called once per row by the workers of a
// parallel query (each call in a scope of its own, all of them sharing the
// transaction's table cache), and recursive common table expressions whose
// every step is a parallel query over the rows of the previous step.
//
// No variable is assigned inside a query: variables are set by VAR / := / FETCH
// statements and only read by queries (the property excludes in-query
// assignment, not parameters).
//
// Result sets of statements inside blocks are not stored by the library (only
// the top-level processor stores them), so this sub-check captures the
// session's standard output - PRINT lines and the result sets of blocks in
// TEXT format, in the order they were produced - and compares it as well.

type pgen struct {
	*gctx
	n int // counter for names
}

func (p *pgen) name(prefix string) string {
	p.n++
	return fmt.Sprintf("%s%d", prefix, p.n)
}

// cursorQuery: a query with three columns and few rows whose ORDER matters to the loop that walks it.
func (p *pgen) cursorQuery() string {
	switch fw.Uniform(p.t, "curQuery", 7) {
	case 0:
		return "SELECT h, COUNT(*) AS c, LISTAGG(s, '') AS l FROM t1" + p.where("", 40) + " GROUP BY h"
	case 1:
		return fmt.Sprintf("SELECT g, COUNT(*) AS c, MIN(s) AS l FROM t1 WHERE g < %d GROUP BY g", p.rng("gmax", 2, 9))
	case 2:
		return fmt.Sprintf("SELECT DISTINCT h, v %% 3 AS c, UPPER(s) AS l FROM t1 WHERE id %% %d = 0 LIMIT 12", p.rng("mod", 2, 9))
	case 3:
		return fmt.Sprintf("SELECT a.h, b.k AS c, b.x AS l FROM t1 a JOIN t2 b ON a.g = b.k WHERE a.v > %d LIMIT 10", p.rng("k", 0, 12))
	case 4:
		return "SELECT h, id AS c, s AS l FROM t1 ORDER BY v LIMIT 9"
	case 5:
		return "SELECT h, c, l FROM (SELECT h, ROW_NUMBER() OVER (PARTITION BY h ORDER BY v) AS c, s AS l FROM t1) q WHERE c <= 2"
	default:
		return "SELECT w AS h, COUNT(*) AS c, LISTAGG(k, '.') AS l FROM t2 GROUP BY w"
	}
}

// loopBody: statements run once per fetched row; @h, @c, @l hold the row.
func (p *pgen) loopBody() (string, []string) {
	var b strings.Builder
	tags := []string{}
	b.WriteString("  PRINT @h; PRINT @c; PRINT @l;\n")
	switch fw.Uniform(p.t, "loopBody", 6) {
	case 0:
		b.WriteString("  SELECT id, v, s FROM t1 WHERE h = @h AND v > 14;\n")
		tags = append(tags, "proc:loop_select")
	case 1:
		b.WriteString("  IF @c > 1 THEN\n    SELECT g, COUNT(*) AS n, LISTAGG(id, ' ') AS ids FROM t1 WHERE h = @h AND id % 4 = 0 GROUP BY g;\n  ELSE\n    PRINT 'few';\n  END IF;\n")
		tags = append(tags, "proc:loop_if_group")
	case 2:
		b.WriteString("  UPDATE t1 SET v = v + 1 WHERE h = @h AND id % 3 = 0;\n")
		tags = append(tags, "proc:loop_update")
	case 3:
		p.seq++
		fmt.Fprintf(&b, "  INSERT INTO t3 (id, v, s) SELECT id + %d00000 + IFNULL(@h, 9) * 10000, v, @l FROM t1 WHERE h = @h AND v > 12;\n", p.seq)
		tags = append(tags, "proc:loop_insert_select")
	case 4:
		b.WriteString("  CASE WHEN @h IS NULL THEN CONTINUE; WHEN @c > 50 THEN SELECT COUNT(*) AS big FROM t1 WHERE h = @h; ELSE SELECT MAX(v) AS small FROM t1 WHERE h = @h; END CASE;\n")
		tags = append(tags, "proc:loop_case")
	default:
		tags = append(tags, "proc:loop_print")
	}
	return b.String(), tags
}

func (p *pgen) genCursorBlock() {
	cur := p.name("cur")
	var b strings.Builder
	fmt.Fprintf(&b, "DECLARE %s CURSOR FOR %s;\nOPEN %s;\n", cur, p.cursorQuery(), cur)
	body, tags := p.loopBody()
	fmt.Fprintf(&b, "WHILE VAR @h, @c, @l IN %s DO\n%sEND WHILE;\n", cur, body)
	fmt.Fprintf(&b, "VAR @fh_%s, @fc_%s, @fl_%s;\n", cur, cur, cur)
	n := p.rng("nFetch", 0, 3)
	for i := 0; i < n; i++ {
		pos := pickS(p.gctx, "fetchPos", []string{"FIRST", "LAST", "ABSOLUTE 1", "ABSOLUTE 3", "PRIOR", "NEXT", "RELATIVE -1"})
		fmt.Fprintf(&b, "FETCH %s %s INTO @fh_%s, @fc_%s, @fl_%s;\nPRINT @fh_%s; PRINT @fc_%s; PRINT @fl_%s;\n", pos, cur, cur, cur, cur, cur, cur, cur)
	}
	fmt.Fprintf(&b, "PRINT CURSOR %s COUNT;\nCLOSE %s", cur, cur)
	p.add(stmt{SQL: b.String(), Kind: "proc_cursor", Tags: append(tags, "proc:cursor")})
}

func (p *pgen) genPreparedBlock() {
	st := p.name("st")
	switch fw.Uniform(p.t, "prepKind", 4) {
	case 0:
		p.add(stmt{SQL: fmt.Sprintf("PREPARE %s FROM 'SELECT h, COUNT(*) AS c, SUM(v) AS sv, LISTAGG(s, '''') AS l FROM t1 WHERE g = ? AND v > :lo GROUP BY h'", st), Kind: "declare"})
		n := p.rng("nExec", 2, 3)
		for i := 0; i < n; i++ {
			p.add(stmt{SQL: fmt.Sprintf("EXECUTE %s USING %d, %d AS lo", st, p.rng("gv", 0, p.gDom-1), p.rng("lo", -5, 10)), Kind: "proc_execute_select", Sel: true, Tags: []string{"proc:prepared_select"}})
		}
	case 1:
		p.add(stmt{SQL: fmt.Sprintf("PREPARE %s FROM 'SELECT a.id, b.k, b.x FROM t1 a JOIN t2 b ON a.g = b.k WHERE a.h = ? AND b.w <> ?'", st), Kind: "declare"})
		n := p.rng("nExec", 2, 3)
		for i := 0; i < n; i++ {
			p.add(stmt{SQL: fmt.Sprintf("EXECUTE %s USING %d, %d", st, p.rng("hv", 0, 3), p.rng("wv", 0, 3)), Kind: "proc_execute_select", Sel: true, Tags: []string{"proc:prepared_join"}})
		}
	case 2:
		p.add(stmt{SQL: fmt.Sprintf("PREPARE %s FROM 'UPDATE t1 SET v = v + :d, s = s || :m WHERE h = :hv'", st), Kind: "declare"})
		n := p.rng("nExec", 2, 3)
		for i := 0; i < n; i++ {
			p.add(stmt{SQL: fmt.Sprintf("EXECUTE %s USING %d AS d, '%s' AS m, %d AS hv", st, p.rng("d", 1, 5), pickS(p.gctx, "m", []string{"!", "?", "é"}), p.rng("hv", 0, 3)), Kind: "proc_execute_update", Tags: []string{"proc:prepared_update"}})
		}
		p.add(stmt{SQL: "SELECT * FROM t1", Kind: "probe", Sel: true})
	default:
		// the prepared statement is the query of a cursor, opened twice with other values
		cur := p.name("pc")
		p.add(stmt{SQL: fmt.Sprintf("PREPARE %s FROM 'SELECT id, v FROM t1 WHERE h = ? AND v IS NOT NULL ORDER BY v LIMIT 6'", st), Kind: "declare"})
		var b strings.Builder
		fmt.Fprintf(&b, "DECLARE %s CURSOR FOR %s;\nVAR @pi_%s, @pv_%s;\n", cur, st, cur, cur)
		for i := 0; i < 2; i++ {
			fmt.Fprintf(&b, "OPEN %s USING %d;\nWHILE @pi_%s, @pv_%s IN %s DO\n  PRINT @pi_%s; PRINT @pv_%s;\nEND WHILE;\nCLOSE %s;\n", cur, p.rng("hv", 0, 3), cur, cur, cur, cur, cur, cur)
		}
		b.WriteString("PRINT 'done'")
		p.add(stmt{SQL: b.String(), Kind: "proc_cursor_prepared", Tags: []string{"proc:cursor_over_prepared"}})
	}
}

func (p *pgen) genWhileBlock() {
	i := "@" + p.name("i")
	n := p.rng("nIter", 2, 4)
	var b strings.Builder
	fmt.Fprintf(&b, "VAR %s := 0;\nWHILE %s < %d DO\n  %s := %s + 1;\n", i, i, n, i, i)
	var tag string
	switch fw.Uniform(p.t, "whileBody", 5) {
	case 0:
		fmt.Fprintf(&b, "  SELECT h, COUNT(*) AS c, LISTAGG(id, ' ') AS ids FROM t1 WHERE g %% %d = %s - 1 GROUP BY h;\n", n, i)
		tag = "proc:while_group"
	case 1:
		fmt.Fprintf(&b, "  UPDATE t1 SET v = v + %s WHERE h = %s;\n  SELECT SUM(v) AS sv, COUNT(v) AS cv FROM t1;\n", i, i)
		tag = "proc:while_update"
	case 2:
		p.seq++
		fmt.Fprintf(&b, "  INSERT INTO t3 (id, v, s) SELECT id + %d00000 + %s * 10000, v, s FROM t1 WHERE h = %s AND v > 10;\n  IF %s = 2 THEN BREAK; END IF;\n", p.seq, i, i, i)
		tag = "proc:while_insert_break"
	case 3:
		fmt.Fprintf(&b, "  DELETE FROM t1 WHERE h = %s AND v < %s;\n  SELECT id, ROW_NUMBER() OVER (PARTITION BY g ORDER BY v) AS rn FROM t1 WHERE h = %s;\n", i, i, i)
		tag = "proc:while_delete_analytic"
	default:
		fmt.Fprintf(&b, "  IF (SELECT COUNT(*) FROM t1 WHERE h = %s AND v > 8) > %d THEN\n    SELECT a.id, b.k FROM t1 a JOIN t2 b ON a.g = b.k WHERE a.h = %s;\n  ELSEIF %s = 1 THEN\n    PRINT 'one';\n  ELSE\n    SELECT DISTINCT s FROM t1 WHERE h = %s;\n  END IF;\n", i, p.rng("thr", 5, 60), i, i, i)
		tag = "proc:while_if_subquery"
	}
	b.WriteString("END WHILE")
	p.add(stmt{SQL: b.String(), Kind: "proc_while", Tags: []string{tag}})
}

// procFuncs: user-defined functions whose bodies run queries; the calling query evaluates them per row in its workers.
var procFuncs = []struct{ name, decl, call, tag string }{
	{"fcnt", "DECLARE fcnt FUNCTION (@a) AS BEGIN RETURN (SELECT COUNT(*) FROM t2 WHERE w = @a); END", "fcnt(h)", "proc:udf_scalar_subquery"},
	{"flist", "DECLARE flist FUNCTION (@a, @b) AS BEGIN VAR @r := (SELECT LISTAGG(k, ',') FROM t2 WHERE w = @a AND k < @b); IF @r IS NULL THEN RETURN 'none'; END IF; RETURN @r; END", "flist(h, g + 5)", "proc:udf_listagg_unordered"},
	{"fcur", "DECLARE fcur FUNCTION (@a) AS BEGIN DECLARE c CURSOR FOR SELECT k FROM t2 WHERE w = @a; OPEN c; VAR @k; VAR @s := 0; WHILE @k IN c DO @s := (@s * 3 + @k) % 1000003; END WHILE; CLOSE c; RETURN @s; END", "fcur(h)", "proc:udf_cursor_loop"},
	{"fself", "DECLARE fself FUNCTION (@a, @b) AS BEGIN RETURN (SELECT LISTAGG(id, ' ') FROM t1 WHERE g = @a AND h = @b AND id % 5 = 0); END", "fself(g, h)", "proc:udf_query_over_outer_table"},
	{"ftmp", "DECLARE ftmp FUNCTION (@a) AS BEGIN DECLARE tt VIEW (k, x) AS SELECT k, x FROM t2 WHERE w = @a; VAR @r := (SELECT LISTAGG(x, '') FROM tt WHERE k % 2 = 0); RETURN IFNULL(@r, '-'); END", "ftmp(h)", "proc:udf_temp_table"},
	{"fnest", "DECLARE fnest FUNCTION (@a) AS BEGIN RETURN fcnt(@a) * 100 + (SELECT COUNT(*) FROM t3 WHERE v = @a); END", "fnest(h)", "proc:udf_calls_udf"},
}

// udfDML: the function whose body changes a table (known finding udf_dml_in_parallel_query_order).
const udfDMLDecl = "DECLARE flog FUNCTION (@a) AS BEGIN INSERT INTO t3 (id, v, s) VALUES (@a + 800000, 0, 'x'); RETURN @a; END"

func (p *pgen) genUDFQueryBlock(declared map[string]bool) {
	k := fw.Uniform(p.t, "procFunc", len(procFuncs)+1)
	if k == len(procFuncs) {
		if avoidKnownUDFDML {
			fw.AddExtra("excluded_known_shape_udf_dml", 1)
			k = 0
		} else {
			if !declared["flog"] {
				declared["flog"] = true
				p.add(stmt{SQL: udfDMLDecl, Kind: "declare"})
			}
			p.add(stmt{SQL: "SELECT id, flog(id) AS r FROM t1" + p.where("", 30), Kind: "proc_udf_dml", Sel: true, Tags: []string{"proc:udf_changes_table", "udf_dml_order"}})
			p.add(stmt{SQL: "SELECT * FROM t3", Kind: "probe", Sel: true, Tags: []string{"udf_dml_order"}})
			return
		}
	}
	f := procFuncs[k]
	if f.name == "fnest" && !declared["fcnt"] {
		declared["fcnt"] = true
		p.add(stmt{SQL: procFuncs[0].decl, Kind: "declare"})
	}
	if !declared[f.name] {
		declared[f.name] = true
		p.add(stmt{SQL: f.decl, Kind: "declare"})
	}
	var sql string
	switch fw.Uniform(p.t, "udfUse", 4) {
	case 0:
		sql = "SELECT id, g, h, " + f.call + " AS r FROM t1" + p.where("", 30)
	case 1:
		sql = "SELECT id, h FROM t1 WHERE " + f.call + " IS NOT NULL AND id % 2 = 0"
	case 2:
		sql = "SELECT g, COUNT(*) AS c, LISTAGG(" + f.call + ", ';') AS rs FROM t1 WHERE id % 3 = 0 GROUP BY g"
	default:
		sql = "SELECT id, h, " + f.call + " AS r FROM t1 ORDER BY r, id LIMIT 40"
	}
	p.add(stmt{SQL: sql, Kind: "proc_udf_query", Sel: true, Tags: []string{f.tag}})
}

func (p *pgen) genRecursive() {
	all := pickS(p.gctx, "recAll", []string{" ALL", " ALL", ""})
	depth := p.rng("recDepth", 1, 3)
	var sql, tag string
	switch fw.Uniform(p.t, "recShape", 4) {
	case 0:
		sql = fmt.Sprintf("WITH RECURSIVE r (id, lvl) AS (SELECT id, 0 FROM t1%s UNION%s SELECT id, lvl + 1 FROM r WHERE lvl < %d AND id %% 2 = 0) SELECT lvl, COUNT(*) AS c, LISTAGG(id, ' ') AS ids FROM r GROUP BY lvl", p.where("", 30), all, depth)
		tag = "proc:recursive_filter_group"
	case 1:
		sql = fmt.Sprintf("WITH RECURSIVE r (id, lvl) AS (SELECT id, 0 FROM t1 WHERE h = %d UNION%s SELECT b.id, r.lvl + 1 FROM r JOIN t1 b ON b.id = r.id + 1 WHERE r.lvl < %d) SELECT * FROM r", p.rng("hv", 0, 3), all, depth)
		tag = "proc:recursive_join"
	case 2:
		// without ALL: the rows of every step are made distinct against everything found so far
		sql = fmt.Sprintf("WITH RECURSIVE r (g, h, lvl) AS (SELECT g, h, 0 FROM t1 WHERE id %% 2 = 0 UNION SELECT h, g %% 4, lvl + 1 FROM r WHERE g IS NOT NULL AND lvl < %d) SELECT g, h, lvl FROM r LIMIT %d", depth, p.rng("lim", 20, 200))
		tag = "proc:recursive_distinct"
	default:
		sql = fmt.Sprintf("WITH RECURSIVE r (id, v, lvl) AS (SELECT id, v, 0 FROM t1 UNION ALL SELECT id, v + 1, lvl + 1 FROM r WHERE lvl < %d AND v %% 3 = 0) SELECT id, v, lvl, ROW_NUMBER() OVER (PARTITION BY lvl ORDER BY v) AS rn FROM r", depth)
		tag = "proc:recursive_analytic"
	}
	p.add(stmt{SQL: sql, Kind: "proc_recursive", Sel: true, Tags: []string{tag}})
}

func genProcCase(t *rapid.T) detCase {
	c := detCase{Capture: true}
	c.N1 = fw.PickU(t, "n1", []int{81, 160, 161, 240, 241, 320, 400})
	c.N2 = fw.PickU(t, "n2", []int{7, 40, 81, 160})
	c.N3 = fw.PickU(t, "n3", []int{40, 160})
	seed := rapid.Uint64().Draw(t, "dataSeed")
	gDom := fw.PickU(t, "gDom", []int{3, 8, 30})
	r := &rng{s: seed}
	t3csv, t3ids := makeT3(r, c.N3)
	t1csv, gs, hs := makeT1(r, c.N1, gDom)
	c.Tables = []tbl{
		{Name: "t1.csv", Rows: c.N1, CSV: t1csv},
		{Name: "t2.csv", Rows: c.N2, CSV: makeT2(r, c.N2)},
		{Name: "t3.csv", Rows: c.N3, CSV: t3csv},
	}
	mid := rapid.Permutation([]int{2, 3, 4, 5, 6, 8}).Draw(t, "cpuMid")[:2]
	sort.Ints(mid)
	c.CPUs = append(append([]int{1}, mid...), 16)
	c.R = 2
	if fw.Tier() == "thorough" {
		c.R = 6
	}
	np := fw.Range(t, "nProcs", 2, 4)
	for i := 0; i < np; i++ {
		c.Procs = append(c.Procs, fw.PickU(t, "gomaxprocs", []int{1, 2, 4, 8, 16}))
	}
	p := &pgen{gctx: &gctx{t: t, c: &c, t3ids: t3ids, gDom: gDom, gs: gs, hs: hs}}
	declared := map[string]bool{}
	nb := fw.Range(t, "nBlocks", 1, 3)
	for i := 0; i < nb; i++ {
		switch fw.Weighted(t, "block", []int{3, 3, 2, 4, 2}) {
		case 0:
			p.genCursorBlock()
		case 1:
			p.genPreparedBlock()
		case 2:
			p.genWhileBlock()
		case 3:
			p.genUDFQueryBlock(declared)
		default:
			p.genRecursive()
		}
	}
	// the state the blocks left behind, and what is committed of it
	p.add(stmt{SQL: "SELECT * FROM t1", Kind: "probe_end", Sel: true})
	p.add(stmt{SQL: "SELECT * FROM t3", Kind: "probe_end", Sel: true})
	if fw.Pct(t, "commit", 60) {
		p.add(stmt{SQL: "COMMIT", Kind: "commit"})
	}
	return c
}

func TestC12Procedural(t *testing.T) {
	fw.Run(t, fw.Spec[detCase]{
		ID: "C12", Name: "procedural", Quick: 48, Thorough: 720,
		Gen: genProcCase, Check: checkCase,
		Rule: "t1 with 81..400 rows, t2 with 7..160, t3 with 40/160; 1-3 blocks drawn from: a cursor over a GROUP BY / DISTINCT / join / ORDER BY..LIMIT / analytic query that is walked by WHILE VAR .. IN (body: PRINT of the row and a SELECT, an IF with a GROUP BY query, an UPDATE, an INSERT..SELECT or a CASE with CONTINUE, all with the fetched values as parameters), then FETCH FIRST/LAST/ABSOLUTE/RELATIVE/PRIOR/NEXT and CURSOR .. COUNT; a prepared SELECT (positional and named placeholders, GROUP BY with LISTAGG, or a join) or UPDATE executed 2-3 times with other values, or a cursor over a prepared statement opened twice USING other values; a WHILE loop of 2-4 iterations whose body is a GROUP BY query, an UPDATE + aggregate, an INSERT..SELECT with BREAK, a DELETE + analytic query or an IF/ELSEIF on a scalar subquery, with the loop variable as a parameter; a user-defined function whose body runs a scalar subquery, an unordered LISTAGG, a cursor loop that folds the rows in order, a query over the calling query's own table, a temporary table or another such function, called per row of t1 in the select list, the WHERE clause, an aggregate argument or the ORDER BY key; a recursive common table expression (UNION / UNION ALL, filter, self join, DISTINCT steps, analytic function over the result) whose steps run over >= 80 rows; then SELECT * of t1 and t3 and (60%) COMMIT; cpu in {1, two of 2..8, 16} x r runs (quick 2, thorough 6); besides the stored (top-level) result sets, the error and the file bytes, the captured standard output of the session (PRINT lines and the result sets of statements inside blocks, in order) must equal that of the first cpu=1 run; non-trivial = a task manager with >1 goroutine ran in a non-reference run; distinct by (block kinds, size of t1) and by the proc: shape tags",
		Assumptions: []string{
			"goroutine schedules are sampled",
			"variables are only read by queries (parameters); they are set by VAR, :=, FETCH and WHILE .. IN statements, never inside a query",
		},
	})
}
