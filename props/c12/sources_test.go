package c12

import (
	"encoding/json"
	"fmt"
	"sort"
	"strings"
	"testing"

	"pgregory.net/rapid"

	"verif/internal/fw"
)

// ---------------------------------------------------------------------
// Sub-check "sources": the same programs over tables that are NOT CSV files.
//
// in_process and cli only ever read and write CSV files. The property speaks
// of "the bytes of every file it writes" and the anchors name load_view.go:
// the loaders of LTSV (missing fields are filled in by a task manager) and
// JSON Lines (the objects are converted by a task manager, the header is the
// union of the keys in order of first appearance) have parallel code of
// their own, every text loader re-allocates its record set at 300 records
// while the reading goroutine keeps sending, and tables that come from
// standard input, from an inline table function or from a temporary table take
// other paths through LoadView (no file, no cache entry / a copy per use).
//
// t1, t2 and t3 are rendered from the same generated rows in a drawn format;
// t1 is a file, a temporary table filled from a file, from STDIN or from
// CSV_INLINE / JSON_INLINE (always under the NAME t1, so that every query
// shape of the main generator applies unchanged); new files are created in a
// drawn format from a parallel query (CREATE TABLE .. AS SELECT) and
// committed.

var fileFormats = []string{"csv", "tsv", "ltsv", "json", "jsonl"}

func delimCell(s string, delim string) string {
	if strings.ContainsAny(s, "\"\n"+delim) {
		return `"` + strings.ReplaceAll(s, `"`, `""`) + `"`
	}
	return s
}

func jsonScalar(col, cell string) string {
	if cell == "" {
		return "null"
	}
	switch col {
	case "s", "x":
		b, _ := json.Marshal(cell)
		return string(b)
	}
	return cell // numbers as generated (integers and decimal fractions)
}

// render writes rows (row 0 = header, "" = NULL) in the given format. The
// choices a format leaves open (omit a NULL field or write it) are taken from r.
func render(format string, rows [][]string, r *rng, late bool) string {
	var b strings.Builder
	hdr := rows[0]
	switch format {
	case "csv":
		return renderCSV(rows)
	case "tsv":
		for i, row := range rows {
			for j, c := range row {
				if j > 0 {
					b.WriteByte('\t')
				}
				if i == 0 {
					b.WriteString(c)
				} else {
					b.WriteString(delimCell(c, "\t"))
				}
			}
			b.WriteByte('\n')
		}
	case "ltsv":
		// the header of an LTSV table is the union of the labels in order of first appearance: unless
		// late is set the first record carries every label, so that the column order is the generated
		// one; with late a label may first appear in a later record and the records read before it
		// are shorter than the header (they are filled with NULL by a task manager)
		for i, row := range rows[1:] {
			first := true
			for j, c := range row {
				if c == "" && (late || i > 0 && r.pct(70)) {
					continue // a missing field: filled with NULL by the loader
				}
				if !first {
					b.WriteByte('\t')
				}
				first = false
				b.WriteString(hdr[j] + ":" + c)
			}
			b.WriteByte('\n')
		}
	case "json":
		b.WriteString("[")
		for i, row := range rows[1:] {
			if i > 0 {
				b.WriteString(",\n")
			}
			b.WriteString("{")
			for j, c := range row {
				if j > 0 {
					b.WriteString(",")
				}
				fmt.Fprintf(&b, "%q:%s", hdr[j], jsonScalar(hdr[j], c))
			}
			b.WriteString("}")
		}
		b.WriteString("]\n")
	case "jsonl":
		for i, row := range rows[1:] {
			b.WriteString("{")
			first := true
			for j, c := range row {
				if c == "" && (late || i > 0 && r.pct(50)) {
					continue // a missing key: NULL
				}
				if !first {
					b.WriteString(",")
				}
				first = false
				fmt.Fprintf(&b, "%q:%s", hdr[j], jsonScalar(hdr[j], c))
			}
			b.WriteString("}\n")
		}
	}
	return b.String()
}

func sqlLiteral(s string) string {
	s = strings.ReplaceAll(s, `\`, `\\`)
	s = strings.ReplaceAll(s, `'`, `\'`)
	return "'" + s + "'"
}

// createSources: queries with distinct column names, usable as the source of CREATE TABLE .. AS.
func (g *gctx) createSource() (string, string) {
	switch fw.Uniform(g.t, "createSrc", 7) {
	case 0:
		return "SELECT id, g, v, s, v * 2 + h AS e FROM t1" + g.where("", 60), "filter"
	case 1:
		return "SELECT a.id, a.g, b.k, b.x FROM t1 a JOIN t2 b ON a.g = b.k" + g.where("a.", 30), "join_inner"
	case 2:
		return "SELECT g, h, COUNT(*) AS c, LISTAGG(s, ';') AS ls, SUM(f) AS sf FROM t1" + g.where("", 30) + " GROUP BY g, h", "group"
	case 3:
		return "SELECT id, s, ROW_NUMBER() OVER (PARTITION BY h ORDER BY v) AS rn, SUM(v) OVER (PARTITION BY g) AS sv FROM t1", "analytic2"
	case 4:
		return "SELECT DISTINCT s, h FROM t1" + g.where("", 30), "distinct"
	case 5:
		return "SELECT a.id, a.s, b.id AS bid, b.s AS bs FROM t1 a FULL JOIN t3 b ON a.id = b.id", "join_full"
	default:
		return "SELECT id, v, s FROM t1" + g.where("", 30) + " ORDER BY " + g.orderItems([]string{"v", "s", "h"}, 2), "order"
	}
}

func genSourcesCase(t *rapid.T) detCase {
	c := detCase{}
	srcKind := fw.Weighted(t, "t1Source", []int{6, 2, 3, 2}) // file, temporary table from a file, STDIN, inline
	sizes := []int{5, 81, 160, 161, 241, 299, 300, 301, 320, 640}
	if srcKind == 3 {
		sizes = []int{5, 81, 160, 161, 241, 320}
	}
	c.N1 = fw.PickU(t, "n1", sizes)
	c.N2 = capPick(t, "n2", []int{1, 3, 7, 40, 81}, c.N1)
	c.N3 = capPick(t, "n3", []int{5, 40, 160}, c.N1)
	seed := rapid.Uint64().Draw(t, "dataSeed")
	gDom := fw.PickU(t, "gDom", []int{3, 8, 30, 90})
	r := &rng{s: seed}
	t3rows, t3ids := makeT3Rows(r, c.N3)
	t1rows, gs, hs := makeT1Rows(r, c.N1, gDom)
	t2rows := makeT2Rows(r, c.N2)
	t4csv := makeT4(r, c.N1)

	f1 := fw.PickU(t, "t1Format", fileFormats)
	f2 := fw.PickU(t, "t2Format", fileFormats)
	f3 := fw.PickU(t, "t3Format", fileFormats)
	// late: NULL fields / keys are always left out and column v of t1 (w of t2, v of t3) is NULL in
	// the first K records, so in LTSV and JSON Lines that label first appears in record K+1 and the K
	// records before it - up to all but one, lying in the chunks of several workers - are shorter
	// than the header
	late := fw.Pct(t, "labelsAppearLate", 50)
	if late {
		nullFirst := func(rows [][]string, col int, k int) {
			for i := 1; i <= k && i < len(rows)-1; i++ {
				rows[i][col] = ""
			}
		}
		k := fw.PickU(t, "lateK", []int{1, 2, c.N1/2 + 1, c.N1 - 1})
		nullFirst(t1rows, 3, k)
		if fw.Pct(t, "twoLate", 50) {
			nullFirst(t1rows, 5, fw.PickU(t, "lateK2", []int{1, 3, c.N1 / 3})) // s
		}
		nullFirst(t2rows, 1, fw.PickU(t, "lateK3", []int{1, c.N2 / 2, c.N2 - 1}))
		nullFirst(t3rows, 1, fw.PickU(t, "lateK4", []int{1, c.N3 / 2, c.N3 - 1}))
	}
	c.Tables = []tbl{
		{Name: "t2." + f2, Rows: c.N2, CSV: render(f2, t2rows, r, late)},
		{Name: "t3." + f3, Rows: c.N3, CSV: render(f3, t3rows, r, late)},
		{Name: "t4.csv", Rows: c.N1, CSV: t4csv},
	}
	g := &gctx{t: t, c: &c, t3ids: t3ids, gDom: gDom, gs: gs, hs: hs, t1Temp: srcKind != 0}
	var srcTag string
	switch srcKind {
	case 0:
		c.Tables = append(c.Tables, tbl{Name: "t1." + f1, Rows: c.N1, CSV: render(f1, t1rows, r, late)})
		srcTag = "src:file_" + f1
	case 1:
		c.Tables = append(c.Tables, tbl{Name: "t1src." + f1, Rows: c.N1, CSV: render(f1, t1rows, r, late)})
		g.add(stmt{SQL: "DECLARE t1 VIEW AS SELECT * FROM `t1src." + f1 + "`", Kind: "declare"})
		srcTag = "src:temp_from_" + f1
	case 2:
		c.Stdin = render(f1, t1rows, r, late)
		g.add(stmt{SQL: "SET @@IMPORT_FORMAT TO " + strings.ToUpper(f1), Kind: "declare"})
		g.add(stmt{SQL: "DECLARE t1 VIEW AS SELECT * FROM STDIN", Kind: "declare"})
		srcTag = "src:stdin_" + f1
	default:
		if fw.Pct(t, "inlineJSON", 50) {
			g.add(stmt{SQL: "DECLARE t1 VIEW AS SELECT * FROM JSON_INLINE('', " + sqlLiteral(render("json", t1rows, r, late)) + ")", Kind: "declare"})
			srcTag = "src:json_inline"
		} else {
			g.add(stmt{SQL: "DECLARE t1 VIEW AS SELECT * FROM CSV_INLINE(',', " + sqlLiteral(renderCSV(t1rows)) + ")", Kind: "declare"})
			srcTag = "src:csv_inline"
		}
	}
	srcTags := []string{srcTag, "src:t2_" + f2, "src:t3_" + f3}
	if late {
		fs := []string{f2, f3}
		if srcKind != 3 {
			fs = append(fs, f1)
		}
		for _, f := range fs {
			if f == "ltsv" || f == "jsonl" {
				srcTags = append(srcTags, "src:labels_appear_late_"+f)
			}
		}
	}

	mid := rapid.Permutation([]int{2, 3, 4, 5, 6, 7, 8}).Draw(t, "cpuMid")[:2]
	sort.Ints(mid)
	c.CPUs = append(append([]int{1}, mid...), 16)
	c.R = 2
	if fw.Tier() == "thorough" {
		c.R = 6
	}
	np := fw.Range(t, "nProcs", 2, 4)
	for i := 0; i < np; i++ {
		c.Procs = append(c.Procs, fw.PickU(t, "gomaxprocs", []int{1, 2, 4, 8, 16}))
	}
	for _, d := range udfDecls {
		g.add(stmt{SQL: d, Kind: "declare"})
	}
	// the first query reads every column of the source as loaded
	g.add(stmt{SQL: "SELECT * FROM t1", Kind: "load_probe", Sel: true, Tags: srcTags})
	nq := fw.Range(t, "nQueries", 1, 2)
	for i := 0; i < nq; i++ {
		g.add(g.genQuery())
	}
	if fw.Pct(t, "hasDML", 60) {
		g.genDML()
	}
	nc := fw.Range(t, "nCreate", 0, 2)
	for i := 0; i < nc; i++ {
		of := fw.PickU(t, "outFormat", fileFormats)
		src, kind := g.createSource()
		name := fmt.Sprintf("o%d.%s", i+1, of)
		g.add(stmt{SQL: "CREATE TABLE `" + name + "` AS " + src, Kind: "create_as_" + kind, Tags: []string{"out:" + of}})
		g.add(stmt{SQL: "SELECT * FROM `" + name + "`", Kind: "probe", Sel: true})
	}
	g.add(stmt{SQL: "COMMIT", Kind: "commit"})
	return c
}

func TestC12Sources(t *testing.T) {
	fw.Run(t, fw.Spec[detCase]{
		ID: "C12", Name: "sources", Quick: 72, Thorough: 960,
		Gen: genSourcesCase, Check: checkCase,
		Rule: "the rows of t1 (5..640 rows, incl. 299/300/301 around the loader's prepared capacity), t2 and t3 are rendered in a drawn format each (CSV, TSV, LTSV with missing fields, JSON, JSON Lines with missing keys); t1 is a file of that format, a temporary table declared from such a file, a temporary table declared from STDIN (with @@IMPORT_FORMAT set) or from CSV_INLINE / JSON_INLINE - always named t1, so the program is SELECT * FROM t1, 1-2 queries and 0-1 data-changing statements of the main generator (which then update LTSV / JSON / ... files or temporary tables), 0-2 CREATE TABLE `oN.<format>` AS <filter | join | GROUP BY | analytic | DISTINCT | FULL JOIN | ORDER BY query> each read back, and COMMIT; cpu in {1, two of 2..8, 16} x r runs (quick 2, thorough 6); oracle and non-triviality as in_process (the bytes of every updated and created file in its own format included); distinct by (statement kinds, size of t1)",
		Assumptions: []string{
			"goroutine schedules are sampled",
			"how a format represents NULL and types its cells is not judged here - only that every run loads, evaluates and writes the same",
		},
	})
}
