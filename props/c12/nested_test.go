package c12

import (
	"fmt"
	"sort"
	"strings"
	"testing"

	"pgregory.net/rapid"

	"verif/internal/fw"
)

// ---------------------------------------------------------------------
// Sub-check "nested": parallel evaluation INSIDE parallel evaluation.
//
// The goroutines of all task managers of a process come out of one pool
// (GoroutineManager.Count): a task manager that is created while other task
// managers hold goroutines gets fewer of them, so the way the inner record set
// of a correlated subquery is split depends on what the other workers of the
// outer query are doing at that moment - on the schedule. The subqueries of
// the main generator return COUNT(*) / MAX / IN / EXISTS, which do not depend
// on the order of the inner rows; here the inner result is order-SENSITIVE
// (LISTAGG / JSON_AGG without an order, LIMIT 1 without ORDER BY or with ties,
// first group of a GROUP BY, ROW_NUMBER over ties, LATERAL derived tables) and
// the inner table is large enough to be split (>= 160 rows).

func (g *gctx) nestedInner(i int) (string, string) {
	type shape struct {
		sql, tag string
		heavy    bool // a third level or a self join: only with a small outer table
	}
	shapes := []shape{
		{"(SELECT LISTAGG(b.k, ',') FROM t2 b WHERE b.w = a.h)", "listagg_unordered", false},
		{"(SELECT b.k FROM t2 b WHERE b.w = a.h LIMIT 1)", "limit1_unordered", false},
		{"(SELECT JSON_AGG(b.x) FROM t2 b WHERE b.k % 4 = a.h)", "json_agg_unordered", false},
		{"(SELECT COUNT(*) FROM t2 b WHERE b.w = a.h GROUP BY b.x LIMIT 1)", "first_group", false},
		{"(SELECT LISTAGG(q.x, '') FROM (SELECT DISTINCT b.x FROM t2 b WHERE b.w = a.h) q)", "distinct_representative", false},
		{"(SELECT b.id FROM t3 b WHERE b.v = a.v LIMIT 1)", "limit1_unordered", false},
		{"(SELECT LISTAGG(b.id, ' ') FROM t1 b WHERE b.g = a.g AND b.h = a.h)", "listagg_self", true},
		{"(SELECT LISTAGG(q.k || ':' || q.rn, ',') FROM (SELECT c.k, ROW_NUMBER() OVER (PARTITION BY c.w ORDER BY c.x) AS rn FROM t2 c WHERE c.w = a.h OR c.w IS NULL) q)", "row_number_ties", true},
		{"(SELECT b.k FROM t2 b WHERE b.w = a.h ORDER BY b.x LIMIT 1)", "order_ties_limit1", false},
		{"(SELECT LISTAGG(q.c, ',') FROM (SELECT b.x, COUNT(*) AS c FROM t2 b WHERE b.w <> a.h GROUP BY b.x) q)", "group_order", false},
		{"(SELECT LISTAGG(b.k, ',') FROM t2 b WHERE b.w = a.h AND b.k NOT IN (SELECT c.id FROM t3 c WHERE c.v = b.w))", "listagg_two_levels", true},
	}
	var ok []shape
	for _, s := range shapes {
		if s.heavy && g.c.N1 > 161 {
			continue
		}
		ok = append(ok, s)
	}
	s := ok[fw.Uniform(g.t, "nestedInner", len(ok))]
	return fmt.Sprintf("%s AS n%d", s.sql, i), "nested:" + s.tag
}

func (g *gctx) genNested() stmt {
	switch fw.Weighted(g.t, "nestedShape", []int{6, 2, 2, 2}) {
	case 1:
		// LATERAL derived table: the rows it yields per outer row come in inner order
		lim := g.rng("latLimit", 1, 3)
		sql := fmt.Sprintf("SELECT a.id, q.k, q.x FROM t1 a CROSS JOIN LATERAL (SELECT b.k, b.x FROM t2 b WHERE b.w = a.h LIMIT %d) q", lim) + g.where("a.", 30)
		return stmt{SQL: sql, Kind: "nested_lateral", Sel: true, Tags: []string{"nested:lateral_limit"}}
	case 2:
		// the order-sensitive inner value decides which outer rows pass
		sql := fmt.Sprintf("SELECT a.id, a.h FROM t1 a WHERE (SELECT b.k FROM t2 b WHERE b.w = a.h LIMIT 1) %% %d = 0", g.rng("mod", 2, 3))
		return stmt{SQL: sql, Kind: "nested_where", Sel: true, Tags: []string{"nested:limit1_in_where"}}
	case 3:
		// ... and the order of the outer rows
		sql := "SELECT a.id, a.h, a.g FROM t1 a ORDER BY (SELECT b.x FROM t2 b WHERE b.k % 8 = a.g % 8 LIMIT 1), a.id"
		return stmt{SQL: sql, Kind: "nested_order_key", Sel: true, Tags: []string{"nested:limit1_in_order_by"}}
	}
	n := g.rng("nInner", 1, 2)
	var fields, tags []string
	for i := 1; i <= n; i++ {
		f, tag := g.nestedInner(i)
		fields = append(fields, f)
		tags = append(tags, tag)
	}
	sql := "SELECT a.id, a.g, a.h, " + strings.Join(fields, ", ") + " FROM t1 a" + g.where("a.", 30)
	return stmt{SQL: sql, Kind: "nested_select", Sel: true, Tags: tags}
}

// genNestedDML: the order-sensitive inner value is written into a file.
func (g *gctx) genNestedDML() {
	switch fw.Uniform(g.t, "nestedDML", 3) {
	case 0:
		// UPDATE evaluates its SET list row by row: the inner query has the whole pool
		g.add(stmt{SQL: "UPDATE t1 SET s = (SELECT LISTAGG(b.x, '') FROM t2 b WHERE b.w = t1.h AND b.k % 16 = t1.g % 16)" + g.where("", 60), Kind: "nested_update", Tags: []string{"nested:update_set"}})
		g.add(stmt{SQL: "SELECT * FROM t1", Kind: "probe", Sel: true})
	case 1:
		g.add(stmt{SQL: fmt.Sprintf("DELETE FROM t1 WHERE (SELECT b.k FROM t2 b WHERE b.w = t1.h LIMIT 1) %% %d = 0", g.rng("mod", 2, 3)), Kind: "nested_delete", Tags: []string{"nested:delete_where"}})
		g.add(stmt{SQL: "SELECT * FROM t1", Kind: "probe", Sel: true})
	default:
		g.seq++
		g.add(stmt{SQL: fmt.Sprintf("INSERT INTO t3 (id, v, s) SELECT a.id + %d00000, a.v, (SELECT LISTAGG(b.k, '.') FROM t2 b WHERE b.w = a.h AND b.k < 40) FROM t1 a", g.seq) + g.where("a.", 50), Kind: "nested_insert_select", Tags: []string{"nested:insert_select"}})
		g.add(stmt{SQL: "SELECT * FROM t3", Kind: "probe", Sel: true})
	}
}

func genNestedCase(t *rapid.T) detCase {
	c := detCase{}
	// both levels large enough to be split in most cases; the bound keeps one program below about 60 000 inner rows per subquery
	type sz struct{ n1, n2 int }
	var combos []sz
	for _, n1 := range []int{81, 160, 161, 240, 241, 320} {
		for _, n2 := range []int{40, 160, 161, 240} {
			if n1*n2 <= 60000 {
				combos = append(combos, sz{n1, n2})
			}
		}
	}
	s := combos[fw.Uniform(t, "sizes", len(combos))]
	c.N1, c.N2 = s.n1, s.n2
	c.N3 = fw.PickU(t, "n3", []int{40, 160})
	seed := rapid.Uint64().Draw(t, "dataSeed")
	gDom := fw.PickU(t, "gDom", []int{3, 8, 30})
	r := &rng{s: seed}
	t3csv, t3ids := makeT3(r, c.N3)
	t1csv, gs, hs := makeT1(r, c.N1, gDom)
	c.Tables = []tbl{
		{Name: "t1.csv", Rows: c.N1, CSV: t1csv},
		{Name: "t2.csv", Rows: c.N2, CSV: makeT2(r, c.N2)},
		{Name: "t3.csv", Rows: c.N3, CSV: t3csv},
	}
	// cpu=1 is the reference; small settings make the two levels compete for the pool
	mid := rapid.Permutation([]int{2, 3, 4, 5, 6, 8}).Draw(t, "cpuMid")[:2]
	sort.Ints(mid)
	c.CPUs = append(append([]int{1}, mid...), 16)
	c.R = 3
	if fw.Tier() == "thorough" {
		c.R = 8
	}
	np := fw.Range(t, "nProcs", 2, 4)
	for i := 0; i < np; i++ {
		c.Procs = append(c.Procs, fw.PickU(t, "gomaxprocs", []int{2, 3, 4, 8, 16}))
	}
	g := &gctx{t: t, c: &c, t3ids: t3ids, gDom: gDom, gs: gs, hs: hs}
	nq := fw.Range(t, "nQueries", 1, 2)
	for i := 0; i < nq; i++ {
		g.add(g.genNested())
	}
	if fw.Pct(t, "hasDML", 40) {
		g.genNestedDML()
		g.add(stmt{SQL: "COMMIT", Kind: "commit"})
	}
	return c
}

func TestC12Nested(t *testing.T) {
	fw.Run(t, fw.Spec[detCase]{
		ID: "C12", Name: "nested", Quick: 40, Thorough: 800,
		Gen: genNestedCase, Check: checkCase,
		Rule: "t1 with 81..320 rows and t2 with 40..240 rows (both >= 160 in most cases, product <= 60 000); 1-2 queries whose per-row correlated subquery over t2/t3/t1 returns an order-SENSITIVE value (LISTAGG / JSON_AGG without order, LIMIT 1 without ORDER BY or over ties, the first group of a GROUP BY, DISTINCT representatives, ROW_NUMBER over ties, two levels of subqueries, a LATERAL derived table with LIMIT) in the select list, the WHERE clause or the ORDER BY key, optionally an UPDATE / DELETE / INSERT..SELECT that writes that value followed by SELECT * and COMMIT; runs in-process with cpu in {1, two of 2..8, 16} x r runs (quick 3, thorough 8): the inner task managers are created while the outer workers hold goroutines of the shared pool, so the inner split varies with the schedule; oracle and non-triviality as in_process; distinct by (statement kinds, size of t1)",
		Assumptions: []string{
			"goroutine schedules are sampled",
			"a subquery without ORDER BY is taken to yield its rows in table order, as every top-level query of in_process is: the property states 'the rows and their order'",
		},
	})
}
