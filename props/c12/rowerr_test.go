package c12

import (
	"fmt"
	"sort"
	"strings"
	"testing"

	"github.com/mithrandie/csvq/lib/query"
	"pgregory.net/rapid"

	"verif/internal/fw"
)

// ---------------------------------------------------------------------
// Sub-check "row_error": a statement whose per-row expression fails for 1-3
// rows at drawn positions of t1 (first row, last row, around the boundary of
// the chunks of two goroutines, somewhere in the last chunk of the largest
// setting, anywhere). With cpu=1 the statement fails and ends the program. The
// outcome of the program - the result sets before the failing statement, the
// fact that it failed, the error text, and the bytes of the files (an earlier
// COMMIT stays, nothing after the failure is executed) - must be the same for
// every cpu and on every run: a worker other than the first one finds the
// failing row, and the other workers must neither hide the error nor let the
// program go on.
//
// Every failing row raises the SAME error text (one failing expression per
// program; its text does not mention the row), so "which of several failing
// rows is reported" - which the property does not state - is never compared.

type errSource struct {
	name, expr, decl, want string
}

// errExpr returns an expression over the row of alias q (with trailing dot, or "") that fails exactly for the given ids.
func errExpr(kind int, q string, ids []int) errSource {
	var l []string
	for _, id := range ids {
		l = append(l, fmt.Sprint(id))
	}
	in := strings.Join(l, ", ")
	if kind == 0 {
		// a scalar subquery that returns every row of t2 (>= 2 rows) for the failing ids and no row otherwise
		return errSource{name: "subquery_too_many", want: "subquery returns too many records",
			expr: fmt.Sprintf("(SELECT e.k FROM t2 e WHERE %sid IN (%s))", q, in)}
	}
	return errSource{name: "udf_trigger_error", want: "row refused",
		decl: fmt.Sprintf("DECLARE uerr FUNCTION (@a) AS BEGIN IF @a IN (%s) THEN TRIGGER ERROR 'row refused'; END IF; RETURN @a %% 5; END", in),
		expr: fmt.Sprintf("uerr(%sid)", q)}
}

func t1IDs(csv string) []int {
	var ids []int
	for i, ln := range strings.Split(strings.TrimRight(csv, "\n"), "\n") {
		if i == 0 {
			continue
		}
		var id int
		_, _ = fmt.Sscan(strings.SplitN(ln, ",", 2)[0], &id)
		ids = append(ids, id)
	}
	return ids
}

func genRowErrCase(t *rapid.T) detCase {
	c := detCase{}
	c.N1 = fw.PickU(t, "n1", []int{81, 160, 161, 240, 241, 320, 400, 640, 1000, 1280})
	c.N2 = fw.PickU(t, "n2", []int{2, 3, 7})
	c.N3 = fw.PickU(t, "n3", []int{5, 40})
	seed := rapid.Uint64().Draw(t, "dataSeed")
	gDom := fw.PickU(t, "gDom", []int{3, 8, 30})
	r := &rng{s: seed}
	t3csv, t3ids := makeT3(r, c.N3)
	t1csv, gs, hs := makeT1(r, c.N1, gDom)
	c.Tables = []tbl{
		{Name: "t1.csv", Rows: c.N1, CSV: t1csv},
		{Name: "t2.csv", Rows: c.N2, CSV: makeT2(r, c.N2)},
		{Name: "t3.csv", Rows: c.N3, CSV: t3csv},
	}
	mid := rapid.Permutation([]int{3, 4, 5, 6, 7, 8, 12}).Draw(t, "cpuMid")[:2]
	sort.Ints(mid)
	c.CPUs = append(append([]int{1, 2}, mid...), 16)
	c.R = 2
	if fw.Tier() == "thorough" {
		c.R = 6
	}
	np := fw.Range(t, "nProcs", 2, 4)
	for i := 0; i < np; i++ {
		c.Procs = append(c.Procs, fw.PickU(t, "gomaxprocs", []int{1, 2, 4, 8, 16}))
	}
	g := &gctx{t: t, c: &c, t3ids: t3ids, gDom: gDom, gs: gs, hs: hs}

	// positions (file order) of the failing rows
	ids := t1IDs(t1csv)
	n := len(ids)
	var pos []int
	var posTags []string
	nFail := fw.Weighted(t, "nFail", []int{5, 3, 2}) + 1
	for i := 0; i < nFail; i++ {
		var p int
		var tag string
		switch fw.Uniform(t, "failPos", 6) {
		case 0:
			p, tag = 0, "first_row"
		case 1:
			p, tag = n-1, "last_row"
		case 2:
			p, tag = n/2-1+fw.Uniform(t, "aroundHalf", 2), "chunk_boundary_of_2"
		case 3:
			// inside the last chunk of the widest split of this table
			k := n / query.MinimumRequiredPerCPUCore
			if k > 16 {
				k = 16
			}
			if k < 1 {
				k = 1
			}
			lo := (k - 1) * (n / k)
			p, tag = lo+fw.Uniform(t, "inLast", n-lo), "last_chunk"
		case 4:
			p, tag = n/2+fw.Uniform(t, "secondHalf", n-n/2), "second_half"
		default:
			p, tag = fw.Uniform(t, "anyPos", n), "anywhere"
		}
		pos = append(pos, p)
		posTags = append(posTags, "errat:"+tag)
	}
	var failIDs []int
	seen := map[int]bool{}
	for _, p := range pos {
		if !seen[ids[p]] {
			seen[ids[p]] = true
			failIDs = append(failIDs, ids[p])
		}
	}
	srcKind := fw.Uniform(t, "errSource", 2)

	// harmless statements first: a result set, optionally a committed change and an uncommitted change
	g.add(g.genFilter())
	if fw.Pct(t, "committedBefore", 50) {
		g.add(stmt{SQL: "INSERT INTO t3 (id, v, s) SELECT id + 500000, v, s FROM t1" + g.where("", 80), Kind: "insert_select"})
		g.add(stmt{SQL: "COMMIT", Kind: "commit"})
	}
	if fw.Pct(t, "uncommittedBefore", 50) {
		g.add(stmt{SQL: "UPDATE t1 SET s = s || '?'" + g.where("", 80), Kind: "update"})
	}

	place := fw.Uniform(t, "errPlace", 11)
	q := "a."
	if place >= 8 {
		q = ""
	}
	src := errExpr(srcKind, q, failIDs)
	if src.decl != "" {
		g.add(stmt{SQL: src.decl, Kind: "declare"})
	}
	e := src.expr
	var sql, kind string
	sel := true
	switch place {
	case 0:
		sql, kind = "SELECT a.id, a.v, "+e+" AS e FROM t1 a", "err_select_list"
	case 1:
		sql, kind = "SELECT a.id, a.v FROM t1 a WHERE "+e+" IS NULL OR a.v > 3", "err_where"
	case 2:
		sql, kind = "SELECT a.id, a.v FROM t1 a ORDER BY "+e+", a.id", "err_order_key"
	case 3:
		sql, kind = "SELECT a.h, COUNT(*) AS c FROM t1 a GROUP BY a.h, "+e+" ORDER BY a.h", "err_group_key"
	case 4:
		sql, kind = "SELECT a.h, COUNT(*) AS c, SUM("+e+") AS se FROM t1 a GROUP BY a.h ORDER BY a.h", "err_aggregate_arg"
	case 5:
		sql, kind = "SELECT a.id, SUM("+e+") OVER (PARTITION BY a.h) AS w FROM t1 a", "err_analytic_arg"
	case 6:
		sql, kind = "SELECT a.id, b.k FROM t1 a JOIN t2 b ON "+e+" IS NULL AND a.h = b.w", "err_join_condition"
	case 7:
		sql, kind = "SELECT a.id, b.k FROM t1 a LEFT JOIN t2 b ON "+e+" IS NULL AND a.g = b.k", "err_outer_join_condition"
	case 8:
		sql, kind, sel = "DELETE FROM t1 WHERE "+e+" = 1", "err_delete_where", false
	case 9:
		sql, kind, sel = "UPDATE t1 SET v = v + 1 WHERE "+e+" IS NULL", "err_update_where", false
	default:
		sql, kind, sel = "INSERT INTO t3 (id, v, s) SELECT id + 700000, "+e+", s FROM t1", "err_insert_select", false
	}
	tags := append([]string{"errsrc:" + src.name}, posTags...)
	g.add(stmt{SQL: sql, Kind: kind, Sel: sel, Tags: tags})

	// never reached
	g.add(stmt{SQL: "SELECT COUNT(*) AS after_failure FROM t1", Kind: "agg_all", Sel: true})
	g.add(stmt{SQL: "INSERT INTO t3 (id, v, s) VALUES (999999, 0, 'after')", Kind: "insert_values"})
	g.add(stmt{SQL: "COMMIT", Kind: "commit"})
	return c
}

func errWanted(c detCase) string {
	for _, s := range c.Stmts {
		for _, t := range s.Tags {
			switch t {
			case "errsrc:subquery_too_many":
				return "subquery returns too many records"
			case "errsrc:udf_trigger_error":
				return "row refused"
			}
		}
	}
	return ""
}

func checkRowErrCase(c detCase) (fw.Outcome, *fw.Violation) {
	o, ref, parallelRuns, viol := differential(c)
	want := errWanted(c)
	if want == "" {
		return o, fw.Harness("row_error case without an error source tag")
	}
	if !strings.Contains(ref.Err, want) {
		// the reference run is cpu=1: the generator promised a failing row, so this is a fault of the generator, not of csvq
		return o, fw.Harness("the cpu=1 reference run did not fail with %q but with %q\nprogram:\n%s", want, ref.Err, program(c))
	}
	if viol != nil {
		if viol.Sig == "error_differs" || viol.Sig == "result_count_differs" {
			viol.Sig = "row_error_outcome_differs"
		}
		return o, viol
	}
	var kind string
	for _, s := range c.Stmts {
		if strings.HasPrefix(s.Kind, "err_") {
			kind = s.Kind
		}
	}
	if parallelRuns > 0 {
		o.Classes = append(o.Classes, "parallel")
		for _, t := range prefixTags(c, "errat:") {
			o.More = append(o.More, kind+"|"+t)
		}
		o.Fingerprint = kind + fmt.Sprintf("|n1=%d", c.N1)
	} else {
		o.Classes = append(o.Classes, "not_parallel")
	}
	return o, nil
}

func TestC12RowError(t *testing.T) {
	fw.Run(t, fw.Spec[detCase]{
		ID: "C12", Name: "row_error", Quick: 80, Thorough: 1200,
		Gen: genRowErrCase, Check: checkRowErrCase,
		Rule: "t1 with 81..1280 rows; a filter query, optionally INSERT..SELECT + COMMIT and an uncommitted UPDATE, then ONE statement whose per-row expression (a scalar subquery returning several rows, or a user-defined function that executes TRIGGER ERROR) fails for 1-3 rows at drawn file positions (first row, last row, either side of the boundary between the chunks of two goroutines, inside the last chunk of the widest split, second half, anywhere) in one of 11 places (select list, WHERE, ORDER BY key, GROUP BY key, aggregate argument, analytic argument, inner / outer join condition, DELETE WHERE, UPDATE WHERE, INSERT..SELECT), then a SELECT, an INSERT and a COMMIT that must never run; cpu in {1, 2, two of 3..12, 16} x r runs (quick 2, thorough 6); the cpu=1 run must fail with the generated error (otherwise the case is a harness error) and every other run must give the same result sets, the same error text and the same file bytes; non-trivial = a task manager with >1 goroutine ran in a non-reference run; distinct by (place of the failing expression, size of t1) and (place, position class)",
		Assumptions: []string{
			"every failing row of a program raises the same error text, so which failing row is reported is not compared (the property does not state it)",
			"goroutine schedules are sampled",
		},
	})
}
