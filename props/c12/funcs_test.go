package c12

import (
	"fmt"
	"sort"
	"strings"

	"github.com/mithrandie/csvq/lib/query"

	"verif/internal/fw"
)

// ---------------------------------------------------------------------
// t4: the typed-argument table of the function sweep (as many rows as t1).
//   id  unique integer
//   n   integer -40..60, some NULL
//   x   float, some NULL
//   u   text with non-ASCII words, never NULL (several functions raise an error on NULL text)
//   d   datetime text, never NULL
//   j   JSON text
//   e   (round 5) datetime text in formats csvq only reads when @@DATETIME_FORMAT names them

var uWords = []string{
	"hello world", "été à la plage", "日本語 テキスト", "straße groß", "ÀÉÎ õü ñ", "привет мир",
	"naïve café ☕", "ＡＢＣ full width", "a b c d e f g h", "MiXeD cAsE wOrDs here", "x", " padded  ",
	"emoji 😀 end", "ǆ ǅ ǉ titlecase", "ß ſ ŉ", "i̇stanbul İi", "tab\there", "ὀδυσσεύς σίσυφος",
}

func makeT4(r *rng, n int) string {
	var b strings.Builder
	b.WriteString("id,n,x,u,d,j,e\n")
	ids := r.perm(n)
	for i := 0; i < n; i++ {
		nv := fmt.Sprint(r.n(101) - 40)
		if r.pct(8) {
			nv = ""
		}
		xv := fmt.Sprintf("%d.%d", r.n(200)-100, r.n(100))
		if r.pct(8) {
			xv = ""
		}
		u := uWords[r.n(len(uWords))] + " " + uWords[r.n(len(uWords))]
		var d string
		switch r.n(4) {
		case 0:
			d = fmt.Sprintf("20%02d-%02d-%02d", r.n(30), 1+r.n(12), 1+r.n(28))
		case 1:
			d = fmt.Sprintf("19%02d-%02d-%02d %02d:%02d:%02d.%d", 70+r.n(30), 1+r.n(12), 1+r.n(28), r.n(24), r.n(60), r.n(60), r.n(1000))
		default:
			d = fmt.Sprintf("20%02d-%02d-%02d %02d:%02d:%02d", r.n(30), 1+r.n(12), 1+r.n(28), r.n(24), r.n(60), r.n(60))
		}
		j := fmt.Sprintf(`{"a":%d,"b":["x","é%d"],"c":{"d":"%s"}}`, r.n(50), r.n(9), sAlphabet[r.n(4)])
		var e string
		switch r.n(3) {
		case 0:
			// %d/%m/%Y or %m/%d/%Y: two thirds of the texts are read by both (the order of the formats
			// decides), the others by only one of them (a first or second number above 12)
			a, b := 1+r.n(12), 1+r.n(12)
			switch r.n(6) {
			case 0:
				a = 13 + r.n(16)
			case 1:
				b = 13 + r.n(16)
			}
			e = fmt.Sprintf("%02d/%02d/20%02d", a, b, r.n(30))
		case 1:
			e = fmt.Sprintf("20%02d%02d%02d", r.n(30), 1+r.n(12), 1+r.n(28)) // %Y%m%d
		default:
			e = fmt.Sprintf("%02d-%02d-%02d %02d.%02d", 1+r.n(12), 1+r.n(28), r.n(30), r.n(24), r.n(60)) // %m-%d-%y %H.%i
		}
		fmt.Fprintf(&b, "%d,%s,%s,%s,%s,%s,%s\n", ids[i]+1, nv, xv, csvCell(u), d, csvCell(j), e)
	}
	return b.String()
}

// ---------------------------------------------------------------------
// typed arguments per built-in scalar function (column arguments of fitting
// type; a function this table does not know is called with the text column).

var fnArgs = map[string][]string{
	"COALESCE": {"n, x, 0", "NULL, u"}, "IF": {"n > 0, u, d", "x < 0, n, x"}, "IFNULL": {"n, x", "x, u"}, "NULLIF": {"n, 5", "u, 'x x'"},
	"CEIL": {"x", "x, 1"}, "FLOOR": {"x", "x, 1"}, "ROUND": {"x", "x, 1", "n, -1"},
	"ABS": {"x", "n"}, "ACOS": {"x / 100"}, "ACOSH": {"ABS(x) + 1"}, "ASIN": {"x / 100"}, "ASINH": {"x"}, "ATAN": {"x"}, "ATAN2": {"x, n"}, "ATANH": {"x / 101"},
	"CBRT": {"x"}, "COS": {"x"}, "COSH": {"x / 10"}, "EXP": {"x / 10"}, "EXP2": {"n / 4"}, "EXPM1": {"x / 10"}, "IS_INF": {"POW(10, n * 10)", "POW(-10, n * 10 + 1), -1"}, "IS_NAN": {"SQRT(x)", "LOG(x)"},
	"LOG": {"ABS(x) + 1"}, "LOG10": {"ABS(x) + 1"}, "LOG1P": {"ABS(x)"}, "LOG2": {"ABS(n) + 1"}, "LOGB": {"ABS(x) + 1"}, "POW": {"x, 2", "2, n % 5"},
	"SIN": {"x"}, "SINH": {"x / 10"}, "SQRT": {"ABS(x)"}, "TAN": {"x"}, "TANH": {"x"},
	"BIN_TO_DEC": {"BIN(ABS(n))"}, "OCT_TO_DEC": {"OCT(ABS(n))"}, "HEX_TO_DEC": {"HEX(ABS(n))"}, "ENOTATION_TO_DEC": {"ENOTATION(x)"},
	"BIN": {"ABS(n)"}, "OCT": {"ABS(n)"}, "HEX": {"ABS(n)"}, "ENOTATION": {"x"}, "NUMBER_FORMAT": {"x * 1000", "x * 1000, 1", "x * 1000, 2, ',', '.'"},
	"TRIM": {"u", "u, 'x ed'"}, "LTRIM": {"u"}, "RTRIM": {"u"}, "UPPER": {"u"}, "LOWER": {"u"},
	"BASE64_ENCODE": {"u"}, "BASE64_DECODE": {"BASE64_ENCODE(u)"}, "HEX_ENCODE": {"u"}, "HEX_DECODE": {"HEX_ENCODE(u)"},
	"LEN": {"u"}, "BYTE_LEN": {"u"}, "WIDTH": {"u"}, "LPAD": {"u, 40, '*'", "u, 40, '.', 'WIDTH'", "n, 6, '0'"}, "RPAD": {"u, 40, '*'", "u, 50, '.', 'BYTE'"},
	"SUBSTRING": {"u, 3, 7", "u, -4"}, "SUBSTR": {"u, 2, 6", "u, ABS(n) % 9"}, "INSTR": {"u, 'e'", "u, 'テ'"}, "LIST_ELEM": {"u, ' ', 1", "u, ' ', ABS(n) % 4"},
	"REPLACE":      {"u, 'e', 'ë'", "u, ' ', '→'"},
	"REGEXP_MATCH": {"u, '[a-zé]+ [a-z]'", "u, '^[a-z ]+$'"}, "REGEXP_FIND": {"u, '[^ ]+$'", "u, '(.)(.)', 'i'"}, "REGEXP_FIND_SUBMATCHES": {"u, '(.)(.) '"},
	"REGEXP_FIND_ALL": {"u, '[^ ]+'"}, "REGEXP_REPLACE": {"u, '[aeiou]', 'ö'", "u, '(.) (.)', '$2 $1'"},
	"TITLE_CASE": {"u", "LOWER(u)"}, "FORMAT": {"'%s|%d|%.2f', u, n, x", "'%-30s|%08.3f|%x', u, x, n", "'%q %s %T', u, d, n"}, "JSON_VALUE": {"'a', j", "'b[1]', j", "'c.d', j"},
	"MD5": {"u"}, "SHA1": {"u"}, "SHA256": {"u"}, "SHA512": {"u"},
	"MD5_HMAC": {"u, 'kéy'"}, "SHA1_HMAC": {"u, 'kéy'"}, "SHA256_HMAC": {"u, d"}, "SHA512_HMAC": {"u, 'k'"},
	"DATETIME_FORMAT": {"d, '%Y-%m-%d %H:%i:%s.%f'", "d, '%a %b %e %y %p'"},
	"YEAR":            {"d"}, "MONTH": {"d"}, "DAY": {"d"}, "HOUR": {"d"}, "MINUTE": {"d"}, "SECOND": {"d"}, "MILLISECOND": {"d"}, "MICROSECOND": {"d"}, "NANOSECOND": {"d"},
	"WEEKDAY": {"d"}, "UNIX_TIME": {"d"}, "UNIX_NANO_TIME": {"d"}, "DAY_OF_YEAR": {"d"}, "WEEK_OF_YEAR": {"d"},
	"ADD_YEAR": {"d, n"}, "ADD_MONTH": {"d, n"}, "ADD_DAY": {"d, n"}, "ADD_HOUR": {"d, n"}, "ADD_MINUTE": {"d, n"}, "ADD_SECOND": {"d, n"},
	"ADD_MILLI": {"d, n"}, "ADD_MICRO": {"d, n"}, "ADD_NANO": {"d, n"},
	"TRUNC_MONTH": {"d"}, "TRUNC_DAY": {"d"}, "TRUNC_TIME": {"d"}, "TRUNC_HOUR": {"d"}, "TRUNC_MINUTE": {"d"}, "TRUNC_SECOND": {"d"},
	"TRUNC_MILLI": {"d"}, "TRUNC_MICRO": {"d"}, "TRUNC_NANO": {"d"},
	"DATE_DIFF": {"d, '2020-01-01'"}, "TIME_DIFF": {"d, '2020-01-01 12:00:00'"}, "TIME_NANO_DIFF": {"d, '2020-01-01 12:00:00'"}, "UTC": {"d"},
	"MILLI_TO_DATETIME": {"n * 86400000"}, "NANO_TO_DATETIME": {"n * 86400000000000"},
	"STRING": {"n", "x", "d"}, "INTEGER": {"x", "x * 10", "STRING(n)"}, "FLOAT": {"n", "STRING(n) || '.5'"}, "BOOLEAN": {"n % 2", "n > x"}, "TERNARY": {"n % 2", "n > x"}, "DATETIME": {"d", "n"},
}

// fnArgs5 (round 5): argument forms whose pattern / format / query argument DIFFERS FROM ROW TO ROW, so
// that the process-wide caches behind them (compiled regular expressions, converted datetime formats,
// parsed JSON queries: sync.Map + mutex, filled on first use) are filled by several workers at once,
// and arguments in the formats of @@DATETIME_FORMAT. None of them can fail for a row.
var fnArgs5 = map[string][]string{
	"JSON_VALUE":      {"'b[' || (id % 2) || ']', j", "IF(id % 3 > 0, 'a', 'c.d'), j"},
	"REGEXP_MATCH":    {"u, '^.{' || (id % 5) || '}[a-z]'"},
	"REGEXP_FIND":     {"u, '[a-z]{' || (1 + id % 4) || '}'"},
	"REGEXP_FIND_ALL": {"u, '[^ ]{' || (1 + id % 3) || ',}'"},
	"REGEXP_REPLACE":  {"u, '(.{' || (1 + id % 6) || '})', '$1|'"},
	"DATETIME_FORMAT": {"d, IF(id % 2 = 0, '%Y/%m/%d', '%d.%m.%Y %H:%i')", "e, '%Y-%m-%d %H:%i'"},
	"FORMAT":          {"'%' || (5 + id % 20) || 's|', u"},
	"DATETIME":        {"e"}, "YEAR": {"e"}, "MONTH": {"e"}, "DAY": {"e"}, "UNIX_TIME": {"e"}, "DATE_DIFF": {"e, d"},
	"ADD_DAY": {"e, n"}, "TRUNC_MONTH": {"e"}, "WEEKDAY": {"e"}, "DAY_OF_YEAR": {"e"},
	"WIDTH": {"u"}, "LPAD": {"u, 40, '-', 'WIDTH'"}, "RPAD": {"u, 45, '*', 'WIDTH'"},
}

// Non-deterministic, clock/environment-reading or external functions are never generated.
func excludedFn(name string) bool {
	for _, p := range []string{"RAND", "NOW", "UUID", "CALL", "ENV", "SLEEP", "CURRENT"} {
		if strings.Contains(name, p) {
			return true
		}
	}
	return false
}

var sweepFns []string // every generated built-in scalar function, enumerated from csvq at run time
var sweepStride int

func init() {
	for name := range query.Functions {
		if !excludedFn(name) {
			sweepFns = append(sweepFns, name)
		}
	}
	sort.Strings(sweepFns)
	gcd := func(a, b int) int {
		for b != 0 {
			a, b = b, a%b
		}
		return a
	}
	sweepStride = 11
	for gcd(sweepStride, len(sweepFns)) != 1 {
		sweepStride++
	}
}

const sweepWidth = 12

// genSweep: one SELECT over t4 calling sweepWidth built-in functions per row
// (a window over the sorted names with a coprime stride, so that every
// function is generated equally often).
func (g *gctx) genSweep() stmt {
	off := fw.Uniform(g.t, "sweepOffset", len(sweepFns))
	var fields []string
	var tags []string
	var first string
	for i := 0; i < sweepWidth; i++ {
		name := sweepFns[(off+i*sweepStride)%len(sweepFns)]
		args, ok := fnArgs[name]
		if !ok {
			args = []string{"u"}
		}
		call := fmt.Sprintf("%s(%s)", name, args[fw.Uniform(g.t, "fnArgs", len(args))])
		if a5, ok := fnArgs5[name]; ok && g.pct("fnArgs5", 50) {
			call = fmt.Sprintf("%s(%s)", name, a5[fw.Uniform(g.t, "fnArgs5v", len(a5))])
			tags = append(tags, "fn5:"+name)
		}
		if i == 0 {
			first = call
		}
		fields = append(fields, fmt.Sprintf("%s AS f%d", call, i+1))
		tags = append(tags, "fn:"+name)
	}
	sql := "SELECT id, " + strings.Join(fields, ", ") + " FROM t4"
	switch fw.Uniform(g.t, "sweepShape", 6) {
	case 0:
		sql += fmt.Sprintf(" WHERE n > %d", g.rng("k", -40, 10))
	case 1:
		// the first function of the window also in the filter
		sql += " WHERE " + first + " IS NOT NULL OR id % 3 = 0"
	case 2:
		sql += " ORDER BY f1, f2"
	}
	return stmt{SQL: sql, Kind: "fn_sweep", Sel: true, Tags: tags}
}

// ---------------------------------------------------------------------
// user-defined functions and aggregates (declared at the top of the program)

var udfDecls = []string{
	"DECLARE uadd FUNCTION (@a, @b DEFAULT 1) AS BEGIN IF @a IS NULL THEN RETURN @b; END IF; RETURN @a * 2 + @b; END",
	"DECLARE utag FUNCTION (@s, @n) AS BEGIN VAR @r := UPPER(@s) || ':' || @n; IF @r IS NULL THEN RETURN 'none'; END IF; RETURN @r; END",
	"DECLARE usum AGGREGATE (cur, @m DEFAULT 1) AS BEGIN VAR @a := 0; VAR @x; WHILE @x IN cur DO IF @x IS NULL THEN CONTINUE; END IF; @a := @a + @x * @m; END WHILE; RETURN IFNULL(@a, 'N') || '/' || IFNULL(@m, 'N'); END",
	"DECLARE ucat AGGREGATE (cur, @p, @q) AS BEGIN VAR @a := ''; VAR @x; WHILE @x IN cur DO @a := @a || IFNULL(@x, '-'); END WHILE; RETURN IFNULL(@p, 'N') || '[' || @a || ']' || IFNULL(@q, 'N'); END",
}

func (g *gctx) genUDF() stmt {
	switch fw.Weighted(g.t, "udfShape", []int{2, 1, 2, 5}) {
	case 0:
		sql := "SELECT id, v, uadd(v, h) AS u1, utag(s, g) AS u2, uadd(v) AS u3 FROM t1" + pickS(g, "udfWhere", []string{"", "", " WHERE uadd(v, g) > 10", " WHERE utag(s, h) LIKE 'A%'"}) + g.optOrder([]string{"u1", "u2"}, 20)
		return stmt{SQL: sql, Kind: "udf_scalar", Sel: true}
	case 1:
		sql := "SELECT usum(v) AS a1, usum(v, 3) AS a2, ucat(s, 'x', 'y') AS a3, usum(DISTINCT v) AS a4 FROM t1" + g.where("", 40)
		return stmt{SQL: sql, Kind: "udf_agg", Sel: true}
	case 2:
		keys := pickS(g, "udfKeys", []string{"g", "h", "g, h", "s"})
		first := strings.Split(keys, ", ")[0]
		sql := fmt.Sprintf("SELECT %s, COUNT(*) AS c, usum(v, %s) AS a1, ucat(id, %s, '|') AS a2 FROM t1", keys, pickS(g, "udfArg", []string{"2", first, "COUNT(*)"}), first) + g.where("", 30) + " GROUP BY " + keys
		sql, tags := g.groupOrder(sql, strings.Split(keys, ", "), false)
		return stmt{SQL: sql, Kind: "udf_group", Sel: true, Tags: tags}
	}
	// user-defined aggregates as analytic functions: 1-2 extra arguments that depend on the row / the partition
	parts := []string{"PARTITION BY g", "PARTITION BY g", "PARTITION BY g, h", "PARTITION BY s", "PARTITION BY h", "PARTITION BY id % 40"}
	n := g.rng("nUdfAna", 1, 2)
	var fns []string
	for i := 1; i <= n; i++ {
		part := pickS(g, "udfPart", parts)
		ord := pickS(g, "udfOrd", []string{"", "", " ORDER BY id", " ORDER BY v, id", " ORDER BY id ROWS BETWEEN 1 PRECEDING AND 1 FOLLOWING"})
		var e string
		switch fw.Uniform(g.t, "udfAnaFn", 4) {
		case 0:
			e = fmt.Sprintf("usum(v, %s) OVER (%s%s)", pickS(g, "udfM", []string{"g", "id", "h + 1", "id % 7"}), part, ord)
		case 1:
			e = fmt.Sprintf("ucat(s, %s, %s) OVER (%s%s)", pickS(g, "udfP", []string{"g", "id", "s"}), pickS(g, "udfQ", []string{"h", "id", "v", "g"}), part, ord)
		case 2:
			e = fmt.Sprintf("ucat(v, id, %s) OVER (%s%s)", pickS(g, "udfQ2", []string{"g", "s || id"}), part, ord)
		default:
			e = fmt.Sprintf("usum(id, %s) OVER (%s)", pickS(g, "udfM2", []string{"g", "id"}), part)
		}
		fns = append(fns, fmt.Sprintf("%s AS w%d", e, i))
	}
	sql := "SELECT id, g, h, " + strings.Join(fns, ", ") + " FROM t1" + g.where("", 20)
	return stmt{SQL: sql, Kind: "udf_analytic", Sel: true}
}

// ---------------------------------------------------------------------
// REPLACE with a USING key that is NOT unique in the target: every row of the
// target carrying the key must be replaced, for every cpu. The target is t1
// (or a temporary copy of it), the key is g, h or (g, h), whose values occur
// all over the table, i.e. in the chunks of different workers.

// crossChunk: some given key occurs in both halves of t1 as generated (the two
// chunks of cpu=2) and t1 is large enough to be split.
func (g *gctx) crossChunk(keyOf func(i int) string, given map[string]bool) bool {
	n := len(g.gs)
	if n < 2*query.MinimumRequiredPerCPUCore {
		return false
	}
	lo, hi := map[string]bool{}, map[string]bool{}
	for i := 0; i < n; i++ {
		k := keyOf(i)
		if !given[k] {
			continue
		}
		if i < n/2 {
			lo[k] = true
		} else {
			hi[k] = true
		}
	}
	for k := range lo {
		if hi[k] {
			return true
		}
	}
	return false
}

func dupTags(cross, givenDup, temp bool) []string {
	tags := []string{"dupkey:same_chunk_or_small"}
	if cross {
		tags = []string{"dupkey:cross_chunk"}
	}
	if givenDup {
		tags = append(tags, "dupkey:given_records_repeat_key")
	}
	if temp {
		tags = append(tags, "dupkey:temp_table")
	} else {
		tags = append(tags, "dupkey:file")
	}
	return tags
}

// replaceTarget returns the target table name; with temp it first declares a temporary copy of t1.
func (g *gctx) replaceTarget(temp bool) string {
	if !temp {
		return "t1"
	}
	name := fmt.Sprintf("tmp%d", g.seq)
	g.add(stmt{SQL: "DECLARE " + name + " VIEW AS SELECT id, g, h, v, s FROM t1", Kind: "declare"})
	return name
}

func (g *gctx) genReplaceDupKeyValues() {
	temp := g.pct("dupTemp", 30)
	twoKeys := g.pct("dupTwoKeys", 35)
	n := g.rng("nGiven", 2, 6)
	given := map[string]bool{}
	givenDup := false
	var rows []string
	pg, ph := 0, 0
	for i := 0; i < n; i++ {
		gv, hv := g.rng("gk", 0, g.gDom-1), g.rng("hk", 0, 3)
		if g.pct("unmatchedKey", 15) {
			gv = g.gDom + 5 + i
		}
		if i > 0 && g.pct("repeatKey", 25) {
			gv, hv = pg, ph
		}
		pg, ph = gv, hv
		var key string
		if twoKeys {
			key = fmt.Sprintf("%d|%d", gv, hv)
			rows = append(rows, fmt.Sprintf("(%d, %d, %d, 'R%d')", gv, hv, 100+i, i))
		} else {
			key = fmt.Sprint(gv)
			rows = append(rows, fmt.Sprintf("(%d, 'R%d')", gv, i))
		}
		if given[key] {
			givenDup = true
		}
		given[key] = true
	}
	keyOf := func(i int) string { return g.gs[i] }
	cols, using := "(g, s)", "(g)"
	if twoKeys {
		keyOf = func(i int) string { return g.gs[i] + "|" + g.hs[i] }
		cols, using = "(g, h, v, s)", "(g, h)"
	}
	tags := dupTags(g.crossChunk(keyOf, given), givenDup, temp)
	target := g.replaceTarget(temp)
	g.add(stmt{SQL: fmt.Sprintf("REPLACE INTO %s %s USING %s VALUES %s", target, cols, using, strings.Join(rows, ", ")), Kind: "replace_dupkey_values", Tags: tags})
	g.add(stmt{SQL: "SELECT * FROM " + target, Kind: "probe", Sel: true})
}

func (g *gctx) genReplaceDupKeySelect() {
	temp := g.pct("dupTemp", 30)
	all := func(string) bool { return true }
	ltN2 := func(k string) bool {
		var v int
		_, err := fmt.Sscan(k, &v)
		return err == nil && v < g.c.N2
	}
	var sql string
	keyOf := func(i int) string { return g.gs[i] }
	eligible := all
	givenDup := false
	target := g.replaceTarget(temp)
	switch fw.Uniform(g.t, "dupSelShape", 5) {
	case 0:
		// the given records repeat keys as soon as t2 has more than four rows
		sql = "REPLACE INTO " + target + " (h, s) USING (h) SELECT w, x FROM t2"
		keyOf = func(i int) string { return g.hs[i] }
		givenDup = g.c.N2 > 4
	case 1:
		sql = "REPLACE INTO " + target + " (g, h, s) USING (g, h) SELECT k, w, x || '@' FROM t2"
		eligible = ltN2
	case 2:
		sql = "REPLACE INTO " + target + " (g, s) USING (g) SELECT g, MAX(s) || '*' FROM t1 WHERE g IS NOT NULL GROUP BY g ORDER BY g"
	case 3:
		sql = "REPLACE INTO " + target + " (g, v) USING (g) SELECT k, w FROM t2 WHERE k % 2 = 0"
		eligible = ltN2
	default:
		sql = "REPLACE INTO " + target + " (h, v, s) USING (h) SELECT h, v, s FROM t1 WHERE id <= 12"
		keyOf = func(i int) string { return g.hs[i] }
		givenDup = true
	}
	given := map[string]bool{}
	for i := range g.gs {
		if k := keyOf(i); k != "" && eligible(k) {
			given[k] = true
		}
	}
	tags := dupTags(g.crossChunk(keyOf, given), givenDup, temp)
	g.add(stmt{SQL: sql, Kind: "replace_dupkey_select", Tags: tags})
	g.add(stmt{SQL: "SELECT * FROM " + target, Kind: "probe", Sel: true})
}
