package c12

import (
	"fmt"
	"strings"
	"testing"

	"pgregory.net/rapid"

	"verif/internal/fw"
)

// ---------------------------------------------------------------------
// Sub-check "big_groups": aggregation over buckets of thousands of rows.
//
// The tables of the main generator have at most 1700 rows spread over 3..90
// groups, so one bucket (one GROUP BY group, one partition, the whole table)
// rarely holds more than a few hundred values. Work that is split by the size
// of ONE bucket - the value list of an aggregate, a partition, a sort inside a
// group - and arithmetic whose result depends on how a list is cut (floating
// point sums) therefore never met a bucket large enough. Here t1 has 1600 to
// 6400 rows in 1 to 4 buckets and every statement aggregates column f (decimal
// fractions whose float sums depend on the order of addition) or v per bucket.

var bigAggPool = []string{
	"SUM(f)", "AVG(f)", "SUM(f)", "AVG(f)", "STDEV(f)", "STDEVP(f)", "VAR(f)", "VARP(f)", "MEDIAN(f)", "SUM(v)", "AVG(v)", "MIN(f)", "MAX(f)",
	"SUM(f * 1.1)", "AVG(f / 3)", "SUM(DISTINCT f)", "AVG(DISTINCT f)", "COUNT(DISTINCT f)", "SUM(v * f)", "COUNT(f)",
	"LISTAGG(h, '')", "JSON_AGG(h)", "usum(f, 0.1)", "usum(v)", "SUM(f + id * 0.01)", "AVG(f - id * 0.001)",
}

var bigAnaPool = []string{
	"SUM(f) OVER ()", "AVG(f) OVER ()", "SUM(f) OVER (PARTITION BY h)", "AVG(f) OVER (PARTITION BY g)", "STDEV(f) OVER (PARTITION BY h)",
	"MEDIAN(f) OVER (PARTITION BY h)", "VAR(f) OVER ()", "SUM(v * f) OVER (PARTITION BY g)", "COUNT(DISTINCT f) OVER ()", "SUM(f * 1.1) OVER (PARTITION BY id % 2)",
}

func (g *gctx) bigAggs(lo, hi int) []string {
	n := g.rng("nBigAgg", lo, hi)
	var out []string
	for i := 0; i < n; i++ {
		out = append(out, fmt.Sprintf("%s AS a%d", pickS(g, "bigAgg", bigAggPool), i+1))
	}
	return out
}

func (g *gctx) genBigGroup() stmt {
	switch fw.Weighted(g.t, "bigShape", []int{35, 35, 20, 10}) {
	case 0:
		sql := "SELECT COUNT(*) AS c, " + strings.Join(g.bigAggs(2, 5), ", ") + " FROM t1" + g.where("", 30)
		return stmt{SQL: sql, Kind: "big_agg_all", Sel: true, Tags: []string{"big:whole_table"}}
	case 1:
		key := pickS(g, "bigKey", []string{"g", "h", "g", "id % 2"})
		sql := "SELECT " + key + " AS k, COUNT(*) AS c, " + strings.Join(g.bigAggs(2, 5), ", ") + " FROM t1" + g.where("", 30) + " GROUP BY " + key + " ORDER BY k"
		return stmt{SQL: sql, Kind: "big_group", Sel: true, Tags: []string{"big:group_by"}}
	case 2:
		n := g.rng("nBigAna", 1, 3)
		var sel []string
		for i := 0; i < n; i++ {
			sel = append(sel, fmt.Sprintf("%s AS w%d", pickS(g, "bigAna", bigAnaPool), i+1))
		}
		sql := "SELECT id, " + strings.Join(sel, ", ") + " FROM t1" + g.where("", 25) + " ORDER BY id"
		return stmt{SQL: sql, Kind: "big_analytic", Sel: true, Tags: []string{"big:analytic"}}
	default:
		// the aggregate of a large bucket decides rows and is written to a file
		g.seq++
		sql := fmt.Sprintf("INSERT INTO t3 (id, v, s) SELECT MIN(id) + %d00000, COUNT(*), SUM(f) || '/' || AVG(f) FROM t1 GROUP BY h HAVING SUM(f) > 0 OR SUM(f) <= 0", g.seq)
		return stmt{SQL: sql, Kind: "big_insert_group", Tags: []string{"big:insert_select"}}
	}
}

func genBigGroupCase(t *rapid.T) detCase {
	c := detCase{}
	c.N1 = fw.PickU(t, "n1Big", []int{1600, 1601, 2000, 2400, 3200, 3201, 4800, 6400})
	c.N2, c.N3 = 3, 40
	seed := rapid.Uint64().Draw(t, "dataSeed")
	gDom := fw.PickU(t, "gDomBig", []int{1, 2, 3})
	r := &rng{s: seed}
	t3csv, t3ids := makeT3(r, c.N3)
	t1csv, gs, hs := makeT1(r, c.N1, gDom)
	c.Tables = []tbl{
		{Name: "t1.csv", Rows: c.N1, CSV: t1csv},
		{Name: "t2.csv", Rows: c.N2, CSV: makeT2(r, c.N2)},
		{Name: "t3.csv", Rows: c.N3, CSV: t3csv},
	}
	c.CPUs = []int{1, 2, fw.PickU(t, "cpuMid", []int{3, 4, 5, 6, 8, 12}), 16}
	c.R = 2
	if fw.Tier() == "thorough" {
		c.R = 4
	}
	np := fw.Range(t, "nProcs", 2, 4)
	for i := 0; i < np; i++ {
		c.Procs = append(c.Procs, fw.PickU(t, "gomaxprocs", []int{2, 4, 8, 16}))
	}
	g := &gctx{t: t, c: &c, t3ids: t3ids, gDom: gDom, gs: gs, hs: hs}
	for _, d := range udfDecls {
		g.add(stmt{SQL: d, Kind: "declare"})
	}
	nq := fw.Range(t, "nQueries", 1, 3)
	wrote := false
	for i := 0; i < nq; i++ {
		s := g.genBigGroup()
		g.add(s)
		if !s.Sel {
			wrote = true
			g.add(stmt{SQL: "SELECT * FROM t3", Kind: "probe", Sel: true})
		}
	}
	if wrote {
		g.add(stmt{SQL: "COMMIT", Kind: "commit"})
	}
	return c
}

func TestC12BigGroups(t *testing.T) {
	fw.Run(t, fw.Spec[detCase]{
		ID: "C12", Name: "big_groups", Quick: 48, Thorough: 960,
		Gen: genBigGroupCase, Check: checkCase,
		Rule:        "t1 with 1600..6400 rows whose column g has 1-3 values and h four (so one GROUP BY group, partition or the whole table holds 400 to 6400 values); 1-3 statements that aggregate per bucket: 2-5 aggregates over the whole table or GROUP BY g / h / id % 2 - SUM / AVG / STDEV[P] / VAR[P] / MEDIAN of f (decimal fractions 0.1, 0.2, 0.3, 0.7, 1.1, 2.5, 1000000.1, -0.3 whose float sum depends on the order of addition), of products and quotients with f, DISTINCT forms, LISTAGG / JSON_AGG, the user-defined aggregate usum -, 1-3 of those as analytic functions (OVER (), PARTITION BY g / h / id % 2) or an INSERT..SELECT of SUM(f) and AVG(f) per group into t3 with HAVING over the sum, followed by SELECT * and COMMIT; runs in-process with cpu in {1, 2, one of 3..12, 16} x r runs (quick 2, thorough 4); oracle and non-triviality as in_process; distinct by (statement kinds, size of t1)",
		Assumptions: []string{"goroutine schedules are sampled", "cells are compared by text: a float sum that differs in its last digit is a different result"},
	})
}
