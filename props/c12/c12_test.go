package c12

import (
	"fmt"
	"os"
	"path/filepath"
	"runtime"
	"sort"
	"strings"
	"sync/atomic"
	"testing"
	"time"

	"github.com/mithrandie/csvq/lib/query"
	"pgregory.net/rapid"

	"verif/internal/fw"
	"verif/internal/run"
)

func TestMain(m *testing.M) { fw.Main(m) }

// Shapes on which csvq genuinely violates the property (reported with the
// signatures named below). While a flag is true the generator keeps away from
// that exact shape so that the search continues past it; set it to false to
// let the generator produce the shape again (the signature then appears and
// can be listed in known_findings.jsonl or disappears once /repo is fixed).
const (
	// GROUP BY over >= 160 rows with --cpu > 1: View.group appends newly seen
	// keys to a shared slice under a mutex from all workers, so the order of
	// the groups is the order in which the workers happened to run
	// -> signature group_by_order_nondeterministic. Avoided by adding a total
	// ORDER BY over the group keys to every GROUP BY query.
	avoidKnownGroupByOrder = false
	// REPLACE appends the unmatched rows by ranging over a Go map
	// -> signature replace_unmatched_order. Avoided by giving every REPLACE at
	// most one unmatched row.
	avoidKnownReplaceOrder = false
	// Three or more analytic functions in one select list are evaluated in
	// the order of a Go map range (appendAnalyticFunctionToListIfNotExist);
	// each evaluation re-sorts the view, so row order and tie resolution vary
	// -> signature analytic_eval_order_map. Avoided by at most two analytic
	// functions per select list.
	avoidKnownAnalyticOrder = false
	// Open defect of another property (C14/C05): a FROM-subquery over a file
	// clears the path of the cached table, every later DML touching that file
	// fails with "file  does not exist" - identically on every run, so it is no
	// C12 divergence, but it cuts the program short. Avoided by writing the
	// derived table as a common table expression.
	avoidKnownSubqueryPath = false
	// Round 5. A user-defined function whose body changes a table (INSERT / UPDATE / DELETE), called
	// per row by a query over >= 160 rows: the workers run the bodies concurrently, the statements
	// are serialised by the transaction's operation mutex in the order the workers arrive, so the
	// order of the inserted rows (and the bytes committed) depends on --cpu and on the schedule
	// -> signature udf_dml_in_parallel_query_order. The program neither calls RAND/NOW nor assigns
	// a variable inside a query, so it is inside the property as stated; no small repair (csvq would
	// have to evaluate such queries sequentially or refuse data changes inside functions called from
	// queries: a design decision). Avoided by never drawing such a function (procedural sub-check).
	avoidKnownUDFDML = true
)

// ---------------------------------------------------------------------
// case

type tbl struct {
	Name string `json:"name"`
	Rows int    `json:"rows"`
	CSV  string `json:"csv"`
}

type stmt struct {
	SQL  string   `json:"sql"`
	Kind string   `json:"kind"`           // operator kind of the statement
	Sel  bool     `json:"sel,omitempty"`  // produces a result set
	Tags []string `json:"tags,omitempty"` // shape tags used to name a divergence
}

type detCase struct {
	Tables []tbl  `json:"tables"`
	Stmts  []stmt `json:"stmts"`
	N1     int    `json:"n1"`
	N2     int    `json:"n2"`
	N3     int    `json:"n3"`
	CPUs   []int  `json:"cpus"`  // settings; the first run of the first setting is the reference
	R      int    `json:"r"`     // runs per setting
	Procs  []int  `json:"procs"` // GOMAXPROCS per run, cycled
	CLI    bool   `json:"cli,omitempty"`
	Stdin  string `json:"stdin,omitempty"`  // data on standard input (sub-check sources)
	OutFmt string `json:"outfmt,omitempty"` // CLI: --format of the result sets ("" = CSV)
	OutTo  string `json:"outto,omitempty"`  // CLI: --out FILE for the result sets ("" = stdout)
	// round 5
	CPUAt   int      `json:"cpuat,omitempty"`   // k > 0: the session starts with cpu 1 and "SET @@CPU TO <setting>" runs before statement k-1
	CLIOpts []string `json:"cliopts,omitempty"` // CLI: further command-line options
	Capture bool     `json:"capture,omitempty"` // in-process: standard output is captured and compared (PRINT, result sets of blocks)
}

var sizeClasses = []int{5, 79, 80, 81, 159, 160, 161, 239, 240, 241, 320, 400, 1000}
var partnerSizes = []int{1, 2, 3, 7, 40, 81, 160}
var targetSizes = []int{5, 40, 81, 160, 241}
var cpuSettings = []int{1, 2, 3, 4, 8, 16} // settings of the pinned cases and of the CLI sub-check

// Sizes of t1 beyond the original classes (drawn with a lower weight: they cost more):
// 299/300/301 straddle the file loader's prepared capacity (300 records: the record set is
// re-allocated while the reader goroutine is still sending), 639/640/641 the size from which 8
// goroutines are used, 1279/1280/1281 the size from which 16 goroutines are used (with at most
// 1000 rows no task manager ever ran with more than 12 goroutines), 1700 leaves a remainder of
// 1700 mod N rows to the last goroutine for most N.
var sizeClassesLoader = []int{299, 300, 301}
var sizeClasses8 = []int{639, 640, 641}
var sizeClasses16 = []int{1279, 1280, 1281, 1700}

func drawN1(t *rapid.T) int {
	switch fw.Weighted(t, "n1Class", []int{52, 6, 6, 4}) {
	case 0:
		return fw.PickU(t, "n1", sizeClasses)
	case 1:
		return fw.PickU(t, "n1Loader", sizeClassesLoader)
	case 2:
		return fw.PickU(t, "n1x8", sizeClasses8)
	}
	return fw.PickU(t, "n1x16", sizeClasses16)
}

// drawCPUs: cpu=1 (the reference), 2 and the core count always, plus three further distinct
// values from 3..15, so that over a run every value from 1 to 16 is used (RecordRange with 5, 6,
// 7, 9..15 goroutines was never executed with the fixed list 1,2,3,4,8,16).
func drawCPUs(t *rapid.T) []int {
	mid := rapid.Permutation([]int{3, 4, 5, 6, 7, 8, 9, 10, 11, 12, 13, 14, 15}).Draw(t, "cpuMid")[:3]
	sort.Ints(mid)
	return append(append([]int{1, 2}, mid...), 16)
}

const maxProduct = 40000 // bound on join products (cost)

// splitmix64: the table contents are expanded from one rapid-drawn seed (a
// thousand rows drawn cell by cell would cost more than the runs themselves).
type rng struct{ s uint64 }

func (r *rng) next() uint64 {
	r.s += 0x9e3779b97f4a7c15
	z := r.s
	z = (z ^ (z >> 30)) * 0xbf58476d1ce4e5b9
	z = (z ^ (z >> 27)) * 0x94d049bb133111eb
	return z ^ (z >> 31)
}
func (r *rng) n(k int) int    { return int(r.next() % uint64(k)) }
func (r *rng) pct(p int) bool { return r.n(100) < p }
func (r *rng) perm(n int) []int {
	p := make([]int, n)
	for i := range p {
		p[i] = i
	}
	for i := n - 1; i > 0; i-- {
		j := r.n(i + 1)
		p[i], p[j] = p[j], p[i]
	}
	return p
}

var sAlphabet = []string{"a", "A", "b", "B", "ab", "Ab", "c", "x y", "d,e", "q\"z", "zz", "m"}
var fAlphabet = []string{"0.1", "0.2", "0.3", "0.7", "1.1", "2.5", "1000000.1", "-0.3"}

func csvCell(s string) string {
	if strings.ContainsAny(s, "\",\n") {
		return `"` + strings.ReplaceAll(s, `"`, `""`) + `"`
	}
	return s
}

// renderCSV writes a table the way the original generator did: an empty cell is NULL.
func renderCSV(rows [][]string) string {
	var b strings.Builder
	for i, r := range rows {
		for j, c := range r {
			if j > 0 {
				b.WriteByte(',')
			}
			if i == 0 {
				b.WriteString(c)
			} else {
				b.WriteString(csvCell(c))
			}
		}
		b.WriteByte('\n')
	}
	return b.String()
}

// makeT1Rows: header row + n data rows ("" = NULL) and the columns g and h in file order.
func makeT1Rows(r *rng, n int, gDom int) ([][]string, []string, []string) {
	gs, hs := make([]string, n), make([]string, n)
	rows := [][]string{{"id", "g", "h", "v", "f", "s"}}
	ids := r.perm(n)
	for i := 0; i < n; i++ {
		g := fmt.Sprint(r.n(gDom))
		if r.pct(6) {
			g = ""
		}
		h := fmt.Sprint(r.n(4))
		v := fmt.Sprint(r.n(26) - 5)
		if r.pct(10) {
			v = ""
		}
		f := fAlphabet[r.n(len(fAlphabet))]
		s := sAlphabet[r.n(len(sAlphabet))]
		if r.pct(8) {
			s = ""
		}
		gs[i], hs[i] = g, h
		rows = append(rows, []string{fmt.Sprint(ids[i] + 1), g, h, v, f, s})
	}
	return rows, gs, hs
}

func makeT1(r *rng, n int, gDom int) (string, []string, []string) {
	rows, gs, hs := makeT1Rows(r, n, gDom)
	return renderCSV(rows), gs, hs
}

func makeT2Rows(r *rng, n int) [][]string {
	rows := [][]string{{"k", "w", "x"}}
	ks := r.perm(n)
	for i := 0; i < n; i++ {
		w := fmt.Sprint(r.n(4))
		if r.pct(8) {
			w = ""
		}
		rows = append(rows, []string{fmt.Sprint(ks[i]), w, sAlphabet[r.n(len(sAlphabet))]})
	}
	return rows
}

func makeT2(r *rng, n int) string { return renderCSV(makeT2Rows(r, n)) }

// makeT3Rows: ids are a random subset of 1..2n (so about half of them also occur in a t1 of that size).
func makeT3Rows(r *rng, n int) ([][]string, []int) {
	rows := [][]string{{"id", "v", "s"}}
	ids := r.perm(2 * n)[:n]
	for i := 0; i < n; i++ {
		ids[i]++
		v := fmt.Sprint(r.n(26) - 5)
		if r.pct(10) {
			v = ""
		}
		rows = append(rows, []string{fmt.Sprint(ids[i]), v, sAlphabet[r.n(len(sAlphabet))]})
	}
	return rows, ids
}

func makeT3(r *rng, n int) (string, []int) {
	rows, ids := makeT3Rows(r, n)
	return renderCSV(rows), ids
}

// ---------------------------------------------------------------------
// generator

type gctx struct {
	t     *rapid.T
	c     *detCase
	t3ids []int
	seq   int
	gDom  int
	gs    []string // column g of t1 as generated, in file order
	hs    []string // column h of t1

	flagsSet map[string]bool // round 5: flags set by the prelude
	t1Temp   bool            // round 5: t1 is a temporary table (sub-check sources)
	anaTags  []string        // round 5: tags of the analytic functions drawn for the statement being built
}

func (g *gctx) pct(label string, p int) bool { return fw.Pct(g.t, label, p) }
func (g *gctx) rng(label string, lo, hi int) int {
	return fw.Range(g.t, label, lo, hi)
}
func pickS(g *gctx, label string, xs []string) string { return fw.PickU(g.t, label, xs) }

func (g *gctx) lit(label string) string {
	return "'" + strings.ReplaceAll(pickS(g, label, sAlphabet), "'", "''") + "'"
}

// pred: a predicate over t1's columns, qualified by q ("" or "a.").
func (g *gctx) pred(q string) string {
	switch fw.Uniform(g.t, "pred", 12) {
	case 0:
		return fmt.Sprintf("%sv > %d", q, g.rng("k", -3, 15))
	case 1:
		return fmt.Sprintf("%sv IS NULL", q)
	case 2:
		return fmt.Sprintf("%ss <> %s", q, g.lit("lit"))
	case 3:
		return fmt.Sprintf("%sg %% 2 = %d", q, g.rng("k", 0, 1))
	case 4:
		lo := g.rng("lo", -5, 10)
		return fmt.Sprintf("%sv BETWEEN %d AND %d", q, lo, lo+g.rng("w", 0, 12))
	case 5:
		return fmt.Sprintf("%ss LIKE '%s%%'", q, pickS(g, "like", []string{"a", "b", "A", "x", "q"}))
	case 6:
		return fmt.Sprintf("%sh IN (%d, %d)", q, g.rng("k", 0, 3), g.rng("k2", 0, 3))
	case 7:
		return fmt.Sprintf("%sf < %s", q, pickS(g, "fl", []string{"0.25", "1", "3"}))
	case 8:
		return fmt.Sprintf("NOT (%sv < %d)", q, g.rng("k", 0, 12))
	case 9:
		return fmt.Sprintf("(%sg = %d OR %sh = %d)", q, g.rng("k", 0, 7), q, g.rng("k2", 0, 3))
	case 10:
		return fmt.Sprintf("%sid %% %d <> 0", q, g.rng("k", 2, 7))
	default:
		return fmt.Sprintf("%sid <= %d", q, g.rng("k", 1, g.c.N1+1))
	}
}

func (g *gctx) where(q string, pctWhere int) string {
	if !g.pct("where", pctWhere) {
		return ""
	}
	p := g.pred(q)
	if g.pct("and", 25) {
		p += pickS(g, "conj", []string{" AND ", " OR "}) + g.pred(q)
	}
	return " WHERE " + p
}

// orderBy: 1-3 order items over cols (ties are the rule: the keys have few values).
func (g *gctx) orderItems(cols []string, max int) string {
	n := g.rng("nOrder", 1, max)
	var items []string
	for i := 0; i < n; i++ {
		it := pickS(g, "ocol", cols)
		switch fw.Uniform(g.t, "odir", 4) {
		case 1:
			it += " DESC"
		case 2:
			it += " ASC"
		}
		switch fw.Uniform(g.t, "onull", 5) {
		case 1:
			it += " NULLS FIRST"
		case 2:
			it += " NULLS LAST"
		}
		items = append(items, it)
	}
	return strings.Join(items, ", ")
}

func (g *gctx) optOrder(cols []string, p int) string {
	if !g.pct("order", p) {
		return ""
	}
	return " ORDER BY " + g.orderItems(cols, 2)
}

func (g *gctx) add(s stmt) { g.c.Stmts = append(g.c.Stmts, s) }

func (g *gctx) genFilter() stmt {
	sql := "SELECT id, g, v, s, v * 2 + h AS e FROM t1" + g.where("", 100) + g.optOrder([]string{"v", "s", "g", "h", "e"}, 30)
	return stmt{SQL: sql, Kind: "filter", Sel: true}
}

// genJoin5 (round 5): the join forms no case had. NATURAL joins and outer joins with USING go
// through the per-record rebuild in load_view.go (the merged column takes the value of the other side
// when its own is NULL); three tables chain two joins (the second joins a view whose records were
// assembled by the first one's workers); a small left table with a large right one is split by
// CalcMinimumRequired below 80 rows per goroutine.
func (g *gctx) genJoin5() stmt {
	var sql, kind string
	// the small-left forms twice as often: they need a large t1 AND a small t2 to differ from the others
	switch []int{0, 1, 2, 3, 4, 5, 6, 7, 8, 6, 6, 7}[fw.Uniform(g.t, "join5Kind", 12)] {
	case 0:
		sql, kind = "SELECT id, a.g, a.v, b.bv, b.bs FROM t1 a NATURAL JOIN (SELECT id, v AS bv, s AS bs FROM t3) b"+g.where("a.", 30), "join_natural"
	case 1:
		sql, kind = "SELECT id, a.g, a.v, b.bv FROM t1 a NATURAL "+pickS(g, "natOuter", []string{"LEFT", "RIGHT", "FULL"})+" JOIN (SELECT id, v AS bv FROM t3) b", "join_natural_outer"
	case 2:
		sql, kind = "SELECT id, a.g, a.s, b.v AS bv FROM t1 a "+pickS(g, "usingOuter", []string{"LEFT", "RIGHT", "FULL"})+" JOIN t3 b USING (id)"+pickS(g, "usingOuterX", []string{"", " WHERE a.g IS NULL OR a.v > 3", " WHERE b.v IS NULL"}), "join_using_outer"
	case 3:
		// every common column is a join column: id, v and s
		sql, kind = "SELECT id, v, s, a.g FROM t1 a NATURAL "+pickS(g, "nat3", []string{"", "LEFT "})+"JOIN t3 b", "join_natural"
	case 4:
		sql, kind = "SELECT a.id, b.k, c.s AS cs FROM t1 a JOIN t2 b ON a.g = b.k "+pickS(g, "threeKind", []string{"JOIN", "LEFT JOIN", "FULL JOIN"})+" t3 c ON c.id = a.id"+g.where("a.", 30), "join_three"
	case 5:
		sql, kind = "SELECT a.id, b.k, c.id AS cid FROM t1 a LEFT JOIN t2 b ON a.h = b.w AND b.k < 2 LEFT JOIN t3 c ON c.v = a.v AND c.id % 7 = b.k", "join_three"
	case 6:
		// the small table on the left
		sql, kind = "SELECT b.k, b.x, a.id FROM t2 b JOIN t1 a ON a.g = b.k"+pickS(g, "smallLeftX", []string{"", " AND a.v > 5", " WHERE a.h < 2"}), "join_small_left"
	case 7:
		sql, kind = fmt.Sprintf("SELECT b.k, a.id, a.s FROM t2 b LEFT JOIN t1 a ON a.h = b.w AND a.v > %d", g.rng("k", 5, 18)), "join_small_left"
	default:
		sql, kind = "SELECT b.k, a.id FROM t2 b FULL JOIN t1 a ON a.g = b.k AND a.h = b.w", "join_small_left"
	}
	if g.pct("joinOrder", 20) {
		sql += " ORDER BY " + g.orderItems([]string{"a.g % 3", "a.h"}, 2)
	}
	return stmt{SQL: sql, Kind: kind, Sel: true, Tags: []string{"join5:" + kind}}
}

func (g *gctx) genJoin() stmt {
	if g.pct("join5", 45) {
		return g.genJoin5()
	}
	var sql string
	kind := "join"
	switch fw.Uniform(g.t, "joinKind", 10) {
	case 0:
		sql = "SELECT a.id, a.g, b.k, b.x FROM t1 a JOIN t2 b ON a.g = b.k" + g.where("a.", 40)
		kind = "join_inner"
	case 1:
		sql = fmt.Sprintf("SELECT a.id, a.h, b.k, b.w FROM t1 a JOIN t2 b ON a.h = b.w AND b.k < %d", g.rng("k", 1, 6)) + g.where("a.", 30)
		kind = "join_inner"
	case 2:
		sql = "SELECT a.id, a.g, b.k, b.x FROM t1 a LEFT JOIN t2 b ON a.g = b.k" + g.where("a.", 30)
		kind = "join_left"
	case 3:
		sql = fmt.Sprintf("SELECT a.id, b.k, b.w FROM t1 a LEFT JOIN t2 b ON a.h = b.w AND b.k < %d", g.rng("k", 1, 5))
		kind = "join_left"
	case 4:
		sql = "SELECT a.id, a.g, b.k, b.x FROM t1 a RIGHT JOIN t2 b ON a.g = b.k"
		kind = "join_right"
	case 5:
		sql = "SELECT a.id, a.g, b.k, b.x FROM t1 a FULL JOIN t2 b ON a.g = b.k"
		kind = "join_full"
	case 6:
		sql = "SELECT a.id, b.k FROM t1 a CROSS JOIN t2 b WHERE a.h = b.w" + pickS(g, "crossExtra", []string{"", " AND a.v > 5", " AND b.k % 2 = 0"})
		kind = "join_cross"
	case 7:
		// the USING column is merged: it is only addressable unqualified
		sql = "SELECT id, a.g, a.v, b.v AS bv FROM t1 a JOIN t3 b USING (id)" + pickS(g, "usingExtra", []string{"", " WHERE a.v > 3", " WHERE b.v IS NOT NULL AND a.h < 3", " ORDER BY id % 3", " ORDER BY a.h DESC, b.v"})
		return stmt{SQL: sql, Kind: "join_using", Sel: true}
	case 8:
		sql = "SELECT a.id, a.s, b.id AS bid FROM t1 a FULL JOIN t3 b ON a.id = b.id AND a.v = b.v"
		kind = "join_full"
	default:
		sql = "SELECT a.id, b.id AS bid, b.s FROM t3 b LEFT JOIN t1 a ON a.id = b.id" + pickS(g, "ljx", []string{"", " WHERE a.id IS NULL", " WHERE b.v > 3"})
		kind = "join_left"
	}
	if g.pct("joinOrder", 25) {
		sql += " ORDER BY " + g.orderItems([]string{"a.id % 3", "a.id % 5"}, 2)
	}
	return stmt{SQL: sql, Kind: kind, Sel: true}
}

var aggPool = []string{
	"SUM(v)", "AVG(f)", "SUM(f)", "MIN(s)", "MAX(s)", "MAX(v)", "MEDIAN(v)", "MIN(id)",
	"LISTAGG(s, ';')", "LISTAGG(s, ',') WITHIN GROUP (ORDER BY v)", "LISTAGG(id, ' ')",
	"JSON_AGG(v)", "JSON_AGG(s) WITHIN GROUP (ORDER BY s DESC)", "COUNT(DISTINCT s)", "LISTAGG(DISTINCT s, ',')",
	"SUM(DISTINCT v)", "COUNT(v)", "STDEV(v)",
}

func (g *gctx) aggs(lo, hi int) []string {
	n := g.rng("nAgg", lo, hi)
	var out []string
	for i := 0; i < n; i++ {
		out = append(out, fmt.Sprintf("%s AS a%d", pickS(g, "agg", aggPool), i+1))
	}
	return out
}

// groupOrder appends the ORDER BY of a GROUP BY query: total over the group
// keys while the known defect is avoided, otherwise often none (tagged).
func (g *gctx) groupOrder(sql string, totalKeys []string, overJoin bool) (string, []string) {
	total := strings.Join(totalKeys, ", ")
	// the grouping is split over workers from 160 input rows on
	exposed := overJoin || g.c.N1 >= 2*query.MinimumRequiredPerCPUCore
	var tags []string
	if exposed {
		tags = []string{"groupby_unordered"}
	}
	if avoidKnownGroupByOrder && exposed {
		if g.pct("grpOrdByCount", 30) {
			return sql + " ORDER BY c DESC, " + total, nil
		}
		return sql + " ORDER BY " + total, nil
	}
	switch fw.Uniform(g.t, "grpOrder", 4) {
	case 0:
		return sql + " ORDER BY " + total, nil
	case 1:
		return sql + " ORDER BY c", tags
	}
	return sql, tags
}

// groupSelect builds a GROUP BY query over t1.
func (g *gctx) groupSelect() (string, []string) {
	type keyset struct {
		sel  []string
		keys []string
		ord  []string
	}
	ks := []keyset{
		{[]string{"g"}, []string{"g"}, []string{"g"}},
		{[]string{"g", "h"}, []string{"g", "h"}, []string{"g", "h"}},
		{[]string{"h"}, []string{"h"}, []string{"h"}},
		{[]string{"s"}, []string{"s"}, []string{"s"}},
		{[]string{"h", "s"}, []string{"h", "s"}, []string{"h", "s"}},
		{[]string{"v"}, []string{"v"}, []string{"v"}},
	}
	k := ks[fw.Uniform(g.t, "keyset", len(ks))]
	sel := append(append([]string{}, k.sel...), "COUNT(*) AS c")
	sel = append(sel, g.aggs(1, 4)...)
	sql := "SELECT " + strings.Join(sel, ", ") + " FROM t1" + g.where("", 40) + " GROUP BY " + strings.Join(k.keys, ", ")
	if g.pct("having", 25) {
		sql += fmt.Sprintf(" HAVING COUNT(*) > %d", g.rng("hk", 0, 3))
	}
	return g.groupOrder(sql, k.ord, false)
}

// groupInsertSource: a three-column GROUP BY query usable as the source of INSERT INTO t3 (id, v, s).
func (g *gctx) groupInsertSource() (string, []string) {
	var sql string
	var keys []string
	switch fw.Uniform(g.t, "insKeyset", 4) {
	case 0:
		sql, keys = "SELECT g + 200000 AS nid, COUNT(*) AS c, MIN(s) AS ms FROM t1"+g.where("", 40)+" GROUP BY g", []string{"g"}
	case 1:
		sql, keys = "SELECT h + 200000 AS nid, COUNT(*) AS c, MAX(s) AS ms FROM t1"+g.where("", 40)+" GROUP BY h", []string{"h"}
	case 2:
		sql, keys = "SELECT g * 10 + h + 200000 AS nid, COUNT(*) AS c, LISTAGG(s, '') AS ms FROM t1"+g.where("", 40)+" GROUP BY g, h", []string{"g", "h"}
	default:
		sql, keys = "SELECT MIN(id) + 200000 AS nid, COUNT(*) AS c, s FROM t1"+g.where("", 40)+" GROUP BY s", []string{"s"}
	}
	return g.groupOrder(sql, keys, false)
}

func (g *gctx) genGroup() stmt {
	switch fw.Uniform(g.t, "groupShape", 10) {
	case 0:
		// aggregate over the whole table
		sql := "SELECT COUNT(*) AS c, " + strings.Join(g.aggs(1, 4), ", ") + " FROM t1" + g.where("", 50)
		return stmt{SQL: sql, Kind: "agg_all", Sel: true}
	case 1:
		// group over a join
		sql, tags := g.groupOrder("SELECT b.x, COUNT(*) AS c, SUM(a.v) AS sv, LISTAGG(a.id, ' ') AS ids FROM t1 a JOIN t2 b ON a.h = b.w GROUP BY b.x", []string{"b.x"}, true)
		return stmt{SQL: sql, Kind: "group_join", Sel: true, Tags: tags}
	}
	sql, tags := g.groupSelect()
	return stmt{SQL: sql, Kind: "group", Sel: true, Tags: tags}
}

func (g *gctx) genDistinct() stmt {
	sel := pickS(g, "distinctSel", []string{"g, h", "s", "v % 4 AS vm, h", "h, s", "g", "UPPER(s) AS us, h"})
	sql := "SELECT DISTINCT " + sel + " FROM t1" + g.where("", 35)
	return stmt{SQL: sql, Kind: "distinct", Sel: true}
}

func (g *gctx) genSetOp() stmt {
	all := ""
	if g.pct("all", 35) {
		all = " ALL"
	}
	var sql string
	kind := "union"
	switch fw.Uniform(g.t, "setop", 7) {
	case 0:
		sql = "SELECT g, h FROM t1" + g.where("", 40) + " UNION" + all + " SELECT k, w FROM t2"
	case 1:
		sql = "SELECT id, v, s FROM t1 EXCEPT" + all + " SELECT id, v, s FROM t3"
		kind = "except"
	case 2:
		sql = "SELECT id FROM t1" + g.where("", 40) + " INTERSECT" + all + " SELECT id FROM t3"
		kind = "intersect"
	case 3:
		sql = "SELECT s FROM t1 UNION SELECT x FROM t2 UNION ALL SELECT s FROM t3"
	case 4:
		sql = "SELECT h, s FROM t1" + g.where("", 40) + " EXCEPT" + all + " SELECT w, x FROM t2"
		kind = "except"
	case 5:
		sql = "SELECT g, h FROM t1 INTERSECT" + all + " SELECT k, w FROM t2"
		kind = "intersect"
	default:
		sql = "SELECT v, s FROM t1" + g.where("", 50) + " UNION" + all + " SELECT v, s FROM t3"
	}
	return stmt{SQL: sql, Kind: kind, Sel: true}
}

func (g *gctx) genOrder() stmt {
	sql := "SELECT id, g, v, s FROM t1" + g.where("", 35) + " ORDER BY " + g.orderItems([]string{"v", "s", "g", "h", "f", "v % 3"}, 3)
	switch fw.Uniform(g.t, "limit", 6) {
	case 0:
		sql += fmt.Sprintf(" LIMIT %d", g.rng("lim", 1, 100))
	case 1:
		sql += fmt.Sprintf(" LIMIT %d WITH TIES", g.rng("lim", 1, 60))
	case 2:
		sql += fmt.Sprintf(" LIMIT %d PERCENT", g.rng("limp", 1, 90))
	case 3:
		sql += fmt.Sprintf(" LIMIT %d OFFSET %d", g.rng("lim", 1, 100), g.rng("off", 1, 90))
	}
	return stmt{SQL: sql, Kind: "order", Sel: true}
}

var (
	anaParts = []string{"", "", "PARTITION BY g", "PARTITION BY h", "PARTITION BY g, h", "PARTITION BY s"}
	// round 5: partitions by the hundred (id % 200: from 160 partitions on the partitions themselves are
	// divided among goroutines for every size of t1 that has them) and a partition key with NULLs
	anaParts5 = []string{"PARTITION BY id % 200", "PARTITION BY id % 200", "PARTITION BY v", "PARTITION BY id % 3, s"}
	anaOrders = []string{"ORDER BY v", "ORDER BY v DESC", "ORDER BY s", "ORDER BY h, v", "ORDER BY f DESC NULLS LAST", "ORDER BY id", "ORDER BY g"}
)

func (g *gctx) anaFn(i int) (string, string) {
	part := pickS(g, "anaPart", anaParts)
	if g.pct("anaPart5", 25) {
		part = pickS(g, "anaPart5v", anaParts5)
	}
	ord := pickS(g, "anaOrd", anaOrders)
	over := func(withOrder bool, frame string) string {
		var ps []string
		if part != "" {
			ps = append(ps, part)
		}
		if withOrder {
			ps = append(ps, ord)
			if frame != "" {
				ps = append(ps, frame)
			}
		}
		return "OVER (" + strings.Join(ps, " ") + ")"
	}
	frame := pickS(g, "frame", []string{"", "", "ROWS BETWEEN 1 PRECEDING AND 1 FOLLOWING", "ROWS UNBOUNDED PRECEDING", "ROWS BETWEEN CURRENT ROW AND UNBOUNDED FOLLOWING", "ROWS BETWEEN 2 PRECEDING AND CURRENT ROW"})
	var e string
	tag := ""
	usedOrd := ord
	fnIdx := fw.Uniform(g.t, "anaFn", 16)
	if g.pct("anaFn5", 40) {
		// round 5: the analytic functions, modifiers and argument forms no case had
		fnIdx = 16 + fw.Uniform(g.t, "anaFn5v", 14)
		tag = "ana5"
	}
	switch fnIdx {
	case 16:
		e = "PERCENT_RANK() " + over(true, "")
	case 17:
		e = fmt.Sprintf("NTH_VALUE(v, %d)%s ", g.rng("nth", 1, 3), pickS(g, "ignNulls", []string{"", " IGNORE NULLS"})) + over(true, frame)
	case 18:
		e = "FIRST_VALUE(v) IGNORE NULLS " + over(true, frame)
	case 19:
		e = "LAST_VALUE(s) IGNORE NULLS " + over(true, frame)
	case 20:
		e = fmt.Sprintf("LAG(v, %d, -1)%s ", g.rng("lagOff", 1, 3), pickS(g, "ignNulls", []string{"", " IGNORE NULLS"})) + over(true, "")
	case 21:
		e = "LEAD(v, 1, id) IGNORE NULLS " + over(true, "")
	case 22:
		e = "JSON_AGG(s) " + over(true, "")
	case 23:
		e = "LISTAGG(DISTINCT s, ',') " + over(false, "")
		usedOrd = ""
	case 24:
		e = "COUNT(DISTINCT s) " + over(false, "")
		usedOrd = ""
	case 25:
		e = pickS(g, "varFn", []string{"STDEV(v) ", "VAR(f) ", "STDEVP(f) ", "VARP(v) "}) + over(true, frame)
	case 26:
		e = "MIN(f) " + over(true, frame)
	case 27:
		// the argument is an expression over several columns, evaluated per row by the workers
		e = "SUM(v * h + id % 3) " + over(true, frame)
	case 28:
		e = "LISTAGG(s || id, '/') " + over(true, "")
	case 29:
		e = "JSON_AGG(DISTINCT v) " + over(false, "")
		usedOrd = ""
	case 0:
		e = "ROW_NUMBER() " + over(true, "")
	case 1:
		e = "RANK() " + over(true, "")
	case 2:
		e = "DENSE_RANK() " + over(true, "")
	case 3:
		e = "SUM(v) " + over(false, "")
		usedOrd = ""
	case 4:
		e = "SUM(v) " + over(true, frame)
	case 5:
		e = "AVG(f) " + over(true, frame)
	case 6:
		e = "LAG(v) " + over(true, "")
	case 7:
		e = "LEAD(s, 2) " + over(true, "")
	case 8:
		e = "FIRST_VALUE(s) " + over(true, "")
	case 9:
		e = "LAST_VALUE(v) " + over(true, frame)
	case 10:
		e = fmt.Sprintf("NTILE(%d) ", g.rng("ntile", 2, 5)) + over(true, "")
	case 11:
		e = "LISTAGG(s, ',') " + over(true, "")
	case 12:
		e = "CUME_DIST() " + over(true, "")
	case 13:
		e = "COUNT(*) " + over(false, "")
		usedOrd = ""
	case 14:
		e = "MEDIAN(v) " + over(false, "")
		usedOrd = ""
	default:
		e = "MAX(s) " + over(true, frame)
	}
	if tag != "" {
		g.anaTags = append(g.anaTags, "ana5:"+strings.SplitN(e, "(", 2)[0])
	}
	if strings.HasPrefix(part, "PARTITION BY id % 200") {
		g.anaTags = append(g.anaTags, "ana5:partitions_200")
	}
	return fmt.Sprintf("%s AS w%d", e, i), usedOrd
}

func (g *gctx) genAnalytic() stmt {
	max := 4
	if avoidKnownAnalyticOrder {
		max = 2
	}
	n := g.rng("nAna", 1, max)
	var fns []string
	ords := map[string]bool{}
	g.anaTags = nil
	for i := 1; i <= n; i++ {
		e, o := g.anaFn(i)
		fns = append(fns, e)
		ords[o] = true
	}
	from := " FROM t1"
	kind := fmt.Sprintf("analytic%d", n)
	// round 5: the analysed view is the result of a join (its records were assembled by the join's
	// workers; t2's columns k, w, x do not collide with t1's, so every name stays unqualified)
	if g.c.N1*g.c.N2 <= 8000 && g.pct("anaOverJoin", 15) {
		from = " FROM t1 " + pickS(g, "anaJoinKind", []string{"JOIN", "LEFT JOIN"}) + " t2 ON h = w"
		kind = "analytic_over_join"
		g.anaTags = append(g.anaTags, "ana5:over_join")
	}
	sql := "SELECT id, g, v, s, " + strings.Join(fns, ", ") + from + g.where("", 25)
	if g.pct("anaOuterOrder", 20) {
		sql += " ORDER BY " + g.orderItems([]string{"v", "h", "g"}, 2)
	}
	st := stmt{SQL: sql, Kind: kind, Sel: true}
	if n >= 3 {
		st.Tags = []string{"analytic3"}
	}
	st.Tags = append(st.Tags, g.anaTags...)
	return st
}

func (g *gctx) genSubquery() stmt {
	var sql string
	switch fw.Uniform(g.t, "subq", 8) {
	case 0:
		sql = "SELECT a.id, a.h, (SELECT COUNT(*) FROM t2 b WHERE b.w = a.h) AS cnt FROM t1 a" + g.where("a.", 40)
	case 1:
		sql = "SELECT id, v FROM t1 WHERE v IN (SELECT w FROM t2)"
	case 2:
		sql = "SELECT a.id, a.g FROM t1 a WHERE EXISTS (SELECT 1 FROM t2 b WHERE b.k = a.g)"
	case 3:
		sql = "SELECT a.id, q.k, q.x FROM t1 a JOIN (SELECT k, w, x FROM t2 WHERE k % 2 = 0) q ON a.g = q.k"
		if avoidKnownSubqueryPath {
			sql = "WITH q AS (SELECT k, w, x FROM t2 WHERE k % 2 = 0) SELECT a.id, q.k, q.x FROM t1 a JOIN q ON a.g = q.k"
		}
	case 4:
		sql = "SELECT id, v FROM t1 WHERE v > ANY (SELECT w FROM t2 WHERE k < 5)"
	case 5:
		sql = "WITH c AS (SELECT k, x FROM t2 WHERE w IS NOT NULL) SELECT a.id, c.x FROM t1 a JOIN c ON a.g = c.k"
	case 6:
		sql = "SELECT id, v, (SELECT MAX(b.k) FROM t2 b WHERE b.w = t1.h) AS mk FROM t1 WHERE id NOT IN (SELECT id FROM t3)"
	default:
		sql = "SELECT id, s FROM t1 WHERE v = (SELECT MAX(v) FROM t3) OR g IN (SELECT k FROM t2 WHERE w = 1)"
	}
	return stmt{SQL: sql, Kind: "subquery", Sel: true}
}

func (g *gctx) genQuery() stmt {
	switch fw.Weighted(g.t, "queryKind", []int{2, 4, 4, 2, 2, 3, 4, 2, 5, 1}) {
	case 0:
		return g.genFilter()
	case 1:
		return g.genJoin()
	case 2:
		return g.genGroup()
	case 3:
		return g.genDistinct()
	case 4:
		return g.genSetOp()
	case 5:
		return g.genOrder()
	case 6:
		return g.genAnalytic()
	case 7:
		return g.genSubquery()
	case 8:
		return g.genUDF()
	default:
		return g.genSweep()
	}
}

// genDML5 (round 5): the data-changing statement forms no case had.
func (g *gctx) genDML5() {
	tag := func(k string) []string { return []string{"dml5:" + k} }
	switch fw.Uniform(g.t, "dml5Kind", 7) {
	case 0, 1:
		// ALTER TABLE .. ADD with DEFAULT expressions that are evaluated for every record (one of them a
		// correlated subquery: its inner task managers), at a drawn position; then RENAME / DROP
		a, b := fmt.Sprintf("c%da", g.seq), fmt.Sprintf("c%db", g.seq)
		d1 := pickS(g, "alterDef1", []string{"v * 2 + h", "s || id", "(SELECT COUNT(*) FROM t2 e WHERE e.w = h)", "UPPER(s) || g"})
		d2 := pickS(g, "alterDef2", []string{"id % 7", "IFNULL(v, -1)", "(SELECT LISTAGG(e.k, ',') FROM t2 e WHERE e.w = h AND e.k < 30)"})
		pos := pickS(g, "alterPos", []string{"", " FIRST", " LAST", " AFTER id", " BEFORE v"})
		g.add(stmt{SQL: fmt.Sprintf("ALTER TABLE t1 ADD (%s DEFAULT %s, %s DEFAULT %s)%s", a, d1, b, d2, pos), Kind: "alter_add", Tags: tag("alter_add")})
		g.add(stmt{SQL: "SELECT * FROM t1", Kind: "probe", Sel: true})
		if g.pct("alterMore", 50) {
			g.add(stmt{SQL: fmt.Sprintf("ALTER TABLE t1 RENAME %s TO r%s", a, a), Kind: "alter_rename", Tags: tag("alter_rename")})
			g.add(stmt{SQL: fmt.Sprintf("ALTER TABLE t1 DROP %s", b), Kind: "alter_drop", Tags: tag("alter_drop")})
			g.add(stmt{SQL: "SELECT * FROM t1", Kind: "probe", Sel: true})
		}
	case 2:
		// one UPDATE that changes two tables of a join
		g.add(stmt{SQL: "UPDATE a, c SET a.v = c.v + 1, c.s = a.s || '+' FROM t1 a JOIN t3 c ON a.id = c.id" + g.where("a.", 40), Kind: "update_two_tables", Tags: tag("update_two_tables")})
		g.add(stmt{SQL: "SELECT * FROM t1", Kind: "probe", Sel: true})
		g.add(stmt{SQL: "SELECT * FROM t3", Kind: "probe", Sel: true})
	case 3:
		g.add(stmt{SQL: "DELETE a, c FROM t1 a JOIN t3 c ON a.id = c.id" + g.where("a.", 70), Kind: "delete_two_tables", Tags: tag("delete_two_tables")})
		g.add(stmt{SQL: "SELECT * FROM t1", Kind: "probe", Sel: true})
		g.add(stmt{SQL: "SELECT * FROM t3", Kind: "probe", Sel: true})
	case 4:
		// the file attributes decide the bytes written at COMMIT
		tbs := []string{"t3", "t2", "t1"}
		if g.t1Temp {
			tbs = tbs[:2] // t1 is a temporary table: it has no file attributes
		}
		tb := pickS(g, "attrTable", tbs)
		switch fw.Uniform(g.t, "attrKind", 5) {
		case 0:
			g.add(stmt{SQL: "ALTER TABLE " + tb + " SET FORMAT TO " + pickS(g, "attrFormat", []string{"TSV", "JSON", "JSONL", "LTSV", "FIXED"}), Kind: "alter_set_format", Tags: tag("set_format")})
		case 1:
			g.add(stmt{SQL: "ALTER TABLE " + tb + " SET LINE_BREAK TO CRLF", Kind: "alter_set_attr", Tags: tag("set_line_break")})
			g.add(stmt{SQL: "ALTER TABLE " + tb + " SET ENCLOSE_ALL TO TRUE", Kind: "alter_set_attr", Tags: tag("set_enclose_all")})
		case 2:
			g.add(stmt{SQL: "ALTER TABLE " + tb + " SET FORMAT TO JSON", Kind: "alter_set_format", Tags: tag("set_format")})
			g.add(stmt{SQL: "ALTER TABLE " + tb + " SET PRETTY_PRINT TO TRUE", Kind: "alter_set_attr", Tags: tag("set_pretty_print")})
			g.add(stmt{SQL: "ALTER TABLE " + tb + " SET JSON_ESCAPE TO " + pickS(g, "attrEsc", []string{"HEX", "HEXALL", "BACKSLASH"}), Kind: "alter_set_attr", Tags: tag("set_json_escape")})
		case 3:
			g.add(stmt{SQL: "ALTER TABLE " + tb + " SET ENCODING TO " + pickS(g, "attrEnc", []string{"UTF8M", "UTF16", "UTF16LEM", "SJIS"}), Kind: "alter_set_attr", Tags: tag("set_encoding")})
		default:
			g.add(stmt{SQL: "ALTER TABLE " + tb + " SET HEADER TO FALSE", Kind: "alter_set_attr", Tags: tag("set_header")})
			g.add(stmt{SQL: "ALTER TABLE " + tb + " SET DELIMITER TO ';'", Kind: "alter_set_attr", Tags: tag("set_delimiter")})
		}
		col := map[string]string{"t1": "id", "t2": "k", "t3": "id"}[tb]
		g.add(stmt{SQL: fmt.Sprintf("DELETE FROM %s WHERE %s %% 5 = %d", tb, col, g.rng("k", 0, 4)), Kind: "delete", Tags: tag("attr_then_delete")})
		g.add(stmt{SQL: "SELECT * FROM " + tb, Kind: "probe", Sel: true})
	case 5:
		// the inserted values come from an analytic function over ties
		g.add(stmt{SQL: fmt.Sprintf("INSERT INTO t3 (id, v, s) SELECT id + %d00000, ROW_NUMBER() OVER (PARTITION BY g ORDER BY v), FIRST_VALUE(s) OVER (PARTITION BY h ORDER BY v DESC) FROM t1", g.seq) + g.where("", 50), Kind: "insert_select_analytic", Tags: tag("insert_select_analytic")})
		g.add(stmt{SQL: "SELECT * FROM t3", Kind: "probe", Sel: true})
	default:
		// a change that is rolled back: the tables are restored from the state kept at load / last commit
		g.add(stmt{SQL: "UPDATE t1 SET v = v * 2, s = 'x'" + g.where("", 90), Kind: "update", Tags: tag("rolled_back")})
		g.add(stmt{SQL: "DELETE FROM t3 WHERE id % 2 = 0", Kind: "delete"})
		g.add(stmt{SQL: "ROLLBACK", Kind: "rollback", Tags: tag("rollback")})
		g.add(stmt{SQL: "SELECT * FROM t1", Kind: "probe", Sel: true})
		g.add(stmt{SQL: "SELECT * FROM t3", Kind: "probe", Sel: true})
	}
}

// flagPrelude (round 5): 1-3 SET @@FLAG statements at the top of the program. The flags are read by
// every worker through the shared flags object (comparison rule, datetime formats, NULL-ness of empty
// fields at load time) or decide the bytes of created files and of the CLI's stdout.
func (g *gctx) flagPrelude() {
	type fl struct{ name, val string }
	pool := []fl{
		{"STRICT_EQUAL", "TRUE"},
		{"DATETIME_FORMAT", `'["%d/%m/%Y", "%m/%d/%Y", "%Y%m%d", "%m-%d-%y %H.%i"]'`},
		{"DATETIME_FORMAT", `'["%m/%d/%Y", "%d/%m/%Y", "%m-%d-%y %H.%i"]'`},
		{"DATETIME_FORMAT", `'["%Y%m%d", "%d/%m/%Y", "%m/%d/%Y"]'`},
		{"TIMEZONE", "'Asia/Tokyo'"},
		{"TIMEZONE", "'America/Los_Angeles'"},
		{"WITHOUT_NULL", "TRUE"},
		{"SCIENTIFIC_NOTATION", "TRUE"},
		{"COUNT_DIACRITICAL_SIGN", "TRUE"},
		{"EAST_ASIAN_ENCODING", "TRUE"},
		{"COUNT_FORMAT_CODE", "TRUE"},
		{"ENCLOSE_ALL", "TRUE"},
		{"LINE_BREAK", "CRLF"},
		{"STRIP_ENDING_LINE_BREAK", "TRUE"},
		{"WITHOUT_HEADER", "TRUE"},
		{"JSON_ESCAPE", "HEX"},
		{"PRETTY_PRINT", "TRUE"},
		{"WRITE_ENCODING", "UTF8M"},
	}
	n := g.rng("nFlags", 1, 3)
	seen := g.flagsSet
	if seen == nil {
		seen = map[string]bool{}
	}
	for i := 0; i < n; i++ {
		f := pool[fw.Uniform(g.t, "flag", len(pool))]
		if seen[f.name] {
			continue
		}
		seen[f.name] = true
		g.add(stmt{SQL: "SET @@" + f.name + " TO " + f.val, Kind: "declare", Tags: []string{"flag:" + f.name}})
	}
	g.flagsSet = seen
}

// flagProbe: a query whose per-row evaluation reads the flags of the prelude.
func (g *gctx) flagProbe() {
	if g.flagsSet["DATETIME_FORMAT"] {
		// column e of t4 holds texts like 03/04/2021 that both %d/%m/%Y and %m/%d/%Y read (the first format
		// of the list that fits decides), texts only one of them reads, and texts of the other formats
		var sql, kind string
		switch fw.Uniform(g.t, "dtProbe", 6) {
		case 0:
			sql, kind = "SELECT id, e, DATETIME(e) AS d1, MONTH(e) AS m1, DAY(e) AS dd, e < '2015-06-01' AS lt, DATE_DIFF(e, d) AS df FROM t4", "flag_probe_datetime"
		case 1:
			sql, kind = "SELECT id, e FROM t4 WHERE MONTH(e) > 6 OR e < '2010-01-01'", "flag_probe_datetime_where"
		case 2:
			sql, kind = "SELECT id, e, DATETIME(e) AS d1 FROM t4 ORDER BY DATETIME(e), id", "flag_probe_datetime_order"
		case 3:
			// sort values and comparison keys of datetime-like texts are built by the workers with the formats of the flag
			sql, kind = "SELECT id, e FROM t4 ORDER BY e, id", "flag_probe_datetime_sortvalue"
		case 4:
			sql, kind = "SELECT m, COUNT(*) AS c, MIN(id) AS i0 FROM (SELECT id, MONTH(e) AS m FROM t4) q GROUP BY m ORDER BY m", "flag_probe_datetime_group"
		default:
			sql, kind = "SELECT a.id, b.id AS bid FROM t4 a JOIN (SELECT id, e FROM t4 WHERE id <= 40) b ON DATETIME(a.e) = ADD_DAY(DATETIME(b.e), 1)", "flag_probe_datetime_join"
		}
		g.add(stmt{SQL: sql, Kind: kind, Sel: true})
	}
	if g.flagsSet["TIMEZONE"] {
		// texts without an offset are read in the session's zone
		g.add(stmt{SQL: "SELECT id, d, DATETIME(d) AS d1, UNIX_TIME(d) AS ut, HOUR(UTC(d)) AS hu, DATETIME_FORMAT(d, '%Y-%m-%d %H:%i:%s %Z') AS f1 FROM t4" + pickS(g, "tzProbeX", []string{"", " WHERE HOUR(UTC(d)) < 12", " ORDER BY UNIX_TIME(d) % 86400, id"}), Kind: "flag_probe_timezone", Sel: true})
	}
	if g.flagsSet["STRICT_EQUAL"] {
		g.add(stmt{SQL: "SELECT s, COUNT(*) AS c, LISTAGG(DISTINCT UPPER(s), ',') AS l FROM t1 GROUP BY s", Kind: "flag_probe_strict_equal", Sel: true, Tags: []string{"groupby_unordered"}})
	}
	if g.flagsSet["WITHOUT_NULL"] {
		g.add(stmt{SQL: "SELECT id, v, s, v IS NULL AS vn, s = '' AS se, IFNULL(g, -1) AS gg FROM t1 WHERE v IS NULL OR v = '' OR s = ''", Kind: "flag_probe_without_null", Sel: true})
	}
}

// genDML appends one data-changing statement and a probe SELECT of its target.
func (g *gctx) genDML() {
	g.seq++
	if g.pct("dml5", 30) {
		g.genDML5()
		return
	}
	switch fw.Uniform(g.t, "dmlKind", 12) {
	case 0:
		g.add(stmt{SQL: fmt.Sprintf("INSERT INTO t3 SELECT id + %d00000, v, s FROM t1", g.seq) + g.where("", 80) + g.optOrder([]string{"v", "s"}, 30), Kind: "insert_select"})
		g.add(stmt{SQL: "SELECT * FROM t3", Kind: "probe", Sel: true})
	case 1:
		g.add(stmt{SQL: fmt.Sprintf("INSERT INTO t3 (id, v, s) SELECT a.id + %d00000, b.w, b.x FROM t1 a JOIN t2 b ON a.g = b.k", g.seq), Kind: "insert_select_join"})
		g.add(stmt{SQL: "SELECT * FROM t3", Kind: "probe", Sel: true})
	case 2:
		sql, tags := g.groupInsertSource()
		g.add(stmt{SQL: "INSERT INTO t3 (id, v, s) " + sql, Kind: "insert_select_group", Tags: tags})
		g.add(stmt{SQL: "SELECT * FROM t3", Kind: "probe", Sel: true, Tags: tags})
	case 3:
		g.add(stmt{SQL: "UPDATE t1 SET v = v + 1, s = s || '!'" + g.where("", 90), Kind: "update"})
		g.add(stmt{SQL: "SELECT * FROM t1", Kind: "probe", Sel: true})
	case 4:
		g.add(stmt{SQL: "UPDATE a SET a.s = b.x, a.v = b.w FROM t1 a JOIN t2 b ON a.g = b.k" + g.where("a.", 40), Kind: "update_join"})
		g.add(stmt{SQL: "SELECT * FROM t1", Kind: "probe", Sel: true})
	case 5:
		g.add(stmt{SQL: "DELETE FROM t1" + g.where("", 100), Kind: "delete"})
		g.add(stmt{SQL: "SELECT * FROM t1", Kind: "probe", Sel: true})
	case 6:
		g.add(stmt{SQL: "DELETE a FROM t1 a JOIN t2 b ON a.h = b.w WHERE b.k < 3", Kind: "delete_join"})
		g.add(stmt{SQL: "SELECT * FROM t1", Kind: "probe", Sel: true})
	case 7:
		// REPLACE ... VALUES: some keys of t3, some new ones
		nMatch := g.rng("nMatch", 0, 4)
		nNew := g.rng("nNew", 2, 7)
		if avoidKnownReplaceOrder {
			nNew = g.rng("nNew1", 0, 1)
		}
		var rows []string
		used := map[int]bool{}
		inserted := nNew // rows that match nothing, plus every further row repeating a matched key
		for i := 0; i < nMatch && len(g.t3ids) > 0; i++ {
			id := g.t3ids[fw.Uniform(g.t, "matchIdx", len(g.t3ids))]
			if used[id] {
				if avoidKnownReplaceOrder {
					continue
				}
				inserted++
			}
			used[id] = true
			rows = append(rows, fmt.Sprintf("(%d, %d, 'r%d')", id, g.rng("rv", 0, 9), i))
		}
		for i := 0; i < nNew; i++ {
			rows = append(rows, fmt.Sprintf("(%d, %d, 'n%d')", 900000+g.seq*100+i, g.rng("rv", 0, 9), i))
		}
		if len(rows) == 0 {
			rows = append(rows, fmt.Sprintf("(%d, 1, 'n')", 900000+g.seq*100))
		}
		if len(rows) > 1 && g.pct("shuffleRows", 50) {
			rows = rapid.Permutation(rows).Draw(g.t, "rowOrder")
		}
		var tags []string
		if inserted >= 2 {
			tags = []string{"replace_multi_unmatched"}
		}
		g.add(stmt{SQL: "REPLACE INTO t3 (id, v, s) USING (id) VALUES " + strings.Join(rows, ", "), Kind: "replace_values", Tags: tags})
		g.add(stmt{SQL: "SELECT * FROM t3", Kind: "probe", Sel: true, Tags: tags})
	case 9, 10:
		g.genReplaceDupKeyValues()
	case 11:
		g.genReplaceDupKeySelect()
	default:
		// REPLACE ... SELECT
		var tags []string
		src := "SELECT id, v + 100, s || '#' FROM t1" + g.where("", 70)
		if avoidKnownReplaceOrder {
			src = "SELECT id, v + 100, s || '#' FROM t1 WHERE id IN (SELECT id FROM t3)" + pickS(g, "repExtra", []string{"", " AND v > 3", " AND h < 2"})
		} else {
			tags = []string{"replace_multi_unmatched"}
		}
		g.add(stmt{SQL: "REPLACE INTO t3 (id, v, s) USING (id) " + src, Kind: "replace_select", Tags: tags})
		g.add(stmt{SQL: "SELECT * FROM t3", Kind: "probe", Sel: true, Tags: tags})
	}
}

func capPick(t *rapid.T, label string, pool []int, n1 int) int {
	var ok []int
	for _, p := range pool {
		if p*n1 <= maxProduct {
			ok = append(ok, p)
		}
	}
	if len(ok) == 0 {
		return pool[0]
	}
	return fw.PickU(t, label, ok)
}

func genCaseFor(t *rapid.T, cli bool) detCase {
	c := detCase{CLI: cli}
	c.N1 = drawN1(t)
	c.N2 = capPick(t, "n2", partnerSizes, c.N1)
	c.N3 = capPick(t, "n3", targetSizes, c.N1)
	seed := rapid.Uint64().Draw(t, "dataSeed")
	gDom := fw.PickU(t, "gDom", []int{3, 8, 30, 90})
	r := &rng{s: seed}
	t3csv, t3ids := makeT3(r, c.N3)
	t1csv, gs, hs := makeT1(r, c.N1, gDom)
	c.Tables = []tbl{
		{Name: "t1.csv", Rows: c.N1, CSV: t1csv},
		{Name: "t2.csv", Rows: c.N2, CSV: makeT2(r, c.N2)},
		{Name: "t3.csv", Rows: c.N3, CSV: t3csv},
		{Name: "t4.csv", Rows: c.N1, CSV: makeT4(r, c.N1)},
	}
	c.CPUs = drawCPUs(t)
	c.R = 3
	if fw.Tier() == "thorough" {
		c.R = 10
	}
	if c.N1 >= 1279 && fw.Tier() != "thorough" {
		c.R = 2 // the largest tables cost the most: one repeat less in the quick tier
	}
	if cli {
		c.R = 2
		if fw.Tier() == "thorough" {
			c.R = 4
		}
	}
	np := fw.Range(t, "nProcs", 2, 5)
	for i := 0; i < np; i++ {
		c.Procs = append(c.Procs, fw.PickU(t, "gomaxprocs", []int{1, 2, 3, 4, 8, 16}))
	}
	g := &gctx{t: t, c: &c, t3ids: t3ids, gDom: gDom, gs: gs, hs: hs}
	if cli {
		g.flagsSet = cliFlagOptions(t, &c)
	}
	if fw.Pct(t, "flagPrelude", 35) {
		g.flagPrelude()
	}
	for _, d := range udfDecls {
		g.add(stmt{SQL: d, Kind: "declare"})
	}
	nq := fw.Range(t, "nQueries", 1, 3)
	for i := 0; i < nq; i++ {
		g.add(g.genQuery())
	}
	g.flagProbe()
	if len(g.flagsSet) > 0 && fw.Pct(t, "flagMid", 30) {
		// the flags change in the middle of the program
		switch fw.Uniform(t, "flagMidKind", 5) {
		case 0:
			g.add(stmt{SQL: "ADD '%d/%m/%Y' TO @@DATETIME_FORMAT", Kind: "declare", Tags: []string{"flag:mid_add_datetime_format"}})
			g.add(stmt{SQL: "ADD '%m/%d/%Y' TO @@DATETIME_FORMAT", Kind: "declare"})
			g.flagsSet["DATETIME_FORMAT"] = true
		case 1:
			g.add(stmt{SQL: "REMOVE 0 FROM @@DATETIME_FORMAT", Kind: "declare", Tags: []string{"flag:mid_remove_datetime_format"}})
		case 2:
			g.add(stmt{SQL: "SET @@STRICT_EQUAL TO " + pickS(g, "midStrict", []string{"TRUE", "FALSE"}), Kind: "declare", Tags: []string{"flag:mid_strict_equal"}})
			g.flagsSet["STRICT_EQUAL"] = true
		case 3:
			g.add(stmt{SQL: "SET @@TIMEZONE TO " + pickS(g, "midTz", []string{"'UTC'", "'Asia/Tokyo'", "'Europe/Berlin'"}), Kind: "declare", Tags: []string{"flag:mid_timezone"}})
			g.flagsSet["TIMEZONE"] = true
		default:
			g.add(stmt{SQL: "SET @@DATETIME_FORMAT TO '%m/%d/%Y'", Kind: "declare", Tags: []string{"flag:mid_set_datetime_format"}})
			g.flagsSet["DATETIME_FORMAT"] = true
		}
		g.flagProbe()
	}
	if fw.Pct(t, "hasDML", 60) {
		nd := fw.Range(t, "nDML", 1, 2)
		for i := 0; i < nd; i++ {
			g.genDML()
			if fw.Pct(t, "queryAfterDML", 40) {
				g.add(g.genQuery())
			}
		}
		g.add(stmt{SQL: "COMMIT", Kind: "commit"})
		if fw.Pct(t, "afterCommit", 30) {
			g.add(stmt{SQL: "SELECT COUNT(*) AS n3, MAX(id) AS m3 FROM t3", Kind: "agg_all", Sel: true})
		}
	}
	// every program ends with a sweep over the built-in scalar functions (last, so that a
	// function failing on its arguments - identically on every run - cuts nothing else short)
	g.add(g.genSweep())
	// round 5: the number of cpus is not given as an option but set by the program (SET @@CPU) before
	// a drawn statement: the session starts with one cpu and changes to the setting's value there
	if fw.Pct(t, "cpuViaFlag", 20) && !hasOpt(c.CLIOpts, "-p") {
		c.CPUAt = 1 + fw.Uniform(t, "cpuAt", len(c.Stmts))
		c.Stmts[c.CPUAt-1].Tags = append(c.Stmts[c.CPUAt-1].Tags, "cpu_via:set_flag")
	}
	return c
}

// cliFlagOptions (round 5): further command-line options - the option form of the flags of flagPrelude -
// and, as the third way to set them, a csvq_env.json in the working directory. Returns the flags set.
func cliFlagOptions(t *rapid.T, c *detCase) map[string]bool {
	set := map[string]bool{}
	if fw.Pct(t, "cliOpts", 55) {
		type opt struct {
			flag string
			args []string
		}
		pool := []opt{
			{"STRICT_EQUAL", []string{"--strict-equal"}},
			{"DATETIME_FORMAT", []string{"--datetime-format", `["%d/%m/%Y", "%m/%d/%Y", "%Y%m%d", "%m-%d-%y %H.%i"]`}},
			{"DATETIME_FORMAT", []string{"--datetime-format", `["%m/%d/%Y", "%d/%m/%Y", "%m-%d-%y %H.%i"]`}},
			{"TIMEZONE", []string{"--timezone", "Asia/Tokyo"}},
			{"WITHOUT_NULL", []string{"--without-null"}},
			{"ANSI_QUOTES", []string{"--ansi-quotes"}},
			{"", []string{"--scientific-notation"}}, {"", []string{"--count-diacritical-sign"}}, {"", []string{"--east-asian-encoding"}}, {"", []string{"--count-format-code"}},
			{"", []string{"--enclose-all"}}, {"", []string{"--line-break", "CRLF"}}, {"", []string{"--strip-ending-line-break"}}, {"", []string{"--without-header"}},
			{"", []string{"--json-escape", "HEX"}}, {"", []string{"--pretty-print"}}, {"", []string{"--write-encoding", "UTF8M"}}, {"", []string{"--write-delimiter", ";"}},
			{"", []string{"-p", "<cpu>"}}, // the short form of --cpu, given after it: the later one counts
		}
		n := fw.Range(t, "nCliOpts", 1, 3)
		seen := map[string]bool{}
		for i := 0; i < n; i++ {
			o := pool[fw.Uniform(t, "cliOpt", len(pool))]
			if seen[o.args[0]] {
				continue
			}
			seen[o.args[0]] = true
			c.CLIOpts = append(c.CLIOpts, o.args...)
			if o.flag != "" {
				set[o.flag] = true
			}
		}
	}
	if fw.Pct(t, "envFile", 15) {
		c.Tables = append(c.Tables, tbl{Name: "csvq_env.json", CSV: `{"datetime_format": ["%m/%d/%Y", "%d/%m/%Y", "%Y%m%d"], "timezone": "America/Los_Angeles"}` + "\n"})
		set["DATETIME_FORMAT"], set["TIMEZONE"] = true, true
	}
	return set
}

func genCase(t *rapid.T) detCase { return genCaseFor(t, false) }

// cliFormats: the --format values of the result sets (CSV twice as often: it was the only one before).
var cliFormats = []string{"CSV", "CSV", "TSV", "FIXED", "JSON", "JSONL", "LTSV", "GFM", "ORG", "BOX", "TEXT"}

func genCLICase(t *rapid.T) detCase {
	c := genCaseFor(t, true)
	c.OutFmt = fw.PickU(t, "outFormat", cliFormats)
	if fw.Pct(t, "outFile", 35) {
		c.OutTo = "result.out"
	}
	return c
}

// ---------------------------------------------------------------------
// execution

type runOut struct {
	Views    []string // one canonical text per result set (header line + rows; NULL distinguished from text)
	Rows     [][]string
	Err      string
	Files    map[string]string
	Stdout   string // CLI only
	Stderr   string
	Code     int
	Parallel int64
}

// program is the text shown in messages ("<cpu>" stands for the setting); programFor the text that runs.
func program(c detCase) string { return programFor(c, -1) }

func programFor(c detCase, cpu int) string {
	var b strings.Builder
	for i, s := range c.Stmts {
		if c.CPUAt == i+1 {
			if cpu < 0 {
				b.WriteString("SET @@CPU TO <cpu>;\n")
			} else {
				fmt.Fprintf(&b, "SET @@CPU TO %d;\n", cpu)
			}
		}
		b.WriteString(s.SQL)
		b.WriteString(";\n")
	}
	return b.String()
}

func hasOpt(opts []string, o string) bool {
	for _, x := range opts {
		if x == o {
			return true
		}
	}
	return false
}

// optionCPU: the cpu count the session / process is started with.
func optionCPU(c detCase, cpu int) int {
	if c.CPUAt > 0 {
		return 1
	}
	return cpu
}

func canonCell(v run.Val) string {
	if v.K == "N" {
		return "\x00NULL"
	}
	return v.S
}

func canonView(t run.Tbl) (string, []string) {
	rows := make([]string, len(t.Rows))
	for i, r := range t.Rows {
		cells := make([]string, len(r))
		for j, c := range r {
			cells[j] = canonCell(c)
		}
		rows[i] = strings.Join(cells, "\x1f")
	}
	return strings.Join(t.Header, "\x1f") + "\n" + strings.Join(rows, "\n"), rows
}

var dirSeq int64

func caseDir() string {
	n := atomic.AddInt64(&dirSeq, 1)
	return filepath.Join(fw.WorkDir(), fmt.Sprintf("c12-%d", n))
}

func resetDir(dir string, c detCase) error {
	_ = os.RemoveAll(dir)
	if err := os.MkdirAll(dir, 0755); err != nil {
		return err
	}
	files := map[string]string{}
	for _, t := range c.Tables {
		files[t.Name] = t.CSV
	}
	return run.WriteFiles(dir, files)
}

func runInProcess(c detCase, dir string, cpu int) (runOut, error) {
	out := runOut{}
	if err := resetDir(dir, c); err != nil {
		return out, err
	}
	s, err := run.NewSess(run.Opt{Dir: dir, CPU: optionCPU(c, cpu), WaitTimeout: 10 * time.Minute, Stdin: c.Stdin, HasStdin: c.Stdin != "", CaptureOut: c.Capture})
	if err != nil {
		return out, err
	}
	p0 := atomic.LoadInt64(&query.VerifParallelTasks)
	res := s.Exec(programFor(c, cpu))
	out.Parallel = atomic.LoadInt64(&query.VerifParallelTasks) - p0
	s.Close()
	if c.Capture {
		out.Stdout = s.Out.String()
	}
	if res.ParseErr {
		return out, fmt.Errorf("generated program does not parse: %v", res.Err)
	}
	if res.Err != nil {
		out.Err = run.ErrClass(res.Err) + ": " + res.Err.Error()
	}
	for _, v := range res.Views {
		cv, rows := canonView(v)
		out.Views = append(out.Views, cv)
		out.Rows = append(out.Rows, rows)
	}
	out.Files = run.Snapshot(dir)
	return out, nil
}

func sameMultiset(a, b []string) bool {
	if len(a) != len(b) {
		return false
	}
	x := append([]string{}, a...)
	y := append([]string{}, b...)
	sort.Strings(x)
	sort.Strings(y)
	for i := range x {
		if x[i] != y[i] {
			return false
		}
	}
	return true
}

func show(s string) string {
	s = strings.ReplaceAll(s, "\x1f", "|")
	s = strings.ReplaceAll(s, "\x00NULL", "NULL")
	return s
}

// firstRowDiff describes the first differing row of two results.
func firstRowDiff(a, b []string) string {
	n := len(a)
	if len(b) < n {
		n = len(b)
	}
	for i := 0; i < n; i++ {
		if a[i] != b[i] {
			lo := i - 1
			if lo < 0 {
				lo = 0
			}
			hi := i + 3
			ha, hb := hi, hi
			if ha > len(a) {
				ha = len(a)
			}
			if hb > len(b) {
				hb = len(b)
			}
			return fmt.Sprintf("first difference at row %d: reference rows %d.. = %q, this run = %q", i, lo, show(strings.Join(a[lo:ha], " / ")), show(strings.Join(b[lo:hb], " / ")))
		}
	}
	return fmt.Sprintf("row counts differ: reference %d, this run %d", len(a), len(b))
}

// selStmt returns the statement that produced result set number idx.
func selStmt(c detCase, idx int) (stmt, int) {
	k := 0
	for i, s := range c.Stmts {
		if s.Sel {
			if k == idx {
				return s, i
			}
			k++
		}
	}
	return stmt{Kind: "?"}, -1
}

func hasTag(s stmt, tag string) bool {
	for _, t := range s.Tags {
		if t == tag {
			return true
		}
	}
	return false
}

// compare returns a violation describing the first divergence of got from ref.
func compare(c detCase, ref, got runOut, setting string) *fw.Violation {
	n := len(ref.Views)
	if len(got.Views) < n {
		n = len(got.Views)
	}
	for i := 0; i < n; i++ {
		if ref.Views[i] == got.Views[i] {
			continue
		}
		st, si := selStmt(c, i)
		same := sameMultiset(ref.Rows[i], got.Rows[i])
		sig := "result_differs:" + st.Kind
		src := st
		if st.Kind == "probe" && si > 0 {
			src = c.Stmts[si-1]
			sig = "result_differs:" + src.Kind
		}
		switch {
		case hasTag(st, "groupby_unordered") && same:
			sig = "group_by_order_nondeterministic"
		case hasTag(st, "replace_multi_unmatched") && same:
			sig = "replace_unmatched_order"
		case hasTag(st, "analytic3"):
			sig = "analytic_eval_order_map"
		case hasTag(st, "udf_dml_order") && same:
			sig = "udf_dml_in_parallel_query_order"
		case same:
			sig = "row_order_differs:" + src.Kind
		}
		hdrA := strings.SplitN(ref.Views[i], "\n", 2)[0]
		hdrB := strings.SplitN(got.Views[i], "\n", 2)[0]
		if hdrA != hdrB {
			return fw.V("header_differs:"+src.Kind, "%s: header of result %d (%s) differs: %q vs %q", setting, i, st.SQL, show(hdrA), show(hdrB))
		}
		return fw.V(sig, "%s: result %d differs from the cpu=1 reference (same multiset of rows: %v)\nstatement: %s\n%s", setting, i, same, src.SQL, firstRowDiff(ref.Rows[i], got.Rows[i]))
	}
	if ref.Stdout != got.Stdout {
		return fw.V("captured_output_differs", "%s: the captured standard output differs from the reference run although the stored result sets are equal\n%s\nprogram:\n%s", setting, firstRowDiff(strings.Split(ref.Stdout, "\n"), strings.Split(got.Stdout, "\n")), program(c))
	}
	if ref.Err != got.Err {
		return fw.V("error_differs", "%s: error %q, reference %q\nprogram:\n%s", setting, got.Err, ref.Err, program(c))
	}
	if len(ref.Views) != len(got.Views) {
		return fw.V("result_count_differs", "%s: %d result sets, reference %d", setting, len(got.Views), len(ref.Views))
	}
	if d := run.DiffSnap(ref.Files, got.Files); d != "" {
		return fw.V("file_bytes_differ", "%s: files differ from the reference run although every result set is equal: %s\nprogram:\n%s", setting, d, program(c))
	}
	return nil
}

func kindsOf(c detCase) []string {
	seen := map[string]bool{}
	var ks []string
	for _, s := range c.Stmts {
		if s.Kind == "probe" || s.Kind == "commit" || s.Kind == "declare" || seen[s.Kind] {
			continue
		}
		seen[s.Kind] = true
		ks = append(ks, s.Kind)
	}
	sort.Strings(ks)
	return ks
}

func classesOf(c detCase) []string {
	cl := []string{fmt.Sprintf("n1:%d", c.N1), fmt.Sprintf("n2:%d", c.N2), fmt.Sprintf("n3:%d", c.N3)}
	for _, k := range kindsOf(c) {
		cl = append(cl, "kind:"+k)
	}
	cl = append(cl, fnTags(c)...)
	cl = append(cl, prefixTags(c, "dupkey:")...)
	cl = append(cl, prefixTags(c, "nested:")...)
	cl = append(cl, prefixTags(c, "errat:")...)
	cl = append(cl, prefixTags(c, "errsrc:")...)
	cl = append(cl, prefixTags(c, "src:")...)
	cl = append(cl, prefixTags(c, "out:")...)
	for _, p := range []string{"ana5:", "join5:", "dml5:", "flag:", "fn5:", "proc:", "cpu_via:"} {
		cl = append(cl, prefixTags(c, p)...)
	}
	// the goroutine counts a task manager over all of t1 is given by the settings of this case
	seen := map[int]bool{}
	for _, cpu := range c.CPUs {
		k := c.N1 / query.MinimumRequiredPerCPUCore
		if cpu < k {
			k = cpu
		}
		if k < 1 {
			k = 1
		}
		if !seen[k] {
			seen[k] = true
			cl = append(cl, fmt.Sprintf("t1_goroutines:%d", k))
		}
	}
	return cl
}

// fnTags lists the built-in functions the sweeps of the program call ("fn:NAME").
func fnTags(c detCase) []string { return prefixTags(c, "fn:") }

func prefixTags(c detCase, prefix string) []string {
	seen := map[string]bool{}
	var out []string
	for _, s := range c.Stmts {
		for _, t := range s.Tags {
			if strings.HasPrefix(t, prefix) && !seen[t] {
				seen[t] = true
				out = append(out, t)
			}
		}
	}
	return out
}

// differential runs the program of c in-process under every setting and compares every run with
// the first run of the first setting. It returns the reference run and the number of compared runs
// in which a task manager with more than one goroutine was seen.
func differential(c detCase) (fw.Outcome, runOut, int, *fw.Violation) {
	o := fw.Outcome{Classes: classesOf(c)}
	var ref runOut
	if len(c.CPUs) == 0 || c.R < 1 || len(c.Procs) == 0 {
		return o, ref, 0, fw.Harness("malformed case")
	}
	dir := caseDir()
	defer os.RemoveAll(dir)
	prev := runtime.GOMAXPROCS(0)
	defer runtime.GOMAXPROCS(prev)

	runs, compared, divergent := 0, 0, 0
	parallelRuns := 0
	var viol *fw.Violation
	for si, cpu := range c.CPUs {
		for k := 0; k < c.R; k++ {
			procs := c.Procs[runs%len(c.Procs)]
			runtime.GOMAXPROCS(procs)
			out, err := runInProcess(c, dir, cpu)
			if err != nil {
				return o, ref, 0, fw.Harness("%v\nprogram:\n%s", err, program(c))
			}
			runs++
			if si == 0 && k == 0 {
				ref = out
				continue
			}
			if out.Parallel > 0 && cpu > 1 {
				parallelRuns++
			}
			compared++
			// after the first divergence the remaining runs are only counted
			if v := compare(c, ref, out, fmt.Sprintf("cpu=%d GOMAXPROCS=%d run %d", cpu, procs, k+1)); v != nil {
				divergent++
				if viol == nil {
					viol = v
				}
			}
		}
	}
	o.Evals = runs
	fw.AddExtra("runs", int64(runs))
	if viol != nil {
		viol.Msg += fmt.Sprintf("\n(%d of %d compared runs diverged from the reference)", divergent, compared)
	}
	return o, ref, parallelRuns, viol
}

func checkCase(c detCase) (fw.Outcome, *fw.Violation) {
	o, ref, parallelRuns, viol := differential(c)
	if viol != nil {
		return o, viol
	}
	if ref.Err != "" {
		if os.Getenv("VERIF_C12_DEBUG") != "" {
			fmt.Printf("DEBUG reference error %s\nprogram:\n%s\n", ref.Err, program(c))
		}
		o.Classes = append(o.Classes, "error:"+strings.SplitN(ref.Err, ":", 2)[0])
		return o, nil
	}
	if parallelRuns > 0 {
		fw.AddExtra("parallel_cases", 1)
		o.Classes = append(o.Classes, "parallel")
		o.Fingerprint = strings.Join(kindsOf(c), "+") + fmt.Sprintf("|n1=%d", c.N1)
		if c.N1 >= 2*query.MinimumRequiredPerCPUCore {
			for _, f := range fnTags(c) {
				o.More = append(o.More, f+"|per-row over >=160 rows")
			}
		}
		// round 5: every new shape counts once per size class of t1 it ran in parallel with
		for _, p := range []string{"ana5:", "join5:", "dml5:", "flag:", "fn5:", "proc:", "cpu_via:"} {
			for _, t := range prefixTags(c, p) {
				o.More = append(o.More, fmt.Sprintf("%s|n1=%d", t, c.N1))
			}
		}
	} else {
		o.Classes = append(o.Classes, "not_parallel")
	}
	return o, nil
}

func TestC12InProcess(t *testing.T) {
	fw.Run(t, fw.Spec[detCase]{
		ID: "C12", Name: "in_process", Quick: 220, Thorough: 4800,
		Gen: genCase, Check: checkCase,
		Rule: "four CSV tables (t1 from the threshold-straddling size classes 5..1000 and, with lower weight, 299/300/301 around the loader's prepared capacity, 639/640/641 where 8 goroutines start and 1279/1280/1281/1700 where 16 goroutines start; join partner t2, DML target t3, t4 for the function sweep; contents expanded from one drawn seed) and a program of 1-3 queries (filter, every join kind, GROUP BY with aggregates incl. LISTAGG/JSON_AGG, DISTINCT, set operators, ORDER BY with ties and LIMIT/OFFSET, 1-4 analytic functions, subqueries, user-defined functions and aggregates, a sweep over the built-in scalar functions) plus 0-2 of INSERT..SELECT / UPDATE / DELETE / REPLACE each followed by SELECT * of its target, then COMMIT; the program runs in-process with cpu in {1, 2, three drawn values of 3..15, 16} x r runs (quick 3 - 2 from 1279 rows on -, thorough 10) under a drawn cycle of GOMAXPROCS values; every run must give the result sets (header, rows, row order; text and NULL-ness), the error and the bytes of every file of the first cpu=1 run; non-trivial = the verif counter saw a task manager with >1 goroutine in a non-reference run; distinct by (operator kinds, size class of t1); the classes t1_goroutines:N list the goroutine counts a task manager over all of t1 is given under the settings of the case. Round 5 adds, inside the same programs: (35% of cases) a prelude of 1-3 SET @@FLAG statements - STRICT_EQUAL, DATETIME_FORMAT with 3-4 formats of which two read the same texts differently (%d/%m/%Y, %m/%d/%Y), TIMEZONE, WITHOUT_NULL, SCIENTIFIC_NOTATION, the three character-width flags, ENCLOSE_ALL, LINE_BREAK, STRIP_ENDING_LINE_BREAK, WITHOUT_HEADER, JSON_ESCAPE, PRETTY_PRINT, WRITE_ENCODING - followed by a probe query per evaluation flag (column e of t4 holds texts both formats read, texts only one reads and texts of the other formats; DATETIME / MONTH / comparison / ORDER BY value / sort value of the text / GROUP BY / join condition over it), and (30% of those) a change of a flag in the middle of the program (ADD .. TO / REMOVE .. FROM @@DATETIME_FORMAT, SET) with the probes repeated; (20%) the cpu count set by the program: the session starts with one cpu and SET @@CPU TO <setting> runs before a drawn statement; analytic functions PERCENT_RANK, NTH_VALUE, FIRST/LAST_VALUE and LAG/LEAD with IGNORE NULLS, offsets and defaults, JSON_AGG and LISTAGG(DISTINCT) / COUNT(DISTINCT) / JSON_AGG(DISTINCT) as analytic functions, STDEV/VAR/MIN windows, expression arguments, PARTITION BY id % 200, and analytic functions over a join; NATURAL [LEFT|RIGHT|FULL] JOIN, outer joins with USING, chains of three tables, and joins with the small table on the left; ALTER TABLE ADD (DEFAULT expressions incl. correlated subqueries, position) / RENAME / DROP, UPDATE and DELETE of two joined tables at once, ALTER TABLE SET FORMAT / LINE_BREAK / ENCLOSE_ALL / ENCODING / HEADER / DELIMITER / JSON_ESCAPE / PRETTY_PRINT followed by a DELETE (the file is rewritten with those attributes at COMMIT), INSERT..SELECT of analytic values, and changes undone by ROLLBACK; in the function sweep, arguments whose pattern / format / JSON query differs from row to row and arguments in the formats of @@DATETIME_FORMAT; each of these shapes counts as distinct once per size class of t1 it ran in parallel with",
		Assumptions: []string{
			"goroutine schedules are sampled (r runs per setting, GOMAXPROCS varied): no divergence in r runs is not a proof",
			"cells are compared by text and NULL-ness, not by csvq value type",
			"only quiet-mode output is compared: log lines such as 'Commit: file ... is updated.' are not results",
		},
	})
}

// ---------------------------------------------------------------------
// CLI sub-check: the real binary with --cpu N, stdout in CSV, committed bytes.

func runCLI(bin string, c detCase, dir string, cpu int, procs int, timeout time.Duration) (runOut, run.CLIRes, error) {
	out := runOut{}
	if err := resetDir(dir, c); err != nil {
		return out, run.CLIRes{}, err
	}
	src := dir + ".sql"
	if err := os.WriteFile(src, []byte(programFor(c, cpu)), 0644); err != nil {
		return out, run.CLIRes{}, err
	}
	defer os.Remove(src)
	home := filepath.Join(fw.WorkDir(), "clihome")
	_ = os.MkdirAll(home, 0755)
	r := run.CLI(run.CLIOpt{Bin: bin, Dir: dir, Home: home, Timeout: timeout,
		Args: cliArgs(c, cpu, src),
		Env:  []string{fmt.Sprintf("GOMAXPROCS=%d", procs)}})
	out.Stdout, out.Stderr, out.Code = r.Stdout, r.Stderr, r.Code
	out.Files = run.Snapshot(dir)
	return out, r, nil
}

func cliArgs(c detCase, cpu int, src string) []string {
	f := c.OutFmt
	if f == "" {
		f = "CSV"
	}
	args := []string{"--cpu", fmt.Sprint(optionCPU(c, cpu)), "-f", f, "-q"}
	for _, o := range c.CLIOpts {
		if o == "<cpu>" {
			o = fmt.Sprint(cpu)
		}
		args = append(args, o)
	}
	if c.OutTo != "" {
		args = append(args, "-o", c.OutTo)
	}
	return append(args, "-s", src)
}

func checkCLICase(c detCase) (fw.Outcome, *fw.Violation) {
	o := fw.Outcome{Classes: classesOf(c)}
	if len(c.CPUs) == 0 || c.R < 1 || len(c.Procs) == 0 {
		return o, fw.Harness("malformed case")
	}
	if c.OutFmt != "" {
		o.Classes = append(o.Classes, "format:"+c.OutFmt)
	}
	for _, op := range c.CLIOpts {
		if strings.HasPrefix(op, "-") {
			o.Classes = append(o.Classes, "cliopt:"+op)
		}
	}
	for _, tb := range c.Tables {
		if tb.Name == "csvq_env.json" {
			o.Classes = append(o.Classes, "cliopt:csvq_env.json")
		}
	}
	if c.OutTo != "" {
		o.Classes = append(o.Classes, "result_sets_to:file")
	} else {
		o.Classes = append(o.Classes, "result_sets_to:stdout")
	}
	bin, err := run.Binary(fw.WorkDir(), false)
	if err != nil {
		return o, fw.Harness("%v", err)
	}
	dir := caseDir()
	defer os.RemoveAll(dir)

	// non-triviality is measured in-process (same code, same program) at the largest cpu setting
	prev := runtime.GOMAXPROCS(0)
	probe, perr := runInProcess(c, dir, c.CPUs[len(c.CPUs)-1])
	runtime.GOMAXPROCS(prev)
	if perr != nil {
		return o, fw.Harness("%v\nprogram:\n%s", perr, program(c))
	}

	var ref runOut
	runs := 0
	for si, cpu := range c.CPUs {
		for k := 0; k < c.R; k++ {
			procs := c.Procs[runs%len(c.Procs)]
			out, res, err := runCLI(bin, c, dir, cpu, procs, 60*time.Second)
			if err != nil {
				return o, fw.Harness("%v", err)
			}
			if res.TimedOut {
				// loaded machine: repeat once in isolation with a 4x longer limit
				fw.AddExtra("watchdog_retries", 1)
				out, res, err = runCLI(bin, c, dir, cpu, procs, 240*time.Second)
				if err != nil {
					return o, fw.Harness("%v", err)
				}
				if res.TimedOut {
					return o, fw.V("cli_hang", "--cpu %d GOMAXPROCS=%d: process did not finish within 240 s (twice)\nprogram:\n%s", cpu, procs, program(c))
				}
			}
			runs++
			if si == 0 && k == 0 {
				ref = out
				continue
			}
			setting := fmt.Sprintf("--cpu %d GOMAXPROCS=%d run %d", cpu, procs, k+1)
			if out.Code != ref.Code || out.Stderr != ref.Stderr {
				return o, fw.V("cli_exit_differs", "%s: exit %d stderr %q, reference exit %d stderr %q\nprogram:\n%s", setting, out.Code, out.Stderr, ref.Code, ref.Stderr, program(c))
			}
			if out.Stdout != ref.Stdout {
				return o, fw.V(cliSig(c, "cli_stdout_differs"), "%s: stdout differs from the --cpu %d reference\n%s\nprogram:\n%s", setting, c.CPUs[0], firstRowDiff(strings.Split(ref.Stdout, "\n"), strings.Split(out.Stdout, "\n")), program(c))
			}
			if d := run.DiffSnap(ref.Files, out.Files); d != "" {
				return o, fw.V(cliSig(c, "cli_file_bytes_differ"), "%s: committed files differ from the reference run: %s\nprogram:\n%s", setting, d, program(c))
			}
		}
	}
	o.Evals = runs
	fw.AddExtra("cli_runs", int64(runs))
	if ref.Code != 0 {
		o.Classes = append(o.Classes, fmt.Sprintf("exit:%d", ref.Code))
		return o, nil
	}
	if probe.Parallel > 0 {
		fw.AddExtra("parallel_cases", 1)
		o.Classes = append(o.Classes, "parallel")
		o.Fingerprint = "cli|" + strings.Join(kindsOf(c), "+") + fmt.Sprintf("|n1=%d", c.N1)
	} else {
		o.Classes = append(o.Classes, "not_parallel")
	}
	return o, nil
}

// cliSig names a CLI divergence after the only tagged shape of the program when there is exactly one.
func cliSig(c detCase, generic string) string {
	tags := map[string]bool{}
	for _, s := range c.Stmts {
		for _, t := range s.Tags {
			tags[t] = true
		}
	}
	if len(tags) == 1 {
		switch {
		case tags["groupby_unordered"]:
			return "group_by_order_nondeterministic"
		case tags["replace_multi_unmatched"]:
			return "replace_unmatched_order"
		case tags["analytic3"]:
			return "analytic_eval_order_map"
		}
	}
	return generic
}

func TestC12CLI(t *testing.T) {
	fw.Run(t, fw.Spec[detCase]{
		ID: "C12", Name: "cli", Quick: 24, Thorough: 480,
		Gen: genCLICase, Check: checkCLICase,
		Rule:        "the same generator; the program is run by the csvq binary as `csvq --cpu N -f FORMAT -q [-o result.out] -s prog.sql` with FORMAT drawn from CSV, TSV, FIXED, JSON, JSONL, LTSV, GFM, ORG, BOX, TEXT and the result sets going to stdout or (35%) to a file, for N in {1, 2, three drawn values of 3..15, 16} x r runs (quick 2, thorough 4) with the GOMAXPROCS environment variable varied; stdout, stderr, exit code and the bytes of every file in the repository after the run must equal those of the first --cpu 1 run; non-trivial = an in-process run of the same program at cpu 16 used a task manager with >1 goroutine; distinct by (operator kinds, size class of t1). Round 5: (55%) 1-3 further command-line options - --strict-equal, --datetime-format with ambiguous formats, --timezone, --without-null, --ansi-quotes, --scientific-notation, the character-width options, --enclose-all, --line-break, --strip-ending-line-break, --without-header, --json-escape, --pretty-print, --write-encoding, --write-delimiter, -p after --cpu - and (15%) a csvq_env.json in the working directory that sets datetime_format and timezone; the programs carry the round-5 shapes of in_process (flag prelude and probes, SET @@CPU in the program with the process started as --cpu 1, ...)",
		Assumptions: []string{"goroutine schedules are sampled", "a run that exceeds 60 s is repeated once with 240 s before it counts (loaded machine)"},
	})
}
