package c17

// Key cells that are one value under the documented normalisation but are
// spelled differently. The direct check draws partition and order keys from
// small integers, lowercase words and NULL, so two cells of one partition (or
// two tied order keys) are always the same text. Here the PARTITION BY and
// ORDER BY columns hold, per column, one family of values
//   float     1.5 / 1.50 / 15e-1 / +1.5, 0.5 / .5 / 5e-1, 0.0 / -0.0, ... (text cells; in a temporary table also Float values)
//   int       2 / " 2" / +2 / 002 (text; in a temporary table also Integer values)
//   datetime  2012-02-03 / 2012/02/03 / 2012-02-03 00:00:00 / 2012-02-03T00:00:00Z, ... (text; also Datetime values)
//   text      a / A / " a" / "a ", ab / AB / "Ab ", ...
//   bool      true / TRUE / t / T, false / F / f (PARTITION BY only; text; also Boolean values)
// and the table is a temporary table (typed and text cells) or a CSV / TSV /
// JSON file (every key cell is text). The reference partitions and orders by
// the conversion ladder of the manual (value.md; ref.C04Normalise, the
// equivalence C04 uses for DISTINCT / GROUP BY buckets), so the spellings of
// one value share a partition and tie under ORDER BY; pairs the manual leaves
// open (integer n vs float n.0, boolean vs 0/1) cannot occur because a column
// holds one family.

import (
	"fmt"
	"strings"
	"sync/atomic"
	"testing"
	"time"

	"github.com/mithrandie/csvq/lib/query"
	"pgregory.net/rapid"

	"verif/internal/fw"
	"verif/internal/ref"
	"verif/internal/run"
	"verif/internal/val"
)

type keyCluster struct {
	Texts []string  // spellings as text cells
	Typed []val.Val // the same value as a typed cell (temporary table only)
}

type keyFamily struct {
	Name      string
	Orderable bool
	Clusters  []keyCluster
}

func utc(y int, m time.Month, d, hh, mm, ss int) val.Val {
	return val.Time(time.Date(y, m, d, hh, mm, ss, 0, time.UTC))
}

var keyFamilies = []keyFamily{
	{"float", true, []keyCluster{
		{[]string{"-1.5", "-1.50", "-15e-1", " -1.5"}, []val.Val{val.Float(-1.5)}},
		{[]string{"-0.25", "-.25", "-25e-2", "-0.250"}, []val.Val{val.Float(-0.25)}},
		{[]string{"0.0", "-0.0", "0.00", "0e0"}, []val.Val{val.Float(0)}},
		{[]string{"0.5", ".5", "5e-1", "0.50", "+.5", "+0.5"}, []val.Val{val.Float(0.5)}},
		{[]string{"1.5", "1.50", "1.500", "15e-1", "+1.5", "1.5 "}, []val.Val{val.Float(1.5)}},
		{[]string{"2.25", "2.250", "225e-2", "2.25e0"}, []val.Val{val.Float(2.25)}},
	}},
	{"int", true, []keyCluster{
		{[]string{"-3", " -3", "-03"}, []val.Val{val.Int(-3)}},
		{[]string{"2", " 2", "2 ", "+2", "002"}, []val.Val{val.Int(2)}},
		{[]string{"7", "07", " 7"}, []val.Val{val.Int(7)}},
		{[]string{"10", "+10", "010", "10 "}, []val.Val{val.Int(10)}},
	}},
	{"datetime", true, []keyCluster{
		{[]string{"2011-12-31 23:59:59", "2011-12-31T23:59:59Z", "2011/12/31 23:59:59", "2012-01-01T08:59:59+09:00"}, []val.Val{utc(2011, 12, 31, 23, 59, 59)}},
		{[]string{"2012-02-03", "2012/02/03", "2012-02-03 00:00:00", "2012-02-03T00:00:00Z", "2012-02-03T00:00:00", "2012-02-03 "}, []val.Val{utc(2012, 2, 3, 0, 0, 0)}},
		{[]string{"2012-02-03 09:18:15", "2012/02/03 09:18:15", "2012-02-03T09:18:15Z", "2012-02-03T18:18:15+09:00", "2012-02-03 09:18:15.0"}, []val.Val{utc(2012, 2, 3, 9, 18, 15)}},
		{[]string{"2012-02-04", "2012/02/04", "2012-02-04 00:00:00"}, []val.Val{utc(2012, 2, 4, 0, 0, 0)}},
	}},
	{"text", true, []keyCluster{
		{[]string{"a", "A", " a", "a "}, nil},
		{[]string{"ab", "AB", "Ab ", "aB"}, nil},
		{[]string{"b", "B", " B"}, nil},
		{[]string{"ba", "BA"}, nil},
		{[]string{"x y", "X Y", " x y ", "X y"}, nil},
	}},
	{"bool", false, []keyCluster{
		{[]string{"true", "TRUE", "t", "T", " true", "True"}, []val.Val{val.Bool(true)}},
		{[]string{"false", "FALSE", "f", "F", "false "}, []val.Val{val.Bool(false)}},
	}},
}

func keyFamilyByName(name string) (keyFamily, bool) {
	for _, f := range keyFamilies {
		if f.Name == name {
			return f, true
		}
	}
	return keyFamily{}, false
}

// inFamily: the cell is NULL, a spelling of the family or (typed allowed) one of its typed values.
func inFamily(v val.Val, f keyFamily, typed bool) bool {
	if v.IsNull() {
		return true
	}
	for _, cl := range f.Clusters {
		if v.K == "S" && isIn(v.S, cl.Texts) {
			return true
		}
		if typed {
			for _, tv := range cl.Typed {
				if tv == v {
					return true
				}
			}
		}
	}
	return false
}

type keysCase struct {
	Source string      `json:"source"` // temp | CSV | TSV | JSON
	Fams   []string    `json:"fams"`   // families of p1, o1, o2
	Rows   [][]val.Val `json:"rows"`   // id, p1, p2, o1, o2, v, s
	Call   anaCase     `json:"call"`   // Rows empty
	CPU    int         `json:"cpu"`
}

var (
	keySources  = []string{"temp", "temp", "temp", "CSV", "CSV", "TSV", "JSON"}
	keyCols     = []int{cP1, cO1, cO2}
	keyColNames = []string{"p1", "o1", "o2"}
)

func genKeys(t *rapid.T) keysCase {
	c := keysCase{Source: pick(t, "source", keySources), CPU: pick(t, "cpu", []int{1, 1, 2, 4})}
	n := intRange(t, "n", 2, 14)
	if chance(t, "medium", 12) {
		n = intRange(t, "nMedium", 16, 90)
		c.CPU = pick(t, "cpuMedium", []int{2, 4, 8})
	}
	typed := c.Source == "temp"
	// p1: any family; o1, o2: orderable families
	var orderable []string
	var all []string
	for _, f := range keyFamilies {
		all = append(all, f.Name)
		if f.Orderable {
			orderable = append(orderable, f.Name)
		}
	}
	// the float family twice: it has the most spellings
	c.Fams = []string{pick(t, "famP1", append(append([]string(nil), all...), "float")), pick(t, "famO1", append(append([]string(nil), orderable...), "float")), pick(t, "famO2", orderable)}
	// per key column 2-3 clusters of its family, so that values repeat
	pools := make([][]keyCluster, len(keyCols))
	for k := range keyCols {
		f, _ := keyFamilyByName(c.Fams[k])
		cls := rapid.Permutation(append([]keyCluster(nil), f.Clusters...)).Draw(t, "clusters")
		m := intRange(t, "nClusters", 2, 3)
		if n >= 16 {
			m = intRange(t, "nClustersMedium", 3, 6)
		}
		if m > len(cls) {
			m = len(cls)
		}
		pools[k] = cls[:m]
	}
	ids := make([]int, n)
	for i := range ids {
		ids[i] = i + 1
	}
	ids = rapid.Permutation(ids).Draw(t, "ids")
	nullPct := intRange(t, "nullPct", 0, 40)
	for i := 0; i < n; i++ {
		r := make([]val.Val, len(cols))
		r[cID] = val.Int(int64(ids[i]))
		for k, col := range keyCols {
			if chance(t, "keyNull", 10) {
				r[col] = val.Null
				continue
			}
			cl := pick(t, "cluster", pools[k])
			if typed && len(cl.Typed) > 0 && chance(t, "typedCell", 30) {
				r[col] = pick(t, "typed", cl.Typed)
			} else {
				r[col] = val.Str(pick(t, "spelling", cl.Texts))
			}
		}
		r[cP2] = pick(t, "p2", []val.Val{val.Int(0), val.Int(0), val.Int(1), val.Null})
		if chance(t, "vNull", nullPct) {
			r[cV] = val.Null
		} else {
			r[cV] = val.Int(int64(intRange(t, "v", -5, 20)))
		}
		if chance(t, "sNull", nullPct) {
			r[cS] = val.Null
		} else {
			r[cS] = genStr(t, "s")
		}
		c.Rows = append(c.Rows, r)
	}
	fns := allFns()
	for i := 0; i < 3; i++ { // the rank family decides ties by the equality of the order keys
		fns = append(fns, rankFns...)
		fns = append(fns, numberFns...)
	}
	call := genCall(t, false, c.Rows, fns)
	call.Rows = nil
	// the spelled columns are what this check is about: most calls partition by p1 / o1 and order by o1 / o2
	if len(call.Partition) > 0 && !isIn("p1", call.Partition) && !isIn("o1", call.Partition) && chance(t, "spelledPartition", 80) {
		call.Partition[0] = "p1"
	}
	if len(call.Partition) == 0 && chance(t, "addPartition", 50) {
		call.Partition = []string{"p1"}
	}
	if call.Fn != "COUNT_STAR" && !hasOrderCol(call, "o1") && !hasOrderCol(call, "o2") && chance(t, "spelledOrder", 70) {
		o := orderItem{Col: pick(t, "spelledOrderCol", []string{"o1", "o2"}), Dir: pick(t, "spelledDir", []string{"", "ASC", "DESC"}), Nulls: pick(t, "spelledNulls", []string{"", "", "FIRST", "LAST"})}
		if !isIn(o.Col, call.Partition) {
			call.Order = append([]orderItem{o}, call.Order...)
			if len(call.Order) > 3 {
				call.Order = append(call.Order[:2], call.Order[len(call.Order)-1])
			}
		}
	}
	normalizeCall(&call)
	if c.Source != "temp" && call.Fn == "JSON_AGG" && call.Arg != "s" {
		call.Arg = "s" // cells of a text file are strings: JSON_AGG(v) would quote them
	}
	c.Call = call
	return c
}

func keysInDomain(c keysCase) bool {
	if c.CPU < 1 || !isIn(c.Source, keySources) || len(c.Fams) != len(keyCols) || len(c.Rows) == 0 {
		return false
	}
	typed := c.Source == "temp"
	fams := make([]keyFamily, len(keyCols))
	for k := range keyCols {
		f, ok := keyFamilyByName(c.Fams[k])
		if !ok || (k > 0 && !f.Orderable) {
			return false
		}
		fams[k] = f
	}
	seen := map[string]bool{}
	for _, r := range c.Rows {
		if len(r) != len(cols) || r[cID].K != "I" || seen[r[cID].S] {
			return false
		}
		seen[r[cID].S] = true
		for k, col := range keyCols {
			if !inFamily(r[col], fams[k], typed) {
				return false
			}
		}
		if !(r[cP2].IsNull() || (r[cP2].K == "I" && (r[cP2].S == "0" || r[cP2].S == "1"))) {
			return false
		}
		if !(r[cV].IsNull() || (r[cV].K == "I" && r[cV].AsInt() >= -1000 && r[cV].AsInt() <= 1000)) {
			return false
		}
		if !(r[cS].IsNull() || (r[cS].K == "S" && isIn(r[cS].S, strAlphabet))) {
			return false
		}
	}
	call := c.Call
	if call.Rows != nil || !callInDomain(call) || !argInDomain(call, false) {
		return false
	}
	for _, p := range call.Partition {
		if !isIn(p, []string{"p1", "p2", "o1"}) {
			return false
		}
	}
	for _, o := range call.Order {
		if !isIn(o.Col, []string{"o1", "o2", "p2", "id"}) {
			return false
		}
	}
	if c.Source != "temp" && call.Fn == "JSON_AGG" && call.Arg != "s" {
		return false
	}
	return true
}

// spelledDifferently: two non-null cells that are one value but not one spelling.
func spelledDifferently(a, b val.Val) bool {
	return !a.IsNull() && !b.IsNull() && a != b && ref.AnaKeyEq(a, b)
}

func checkKeys(c keysCase) (fw.Outcome, *fw.Violation) {
	o := fw.Outcome{}
	if !keysInDomain(c) {
		o.Discard = true
		return o, nil
	}
	n := len(c.Rows)
	call := c.Call
	call.Rows = c.Rows
	in := buildInput(call)
	nUser := len(call.Order)
	if in.UniqueOrder {
		nUser--
	}

	// ---- where the spellings matter -----------------------------------------
	famOf := map[string]string{"p1": c.Fams[0], "o1": c.Fams[1], "o2": c.Fams[2]}
	partVar, ordVar := "", ""
	parts := ref.AnaPartitions(in.Part, n)
	bigParts := 0
	for _, p := range parts {
		if len(p) >= 2 {
			bigParts++
		}
		for x := 0; x < len(p); x++ {
			for y := x + 1; y < len(p); y++ {
				i, j := p[x], p[y]
				for _, pc := range call.Partition {
					if _, spelled := famOf[pc]; spelled && partVar == "" && spelledDifferently(c.Rows[i][colIdx(pc)], c.Rows[j][colIdx(pc)]) {
						partVar = famOf[pc]
					}
				}
				if nUser > 0 && ordVar == "" && ref.AnaCmp(in.Ord[i][:nUser], in.Ord[j][:nUser], in.Items[:nUser]) == 0 {
					for _, oi := range call.Order[:nUser] {
						if _, spelled := famOf[oi.Col]; spelled && ordVar == "" && spelledDifferently(c.Rows[i][colIdx(oi.Col)], c.Rows[j][colIdx(oi.Col)]) {
							ordVar = famOf[oi.Col]
						}
					}
				}
			}
		}
	}
	size := "small"
	if n >= 16 {
		size = "medium"
	}
	o.Classes = []string{"source:" + c.Source, "fn:" + call.Fn, "p1:" + c.Fams[0], "o1:" + c.Fams[1], "o2:" + c.Fams[2], "size:" + size,
		fmt.Sprintf("partition_items:%d", len(call.Partition)), fmt.Sprintf("order_items:%d", nUser), "frame:" + call.Frame.Shape()}
	if partVar != "" {
		o.Classes = append(o.Classes, "one_partition_key_in_several_spellings:"+partVar)
		fw.AddExtra("keys/one_partition_key_in_several_spellings:"+partVar, 1)
	}
	if ordVar != "" {
		o.Classes = append(o.Classes, "tied_order_keys_in_several_spellings:"+ordVar)
		fw.AddExtra("keys/tied_order_keys_in_several_spellings:"+ordVar, 1)
	}

	// ---- csvq ----------------------------------------------------------------
	dir := fw.WorkDir()
	var setup, from string
	textInts := false
	if c.Source == "temp" {
		setup = insertSQL("t", cols, c.Rows)
		from = "t"
	} else {
		name := "c17_keys." + strings.ToLower(c.Source)
		if err := run.WriteFiles(dir, map[string]string{name: fileText(c.Source, c.Rows)}); err != nil {
			panic(err)
		}
		from = "`" + name + "`"
		textInts = c.Source != "JSON"
	}
	s, err := run.NewSess(run.Opt{Dir: dir, CPU: c.CPU})
	if err != nil {
		panic(err)
	}
	defer s.Close()
	if r := s.Exec(setup + udfDecl); r.Err != nil {
		return o, fw.V("setup_error", "%v", r.Err)
	}
	sql := "SELECT " + strings.Join(cols, ", ") + ", " + fnSQL(c.Call) + " AS r FROM " + from
	par0 := atomic.LoadInt64(&query.VerifParallelTasks)
	tbl, qerr := s.Query(sql)
	if atomic.LoadInt64(&query.VerifParallelTasks) > par0 {
		o.Classes = append(o.Classes, "ran_on_several_workers")
	}
	if qerr != nil {
		return o, fw.V("keys_error:"+call.Fn, "%s: %v\n  rows(id,p1,p2,o1,o2,v,s)=%v", sql, qerr, clipRows(c.Rows))
	}
	if len(tbl.Header) != len(cols)+1 {
		return o, fw.V("keys_result_shape", "%s: header %v", sql, tbl.Header)
	}
	if len(tbl.Rows) != n {
		return o, fw.V("keys_row_count", "%s: %d rows in, %d rows out", sql, n, len(tbl.Rows))
	}
	norm := func(v val.Val, ints bool) val.Val {
		if c.Source == "temp" {
			return v
		}
		return normCell(v, ints)
	}
	pos := map[string]int{}
	for i, r := range c.Rows {
		pos[r[cID].S] = i
	}
	got := make([]val.Val, n)
	seen := make([]bool, n)
	for _, r := range tbl.Rows {
		id := norm(r[cID], textInts)
		i, ok := pos[id.S]
		if !ok || id.K != "I" || seen[i] {
			return o, fw.V("keys_rows", "%s: output row with id %s is unknown or repeated", sql, r[cID])
		}
		seen[i] = true
		for j := range cols {
			if norm(r[j], textInts) != norm(c.Rows[i][j], textInts) {
				return o, fw.V("keys_other_column_changed", "%s: id %s column %s: %s became %s", sql, id, cols[j], c.Rows[i][j], r[j])
			}
		}
		got[i] = norm(r[len(cols)], textInts && !isIn(call.Fn, listFns))
	}
	res := analyticCheckIn(call, in, got)
	if res.Sig != "" {
		role := "other"
		switch {
		case partVar != "" && ordVar != "":
			role = "partition_and_order_spellings"
		case partVar != "":
			role = "partition_spellings:" + partVar
		case ordVar != "":
			role = "order_spellings:" + ordVar
		}
		return o, fw.V("keys_"+res.Sig+":"+role, "%s (source %s; families p1=%s o1=%s o2=%s)\n  %s\n  rows(id,p1,p2,o1,o2,v,s)=%v", sql, c.Source, c.Fams[0], c.Fams[1], c.Fams[2], res.Msg, clipRows(c.Rows))
	}
	if res.Reading != "" {
		o.Classes = append(o.Classes, "reading:"+res.Reading)
	}
	if (partVar != "" || ordVar != "") && bigParts >= 1 {
		o.Fingerprint = fmt.Sprintf("%s|%s|pv:%s|ov:%s|pk%d|ok%d|%s", call.Fn, c.Source, partVar, ordVar, len(call.Partition), nUser, call.Frame.Shape())
	}
	return o, nil
}

func TestC17Keys(t *testing.T) {
	fw.Run(t, fw.Spec[keysCase]{
		ID: "C17", Name: "keys", Quick: 6000, Thorough: 120000,
		Gen: genKeys, Check: checkKeys,
		Rule: "table of 2-14 rows (12%: 16-90 rows, --cpu 2-8) whose key columns p1 (PARTITION BY), o1 (PARTITION BY / ORDER BY) and o2 (ORDER BY) each hold one family of values written in several spellings of 2-6 values: float text (1.5 / 1.50 / 15e-1 / +1.5, .5 / 0.5, 0.0 / -0.0), integer text (2 / ' 2' / +2 / 002), datetime text (2012-02-03 / 2012/02/03 / 2012-02-03 00:00:00 / ...T00:00:00Z / +09:00 forms), text in letter-case and edge-blank variants, boolean text (p1 only), plus NULL; the table is a temporary table (30% of the key cells are then typed Float / Integer / Datetime / Boolean values) or a CSV / TSV / JSON file (all key cells text) x one analytic call of the direct check (all functions, PARTITION BY 0-2, ORDER BY 0-2 [+id], ROWS frames), biased to partition by p1 / o1 and to order by o1 / o2; oracle: the reference evaluator of the direct check, which partitions and orders by the documented conversion ladder (integer, float, datetime, boolean, case-insensitive text without edge blanks), compared by id; the other columns and the row count must be unchanged; non-trivial = two rows of one partition spell one PARTITION BY value differently, or two rows tied under the ORDER BY items spell a key differently; distinct by (function, source, family whose spellings meet in a partition, family whose spellings tie, #partition items, #order items, frame shape)",
		Assumptions: []string{
			"a key column holds one family, so the pairs the manual leaves open (integer n vs float n.0, boolean vs 0 / 1, number vs text) do not occur; float values are non-integral or zero",
			"equality and order of key cells follow the conversion ladder of the manual as modelled for C04 / C06 (ref.C04Normalise, ladder.go): a string that spells an integer / float / datetime / boolean is that value; other text compares case-insensitively without edge blanks; 0.0 and -0.0 are one value",
			"boolean keys are used in PARTITION BY only (ORDER BY does not order booleans: known finding of C07)",
			"cells of CSV / TSV files are strings; a cell that spells a canonical integer is compared as that integer, an integral float (SUM, JSON number) as that integer; JSON_AGG over number cells of a text file is not generated",
			"session time zone UTC",
			"assumptions and open readings of the direct check apply to the call",
		},
	})
}
