package c17

// Functions and options of the manual's analytic list that the shared
// reference evaluator (internal/ref/c17_analytic.go) does not know: STDEV,
// STDEVP, VAR, VARP with OVER and [DISTINCT] on LISTAGG / JSON_AGG. They are
// evaluated here over the frames / partitions the reference computes
// (ref.AnaFrameRows, ref.AnaPartitionRows). Every sub-check goes through
// analyticCheck / analyticUnique instead of calling the reference directly.

import (
	"fmt"
	"math"

	"verif/internal/ref"
	"verif/internal/val"
)

var statFns = []string{"STDEV", "STDEVP", "VAR", "VARP"}

func distinctFirst(vs []val.Val) []val.Val {
	var out []val.Val
	for _, v := range vs {
		dup := false
		for _, w := range out {
			if v == w {
				dup = true
				break
			}
		}
		if !dup {
			out = append(out, v)
		}
	}
	return out
}

func reversed(vs []val.Val) []val.Val {
	out := make([]val.Val, len(vs))
	for i, v := range vs {
		out[len(vs)-1-i] = v
	}
	return out
}

// statWant: the value of a statistics aggregate over the frame values vs;
// open=true: a sample statistic of one value (undefined: NULL, 0 or NaN accepted).
func statWant(fn string, distinct bool, vs []val.Val) (want val.Val, open bool) {
	if distinct {
		vs = distinctFirst(vs)
	}
	var fs []float64
	for _, v := range vs {
		if !v.IsNull() {
			fs = append(fs, float64(v.AsInt()))
		}
	}
	if len(fs) == 0 {
		return val.Null, false // manual: if all values are null, then returns a null
	}
	sample := fn == "VAR" || fn == "STDEV"
	if sample && len(fs) == 1 {
		return val.Null, true
	}
	mean := 0.0
	for _, f := range fs {
		mean += f
	}
	mean /= float64(len(fs))
	ss := 0.0
	for _, f := range fs {
		ss += (f - mean) * (f - mean)
	}
	d := float64(len(fs))
	if sample {
		d--
	}
	x := ss / d
	if fn == "STDEV" || fn == "STDEVP" {
		x = math.Sqrt(x)
	}
	return val.Float(x), false
}

func statEq(got, want val.Val) bool {
	if want.IsNull() {
		return got.IsNull()
	}
	if got.K != "I" && got.K != "F" {
		return false
	}
	g, w := got.AsFloat(), want.AsFloat()
	return g == w || math.Abs(g-w) <= 1e-9*math.Max(1, math.Abs(w))
}

// analyticCheck decides whether got is an admissible result column of the call c over c.Rows.
func analyticCheck(c anaCase, got []val.Val) ref.AnaResult {
	return analyticCheckIn(c, buildInput(c), got)
}

func analyticCheckIn(c anaCase, in ref.AnaInput, got []val.Val) ref.AnaResult {
	n := len(got)
	fail := func(row int, want string) ref.AnaResult {
		return ref.AnaResult{Sig: "analytic_mismatch:" + c.Fn, Msg: fmt.Sprintf("%s: row #%d (0-based input position): csvq %s, reference %s", c.Fn, row, got[row], want)}
	}
	switch {
	case isIn(c.Fn, statFns):
		frames := ref.AnaFrameRows(in, n)
		for row := 0; row < n; row++ {
			vs := make([]val.Val, 0, len(frames[row]))
			for _, r := range frames[row] {
				vs = append(vs, in.Arg[r])
			}
			want, open := statWant(c.Fn, c.Distinct, vs)
			if open {
				if got[row].IsNull() || ((got[row].K == "I" || got[row].K == "F") && (got[row].AsFloat() == 0 || math.IsNaN(got[row].AsFloat()))) {
					continue
				}
				return fail(row, "NULL (sample statistic of one value; 0 and NaN also accepted)")
			}
			if !statEq(got[row], want) {
				return fail(row, fmt.Sprintf("%s over the frame values %v", want, vs))
			}
		}
		return ref.AnaResult{}
	case isIn(c.Fn, listFns) && c.Distinct:
		parts := ref.AnaPartitionRows(in, n)
		ordered := len(in.Items) > 0 && in.UniqueOrder
		for row := 0; row < n; row++ {
			vs := make([]val.Val, 0, len(parts[row]))
			for _, r := range parts[row] {
				vs = append(vs, in.Arg[r])
			}
			// which of several equal values keeps its place is not stated: first or last occurrence
			cands := [][]val.Val{distinctFirst(vs), reversed(distinctFirst(reversed(vs)))}
			ok := false
			for _, cand := range cands {
				if c.Fn == "JSON_AGG" {
					ok = ok || ref.AnaJSONMatches(got[row], cand, ordered)
				} else {
					ok = ok || ref.AnaListaggMatches(got[row], cand, in.Sep, ordered)
				}
			}
			if !ok {
				return fail(row, fmt.Sprintf("the aggregate of the distinct values %v (ordered=%v)", cands[0], ordered))
			}
		}
		return ref.AnaResult{}
	}
	return ref.AnalyticCheck(in, got)
}

// analyticUnique: the result column when the model admits exactly one.
func analyticUnique(c anaCase, n int) ([]val.Val, bool) {
	if isIn(c.Fn, statFns) || (isIn(c.Fn, listFns) && c.Distinct) {
		return nil, false
	}
	return ref.AnalyticUnique(buildInput(c), n)
}
