package c17

// Analytic calls nested directly in analytic calls of the same query. The
// nested check puts the inner call into a derived table or CTE and refers to
// its column by name; csvq also accepts an analytic call as argument, as
// PARTITION BY item or as ORDER BY item of another analytic call of the same
// select list (SearchAnalyticFunctions collects the inner calls first,
// View.OrderBy evaluates calls inside an analytic ORDER BY clause, the record
// capacity is extended for the inner calls and their key columns):
//
//   SELECT ..., SUM(ROW_NUMBER() OVER (PARTITION BY p1 ORDER BY id))
//                 OVER (PARTITION BY RANK() OVER (ORDER BY o1) ORDER BY id) AS r1
//   FROM t [WHERE ...]
//
// up to three levels deep (a2 may use a1, the outer calls use a1 / a2). The
// inner calls may also stand in the select list themselves (then the outer
// call must find the column that is already there). The reference evaluates
// inside-out over the rows WHERE keeps.

import (
	"fmt"
	"strings"
	"sync/atomic"
	"testing"

	"github.com/mithrandie/csvq/lib/query"
	"pgregory.net/rapid"

	"verif/internal/fw"
	"verif/internal/ref"
	"verif/internal/run"
	"verif/internal/val"
)

type inlineCase struct {
	Rows        [][]val.Val `json:"rows"`
	Where       string      `json:"where,omitempty"`
	Inner       []anaCase   `json:"inner"`                  // a1, a2 (their Rows are empty); a2 may refer to a1
	SelectInner bool        `json:"select_inner,omitempty"` // the inner calls also stand in the select list (AS a1, a2)
	InnerFirst  bool        `json:"inner_first,omitempty"`  // ... before (true) or after (false) the outer calls
	Parens      bool        `json:"parens,omitempty"`       // inner calls standing as PARTITION BY / ORDER BY items are enclosed in parentheses
	Outer       []anaCase   `json:"outer"`                  // r1, r2: refer to a1 / a2 as partition item, order item or argument
	CPU         int         `json:"cpu"`
}

// numericArgFns: functions whose argument must be a number.
var numericArgFns = []string{"SUM", "AVG", "MEDIAN", "USUM", "UHASH", "STDEV", "STDEVP", "VAR", "VARP"}

// innerIntTyped: the inner call yields integers (or NULL) only.
func innerIntTyped(ic anaCase) bool {
	if isIn(ic.Fn, valueFns) || isIn(ic.Fn, lagFns) || ic.Fn == "MIN" || ic.Fn == "MAX" {
		return ic.Arg != "s"
	}
	return true
}

// useInner makes the call c refer to the inner column a (whose call is ic) in at least one role.
func useInner(t *rapid.T, c *anaCase, a string, ic anaCase) {
	roles := 0
	for try := 0; roles == 0 && try < 4; try++ {
		if chance(t, "aPartition", 40) {
			switch {
			case len(c.Partition) == 0:
				c.Partition = []string{a}
			case len(c.Partition) == 1 || chance(t, "aPartitionFirst", 50):
				c.Partition = []string{a, c.Partition[0]}
			default:
				c.Partition[1] = a
			}
			roles++
		}
		if chance(t, "aOrder", 40) && c.Fn != "COUNT_STAR" && !isIn(a, c.Partition) {
			c.Order = append([]orderItem{{Col: a, Dir: pick(t, "aDir", []string{"", "ASC", "DESC"}), Nulls: pick(t, "aNulls", []string{"", "FIRST", "LAST"})}}, c.Order...)
			if len(c.Order) > 3 {
				c.Order = append(c.Order[:2], c.Order[len(c.Order)-1])
			}
			roles++
		}
		if chance(t, "aArg", 40) && c.Arg != "" && (innerIntTyped(ic) || !isIn(c.Fn, numericArgFns)) {
			c.Arg = a
			roles++
		}
	}
	if roles == 0 {
		c.Partition = []string{a}
	}
	normalizeCall(c)
}

func genInline(t *rapid.T) inlineCase {
	large := chance(t, "large", 5)
	c := inlineCase{Rows: genRows(t, large), CPU: genCPU(t, large)}
	call := func(fns []string) anaCase {
		a := genCall(t, large, c.Rows, fns)
		a.Rows = nil
		return a
	}
	for i, n := 0, pick(t, "nInner", []int{1, 1, 1, 2, 2}); i < n; i++ {
		ic := call(innerFns)
		fixInner(t, &ic, large)
		if i == 1 && chance(t, "a2UsesA1", 50) {
			useInner(t, &ic, "a1", c.Inner[0])
			fixInner(t, &ic, large)
		}
		c.Inner = append(c.Inner, ic)
	}
	for k, n := 0, pick(t, "nOuter", []int{1, 1, 2}); k < n; k++ {
		oc := call(allFns())
		a := pick(t, "aCol", []string{"a1", "a2"}[:len(c.Inner)])
		if k == 0 && len(c.Inner) == 2 {
			a = "a2" // the deepest column is always used
		}
		useInner(t, &oc, a, c.Inner[colIdx(a)-len(cols)])
		if len(c.Inner) == 2 && chance(t, "bothInner", 25) {
			other := map[string]string{"a1": "a2", "a2": "a1"}[a]
			useInner(t, &oc, other, c.Inner[colIdx(other)-len(cols)])
		}
		c.Outer = append(c.Outer, oc)
	}
	if chance(t, "where", 40) {
		c.Where = genPred(t, "pred", false)
	}
	c.SelectInner = chance(t, "selectInner", 50)
	c.InnerFirst = chance(t, "innerFirst", 50)
	c.Parens = chance(t, "parens", 40)
	return c
}

func usesCol(c anaCase, a string) bool {
	return isIn(a, c.Partition) || hasOrderCol(c, a) || c.Arg == a
}

func inlineInDomain(c inlineCase) bool {
	if !rowsInDomain(c.Rows) || c.CPU < 1 || len(c.Inner) < 1 || len(c.Inner) > 2 || len(c.Outer) < 1 || len(c.Outer) > 2 {
		return false
	}
	if c.Where != "" && !isIn(c.Where, basePreds) {
		return false
	}
	colOK := func(name string, limit int) bool { return colIdx(name) >= 0 && colIdx(name) < limit }
	callOK := func(x anaCase, limit int) bool {
		if x.Rows != nil || !callInDomain(x) || !partitionKeysInDomain(c.Rows, x) || !argInDomain(x, true) {
			return false
		}
		if _, isCoalesce := coalesceLiteral(x.Arg); isCoalesce {
			return false
		}
		for _, p := range x.Partition {
			if !colOK(p, limit) {
				return false
			}
		}
		for _, o := range x.Order {
			if !colOK(o.Col, limit) {
				return false
			}
		}
		if (x.Arg == "a1" || x.Arg == "a2") && !colOK(x.Arg, limit) {
			return false
		}
		return true
	}
	for i, ic := range c.Inner {
		if !isIn(ic.Fn, innerFns) || !callOK(ic, len(cols)+i) {
			return false
		}
	}
	used := false
	for _, oc := range c.Outer {
		if !callOK(oc, len(cols)+len(c.Inner)) {
			return false
		}
		used = used || usesCol(oc, "a1") || usesCol(oc, "a2")
	}
	return used
}

func inlineSQL(c inlineCase) (string, map[string]string) {
	m := map[string]string{}
	for _, col := range cols {
		m[col] = col
	}
	for i, ic := range c.Inner {
		m[fmt.Sprintf("a%d", i+1)] = mappedCallSQLOpt(ic, m, c.Parens)
	}
	list := []string{strings.Join(cols, ", ")}
	var inner, outer []string
	if c.SelectInner {
		for i := range c.Inner {
			a := fmt.Sprintf("a%d", i+1)
			inner = append(inner, m[a]+" AS "+a)
		}
	}
	for k, oc := range c.Outer {
		outer = append(outer, fmt.Sprintf("%s AS r%d", mappedCallSQLOpt(oc, m, c.Parens), k+1))
	}
	if c.InnerFirst {
		list = append(append(list, inner...), outer...)
	} else {
		list = append(append(list, outer...), inner...)
	}
	sql := "SELECT " + strings.Join(list, ", ") + " FROM t"
	if c.Where != "" {
		sql += " WHERE " + c.Where
	}
	return sql, m
}

func checkInline(c inlineCase) (fw.Outcome, *fw.Violation) {
	o := fw.Outcome{}
	if !inlineInDomain(c) {
		o.Discard = true
		return o, nil
	}
	// ---- reference, inside-out ---------------------------------------------
	var ext [][]val.Val
	for _, r := range c.Rows {
		if c.Where == "" || predicates[c.Where](r) {
			ext = append(ext, append([]val.Val(nil), r...))
		}
	}
	n := len(ext)
	typedOK := func(x anaCase) bool {
		for _, ord := range x.Order {
			if colIdx(ord.Col) >= len(cols) && !oneKind(ext, colIdx(ord.Col), "") {
				return false
			}
		}
		if x.Arg == "a1" || x.Arg == "a2" {
			kind := ""
			if isIn(x.Fn, numericArgFns) {
				kind = "I"
			}
			if !oneKind(ext, colIdx(x.Arg), kind) {
				return false
			}
		}
		return true
	}
	for _, ic := range c.Inner {
		cc := ic
		cc.Rows = ext
		if !typedOK(ic) {
			o.Discard = true
			return o, nil
		}
		vals, ok := analyticUnique(cc, n)
		if !ok {
			o.Discard = true // more than one admissible inner column: outside this check
			return o, nil
		}
		for i := range ext {
			ext[i] = append(ext[i], vals[i])
		}
	}
	for _, oc := range c.Outer {
		if !typedOK(oc) {
			o.Discard = true
			return o, nil
		}
	}

	// ---- classes -------------------------------------------------------------
	depth := 2
	if len(c.Inner) == 2 && usesCol(c.Inner[1], "a1") {
		for _, oc := range c.Outer {
			if usesCol(oc, "a2") {
				depth = 3
			}
		}
	}
	roles := map[string]bool{}
	for _, x := range append(append([]anaCase(nil), c.Inner...), c.Outer...) {
		for _, a := range []string{"a1", "a2"} {
			if isIn(a, x.Partition) {
				roles["partition"] = true
			}
			if hasOrderCol(x, a) {
				roles["order"] = true
			}
			if x.Arg == a {
				roles["argument"] = true
			}
		}
	}
	roleNames := strings.Join(fw.SortedKeys(roles), "+")
	size := "small"
	if len(c.Rows) >= 160 {
		size = "large"
	}
	o.Classes = []string{fmt.Sprintf("depth:%d", depth), fmt.Sprintf("inner_calls:%d", len(c.Inner)), fmt.Sprintf("outer_calls:%d", len(c.Outer)), "inner_call_as:" + roleNames,
		fmt.Sprintf("inner_also_selected:%v", c.SelectInner), fmt.Sprintf("where:%v", c.Where != ""), fmt.Sprintf("key_items_in_parentheses:%v", c.Parens), "size:" + size}
	for _, ic := range c.Inner {
		o.Classes = append(o.Classes, "inner_fn:"+ic.Fn)
	}
	for _, oc := range c.Outer {
		o.Classes = append(o.Classes, "outer_fn:"+oc.Fn)
	}

	// ---- csvq ------------------------------------------------------------------
	s, err := run.NewSess(run.Opt{Dir: fw.WorkDir(), CPU: c.CPU})
	if err != nil {
		panic(err)
	}
	defer s.Close()
	if r := s.Exec(insertSQL("t", cols, c.Rows) + udfDecl); r.Err != nil {
		return o, fw.V("setup_error", "%v", r.Err)
	}
	sql, _ := inlineSQL(c)
	par0 := atomic.LoadInt64(&query.VerifParallelTasks)
	tbl, qerr := s.Query(sql)
	if atomic.LoadInt64(&query.VerifParallelTasks) > par0 {
		o.Classes = append(o.Classes, "ran_on_several_workers")
	}
	if qerr != nil {
		return o, fw.V("inline_error", "%s: %v", sql, qerr)
	}
	nShown := 0
	if c.SelectInner {
		nShown = len(c.Inner)
	}
	if len(tbl.Header) != len(cols)+nShown+len(c.Outer) {
		return o, fw.V("inline_result_shape", "%s: header %v", sql, tbl.Header)
	}
	if len(tbl.Rows) != n {
		return o, fw.V("inline_row_count", "%s: the reference keeps %d rows, csvq returned %d", sql, n, len(tbl.Rows))
	}
	innerAt, outerAt := len(cols), len(cols)+nShown
	if !c.InnerFirst {
		innerAt, outerAt = len(cols)+len(c.Outer), len(cols)
	}
	pos := map[string]int{}
	for i, r := range ext {
		pos[r[cID].S] = i
	}
	got := make([][]val.Val, len(c.Outer))
	for k := range got {
		got[k] = make([]val.Val, n)
	}
	seen := make([]bool, n)
	for _, r := range tbl.Rows {
		i, ok := pos[r[cID].S]
		if !ok || r[cID].K != "I" || seen[i] {
			return o, fw.V("inline_rows", "%s: output row with id %s is not among the rows the reference keeps, or repeated", sql, r[cID])
		}
		seen[i] = true
		for j := range cols {
			if r[j] != ext[i][j] {
				return o, fw.V("inline_base_column_changed", "%s: id %s column %s: %s became %s", sql, r[cID], cols[j], ext[i][j], r[j])
			}
		}
		for j := 0; j < nShown; j++ {
			if r[innerAt+j] != ext[i][len(cols)+j] {
				return o, fw.V("inline_inner_column:"+c.Inner[j].Fn, "%s: id %s column a%d: reference %s, csvq %s\n  rows(id,p1,p2,o1,o2,v,s)=%v", sql, r[cID], j+1, ext[i][len(cols)+j], r[innerAt+j], clipRows(c.Rows))
			}
		}
		for k := range c.Outer {
			got[k][i] = r[outerAt+k]
		}
	}
	for k, oc := range c.Outer {
		cc := oc
		cc.Rows = ext
		if res := analyticCheck(cc, got[k]); res.Sig != "" {
			return o, fw.V("inline_"+res.Sig, "%s\n  r%d: %s\n  rows the outer call sees (id,p1,p2,o1,o2,v,s,a1[,a2])=%v", sql, k+1, res.Msg, clipRows(ext))
		}
	}

	// ---- non-trivial -------------------------------------------------------------
	bigParts := 0
	if n > 0 {
		cc := c.Outer[0]
		cc.Rows = ext
		in := buildInput(cc)
		for _, p := range ref.AnaPartitions(in.Part, n) {
			if len(p) >= 2 {
				bigParts++
			}
		}
	}
	// the inner column must vary, otherwise the nesting decides nothing
	varies := false
	for i := 1; i < n; i++ {
		for j := len(cols); j < len(ext[i]); j++ {
			if ext[i][j] != ext[0][j] {
				varies = true
			}
		}
	}
	if bigParts >= 2 && varies {
		fns := func(cs []anaCase) string {
			var ns []string
			for _, x := range cs {
				ns = append(ns, x.Fn)
			}
			return strings.Join(ns, ",")
		}
		o.Fingerprint = fmt.Sprintf("d%d|in:%s|out:%s|as:%s|sel:%v|where:%v", depth, fns(c.Inner), fns(c.Outer), roleNames, c.SelectInner, c.Where != "")
	}
	return o, nil
}

func TestC17Inline(t *testing.T) {
	fw.Run(t, fw.Spec[inlineCase]{
		ID: "C17", Name: "inline", Quick: 4000, Thorough: 80000,
		Gen: genInline, Check: checkInline,
		Rule: "the tables of the direct check (5% with 160-230 rows and --cpu 2-4); one query SELECT cols, [a1, a2,] r1 [, r2] FROM t [WHERE base predicate] whose outer calls r1, r2 (any function of the direct check) contain 1-2 inner analytic calls a1, a2 (functions with exactly one admissible result) written out in place - as PARTITION BY item, as ORDER BY item (bare or enclosed in parentheses) or as argument; in half of the two-inner cases a2 itself contains a1 (three levels); in half of the cases the inner calls also stand in the select list, before or after the outer calls; oracle: inside-out reference over the rows WHERE keeps (a1, then a2 over the rows extended by a1, then every outer call over the rows extended by both) with the evaluator of the direct check, rows compared by id: base columns and selected inner columns exactly, outer columns as in the direct check; non-trivial = the first outer call has two or more partitions of two or more rows and an inner column takes more than one value; distinct by (depth, inner functions, outer functions, roles of the inner calls, inner calls selected, WHERE)",
		Assumptions: []string{
			"WHERE is evaluated before every analytic function of the query, the nested ones included",
			"an analytic call that stands inside another one is evaluated over the same rows as a call of the select list (manual: args, PARTITION BY and ORDER BY items are values)",
			"inner calls are restricted to calls with one admissible result of integer or value type; cases where an inner column used as ORDER BY key or numeric argument is not of one type are discarded",
			"assumptions of the direct check apply to every call",
		},
	})
}
