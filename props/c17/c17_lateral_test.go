package c17

// The analytic query as a correlated LATERAL subquery: it is evaluated once per
// row of an outer table, over the rows a correlation predicate selects for that
// outer row, and the call may refer to the outer row in its argument
// (b.v + a.id) and in the LAG / LEAD default (a.id * 100):
//
//   SELECT a.id AS aid, x.id, ..., x.r
//   FROM t a {, | CROSS JOIN | JOIN | LEFT JOIN} LATERAL
//        (SELECT b.id, ..., f(...) OVER (PARTITION BY b.. ORDER BY b..) AS r FROM t b WHERE <b vs a>) x [ON 1 = 1]
//   [WHERE <a>]
//
// Every evaluation has its own rows, partitions and frames; the scope of the
// analytic evaluation then holds the outer record below the analysed view. The
// reference evaluates the call of the direct check once per outer row.

import (
	"fmt"
	"strings"
	"sync/atomic"
	"testing"

	"github.com/mithrandie/csvq/lib/query"
	"pgregory.net/rapid"

	"verif/internal/fw"
	"verif/internal/ref"
	"verif/internal/run"
	"verif/internal/val"
)

type lateralCase struct {
	Rows         [][]val.Val `json:"rows"`
	Join         string      `json:"join"` // comma | cross | inner | left
	Corr         string      `json:"corr"`
	OuterWhere   string      `json:"outer_where,omitempty"`
	Call         anaCase     `json:"call"`                    // over the columns of b; Rows empty
	ArgOuter     bool        `json:"arg_outer,omitempty"`     // the argument v is written b.v + a.id
	DefaultOuter bool        `json:"default_outer,omitempty"` // the LAG / LEAD default is a.id * 100
	CPU          int         `json:"cpu"`
}

func bothInts(x, y val.Val) (int64, int64, bool) {
	if x.K != "I" || y.K != "I" {
		return 0, 0, false
	}
	return x.AsInt(), y.AsInt(), true
}

// correlation predicates: SQL text -> TRUE for (outer row a, inner row b); NULL operands make them UNKNOWN (row not kept)
var corrPreds = map[string]func(a, b []val.Val) bool{
	"b.p2 = a.p2":  func(a, b []val.Val) bool { x, y, ok := bothInts(b[cP2], a[cP2]); return ok && x == y },
	"b.id <= a.id": func(a, b []val.Val) bool { return b[cID].AsInt() <= a[cID].AsInt() },
	"b.id <> a.id": func(a, b []val.Val) bool { return b[cID].AsInt() != a[cID].AsInt() },
	"b.o2 = a.o2":  func(a, b []val.Val) bool { return !a[cO2].IsNull() && !b[cO2].IsNull() && a[cO2].S == b[cO2].S },
	"b.v >= a.v":   func(a, b []val.Val) bool { x, y, ok := bothInts(b[cV], a[cV]); return ok && x >= y },
	"b.o1 <= a.o1": func(a, b []val.Val) bool { x, y, ok := bothInts(b[cO1], a[cO1]); return ok && x <= y },
	"b.p2 = a.p2 AND b.id >= a.id": func(a, b []val.Val) bool {
		x, y, ok := bothInts(b[cP2], a[cP2])
		return ok && x == y && b[cID].AsInt() >= a[cID].AsInt()
	},
	"b.id % 3 = a.id % 3": func(a, b []val.Val) bool { return b[cID].AsInt()%3 == a[cID].AsInt()%3 },
}

var outerPreds = map[string]func(a []val.Val) bool{
	"a.id % 2 = 0":    func(a []val.Val) bool { return a[cID].AsInt()%2 == 0 },
	"a.id <= 4":       func(a []val.Val) bool { return a[cID].AsInt() <= 4 },
	"a.v IS NOT NULL": func(a []val.Val) bool { return !a[cV].IsNull() },
}

var lateralJoins = []string{"comma", "comma", "cross", "inner", "left", "left"}

func genLateral(t *rapid.T) lateralCase {
	c := lateralCase{CPU: pick(t, "cpu", []int{1, 1, 2, 4})}
	c.Rows = genRowsMode(t, "small", true)
	if len(c.Rows) > 10 {
		c.Rows = c.Rows[:10]
	}
	if chance(t, "mediumInner", 5) {
		c.Rows = genRowsMode(t, "medium", true)
		if len(c.Rows) > 40 {
			c.Rows = c.Rows[:40]
		}
		c.CPU = pick(t, "cpuMedium", []int{2, 4})
	}
	c.Join = pick(t, "join", lateralJoins)
	c.Corr = pick(t, "corr", fw.SortedKeys(corrPreds))
	if chance(t, "outerWhere", 30) {
		c.OuterWhere = pick(t, "outerPred", fw.SortedKeys(outerPreds))
	}
	fns := allFns()
	for i := 0; i < 3; i++ { // LAG / LEAD more often: their default may refer to the outer row
		fns = append(fns, lagFns...)
	}
	call := genCall(t, false, c.Rows, fns)
	call.Rows = nil
	c.Call = call
	if call.Arg == "v" {
		c.ArgOuter = chance(t, "argOuter", 60)
	}
	if isIn(call.Fn, lagFns) && call.HasDefault {
		c.DefaultOuter = chance(t, "defaultOuter", 60)
	}
	return c
}

func lateralInDomain(c lateralCase) bool {
	if c.CPU < 1 || !rowsInDomain(c.Rows) || colHasFloat(c.Rows, cO1) || !isIn(c.Join, lateralJoins) {
		return false
	}
	for _, r := range c.Rows {
		if r[cO1].K == "S" || (r[cO1].K == "I" && (r[cO1].AsInt() < -1000 || r[cO1].AsInt() > 1000)) {
			return false // o1 holds small integers here
		}
	}
	if _, ok := corrPreds[c.Corr]; !ok {
		return false
	}
	if _, ok := outerPreds[c.OuterWhere]; !ok && c.OuterWhere != "" {
		return false
	}
	call := c.Call
	if call.Rows != nil || !callInDomain(call) || !argInDomain(call, false) {
		return false
	}
	for _, p := range call.Partition {
		if colIdx(p) >= len(cols) {
			return false
		}
	}
	for _, o := range call.Order {
		if colIdx(o.Col) >= len(cols) {
			return false
		}
	}
	if c.ArgOuter && call.Arg != "v" {
		return false
	}
	if c.DefaultOuter && !(isIn(call.Fn, lagFns) && call.HasK && call.HasDefault) {
		return false
	}
	return true
}

func lateralSQL(c lateralCase) string {
	m := map[string]string{}
	for _, col := range cols {
		m[col] = "b." + col
	}
	d := c.Call
	callSQL := mappedCallSQL(d, m)
	if c.ArgOuter {
		m2 := map[string]string{}
		for k, v := range m {
			m2[k] = v
		}
		m2["v"] = "b.v + a.id"
		callSQL = mappedCallSQL(d, m2)
	}
	if c.DefaultOuter {
		// the default literal is the third argument of LAG / LEAD: replace it by an expression over the outer row
		lit := ", " + c.Call.Default.SQL() + ")"
		if i := strings.Index(callSQL, lit); i >= 0 {
			callSQL = callSQL[:i] + ", a.id * 100)" + callSQL[i+len(lit):]
		}
	}
	var inner, outer []string
	for _, col := range cols {
		inner = append(inner, "b."+col)
		outer = append(outer, "x."+col)
	}
	sub := "LATERAL (SELECT " + strings.Join(inner, ", ") + ", " + callSQL + " AS r FROM t b WHERE " + c.Corr + ") x"
	sql := "SELECT a.id AS aid, " + strings.Join(outer, ", ") + ", x.r FROM t a"
	switch c.Join {
	case "cross":
		sql += " CROSS JOIN " + sub
	case "inner":
		sql += " JOIN " + sub + " ON 1 = 1"
	case "left":
		sql += " LEFT JOIN " + sub + " ON 1 = 1"
	default:
		sql += ", " + sub
	}
	if c.OuterWhere != "" {
		sql += " WHERE " + c.OuterWhere
	}
	return sql
}

func checkLateral(c lateralCase) (fw.Outcome, *fw.Violation) {
	o := fw.Outcome{}
	if !lateralInDomain(c) {
		o.Discard = true
		return o, nil
	}
	sql := lateralSQL(c)
	if c.DefaultOuter && !strings.Contains(sql, ", a.id * 100)") {
		o.Discard = true
		return o, nil
	}
	// ---- reference: the rows of every evaluation ---------------------------------
	type evaluation struct {
		a     []val.Val
		inner [][]val.Val
	}
	var evals []evaluation
	wantRows := 0
	distinctSets := map[string]bool{}
	for _, a := range c.Rows {
		if c.OuterWhere != "" && !outerPreds[c.OuterWhere](a) {
			continue
		}
		ev := evaluation{a: a}
		var ids []string
		for _, b := range c.Rows {
			if corrPreds[c.Corr](a, b) {
				ev.inner = append(ev.inner, b)
				ids = append(ids, b[cID].S)
			}
		}
		switch {
		case len(ev.inner) > 0:
			wantRows += len(ev.inner)
		case c.Join == "left":
			wantRows++
		}
		if len(ev.inner) >= 2 {
			distinctSets[strings.Join(ids, ",")] = true
		}
		evals = append(evals, ev)
	}
	o.Classes = []string{"join:" + c.Join, "corr:" + c.Corr, "fn:" + c.Call.Fn, fmt.Sprintf("argument_refers_to_outer_row:%v", c.ArgOuter), fmt.Sprintf("default_refers_to_outer_row:%v", c.DefaultOuter),
		fmt.Sprintf("outer_where:%v", c.OuterWhere != ""), "frame:" + c.Call.Frame.Shape(), fmt.Sprintf("cpu:%d", c.CPU)}
	switch {
	case len(distinctSets) >= 3:
		o.Classes = append(o.Classes, "evaluations_over_different_row_sets:3_or_more")
	case len(distinctSets) == 2:
		o.Classes = append(o.Classes, "evaluations_over_different_row_sets:2")
	}

	// ---- csvq -----------------------------------------------------------------------
	s, err := run.NewSess(run.Opt{Dir: fw.WorkDir(), CPU: c.CPU})
	if err != nil {
		panic(err)
	}
	defer s.Close()
	if r := s.Exec(insertSQL("t", cols, c.Rows) + udfDecl); r.Err != nil {
		return o, fw.V("setup_error", "%v", r.Err)
	}
	par0 := atomic.LoadInt64(&query.VerifParallelTasks)
	tbl, qerr := s.Query(sql)
	if atomic.LoadInt64(&query.VerifParallelTasks) > par0 {
		o.Classes = append(o.Classes, "ran_on_several_workers")
	}
	if qerr != nil {
		return o, fw.V("lateral_error", "%s: %v", sql, qerr)
	}
	if len(tbl.Header) != len(cols)+2 {
		return o, fw.V("lateral_result_shape", "%s: header %v", sql, tbl.Header)
	}
	if len(tbl.Rows) != wantRows {
		return o, fw.V("lateral_row_count", "%s: the reference has %d rows, csvq returned %d\n  rows(id,p1,p2,o1,o2,v,s)=%v", sql, wantRows, len(tbl.Rows), clipRows(c.Rows))
	}
	byOuter := map[string][][]val.Val{}
	for _, r := range tbl.Rows {
		if r[0].K != "I" {
			return o, fw.V("lateral_rows", "%s: outer id %s", sql, r[0])
		}
		byOuter[r[0].S] = append(byOuter[r[0].S], r)
	}
	nontrivial := false
	for _, ev := range evals {
		aid := ev.a[cID].S
		rows := byOuter[aid]
		delete(byOuter, aid)
		n := len(ev.inner)
		if n == 0 {
			if c.Join == "left" {
				if len(rows) != 1 {
					return o, fw.V("lateral_rows", "%s: outer row %s has no inner rows: LEFT JOIN must keep it once, csvq returned %d rows", sql, aid, len(rows))
				}
				for j := 1; j < len(rows[0]); j++ {
					if !rows[0][j].IsNull() {
						return o, fw.V("lateral_rows", "%s: outer row %s has no inner rows: column #%d is %s", sql, aid, j, rows[0][j])
					}
				}
			} else if len(rows) != 0 {
				return o, fw.V("lateral_rows", "%s: outer row %s has no inner rows, csvq returned %d", sql, aid, len(rows))
			}
			continue
		}
		if len(rows) != n {
			return o, fw.V("lateral_rows", "%s: outer row %s: the reference selects %d inner rows, csvq returned %d", sql, aid, n, len(rows))
		}
		pos := map[string]int{}
		for i, b := range ev.inner {
			pos[b[cID].S] = i
		}
		got := make([]val.Val, n)
		seen := make([]bool, n)
		for _, r := range rows {
			i, ok := pos[r[1+cID].S]
			if !ok || r[1+cID].K != "I" || seen[i] {
				return o, fw.V("lateral_rows", "%s: outer row %s: inner row with id %s is not selected by the reference, or repeated", sql, aid, r[1+cID])
			}
			seen[i] = true
			for j := range cols {
				if r[1+j] != ev.inner[i][j] {
					return o, fw.V("lateral_base_column_changed", "%s: outer row %s, inner id %s column %s: %s became %s", sql, aid, r[1+cID], cols[j], ev.inner[i][j], r[1+j])
				}
			}
			got[i] = r[1+len(cols)]
		}
		call := c.Call
		call.Rows = ev.inner
		in := buildInput(call)
		if c.ArgOuter {
			for i, b := range ev.inner {
				if b[cV].IsNull() {
					in.Arg[i] = val.Null
				} else {
					in.Arg[i] = val.Int(b[cV].AsInt() + ev.a[cID].AsInt())
				}
			}
		}
		if c.DefaultOuter {
			in.Default = val.Int(ev.a[cID].AsInt() * 100)
		}
		if res := analyticCheckIn(call, in, got); res.Sig != "" {
			return o, fw.V("lateral_"+res.Sig, "%s\n  evaluation for the outer row with id %s: %s\n  rows the call sees (id,p1,p2,o1,o2,v,s)=%v", sql, aid, res.Msg, clipRows(ev.inner))
		}
		for _, p := range ref.AnaPartitions(in.Part, n) {
			if len(p) >= 2 {
				nontrivial = true
			}
		}
	}
	if len(byOuter) > 0 {
		return o, fw.V("lateral_rows", "%s: rows for outer ids %v, which the reference does not keep", sql, fw.SortedKeys(byOuter))
	}
	if nontrivial && len(distinctSets) >= 2 {
		o.Fingerprint = fmt.Sprintf("%s|%s|%s|arg:%v|def:%v|%s|pk%d|where:%v", c.Join, c.Corr, c.Call.Fn, c.ArgOuter, c.DefaultOuter, c.Call.Frame.Shape(), len(c.Call.Partition), c.OuterWhere != "")
	}
	return o, nil
}

func TestC17Lateral(t *testing.T) {
	fw.Run(t, fw.Spec[lateralCase]{
		ID: "C17", Name: "lateral", Quick: 3000, Thorough: 60000,
		Gen: genLateral, Check: checkLateral,
		Rule: "temporary table t of 1-10 rows (5%: up to 40 rows, --cpu 2-4) joined to itself: FROM t a {, | CROSS JOIN | JOIN .. ON 1 = 1 | LEFT JOIN .. ON 1 = 1} LATERAL (SELECT b.*, call AS r FROM t b WHERE correlation) x [WHERE predicate on a], with one analytic call of the direct check over the columns of b; the correlation compares b with the outer row a (b.p2 = a.p2, b.id <= a.id, b.id <> a.id, b.o2 = a.o2, b.v >= a.v, b.o1 <= a.o1, a conjunction, equal id % 3), so every outer row evaluates the call over its own set of rows; in 60% of the calls with argument v the argument is b.v + a.id and in 60% of the LAG / LEAD calls with a default the default is a.id * 100 (both refer to the outer record from inside the analytic evaluation); oracle: per outer row the reference selects the inner rows (three-valued: a NULL operand keeps nothing; LEFT JOIN keeps an outer row without inner rows once with NULLs, the other joins drop it), the rows are compared by (outer id, inner id), base columns exactly and the call's column with the evaluator of the direct check applied to that evaluation's rows, argument and default; non-trivial = two or more outer rows see different sets of two or more inner rows and some evaluation has a partition of two or more rows; distinct by (join form, correlation, function, outer argument, outer default, frame shape, #partition items, outer WHERE)",
		Assumptions: []string{
			"o1 holds small integers here; the correlation predicates compare integers with integers and lowercase words with lowercase words, NULL operands give UNKNOWN (row not selected)",
			"inside one evaluation of the LATERAL subquery the outer row is fixed: an argument or LAG / LEAD default that refers to it is a constant of that evaluation",
			"assumptions and open readings of the direct check apply to the call",
		},
	})
}
