package c17

// Nested / multi-call shapes of the analytic property: the source of the
// analytic query may be a derived table or CTE that itself carries analytic
// columns (optionally with WHERE / ORDER BY id + LIMIT / OFFSET), the outer
// query may filter with WHERE, and its select list holds one to three analytic
// calls that share PARTITION BY / ORDER BY columns with each other and with the
// inner calls (including the inner analytic column itself). The reference
// evaluates inside-out with the evaluator of the direct check.

import (
	"fmt"
	"sort"
	"strings"
	"sync/atomic"
	"testing"

	"github.com/mithrandie/csvq/lib/query"
	"pgregory.net/rapid"

	"verif/internal/fw"
	"verif/internal/ref"
	"verif/internal/run"
	"verif/internal/val"
)

type nestedCase struct {
	Rows          [][]val.Val `json:"rows"`
	Form          string      `json:"form"`                 // table | derived | cte
	Inner         []anaCase   `json:"inner,omitempty"`      // analytic columns a1, a2 of the inner query (their Rows are empty)
	InnerList     string      `json:"inner_list,omitempty"` // star | list | perm
	InnerPerm     []int       `json:"inner_perm,omitempty"` // perm: order of the base columns in the inner select list
	InnerWhere    string      `json:"inner_where,omitempty"`
	InnerOrder    string      `json:"inner_order,omitempty"` // "", ASC, DESC: ORDER BY id in the inner query
	HasInnerLimit bool        `json:"has_inner_limit,omitempty"`
	InnerLimit    int         `json:"inner_limit,omitempty"`
	InnerOffset   int         `json:"inner_offset,omitempty"`
	OuterWhere    string      `json:"outer_where,omitempty"`
	Outer         []anaCase   `json:"outer"` // analytic calls r1.. of the outer select list (their Rows are empty)
	CPU           int         `json:"cpu"`
}

// predicates usable in WHERE: SQL text -> evaluation (TRUE only keeps the row)
var predicates = map[string]func(r []val.Val) bool{
	"v IS NOT NULL": func(r []val.Val) bool { return !r[cV].IsNull() },
	"s IS NULL":     func(r []val.Val) bool { return r[cS].IsNull() },
	"o1 >= 0": func(r []val.Val) bool { // integers (also spelled as strings) compare as integers, floats as floats
		if i, ok := ref.AsInteger(r[cO1]); ok {
			return i >= 0
		}
		f, ok := ref.AsFloat(r[cO1])
		return ok && f >= 0
	},
	"p2 = 0":      func(r []val.Val) bool { return !r[cP2].IsNull() && r[cP2].AsInt() == 0 },
	"id % 2 = 0":  func(r []val.Val) bool { return r[cID].AsInt()%2 == 0 },
	"id % 3 <> 0": func(r []val.Val) bool { return r[cID].AsInt()%3 != 0 },
	"id > 2":      func(r []val.Val) bool { return r[cID].AsInt() > 2 },
	// outer only (need an inner analytic column)
	"a1 IS NOT NULL": func(r []val.Val) bool { return !r[len(cols)].IsNull() },
	"a1 IS NULL":     func(r []val.Val) bool { return r[len(cols)].IsNull() },
}

var basePreds = []string{"v IS NOT NULL", "s IS NULL", "o1 >= 0", "p2 = 0", "id % 2 = 0", "id % 3 <> 0", "id > 2"}

// inner calls: functions whose result column is unique under the model and
// integer- or value-typed (usable as partition / order key of the outer call)
var innerFns = []string{"ROW_NUMBER", "NTILE", "RANK", "DENSE_RANK", "COUNT", "COUNT_STAR", "MIN", "MAX", "USUM", "UHASH",
	"FIRST_VALUE", "LAST_VALUE", "NTH_VALUE", "LAG", "LEAD"}

func hasOrderCol(c anaCase, col string) bool {
	for _, o := range c.Order {
		if o.Col == col {
			return true
		}
	}
	return false
}

// normalizeCall re-establishes the domain rules of a call after its clauses were edited.
func normalizeCall(c *anaCase) {
	var ps []string
	for _, p := range c.Partition {
		if !isIn(p, ps) && len(ps) < 2 {
			ps = append(ps, p)
		}
	}
	c.Partition = ps
	var os []orderItem
	idItem := orderItem{Col: "id"}
	hadID := false
	for _, o := range c.Order {
		if o.Col == "id" {
			idItem, hadID = o, true
			continue
		}
		dup := o.Col == "p1"
		for _, x := range os {
			if x.Col == o.Col {
				dup = true
			}
		}
		if !dup {
			os = append(os, o)
		}
	}
	c.Order = os
	frameable := isIn(c.Fn, valueFns) || isIn(c.Fn, aggFns)
	orderDependent := frameable || isIn(c.Fn, listFns)
	switch {
	case c.Fn == "COUNT_STAR":
		c.Order = nil
	case isIn(c.Fn, lagFns) || c.Fn == "UHASH" || (orderDependent && (len(c.Order) > 0 || hadID)) || hadID:
		c.Order = append(c.Order, idItem)
	}
	if len(c.Order) == 0 || !frameable {
		c.Frame = ref.AnaFrame{}
	}
}

// fixInner restricts a generated call to the shapes with one admissible result column.
func fixInner(t *rapid.T, c *anaCase, large bool) {
	switch {
	case isIn(c.Fn, numberFns):
		if !hasOrderCol(*c, "id") {
			c.Order = append(c.Order, orderItem{Col: "id"})
		}
	case c.Fn == "RANK" || c.Fn == "DENSE_RANK":
		if len(c.Order) == 0 {
			c.Order = append(c.Order, orderItem{Col: "o1"})
		}
	case isIn(c.Fn, valueFns):
		if !hasOrderCol(*c, "id") {
			c.Order = append(c.Order, orderItem{Col: "id"})
		}
		if c.Frame.Mode == "" {
			c.Frame = genFrame(t, large, false)
		}
	case isIn(c.Fn, lagFns):
		c.IgnoreNulls, c.HasDefault, c.Default = false, false, val.Null
	}
	normalizeCall(c)
}

func genPred(t *rapid.T, label string, withA1 bool) string {
	ps := basePreds
	if withA1 {
		ps = append(append([]string(nil), basePreds...), "a1 IS NOT NULL", "a1 IS NOT NULL", "a1 IS NULL")
	}
	return pick(t, label, ps)
}

func genNested(t *rapid.T) nestedCase {
	large := chance(t, "large", 10)
	c := nestedCase{Rows: genRows(t, large), CPU: genCPU(t, large)}
	c.Form = pick(t, "form", []string{"table", "derived", "derived", "derived", "cte", "cte"})
	call := func(fns []string) anaCase {
		a := genCall(t, large, c.Rows, fns)
		a.Rows = nil
		return a
	}
	if c.Form != "table" {
		for i, n := 0, pick(t, "nInner", []int{0, 1, 1, 1, 1, 2, 2}); i < n; i++ {
			ic := call(innerFns)
			fixInner(t, &ic, large)
			c.Inner = append(c.Inner, ic)
		}
		c.InnerList = pick(t, "innerList", []string{"list", "list", "star", "perm"})
		if c.InnerList == "perm" {
			c.InnerPerm = rapid.Permutation([]int{0, 1, 2, 3, 4, 5, 6}).Draw(t, "innerPerm")
		}
		if chance(t, "innerWhere", 30) {
			c.InnerWhere = genPred(t, "innerPred", false)
		}
		if chance(t, "innerOrder", 55) {
			c.InnerOrder = pick(t, "innerOrderDir", []string{"ASC", "ASC", "DESC"})
			n := len(c.Rows)
			if chance(t, "innerOffset", 75) {
				c.InnerOffset = intRange(t, "offset", 1, 1+n/3)
			}
			if chance(t, "innerLimit", 35) {
				c.HasInnerLimit = true
				c.InnerLimit = intRange(t, "limit", 0, n+1)
			}
		}
	}
	if chance(t, "outerWhere", 50) {
		c.OuterWhere = genPred(t, "outerPred", len(c.Inner) > 0)
	}

	if chance(t, "nearDuplicates", 20) {
		c.Outer = genNearDuplicates(t, call)
		return c
	}
	nOuter := pick(t, "nOuter", []int{1, 2, 2, 3})
	for k := 0; k < nOuter; k++ {
		oc := call(allFns())
		if k > 0 && chance(t, "shareWindow", 60) {
			oc.Partition = append([]string(nil), c.Outer[0].Partition...)
			oc.Order = append([]orderItem(nil), c.Outer[0].Order...)
		}
		if len(c.Inner) > 0 && (k == 0 || chance(t, "linkInner", 50)) {
			ic := c.Inner[uni(t, "whichInner", len(c.Inner))]
			if chance(t, "innerPartition", 65) && len(ic.Partition) > 0 {
				oc.Partition = append([]string(nil), ic.Partition...)
			}
			if chance(t, "innerOrderCols", 40) {
				for _, o := range ic.Order {
					if o.Col != "id" && !hasOrderCol(oc, o.Col) && len(oc.Order) < 3 {
						oc.Order = append([]orderItem{o}, oc.Order...)
					}
				}
			}
			a := pick(t, "aCol", []string{"a1", "a2"}[:len(c.Inner)])
			if chance(t, "aPartition", 35) {
				if len(oc.Partition) == 2 {
					oc.Partition[1] = a
				} else {
					oc.Partition = append(oc.Partition, a)
				}
			}
			if chance(t, "aOrder", 35) && oc.Fn != "COUNT_STAR" {
				oc.Order = append([]orderItem{{Col: a, Dir: pick(t, "aDir", []string{"", "DESC"}), Nulls: pick(t, "aNulls", []string{"", "FIRST", "LAST"})}}, oc.Order...)
			}
			if chance(t, "aArg", 30) && oc.Arg != "" {
				inner := c.Inner[colIdx(a)-len(cols)]
				intTyped := !(isIn(inner.Fn, valueFns) || isIn(inner.Fn, lagFns) || inner.Fn == "MIN" || inner.Fn == "MAX") || inner.Arg != "s"
				if intTyped || !isIn(oc.Fn, []string{"SUM", "AVG", "MEDIAN", "USUM", "UHASH", "STDEV", "STDEVP", "VAR", "VARP"}) {
					oc.Arg = a
				}
			}
		}
		normalizeCall(&oc)
		c.Outer = append(c.Outer, oc)
	}
	return c
}

// genNearDuplicates: 2-3 calls with the same function and window that differ only in one literal
// (letter case, edge blanks, quoting, numeric spelling): the LAG/LEAD default, the LISTAGG separator
// or the literal of a COALESCE(s, literal) argument. Each is a call of its own.
func genNearDuplicates(t *rapid.T, call func(fns []string) anaCase) []anaCase {
	kind := pick(t, "dupKind", []string{"lag_default_text", "lag_default_number", "listagg_separator", "coalesce_argument", "coalesce_argument", "clause", "clause", "clause"})
	var base anaCase
	var variants []func(c *anaCase)
	setDefault := func(v val.Val) func(c *anaCase) { return func(c *anaCase) { c.Default = v } }
	switch kind {
	case "clause":
		return genClauseDuplicates(t, call)
	case "lag_default_text", "lag_default_number":
		base = call(lagFns)
		base.HasK, base.HasDefault, base.IgnoreNulls = true, true, false
		base.K = pick(t, "dupOffset", []int{1, 1, 2})
		vals := []val.Val{val.Str("zz"), val.Str("ZZ"), val.Str("Zz"), val.Str("zz "), val.Str(" zz")}
		if kind == "lag_default_number" {
			vals = []val.Val{val.Int(1), val.Float(1), val.Str("1"), val.Int(-1), val.Float(-1), val.Str("-1")}
		}
		for _, v := range vals {
			variants = append(variants, setDefault(v))
		}
	case "listagg_separator":
		base = call([]string{"LISTAGG"})
		base.HasSep = true
		for _, sep := range []string{"x", "X", " x", "x ", "xy", "Xy"} {
			sep := sep
			variants = append(variants, func(c *anaCase) { c.Sep = sep })
		}
	default:
		base = call([]string{"FIRST_VALUE", "LAST_VALUE", "NTH_VALUE", "LAG", "LEAD", "LISTAGG", "JSON_AGG", "COUNT"})
		base.Distinct = false
		if isIn(base.Fn, lagFns) && base.HasDefault && base.Default.K == "I" {
			base.Default = val.Str("zz") // keep the result column of one type
		}
		for _, l := range coalesceLits {
			l := l
			variants = append(variants, func(c *anaCase) { c.Arg = "COALESCE(s, " + l + ")" })
		}
	}
	normalizeCall(&base)
	n := pick(t, "nDup", []int{2, 2, 3})
	order := rapid.Permutation(variants).Draw(t, "dupVariants")
	var out []anaCase
	for i := 0; i < n && i < len(order); i++ {
		c := base
		c.Partition = append([]string(nil), base.Partition...)
		c.Order = append([]orderItem(nil), base.Order...)
		order[i](&c)
		out = append(out, c)
	}
	return out
}

// clauseFrames: windowing clauses that differ in one bound, one offset or only in their spelling.
var clauseFrames = []ref.AnaFrame{
	{},
	{Mode: "single", Lo: ref.AnaBound{Kind: "UP"}},
	{Mode: "single", Lo: ref.AnaBound{Kind: "P", N: 1}},
	{Mode: "single", Lo: ref.AnaBound{Kind: "P", N: 2}},
	{Mode: "between", Lo: ref.AnaBound{Kind: "P", N: 1}, Hi: ref.AnaBound{Kind: "C"}},
	{Mode: "between", Lo: ref.AnaBound{Kind: "P", N: 1}, Hi: ref.AnaBound{Kind: "F", N: 1}},
	{Mode: "between", Lo: ref.AnaBound{Kind: "P", N: 1}, Hi: ref.AnaBound{Kind: "F", N: 2}},
	{Mode: "between", Lo: ref.AnaBound{Kind: "C"}, Hi: ref.AnaBound{Kind: "F", N: 1}},
	{Mode: "between", Lo: ref.AnaBound{Kind: "UP"}, Hi: ref.AnaBound{Kind: "F", N: 1}},
	{Mode: "between", Lo: ref.AnaBound{Kind: "P", N: 1}, Hi: ref.AnaBound{Kind: "UF"}},
}

func cloneCall(c anaCase) anaCase {
	d := c
	d.Partition = append([]string(nil), c.Partition...)
	d.Order = append([]orderItem(nil), c.Order...)
	return d
}

// genClauseDuplicates: 2-3 calls of one function over one window that differ in one clause element only: the
// windowing clause, IGNORE NULLS, DISTINCT, the direction or the NULLS position of an ORDER BY item, the numeric
// argument (NTILE groups, NTH_VALUE n, LAG / LEAD offset) or the order of the PARTITION BY items. Each is a call of
// its own with its own result column.
func genClauseDuplicates(t *rapid.T, call func(fns []string) anaCase) []anaCase {
	what := pick(t, "clauseKind", []string{"frame", "frame", "frame", "ignore_nulls", "distinct", "order_direction", "nulls_position", "number", "partition_order"})
	var base anaCase
	var variants []func(c *anaCase)
	switch what {
	case "frame":
		base = call(append(append([]string(nil), valueFns...), aggFnsNumeric()...))
		if !hasOrderCol(base, "id") {
			base.Order = append(base.Order, orderItem{Col: "id"})
		}
		for _, f := range clauseFrames {
			f := f
			variants = append(variants, func(c *anaCase) { c.Frame = f })
		}
	case "ignore_nulls":
		base = call(append(append([]string(nil), valueFns...), lagFns...))
		if isIn(base.Fn, lagFns) && base.HasK && base.K == 0 {
			base.K = 1
		}
		variants = []func(c *anaCase){func(c *anaCase) { c.IgnoreNulls = false }, func(c *anaCase) { c.IgnoreNulls = true }}
	case "distinct":
		base = call([]string{"COUNT", "SUM", "AVG", "MEDIAN", "USUM", "LISTAGG", "JSON_AGG", "STDEVP", "VARP"})
		variants = []func(c *anaCase){func(c *anaCase) { c.Distinct = false }, func(c *anaCase) { c.Distinct = true }}
	case "order_direction", "nulls_position":
		base = call(allFns())
		if base.Fn == "COUNT_STAR" {
			base.Fn, base.Arg = "COUNT", "v"
		}
		if len(base.Order) == 0 || base.Order[0].Col == "id" {
			base.Order = append([]orderItem{{Col: pick(t, "clauseOrderCol", []string{"o1", "o2"})}}, base.Order...)
		}
		if what == "order_direction" {
			for _, d := range []string{"", "ASC", "DESC"} {
				d := d
				variants = append(variants, func(c *anaCase) { c.Order[0].Dir = d })
			}
		} else {
			for _, np := range []string{"", "FIRST", "LAST"} {
				np := np
				variants = append(variants, func(c *anaCase) { c.Order[0].Nulls = np })
			}
		}
	case "number":
		base = call([]string{"NTILE", "NTH_VALUE", "LAG", "LEAD"})
		base.HasK, base.IgnoreNulls = true, false
		for _, k := range []int{1, 2, 3} {
			k := k
			variants = append(variants, func(c *anaCase) { c.K = k })
		}
	default: // partition_order
		base = call(allFns())
		base.Partition = []string{"p1", "p2"}
		variants = []func(c *anaCase){func(c *anaCase) { c.Partition = []string{"p1", "p2"} }, func(c *anaCase) { c.Partition = []string{"p2", "p1"} }}
	}
	normalizeCall(&base)
	n := pick(t, "nClauseDup", []int{2, 2, 3})
	order := rapid.Permutation(variants).Draw(t, "clauseVariants")
	var out []anaCase
	for i := 0; i < len(order) && len(out) < n; i++ {
		c := cloneCall(base)
		order[i](&c)
		normalizeCall(&c)
		dup := false
		for _, x := range out {
			if fnSQL(x) == fnSQL(c) {
				dup = true
			}
		}
		if !dup {
			out = append(out, c)
		}
	}
	return out
}

// clauseDiff: the two calls are the same function and differ in one clause element only; the result names it.
func clauseDiff(a, b anaCase) (string, bool) {
	if a.Fn != b.Fn || fnSQL(a) == fnSQL(b) {
		return "", false
	}
	same := func(f func(c *anaCase)) bool {
		x, y := cloneCall(a), cloneCall(b)
		f(&x)
		f(&y)
		return fnSQL(x) == fnSQL(y)
	}
	switch {
	case same(func(c *anaCase) { c.Frame = ref.AnaFrame{} }):
		return "frame", true
	case same(func(c *anaCase) { c.IgnoreNulls = false }):
		return "ignore_nulls", true
	case same(func(c *anaCase) { c.Distinct = false }):
		return "distinct", true
	case same(func(c *anaCase) {
		for i := range c.Order {
			c.Order[i].Dir = ""
		}
	}):
		return "order_direction", true
	case same(func(c *anaCase) {
		for i := range c.Order {
			c.Order[i].Nulls = ""
		}
	}):
		return "nulls_position", true
	case same(func(c *anaCase) { c.K = 1 }):
		return "number", true
	case same(func(c *anaCase) { sort.Strings(c.Partition) }):
		return "partition_order", true
	}
	return "", false
}

// nearDuplicate: the two calls are the same except for a literal or one clause element; the result names what differs.
func nearDuplicate(a, b anaCase) (string, bool) {
	x, y := a, b
	x.Default, y.Default = val.Null, val.Null
	x.Sep, y.Sep = "", ""
	x.Arg, y.Arg = "", ""
	if fnSQL(x) != fnSQL(y) || fnSQL(a) == fnSQL(b) {
		if what, ok := clauseDiff(a, b); ok {
			return "clause_" + what, true
		}
		return "", false
	}
	diff := func(p, q string) string {
		switch {
		case strings.EqualFold(p, q):
			return "letter_case"
		case strings.TrimSpace(p) == strings.TrimSpace(q):
			return "blanks"
		case strings.EqualFold(strings.TrimSpace(p), strings.TrimSpace(q)):
			return "letter_case+blanks"
		}
		return "other"
	}
	switch {
	case a.Arg != b.Arg:
		la, ok1 := coalesceLiteral(a.Arg)
		lb, ok2 := coalesceLiteral(b.Arg)
		if !ok1 || !ok2 {
			return "", false
		}
		if la == lb {
			return "quoting", true
		}
		return diff(la, lb), true
	case a.Sep != b.Sep:
		return diff(a.Sep, b.Sep), true
	case a.Default != b.Default:
		if a.Default.K == "S" && b.Default.K == "S" {
			if fa, ok := ref.AsFloat(a.Default); ok {
				if fb, ok := ref.AsFloat(b.Default); ok && fa == fb {
					return "numeric_spelling", true
				}
			}
			return diff(a.Default.S, b.Default.S), true
		}
		fa, ok1 := ref.AsFloat(a.Default)
		fb, ok2 := ref.AsFloat(b.Default)
		if ok1 && ok2 && fa == fb {
			return "numeric_spelling", true
		}
		return "other", true
	}
	return "", false
}

func selectList(perm []int) string {
	names := make([]string, len(perm))
	for i, j := range perm {
		names[i] = cols[j]
	}
	return strings.Join(names, ", ")
}

func nestedSQL(c nestedCase) string {
	var outer []string
	outer = append(outer, strings.Join(cols, ", "))
	for i := range c.Inner {
		outer = append(outer, fmt.Sprintf("a%d", i+1))
	}
	for i, oc := range c.Outer {
		outer = append(outer, fmt.Sprintf("%s AS r%d", fnSQL(oc), i+1))
	}
	where := ""
	if c.OuterWhere != "" {
		where = " WHERE " + c.OuterWhere
	}
	if c.Form == "table" {
		return "SELECT " + strings.Join(outer, ", ") + " FROM t" + where
	}
	var list string
	switch c.InnerList {
	case "star":
		list = "*"
	case "perm":
		list = selectList(c.InnerPerm)
	default:
		list = strings.Join(cols, ", ")
	}
	inner := "SELECT " + list
	for i, ic := range c.Inner {
		inner += fmt.Sprintf(", %s AS a%d", fnSQL(ic), i+1)
	}
	inner += " FROM t"
	if c.InnerWhere != "" {
		inner += " WHERE " + c.InnerWhere
	}
	if c.InnerOrder != "" {
		inner += " ORDER BY id " + c.InnerOrder
		if c.HasInnerLimit {
			inner += fmt.Sprintf(" LIMIT %d", c.InnerLimit)
		}
		if c.InnerOffset > 0 {
			inner += fmt.Sprintf(" OFFSET %d", c.InnerOffset)
		}
	}
	if c.Form == "cte" {
		return "WITH d AS (" + inner + ") SELECT " + strings.Join(outer, ", ") + " FROM d" + where
	}
	return "SELECT " + strings.Join(outer, ", ") + " FROM (" + inner + ") AS d" + where
}

func nestedInDomain(c nestedCase) bool {
	if !rowsInDomain(c.Rows) || c.CPU < 1 || len(c.Outer) < 1 || len(c.Outer) > 3 || len(c.Inner) > 2 {
		return false
	}
	switch c.Form {
	case "table":
		if len(c.Inner) > 0 || c.InnerWhere != "" || c.InnerOrder != "" {
			return false
		}
	case "derived", "cte":
	default:
		return false
	}
	if c.InnerList == "perm" {
		seen := map[int]bool{}
		for _, j := range c.InnerPerm {
			if j < 0 || j >= len(cols) || seen[j] {
				return false
			}
			seen[j] = true
		}
		if len(seen) != len(cols) {
			return false
		}
	}
	if c.InnerOrder == "" && (c.HasInnerLimit || c.InnerOffset != 0) {
		return false // without ORDER BY the rows LIMIT / OFFSET keep are not determined
	}
	if c.InnerOffset < 0 || c.InnerLimit < 0 {
		return false
	}
	if c.InnerWhere != "" && !isIn(c.InnerWhere, basePreds) {
		return false
	}
	if c.OuterWhere != "" {
		if _, ok := predicates[c.OuterWhere]; !ok || (!isIn(c.OuterWhere, basePreds) && len(c.Inner) == 0) {
			return false
		}
	}
	colOK := func(name string, limit int) bool { return colIdx(name) >= 0 && colIdx(name) < limit }
	for _, ic := range c.Inner {
		if !callInDomain(ic) || !isIn(ic.Fn, innerFns) || !(ic.Arg == "" || ic.Arg == "v" || ic.Arg == "s" || ic.Arg == "v + 100") {
			return false
		}
		for _, p := range ic.Partition {
			if !colOK(p, len(cols)) {
				return false
			}
		}
		for _, o := range ic.Order {
			if !colOK(o.Col, len(cols)) {
				return false
			}
		}
	}
	for _, ic := range c.Inner {
		if !partitionKeysInDomain(c.Rows, ic) {
			return false
		}
	}
	for _, oc := range c.Outer {
		if !callInDomain(oc) || !partitionKeysInDomain(c.Rows, oc) {
			return false
		}
		lim := len(cols) + len(c.Inner)
		for _, p := range oc.Partition {
			if !colOK(p, lim) {
				return false
			}
		}
		for _, o := range oc.Order {
			if !colOK(o.Col, lim) {
				return false
			}
		}
		if !argInDomain(oc, true) || ((oc.Arg == "a1" || oc.Arg == "a2") && !colOK(oc.Arg, lim)) {
			return false
		}
	}
	return true
}

// oneKind: the non-null values of the column have one type.
func oneKind(rows [][]val.Val, idx int, kind string) bool {
	k := kind
	for _, r := range rows {
		if r[idx].IsNull() {
			continue
		}
		if k == "" {
			k = r[idx].K
		}
		if r[idx].K != k {
			return false
		}
	}
	return true
}

func sharesCols(a, b anaCase) bool {
	for _, p := range a.Partition {
		if isIn(p, b.Partition) || hasOrderCol(b, p) {
			return true
		}
	}
	for _, o := range a.Order {
		if o.Col != "id" && (isIn(o.Col, b.Partition) || hasOrderCol(b, o.Col)) {
			return true
		}
	}
	return false
}

func checkNested(c nestedCase) (fw.Outcome, *fw.Violation) {
	o := fw.Outcome{}
	if !nestedInDomain(c) {
		o.Discard = true
		return o, nil
	}
	// ---- reference, inside-out -------------------------------------------
	s1 := c.Rows
	if c.InnerWhere != "" {
		s1 = nil
		for _, r := range c.Rows {
			if predicates[c.InnerWhere](r) {
				s1 = append(s1, r)
			}
		}
	}
	ext := make([][]val.Val, len(s1))
	for i, r := range s1 {
		ext[i] = append([]val.Val(nil), r...)
	}
	for _, ic := range c.Inner {
		cc := ic
		cc.Rows = s1
		vals, ok := analyticUnique(cc, len(s1))
		if !ok {
			o.Discard = true // the inner column has more than one admissible value: outside this check
			return o, nil
		}
		for i := range ext {
			ext[i] = append(ext[i], vals[i])
		}
	}
	s2 := ext
	if c.InnerOrder != "" {
		s2 = append([][]val.Val(nil), ext...)
		sort.SliceStable(s2, func(i, j int) bool {
			if c.InnerOrder == "DESC" {
				return s2[i][cID].AsInt() > s2[j][cID].AsInt()
			}
			return s2[i][cID].AsInt() < s2[j][cID].AsInt()
		})
		if c.InnerOffset >= len(s2) {
			s2 = nil
		} else {
			s2 = s2[c.InnerOffset:]
		}
		if c.HasInnerLimit && c.InnerLimit < len(s2) {
			s2 = s2[:c.InnerLimit]
		}
	}
	s3 := s2
	if c.OuterWhere != "" {
		s3 = nil
		for _, r := range s2 {
			if predicates[c.OuterWhere](r) {
				s3 = append(s3, r)
			}
		}
	}
	n := len(s3)
	nBase := len(cols) + len(c.Inner)
	// typing of the inner columns where the outer calls need it
	for _, oc := range c.Outer {
		for _, ord := range oc.Order {
			if colIdx(ord.Col) >= len(cols) && !oneKind(s3, colIdx(ord.Col), "") {
				o.Discard = true
				return o, nil
			}
		}
		if oc.Arg == "a1" || oc.Arg == "a2" {
			kind := ""
			if isIn(oc.Fn, []string{"SUM", "AVG", "MEDIAN", "USUM", "UHASH", "STDEV", "STDEVP", "VAR", "VARP"}) {
				kind = "I"
			}
			if !oneKind(s3, colIdx(oc.Arg), kind) {
				o.Discard = true
				return o, nil
			}
		}
	}

	// ---- classes ------------------------------------------------------------
	size := "small"
	if len(c.Rows) >= 160 {
		size = "large"
	}
	o.Classes = []string{"form:" + c.Form, fmt.Sprintf("inner_calls:%d", len(c.Inner)), fmt.Sprintf("outer_calls:%d", len(c.Outer)), "size:" + size}
	shift := ""
	if c.Form != "table" {
		o.Classes = append(o.Classes, "inner_list:"+c.InnerList)
		if c.InnerWhere != "" {
			o.Classes = append(o.Classes, "inner_where")
		}
		if c.InnerOffset > 0 && len(ext) > 0 {
			shift += "+offset"
		}
		if c.HasInnerLimit {
			o.Classes = append(o.Classes, "inner_limit")
		}
	}
	if len(s3) < len(s2) && len(s3) > 0 {
		shift += "+outer_where"
	}
	if shift != "" {
		o.Classes = append(o.Classes, "rows_shifted:"+shift[1:])
	}
	for _, ic := range c.Inner {
		o.Classes = append(o.Classes, "inner_fn:"+ic.Fn)
	}
	bigSeen := map[string]bool{}
	for _, x := range append(append([]anaCase(nil), c.Inner...), c.Outer...) {
		for _, cl := range bigKeyClasses(c.Rows, x) {
			if !bigSeen[cl] {
				bigSeen[cl] = true
				o.Classes = append(o.Classes, cl)
				fw.AddExtra("nested/"+cl, 1)
			}
		}
	}
	linked, usesA := false, ""
	aPart, aOrd, aArg := false, false, false
	for _, oc := range c.Outer {
		o.Classes = append(o.Classes, "outer_fn:"+oc.Fn)
		for _, ic := range c.Inner {
			if sharesCols(ic, oc) {
				linked = true
			}
		}
		for _, p := range oc.Partition {
			aPart = aPart || colIdx(p) >= len(cols)
		}
		for _, ord := range oc.Order {
			aOrd = aOrd || colIdx(ord.Col) >= len(cols)
		}
		aArg = aArg || oc.Arg == "a1" || oc.Arg == "a2"
	}
	for _, x := range []struct {
		on   bool
		name string
	}{{aPart, "+partition"}, {aOrd, "+order"}, {aArg, "+arg"}} {
		if x.on {
			usesA += x.name
		}
	}
	if linked {
		o.Classes = append(o.Classes, "outer_shares_columns_with_inner")
	}
	if usesA != "" {
		o.Classes = append(o.Classes, "outer_uses_inner_column:"+usesA[1:])
	}
	sharedOuter := false
	for i := range c.Outer {
		for j := i + 1; j < len(c.Outer); j++ {
			if sharesCols(c.Outer[i], c.Outer[j]) {
				sharedOuter = true
			}
		}
	}
	if sharedOuter {
		o.Classes = append(o.Classes, "outer_calls_share_columns")
	}
	dupKinds := map[string]bool{}
	for i := range c.Outer {
		for j := i + 1; j < len(c.Outer); j++ {
			if what, dup := nearDuplicate(c.Outer[i], c.Outer[j]); dup {
				dupKinds[what] = true
			}
		}
	}
	for _, what := range fw.SortedKeys(dupKinds) {
		o.Classes = append(o.Classes, "near_duplicate_calls:"+what)
		fw.AddExtra("nested/near_duplicate_calls:"+what, 1)
	}

	// ---- csvq -------------------------------------------------------------
	s, err := run.NewSess(run.Opt{Dir: fw.WorkDir(), CPU: c.CPU})
	if err != nil {
		panic(err)
	}
	defer s.Close()
	var b strings.Builder
	b.WriteString("DECLARE t VIEW (" + strings.Join(cols, ", ") + ");\n")
	if len(c.Rows) > 0 {
		b.WriteString("INSERT INTO t VALUES ")
		for i, r := range c.Rows {
			if i > 0 {
				b.WriteString(", ")
			}
			b.WriteString("(")
			for j, v := range r {
				if j > 0 {
					b.WriteString(", ")
				}
				b.WriteString(v.SQL())
			}
			b.WriteString(")")
		}
		b.WriteString(";\n")
	}
	b.WriteString(udfDecl)
	if r := s.Exec(b.String()); r.Err != nil {
		return o, fw.V("setup_error", "%v", r.Err)
	}
	sql := nestedSQL(c)
	par0 := atomic.LoadInt64(&query.VerifParallelTasks)
	tbl, qerr := s.Query(sql)
	if atomic.LoadInt64(&query.VerifParallelTasks) > par0 {
		o.Classes = append(o.Classes, "ran_on_several_workers")
		fw.AddExtra("nested_queries_with_parallel_tasks", 1)
	}
	if qerr != nil {
		return o, fw.V("nested_error", "%s: %v", sql, qerr)
	}
	width := nBase + len(c.Outer)
	if len(tbl.Header) != width {
		return o, fw.V("nested_result_shape", "%s: header %v", sql, tbl.Header)
	}
	if len(tbl.Rows) != n {
		return o, fw.V("nested_row_count", "%s: reference keeps %d rows, csvq returned %d", sql, n, len(tbl.Rows))
	}
	pos := map[string]int{}
	for i, r := range s3 {
		pos[r[cID].S] = i
	}
	got := make([][]val.Val, len(c.Outer))
	for k := range got {
		got[k] = make([]val.Val, n)
	}
	seen := make([]bool, n)
	for _, r := range tbl.Rows {
		i, ok := pos[r[cID].S]
		if !ok || r[cID].K != "I" || seen[i] {
			return o, fw.V("nested_rows", "%s: output row with id %s is not among the rows the reference keeps, or repeated", sql, r[cID])
		}
		seen[i] = true
		for j := 0; j < nBase; j++ {
			if r[j] != s3[i][j] {
				sig := "nested_base_column_changed"
				if j >= len(cols) {
					sig = "nested_inner_column:" + c.Inner[j-len(cols)].Fn
				}
				return o, fw.V(sig, "%s: id %s column %s: reference %s, csvq %s\n  rows(id,p1,p2,o1,o2,v,s)=%v", sql, r[cID], extCols[j], s3[i][j], r[j], clipRows(c.Rows))
			}
		}
		for k := range c.Outer {
			got[k][i] = r[nBase+k]
		}
	}
	for k, oc := range c.Outer {
		cc := oc
		cc.Rows = s3
		res := analyticCheck(cc, got[k])
		if res.Sig != "" {
			// a near-duplicate call that shows another call's column?
			for j, other := range c.Outer {
				what, dup := nearDuplicate(oc, other)
				if j == k || !dup {
					continue
				}
				cj := other
				cj.Rows = s3
				if analyticCheck(cj, got[k]).Sig == "" {
					return o, fw.V("near_duplicate_analytic_calls_merged:"+what, "%s\n  r%d shows the values of r%d (the calls differ only in a literal: %s); r%d: %s\n  rows the outer call sees (id,p1,p2,o1,o2,v,s,a..)=%v", sql, k+1, j+1, what, k+1, res.Msg, clipRows(s3))
				}
			}
			return o, fw.V("nested_"+res.Sig, "%s\n  r%d: %s\n  rows the outer call sees (id,p1,p2,o1,o2,v,s,a..)=%v", sql, k+1, res.Msg, clipRows(s3))
		}
	}

	// ---- non-trivial ----------------------------------------------------------
	bigParts := 0
	if n > 0 {
		cc := c.Outer[0]
		cc.Rows = s3
		in := buildInput(cc)
		for _, p := range ref.AnaPartitions(in.Part, n) {
			if len(p) >= 2 {
				bigParts++
			}
		}
	}
	fns := func(cs []anaCase) string {
		var ns []string
		for _, x := range cs {
			ns = append(ns, x.Fn)
		}
		return strings.Join(ns, ",")
	}
	switch {
	case c.Form != "table" && len(c.Inner) > 0 && bigParts >= 2 && (linked || usesA != ""):
		o.Fingerprint = fmt.Sprintf("%s|%s|in:%s|shift:%s|out:%s|a:%s|linked:%v", c.Form, c.InnerList, fns(c.Inner), shift, fns(c.Outer), usesA, linked)
	case len(c.Outer) >= 2 && sharedOuter && bigParts >= 2:
		o.Fingerprint = fmt.Sprintf("%s|multi|out:%s|where:%v", c.Form, fns(c.Outer), c.OuterWhere != "")
	}
	return o, nil
}

func TestC17Nested(t *testing.T) {
	fw.Run(t, fw.Spec[nestedCase]{
		ID: "C17", Name: "nested", Quick: 8000, Thorough: 160000,
		Gen: genNested, Check: checkNested,
		Rule: "the tables and calls of the direct check, composed: the outer select list holds 1-3 analytic calls (60% of the later ones reuse the first call's PARTITION BY / ORDER BY); the source is the table or a derived table / CTE whose select list is *, all columns in order or a permutation, followed by 0-2 analytic columns a1, a2 (functions with exactly one admissible result), optionally with WHERE, ORDER BY id + OFFSET / LIMIT; in 20% the outer calls are 2-3 near-duplicates: one function over one window, differing only in a literal (letter case, blanks, quoting, numeric spelling of the LAG / LEAD default, the LISTAGG separator, a COALESCE argument) or in one clause element (windowing clause, IGNORE NULLS, DISTINCT, direction or NULLS position of an ORDER BY item, NTILE / NTH_VALUE / LAG / LEAD number, order of the PARTITION BY items) - each must keep its own result column; the outer query optionally filters with WHERE (base columns or a1 IS [NOT] NULL) and its calls partition / order by the columns the inner calls used and by a1 / a2 themselves, or take them as argument; the reference evaluates inside-out (inner WHERE, inner analytic columns, ORDER BY id / OFFSET / LIMIT, outer WHERE, outer calls) and compares the surviving rows by id: base columns, inner columns exactly, every outer column with the evaluator of the direct check; non-trivial = nested with an inner analytic column, the first outer call has two or more partitions of two or more rows and an outer call shares a column with an inner call or uses a1/a2, or two or more outer calls sharing columns; distinct by (form, select-list form, inner functions, row-shifting operations, outer functions, use of a1/a2)",
		Assumptions: []string{
			"inner LIMIT / OFFSET are generated only together with ORDER BY id (otherwise the kept rows are not determined)",
			"inner analytic columns are restricted to calls with one admissible result (no open reading, unique order where the order matters) of integer or value type; cases where an inner column used as outer ORDER BY key or numeric argument is not of one type are discarded",
			"WHERE is evaluated before the analytic functions of the same query; WHERE keeps the rows whose predicate is TRUE",
			"assumptions of the direct check apply to every call",
		},
	})
}
