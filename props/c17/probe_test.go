package c17

import (
	"fmt"
	"testing"

	"verif/internal/run"
)

func TestProbe(t *testing.T) {
	s, err := run.NewSess(run.Opt{Dir: t.TempDir(), CPU: 1})
	if err != nil {
		t.Fatal(err)
	}
	defer s.Close()
	r := s.Exec("DECLARE t VIEW (id, p, o, v, s); INSERT INTO t VALUES (1,'a',1,10,'x'),(2,'a',1,NULL,'y'),(3,'a',2,30,NULL),(4,'b',NULL,40,'z'),(5,NULL,3,NULL,NULL),(6,NULL,1,60,'w');")
	fmt.Println("setup", r.Err)
	qs := []string{
		"SELECT id, COUNT(*) OVER (PARTITION BY p) FROM t",
		"SELECT id, COUNT(v) OVER (PARTITION BY p) FROM t",
		"SELECT id, SUM(v) OVER (PARTITION BY p ORDER BY id) FROM t",
		"SELECT id, LAST_VALUE(v) OVER (ORDER BY id ROWS BETWEEN 1 PRECEDING AND CURRENT ROW) FROM t",
		"SELECT id, NTH_VALUE(v, 5) OVER (PARTITION BY p ORDER BY id ROWS BETWEEN UNBOUNDED PRECEDING AND UNBOUNDED FOLLOWING) FROM t",
		"SELECT id, JSON_AGG(s) OVER (PARTITION BY p ORDER BY id) FROM t",
		"SELECT id, LISTAGG(v, ',') OVER (PARTITION BY p ORDER BY id DESC) FROM t",
		"SELECT id, SUM(v) OVER (ORDER BY id ROWS BETWEEN 2 FOLLOWING AND 1 FOLLOWING) FROM t",
		"SELECT id, SUM(v) OVER (ORDER BY id ROWS 1 FOLLOWING) FROM t",
		"SELECT id, SUM(v) OVER (ORDER BY id ROWS BETWEEN UNBOUNDED FOLLOWING AND CURRENT ROW) FROM t",
		"SELECT id, SUM(v) OVER (ORDER BY id ROWS BETWEEN CURRENT ROW AND UNBOUNDED PRECEDING) FROM t",
		"SELECT id, LISTAGG(v, ',') OVER (ORDER BY id ROWS 1 PRECEDING) FROM t",
		"SELECT id, RANK() OVER (ORDER BY o ROWS 1 PRECEDING) FROM t",
		"SELECT id, SUM(v) OVER (ROWS 1 PRECEDING) FROM t",
		"SELECT id, MEDIAN(v) OVER (PARTITION BY p), AVG(v) OVER (), MIN(s) OVER () FROM t",
		"SELECT id, LAG(v, 1, -1) IGNORE NULLS OVER (ORDER BY id) FROM t",
		"SELECT id, SUM(DISTINCT v) OVER (ORDER BY id) FROM t",
		"SELECT id, PERCENT_RANK() OVER (PARTITION BY p ORDER BY o) FROM t",
		"SELECT id, NTILE(4) OVER (ORDER BY o, id) FROM t",
		"SELECT id, SUM(v) OVER (ORDER BY id ROWS BETWEEN -1 PRECEDING AND CURRENT ROW) FROM t",
		"DECLARE uh AGGREGATE (cur, @m DEFAULT 1) AS BEGIN VAR @a := 0; VAR @x; WHILE @x IN cur DO IF @x IS NULL THEN @a := @a + 1000; CONTINUE; END IF; @a := (@a * 3 + @x * @m) % 1000003; END WHILE; RETURN @a; END; SELECT id, uh(v) OVER (ORDER BY id), uh(v, id) OVER (PARTITION BY p), uh(DISTINCT v) OVER () FROM t",
	}
	for _, q := range qs {
		r := s.Exec(q)
		fmt.Println(q)
		if r.Err != nil {
			fmt.Println("  ERR", run.ErrClass(r.Err), r.Err)
			continue
		}
		fmt.Print(r.Views[len(r.Views)-1].String())
	}
}
