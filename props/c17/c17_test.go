package c17

import (
	"fmt"
	"math"
	"math/bits"
	"strconv"
	"strings"
	"sync/atomic"
	"testing"

	"github.com/mithrandie/csvq/lib/query"
	"pgregory.net/rapid"

	"verif/internal/fw"
	"verif/internal/ref"
	"verif/internal/run"
	"verif/internal/val"
)

func TestMain(m *testing.M) { fw.Main(m) }

// Shapes on which csvq genuinely violates the property (reported; see the
// signatures below). While a flag is true the generator keeps away from that
// exact shape so that the search continues past it; set it to false once the
// defect is fixed in /repo or listed in known_findings.jsonl.
const (
	// COUNT(*) OVER (...) always fails -> signature count_star_over_error
	avoidKnownCountStarOver = false
	// LAST_VALUE applies the frame to the reversed partition (PRECEDING and
	// FOLLOWING swap) -> signature last_value_frame_mirrored. Avoided by
	// generating only symmetric frames for LAST_VALUE and, without a
	// windowing clause, no IGNORE NULLS.
	avoidKnownLastValueMirrored = false
	// NTH_VALUE returns the last examined value instead of NULL when the
	// frame has fewer than n values -> signature nth_value_beyond_frame.
	// Avoided by choosing n so that every frame has an n-th value (n = 1
	// unless the frame is the whole partition).
	avoidKnownNthValueBeyondFrame = false
	// Aggregates / user aggregates OVER a frame that lies outside the
	// partition by two or more rows for some row (e.g. ROWS BETWEEN 2
	// FOLLOWING AND UNBOUNDED FOLLOWING on the last row, UNBOUNDED PRECEDING
	// AND 2 PRECEDING on the first, CURRENT ROW AND 3 PRECEDING anywhere) end
	// in "[Fatal Error] makeslice: cap out of range"
	// -> signature window_frame_negative_cap_panic. Avoided by shrinking the
	// offending offset so that high - low + 1 >= 0 for every row.
	avoidKnownFrameNegativeCapPanic = false
)

// frameOffsets: the bounds as offsets from the current row (ok=false: unbounded).
func boundOffset(b ref.AnaBound) (int, bool) {
	switch b.Kind {
	case "P":
		return -b.N, true
	case "C":
		return 0, true
	case "F":
		return b.N, true
	}
	return 0, false
}

func offsetBound(off int) ref.AnaBound {
	switch {
	case off < 0:
		return ref.AnaBound{Kind: "P", N: -off}
	case off > 0:
		return ref.AnaBound{Kind: "F", N: off}
	}
	return ref.AnaBound{Kind: "C"}
}

// negativeCapPossible: for some row of some partition the unclamped frame has high - low + 1 < 0.
func negativeCapPossible(f ref.AnaFrame) bool {
	if f.Mode != "between" {
		return false
	}
	lo, loFinite := boundOffset(f.Lo)
	hi, hiFinite := boundOffset(f.Hi)
	switch {
	case loFinite && hiFinite:
		return hi-lo+1 < 0
	case loFinite: // .. UNBOUNDED FOLLOWING: on the last row high is the current row
		return 0-lo+1 < 0
	case hiFinite: // UNBOUNDED PRECEDING ..: on the first row low is the current row
		return hi-0+1 < 0
	}
	return false
}

func shrinkNegativeCap(f ref.AnaFrame) ref.AnaFrame {
	if !negativeCapPossible(f) {
		return f
	}
	lo, loFinite := boundOffset(f.Lo)
	_, hiFinite := boundOffset(f.Hi)
	switch {
	case loFinite && hiFinite:
		f.Hi = offsetBound(lo - 1)
	case loFinite:
		f.Lo = offsetBound(1)
	default:
		f.Hi = offsetBound(-1)
	}
	return f
}

var cols = []string{"id", "p1", "p2", "o1", "o2", "v", "s"}

const (
	cID = iota
	cP1
	cP2
	cO1
	cO2
	cV
	cS
)

// extCols: the base columns followed by the analytic columns of an inner query (nested check).
var extCols = append(append([]string(nil), cols...), "a1", "a2")

func colIdx(name string) int {
	for i, c := range extCols {
		if c == name {
			return i
		}
	}
	return -1
}

type orderItem struct {
	Col   string `json:"col"`
	Dir   string `json:"dir,omitempty"`   // "", ASC, DESC
	Nulls string `json:"nulls,omitempty"` // "", FIRST, LAST
}

type anaCase struct {
	Rows        [][]val.Val  `json:"rows"` // id, p1, p2, o1, o2, v, s
	Fn          string       `json:"fn"`
	Arg         string       `json:"arg,omitempty"` // v | s | v + 100
	K           int          `json:"k,omitempty"`   // NTILE groups, NTH_VALUE n, LAG/LEAD offset
	HasK        bool         `json:"has_k,omitempty"`
	HasDefault  bool         `json:"has_default,omitempty"`
	Default     val.Val      `json:"default"`
	IgnoreNulls bool         `json:"ignore_nulls,omitempty"`
	Distinct    bool         `json:"distinct,omitempty"`
	HasSep      bool         `json:"has_sep,omitempty"`
	Sep         string       `json:"sep,omitempty"`
	Arg2        string       `json:"arg2,omitempty"` // user aggregates: "", 2, id
	Partition   []string     `json:"partition,omitempty"`
	Order       []orderItem  `json:"order,omitempty"`
	Frame       ref.AnaFrame `json:"frame"`
	CPU         int          `json:"cpu"`
	// Strict: the session runs with @@STRICT_EQUAL (direct check only; the key cells are then canonical:
	// equal cells are identical cells, so the flag must not change any result)
	Strict bool `json:"strict,omitempty"`
}

const udfDecl = `
DECLARE usum AGGREGATE (cur, @m DEFAULT 1) AS BEGIN
  VAR @a := 0; VAR @x;
  WHILE @x IN cur DO
    IF @x IS NULL THEN @a := @a + 1000; CONTINUE; END IF;
    @a := @a + @x * @m;
  END WHILE;
  RETURN @a;
END;
DECLARE uhash AGGREGATE (cur, @m DEFAULT 1) AS BEGIN
  VAR @a := 0; VAR @x;
  WHILE @x IN cur DO
    IF @x IS NULL THEN @a := (@a * 3 + 7) % 1000003; CONTINUE; END IF;
    @a := (@a * 3 + @x * @m) % 1000003;
  END WHILE;
  RETURN @a;
END;
DECLARE utag AGGREGATE (cur, @m DEFAULT 'd') AS BEGIN
  VAR @a := 0; VAR @x;
  WHILE @x IN cur DO
    IF @x IS NULL THEN @a := @a + 1000; CONTINUE; END IF;
    @a := @a + @x;
  END WHILE;
  RETURN @a || '/' || @m;
END;
`

// second argument of utag: texts that differ from row to row only in letter case, edge blanks or the spelling of a
// number - equal under csvq's comparison, different as values; the result shows the text the invocation received
const tagExpr = "CASE id % 3 WHEN 0 THEN 'k' WHEN 1 THEN 'K' ELSE ' k ' END"
const numTagExpr = "CASE id % 3 WHEN 0 THEN '1' WHEN 1 THEN '01' ELSE '1.0' END"

func tagOf(id int64, kind string) string {
	m := id % 3
	if m < 0 {
		m += 3
	}
	if kind == "numtag" {
		return []string{"1", "01", "1.0"}[m]
	}
	return []string{"k", "K", " k "}[m]
}

var (
	rankFns     = []string{"RANK", "DENSE_RANK", "CUME_DIST", "PERCENT_RANK"}
	numberFns   = []string{"ROW_NUMBER", "NTILE"}
	valueFns    = []string{"FIRST_VALUE", "LAST_VALUE", "NTH_VALUE"}
	lagFns      = []string{"LAG", "LEAD"}
	aggFns      = []string{"COUNT", "SUM", "AVG", "MIN", "MAX", "MEDIAN", "USUM", "UHASH", "UTAG", "STDEV", "STDEVP", "VAR", "VARP"}
	listFns     = []string{"LISTAGG", "JSON_AGG"}
	strAlphabet = []string{"a", "b", "ab", "ba", "c", "x", "xa"}
)

// rapid's integer generators favour small values (a 0..99 draw is below 15
// about half of the time); the probabilities of this generator are meant as
// written, so every choice is made from unbiased bits.
func uni(t *rapid.T, label string, n int) int {
	if n <= 1 {
		return 0
	}
	k := bits.Len(uint(n - 1))
	for try := 0; ; try++ {
		v := 0
		for _, b := range rapid.SliceOfN(rapid.Bool(), k, k).Draw(t, label) {
			v <<= 1
			if b {
				v |= 1
			}
		}
		if v < n {
			return v
		}
		if try > 30 {
			return v % n
		}
	}
}

func chance(t *rapid.T, label string, pct int) bool { return uni(t, label, 100) < pct }

func pick[T any](t *rapid.T, label string, xs []T) T { return xs[uni(t, label, len(xs))] }

func intRange(t *rapid.T, label string, lo, hi int) int { return lo + uni(t, label, hi-lo+1) }

func isIn(s string, xs []string) bool {
	for _, x := range xs {
		if x == s {
			return true
		}
	}
	return false
}

var allFnNames = []string{"RANK", "DENSE_RANK", "CUME_DIST", "PERCENT_RANK", "ROW_NUMBER", "NTILE", "FIRST_VALUE", "LAST_VALUE", "NTH_VALUE",
	"LAG", "LEAD", "COUNT", "SUM", "AVG", "MIN", "MAX", "MEDIAN", "USUM", "UHASH", "LISTAGG", "JSON_AGG", "COUNT_STAR", "STDEV", "STDEVP", "VAR", "VARP"}

// aggFnsNumeric: the aggregates whose result is a number (utag returns text; only the direct check draws it:
// the other sub-checks wrap the call in arithmetic or feed it to numeric functions)
func aggFnsNumeric() []string {
	var fs []string
	for _, f := range aggFns {
		if f != "UTAG" {
			fs = append(fs, f)
		}
	}
	return fs
}

func allFns() []string {
	var fs []string
	fs = append(fs, rankFns...)
	fs = append(fs, numberFns...)
	// frame-dependent functions twice: they have the larger input space
	for i := 0; i < 2; i++ {
		fs = append(fs, valueFns...)
		fs = append(fs, lagFns...)
		fs = append(fs, aggFnsNumeric()...)
	}
	fs = append(fs, listFns...)
	if !avoidKnownCountStarOver {
		fs = append(fs, "COUNT_STAR")
	}
	return fs
}

func genStr(t *rapid.T, label string) val.Val {
	return val.Str(pick(t, label, strAlphabet))
}

func genRows(t *rapid.T, large bool) [][]val.Val {
	if large {
		return genRowsMode(t, "large", false)
	}
	return genRowsMode(t, "small", false)
}

// genRowsMode: mode small (0-12 rows), medium (16-120 rows with up to 40 partition values: the partitions are
// spread over several workers although the table is below the size at which per-record work is split) or
// large (160-230 rows, few partitions); plainO1: the o1 column holds small integers only.
func genRowsMode(t *rapid.T, mode string, plainO1 bool) [][]val.Val {
	large := mode == "large"
	var n int
	switch {
	case large:
		n = intRange(t, "nLarge", 160, 230)
		if chance(t, "nHuge", 10) {
			n = intRange(t, "nHugeN", 1000, 1500)
		}
	case mode == "medium":
		n = intRange(t, "nMedium", 16, 120)
	case chance(t, "emptyTable", 2):
		n = 0
	default:
		n = intRange(t, "n", 1, 12)
	}
	ids := make([]int, n)
	for i := range ids {
		ids[i] = i + 1
	}
	if n > 1 {
		ids = rapid.Permutation(ids).Draw(t, "ids")
	}
	pool := []val.Val{val.Int(1), val.Null, val.Str("a"), val.Int(2), val.Str("b")}
	npool := intRange(t, "p1Pool", 1, 5)
	if large {
		npool = intRange(t, "p1PoolLarge", 2, 4)
	}
	if mode == "medium" {
		pool = []val.Val{val.Null, val.Str("a")}
		for k, nk := 0, intRange(t, "p1PoolMedium", 6, 40); k < nk; k++ {
			pool = append(pool, val.Int(int64(k+1)))
		}
		npool = len(pool)
	}
	singlePct := 8
	if large {
		singlePct = 1
	}
	nullPct := intRange(t, "nullPct", 0, 45)
	oRange := intRange(t, "o1Range", 0, 4)
	// o1 mode: small integers, or integers around +-2^53, +-2^62, +-(2^63-1) that differ by 1-2 (also
	// spelled as strings), optionally mixed with floats of the same magnitude
	var bigPool []int64
	bigFloats := false
	if m := uni(t, "o1Mode", 100); m < 25 && !plainO1 {
		bigFloats = m < 10
		bigPool = genBigPool(t, bigFloats)
	}
	rows := make([][]val.Val, n)
	for i := 0; i < n; i++ {
		r := make([]val.Val, len(cols))
		r[cID] = val.Int(int64(ids[i]))
		if chance(t, "singleRowPartition", singlePct) {
			r[cP1] = val.Int(int64(1000 + ids[i]))
		} else {
			r[cP1] = pool[intRange(t, "p1", 0, npool-1)]
		}
		r[cP2] = pick(t, "p2", []val.Val{val.Int(0), val.Int(0), val.Int(1), val.Null})
		switch {
		case chance(t, "o1Null", 15):
			r[cO1] = val.Null
		case bigPool != nil:
			r[cO1] = bigCell(t, pick(t, "o1Big", bigPool), bigFloats)
		default:
			r[cO1] = val.Int(int64(intRange(t, "o1", -1, oRange)))
		}
		if chance(t, "o2Null", 15) {
			r[cO2] = val.Null
		} else {
			r[cO2] = genStr(t, "o2")
		}
		if chance(t, "vNull", nullPct) {
			r[cV] = val.Null
		} else {
			r[cV] = val.Int(int64(intRange(t, "v", -5, 20)))
		}
		if chance(t, "sNull", nullPct) {
			r[cS] = val.Null
		} else {
			r[cS] = genStr(t, "s")
		}
		rows[i] = r
	}
	return rows
}

var bigBases = []int64{1 << 53, -(1 << 53), 1 << 62, -(1 << 62), math.MaxInt64, -math.MaxInt64}

// genBigPool draws 2-6 integers from one or two neighbourhoods of the bases.
// With floats in the column the integers keep distinct float64 images: an
// integer and a float compare as float64, two integers exactly, and two
// different integers with one image next to a float of that value would make
// "peer" intransitive (a don't-care zone of the property).
func genBigPool(t *rapid.T, injective bool) []int64 {
	var pool []int64
	for b, nb := 0, intRange(t, "bigBases", 1, 2); b < nb; b++ {
		base := pick(t, "bigBase", bigBases)
		for k, nk := 0, intRange(t, "bigNeighbours", 2, 3); k < nk; k++ {
			d := int64(intRange(t, "bigDelta", -2, 2))
			x := base + d
			if (d > 0 && x < base) || (d < 0 && x > base) {
				x = base // would leave the 64-bit range
			}
			ok := true
			for _, y := range pool {
				if y == x || (injective && float64(y) == float64(x)) {
					ok = false
				}
			}
			if ok {
				pool = append(pool, x)
			}
		}
	}
	return pool
}

// bigCell spells x as an integer, a (padded) string or - when floats are allowed - the float64 next to it.
func bigCell(t *rapid.T, x int64, floats bool) val.Val {
	k := uni(t, "bigSpelling", 100)
	switch {
	case floats && k < 35:
		return val.Float(float64(x))
	case k < 65:
		return val.Int(x)
	}
	return val.Str(pick(t, "bigPadL", []string{"", " ", "  "}) + strconv.FormatInt(x, 10) + pick(t, "bigPadR", []string{"", "", " "}))
}

func colHasFloat(rows [][]val.Val, idx int) bool {
	for _, r := range rows {
		if idx < len(r) && r[idx].K == "F" {
			return true
		}
	}
	return false
}

func genBoundN(t *rapid.T, large bool) int {
	if large && chance(t, "bigOffset", 30) {
		return intRange(t, "offBig", 4, 60)
	}
	return pick(t, "off", []int{0, 1, 1, 1, 2, 2, 3})
}

func genFrame(t *rapid.T, large bool, symmetricOnly bool) ref.AnaFrame {
	if symmetricOnly {
		switch intRange(t, "symFrame", 0, 3) {
		case 0:
			return ref.AnaFrame{Mode: "single", Lo: ref.AnaBound{Kind: "C"}}
		case 1:
			return ref.AnaFrame{Mode: "between", Lo: ref.AnaBound{Kind: "C"}, Hi: ref.AnaBound{Kind: "C"}}
		case 2:
			return ref.AnaFrame{Mode: "between", Lo: ref.AnaBound{Kind: "UP"}, Hi: ref.AnaBound{Kind: "UF"}}
		}
		k := genBoundN(t, large)
		return ref.AnaFrame{Mode: "between", Lo: ref.AnaBound{Kind: "P", N: k}, Hi: ref.AnaBound{Kind: "F", N: k}}
	}
	bound := func(label string, kinds []string) ref.AnaBound {
		b := ref.AnaBound{Kind: pick(t, label, kinds)}
		if b.Kind == "P" || b.Kind == "F" {
			b.N = genBoundN(t, large)
		}
		return b
	}
	if chance(t, "singleBound", 30) {
		return ref.AnaFrame{Mode: "single", Lo: bound("lo1", []string{"UP", "P", "P", "C"})}
	}
	return ref.AnaFrame{Mode: "between",
		Lo: bound("lo", []string{"UP", "UP", "P", "P", "P", "C", "C", "F"}),
		Hi: bound("hi", []string{"UF", "UF", "F", "F", "F", "C", "C", "P"})}
}

func genCPU(t *rapid.T, large bool) int {
	if large {
		return pick(t, "cpuLarge", []int{4, 4, 4, 2, 3})
	}
	return pick(t, "cpu", []int{1, 1, 1, 4})
}

func genCase(t *rapid.T) anaCase {
	mode := "small"
	switch m := uni(t, "sizeMode", 100); {
	case m < 15:
		mode = "large"
	case m < 27:
		mode = "medium"
	}
	large := mode == "large"
	strict := chance(t, "strictEqual", 10)
	c := genCall(t, large, genRowsMode(t, mode, strict), append(allFns(), "UTAG", "UTAG"))
	c.Strict = strict
	c.CPU = genCPU(t, large)
	if mode == "medium" {
		c.CPU = pick(t, "cpuMedium", []int{2, 3, 4, 4, 8})
		if len(c.Partition) > 0 && !isIn("p1", c.Partition) && chance(t, "mediumP1", 75) {
			c.Partition[0] = "p1"
		}
	}
	return c
}

// genCall draws one analytic call over the base columns of rows.
func genCall(t *rapid.T, large bool, rows [][]val.Val, fns []string) anaCase {
	c := anaCase{Rows: rows, Default: val.Null}
	c.Fn = pick(t, "fn", fns)

	// PARTITION BY 0-2 items
	npk := pick(t, "nPartition", []int{0, 1, 1, 1, 2, 2})
	c.Partition = rapid.Permutation([]string{"p1", "p2", "o1"}).Draw(t, "partitionCols")[:npk]
	if colHasFloat(rows, cO1) {
		// integer n vs float n.0 in one partition is an open pair: no floats in partition keys
		for i, p := range c.Partition {
			if p == "o1" {
				c.Partition[i] = map[bool]string{true: "p1", false: "p2"}[!isIn("p1", c.Partition)]
			}
		}
	}
	if large && npk > 0 && c.Partition[0] == "o1" && chance(t, "largeP1", 70) {
		c.Partition[0] = "p1"
		if npk == 2 && c.Partition[1] == "p1" {
			c.Partition[1] = "p2"
		}
	}

	// ORDER BY 0-2 items (+ id where the row order must be unique)
	nok := pick(t, "nOrder", []int{0, 1, 1, 1, 2, 2})
	ocols := rapid.Permutation([]string{"o1", "o2", "p2"}).Draw(t, "orderCols")[:nok]
	item := func(col string) orderItem {
		return orderItem{Col: col, Dir: pick(t, "dir", []string{"", "ASC", "DESC", "DESC"}), Nulls: pick(t, "nulls", []string{"", "", "FIRST", "LAST"})}
	}
	for _, oc := range ocols {
		c.Order = append(c.Order, item(oc))
	}
	withID := false
	switch {
	case c.Fn == "COUNT_STAR":
		c.Order = nil // documented syntax: COUNT(*) OVER ([partition_clause])
	case isIn(c.Fn, lagFns) || c.Fn == "UHASH":
		withID = true
	case isIn(c.Fn, valueFns) || isIn(c.Fn, aggFns) || isIn(c.Fn, listFns):
		withID = nok > 0 || chance(t, "idOnly", 50)
	case isIn(c.Fn, numberFns):
		withID = chance(t, "idForNumber", 50)
	default:
		withID = chance(t, "idForRank", 15)
	}
	if withID {
		c.Order = append(c.Order, item("id"))
	}

	// arguments
	switch {
	case isIn(c.Fn, valueFns) || isIn(c.Fn, lagFns) || isIn(c.Fn, listFns) || isIn(c.Fn, []string{"COUNT", "MIN", "MAX"}):
		c.Arg = pick(t, "arg", []string{"v", "v", "s", "v + 100"})
	case isIn(c.Fn, aggFns):
		c.Arg = pick(t, "argNum", []string{"v", "v", "v + 100"})
	}
	if isIn(c.Fn, valueFns) || isIn(c.Fn, lagFns) {
		c.IgnoreNulls = chance(t, "ignoreNulls", 40)
	}
	if isIn(c.Fn, []string{"COUNT", "SUM", "AVG", "MEDIAN", "USUM"}) {
		c.Distinct = chance(t, "distinct", 15)
	}
	if isIn(c.Fn, statFns) || isIn(c.Fn, listFns) {
		c.Distinct = chance(t, "distinctExt", 30)
	}
	if c.Fn == "USUM" || c.Fn == "UHASH" {
		c.Arg2 = pick(t, "arg2", []string{"", "2", "id"})
	}
	if c.Fn == "UTAG" {
		c.Arg2 = pick(t, "arg2tag", []string{"", "'t'", "tag", "tag", "numtag", "id"})
	}
	if c.Fn == "LISTAGG" {
		if c.HasSep = chance(t, "hasSep", 60); c.HasSep {
			c.Sep = pick(t, "sep", []string{",", "|", "", "--"})
		}
	}
	switch c.Fn {
	case "NTILE":
		c.K = intRange(t, "tiles", 1, 6)
		if large && chance(t, "manyTiles", 30) {
			c.K = intRange(t, "tilesLarge", 7, 90)
		}
	case "LAG", "LEAD":
		if c.HasK = chance(t, "hasOffset", 70); c.HasK {
			c.K = pick(t, "offset", []int{0, 1, 1, 2, 2, 3})
			if large && chance(t, "bigLag", 20) {
				c.K = intRange(t, "offsetLarge", 4, 40)
			}
			if c.IgnoreNulls && c.K == 0 {
				c.K = 1
			}
			if c.HasDefault = chance(t, "hasDefault", 50); c.HasDefault {
				c.Default = pick(t, "default", []val.Val{val.Int(-1), val.Str("zz"), val.Null})
			}
		} else {
			c.K = 1
		}
	}

	// windowing clause
	frameable := isIn(c.Fn, valueFns) || isIn(c.Fn, aggFns)
	if frameable && len(c.Order) > 0 && chance(t, "explicitFrame", 75) {
		c.Frame = genFrame(t, large, avoidKnownLastValueMirrored && c.Fn == "LAST_VALUE")
		if avoidKnownFrameNegativeCapPanic && isIn(c.Fn, aggFns) {
			c.Frame = shrinkNegativeCap(c.Frame)
		}
	}
	if avoidKnownLastValueMirrored && c.Fn == "LAST_VALUE" && len(c.Order) > 0 && c.Frame.Mode == "" {
		c.IgnoreNulls = false
	}
	if c.Fn == "NTH_VALUE" {
		c.K = pick(t, "nth", []int{1, 1, 2, 2, 3, 4})
		if avoidKnownNthValueBeyondFrame {
			whole := len(c.Order) == 0 || (c.Frame.Mode == "between" && c.Frame.Lo.Kind == "UP" && c.Frame.Hi.Kind == "UF")
			if m := minQualifying(c); !whole || m < 1 {
				c.K = 1
			} else if c.K > m {
				c.K = m
			}
		}
	}
	return c
}

// minQualifying: the smallest number of values NTH_VALUE can count in one partition.
func minQualifying(c anaCase) int {
	in := buildInput(c)
	m := -1
	for _, p := range ref.AnaPartitions(in.Part, len(c.Rows)) {
		q := 0
		for _, r := range p {
			if !(c.IgnoreNulls && in.Arg[r].IsNull()) {
				q++
			}
		}
		if m < 0 || q < m {
			m = q
		}
	}
	return m
}

func argValue(row []val.Val, expr string) val.Val {
	switch expr {
	case "v":
		return row[cV]
	case "s":
		return row[cS]
	case "v + 100":
		if row[cV].IsNull() {
			return val.Null
		}
		return val.Int(row[cV].AsInt() + 100)
	case "a1", "a2":
		return row[colIdx(expr)]
	}
	if lit, ok := coalesceLiteral(expr); ok {
		if row[cS].IsNull() {
			return val.Str(lit)
		}
		return row[cS]
	}
	return val.Int(1)
}

// coalesceLits: the second argument of the COALESCE(s, <literal>) argument form
// (near-duplicate calls of the nested check differ only in this literal).
var coalesceLits = []string{"'na'", "'NA'", "'Na'", "' na'", "'na '", "\"na\""}

func coalesceLiteral(expr string) (string, bool) {
	for _, l := range coalesceLits {
		if expr == "COALESCE(s, "+l+")" {
			return l[1 : len(l)-1], true
		}
	}
	return "", false
}

// argInDomain: the argument expression is one the reference evaluates.
func argInDomain(c anaCase, nested bool) bool {
	switch c.Arg {
	case "v", "s", "v + 100":
		return c.Fn != "COUNT_STAR" && !isIn(c.Fn, rankFns) && !isIn(c.Fn, numberFns)
	case "":
		return c.Fn == "COUNT_STAR" || isIn(c.Fn, rankFns) || isIn(c.Fn, numberFns)
	case "a1", "a2":
		return nested
	}
	if _, ok := coalesceLiteral(c.Arg); ok {
		// text argument whose order is never consulted
		return nested && (isIn(c.Fn, valueFns) || isIn(c.Fn, lagFns) || isIn(c.Fn, listFns) || c.Fn == "COUNT")
	}
	return false
}

func buildInput(c anaCase) ref.AnaInput {
	n := len(c.Rows)
	in := ref.AnaInput{Fn: c.Fn, K: c.K, Default: c.Default, IgnoreNulls: c.IgnoreNulls, Distinct: c.Distinct, Sep: c.Sep, Frame: c.Frame,
		Part: make([][]val.Val, n), Ord: make([][]val.Val, n), Arg: make([]val.Val, n)}
	if !c.HasDefault {
		in.Default = val.Null
	}
	if c.Arg2 != "" {
		in.Arg2 = make([]val.Val, n)
	}
	for _, o := range c.Order {
		dir := o.Dir
		if dir == "" {
			dir = "ASC" // manual: ASC is the default
		}
		// manual: NULLS FIRST is the default for ASC, LAST otherwise
		nf := dir == "ASC"
		if o.Nulls != "" {
			nf = o.Nulls == "FIRST"
		}
		in.Items = append(in.Items, ref.AnaOrder{Desc: dir == "DESC", NullsFirst: nf})
		if o.Col == "id" {
			in.UniqueOrder = true
		}
	}
	for i, r := range c.Rows {
		for _, p := range c.Partition {
			in.Part[i] = append(in.Part[i], r[colIdx(p)])
		}
		for _, o := range c.Order {
			in.Ord[i] = append(in.Ord[i], r[colIdx(o.Col)])
		}
		in.Arg[i] = argValue(r, c.Arg)
		switch c.Arg2 {
		case "2":
			in.Arg2[i] = val.Int(2)
		case "id":
			in.Arg2[i] = r[cID]
		case "'t'":
			in.Arg2[i] = val.Str("t")
		case "tag", "numtag":
			in.Arg2[i] = val.Str(tagOf(r[cID].AsInt(), c.Arg2))
		}
	}
	return in
}

func fnSQL(c anaCase) string {
	var b strings.Builder
	ign := ""
	if c.IgnoreNulls {
		ign = " IGNORE NULLS"
	}
	dist := ""
	if c.Distinct {
		dist = "DISTINCT "
	}
	switch c.Fn {
	case "ROW_NUMBER", "RANK", "DENSE_RANK", "CUME_DIST", "PERCENT_RANK":
		b.WriteString(c.Fn + "()")
	case "NTILE":
		fmt.Fprintf(&b, "NTILE(%d)", c.K)
	case "FIRST_VALUE", "LAST_VALUE":
		fmt.Fprintf(&b, "%s(%s)%s", c.Fn, c.Arg, ign)
	case "NTH_VALUE":
		fmt.Fprintf(&b, "NTH_VALUE(%s, %d)%s", c.Arg, c.K, ign)
	case "LAG", "LEAD":
		b.WriteString(c.Fn + "(" + c.Arg)
		if c.HasK {
			fmt.Fprintf(&b, ", %d", c.K)
			if c.HasDefault {
				b.WriteString(", " + c.Default.SQL())
			}
		}
		b.WriteString(")" + ign)
	case "COUNT_STAR":
		b.WriteString("COUNT(*)")
	case "LISTAGG":
		b.WriteString("LISTAGG(" + dist + c.Arg)
		if c.HasSep {
			b.WriteString(", " + val.QuoteSQL(c.Sep))
		}
		b.WriteString(")")
	case "USUM", "UHASH", "UTAG":
		b.WriteString(strings.ToLower(c.Fn) + "(" + dist + c.Arg)
		switch c.Arg2 {
		case "":
		case "tag":
			b.WriteString(", " + tagExpr)
		case "numtag":
			b.WriteString(", " + numTagExpr)
		default:
			b.WriteString(", " + c.Arg2)
		}
		b.WriteString(")")
	default: // COUNT SUM AVG MIN MAX MEDIAN JSON_AGG
		b.WriteString(c.Fn + "(" + dist + c.Arg + ")")
	}
	b.WriteString(" OVER (")
	var parts []string
	if len(c.Partition) > 0 {
		parts = append(parts, "PARTITION BY "+strings.Join(c.Partition, ", "))
	}
	if len(c.Order) > 0 {
		var items []string
		for _, o := range c.Order {
			s := o.Col
			if o.Dir != "" {
				s += " " + o.Dir
			}
			if o.Nulls != "" {
				s += " NULLS " + o.Nulls
			}
			items = append(items, s)
		}
		parts = append(parts, "ORDER BY "+strings.Join(items, ", "))
	}
	bound := func(x ref.AnaBound) string {
		switch x.Kind {
		case "UP":
			return "UNBOUNDED PRECEDING"
		case "UF":
			return "UNBOUNDED FOLLOWING"
		case "P":
			return fmt.Sprintf("%d PRECEDING", x.N)
		case "F":
			return fmt.Sprintf("%d FOLLOWING", x.N)
		}
		return "CURRENT ROW"
	}
	switch c.Frame.Mode {
	case "single":
		parts = append(parts, "ROWS "+bound(c.Frame.Lo))
	case "between":
		parts = append(parts, "ROWS BETWEEN "+bound(c.Frame.Lo)+" AND "+bound(c.Frame.Hi))
	}
	b.WriteString(strings.Join(parts, " ") + ")")
	return b.String()
}

// inDomain re-validates a (possibly hand-written replay) case against the model's domain.
func inDomain(c anaCase) bool {
	if !rowsInDomain(c.Rows) || c.CPU < 1 || !partitionKeysInDomain(c.Rows, c) {
		return false
	}
	if !argInDomain(c, false) {
		return false
	}
	if c.Strict {
		// canonical key cells only: integers and lowercase words (no integer spelled as text, no float)
		for _, r := range c.Rows {
			if r[cO1].K != "I" && r[cO1].K != "N" {
				return false
			}
		}
	}
	for _, p := range c.Partition {
		if colIdx(p) >= len(cols) {
			return false
		}
	}
	for _, o := range c.Order {
		if colIdx(o.Col) >= len(cols) {
			return false
		}
	}
	return callInDomain(c)
}

func rowsInDomain(rows [][]val.Val) bool {
	seen := map[string]bool{}
	for _, r := range rows {
		if len(r) != len(cols) || r[cID].K != "I" || seen[r[cID].S] {
			return false
		}
		seen[r[cID].S] = true
		for i, v := range r {
			if i == cO1 {
				// integers, strings spelling an integer (edge blanks: spaces), finite floats
				switch v.K {
				case "N", "I":
				case "S":
					if _, ok := ref.AsInteger(v); !ok || strings.Trim(v.S, " ") != strings.TrimSpace(v.S) {
						return false
					}
				case "F":
					if f := v.AsFloat(); math.IsNaN(f) || math.IsInf(f, 0) {
						return false
					}
				default:
					return false
				}
				continue
			}
			switch v.K {
			case "N", "I":
			case "S":
				if i == cID || i == cP2 || i == cV || !isIn(v.S, strAlphabet) {
					return false
				}
			default:
				return false
			}
			if v.K == "I" && (i == cO2 || i == cS) {
				return false
			}
		}
	}
	if colHasFloat(rows, cO1) {
		// next to floats the integers must have distinct float64 images (see genBigPool)
		img := map[float64]int64{}
		for _, r := range rows {
			if i, ok := ref.AsInteger(r[cO1]); ok {
				if j, dup := img[float64(i)]; dup && j != i {
					return false
				}
				img[float64(i)] = i
			}
		}
	}
	return true
}

// partitionKeysInDomain: no float cell in a PARTITION BY column.
func partitionKeysInDomain(rows [][]val.Val, c anaCase) bool {
	for _, p := range c.Partition {
		if colHasFloat(rows, colIdx(p)) {
			return false
		}
	}
	return true
}

// bigKeyClasses labels the cases that exercise 64-bit exact comparison of ORDER BY / PARTITION BY keys.
func bigKeyClasses(rows [][]val.Val, c anaCase) []string {
	big, collide := false, false
	img := map[float64]int64{}
	for _, r := range rows {
		if i, ok := ref.AsInteger(r[cO1]); ok && (i > 1<<52 || i < -(1<<52)) {
			big = true
			if j, dup := img[float64(i)]; dup && j != i {
				collide = true
			}
			img[float64(i)] = i
		}
	}
	if !big {
		return nil
	}
	var out []string
	mode := "o1:integers_beyond_2^53"
	if colHasFloat(rows, cO1) {
		mode = "o1:integers_beyond_2^53_and_floats"
	}
	out = append(out, mode)
	if hasOrderCol(c, "o1") {
		out = append(out, "order_key_beyond_2^53")
		if collide {
			out = append(out, "order_key_distinct_integers_same_float64")
		}
	}
	if isIn("o1", c.Partition) {
		out = append(out, "partition_key_beyond_2^53")
		if collide {
			out = append(out, "partition_key_distinct_integers_same_float64")
		}
	}
	return out
}

// callInDomain: the call's clauses are inside the reference model's domain
// (columns exist, order-dependent functions have a unique order, ...).
func callInDomain(c anaCase) bool {
	if !isIn(c.Fn, allFnNames) && c.Fn != "UTAG" {
		return false
	}
	for _, p := range c.Partition {
		if colIdx(p) < 0 {
			return false
		}
	}
	for _, o := range c.Order {
		if colIdx(o.Col) < 0 || o.Col == "p1" {
			return false
		}
	}
	if c.Frame.Mode != "" && len(c.Order) == 0 {
		return false
	}
	uniq := len(c.Order) > 0 && c.Order[len(c.Order)-1].Col == "id"
	if (isIn(c.Fn, lagFns) || c.Fn == "UHASH") && !uniq {
		return false
	}
	if (isIn(c.Fn, valueFns) || isIn(c.Fn, aggFns) || isIn(c.Fn, listFns)) && len(c.Order) > 0 && !uniq {
		return false
	}
	if (c.Fn == "NTILE" || c.Fn == "NTH_VALUE") && c.K < 1 {
		return false
	}
	if isIn(c.Fn, lagFns) && (c.K < 0 || (c.IgnoreNulls && c.K < 1)) {
		return false
	}
	return true
}

func checkCase(c anaCase) (fw.Outcome, *fw.Violation) {
	o := fw.Outcome{}
	if !inDomain(c) {
		o.Discard = true
		return o, nil
	}
	n := len(c.Rows)
	in := buildInput(c)
	nUser := len(c.Order)
	if in.UniqueOrder {
		nUser--
	}
	ties := in.HasTies(n, nUser)
	size := "small"
	if n == 0 {
		size = "empty"
	} else if n >= 160 {
		size = "large"
	} else if n >= 13 {
		size = "medium"
	}
	bigParts, singleParts := 0, 0
	parts := ref.AnaPartitions(in.Part, n)
	for _, p := range parts {
		if len(p) >= 2 {
			bigParts++
		} else {
			singleParts++
		}
	}
	o.Classes = []string{"fn:" + c.Fn, fmt.Sprintf("partition_items:%d", len(c.Partition)), fmt.Sprintf("order_items:%d", nUser),
		fmt.Sprintf("order_unique_by_id:%v", in.UniqueOrder), "frame:" + c.Frame.Shape(), fmt.Sprintf("ties:%v", ties), "size:" + size,
		fmt.Sprintf("cpu:%d", c.CPU)}
	for _, cl := range bigKeyClasses(c.Rows, c) {
		o.Classes = append(o.Classes, cl)
		fw.AddExtra("analytic/"+cl, 1) // the evidence keeps only the most frequent classes: count these separately
	}
	if singleParts > 0 {
		o.Classes = append(o.Classes, "has_single_row_partition")
	}
	if len(parts) >= 8 {
		o.Classes = append(o.Classes, "partitions:8_or_more")
	}
	if c.IgnoreNulls {
		o.Classes = append(o.Classes, "ignore_nulls")
	}
	if c.Distinct {
		o.Classes = append(o.Classes, "distinct")
	}
	if c.Strict {
		o.Classes = append(o.Classes, "strict_equal")
		fw.AddExtra("analytic/strict_equal", 1)
	}

	s, err := run.NewSess(run.Opt{Dir: fw.WorkDir(), CPU: c.CPU})
	if err != nil {
		panic(err)
	}
	defer s.Close()
	var b strings.Builder
	if c.Strict {
		b.WriteString("SET @@STRICT_EQUAL TO TRUE;\n")
	}
	b.WriteString("DECLARE t VIEW (" + strings.Join(cols, ", ") + ");\n")
	if n > 0 {
		b.WriteString("INSERT INTO t VALUES ")
		for i, r := range c.Rows {
			if i > 0 {
				b.WriteString(", ")
			}
			b.WriteString("(")
			for j, v := range r {
				if j > 0 {
					b.WriteString(", ")
				}
				b.WriteString(v.SQL())
			}
			b.WriteString(")")
		}
		b.WriteString(";\n")
	}
	b.WriteString(udfDecl)
	if r := s.Exec(b.String()); r.Err != nil {
		return o, fw.V("setup_error", "%v", r.Err)
	}
	sql := "SELECT " + strings.Join(cols, ", ") + ", " + fnSQL(c) + " AS r FROM t"
	par0 := atomic.LoadInt64(&query.VerifParallelTasks)
	tbl, qerr := s.Query(sql)
	if atomic.LoadInt64(&query.VerifParallelTasks) > par0 {
		o.Classes = append(o.Classes, "ran_on_several_workers")
		fw.AddExtra("queries_with_parallel_tasks", 1)
		if n < 160 {
			// below 160 rows per-record work runs on one goroutine: the partitions were divided among workers
			o.Classes = append(o.Classes, "partitions_divided_among_workers_below_record_split_size")
			fw.AddExtra("analytic/partitions_divided_among_workers_below_record_split_size", 1)
			if len(parts) > c.CPU {
				fw.AddExtra("analytic/worker_handles_several_partitions", 1)
			}
		}
	}
	if qerr != nil {
		if c.Fn == "COUNT_STAR" {
			return o, fw.V("count_star_over_error", "%s: %v (%d rows)", sql, qerr, n)
		}
		if run.ErrClass(qerr) == "fatal" && isIn(c.Fn, aggFns) && negativeCapPossible(c.Frame) && strings.Contains(qerr.Error(), "makeslice") {
			return o, fw.V("window_frame_negative_cap_panic", "%s: %v (%d rows)", sql, qerr, n)
		}
		return o, fw.V("analytic_error:"+c.Fn, "%s: %v", sql, qerr)
	}
	// shape, row count, other columns
	if len(tbl.Header) != len(cols)+1 {
		return o, fw.V("result_shape", "%s: header %v", sql, tbl.Header)
	}
	if len(tbl.Rows) != n {
		return o, fw.V("row_count_changed", "%s: %d rows in, %d rows out", sql, n, len(tbl.Rows))
	}
	pos := map[string]int{}
	for i, r := range c.Rows {
		pos[r[cID].S] = i
	}
	got := make([]val.Val, n)
	seen := make([]bool, n)
	for _, r := range tbl.Rows {
		i, ok := pos[r[cID].S]
		if !ok || r[cID].K != "I" || seen[i] {
			return o, fw.V("rows_changed", "%s: output row with id %s is unknown or repeated", sql, r[cID])
		}
		seen[i] = true
		for j := range cols {
			if r[j] != c.Rows[i][j] {
				return o, fw.V("other_column_changed", "%s: id %s column %s: %s became %s", sql, r[cID], cols[j], c.Rows[i][j], r[j])
			}
		}
		got[i] = r[len(cols)]
	}
	res := analyticCheckIn(c, in, got)
	if res.Sig != "" {
		if c.Strict {
			return o, fw.V(res.Sig+":strict_equal", "SET @@STRICT_EQUAL TO TRUE; %s\n  %s\n  rows(id,p1,p2,o1,o2,v,s)=%v", sql, res.Msg, clipRows(c.Rows))
		}
		return o, fw.V(res.Sig, "%s\n  %s\n  rows(id,p1,p2,o1,o2,v,s)=%v", sql, res.Msg, clipRows(c.Rows))
	}
	if res.Reading != "" {
		o.Classes = append(o.Classes, "reading:"+res.Reading)
	}
	if bigParts >= 2 && (ties || c.Frame.Bounded()) {
		o.Fingerprint = fmt.Sprintf("%s|pk%d|ok%d|id%v|%s|ties%v|ign%v|dist%v|strict%v", c.Fn, len(c.Partition), nUser, in.UniqueOrder, c.Frame.Shape(), ties, c.IgnoreNulls, c.Distinct, c.Strict)
	}
	return o, nil
}

func clipRows(rows [][]val.Val) string {
	if len(rows) > 14 {
		return fmt.Sprintf("%v ... (%d rows)", rows[:14], len(rows))
	}
	return fmt.Sprintf("%v", rows)
}

func TestC17Analytic(t *testing.T) {
	fw.Run(t, fw.Spec[anaCase]{
		ID: "C17", Name: "analytic", Quick: 24000, Thorough: 480000,
		Gen: genCase, Check: checkCase,
		Rule: "temporary table (unique id, partition columns with few values + NULL + single-row partitions, order columns with ties and NULLs, integer and string value columns with NULLs; 15% of tables have 160-230 rows with 2-4 partition values and run with --cpu 2-4; 12% have 16-120 rows with up to 42 partition values and run with --cpu 2-8, so that the partitions are divided among workers that each handle several of them although per-record work is not split below 160 rows; 10% of the sessions run with SET @@STRICT_EQUAL TO TRUE over tables whose key cells are canonical - small integers and lowercase words - so that the flag must not change any result) x one analytic call (ROW_NUMBER, RANK, DENSE_RANK, CUME_DIST, PERCENT_RANK, NTILE, FIRST/LAST/NTH_VALUE [IGNORE NULLS], LAG/LEAD [offset, default, IGNORE NULLS], COUNT/SUM/AVG/MIN/MAX/MEDIAN/STDEV/STDEVP/VAR/VARP [DISTINCT], LISTAGG / JSON_AGG [DISTINCT], two user-defined aggregates) OVER (PARTITION BY 0-2, ORDER BY 0-2 [+id], ROWS frames of the documented grammar); the result column is compared by id with a reference evaluator written from the manual, the other columns and the row count must be unchanged; non-trivial = at least two partitions with two or more rows and (ties under the user ORDER BY items or a bounded frame); distinct by (function, #partition items, #order items, id key, frame shape, ties, IGNORE NULLS, DISTINCT, strict-equal); round 7: the user-defined aggregate utag(x, @m) returns the sum followed by the text of its second argument, which is a constant, id, or a text that differs from row to row only in letter case / edge blanks ('k', 'K', ' k ') or in the spelling of a number ('1', '01', '1.0') - equal under csvq's comparison, different as values: each invocation must receive its own row's argument",
		Assumptions: []string{
			"@@STRICT_EQUAL (manual: compare strictly that two values are equal for DISTINCT, GROUP BY and ORDER BY) is only set where every pair of equal key or argument cells is a pair of identical cells; what the flag does to cells that are equal but not identical (1 and '1', 'a' and 'A') is not part of this check",
			"partition and order key values are small integers, lowercase non-numeric strings and NULL; an order column holds one type",
			"order-dependent functions (FIRST/LAST/NTH_VALUE, LAG, LEAD, aggregates with ORDER BY, LISTAGG, JSON_AGG, the order-dependent user aggregate) get id as last ORDER BY item; without any ORDER BY they are only checked order-independently (membership / multiset)",
			"open outcomes accepted: PERCENT_RANK of a one-row partition (0 or 1, consistently); FIRST/LAST/NTH_VALUE with ORDER BY but no windowing clause (whole partition or up to the current row); LAG/LEAD IGNORE NULLS (offset-th non-null row, or the row at the offset else the nearest non-null beyond it)",
			"an ORDER BY item without direction sorts ascending with NULLs first (manual: ASC is the default; NULLS FIRST is the default for ASC)",
			"a frame whose low bound lies after its high bound is empty: COUNT 0, other aggregates and value functions NULL",
			"STDEV / STDEVP / VAR / VARP: NULL when the frame has no non-null value (manual); sample statistics of a single value are undefined (NULL, 0 or NaN accepted); compared with relative tolerance 1e-9",
			"LISTAGG / JSON_AGG (DISTINCT ...) with a unique order: the distinct values in the order of their first or of their last occurrence; without it the set of distinct values",
			fmt.Sprintf("generator keeps away from reported defects while these are true: avoidKnownCountStarOver=%v avoidKnownLastValueMirrored=%v avoidKnownNthValueBeyondFrame=%v avoidKnownFrameNegativeCapPanic=%v", avoidKnownCountStarOver, avoidKnownLastValueMirrored, avoidKnownNthValueBeyondFrame, avoidKnownFrameNegativeCapPanic),
		},
	})
}
