package c17

// Other row sources and other places of the call. The direct and the nested
// check always run "SELECT cols, f(...) OVER (...) AS r FROM <temporary table>"
// with plain columns as PARTITION BY / ORDER BY items. Here the rows the call
// sees come from
//   grouped  GROUP BY query over a base table: the model columns are group keys
//            or aggregates (MIN/MAX/SUM/COUNT), the analytic call partitions /
//            orders by aggregates and takes an aggregate as argument; HAVING
//   join     two tables (CROSS JOIN / JOIN ... ON), qualified column names, a
//            computed unique key
//   file     a CSV / TSV / JSON file (all cells arrive as text resp. JSON values)
//   expr     PARTITION BY / ORDER BY items that are expressions
//   table    the temporary table of the direct check
// and the call stands
//   select     alone in the select list
//   plus / coalesce / case_self   inside a larger select expression
//   order_by   only in the ORDER BY clause of the query (manual: analytic
//              functions can be used in the select clause and the ORDER BY clause)
//   both       in the select list and in the ORDER BY clause, optionally with LIMIT
// The oracle is the evaluator of the direct check applied to the model rows.

import (
	"encoding/json"
	"fmt"
	"sort"
	"strconv"
	"strings"
	"sync/atomic"
	"testing"

	"github.com/mithrandie/csvq/lib/query"
	"pgregory.net/rapid"

	"verif/internal/fw"
	"verif/internal/ref"
	"verif/internal/run"
	"verif/internal/val"
)

type srcCase struct {
	Form string      `json:"form"`           // table | grouped | join | file | expr
	Rows [][]val.Val `json:"rows,omitempty"` // model rows (id, p1, p2, o1, o2, v, s); join: derived from A and B
	Call anaCase     `json:"call"`           // Rows empty; may refer to the extra columns a1, a2 of the form

	Place      string `json:"place"` // select | plus | coalesce | case_self | order_by | both
	OrderDir   string `json:"order_dir,omitempty"`
	OrderNulls string `json:"order_nulls,omitempty"`
	HasLimit   bool   `json:"has_limit,omitempty"`
	Limit      int    `json:"limit,omitempty"`

	// grouped: Mult[i] base rows make model row i; AggCols: model columns rendered as aggregates (the others and id are
	// group keys); VForm: the aggregate that yields v; a1 = COUNT(*), a2 = COUNT(x)
	Mult    []int    `json:"mult,omitempty"`
	AggCols []string `json:"agg_cols,omitempty"`
	VForm   string   `json:"v_form,omitempty"`
	Having  string   `json:"having,omitempty"`

	// join: model row = (a.id * 100 + b.id, a.p1, b.p2, a.o1, b.o2, a.v, b.s), a1 = a.id, a2 = b.id
	A      [][]val.Val `json:"a,omitempty"`
	B      [][]val.Val `json:"b,omitempty"`
	JoinOn string      `json:"join_on,omitempty"` // "" (CROSS JOIN), parity, le

	Format string `json:"format,omitempty"` // file: CSV | TSV | JSON

	// expr: a1 = E1 (partition item), a2 = E2 (order item)
	E1         string `json:"e1,omitempty"`
	E2         string `json:"e2,omitempty"`
	SelectExpr bool   `json:"select_expr,omitempty"` // the expressions also stand in the select list

	CPU int `json:"cpu"`
}

func intOrNull(v val.Val, f func(i int64) val.Val) val.Val {
	if v.IsNull() {
		return val.Null
	}
	return f(v.AsInt())
}

// partition-item expressions (any value type; only equality matters)
var partExprs = map[string]func(r []val.Val) val.Val{
	"COALESCE(p1, 'z')": func(r []val.Val) val.Val {
		if r[cP1].IsNull() {
			return val.Str("z")
		}
		return r[cP1]
	},
	"id % 3": func(r []val.Val) val.Val { return val.Int(r[cID].AsInt() % 3) },
	"p2 IS NULL": func(r []val.Val) val.Val { // boolean; the model only needs its identity
		return val.Str(strings.ToUpper(strconv.FormatBool(r[cP2].IsNull())))
	},
	"CASE WHEN v IS NULL THEN 'n' WHEN v > 5 THEN 'hi' ELSE 'lo' END": func(r []val.Val) val.Val {
		switch {
		case r[cV].IsNull():
			return val.Str("n")
		case r[cV].AsInt() > 5:
			return val.Str("hi")
		}
		return val.Str("lo")
	},
	"p2 + 1": func(r []val.Val) val.Val { return intOrNull(r[cP2], func(i int64) val.Val { return val.Int(i + 1) }) },
}

// order-item expressions (integers or strings, and NULL)
var orderExprs = map[string]func(r []val.Val) val.Val{
	"v * -1": func(r []val.Val) val.Val { return intOrNull(r[cV], func(i int64) val.Val { return val.Int(-i) }) },
	"id % 4": func(r []val.Val) val.Val { return val.Int(r[cID].AsInt() % 4) },
	"COALESCE(v, 0)": func(r []val.Val) val.Val {
		if r[cV].IsNull() {
			return val.Int(0)
		}
		return r[cV]
	},
	"100 - id": func(r []val.Val) val.Val { return val.Int(100 - r[cID].AsInt()) },
	"v + p2": func(r []val.Val) val.Val {
		if r[cV].IsNull() || r[cP2].IsNull() {
			return val.Null
		}
		return val.Int(r[cV].AsInt() + r[cP2].AsInt())
	},
	"COALESCE(o2, 'm')": func(r []val.Val) val.Val {
		if r[cO2].IsNull() {
			return val.Str("m")
		}
		return r[cO2]
	},
}

var (
	srcForms   = []string{"table", "grouped", "grouped", "grouped", "join", "join", "join", "file", "file", "file", "expr", "expr", "expr"}
	srcPlaces  = []string{"select", "select", "plus", "coalesce", "case_self", "order_by", "order_by", "both", "both"}
	havingSQL  = []string{"COUNT(*) > 1", "id % 3 <> 0", "id > 2"}
	joinOns    = []string{"", "", "parity", "le"}
	srcFormats = []string{"CSV", "CSV", "TSV", "JSON"}
)

func genSrc(t *rapid.T) srcCase {
	c := srcCase{Form: pick(t, "form", srcForms), CPU: pick(t, "cpu", []int{1, 1, 2, 4})}
	mode := "small"
	if chance(t, "mediumSource", 8) {
		mode = "medium"
		c.CPU = pick(t, "cpuMedium", []int{2, 4, 8})
	}
	hasA1, hasA2 := false, false
	switch c.Form {
	case "join":
		c.A = genRowsMode(t, mode, true)
		c.B = genRowsMode(t, "small", true)
		if len(c.B) > 6 {
			c.B = c.B[:6]
		}
		c.JoinOn = pick(t, "joinOn", joinOns)
		hasA1, hasA2 = true, true
	default:
		c.Rows = genRowsMode(t, mode, true)
	}
	switch c.Form {
	case "grouped":
		c.Mult = make([]int, len(c.Rows))
		for i := range c.Mult {
			c.Mult[i] = pick(t, "mult", []int{1, 1, 2, 2, 3, 4})
		}
		for _, col := range []string{"p1", "p2", "o1", "o2", "s"} {
			if chance(t, "aggCol", 50) {
				c.AggCols = append(c.AggCols, col)
			}
		}
		c.VForm = pick(t, "vForm", []string{"MAX", "MIN", "SUM"})
		if chance(t, "having", 35) {
			c.Having = pick(t, "havingPred", havingSQL)
		}
		hasA1, hasA2 = true, true
	case "file":
		c.Format = pick(t, "format", srcFormats)
	case "expr":
		c.E1 = pick(t, "e1", fw.SortedKeys(partExprs))
		c.E2 = pick(t, "e2", fw.SortedKeys(orderExprs))
		c.SelectExpr = chance(t, "selectExpr", 40)
		hasA1, hasA2 = true, true
	}
	seen, _ := srcRows(c)
	base := make([][]val.Val, len(seen))
	for i, r := range seen {
		base[i] = r[:len(cols)]
	}
	fns := allFns()
	call := genCall(t, false, base, fns)
	call.Rows = nil
	if hasA1 && chance(t, "a1Partition", 60) {
		switch {
		case len(call.Partition) == 0:
			call.Partition = []string{"a1"}
		case len(call.Partition) == 1 || chance(t, "a1First", 50):
			call.Partition = append([]string{"a1"}, call.Partition[0])
		default:
			call.Partition[1] = "a1"
		}
	}
	if hasA2 && call.Fn != "COUNT_STAR" && chance(t, "a2Order", 60) {
		call.Order = append([]orderItem{{Col: "a2", Dir: pick(t, "a2Dir", []string{"", "ASC", "DESC"}), Nulls: pick(t, "a2Nulls", []string{"", "FIRST", "LAST"})}}, call.Order...)
		if len(call.Order) > 3 {
			call.Order = append(call.Order[:2], call.Order[len(call.Order)-1])
		}
	}
	if c.Form == "grouped" && call.Arg == "v" && chance(t, "a1Arg", 25) {
		call.Arg = "a1" // COUNT(*) as argument
	}
	normalizeCall(&call)
	if c.Form == "grouped" && c.VForm == "SUM" && isIn(call.Fn, listFns) {
		c.VForm = "MAX" // the text form of a float sum is not part of this property
	}
	if c.Form == "file" && call.Fn == "JSON_AGG" && call.Arg == "v" {
		call.Arg = "s" // cells of a text file are strings: JSON_AGG(v) would quote them
	}
	c.Call = call

	c.Place = pick(t, "place", srcPlaces)
	if c.Place == "plus" && !plusOK(call) {
		c.Place = "coalesce"
	}
	if c.Place == "order_by" || c.Place == "both" {
		c.OrderDir = pick(t, "outerDir", []string{"", "ASC", "DESC"})
		c.OrderNulls = pick(t, "outerNulls", []string{"", "", "FIRST", "LAST"})
		if c.HasLimit = chance(t, "outerLimit", 30); c.HasLimit {
			c.Limit = intRange(t, "limit", 0, len(seen)+1)
		}
	}
	return c
}

// plusOK: the call yields numbers (or NULL) only, so "(call) + 1000" can be undone.
func plusOK(c anaCase) bool {
	if isIn(c.Fn, listFns) || (c.HasDefault && c.Default.K == "S") {
		return false
	}
	return c.Arg == "" || c.Arg == "v" || c.Arg == "v + 100" || c.Arg == "a1"
}

func (c srcCase) isAgg(col string) bool { return isIn(col, c.AggCols) }

// baseX: the x cells of the base rows that make a model row with value v under the aggregate form.
func baseX(v val.Val, form string, m int) []val.Val {
	out := make([]val.Val, m)
	if v.IsNull() {
		for j := range out {
			out[j] = val.Null
		}
		return out
	}
	x := v.AsInt()
	hole := -1
	if m >= 3 {
		hole = 1 // one NULL among the base rows: aggregates skip it
	}
	k := 0
	for j := range out {
		if j == hole {
			out[j] = val.Null
			continue
		}
		switch form {
		case "MAX":
			out[j] = val.Int(x - int64(k))
		case "MIN":
			out[j] = val.Int(x + int64(k))
		default: // SUM: first cell carries the rest
			if k == 0 {
				n := m - 1
				if hole >= 0 {
					n--
				}
				out[j] = val.Int(x - 3*int64(n))
			} else {
				out[j] = val.Int(3)
			}
		}
		k++
	}
	return out
}

func joinKeeps(on string, a, b []val.Val) bool {
	switch on {
	case "parity":
		return a[cID].AsInt()%2 == b[cID].AsInt()%2
	case "le":
		return a[cID].AsInt() <= b[cID].AsInt()
	}
	return true
}

// srcRows: the rows the analytic call sees (9 columns: the model columns, a1, a2) and ok=false when the case is malformed.
func srcRows(c srcCase) ([][]val.Val, bool) {
	var out [][]val.Val
	switch c.Form {
	case "join":
		for _, a := range c.A {
			for _, b := range c.B {
				if len(a) != len(cols) || len(b) != len(cols) {
					return nil, false
				}
				if joinKeeps(c.JoinOn, a, b) {
					out = append(out, []val.Val{val.Int(a[cID].AsInt()*100 + b[cID].AsInt()), a[cP1], b[cP2], a[cO1], b[cO2], a[cV], b[cS], a[cID], b[cID]})
				}
			}
		}
	case "grouped":
		if len(c.Mult) != len(c.Rows) {
			return nil, false
		}
		for i, r := range c.Rows {
			if len(r) != len(cols) || c.Mult[i] < 1 || c.Mult[i] > 8 {
				return nil, false
			}
			nonNull := 0
			for _, x := range baseX(r[cV], c.VForm, c.Mult[i]) {
				if !x.IsNull() {
					nonNull++
				}
			}
			keep := true
			switch c.Having {
			case "COUNT(*) > 1":
				keep = c.Mult[i] > 1
			case "id % 3 <> 0":
				keep = r[cID].AsInt()%3 != 0
			case "id > 2":
				keep = r[cID].AsInt() > 2
			}
			if keep {
				out = append(out, append(append([]val.Val(nil), r...), val.Int(int64(c.Mult[i])), val.Int(int64(nonNull))))
			}
		}
	case "expr":
		f1, ok1 := partExprs[c.E1]
		f2, ok2 := orderExprs[c.E2]
		if !ok1 || !ok2 {
			return nil, false
		}
		for _, r := range c.Rows {
			if len(r) != len(cols) {
				return nil, false
			}
			out = append(out, append(append([]val.Val(nil), r...), f1(r), f2(r)))
		}
	default:
		for _, r := range c.Rows {
			if len(r) != len(cols) {
				return nil, false
			}
			out = append(out, append(append([]val.Val(nil), r...), val.Null, val.Null))
		}
	}
	return out, true
}

func paren(e string) string {
	for _, ch := range e {
		if !(ch == '_' || ch == '.' || ('a' <= ch && ch <= 'z') || ('0' <= ch && ch <= '9')) {
			return "(" + e + ")"
		}
	}
	return e
}

// srcMapping: model column name -> SQL expression over the source.
func srcMapping(c srcCase) map[string]string {
	m := map[string]string{}
	for _, col := range extCols {
		m[col] = col
	}
	switch c.Form {
	case "join":
		m = map[string]string{"id": "a.x * 100 + b.y", "p1": "a.p1", "p2": "b.p2", "o1": "a.o1", "o2": "b.o2", "v": "a.v", "s": "b.s", "a1": "a.x", "a2": "b.y"}
	case "grouped":
		for _, col := range []string{"p1", "o1"} {
			if c.isAgg(col) {
				m[col] = "MIN(" + col + ")"
			}
		}
		for _, col := range []string{"p2", "o2", "s"} {
			if c.isAgg(col) {
				m[col] = "MAX(" + col + ")"
			}
		}
		m["v"] = c.VForm + "(x)"
		m["a1"] = "COUNT(*)"
		m["a2"] = "COUNT(x)"
	case "expr":
		m["a1"] = c.E1
		m["a2"] = c.E2
	}
	return m
}

func mappedCallSQL(c anaCase, m map[string]string) string { return mappedCallSQLOpt(c, m, true) }

// mappedCallSQLOpt: parens=false writes the mapped PARTITION BY / ORDER BY items without enclosing parentheses.
func mappedCallSQLOpt(c anaCase, m map[string]string, parens bool) string {
	wrap := paren
	if !parens {
		wrap = func(e string) string { return e }
	}
	d := c
	d.Partition = nil
	for _, p := range c.Partition {
		d.Partition = append(d.Partition, wrap(m[p]))
	}
	d.Order = nil
	for _, o := range c.Order {
		o.Col = wrap(m[o.Col])
		d.Order = append(d.Order, o)
	}
	switch c.Arg {
	case "v", "s", "a1", "a2":
		d.Arg = m[c.Arg]
	case "v + 100":
		d.Arg = m["v"] + " + 100"
	}
	if c.Arg2 == "id" {
		d.Arg2 = m["id"]
	}
	return fnSQL(d)
}

func insertSQL(table string, names []string, rows [][]val.Val) string {
	var b strings.Builder
	b.WriteString("DECLARE " + table + " VIEW (" + strings.Join(names, ", ") + ");\n")
	if len(rows) == 0 {
		return b.String()
	}
	b.WriteString("INSERT INTO " + table + " VALUES ")
	for i, r := range rows {
		if i > 0 {
			b.WriteString(", ")
		}
		b.WriteString("(")
		for j, v := range r {
			if j > 0 {
				b.WriteString(", ")
			}
			b.WriteString(v.SQL())
		}
		b.WriteString(")")
	}
	b.WriteString(";\n")
	return b.String()
}

// fileText renders the model rows as a table file.
func fileText(format string, rows [][]val.Val) string {
	var b strings.Builder
	switch format {
	case "JSON":
		var objs []string
		for _, r := range rows {
			var fs []string
			for j, v := range r {
				var x string
				switch v.K {
				case "N":
					x = "null"
				case "I":
					x = v.S
				default:
					q, _ := json.Marshal(v.S)
					x = string(q)
				}
				fs = append(fs, fmt.Sprintf("%q: %s", cols[j], x))
			}
			objs = append(objs, "{"+strings.Join(fs, ", ")+"}")
		}
		return "[" + strings.Join(objs, ",\n") + "]\n"
	case "TSV":
		b.WriteString(strings.Join(cols, "\t") + "\n")
		for _, r := range rows {
			for j, v := range r {
				if j > 0 {
					b.WriteString("\t")
				}
				switch v.K {
				case "N":
				case "I":
					b.WriteString(v.S)
				default:
					b.WriteString(`"` + v.S + `"`)
				}
			}
			b.WriteString("\n")
		}
	default:
		b.WriteString(strings.Join(cols, ",") + "\n")
		for _, r := range rows {
			for j, v := range r {
				if j > 0 {
					b.WriteString(",")
				}
				switch v.K {
				case "N":
				case "I":
					b.WriteString(v.S)
				default:
					b.WriteString(`"` + v.S + `"`)
				}
			}
			b.WriteString("\n")
		}
	}
	return b.String()
}

// normCell maps csvq's cell onto the model's value space: an integral float is that integer (sums, JSON numbers),
// a boolean / ternary is its name; textInts: a string spelling a canonical integer is that integer (cells of text files).
func normCell(v val.Val, textInts bool) val.Val {
	switch v.K {
	case "F":
		f := v.AsFloat()
		if f == float64(int64(f)) && f > -(1<<53) && f < 1<<53 {
			return val.Int(int64(f))
		}
	case "B", "T":
		return val.Str(strings.ToUpper(v.S))
	case "S":
		if textInts {
			if i, err := strconv.ParseInt(v.S, 10, 64); err == nil && strconv.FormatInt(i, 10) == v.S {
				return val.Int(i)
			}
		}
	}
	return v
}

func srcInDomain(c srcCase, seen [][]val.Val) bool {
	if c.CPU < 1 || !isIn(c.Form, srcForms) || !isIn(c.Place, srcPlaces) {
		return false
	}
	base := make([][]val.Val, len(seen))
	for i, r := range seen {
		base[i] = r[:len(cols)]
	}
	if !rowsInDomain(base) || colHasFloat(base, cO1) {
		return false
	}
	for _, r := range base {
		if r[cO1].K == "S" || (r[cO1].K == "I" && (r[cO1].AsInt() < -1000 || r[cO1].AsInt() > 1000)) {
			return false // this check keeps o1 to small integers
		}
	}
	if c.Form == "join" {
		if !rowsInDomain(c.A) || !rowsInDomain(c.B) || !isIn(c.JoinOn, joinOns) {
			return false
		}
		for _, b := range c.B {
			if b[cID].AsInt() > 99 {
				return false
			}
		}
	}
	if c.Form == "grouped" {
		if !isIn(c.VForm, []string{"MAX", "MIN", "SUM"}) || (c.Having != "" && !isIn(c.Having, havingSQL)) {
			return false
		}
		for _, a := range c.AggCols {
			if !isIn(a, []string{"p1", "p2", "o1", "o2", "s"}) {
				return false
			}
		}
		if c.VForm == "SUM" && isIn(c.Call.Fn, listFns) {
			return false
		}
	}
	if c.Form == "file" && (!isIn(c.Format, srcFormats) || (c.Call.Fn == "JSON_AGG" && c.Call.Arg != "s")) {
		return false
	}
	call := c.Call
	if call.Rows != nil || !callInDomain(call) || !argInDomain(call, true) {
		return false
	}
	if _, isCoalesce := coalesceLiteral(call.Arg); isCoalesce {
		return false
	}
	extra := c.Form == "grouped" || c.Form == "join" || c.Form == "expr"
	for _, p := range call.Partition {
		if colIdx(p) >= len(cols) && !(extra && p == "a1") {
			return false
		}
	}
	for _, o := range call.Order {
		if colIdx(o.Col) >= len(cols) && !(extra && o.Col == "a2") {
			return false
		}
	}
	if (call.Arg == "a1" && c.Form != "grouped") || call.Arg == "a2" {
		return false
	}
	if c.Place == "plus" && !plusOK(call) {
		return false
	}
	if c.HasLimit && (c.Limit < 0 || !(c.Place == "order_by" || c.Place == "both")) {
		return false
	}
	if !isIn(c.OrderDir, []string{"", "ASC", "DESC"}) || !isIn(c.OrderNulls, []string{"", "FIRST", "LAST"}) {
		return false
	}
	// a2 as order key: one type
	return oneKind(seen, colIdx("a2"), "")
}

const (
	plusShift    = 1000
	noneSentinel = "none"
)

func checkSrc(c srcCase) (fw.Outcome, *fw.Violation) {
	o := fw.Outcome{}
	seen, ok := srcRows(c)
	if !ok || !srcInDomain(c, seen) {
		o.Discard = true
		return o, nil
	}
	n := len(seen)
	m := srcMapping(c)
	call := c.Call
	call.Rows = seen
	in := buildInput(call)

	// ---- source ----------------------------------------------------------
	dir := fw.WorkDir()
	var setup, from, tail string
	textInts := false
	switch c.Form {
	case "join":
		var ra, rb [][]val.Val
		for _, a := range c.A {
			ra = append(ra, []val.Val{a[cID], a[cP1], a[cO1], a[cV]})
		}
		for _, b := range c.B {
			rb = append(rb, []val.Val{b[cID], b[cP2], b[cO2], b[cS]})
		}
		setup = insertSQL("ta", []string{"x", "p1", "o1", "v"}, ra) + insertSQL("tb", []string{"y", "p2", "o2", "s"}, rb)
		switch c.JoinOn {
		case "parity":
			from = "ta AS a JOIN tb AS b ON a.x % 2 = b.y % 2"
		case "le":
			from = "ta AS a JOIN tb AS b ON a.x <= b.y"
		default:
			from = "ta AS a CROSS JOIN tb AS b"
		}
	case "grouped":
		// base rows, interleaved: the j-th base row of every group, then the (j+1)-th ...
		var rows [][]val.Val
		for j := 0; j < 8; j++ {
			for i, r := range c.Rows {
				if j >= c.Mult[i] {
					continue
				}
				x := baseX(r[cV], c.VForm, c.Mult[i])[j]
				rows = append(rows, []val.Val{r[cID], r[cP1], r[cP2], r[cO1], r[cO2], x, r[cS]})
			}
		}
		setup = insertSQL("g", []string{"id", "p1", "p2", "o1", "o2", "x", "s"}, rows)
		from = "g"
		keys := []string{"id"}
		for _, col := range []string{"p1", "p2", "o1", "o2", "s"} {
			if !c.isAgg(col) {
				keys = append(keys, col)
			}
		}
		tail = " GROUP BY " + strings.Join(keys, ", ")
		if c.Having != "" {
			tail += " HAVING " + c.Having
		}
	case "file":
		name := "c17_src." + strings.ToLower(c.Format)
		if err := run.WriteFiles(dir, map[string]string{name: fileText(c.Format, c.Rows)}); err != nil {
			panic(err)
		}
		from = "`" + name + "`"
		textInts = c.Format != "JSON"
	default:
		setup = insertSQL("t", cols, c.Rows)
		from = "t"
	}

	// ---- query -----------------------------------------------------------
	callSQL := mappedCallSQL(c.Call, m)
	var list []string
	for _, col := range cols {
		list = append(list, m[col])
	}
	nBase := len(cols)
	showExtra := c.Form == "grouped" || c.Form == "join" || (c.Form == "expr" && c.SelectExpr)
	if showExtra {
		list = append(list, m["a1"]+" AS a1", m["a2"]+" AS a2")
		nBase += 2
	}
	hasR := c.Place != "order_by"
	switch c.Place {
	case "select", "both":
		list = append(list, callSQL+" AS r")
	case "plus":
		list = append(list, fmt.Sprintf("(%s) + %d AS r", callSQL, plusShift))
	case "coalesce":
		list = append(list, fmt.Sprintf("COALESCE(%s, '%s') AS r", callSQL, noneSentinel))
	case "case_self":
		list = append(list, fmt.Sprintf("CASE WHEN %s IS NULL THEN '%s' ELSE %s END AS r", callSQL, noneSentinel, callSQL))
	}
	sql := "SELECT " + strings.Join(list, ", ") + " FROM " + from + tail
	ordered := c.Place == "order_by" || c.Place == "both"
	if ordered {
		item := callSQL
		if c.OrderDir != "" {
			item += " " + c.OrderDir
		}
		if c.OrderNulls != "" {
			item += " NULLS " + c.OrderNulls
		}
		sql += " ORDER BY " + item + ", " + m["id"]
		if c.HasLimit {
			sql += fmt.Sprintf(" LIMIT %d", c.Limit)
		}
	}

	// ---- classes ---------------------------------------------------------
	size := "small"
	if n >= 13 {
		size = "medium_or_larger"
	}
	o.Classes = []string{"form:" + c.Form, "place:" + c.Place, "fn:" + c.Call.Fn, "rows_seen:" + size, fmt.Sprintf("cpu:%d", c.CPU), "frame:" + c.Call.Frame.Shape()}
	usesA1, usesA2 := isIn("a1", c.Call.Partition), hasOrderCol(c.Call, "a2")
	switch c.Form {
	case "grouped":
		o.Classes = append(o.Classes, "grouped:v="+c.VForm, fmt.Sprintf("grouped:aggregate_columns=%d", len(c.AggCols)))
		aggKey := usesA1 || usesA2
		for _, p := range c.Call.Partition {
			aggKey = aggKey || c.isAgg(p)
		}
		for _, ord := range c.Call.Order {
			aggKey = aggKey || c.isAgg(ord.Col)
		}
		if aggKey {
			o.Classes = append(o.Classes, "grouped:aggregate_as_partition_or_order_item")
		}
		if c.Call.Arg != "" && c.Call.Arg != "s" || c.isAgg("s") && c.Call.Arg == "s" {
			o.Classes = append(o.Classes, "grouped:aggregate_as_argument")
		}
		if c.Having != "" {
			o.Classes = append(o.Classes, "grouped:having")
		}
	case "join":
		o.Classes = append(o.Classes, "join:on="+map[string]string{"": "cross", "parity": "parity", "le": "le"}[c.JoinOn])
	case "file":
		o.Classes = append(o.Classes, "file:"+c.Format)
	case "expr":
		o.Classes = append(o.Classes, fmt.Sprintf("expr:partition_item=%v", usesA1), fmt.Sprintf("expr:order_item=%v", usesA2), fmt.Sprintf("expr:also_in_select_list=%v", c.SelectExpr))
	}
	if c.HasLimit {
		o.Classes = append(o.Classes, "outer_limit")
	}

	// ---- csvq ------------------------------------------------------------
	s, err := run.NewSess(run.Opt{Dir: dir, CPU: c.CPU})
	if err != nil {
		panic(err)
	}
	defer s.Close()
	if r := s.Exec(setup + udfDecl); r.Err != nil {
		return o, fw.V("setup_error", "%v", r.Err)
	}
	par0 := atomic.LoadInt64(&query.VerifParallelTasks)
	tbl, qerr := s.Query(sql)
	if atomic.LoadInt64(&query.VerifParallelTasks) > par0 {
		o.Classes = append(o.Classes, "ran_on_several_workers")
	}
	if qerr != nil {
		if c.Form == "grouped" && run.ErrClass(qerr) == "fatal" && strings.Contains(qerr.Error(), "index out of range") && isIn(c.Call.Fn, aggFns) && frameSkipsCurrentRowBackwards(c.Call.Frame) {
			// an aggregate over a group (MIN(x), SUM(x), ...) as argument of an aggregate OVER a frame that ends before the current row
			return o, fw.V("grouped_aggregate_argument_frame_before_current_row_panic", "%s: %v", sql, qerr)
		}
		return o, fw.V("source_error:"+c.Form+":"+c.Place, "%s: %v", sql, qerr)
	}
	width := nBase
	if hasR {
		width++
	}
	if len(tbl.Header) != width {
		return o, fw.V("source_result_shape", "%s: header %v", sql, tbl.Header)
	}
	wantRows := n
	if c.HasLimit && c.Limit < n {
		wantRows = c.Limit
	}
	if len(tbl.Rows) != wantRows {
		return o, fw.V("source_row_count:"+c.Form, "%s: the reference has %d rows, csvq returned %d", sql, wantRows, len(tbl.Rows))
	}
	pos := map[string]int{}
	for i, r := range seen {
		pos[r[cID].S] = i
	}
	got := make([]val.Val, n)
	present := make([]bool, n)
	var seq []int
	for _, r := range tbl.Rows {
		id := normCell(r[cID], textInts)
		i, ok := pos[id.S]
		if !ok || id.K != "I" || present[i] {
			return o, fw.V("source_rows:"+c.Form, "%s: output row with id %s is not among the rows of the reference, or repeated", sql, r[cID])
		}
		present[i] = true
		seq = append(seq, i)
		for j := 0; j < nBase; j++ {
			k := j
			if j >= len(cols) {
				k = len(cols) + (j - len(cols)) // a1, a2
			}
			if g := normCell(r[j], textInts); g != seen[i][k] {
				return o, fw.V("source_column_changed:"+c.Form, "%s: id %s column %s: reference %s, csvq %s", sql, id, extCols[k], seen[i][k], r[j])
			}
		}
		if hasR {
			g := normCell(r[nBase], textInts && !isIn(c.Call.Fn, listFns))
			switch c.Place {
			case "plus":
				switch g.K {
				case "N":
				case "I":
					g = val.Int(g.AsInt() - plusShift)
				case "F":
					g = normCell(val.Float(g.AsFloat()-plusShift), false)
				default:
					return o, fw.V("wrapped_call:plus", "%s: id %s: (call) + %d is %s", sql, id, plusShift, r[nBase])
				}
			case "coalesce", "case_self":
				if g == val.Str(noneSentinel) {
					g = val.Null
				} else if g.IsNull() {
					return o, fw.V("wrapped_call:"+c.Place, "%s: id %s: the wrapped call is NULL", sql, id)
				}
			}
			got[i] = g
		}
	}

	// ---- the call's column -----------------------------------------------------
	complete := wantRows == n
	if hasR && complete {
		res := analyticCheckIn(call, in, got)
		if res.Sig != "" {
			return o, fw.V("source_"+res.Sig+":"+c.Form+":"+c.Place, "%s\n  %s\n  rows the call sees (id,p1,p2,o1,o2,v,s,a1,a2)=%v", sql, res.Msg, clipRows(seen))
		}
	}

	// ---- the order of the result ---------------------------------------------
	orderChecked := false
	if ordered && n > 0 {
		var keys []val.Val
		switch c.Place {
		case "order_by":
			if want, uniq := analyticUnique(call, n); uniq {
				keys = make([]val.Val, n)
				for i, w := range want {
					keys[i] = normCell(w, false)
				}
			}
		case "both":
			if complete {
				keys = got
			}
		}
		if keys != nil && sortableKeys(keys) {
			item := orderItem{Dir: c.OrderDir, Nulls: c.OrderNulls}
			dirc := item.Dir
			if dirc == "" {
				dirc = "ASC"
			}
			nf := dirc == "ASC"
			if item.Nulls != "" {
				nf = item.Nulls == "FIRST"
			}
			items := []ref.AnaOrder{{Desc: dirc == "DESC", NullsFirst: nf}}
			idx := make([]int, n)
			for i := range idx {
				idx[i] = i
			}
			sort.SliceStable(idx, func(a, b int) bool {
				if cmp := ref.AnaCmp([]val.Val{keys[idx[a]]}, []val.Val{keys[idx[b]]}, items); cmp != 0 {
					return cmp < 0
				}
				return seen[idx[a]][cID].AsInt() < seen[idx[b]][cID].AsInt()
			})
			idx = idx[:wantRows]
			for k := range idx {
				if idx[k] != seq[k] {
					return o, fw.V("order_by_analytic_call:"+c.Place, "%s\n  result row #%d has id %s, the reference expects id %s (sort key %s vs %s)\n  rows the call sees (id,p1,p2,o1,o2,v,s,a1,a2)=%v",
						sql, k, seen[seq[k]][cID], seen[idx[k]][cID], keys[seq[k]], keys[idx[k]], clipRows(seen))
				}
			}
			orderChecked = true
			o.Classes = append(o.Classes, "result_order_checked")
		}
	}
	if ordered && !orderChecked && !hasR {
		o.Classes = append(o.Classes, "order_by_only:rows_checked_only")
	}

	// ---- non-trivial -----------------------------------------------------------
	bigParts := 0
	for _, p := range ref.AnaPartitions(in.Part, n) {
		if len(p) >= 2 {
			bigParts++
		}
	}
	if bigParts >= 2 && c.Form != "table" || (c.Form == "table" && c.Place != "select" && bigParts >= 2) {
		if !ordered || orderChecked {
			o.Fingerprint = fmt.Sprintf("%s|%s|%s|a1:%v|a2:%v|%s|%s%s%s", c.Form, c.Place, c.Call.Fn, usesA1, usesA2, c.Call.Frame.Shape(), c.VForm, c.JoinOn, c.Format)
		}
	}
	return o, nil
}

// frameSkipsCurrentRowBackwards: ROWS BETWEEN ... AND n PRECEDING (n >= 1): a row's own value is first needed by a later row's frame.
func frameSkipsCurrentRowBackwards(f ref.AnaFrame) bool {
	return f.Mode == "between" && f.Hi.Kind == "P" && f.Hi.N >= 1
}

// sortableKeys: the non-null keys are all numbers (no NaN) or all strings without digits.
func sortableKeys(keys []val.Val) bool {
	kind := ""
	for _, k := range keys {
		var kk string
		switch k.K {
		case "N":
			continue
		case "I", "F":
			kk = "num"
			if k.K == "F" && k.AsFloat() != k.AsFloat() {
				return false
			}
		case "S":
			kk = "str"
			if strings.ContainsAny(k.S, "0123456789") || strings.TrimSpace(k.S) != k.S || k.S == "" {
				return false
			}
		default:
			return false
		}
		if kind == "" {
			kind = kk
		}
		if kind != kk {
			return false
		}
	}
	return true
}

func TestC17Sources(t *testing.T) {
	fw.Run(t, fw.Spec[srcCase]{
		ID: "C17", Name: "sources", Quick: 12000, Thorough: 240000,
		Gen: genSrc, Check: checkSrc,
		Rule: "one analytic call of the direct check (all functions incl. STDEV/STDEVP/VAR/VARP and DISTINCT list functions) over rows that come from (grouped) a GROUP BY query whose columns are group keys or MIN/MAX/SUM/COUNT aggregates over 1-4 base rows per group (one of them NULL), with aggregates as PARTITION BY / ORDER BY items and as argument, optionally HAVING; (join) CROSS JOIN / JOIN ON of two temporary tables with qualified names and the computed key a.x * 100 + b.y; (file) a CSV, TSV or JSON file; (expr) the temporary table with an expression as PARTITION BY item (COALESCE, %, IS NULL, CASE, +) and as ORDER BY item (*, %, COALESCE, -, +), optionally repeated in the select list; (table) the temporary table; the call stands alone in the select list, inside (call) + 1000 / COALESCE(call, 'none') / CASE WHEN call IS NULL THEN 'none' ELSE call END, only in the ORDER BY clause of the query, or in both (optionally with LIMIT); 8% of the sources have 16-120 rows and run with --cpu 2-8; oracle: the rows and columns of the source must be the model rows, the call's column (wrapping undone) is checked by the evaluator of the direct check over the model rows, and the sequence of the result must be the model rows sorted by (the call's value, id) - for a call only in ORDER BY this needs a call with one admissible result column; non-trivial = two or more partitions of two or more rows, a form or place other than the direct check's, and for ORDER BY places a checked sequence; distinct by (form, place, function, use of the extra items, frame shape, aggregate / join / file variant)",
		Assumptions: []string{
			"o1 holds small integers here (no 64-bit edge values, no floats)",
			"cells of CSV / TSV files are strings; a cell that spells a canonical integer is compared as that integer, an integral float (SUM, JSON number) as that integer; JSON_AGG over such cells (quoted numbers) and LISTAGG / JSON_AGG over a float SUM are not generated",
			"boolean-valued items are used in PARTITION BY only: ORDER BY does not order booleans (known finding of C07: sort_order_bool_like_text), so ranks over a boolean ORDER BY item have no determined value",
			"the sequence of a result ordered by the call is checked when the keys are numbers or plain strings of one type; the query's ORDER BY always ends with the unique id",
			"sample statistics (VAR, STDEV) of a single value: NULL, 0 or NaN accepted",
			"LISTAGG / JSON_AGG (DISTINCT ...) with a unique order: the distinct values in the order of their first or of their last occurrence",
			"the default argument of LAG / LEAD is a literal (whether a per-row expression is evaluated for the current row is not stated in the manual)",
			"assumptions of the direct check apply to the call",
		},
	})
}
