package c06

import (
	"fmt"
	"os"
	"path/filepath"
	"sort"
	"strings"
	"testing"
	"time"

	"github.com/mithrandie/csvq/lib/query"
	"github.com/mithrandie/csvq/lib/value"
	"pgregory.net/rapid"

	"verif/internal/fw"
	"verif/internal/gen"
	"verif/internal/ref"
	"verif/internal/run"
	"verif/internal/val"
)

// rows_ctx: the other sub-checks evaluate every expression once, on literals, FROM DUAL. Here the operands are the
// fields of a table of N records (typed values in a temporary view, or the strings / NULLs a CSV file is imported
// as), N is drawn around the sizes at which csvq splits the records over goroutines (80 per core: 160, 240, 320
// with @@CPU 2-4) and the expressions are evaluated per record in the select list and as WHERE filters. The value
// of an expression must depend on the two values of its record only.

type rowsCase struct {
	Pairs  [][2]val.Val `json:"pairs"`
	Idx    []int        `json:"idx"` // record i holds Pairs[Idx[i]]
	CPU    int          `json:"cpu"`
	Source string       `json:"source"` // view | csv
	Op     string       `json:"op"`     // relational operator of the filters
}

var rowsSizes = []int{1, 2, 3, 5, 8, 13, 79, 80, 81, 159, 160, 161, 239, 240, 241, 319, 320, 321, 400}

func genRows(t *rapid.T) rowsCase {
	k := fw.Range(t, "k", 1, 10)
	c := rowsCase{CPU: fw.Range(t, "cpu", 1, 4), Source: fw.PickU(t, "source", []string{"view", "view", "csv"}), Op: fw.PickU(t, "op", relOps)}
	for i := 0; i < k; i++ {
		a, _ := gen.Value(t)
		b, _ := gen.Value(t)
		switch fw.Range(t, "rel", 0, 5) {
		case 0:
			b = a
		case 1:
			a, _ = gen.Numeric(t)
			b, _ = gen.Numeric(t)
		case 2:
			a, _ = gen.NumericText(t)
		}
		c.Pairs = append(c.Pairs, [2]val.Val{a, b})
	}
	n := rowsSizes[0]
	if fw.Pct(t, "large", 45) {
		n = fw.PickU(t, "nLarge", rowsSizes[6:])
	} else {
		n = fw.PickU(t, "nSmall", rowsSizes[:6])
	}
	c.Idx = rapid.SliceOfN(rapid.IntRange(0, k-1), n, n).Draw(t, "idx")
	return c
}

func csvCell(v val.Val) string {
	if v.IsNull() {
		return ""
	}
	return `"` + strings.ReplaceAll(v.S, `"`, `""`) + `"`
}

var rowsSeq int

func checkRows(c rowsCase) (fw.Outcome, *fw.Violation) {
	o := fw.Outcome{}
	n := len(c.Idx)
	if n == 0 || len(c.Pairs) == 0 || c.CPU < 1 {
		o.Discard = true
		return o, nil
	}
	for _, ix := range c.Idx {
		if ix < 0 || ix >= len(c.Pairs) {
			o.Discard = true
			return o, nil
		}
	}
	for _, p := range c.Pairs {
		if ref.OutsideModel(p[0]) || ref.OutsideModel(p[1]) {
			o.Discard = true
			return o, nil
		}
	}
	rowsSeq++
	dir := filepath.Join(fw.WorkDir(), fmt.Sprintf("rows%d", rowsSeq))
	if err := os.MkdirAll(dir, 0755); err != nil {
		return o, fw.Harness("%v", err)
	}
	defer os.RemoveAll(dir)
	s, err := run.NewSess(run.Opt{Dir: dir, CPU: c.CPU})
	if err != nil {
		return o, fw.Harness("%v", err)
	}
	defer s.Close()

	table := "t"
	if c.Source == "csv" {
		var b strings.Builder
		b.WriteString("id,a,b\n")
		for i, ix := range c.Idx {
			fmt.Fprintf(&b, "%d,%s,%s\n", i+1, csvCell(c.Pairs[ix][0]), csvCell(c.Pairs[ix][1]))
		}
		if err := os.WriteFile(filepath.Join(dir, "t.csv"), []byte(b.String()), 0644); err != nil {
			return o, fw.Harness("%v", err)
		}
		table = "`t.csv`"
	} else {
		var b strings.Builder
		b.WriteString("DECLARE t VIEW (id, a, b); INSERT INTO t VALUES ")
		for i, ix := range c.Idx {
			if i > 0 {
				b.WriteString(", ")
			}
			fmt.Fprintf(&b, "(%d, %s, %s)", i+1, c.Pairs[ix][0].SQL(), c.Pairs[ix][1].SQL())
		}
		if r := s.Exec(b.String()); r.Err != nil {
			return o, fw.V("rows_insert_error", "INSERT of %d typed records: %v", n, r.Err)
		}
	}
	readBack := func() ([][2]val.Val, *fw.Violation) {
		tbl, err := s.Query("SELECT id, a, b FROM " + table)
		if err != nil {
			return nil, fw.V("rows_read_error", "SELECT id, a, b FROM %s: %v", table, err)
		}
		if len(tbl.Rows) != n {
			return nil, fw.V("rows_read_count", "%d records stored, %d read", n, len(tbl.Rows))
		}
		out := make([][2]val.Val, n)
		for i, r := range tbl.Rows {
			if got := r[0]; got.S != fmt.Sprint(i+1) {
				return nil, fw.V("rows_read_order", "record %d has id %s", i+1, got)
			}
			out[i] = [2]val.Val{r[1], r[2]}
		}
		return out, nil
	}
	ops, v := readBack()
	if v != nil {
		return o, v
	}
	for i, ix := range c.Idx {
		for j := 0; j < 2; j++ {
			want := c.Pairs[ix][j]
			if c.Source == "csv" && !want.IsNull() {
				want = val.Str(want.S)
			}
			if !sameVal(ops[i][j], want) {
				return o, fw.V("rows_stored_value", "record %d field %d: stored %s, read %s (source %s)", i+1, j+1, want, ops[i][j], c.Source)
			}
		}
	}

	// expectation per distinct operand pair, from the library functions applied to the two values alone
	type exp struct {
		cmp   map[string]int
		arith map[string]val.Val
		ta    int
		tb    int
		neg   calcRes
		null  bool
	}
	expOf := map[[2]val.Val]*exp{}
	for i := range ops {
		if _, ok := expOf[ops[i]]; ok {
			continue
		}
		a, b := ops[i][0], ops[i][1]
		e := &exp{cmp: map[string]int{}, arith: map[string]val.Val{}}
		for _, op := range append(append([]string{}, relOps...), "==") {
			e.cmp[op] = run.TernInt(value.Compare(run.ToPrimary(a), run.ToPrimary(b), op, nil, time.UTC))
		}
		e.cmp["aa="] = run.TernInt(value.Compare(run.ToPrimary(a), run.ToPrimary(a), "=", nil, time.UTC))
		for _, op := range []string{"+", "-", "*"} {
			r, err := query.Calculate(run.ToPrimary(a), run.ToPrimary(b), int(op[0]))
			if err != nil {
				return o, fw.Harness("Calculate %s: %v", op, err)
			}
			e.arith[op] = run.FromPrimary(r)
		}
		e.ta, e.tb = run.TernInt(run.ToPrimary(a).Ternary()), run.TernInt(run.ToPrimary(b).Ternary())
		e.neg = refUnary(a, "-")
		e.null = a.IsNull()
		expOf[ops[i]] = e
	}

	cols := []struct {
		name, sql string
		want      func(e *exp) (val.Val, bool)
	}{}
	tern := func(name, sql string, f func(e *exp) int) {
		cols = append(cols, struct {
			name, sql string
			want      func(e *exp) (val.Val, bool)
		}{name, sql, func(e *exp) (val.Val, bool) { return val.Tern(f(e)), true }})
	}
	for _, op := range append(append([]string{}, relOps...), "==") {
		op := op
		tern("a"+op+"b", "a "+op+" b", func(e *exp) int { return e.cmp[op] })
	}
	for _, op := range []string{"+", "-", "*"} {
		op := op
		cols = append(cols, struct {
			name, sql string
			want      func(e *exp) (val.Val, bool)
		}{"a" + op + "b", "a " + op + " b", func(e *exp) (val.Val, bool) { return e.arith[op], true }})
	}
	cols = append(cols, struct {
		name, sql string
		want      func(e *exp) (val.Val, bool)
	}{"-a", "-a", func(e *exp) (val.Val, bool) { return e.neg.V, !e.neg.Open }})
	tern("and", "a AND b", func(e *exp) int { return ref.And(e.ta, e.tb) })
	tern("or", "a OR b", func(e *exp) int { return ref.Or(e.ta, e.tb) })
	tern("not", "NOT a", func(e *exp) int { return ref.Not(e.ta) })
	b2t := func(x bool) int {
		if x {
			return ref.T
		}
		return ref.F
	}
	tern("istrue", "a IS TRUE", func(e *exp) int { return b2t(e.ta == ref.T) })
	tern("isnull", "a IS NULL", func(e *exp) int { return b2t(e.null) })
	tern("between", "a BETWEEN b AND b", func(e *exp) int { return ref.And(e.cmp[">="], e.cmp["<="]) })
	tern("in", "a IN (b, a)", func(e *exp) int { return ref.Or(e.cmp["="], e.cmp["aa="]) })
	tern("any", "a "+c.Op+" ANY (b, b)", func(e *exp) int { return e.cmp[c.Op] })
	cols = append(cols, struct {
		name, sql string
		want      func(e *exp) (val.Val, bool)
	}{"case", "CASE a WHEN b THEN 1 ELSE 0 END", func(e *exp) (val.Val, bool) {
		if e.cmp["="] == ref.T {
			return val.Int(1), true
		}
		return val.Int(0), true
	}})
	cols = append(cols, struct {
		name, sql string
		want      func(e *exp) (val.Val, bool)
	}{"case_searched", "CASE WHEN a THEN 1 WHEN b THEN 2 END", func(e *exp) (val.Val, bool) {
		switch {
		case e.ta == ref.T:
			return val.Int(1), true
		case e.tb == ref.T:
			return val.Int(2), true
		}
		return val.Null, true
	}})

	sel := make([]string, len(cols))
	for i, cl := range cols {
		sel[i] = "(" + cl.sql + ")"
	}
	q1 := fmt.Sprintf("SELECT id, %s FROM %s", strings.Join(sel, ", "), table)
	tbl, err := s.Query(q1)
	if err != nil {
		return o, fw.V("rows_select_error", "%s (%d records, @@CPU %d): %v", q1, n, c.CPU, err)
	}
	if len(tbl.Rows) != n {
		return o, fw.V("rows_select_count", "%s: %d records in, %d out", q1, n, len(tbl.Rows))
	}
	for i, r := range tbl.Rows {
		if r[0].S != fmt.Sprint(i+1) {
			return o, fw.V("rows_select_order", "%s: record %d has id %s", q1, i+1, r[0])
		}
		e := expOf[ops[i]]
		for k, cl := range cols {
			want, ok := cl.want(e)
			if !ok {
				continue
			}
			if !sameVal(r[k+1], want) {
				return o, fw.V("rows_value:"+cl.name, "record %d of %d (@@CPU %d, source %s) a=%s b=%s: %s => %s, the same values alone give %s", i+1, n, c.CPU, c.Source, ops[i][0], ops[i][1], cl.sql, r[k+1], want)
			}
		}
	}
	// filters: the three conditions partition the records by the ternary value of the comparison
	ids := func(q string) ([]int, *fw.Violation) {
		t2, err := s.Query(q)
		if err != nil {
			return nil, fw.V("rows_filter_error", "%s: %v", q, err)
		}
		var out []int
		for _, r := range t2.Rows {
			out = append(out, int(r[0].AsInt()))
		}
		sort.Ints(out)
		return out, nil
	}
	cond := "a " + c.Op + " b"
	for _, f := range []struct {
		sql  string
		want int
	}{{cond, ref.T}, {"NOT (" + cond + ")", ref.F}, {"(" + cond + ") IS UNKNOWN", ref.U}} {
		q := fmt.Sprintf("SELECT id FROM %s WHERE %s", table, f.sql)
		got, v := ids(q)
		if v != nil {
			return o, v
		}
		var want []int
		for i := range ops {
			if expOf[ops[i]].cmp[c.Op] == f.want {
				want = append(want, i+1)
			}
		}
		if fmt.Sprint(got) != fmt.Sprint(want) {
			return o, fw.V("rows_filter", "%s (%d records, @@CPU %d): kept ids %v, the records whose comparison is %s are %v", q, n, c.CPU, clipInts(got), ref.TernName(f.want), clipInts(want))
		}
	}
	// evaluation must not have changed the stored values
	after, v := readBack()
	if v != nil {
		return o, v
	}
	for i := range ops {
		if !sameVal(after[i][0], ops[i][0]) || !sameVal(after[i][1], ops[i][1]) {
			return o, fw.V("rows_values_changed", "record %d: (%s, %s) before the queries, (%s, %s) after", i+1, ops[i][0], ops[i][1], after[i][0], after[i][1])
		}
	}
	routines := 1
	if n/80 > 1 {
		routines = n / 80
		if routines > c.CPU {
			routines = c.CPU
		}
	}
	o.Classes = append(o.Classes, "rows:source="+c.Source, fmt.Sprintf("rows:goroutines=%d", routines), fmt.Sprintf("rows:n=%d", n))
	if routines > 1 {
		o.Fingerprint = fmt.Sprintf("%s|n=%d|cpu=%d|%s|k=%d", c.Source, n, c.CPU, c.Op, len(c.Pairs))
	}
	return o, nil
}

func clipInts(x []int) string {
	if len(x) > 12 {
		return fmt.Sprintf("%v... (%d)", x[:12], len(x))
	}
	return fmt.Sprint(x)
}

func TestC06RowsCtx(t *testing.T) {
	fw.Run(t, fw.Spec[rowsCase]{
		ID: "C06", Name: "rows_ctx", Quick: 1200, Thorough: 20000,
		Gen: genRows, Check: checkRows,
		Rule: "a table of N records (N in 1-13 or around the goroutine split sizes 80/160/240/320, up to 400) whose fields a, b hold 1-10 distinct operand pairs from all value classes, stored as typed values in a temporary view or as a CSV file (fields imported as strings, empty fields as NULL), queried in a session with @@CPU 1-4 (own session and directory per case): SELECT id, a=b, a<>b, a<b, a<=b, a>b, a>=b, a==b, a+b, a-b, a*b, -a, a AND b, a OR b, NOT a, a IS TRUE, a IS NULL, a BETWEEN b AND b, a IN (b, a), a op ANY (b, b), simple and searched CASE FROM t must give for every record what value.Compare / query.Calculate / the Kleene tables give for the two values of that record alone; WHERE a op b, WHERE NOT (a op b), WHERE (a op b) IS UNKNOWN must keep exactly the records whose comparison is TRUE / FALSE / UNKNOWN; the stored values read the same before and after; non-trivial = the records are split over more than one goroutine, distinct by (source, N, @@CPU, operator, number of distinct pairs)",
		Assumptions: []string{"the expectation per record comes from csvq's own library functions on the two values (their agreement with the manual is the subject of cmp_direct / arith): this sub-check judges independence from the evaluation context only",
			"the order of the records kept by a filter is not judged (ids are compared as sets)"},
	})
}
