package c06

import (
	"fmt"
	"strings"
	"testing"
	"time"

	"pgregory.net/rapid"

	"verif/internal/fw"
	"verif/internal/run"
)

// tz_spellings: the datetime step of the ladder reads a zone-less datetime string in the session time zone
// (@@TIMEZONE) whatever its documented spelling, and a string with an explicit offset as that instant. The
// other C06 sub-checks run under UTC, where both readings coincide.

type tzCase struct {
	Zone string `json:"zone"`
	A    tzTime `json:"a"`
	B    tzTime `json:"b"`
}

type tzTime struct {
	Y, Mo, D, H, Mi, S int
	Frac               string `json:"frac"` // "" or digits
	Spelling           string `json:"spelling"`
}

var tzZones = []string{"Asia/Tokyo", "America/Los_Angeles", "Europe/Berlin", "Asia/Kolkata", "UTC"}

var tzSpellings = []string{"dash_space", "slash_space", "dash_T", "dash_short", "slash_short", "rfc3339_local", "rfc3339_utc", "space_colon_offset", "space_offset_other"}

func genTzTime(t *rapid.T, label string) tzTime {
	// months with daylight-saving transitions in the DST zones are left out: a wall-clock time inside a
	// transition has no unique instant
	mo := fw.PickU(t, label+"mo", []int{1, 2, 4, 5, 6, 7, 8, 9, 12})
	x := tzTime{Y: fw.Range(t, label+"y", 1990, 2035), Mo: mo, D: fw.Range(t, label+"d", 1, 28)}
	if !fw.Pct(t, label+"midnight", 15) {
		x.H, x.Mi, x.S = fw.Range(t, label+"h", 0, 23), fw.Range(t, label+"mi", 0, 59), fw.Range(t, label+"s", 0, 59)
		if fw.Pct(t, label+"frac", 30) {
			x.Frac = fw.PickU(t, label+"fracv", []string{"5", "25", "123", "000001", "123456789"})
		}
	}
	x.Spelling = fw.PickU(t, label+"sp", tzSpellings)
	return x
}

func (x tzTime) instant(loc *time.Location) time.Time {
	ns := 0
	if x.Frac != "" {
		f := (x.Frac + "000000000")[:9]
		fmt.Sscanf(f, "%d", &ns)
	}
	return time.Date(x.Y, time.Month(x.Mo), x.D, x.H, x.Mi, x.S, ns, loc)
}

func (x tzTime) text(loc *time.Location) string {
	frac := ""
	if x.Frac != "" {
		frac = "." + x.Frac
	}
	at := x.instant(loc)
	switch x.Spelling {
	case "dash_space":
		return fmt.Sprintf("%04d-%02d-%02d %02d:%02d:%02d%s", x.Y, x.Mo, x.D, x.H, x.Mi, x.S, frac)
	case "slash_space":
		return fmt.Sprintf("%04d/%02d/%02d %02d:%02d:%02d%s", x.Y, x.Mo, x.D, x.H, x.Mi, x.S, frac)
	case "dash_T":
		return fmt.Sprintf("%04d-%02d-%02dT%02d:%02d:%02d%s", x.Y, x.Mo, x.D, x.H, x.Mi, x.S, frac)
	case "dash_short":
		return fmt.Sprintf("%04d-%d-%d %02d:%02d:%02d%s", x.Y, x.Mo, x.D, x.H, x.Mi, x.S, frac)
	case "slash_short":
		return fmt.Sprintf("%04d/%d/%d %02d:%02d:%02d%s", x.Y, x.Mo, x.D, x.H, x.Mi, x.S, frac)
	case "rfc3339_local":
		return at.Format(time.RFC3339Nano)
	case "rfc3339_utc":
		return at.UTC().Format(time.RFC3339Nano)
	case "space_colon_offset":
		return at.Format("2006-01-02 15:04:05.999999999 -07:00")
	default: // space_offset_other
		return at.In(time.FixedZone("", -3*3600-30*60)).Format("2006/01/02 15:04:05.999999999 -0700")
	}
}

func genTz(t *rapid.T) tzCase {
	c := tzCase{Zone: fw.PickU(t, "zone", tzZones)}
	c.A = genTzTime(t, "a")
	switch fw.Range(t, "rel", 0, 3) {
	case 0, 1: // the same wall-clock time in another spelling
		c.B = c.A
		c.B.Spelling = fw.PickU(t, "bsp", tzSpellings)
	case 2: // a few hours apart: differs only if the zone is applied consistently
		c.B = c.A
		c.B.Spelling = fw.PickU(t, "bsp", tzSpellings)
		c.B.H = (c.A.H + fw.Range(t, "dh", 1, 12)) % 24
	default:
		c.B = genTzTime(t, "b")
	}
	return c
}

var tzSess *run.Sess

func checkTz(c tzCase) (fw.Outcome, *fw.Violation) {
	o := fw.Outcome{}
	loc, err := time.LoadLocation(c.Zone)
	if err != nil {
		return o, fw.Harness("zone %s: %v", c.Zone, err)
	}
	if tzSess == nil {
		s, err := run.NewSess(run.Opt{Dir: fw.WorkDir()})
		if err != nil {
			return o, fw.Harness("%v", err)
		}
		tzSess = s
	}
	if r := tzSess.Exec(fmt.Sprintf("SET @@TIMEZONE TO '%s'", c.Zone)); r.Err != nil {
		err := r.Err
		return o, fw.Harness("SET @@TIMEZONE: %v", err)
	}
	a, b := c.A.text(loc), c.B.text(loc)
	ia, ib := c.A.instant(loc), c.B.instant(loc)
	sql := fmt.Sprintf("SELECT '%s' = '%s', '%s' < '%s', '%s' > '%s', '%s' <> '%s', DATETIME('%s') = DATETIME('%s'), '%s' BETWEEN '%s' AND '%s', '%s' IN ('%s')",
		a, b, a, b, a, b, a, b, a, b, a, b, b, a, b)
	tbl, qerr := tzSess.Query(sql)
	if qerr != nil {
		return o, fw.V("tz_error", "%s under @@TIMEZONE %s: %v", sql, c.Zone, qerr)
	}
	want := []bool{ia.Equal(ib), ia.Before(ib), ia.After(ib), !ia.Equal(ib), ia.Equal(ib), ia.Equal(ib), ia.Equal(ib)}
	names := []string{"=", "<", ">", "<>", "DATETIME()=", "BETWEEN self", "IN"}
	for i, w := range want {
		g := tbl.Rows[0][i]
		tv, ok := ternOf(g)
		if !ok || tv == 0 || (tv > 0) != w {
			return o, fw.V("tz_spelling_"+strings.SplitN(names[i], " ", 2)[0], "@@TIMEZONE %s: '%s' %s '%s' = %s, expected %v (instants %s vs %s)\n%s", c.Zone, a, names[i], b, g, w, ia.UTC().Format(time.RFC3339Nano), ib.UTC().Format(time.RFC3339Nano), sql)
		}
	}
	o.Classes = append(o.Classes, "zone="+c.Zone, "a="+c.A.Spelling, "b="+c.B.Spelling)
	if c.Zone != "UTC" && c.A.Spelling != c.B.Spelling {
		o.Fingerprint = fmt.Sprintf("%s|%s|%s|%v", c.Zone, c.A.Spelling, c.B.Spelling, want[0])
	}
	return o, nil
}

func TestC06TzSpellings(t *testing.T) {
	fw.Run(t, fw.Spec[tzCase]{
		ID: "C06", Name: "tz_spellings", Quick: 6000, Thorough: 150000,
		Gen: genTz, Check: checkTz,
		Rule: "two wall-clock times (equal, hours apart, or unrelated) each written in one of nine documented datetime spellings (zone-less: dash/slash, padded/unpadded, 'T'; with offset: RFC3339 local/UTC, ' -07:00', ' -0700' in a third zone) compared with =, <, >, <>, DATETIME()=, BETWEEN, IN in a session whose @@TIMEZONE is set per case (Tokyo, Los Angeles, Berlin, Kolkata, UTC); expected from the instants computed with Go's time package in that zone (months with DST transitions excluded); non-trivial = non-UTC zone and two different spellings, distinct by (zone, spellings, equal?)",
	})
}
