package c06

import (
	"fmt"
	"strings"
	"testing"

	"pgregory.net/rapid"

	"verif/internal/fw"
	"verif/internal/gen"
	"verif/internal/ref"
	"verif/internal/run"
	"verif/internal/val"
)

// row_values: the relational operators, BETWEEN, IN, ANY and ALL over ROW VALUES ("(a, b) < (c, d)",
// "row_value BETWEEN row_value AND row_value", "row_value IN (row_value, ...)", "row_value op ANY (subquery)"),
// which the manual documents next to the single-value forms: "Values at the same indices are compared in order
// from left to right". None of the other C06 sub-checks builds a row value, so value.CompareRowValues and the
// row-value branches of evalComparison / evalBetween / evalIn / evalAny / evalAll are reached only here.

type rowCase struct {
	A      []val.Val `json:"a"`
	B      []val.Val `json:"b"`
	C      []val.Val `json:"c"`
	Op     string    `json:"op"`      // operator used for the subquery / context items
	Ctx    string    `json:"ctx"`     // where | having | orderby : second evaluation context of "A op B"
	BadLen bool      `json:"bad_len"` // additionally: a comparison of rows of different lengths must be refused
}

var rowElemStrings = []string{"a", "A", " a", "b", "B ", "abc", "ABC", "", "x y"}

var rowKindWeights = []int{30, 12, 10, 8, 16, 6, 4, 6, 8}

// genRowElemLike: an element that is usually commensurable with a (same family of kinds).
func genRowElemLike(t *rapid.T, label string, a val.Val) val.Val {
	if fw.Pct(t, label+"like", 65) {
		_, isNum := ref.AsFloat(a)
		_, isDt := ref.AsDatetime(a)
		switch {
		case isNum:
			return genRowElemOf(t, label, fw.PickU(t, label+"numkind", []int{0, 0, 1, 2}))
		case isDt:
			return genRowElemOf(t, label, 7)
		case a.K == "S":
			return genRowElemOf(t, label, 4)
		case a.K == "B" || a.K == "T":
			return genRowElemOf(t, label, fw.PickU(t, label+"boolkind", []int{5, 6}))
		}
	}
	return genRowElem(t, label)
}

func genRowElem(t *rapid.T, label string) val.Val {
	return genRowElemOf(t, label, fw.Weighted(t, label+"kind", rowKindWeights))
}

func genRowElemOf(t *rapid.T, label string, kind int) val.Val {
	switch kind {
	case 0:
		return val.Int(int64(fw.Range(t, label+"int", -2, 3)))
	case 1:
		return val.Str(fw.PickU(t, label+"pad", []string{"", " ", "\t"}) + fmt.Sprint(fw.Range(t, label+"sint", -2, 3)) + fw.PickU(t, label+"pad2", []string{"", " "}))
	case 2:
		return val.Float(float64(fw.Range(t, label+"quarter", -8, 12)) / 4)
	case 3:
		return val.Null
	case 4:
		return val.Str(fw.PickU(t, label+"str", rowElemStrings))
	case 5:
		return val.Bool(fw.Pct(t, label+"bool", 50))
	case 6:
		return val.Tern(fw.Range(t, label+"tern", -1, 1))
	case 7:
		return val.Str(fw.PickU(t, label+"dt", []string{"2012-02-03", "2012/02/03", "2012-02-03 00:00:00", "2012-02-04T00:00:00Z", "2011-12-31"}))
	default:
		v, _ := gen.Value(t)
		return v
	}
}

// equivOf: the same value or another spelling of it that the ladder treats as equal.
func equivOf(t *rapid.T, label string, v val.Val) val.Val {
	switch v.K {
	case "I":
		switch fw.Range(t, label+"eqI", 0, 3) {
		case 0:
			return val.Str(" " + v.S + " ")
		case 1:
			if i := v.AsInt(); -(1<<53) <= i && i <= 1<<53 {
				return val.Float(float64(i))
			}
		}
	case "S":
		if fw.Pct(t, label+"eqS", 40) {
			u := strings.ToUpper(v.S) + " "
			if !ref.FoldAmbiguous(v.S, u) {
				return val.Str(u)
			}
		}
	case "B":
		if fw.Pct(t, label+"eqB", 40) {
			if v.AsBool() {
				return val.Str("true")
			}
			return val.Int(0)
		}
	}
	return v
}

func genRelatedRow(t *rapid.T, label string, a []val.Val) []val.Val {
	b := make([]val.Val, len(a))
	// a prefix of equal elements of drawn length makes the later indices decide
	eqPrefix := fw.Range(t, label+"prefix", 0, len(a))
	for i := range a {
		l := fmt.Sprintf("%s%d", label, i)
		if i < eqPrefix || fw.Pct(t, l+"same", 25) {
			b[i] = equivOf(t, l, a[i])
		} else {
			b[i] = genRowElemLike(t, l, a[i])
		}
	}
	return b
}

func genRow(t *rapid.T) rowCase {
	n := []int{2, 2, 2, 3, 3, 4}[fw.Uniform(t, "n", 6)]
	c := rowCase{A: make([]val.Val, n)}
	for i := range c.A {
		c.A[i] = genRowElem(t, fmt.Sprintf("a%d", i))
	}
	c.B = genRelatedRow(t, "b", c.A)
	c.C = genRelatedRow(t, "c", c.A)
	c.Op = fw.PickU(t, "op", relOps)
	c.Ctx = fw.PickU(t, "ctx", []string{"where", "where", "having", "orderby"})
	c.BadLen = fw.Pct(t, "badlen", 12)
	return c
}

func rowSQL(r []val.Val) string {
	p := make([]string, len(r))
	for i, v := range r {
		p[i] = v.SQL()
	}
	return "(" + strings.Join(p, ", ") + ")"
}

// rowFields: select list of a subquery; the fields are named (a set operation refuses equal field names).
func rowFields(r []val.Val) string {
	p := make([]string, len(r))
	for i, v := range r {
		p[i] = fmt.Sprintf("%s AS f%d", v.SQL(), i+1)
	}
	return strings.Join(p, ", ")
}

// elemStates: relation of the elements at each index, from the single-value comparison (whose agreement with the
// documented ladder is what cmp_direct / sql_expr establish):
// E equal with an order, L less, G greater, B equal as booleans (no order), N not equal without an order, U unknown.
func elemStates(a, b []val.Val) string {
	s := make([]byte, len(a))
	for i := range a {
		eq, lt, gt, le := cmpDirect(a[i], b[i], "="), cmpDirect(a[i], b[i], "<"), cmpDirect(a[i], b[i], ">"), cmpDirect(a[i], b[i], "<=")
		switch {
		case eq == ref.T && le == ref.T:
			s[i] = 'E'
		case lt == ref.T:
			s[i] = 'L'
		case gt == ref.T:
			s[i] = 'G'
		case eq == ref.T:
			s[i] = 'B'
		case eq == ref.F:
			s[i] = 'N'
		default:
			s[i] = 'U'
		}
	}
	return string(s)
}

// rowAccept returns the set of admissible results (bit 0 FALSE, bit 1 UNKNOWN, bit 2 TRUE) of "A op B" for the given
// element states. = is the conjunction of the element equalities and <> its negation; where an element comparison is
// UNKNOWN and another one is FALSE the manual does not say whether the FALSE wins (Kleene) or the whole comparison
// is UNKNOWN: both are accepted. The ordering operators are decided by the first index that is not equal; an
// unordered element there gives UNKNOWN (for elements equal as booleans the reading is open: any result).
func rowAccept(states string, op string) int {
	const f, u, tr = 1, 2, 4
	bit := func(x int) int { return 1 << uint(x+1) }
	switch op {
	case "=", "<>", "!=":
		anyNe, anyU := false, false
		for _, s := range states {
			switch s {
			case 'L', 'G', 'N':
				anyNe = true
			case 'U':
				anyU = true
			}
		}
		eq := ref.T
		if anyNe {
			eq = ref.F
		} else if anyU {
			eq = ref.U
		}
		acc := bit(eq)
		if anyU {
			acc |= u
		}
		if op != "=" {
			// negate the set
			n := acc & u
			if acc&f != 0 {
				n |= tr
			}
			if acc&tr != 0 {
				n |= f
			}
			return n
		}
		return acc
	}
	for _, s := range states {
		switch s {
		case 'E':
			continue
		case 'L':
			if op == "<" || op == "<=" {
				return tr
			}
			return f
		case 'G':
			if op == ">" || op == ">=" {
				return tr
			}
			return f
		case 'B':
			return f | u | tr
		default:
			return u
		}
	}
	if op == "<=" || op == ">=" {
		return tr
	}
	return f
}

func identicalAccept(a, b []val.Val) int {
	anyF, anyU := false, false
	for i := range a {
		switch ref.Identical(a[i], b[i]) {
		case ref.F:
			anyF = true
		case ref.U:
			anyU = true
		}
	}
	switch {
	case anyF && anyU:
		return 1 | 2
	case anyF:
		return 1
	case anyU:
		return 2
	}
	return 4
}

func checkRow(c rowCase) (fw.Outcome, *fw.Violation) {
	o := fw.Outcome{}
	if len(c.A) < 2 || len(c.B) != len(c.A) || len(c.C) != len(c.A) {
		o.Discard = true
		return o, nil
	}
	for _, r := range [][]val.Val{c.A, c.B, c.C} {
		for _, v := range r {
			if ref.OutsideModel(v) {
				o.Discard = true
				return o, nil
			}
		}
	}
	a, b, cc := rowSQL(c.A), rowSQL(c.B), rowSQL(c.C)
	type item struct{ name, sql string }
	var items []item
	add := func(name, sql string) { items = append(items, item{name, sql}) }
	allOps := append(append([]string{}, relOps...), "==", "!=")
	for _, op := range allOps {
		add("ab"+op, fmt.Sprintf("%s %s %s", a, op, b))
		add("ba"+op, fmt.Sprintf("%s %s %s", b, op, a))
		add("ac"+op, fmt.Sprintf("%s %s %s", a, op, cc))
	}
	add("between", fmt.Sprintf("%s BETWEEN %s AND %s", a, b, cc))
	add("notbetween", fmt.Sprintf("%s NOT BETWEEN %s AND %s", a, b, cc))
	add("in", fmt.Sprintf("%s IN (%s, %s)", a, b, cc))
	add("notin", fmt.Sprintf("%s NOT IN (%s, %s)", a, b, cc))
	add("in1", fmt.Sprintf("%s IN (%s)", a, b))
	add("in3", fmt.Sprintf("%s IN (%s, %s, %s)", a, cc, b, cc))
	for _, op := range relOps {
		add("any"+op, fmt.Sprintf("%s %s ANY (%s, %s)", a, op, b, cc))
		add("all"+op, fmt.Sprintf("%s %s ALL (%s, %s)", a, op, b, cc))
	}
	sub2 := fmt.Sprintf("(SELECT %s UNION ALL SELECT %s)", rowFields(c.B), rowFields(c.C))
	sub1 := fmt.Sprintf("(SELECT %s)", rowFields(c.B))
	empty := fmt.Sprintf("(SELECT %s FROM DUAL WHERE 1 = 0)", rowFields(c.B))
	add("in_sub", fmt.Sprintf("%s IN %s", a, sub2))
	add("notin_sub", fmt.Sprintf("%s NOT IN %s", a, sub2))
	add("in_empty", fmt.Sprintf("%s IN %s", a, empty))
	add("notin_empty", fmt.Sprintf("%s NOT IN %s", a, empty))
	add("anysub", fmt.Sprintf("%s %s ANY %s", a, c.Op, sub2))
	add("allsub", fmt.Sprintf("%s %s ALL %s", a, c.Op, sub2))
	add("anyempty", fmt.Sprintf("%s %s ANY %s", a, c.Op, empty))
	add("allempty", fmt.Sprintf("%s %s ALL %s", a, c.Op, empty))
	// a subquery with one record as the right-hand row value; without a record the row value is missing: UNKNOWN
	add("rhs_sub", fmt.Sprintf("%s %s %s", a, c.Op, sub1))
	add("rhs_sub_empty", fmt.Sprintf("%s %s %s", a, c.Op, empty))

	parts := make([]string, len(items))
	for i, it := range items {
		parts[i] = "(" + it.sql + ")"
	}
	sql := "SELECT " + strings.Join(parts, ", ")
	s, err := run.NewSess(run.Opt{Dir: fw.WorkDir()})
	if err != nil {
		return o, fw.Harness("%v", err)
	}
	defer s.Close()
	tbl, err := s.Query(sql)
	if err != nil {
		if strings.Contains(err.Error(), "cannot evaluate as a value") {
			probe := fmt.Sprintf("SELECT %s = %s", a, b)
			return o, fw.V("rowvalue_not_a_select_field", "%s: %v (the documented form row_value operator row_value is a comparison operation, which the manual lists among the expressions usable as a value; it evaluates in WHERE)", probe, err)
		}
		return o, fw.V("rowvalue_sql_error", "%s: %v", sql, err)
	}
	if len(tbl.Rows) != 1 || len(tbl.Rows[0]) != len(items) {
		return o, fw.V("sql_shape", "%s: unexpected result shape", sql)
	}
	got := map[string]val.Val{}
	for i, it := range items {
		got[it.name] = tbl.Rows[0][i]
	}
	gt := func(name string) int {
		t, ok := ternOf(got[name])
		if !ok {
			return 99
		}
		return t
	}
	fail := func(sig, name string, want string) *fw.Violation {
		var q string
		for _, it := range items {
			if it.name == name {
				q = it.sql
			}
		}
		return fw.V(sig, "SELECT %s => %s, expected %s", q, got[name], want)
	}
	accepts := func(acc int, g int) bool {
		return g >= -1 && g <= 1 && acc&(1<<uint(g+1)) != 0
	}
	accName := func(acc int) string {
		var n []string
		for _, x := range []int{ref.F, ref.U, ref.T} {
			if acc&(1<<uint(x+1)) != 0 {
				n = append(n, ref.TernName(x))
			}
		}
		return strings.Join(n, " or ")
	}

	stAB, stBA, stAC := elemStates(c.A, c.B), elemStates(c.B, c.A), elemStates(c.A, c.C)
	o.Classes = append(o.Classes, fmt.Sprintf("row:n=%d", len(c.A)), "row:ab="+stAB)
	// 1. element-wise / lexicographic expectation
	for _, p := range []struct {
		pre, st string
		x, y    []val.Val
	}{{"ab", stAB, c.A, c.B}, {"ba", stBA, c.B, c.A}, {"ac", stAC, c.A, c.C}} {
		for _, op := range append(append([]string{}, relOps...), "!=") {
			if acc := rowAccept(p.st, op); !accepts(acc, gt(p.pre+op)) {
				return o, fail("rowvalue_compare", p.pre+op, accName(acc)+" (element relations "+p.st+")")
			}
		}
		if acc := identicalAccept(p.x, p.y); !accepts(acc, gt(p.pre+"==")) {
			return o, fail("rowvalue_identical", p.pre+"==", accName(acc))
		}
	}
	// 2. the laws of the statement on row values
	if gt("ab<") != gt("ba>") || gt("ab>") != gt("ba<") || gt("ab<=") != gt("ba>=") || gt("ab>=") != gt("ba<=") {
		return o, fail("rowvalue_law_converse", "ab<", "a<b iff b>a, a<=b iff b>=a")
	}
	if gt("ab<>") != ref.Not(gt("ab=")) || gt("ab!=") != gt("ab<>") {
		return o, fail("rowvalue_law_ne_not_eq", "ab<>", ref.TernName(ref.Not(gt("ab="))))
	}
	if gt("ab=") != gt("ba=") || gt("ab<>") != gt("ba<>") || gt("ab==") != gt("ba==") {
		return o, fail("rowvalue_law_eq_symmetric", "ab=", ref.TernName(gt("ba=")))
	}
	if gt("ab<") != ref.U {
		if want := ref.Or(gt("ab<"), gt("ab=")); gt("ab<=") != want {
			return o, fail("rowvalue_law_le_is_lt_or_eq", "ab<=", ref.TernName(want))
		}
		if want := ref.Or(gt("ab>"), gt("ab=")); gt("ab>=") != want {
			return o, fail("rowvalue_law_le_is_lt_or_eq", "ab>=", ref.TernName(want))
		}
	}
	// 3. documented expansions, from csvq's own row comparisons in the same SELECT
	bw := ref.And(gt("ab>="), gt("ac<="))
	if gt("between") != bw {
		return o, fail("rowvalue_between", "between", ref.TernName(bw)+" (= a>=b AND a<=c)")
	}
	if gt("notbetween") != ref.Not(bw) {
		return o, fail("rowvalue_between", "notbetween", ref.TernName(ref.Not(bw)))
	}
	inWant, notinWant := ref.Or(gt("ab="), gt("ac=")), ref.And(gt("ab<>"), gt("ac<>"))
	if gt("in") != inWant || gt("in3") != inWant {
		return o, fail("rowvalue_in", "in", ref.TernName(inWant))
	}
	if gt("in1") != gt("ab=") {
		return o, fail("rowvalue_in", "in1", ref.TernName(gt("ab=")))
	}
	if gt("notin") != notinWant {
		return o, fail("rowvalue_in", "notin", ref.TernName(notinWant))
	}
	for _, op := range relOps {
		if want := ref.Or(gt("ab"+op), gt("ac"+op)); gt("any"+op) != want {
			return o, fail("rowvalue_any", "any"+op, ref.TernName(want))
		}
		if want := ref.And(gt("ab"+op), gt("ac"+op)); gt("all"+op) != want {
			return o, fail("rowvalue_all", "all"+op, ref.TernName(want))
		}
	}
	if gt("in_sub") != inWant {
		return o, fail("rowvalue_subquery", "in_sub", ref.TernName(inWant))
	}
	if gt("notin_sub") != notinWant {
		return o, fail("rowvalue_subquery", "notin_sub", ref.TernName(notinWant))
	}
	if want := ref.Or(gt("ab"+c.Op), gt("ac"+c.Op)); gt("anysub") != want {
		return o, fail("rowvalue_subquery", "anysub", ref.TernName(want))
	}
	if want := ref.And(gt("ab"+c.Op), gt("ac"+c.Op)); gt("allsub") != want {
		return o, fail("rowvalue_subquery", "allsub", ref.TernName(want))
	}
	if gt("in_empty") != ref.F || gt("anyempty") != ref.F {
		return o, fail("rowvalue_empty_set", "in_empty", "FALSE (no record: documented)")
	}
	if gt("notin_empty") != ref.T || gt("allempty") != ref.T {
		return o, fail("rowvalue_empty_set", "notin_empty", "TRUE (no record: documented)")
	}
	if gt("rhs_sub") != gt("ab"+c.Op) {
		return o, fail("rowvalue_subquery", "rhs_sub", ref.TernName(gt("ab"+c.Op)))
	}
	if gt("rhs_sub_empty") != ref.U {
		return o, fail("rowvalue_subquery", "rhs_sub_empty", "UNKNOWN (the subquery has no record)")
	}
	// 4. the same comparison as a filter / sort key: evaluated the same way in every clause
	cond := fmt.Sprintf("%s %s %s", a, c.Op, b)
	var ctxSQL string
	switch c.Ctx {
	case "having":
		ctxSQL = fmt.Sprintf("SELECT 1 FROM DUAL HAVING %s", cond)
	case "orderby":
		ctxSQL = fmt.Sprintf("SELECT 1 FROM DUAL WHERE %s BETWEEN %s AND %s ORDER BY %s", a, b, cc, cond)
	default:
		ctxSQL = fmt.Sprintf("SELECT 1 FROM DUAL WHERE %s", cond)
	}
	ctbl, err := s.Query(ctxSQL)
	if err != nil {
		if strings.Contains(err.Error(), "cannot evaluate as a value") {
			return o, fw.V("rowvalue_not_a_select_field", "%s: %v", ctxSQL, err)
		}
		return o, fw.V("rowvalue_sql_error", "%s: %v", ctxSQL, err)
	}
	wantRow := gt("ab"+c.Op) == ref.T
	if c.Ctx == "orderby" {
		wantRow = gt("between") == ref.T
	}
	if (len(ctbl.Rows) == 1) != wantRow {
		return o, fw.V("rowvalue_context", "%s returned %d rows, the condition evaluates to %s / BETWEEN to %s in the select list", ctxSQL, len(ctbl.Rows), got["ab"+c.Op], got["between"])
	}
	// 5. rows of different lengths are refused
	if c.BadLen {
		longer := rowSQL(append(append([]val.Val{}, c.B...), val.Int(1)))
		for _, q := range []string{
			fmt.Sprintf("SELECT 1 FROM DUAL WHERE %s %s %s", a, c.Op, longer),
			fmt.Sprintf("SELECT 1 FROM DUAL WHERE %s BETWEEN %s AND %s", a, longer, longer),
		} {
			if r := s.Exec(q); r.Err == nil {
				return o, fw.V("rowvalue_length_mismatch_accepted", "%s: no error although the row values differ in length", q)
			}
		}
		o.Classes = append(o.Classes, "row:bad_length_refused")
	}
	// non-trivial: the first elements do not decide alone (equal first element, or an UNKNOWN / unordered element)
	if stAB[0] != 'L' && stAB[0] != 'G' {
		o.Fingerprint = fmt.Sprintf("%d|%s|%s|%s", len(c.A), stAB, stAC, c.Op)
	}
	return o, nil
}

func TestC06RowValues(t *testing.T) {
	fw.Run(t, fw.Spec[rowCase]{
		ID: "C06", Name: "row_values", Quick: 5000, Thorough: 120000,
		Gen: genRow, Check: checkRow,
		Rule:        "three row values A, B, C of equal length 2-4 (B and C share a prefix of drawn length with A, element-wise equal or another spelling of the same value; elements from small integers, integer strings, quarter floats, NULL, short strings, booleans, ternaries, datetime strings, any class) evaluated in one SELECT: A op B, B op A, A op C for = <> != < <= > >= ==; row BETWEEN; IN / NOT IN / op ANY / op ALL over row lists of 1-3 rows and over multi-field subqueries (2 records, 1 record, none); oracle: (1) the result admitted by the element relations (= is the conjunction of element equalities, the ordering operators are decided by the first index that is not equal, UNKNOWN if that element has no order; where the manual is silent - FALSE next to UNKNOWN, elements equal as booleans - every reading is accepted), (2) the laws a<b iff b>a, a<>b iff NOT(a=b), = symmetric, a<=b iff (a<b OR a=b), (3) BETWEEN / IN / ANY / ALL equal the Kleene expansion of csvq's own row comparisons, the documented results over an empty record set, (4) the same condition in WHERE / HAVING / with ORDER BY keeps the row iff it is TRUE in the select list, (5) rows of different lengths are refused; non-trivial = the first elements alone do not decide A vs B, distinct by (length, element relations of A:B and A:C, operator)",
		Assumptions: []string{"element relations are taken from the single-value comparison, whose agreement with the documented ladder is the subject of cmp_direct and sql_expr"},
	})
}
