package c06

import (
	"fmt"
	"os"
	"path/filepath"
	"strings"
	"testing"
	"time"

	"pgregory.net/rapid"

	"verif/internal/fw"
	"verif/internal/ref"
	"verif/internal/run"
	"verif/internal/val"
)

// dt_format: the datetime step of the ladder under the two session flags that govern it together: @@TIMEZONE and
// @@DATETIME_FORMAT. A string written in a format that was added to @@DATETIME_FORMAT (SET, SET with a JSON array,
// ADD ... TO) is a datetime; the same string is plain text when the format was never added or was REMOVEd again.
// Next to the spellings of tz_spellings it draws the documented ones that check leaves out: date-only spellings
// (padded and unpadded), RFC822 with a numeric zone, "-0700" offsets after a dash date and after an unpadded slash
// date. Every evaluator that hands the flags to the comparison separately is asked: the six operators, BETWEEN, IN,
// ANY, ALL, simple CASE, DATETIME(), row-value IN / = ANY, and row-value = / BETWEEN in WHERE.

const (
	precDate = iota
	precMin
	precSec
	precNano
)

var dfFormats = []struct {
	Fmt, Layout string
	Prec        int
}{
	{"%d/%m/%Y", "02/01/2006", precDate},
	{"%d/%m/%Y %H:%i:%s", "02/01/2006 15:04:05", precSec},
	{"%Y%m%d", "20060102", precDate},
	{"%b %e %Y", "Jan 2 2006", precDate},
	{"%Y-%m-%d %H:%i", "2006-01-02 15:04", precMin},
	{"%m.%d.%Y %h:%i:%s %p", "01.02.2006 03:04:05 PM", precSec},
	{"%e-%c-%Y %T%N", "2-1-2006 15:04:05.999999999", precNano},
	{"%d/%m/%y %H:%i:%s %Z", "02/01/06 15:04:05 Z07:00", precSec},
	{"%M %e, %Y at %l:%i %p", "January 2, 2006 at 3:04 PM", precMin},
	{"%W %d %b %Y %H:%i:%s", "Monday 02 Jan 2006 15:04:05", precSec},
}

var dfStdSpellings = []struct {
	Name string
	Prec int
}{
	{"dash_space", precNano}, {"slash_space", precNano}, {"dash_T", precNano}, {"dash_short", precNano}, {"slash_short", precNano},
	{"rfc3339_local", precNano}, {"rfc3339_utc", precNano}, {"space_colon_offset", precNano}, {"space_offset_other", precNano},
	{"dash_date", precDate}, {"slash_date", precDate}, {"dash_date_short", precDate}, {"slash_date_short", precDate},
	{"rfc822z", precMin}, {"dash_offset_nocolon", precNano}, {"slash_short_offset", precNano},
}

type dfCase struct {
	Zone    string `json:"zone"`
	Active  []int  `json:"active"`           // indexes into dfFormats, in the order they are added
	Removed []int  `json:"removed"`          // added and removed again
	SetAs   string `json:"set_as"`           // set | json | add | reload (csvq_env.json in the working directory + RELOAD CONFIG)
	Before  bool   `json:"before,omitempty"` // the same comparisons are evaluated (and judged: no custom format is active yet) before the formats are set
	A       tzTime `json:"a"`                // Spelling: a standard name or "fmt:<index into dfFormats>"
	B       tzTime `json:"b"`
	Op      string `json:"op"`
}

func dfPrec(spelling string) int {
	if strings.HasPrefix(spelling, "fmt:") {
		var k int
		fmt.Sscanf(spelling, "fmt:%d", &k)
		if k >= 0 && k < len(dfFormats) {
			return dfFormats[k].Prec
		}
		return precNano
	}
	for _, s := range dfStdSpellings {
		if s.Name == spelling {
			return s.Prec
		}
	}
	return precNano
}

// dfNorm keeps of the wall-clock fields what the spelling can carry.
func dfNorm(x tzTime) tzTime {
	switch dfPrec(x.Spelling) {
	case precDate:
		x.H, x.Mi, x.S, x.Frac = 0, 0, 0, ""
	case precMin:
		x.S, x.Frac = 0, ""
	case precSec:
		x.Frac = ""
	}
	return x
}

func dfText(x tzTime, loc *time.Location) string {
	x = dfNorm(x)
	at := x.instant(loc)
	if strings.HasPrefix(x.Spelling, "fmt:") {
		var k int
		fmt.Sscanf(x.Spelling, "fmt:%d", &k)
		return at.Format(dfFormats[k].Layout)
	}
	switch x.Spelling {
	case "dash_date":
		return fmt.Sprintf("%04d-%02d-%02d", x.Y, x.Mo, x.D)
	case "slash_date":
		return fmt.Sprintf("%04d/%02d/%02d", x.Y, x.Mo, x.D)
	case "dash_date_short":
		return fmt.Sprintf("%04d-%d-%d", x.Y, x.Mo, x.D)
	case "slash_date_short":
		return fmt.Sprintf("%04d/%d/%d", x.Y, x.Mo, x.D)
	case "rfc822z":
		return at.In(time.FixedZone("", 5*3600+30*60)).Format(time.RFC822Z)
	case "dash_offset_nocolon":
		return at.Format("2006-01-02 15:04:05.999999999 -0700")
	case "slash_short_offset":
		return at.In(time.FixedZone("", -8*3600)).Format("2006/1/2 15:04:05.999999999 -07:00")
	}
	return x.text(loc)
}

func genDf(t *rapid.T) dfCase {
	c := dfCase{Zone: fw.PickU(t, "zone", tzZones), SetAs: fw.PickU(t, "setAs", []string{"set", "json", "add", "reload"}), Op: fw.PickU(t, "op", relOps)}
	// 1-3 active formats, 0-1 removed, all distinct
	perm := rapid.Permutation([]int{0, 1, 2, 3, 4, 5, 6, 7, 8, 9}).Draw(t, "formats")
	nActive := fw.Range(t, "nActive", 1, 3)
	c.Active = append(c.Active, perm[:nActive]...)
	if fw.Pct(t, "hasRemoved", 35) {
		c.Removed = []int{perm[nActive]}
	}
	unset := perm[nActive+1]
	spelling := func(label string) string {
		switch w := fw.Weighted(t, label+"kind", []int{45, 40, 7, 8}); {
		case w == 0:
			return fmt.Sprintf("fmt:%d", fw.PickU(t, label+"active", c.Active))
		case w == 1:
			return fw.PickU(t, label+"std", dfStdSpellings).Name
		case w == 2 && len(c.Removed) > 0:
			return fmt.Sprintf("fmt:%d", c.Removed[0])
		default:
			return fmt.Sprintf("fmt:%d", unset)
		}
	}
	c.A = genTzTime(t, "a")
	c.A.Spelling = spelling("a")
	rel := fw.Range(t, "rel", 0, 3)
	if rel == 3 {
		c.B = genTzTime(t, "b")
	} else {
		c.B = c.A
	}
	c.B.Spelling = spelling("b")
	c.Before = fw.Pct(t, "before", 40)
	if rel != 3 {
		// the same wall-clock time, cut to what both spellings can carry, so that equality stays frequent
		p := dfPrec(c.A.Spelling)
		if q := dfPrec(c.B.Spelling); q < p {
			p = q
		}
		cut := func(x *tzTime) {
			switch p {
			case precDate:
				x.H, x.Mi, x.S, x.Frac = 0, 0, 0, ""
			case precMin:
				x.S, x.Frac = 0, ""
			case precSec:
				x.Frac = ""
			}
		}
		cut(&c.A)
		cut(&c.B)
		if rel == 2 {
			switch p {
			case precDate:
				c.B.D = c.A.D%28 + 1
			default:
				c.B.H = (c.A.H + fw.Range(t, "dh", 1, 12)) % 24
			}
		}
	}
	return c
}

func dfIsActive(c dfCase, spelling string) bool { return dfIsActiveIn(c.Active, spelling) }

func dfIsActiveIn(active []int, spelling string) bool {
	if !strings.HasPrefix(spelling, "fmt:") {
		return true
	}
	var k int
	fmt.Sscanf(spelling, "fmt:%d", &k)
	for _, a := range active {
		if a == k {
			return true
		}
	}
	return false
}

// dfJudge evaluates every comparison form over the two texts in session s and judges them for the given set of
// active custom formats (indexes into dfFormats).
func dfJudge(s *run.Sess, c dfCase, loc *time.Location, active []int, setupDesc string) (rel ref.Rel, bothDt bool, discard bool, viol *fw.Violation) {
	a, b := dfText(c.A, loc), dfText(c.B, loc)
	qa, qb := val.QuoteSQL(a), val.QuoteSQL(b)
	bothDt = dfIsActiveIn(active, c.A.Spelling) && dfIsActiveIn(active, c.B.Spelling)
	// expected relation: instants when both strings are datetimes in this session, the ladder's remaining steps
	// (for these spellings: integer for two %Y%m%d strings, else text) otherwise
	if bothDt {
		ia, ib := dfNorm(c.A).instant(loc), dfNorm(c.B).instant(loc)
		switch {
		case ia.Equal(ib):
			rel = ref.RelEq
		case ia.Before(ib):
			rel = ref.RelLt
		default:
			rel = ref.RelGt
		}
	} else {
		sa, sb := val.Str(a), val.Str(b)
		_, aDt := ref.AsDatetime(sa)
		_, bDt := ref.AsDatetime(sb)
		if aDt && bDt {
			// cannot happen: one of the two is written in a format that is not active
			return rel, bothDt, false, fw.Harness("both %q and %q are standard spellings", a, b)
		}
		var open bool
		rel, open = ref.Compare(sa, sb)
		if open {
			return rel, bothDt, true, nil
		}
	}
	type item struct{ name, sql, op string }
	var items []item
	for _, op := range relOps {
		items = append(items, item{"a" + op + "b", fmt.Sprintf("%s %s %s", qa, op, qb), op})
		items = append(items, item{"b" + op + "a (converse)", fmt.Sprintf("%s %s %s", qb, op, qa), converse(op)})
	}
	items = append(items,
		item{"between", fmt.Sprintf("%s BETWEEN %s AND %s", qa, qb, qb), "="},
		item{"not between", fmt.Sprintf("%s NOT BETWEEN %s AND %s", qa, qb, qb), "<>"},
		item{"in", fmt.Sprintf("%s IN (%s)", qa, qb), "="},
		item{"not in", fmt.Sprintf("%s NOT IN (%s, %s)", qa, qb, qb), "<>"},
		item{"any", fmt.Sprintf("%s %s ANY (%s)", qa, c.Op, qb), c.Op},
		item{"all", fmt.Sprintf("%s %s ALL (%s, %s)", qa, c.Op, qb, qb), c.Op},
		item{"any_sub", fmt.Sprintf("%s %s ANY (SELECT %s)", qa, c.Op, qb), c.Op},
		item{"row_in", fmt.Sprintf("(1, %s) IN ((1, %s))", qa, qb), "="},
		item{"row_any", fmt.Sprintf("(1, %s) %s ANY ((1, %s))", qa, c.Op, qb), c.Op},
		item{"row_in_sub", fmt.Sprintf("(1, %s) IN (SELECT 1, %s)", qa, qb), "="},
	)
	parts := make([]string, len(items))
	for i, it := range items {
		parts[i] = "(" + it.sql + ")"
	}
	sql := "SELECT " + strings.Join(parts, ", ") +
		fmt.Sprintf(", (CASE %s WHEN %s THEN 1 ELSE 0 END), (DATETIME(%s) %s DATETIME(%s))", qa, qb, qa, c.Op, qb)
	tbl, qerr := s.Query(sql)
	if qerr != nil {
		return rel, bothDt, false, fw.V("dtfmt_error", "%s after %s: %v", sql, setupDesc, qerr)
	}
	ctx := func() string {
		return fmt.Sprintf("after %s; a is %s, b is %s", setupDesc, c.A.Spelling, c.B.Spelling)
	}
	row := tbl.Rows[0]
	for i, it := range items {
		want := ref.Op(rel, it.op)
		tv, ok := ternOf(row[i])
		if !ok || tv != want {
			return rel, bothDt, false, fw.V("dtfmt_"+strings.SplitN(it.name, " ", 2)[0], "SELECT %s => %s, expected %s (%s)", it.sql, row[i], ref.TernName(want), ctx())
		}
	}
	wantCase := val.Int(0)
	if ref.Op(rel, "=") == ref.T {
		wantCase = val.Int(1)
	}
	if g := row[len(items)]; g != wantCase {
		return rel, bothDt, false, fw.V("dtfmt_case", "CASE %s WHEN %s THEN 1 ELSE 0 END => %s, expected %s (%s)", qa, qb, g, wantCase, ctx())
	}
	wantCast := ref.U
	if bothDt {
		wantCast = ref.Op(rel, c.Op)
	}
	// DATETIME() reads a numeric string that is no datetime as unix time (cast-functions page): not judged here
	_, aNumeric := ref.AsFloat(val.Str(a))
	_, bNumeric := ref.AsFloat(val.Str(b))
	castJudged := bothDt || (!aNumeric && !bNumeric)
	if tv, ok := ternOf(row[len(items)+1]); castJudged && (!ok || tv != wantCast) {
		return rel, bothDt, false, fw.V("dtfmt_cast", "DATETIME(%s) %s DATETIME(%s) => %s, expected %s (%s)", qa, c.Op, qb, row[len(items)+1], ref.TernName(wantCast), ctx())
	}
	// row-value comparison and row-value BETWEEN as filters (their own branches of evalComparison / evalBetween)
	wsql := fmt.Sprintf("SELECT 1 FROM DUAL WHERE (1, %s) %s (1, %s) UNION ALL SELECT 2 FROM DUAL WHERE (1, %s) BETWEEN (1, %s) AND (1, %s)", qa, c.Op, qb, qa, qb, qb)
	wt, werr := s.Query(wsql)
	if werr != nil {
		return rel, bothDt, false, fw.V("dtfmt_error", "%s: %v", wsql, werr)
	}
	var wantRows []string
	if ref.Op(rel, c.Op) == ref.T {
		wantRows = append(wantRows, "1")
	}
	if ref.Op(rel, "=") == ref.T {
		wantRows = append(wantRows, "2")
	}
	var gotRows []string
	for _, r := range wt.Rows {
		gotRows = append(gotRows, r[0].S)
	}
	if strings.Join(gotRows, ",") != strings.Join(wantRows, ",") {
		return rel, bothDt, false, fw.V("dtfmt_row_filter", "%s kept [%s], expected [%s] (%s)", wsql, strings.Join(gotRows, ","), strings.Join(wantRows, ","), ctx())
	}
	return rel, bothDt, false, nil
}

func checkDf(c dfCase) (fw.Outcome, *fw.Violation) {
	o := fw.Outcome{}
	loc, err := time.LoadLocation(c.Zone)
	if err != nil {
		return o, fw.Harness("zone %s: %v", c.Zone, err)
	}
	for _, k := range append(append([]int{}, c.Active...), c.Removed...) {
		if k < 0 || k >= len(dfFormats) {
			o.Discard = true
			return o, nil
		}
	}
	s, err := run.NewSess(run.Opt{Dir: fw.WorkDir()})
	if err != nil {
		return o, fw.Harness("%v", err)
	}
	defer s.Close()
	var setup []string
	envJSON := ""
	if r := s.Exec(fmt.Sprintf("SET @@TIMEZONE TO '%s'", c.Zone)); r.Err != nil {
		return o, fw.V("dtfmt_flag_error", "SET @@TIMEZONE TO '%s': %v", c.Zone, r.Err)
	}
	all := append(append([]int{}, c.Active...), c.Removed...)
	switch c.SetAs {
	case "json":
		q := make([]string, len(all))
		for i, k := range all {
			q[i] = `"` + dfFormats[k].Fmt + `"`
		}
		setup = append(setup, fmt.Sprintf("SET @@DATETIME_FORMAT TO '[%s]'", strings.Join(q, ", ")))
	case "add":
		for _, k := range all {
			setup = append(setup, fmt.Sprintf("ADD '%s' TO @@DATETIME_FORMAT", dfFormats[k].Fmt))
		}
	case "reload":
		q := make([]string, len(all))
		for i, k := range all {
			q[i] = `"` + dfFormats[k].Fmt + `"`
		}
		envJSON = fmt.Sprintf(`{"datetime_format": [%s]}`, strings.Join(q, ", "))
		setup = append(setup, "RELOAD CONFIG")
	default:
		for _, k := range all {
			setup = append(setup, fmt.Sprintf("SET @@DATETIME_FORMAT TO '%s'", dfFormats[k].Fmt))
		}
	}
	for _, k := range c.Removed {
		setup = append(setup, fmt.Sprintf("REMOVE '%s' FROM @@DATETIME_FORMAT", dfFormats[k].Fmt))
	}
	if c.Before {
		// no custom format is active yet: the texts written in one are plain text (or integers) now and must become
		// datetimes once the format arrives, by whatever way it arrives
		if _, _, discard, v := dfJudge(s, c, loc, nil, "SET @@TIMEZONE only (before the formats are set)"); v != nil || discard {
			if v != nil && v.Sig != "HARNESS" {
				v.Sig = "before_" + v.Sig
			}
			o.Discard = discard
			return o, v
		}
	}
	for _, q := range setup {
		if q == "RELOAD CONFIG" {
			cwd, _ := os.Getwd()
			envFile := filepath.Join(cwd, "csvq_env.json")
			if err := os.WriteFile(envFile, []byte(envJSON), 0644); err != nil {
				return o, fw.Harness("%v", err)
			}
			defer os.Remove(envFile)
		}
		if r := s.Exec(q); r.Err != nil {
			err := r.Err
			return o, fw.V("dtfmt_flag_error", "%s: %v", q, err)
		}
	}
	rel, bothDt, discard, v := dfJudge(s, c, loc, c.Active, strings.Join(setup, "; "))
	if v != nil || discard {
		o.Discard = discard
		return o, v
	}
	kind := func(sp string) string {
		switch {
		case !strings.HasPrefix(sp, "fmt:"):
			return sp
		case dfIsActive(c, sp):
			return "active:" + sp
		}
		for _, k := range c.Removed {
			if sp == fmt.Sprintf("fmt:%d", k) {
				return "removed_format"
			}
		}
		return "unset_format"
	}
	o.Classes = append(o.Classes, "dtfmt:zone="+c.Zone, "dtfmt:a="+kind(c.A.Spelling), "dtfmt:b="+kind(c.B.Spelling), "dtfmt:set="+c.SetAs, fmt.Sprintf("dtfmt:both_datetime=%v", bothDt))
	if strings.HasPrefix(c.A.Spelling, "fmt:") || strings.HasPrefix(c.B.Spelling, "fmt:") {
		o.Fingerprint = fmt.Sprintf("%s|%s|%s|%d|%v", kind(c.A.Spelling), kind(c.B.Spelling), c.SetAs, rel, c.Zone == "UTC")
	}
	return o, nil
}

func converse(op string) string {
	switch op {
	case "<":
		return ">"
	case "<=":
		return ">="
	case ">":
		return "<"
	case ">=":
		return "<="
	}
	return op
}

func TestC06DtFormat(t *testing.T) {
	fw.Run(t, fw.Spec[dfCase]{
		ID: "C06", Name: "dt_format", Quick: 5000, Thorough: 120000,
		Gen: genDf, Check: checkDf,
		Rule: "a session of its own per case with @@TIMEZONE (5 zones) and 1-3 of ten datetime formats added to @@DATETIME_FORMAT by SET, SET with a JSON array, ADD or RELOAD CONFIG (the formats are written to csvq_env.json in the working directory of the test process, which is private to it), optionally one more added and REMOVEd again; in 40% of the cases the same comparisons are first evaluated and judged in the same session BEFORE the formats are set (texts in a custom format are then plain text or integers), so that nothing remembered from that evaluation may survive the arrival of the format; two wall-clock times (equal, apart, unrelated; cut to the precision both spellings carry) each written in an active format, in one of 16 standard spellings (those of tz_spellings plus date-only padded / unpadded, RFC822 with numeric zone, ' -0700' after a dash date, an unpadded slash date with offset), in the removed format or in a format never added; = <> < <= > >= both ways round, BETWEEN, NOT BETWEEN, IN, NOT IN, op ANY, op ALL, op ANY (subquery), simple CASE, DATETIME() op DATETIME(), row-value IN / op ANY / IN (subquery) in the select list and row-value op / BETWEEN in WHERE; expected: the relation of the two instants (Go time package, session zone) when both strings are datetimes in this session, otherwise the ladder's remaining steps (integer for two %Y%m%d strings, text else) and UNKNOWN for the DATETIME() casts; non-trivial = at least one operand in a custom format, distinct by (kind of a, kind of b, how the formats were set, relation, UTC or not)",
		Assumptions: []string{"the format placeholders are rendered with Go layouts written from the manual's placeholder table",
			"the ten formats are mutually exclusive and none of their renderings is one of the standard spellings, so the order in which formats are tried cannot matter"},
	})
}
