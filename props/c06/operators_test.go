package c06

import (
	"fmt"
	"math"
	"strings"
	"testing"

	"pgregory.net/rapid"

	"verif/internal/fw"
	"verif/internal/gen"
	"verif/internal/ref"
	"verif/internal/run"
	"verif/internal/val"
)

// operators: the unary operators (+ - !), the second spelling != of <>, and unparenthesised chains of two operators,
// judged by a typed reference evaluation that groups the chain as the manual's precedence table prescribes
// (unary > * / % > + - > comparison > NOT > AND > OR, binary arithmetic and AND/OR left to right). The other
// sub-checks parenthesise every sub-expression and never apply a unary operator to anything but an integer literal,
// so evalUnaryArithmetic on strings / floats / non-numeric values, '!' and the feeding of an intermediate result
// (integer, float or NULL) into the next operator are reached only here.

type opsCase struct {
	A   val.Val `json:"a"`
	B   val.Val `json:"b"`
	C   val.Val `json:"c"`
	CA  string  `json:"class_a"`
	CB  string  `json:"class_b"`
	CC  string  `json:"class_c"`
	Op1 string  `json:"op1"`
	Op2 string  `json:"op2"`
	Cmp string  `json:"cmp"`
}

var arithOps = []string{"+", "-", "*", "/", "%"}

func genOps(t *rapid.T) opsCase {
	one := func(label string) (val.Val, string) {
		if fw.Pct(t, label+"any", 30) {
			return gen.Value(t)
		}
		if fw.Pct(t, label+"numtext", 25) {
			return gen.NumericText(t)
		}
		return gen.Numeric(t)
	}
	c := opsCase{}
	c.A, c.CA = one("a")
	c.B, c.CB = one("b")
	c.C, c.CC = one("c")
	c.Op1 = fw.PickU(t, "op1", arithOps)
	c.Op2 = fw.PickU(t, "op2", arithOps)
	c.Cmp = fw.PickU(t, "cmp", append(append([]string{}, relOps...), "!="))
	return c
}

// calcRes is the outcome of the reference evaluation of an arithmetic (sub-)expression.
type calcRes struct {
	V    val.Val
	Err  bool // integer division by zero: the statement must be refused
	Open bool // outside the stated domain (int64 overflow, inexact integer quotient): nothing asserted
}

// refCalc: binary arithmetic as documented - integers when both operands are integers (strings spelling one
// included), floats when both are numeric, NULL otherwise.
func refCalc(x, y val.Val, op string) calcRes {
	i1, aInt := ref.AsInteger(x)
	i2, bInt := ref.AsInteger(y)
	f1, aNum := ref.AsFloat(x)
	f2, bNum := ref.AsFloat(y)
	switch {
	case !aNum || !bNum:
		return calcRes{V: val.Null}
	case aInt && bInt:
		if (op == "/" || op == "%") && i2 == 0 {
			return calcRes{Err: true}
		}
		exact, fits := exactInt(i1, i2, op)
		if !fits {
			return calcRes{Open: true}
		}
		if op == "/" && i1%i2 != 0 {
			return calcRes{Open: true}
		}
		return calcRes{V: val.Int(exact.Int64())}
	}
	var r float64
	switch op {
	case "+":
		r = f1 + f2
	case "-":
		r = f1 - f2
	case "*":
		r = f1 * f2
	case "/":
		r = f1 / f2
	case "%":
		r = math.Mod(f1, f2)
	}
	return calcRes{V: val.Float(r)}
}

func refUnary(x val.Val, op string) calcRes {
	if i, ok := ref.AsInteger(x); ok {
		if op == "-" {
			if i == math.MinInt64 {
				return calcRes{Open: true}
			}
			return calcRes{V: val.Int(-i)}
		}
		return calcRes{V: val.Int(i)}
	}
	if f, ok := ref.AsFloat(x); ok {
		if op == "-" {
			return calcRes{V: val.Float(-f)}
		}
		return calcRes{V: val.Float(f)}
	}
	return calcRes{V: val.Null}
}

func arithPrec(op string) int {
	if op == "+" || op == "-" {
		return 1
	}
	return 2
}

func sameVal(a, b val.Val) bool {
	if a.K != b.K {
		return false
	}
	if a.K == "F" {
		return sameFloat(a.AsFloat(), b.AsFloat())
	}
	return a.S == b.S
}

func refCmp(x, y val.Val, op string) (int, bool) {
	if op == "!=" {
		op = "<>"
	}
	rel, open := ref.Compare(x, y)
	if open {
		return 0, false
	}
	return ref.Op(rel, op), true
}

type opsItem struct {
	name, sig, sql string
	res            calcRes // arithmetic expectation (Tern < 0)
	tern           int     // logic / comparison expectation when isTern
	isTern         bool
	skip           bool // open: evaluated for the error path only, value not asserted
}

func checkOps(c opsCase) (fw.Outcome, *fw.Violation) {
	o := fw.Outcome{Classes: []string{"ops:" + gen.JoinClasses(c.CA, c.CB, c.CC)}}
	if ref.OutsideModel(c.A) || ref.OutsideModel(c.B) || ref.OutsideModel(c.C) {
		o.Discard = true
		return o, nil
	}
	a, b, cc := c.A.SQL(), c.B.SQL(), c.C.SQL()
	ta, tb, tc := ref.Ternary(c.A), ref.Ternary(c.B), ref.Ternary(c.C)
	var items []opsItem
	arith := func(name, sig, sql string, r calcRes) {
		items = append(items, opsItem{name: name, sig: sig, sql: sql, res: r, skip: r.Open})
	}
	tern := func(name, sig, sql string, want int, ok bool) {
		items = append(items, opsItem{name: name, sig: sig, sql: sql, tern: want, isTern: true, skip: !ok})
	}
	// --- unary operators
	negA, posA, negB := refUnary(c.A, "-"), refUnary(c.A, "+"), refUnary(c.B, "-")
	arith("neg", "unary_minus", "-"+a, negA)
	arith("pos", "unary_plus", "+"+a, posA)
	if !negA.Open {
		arith("negneg", "unary_minus", "- -"+a, refUnary(negA.V, "-"))
		arith("neg_op", "unary_binds_tighter", fmt.Sprintf("-%s %s %s", a, c.Op1, b), refCalc(negA.V, c.B, c.Op1))
	}
	if !negB.Open {
		arith("op_neg", "unary_binds_tighter", fmt.Sprintf("%s %s -%s", a, c.Op1, b), refCalc(c.A, negB.V, c.Op1))
	}
	tern("bang", "bang_not", "!"+a, ref.Not(ta), true)
	tern("bangbang", "bang_not", "! !"+a, ta, true)
	tern("not", "bang_not", "NOT "+a, ref.Not(ta), true)
	// ! binds tighter than a comparison, NOT looser
	if w, ok := refCmp(val.Tern(ref.Not(ta)), c.B, c.Cmp); true {
		tern("bang_cmp", "bang_precedence", fmt.Sprintf("!%s %s %s", a, c.Cmp, b), w, ok)
	}
	cmpAB, okAB := refCmp(c.A, c.B, c.Cmp)
	tern("not_cmp", "not_precedence", fmt.Sprintf("NOT %s %s %s", a, c.Cmp, b), ref.Not(cmpAB), okAB)
	// --- the two spellings of "not equal"
	ne, okNe := refCmp(c.A, c.B, "<>")
	tern("ne1", "ne_spelling", fmt.Sprintf("%s <> %s", a, b), ne, okNe)
	tern("ne2", "ne_spelling", fmt.Sprintf("%s != %s", a, b), ne, okNe)
	// --- arithmetic chain a op1 b op2 c
	var chain calcRes
	chainShort := false // NULL op (x / 0): csvq does not evaluate the right operand of a NULL: error or NULL both admissible
	if arithPrec(c.Op2) > arithPrec(c.Op1) {
		inner := refCalc(c.B, c.C, c.Op2)
		switch {
		case inner.Err:
			chain = calcRes{Err: true}
			chainShort = c.A.IsNull()
		case inner.Open:
			chain = calcRes{Open: true}
		default:
			chain = refCalc(c.A, inner.V, c.Op1)
		}
	} else {
		inner := refCalc(c.A, c.B, c.Op1)
		switch {
		case inner.Err:
			chain = calcRes{Err: true}
		case inner.Open:
			chain = calcRes{Open: true}
		default:
			chain = refCalc(inner.V, c.C, c.Op2)
		}
	}
	if chainShort {
		chain = calcRes{Open: true}
	}
	arith("chain", "arith_chain", fmt.Sprintf("%s %s %s %s %s", a, c.Op1, b, c.Op2, cc), chain)
	// --- arithmetic binds tighter than comparison: a op1 b cmp c, c cmp a op1 b
	sum := refCalc(c.A, c.B, c.Op1)
	switch {
	case sum.Err:
		items = append(items, opsItem{name: "arith_cmp", sig: "arith_cmp_precedence", sql: fmt.Sprintf("%s %s %s %s %s", a, c.Op1, b, c.Cmp, cc), res: calcRes{Err: true}})
	case !sum.Open:
		w, ok := refCmp(sum.V, c.C, c.Cmp)
		tern("arith_cmp", "arith_cmp_precedence", fmt.Sprintf("%s %s %s %s %s", a, c.Op1, b, c.Cmp, cc), w, ok)
		if !c.C.IsNull() { // a NULL left operand ends the comparison before the right one is evaluated
			w, ok = refCmp(c.C, sum.V, c.Cmp)
			tern("cmp_arith", "arith_cmp_precedence", fmt.Sprintf("%s %s %s %s %s", cc, c.Cmp, a, c.Op1, b), w, ok)
		}
	}
	// --- logic: comparison > NOT > AND > OR
	tern("or_and", "logic_precedence", fmt.Sprintf("%s OR %s AND %s", a, b, cc), ref.Or(ta, ref.And(tb, tc)), true)
	tern("and_or", "logic_precedence", fmt.Sprintf("%s AND %s OR %s", a, b, cc), ref.Or(ref.And(ta, tb), tc), true)
	tern("not_and", "logic_precedence", fmt.Sprintf("NOT %s AND %s", a, b), ref.And(ref.Not(ta), tb), true)
	tern("not_or", "logic_precedence", fmt.Sprintf("NOT %s OR %s", a, b), ref.Or(ref.Not(ta), tb), true)
	tern("bang_and", "logic_precedence", fmt.Sprintf("!%s AND %s", a, b), ref.And(ref.Not(ta), tb), true)
	cmpBC, okBC := refCmp(c.B, c.C, c.Cmp)
	tern("cmp_and_cmp", "logic_precedence", fmt.Sprintf("%s %s %s AND %s %s %s", a, c.Cmp, b, b, c.Cmp, cc), ref.And(cmpAB, cmpBC), okAB && okBC)
	tern("cmp_or", "logic_precedence", fmt.Sprintf("%s %s %s OR %s", a, c.Cmp, b, cc), ref.Or(cmpAB, tc), okAB)
	tern("or_cmp", "logic_precedence", fmt.Sprintf("%s OR %s %s %s", cc, a, c.Cmp, b), ref.Or(tc, cmpAB), okAB)

	s, err := run.NewSess(run.Opt{Dir: fw.WorkDir()})
	if err != nil {
		return o, fw.Harness("%v", err)
	}
	defer s.Close()
	// items expected to be refused are run one by one; the others share one SELECT
	var main []int
	for i, it := range items {
		if it.res.Err {
			r := s.Exec("SELECT " + it.sql)
			if r.Err == nil {
				return o, fw.V(it.sig+"_div_zero", "SELECT %s: an integer division by zero inside the expression must be an error, got %v", it.sql, r.Views)
			}
			o.Classes = append(o.Classes, "ops:error_expected")
			continue
		}
		main = append(main, i)
	}
	parts := make([]string, len(main))
	for k, i := range main {
		parts[k] = "(" + items[i].sql + ")"
	}
	sql := "SELECT " + strings.Join(parts, ", ")
	tbl, qerr := s.Query(sql)
	if qerr != nil {
		// find the item: open items may legitimately fail (division by zero behind an overflow), the others may not
		for _, i := range main {
			if r := s.Exec("SELECT " + items[i].sql); r.Err != nil && !items[i].skip {
				return o, fw.V(items[i].sig+"_error", "SELECT %s: unexpected error %v", items[i].sql, r.Err)
			}
		}
		// only open items failed: evaluate the rest one by one
		tbl = run.Tbl{Rows: [][]val.Val{make([]val.Val, len(main))}}
		for k, i := range main {
			if items[i].skip {
				continue
			}
			t1, e1 := s.Query("SELECT " + items[i].sql)
			if e1 != nil || len(t1.Rows) != 1 {
				return o, fw.V(items[i].sig+"_error", "SELECT %s: %v", items[i].sql, e1)
			}
			tbl.Rows[0][k] = t1.Rows[0][0]
		}
	}
	if len(tbl.Rows) != 1 || len(tbl.Rows[0]) != len(main) {
		return o, fw.V("sql_shape", "%s: unexpected result shape", sql)
	}
	var ne1, ne2 *val.Val
	for k, i := range main {
		it := items[i]
		g := tbl.Rows[0][k]
		if it.name == "ne1" {
			v := g
			ne1 = &v
		}
		if it.name == "ne2" {
			v := g
			ne2 = &v
		}
		if it.skip {
			continue
		}
		if it.isTern {
			tv, ok := ternOf(g)
			if !ok || tv != it.tern {
				return o, fw.V(it.sig, "SELECT %s => %s, expected %s (grouping by the documented precedence)", it.sql, g, ref.TernName(it.tern))
			}
			continue
		}
		if !sameVal(g, it.res.V) {
			return o, fw.V(it.sig, "SELECT %s => %s, expected %s", it.sql, g, it.res.V)
		}
	}
	if ne1 != nil && ne2 != nil && *ne1 != *ne2 {
		return o, fw.V("ne_spelling", "%s <> %s => %s but %s != %s => %s", a, b, *ne1, a, b, *ne2)
	}
	kind := func(r calcRes) string {
		switch {
		case r.Err:
			return "E"
		case r.Open:
			return "O"
		}
		return r.V.K
	}
	if !chain.Open {
		o.Fingerprint = fmt.Sprintf("%s|%s%s|%s%s%s", gen.JoinClasses(c.CA, c.CB, c.CC), c.Op1, c.Op2, kind(negA), kind(sum), kind(chain))
	}
	return o, nil
}

func TestC06Operators(t *testing.T) {
	fw.Run(t, fw.Spec[opsCase]{
		ID: "C06", Name: "operators", Quick: 16000, Thorough: 400000,
		Gen: genOps, Check: checkOps,
		Rule: "triples (70% numeric-looking incl. structurally generated numeric text, 30% any class), two arithmetic operators and one relational operator (!= included): -a, +a, - -a, -a op b, a op -b, !a, ! !a, NOT a, !a cmp b, NOT a cmp b, a <> b vs a != b, a op1 b op2 c, a op1 b cmp c, c cmp a op1 b, a OR b AND c, a AND b OR c, NOT a AND/OR b, !a AND b, a cmp b AND b cmp c, a cmp b OR c, c OR a cmp b, all WITHOUT parentheses; oracle: a typed reference evaluation (integer when both operands are integers, float when both numeric, NULL otherwise, error on integer / and % by zero, IEEE floats, truncated modulo; comparisons by the ladder model; Kleene logic over the documented ternary conversion) of the expression grouped by the manual's precedence table; non-trivial = the arithmetic chain is inside the stated domain, distinct by (classes, the two arithmetic operators, result kinds of -a / a op1 b / chain)",
		Assumptions: []string{"int64 overflow, -(-9223372036854775808) and inexact integer quotients are outside the stated domain: the affected items are evaluated but not judged",
			"NULL op (x / 0): csvq does not evaluate the right operand of a NULL left operand; both NULL and the error are accepted there"},
	})
}
