package c06

import (
	"fmt"
	"math"
	"math/big"
	"strings"
	"testing"
	"time"

	"github.com/mithrandie/csvq/lib/query"
	"github.com/mithrandie/csvq/lib/value"
	"pgregory.net/rapid"

	"verif/internal/fw"
	"verif/internal/gen"
	"verif/internal/ref"
	"verif/internal/run"
	"verif/internal/val"
)

func TestMain(m *testing.M) { fw.Main(m) }

var relOps = []string{"=", "<>", "<", "<=", ">", ">="}

// ---------------------------------------------------------------------
// cmp_direct: value.Compare against the documented ladder + the laws.

type pairCase struct {
	A  val.Val `json:"a"`
	B  val.Val `json:"b"`
	CA string  `json:"class_a"`
	CB string  `json:"class_b"`
}

func genPair(t *rapid.T) pairCase {
	if fw.Pct(t, "foldPair", 4) {
		a, b := gen.FoldPair(t)
		return pairCase{A: a, B: b, CA: "str_plain", CB: "str_plain"}
	}
	a, ca := gen.Value(t)
	b, cb := gen.Value(t)
	// numeric text assembled from parts (long digit strings, leading zeros, bare fractions, exponents)
	if fw.Pct(t, "numTextA", 7) {
		a, ca = gen.NumericText(t)
	}
	if fw.Pct(t, "numTextB", 7) {
		b, cb = gen.NumericText(t)
	}
	return pairCase{A: a, B: b, CA: ca, CB: cb}
}

func cmpDirect(a, b val.Val, op string) int {
	return run.TernInt(value.Compare(run.ToPrimary(a), run.ToPrimary(b), op, nil, time.UTC))
}

func checkPairDirect(c pairCase) (fw.Outcome, *fw.Violation) {
	o := fw.Outcome{Classes: []string{"pair:" + gen.JoinClasses(c.CA, c.CB)}}
	rel, open := ref.Compare(c.A, c.B)
	if ref.OutsideModel(c.A) || ref.OutsideModel(c.B) {
		o.Discard = true
		return o, nil
	}
	res := map[string]int{}
	rev := map[string]int{}
	for _, op := range relOps {
		res[op] = cmpDirect(c.A, c.B, op)
		rev[op] = cmpDirect(c.B, c.A, op)
	}
	if !open {
		for _, op := range relOps {
			want := ref.Op(rel, op)
			if res[op] != want {
				return o, fw.V("ladder:"+gen.JoinClasses(c.CA, c.CB), "%s %s %s: csvq %s, documented ladder %s", c.A, op, c.B, ref.TernName(res[op]), ref.TernName(want))
			}
		}
	} else {
		o.Classes = append(o.Classes, "open_text_rung")
	}
	// == operator
	if got, want := cmpDirect(c.A, c.B, "=="), ref.Identical(c.A, c.B); got != want {
		return o, fw.V("identical", "%s == %s: csvq %s, expected %s", c.A, c.B, ref.TernName(got), ref.TernName(want))
	}
	// laws (reference-free)
	if res["<"] != rev[">"] || res[">"] != rev["<"] {
		return o, fw.V("law_lt_gt", "%s,%s: a<b=%s b>a=%s a>b=%s b<a=%s", c.A, c.B, ref.TernName(res["<"]), ref.TernName(rev[">"]), ref.TernName(res[">"]), ref.TernName(rev["<"]))
	}
	if res["<="] != rev[">="] || res[">="] != rev["<="] {
		return o, fw.V("law_le_ge", "%s,%s: a<=b=%s b>=a=%s", c.A, c.B, ref.TernName(res["<="]), ref.TernName(rev[">="]))
	}
	if res["<>"] != ref.Not(res["="]) {
		return o, fw.V("law_ne_not_eq", "%s,%s: a<>b=%s a=b=%s", c.A, c.B, ref.TernName(res["<>"]), ref.TernName(res["="]))
	}
	if res["="] != rev["="] || res["<>"] != rev["<>"] {
		return o, fw.V("law_eq_symmetric", "%s,%s: a=b=%s b=a=%s", c.A, c.B, ref.TernName(res["="]), ref.TernName(rev["="]))
	}
	if res["<"] != ref.U {
		// operands have an order
		if res["<="] != ref.Or(res["<"], res["="]) {
			return o, fw.V("law_le_is_lt_or_eq", "%s,%s: a<=b=%s a<b=%s a=b=%s", c.A, c.B, ref.TernName(res["<="]), ref.TernName(res["<"]), ref.TernName(res["="]))
		}
		if res[">="] != ref.Or(res[">"], res["="]) {
			return o, fw.V("law_ge_is_gt_or_eq", "%s,%s: a>=b=%s a>b=%s a=b=%s", c.A, c.B, ref.TernName(res[">="]), ref.TernName(res[">"]), ref.TernName(res["="]))
		}
		n := 0
		for _, op := range []string{"<", "=", ">"} {
			if res[op] == ref.T {
				n++
			}
		}
		if n != 1 {
			return o, fw.V("law_trichotomy", "%s,%s: exactly one of < = > must be TRUE, got %d", c.A, c.B, n)
		}
	}
	if c.CA != c.CB {
		o.Fingerprint = fmt.Sprintf("%s|%d", gen.JoinClasses(c.CA, c.CB), rel)
	}
	return o, nil
}

func TestC06CmpDirect(t *testing.T) {
	fw.Run(t, fw.Spec[pairCase]{
		ID: "C06", Name: "cmp_direct", Quick: 160000, Thorough: 4000000,
		Gen: genPair, Check: checkPairDirect,
		Rule: "pairs drawn from all value classes (numeric strings from spelling pools and, 7% per operand, assembled from sign / leading zeros / up to 20 digits / fraction / exponent); value.Compare for = <> < <= > >= == against an independent ladder model written from the manual, plus the reference-free laws; non-trivial = operands of two different classes, distinct by (class pair, relation)",
		Assumptions: []string{
			"datetime spellings are limited to the layouts the reference parses; other digit-led strings of length >= 8 are discarded",
			"number vs non-numeric text at the text rung is an open outcome (manual ambiguous): only the laws are checked there",
		},
	})
}

// ---------------------------------------------------------------------
// sql_expr: the same through parser + evaluator, plus the expansions.

type exprCase struct {
	A  val.Val `json:"a"`
	B  val.Val `json:"b"`
	C  val.Val `json:"c"`
	CA string  `json:"class_a"`
	CB string  `json:"class_b"`
	CC string  `json:"class_c"`
}

func genTriple(t *rapid.T) exprCase {
	a, ca := gen.Value(t)
	b, cb := gen.Value(t)
	c, cc := gen.Value(t)
	if fw.Pct(t, "related", 30) {
		// make equalities and orderings frequent: derive b and c from a's neighbourhood
		switch a.K {
		case "I":
			b, cb = val.Int(a.AsInt()/2+int64(rapid.IntRange(-1, 1).Draw(t, "db"))), "integer"
			c, cc = val.Str(fmt.Sprintf(" %s ", a.S)), "str_int"
		case "S":
			c, cc = val.Str(strings.ToUpper(a.S)+" "), "str_plain"
		}
	}
	if fw.Pct(t, "numTextTriple", 10) {
		b, cb = gen.NumericText(t)
		if fw.Pct(t, "numTextC", 50) {
			c, cc = gen.NumericText(t)
		}
	}
	if fw.Pct(t, "foldTriple", 4) {
		a, b = gen.FoldPair(t)
		ca, cb = "str_plain", "str_plain"
		if fw.Pct(t, "foldC", 50) {
			_, c = gen.FoldPair(t)
			cc = "str_plain"
		}
	}
	return exprCase{A: a, B: b, C: c, CA: ca, CB: cb, CC: cc}
}

var sess *run.Sess

func getSess() *run.Sess {
	if sess == nil {
		s, err := run.NewSess(run.Opt{Dir: fw.WorkDir()})
		if err != nil {
			panic(err)
		}
		sess = s
	}
	return sess
}

func ternOf(v val.Val) (int, bool) {
	if v.K != "T" {
		return 0, false
	}
	return v.AsTern(), true
}

func checkExpr(c exprCase) (fw.Outcome, *fw.Violation) {
	o := fw.Outcome{Classes: []string{"triple:" + gen.JoinClasses(c.CA, c.CB, c.CC)}}
	if ref.OutsideModel(c.A) || ref.OutsideModel(c.B) || ref.OutsideModel(c.C) {
		o.Discard = true
		return o, nil
	}
	a, b, cc := c.A.SQL(), c.B.SQL(), c.C.SQL()
	type item struct {
		name string
		sql  string
	}
	var items []item
	add := func(name, sql string) { items = append(items, item{name, sql}) }
	for _, op := range relOps {
		add("ab"+op, fmt.Sprintf("%s %s %s", a, op, b))
		add("ac"+op, fmt.Sprintf("%s %s %s", a, op, cc))
		add("ba"+op, fmt.Sprintf("%s %s %s", b, op, a))
		add("ca"+op, fmt.Sprintf("%s %s %s", cc, op, a))
	}
	add("ab==", fmt.Sprintf("%s == %s", a, b))
	add("between", fmt.Sprintf("%s BETWEEN %s AND %s", a, b, cc))
	add("notbetween", fmt.Sprintf("%s NOT BETWEEN %s AND %s", a, b, cc))
	add("between_exp", fmt.Sprintf("(%s <= %s) AND (%s <= %s)", b, a, a, cc))
	add("in", fmt.Sprintf("%s IN (%s, %s)", a, b, cc))
	add("notin", fmt.Sprintf("%s NOT IN (%s, %s)", a, b, cc))
	for _, op := range relOps {
		add("any"+op, fmt.Sprintf("%s %s ANY (%s, %s)", a, op, b, cc))
		add("all"+op, fmt.Sprintf("%s %s ALL (%s, %s)", a, op, b, cc))
	}
	// the same through single-field subqueries, incl. the documented results over an empty result set
	sub2 := fmt.Sprintf("(SELECT %s UNION ALL SELECT %s)", b, cc)
	sub1 := fmt.Sprintf("(SELECT %s)", b)
	empty := "(SELECT 1 FROM DUAL WHERE 1 = 0)"
	add("in_sub", fmt.Sprintf("%s IN %s", a, sub2))
	add("notin_sub", fmt.Sprintf("%s NOT IN %s", a, sub2))
	add("in_empty", fmt.Sprintf("%s IN %s", a, empty))
	add("notin_empty", fmt.Sprintf("%s NOT IN %s", a, empty))
	add("exists_empty", fmt.Sprintf("EXISTS %s", empty))
	add("exists_one", fmt.Sprintf("EXISTS %s", sub1))
	for _, op := range relOps {
		add("anysub"+op, fmt.Sprintf("%s %s ANY %s", a, op, sub2))
		add("allsub"+op, fmt.Sprintf("%s %s ALL %s", a, op, sub2))
		add("anyone"+op, fmt.Sprintf("%s %s ANY %s", a, op, sub1))
		add("allone"+op, fmt.Sprintf("%s %s ALL %s", a, op, sub1))
		add("anyempty"+op, fmt.Sprintf("%s %s ANY %s", a, op, empty))
		add("allempty"+op, fmt.Sprintf("%s %s ALL %s", a, op, empty))
	}
	add("isnull", fmt.Sprintf("%s IS NULL", a))
	add("isnotnull", fmt.Sprintf("%s IS NOT NULL", a))
	for _, tn := range []string{"TRUE", "FALSE", "UNKNOWN"} {
		add("is"+tn, fmt.Sprintf("%s IS %s", a, tn))
		add("isnot"+tn, fmt.Sprintf("%s IS NOT %s", a, tn))
	}
	add("case_simple", fmt.Sprintf("CASE %s WHEN %s THEN 1 WHEN %s THEN 2 ELSE 3 END", a, b, cc))
	add("case_simple_noelse", fmt.Sprintf("CASE %s WHEN %s THEN 1 WHEN %s THEN 2 END", a, b, cc))
	add("case_searched", fmt.Sprintf("CASE WHEN %s THEN 1 WHEN %s THEN 2 WHEN %s THEN 3 ELSE 4 END", a, b, cc))
	add("case_searched_noelse", fmt.Sprintf("CASE WHEN %s THEN 1 WHEN %s THEN 2 END", a, b))
	add("and", fmt.Sprintf("%s AND %s", a, b))
	add("or", fmt.Sprintf("%s OR %s", a, b))
	add("not", fmt.Sprintf("NOT %s", a))
	add("and3", fmt.Sprintf("(%s AND %s) OR %s", a, b, cc))
	add("nested", fmt.Sprintf("NOT (%s OR %s) AND %s", a, b, cc))

	parts := make([]string, len(items))
	for i, it := range items {
		parts[i] = "(" + it.sql + ")"
	}
	sql := "SELECT " + strings.Join(parts, ", ")
	tbl, err := getSess().Query(sql)
	if err != nil {
		return o, fw.V("sql_error", "%s: %v", sql, err)
	}
	if len(tbl.Rows) != 1 || len(tbl.Rows[0]) != len(items) {
		return o, fw.V("sql_shape", "%s: unexpected result shape", sql)
	}
	got := map[string]val.Val{}
	for i, it := range items {
		got[it.name] = tbl.Rows[0][i]
	}
	gt := func(name string) int {
		t, ok := ternOf(got[name])
		if !ok {
			return 99
		}
		return t
	}
	fail := func(sig, name string, want string) *fw.Violation {
		var s string
		for _, it := range items {
			if it.name == name {
				s = it.sql
			}
		}
		return fw.V(sig, "SELECT %s => %s, expected %s", s, got[name], want)
	}

	// 1. base comparisons against the ladder model
	check := func(prefix string, x, y val.Val) *fw.Violation {
		rel, open := ref.Compare(x, y)
		if open {
			return nil
		}
		for _, op := range relOps {
			if want := ref.Op(rel, op); gt(prefix+op) != want {
				return fail("sql_ladder", prefix+op, ref.TernName(want))
			}
		}
		return nil
	}
	if v := check("ab", c.A, c.B); v != nil {
		return o, v
	}
	if v := check("ac", c.A, c.C); v != nil {
		return o, v
	}
	if v := check("ba", c.B, c.A); v != nil {
		return o, v
	}
	if v := check("ca", c.C, c.A); v != nil {
		return o, v
	}
	if want := ref.Identical(c.A, c.B); gt("ab==") != want {
		return o, fail("sql_identical", "ab==", ref.TernName(want))
	}
	// 2. expansions, computed from csvq's own base comparisons in the same SELECT
	bw := ref.And(gt("ba<="), gt("ac<="))
	if gt("between") != bw {
		return o, fail("between", "between", ref.TernName(bw)+" (= b<=a AND a<=c)")
	}
	if gt("between_exp") != bw {
		return o, fail("logic_and", "between_exp", ref.TernName(bw))
	}
	if gt("notbetween") != ref.Not(bw) {
		return o, fail("not_between", "notbetween", ref.TernName(ref.Not(bw)))
	}
	if want := ref.Or(gt("ab="), gt("ac=")); gt("in") != want {
		return o, fail("in", "in", ref.TernName(want))
	}
	if want := ref.And(gt("ab<>"), gt("ac<>")); gt("notin") != want {
		return o, fail("not_in", "notin", ref.TernName(want))
	}
	for _, op := range relOps {
		if want := ref.Or(gt("ab"+op), gt("ac"+op)); gt("any"+op) != want {
			return o, fail("any", "any"+op, ref.TernName(want))
		}
		if want := ref.And(gt("ab"+op), gt("ac"+op)); gt("all"+op) != want {
			return o, fail("all", "all"+op, ref.TernName(want))
		}
	}
	if want := ref.Or(gt("ab="), gt("ac=")); gt("in_sub") != want {
		return o, fail("in_subquery", "in_sub", ref.TernName(want))
	}
	if want := ref.And(gt("ab<>"), gt("ac<>")); gt("notin_sub") != want {
		return o, fail("not_in_subquery", "notin_sub", ref.TernName(want))
	}
	if gt("in_empty") != ref.F {
		return o, fail("in_empty_set", "in_empty", "FALSE (no record: documented)")
	}
	if gt("notin_empty") != ref.T {
		return o, fail("not_in_empty_set", "notin_empty", "TRUE (no record: documented)")
	}
	if gt("exists_empty") != ref.F || gt("exists_one") != ref.T {
		return o, fail("exists", "exists_empty", "FALSE / TRUE")
	}
	for _, op := range relOps {
		if want := ref.Or(gt("ab"+op), gt("ac"+op)); gt("anysub"+op) != want {
			return o, fail("any_subquery", "anysub"+op, ref.TernName(want))
		}
		if want := ref.And(gt("ab"+op), gt("ac"+op)); gt("allsub"+op) != want {
			return o, fail("all_subquery", "allsub"+op, ref.TernName(want))
		}
		if want := gt("ab" + op); gt("anyone"+op) != want || gt("allone"+op) != want {
			return o, fail("any_all_single_record", "anyone"+op, ref.TernName(want))
		}
		if gt("anyempty"+op) != ref.F {
			return o, fail("any_empty_set", "anyempty"+op, "FALSE (no record: documented)")
		}
		if gt("allempty"+op) != ref.T {
			return o, fail("all_empty_set", "allempty"+op, "TRUE (no record: documented)")
		}
	}
	// 3. IS
	b2t := func(x bool) int {
		if x {
			return ref.T
		}
		return ref.F
	}
	if want := b2t(c.A.IsNull()); gt("isnull") != want {
		return o, fail("is_null", "isnull", ref.TernName(want))
	}
	if want := b2t(!c.A.IsNull()); gt("isnotnull") != want {
		return o, fail("is_null", "isnotnull", ref.TernName(want))
	}
	ta, tb, tc := ref.Ternary(c.A), ref.Ternary(c.B), ref.Ternary(c.C)
	for _, tn := range []struct {
		n string
		v int
	}{{"TRUE", ref.T}, {"FALSE", ref.F}, {"UNKNOWN", ref.U}} {
		if want := b2t(ta == tn.v); gt("is"+tn.n) != want {
			return o, fail("is_ternary", "is"+tn.n, ref.TernName(want))
		}
		if want := b2t(ta != tn.v); gt("isnot"+tn.n) != want {
			return o, fail("is_ternary", "isnot"+tn.n, ref.TernName(want))
		}
	}
	// 4. CASE
	wantCase := func(conds []int, withElse bool) val.Val {
		for i, cd := range conds {
			if cd == ref.T {
				return val.Int(int64(i + 1))
			}
		}
		if withElse {
			return val.Int(int64(len(conds) + 1))
		}
		return val.Null
	}
	if want := wantCase([]int{gt("ab="), gt("ac=")}, true); got["case_simple"] != want {
		return o, fail("case_simple", "case_simple", want.String())
	}
	if want := wantCase([]int{gt("ab="), gt("ac=")}, false); got["case_simple_noelse"] != want {
		return o, fail("case_simple", "case_simple_noelse", want.String())
	}
	if want := wantCase([]int{ta, tb, tc}, true); got["case_searched"] != want {
		return o, fail("case_searched", "case_searched", want.String())
	}
	if want := wantCase([]int{ta, tb}, false); got["case_searched_noelse"] != want {
		return o, fail("case_searched", "case_searched_noelse", want.String())
	}
	// 5. Kleene logic
	if want := ref.And(ta, tb); gt("and") != want {
		return o, fail("kleene_and", "and", ref.TernName(want))
	}
	if want := ref.Or(ta, tb); gt("or") != want {
		return o, fail("kleene_or", "or", ref.TernName(want))
	}
	if want := ref.Not(ta); gt("not") != want {
		return o, fail("kleene_not", "not", ref.TernName(want))
	}
	if want := ref.Or(ref.And(ta, tb), tc); gt("and3") != want {
		return o, fail("kleene_nested", "and3", ref.TernName(want))
	}
	if want := ref.And(ref.Not(ref.Or(ta, tb)), tc); gt("nested") != want {
		return o, fail("kleene_nested", "nested", ref.TernName(want))
	}
	if c.CA != c.CB || c.CA != c.CC {
		o.Fingerprint = fmt.Sprintf("%s|%d%d%d|%d%d", gen.JoinClasses(c.CA, c.CB, c.CC), ta, tb, tc, gt("ab="), gt("ac<"))
	}
	return o, nil
}

func TestC06SqlExpr(t *testing.T) {
	fw.Run(t, fw.Spec[exprCase]{
		ID: "C06", Name: "sql_expr", Quick: 40000, Thorough: 1000000,
		Gen: genTriple, Check: checkExpr,
		Rule: "triples from all value classes rendered as SQL literals/casts and evaluated through parser+evaluator in one SELECT: comparisons vs the ladder model; BETWEEN/IN/ANY/ALL/CASE vs their documented expansions built from csvq's own base comparisons; IS and AND/OR/NOT vs Kleene tables over the documented ternary conversion; non-trivial = not all three classes equal, distinct by (classes, ternaries, two base results)",
	})
}

// ---------------------------------------------------------------------
// arith: typing, value, agreement of integer and float arithmetic, modulo sign.

type arithCase struct {
	A  val.Val `json:"a"`
	B  val.Val `json:"b"`
	Op string  `json:"op"`
	CA string  `json:"class_a"`
	CB string  `json:"class_b"`
}

func genArith(t *rapid.T) arithCase {
	var a, b val.Val
	var ca, cb string
	if fw.Pct(t, "anyOperand", 20) {
		a, ca = gen.Value(t)
		b, cb = gen.Value(t)
	} else {
		a, ca = gen.Numeric(t)
		b, cb = gen.Numeric(t)
	}
	if fw.Pct(t, "numTextA", 12) {
		a, ca = gen.NumericText(t)
	}
	if fw.Pct(t, "numTextB", 12) {
		b, cb = gen.NumericText(t)
	}
	return arithCase{A: a, B: b, Op: fw.PickU(t, "op", []string{"+", "-", "*", "/", "%"}), CA: ca, CB: cb}
}

func exactInt(a, b int64, op string) (*big.Int, bool) {
	x, y := big.NewInt(a), big.NewInt(b)
	r := new(big.Int)
	switch op {
	case "+":
		r.Add(x, y)
	case "-":
		r.Sub(x, y)
	case "*":
		r.Mul(x, y)
	case "/":
		r.Quo(x, y)
	case "%":
		r.Rem(x, y)
	}
	return r, r.IsInt64()
}

// exactF: i is exactly representable as a float64.
func exactF(i int64) bool {
	return -(1<<53) <= i && i <= 1<<53
}

func sameFloat(a, b float64) bool {
	if math.IsNaN(a) && math.IsNaN(b) {
		return true
	}
	return a == b && math.Signbit(a) == math.Signbit(b)
}

func checkArith(c arithCase) (fw.Outcome, *fw.Violation) {
	o := fw.Outcome{Classes: []string{"arith:" + c.Op + ":" + gen.JoinClasses(c.CA, c.CB)}}
	if ref.OutsideModel(c.A) || ref.OutsideModel(c.B) {
		o.Discard = true
		return o, nil
	}
	res, err := query.Calculate(run.ToPrimary(c.A), run.ToPrimary(c.B), int(c.Op[0]))
	// the same through SQL
	sql := fmt.Sprintf("SELECT %s %s %s", c.A.SQL(), c.Op, c.B.SQL())
	tbl, sqlErr := getSess().Query(sql)
	var got val.Val
	if err == nil {
		got = run.FromPrimary(res)
	}
	if (err == nil) != (sqlErr == nil) {
		return o, fw.V("arith_sql_vs_direct", "%s: direct err=%v, sql err=%v", sql, err, sqlErr)
	}
	if err == nil {
		sv := tbl.Rows[0][0]
		if sv.K != got.K || (sv.S != got.S && !(sv.K == "F" && sameFloat(sv.AsFloat(), got.AsFloat()))) {
			return o, fw.V("arith_sql_vs_direct", "%s: direct %s, sql %s", sql, got, sv)
		}
	}

	i1, aInt := ref.AsInteger(c.A)
	i2, bInt := ref.AsInteger(c.B)
	f1, aNum := ref.AsFloat(c.A)
	f2, bNum := ref.AsFloat(c.B)
	switch {
	case !aNum || !bNum:
		// NULL exactly when an operand is not numeric
		if err != nil || got.K != "N" {
			return o, fw.V("arith_null", "%s: expected NULL (operand not numeric), got %s err=%v", sql, got, err)
		}
		o.Classes = append(o.Classes, "arith_nonnumeric")
		return o, nil
	case aInt && bInt:
		if (c.Op == "/" || c.Op == "%") && i2 == 0 {
			if err == nil {
				return o, fw.V("arith_int_div_zero", "%s: expected an error, got %s", sql, got)
			}
			o.Fingerprint = "intdivzero|" + c.Op + gen.JoinClasses(c.CA, c.CB)
			return o, nil
		}
		if err != nil {
			return o, fw.V("arith_int_error", "%s: unexpected error %v", sql, err)
		}
		if got.K != "I" {
			return o, fw.V("arith_int_type", "%s: both operands integers, result %s is not an integer", sql, got)
		}
		exact, fits := exactInt(i1, i2, c.Op)
		if !fits {
			o.Classes = append(o.Classes, "arith_int_overflow_excluded")
			return o, nil
		}
		if c.Op == "/" {
			// the manual does not say how an inexact integer quotient is rounded: value asserted only when exact
			if new(big.Int).Rem(big.NewInt(i1), big.NewInt(i2)).Sign() == 0 && got.AsInt() != exact.Int64() {
				return o, fw.V("arith_int_value", "%s: got %s, exact %s", sql, got, exact)
			}
		} else if got.AsInt() != exact.Int64() {
			return o, fw.V("arith_int_value", "%s: got %s, exact %s", sql, got, exact)
		}
		if c.Op == "%" {
			r := got.AsInt()
			if r != 0 && (r < 0) != (i1 < 0) {
				return o, fw.V("int_mod_sign", "%s: result %d does not have the sign of the dividend", sql, r)
			}
			if new(big.Int).Abs(big.NewInt(r)).Cmp(new(big.Int).Abs(big.NewInt(i2))) >= 0 {
				return o, fw.V("int_mod_magnitude", "%s: |%d| >= |%d|", sql, r, i2)
			}
		}
		// agreement with float arithmetic on the same integral operands, when exactly representable
		if c.Op != "/" && exactF(i1) && exactF(i2) && exactF(exact.Int64()) {
			fres, ferr := query.Calculate(value.NewFloat(float64(i1)), value.NewFloat(float64(i2)), int(c.Op[0]))
			if ferr != nil {
				return o, fw.V("arith_float_error", "float form of %s: %v", sql, ferr)
			}
			fv := run.FromPrimary(fres)
			if fv.K != "F" {
				return o, fw.V("arith_float_type", "float form of %s gave %s", sql, fv)
			}
			if fv.AsFloat() != float64(exact.Int64()) {
				sig := "float_int_disagree"
				if c.Op == "%" {
					sig = "float_mod_remainder"
				}
				return o, fw.V(sig, "%d %s %d = %s but %s %s %s = %s", i1, c.Op, i2, got, val.Float(float64(i1)), c.Op, val.Float(float64(i2)), fv)
			}
			o.Fingerprint = "agree|" + c.Op + "|" + gen.JoinClasses(c.CA, c.CB) + fmt.Sprintf("|%v%v", i1 < 0, i2 < 0)
		} else {
			o.Fingerprint = "int|" + c.Op + "|" + gen.JoinClasses(c.CA, c.CB)
		}
		return o, nil
	default:
		// float path
		if err != nil {
			return o, fw.V("arith_float_error", "%s: unexpected error %v", sql, err)
		}
		if got.K != "F" {
			return o, fw.V("arith_float_type", "%s: a float operand must give a float, got %s", sql, got)
		}
		g := got.AsFloat()
		var want float64
		switch c.Op {
		case "+":
			want = f1 + f2
		case "-":
			want = f1 - f2
		case "*":
			want = f1 * f2
		case "/":
			want = f1 / f2
		case "%":
			want = math.Mod(f1, f2)
		}
		if c.Op == "%" {
			if math.IsNaN(want) {
				if !math.IsNaN(g) {
					return o, fw.V("float_mod_nan", "%s: expected NaN, got %s", sql, got)
				}
			} else {
				if g != 0 && math.Signbit(g) != math.Signbit(f1) {
					return o, fw.V("float_mod_remainder", "%s = %s: a %% b must have the sign of a (truncated modulo gives %s)", sql, got, val.Float(want))
				}
				if !math.IsInf(f2, 0) && math.Abs(g) >= math.Abs(f2) {
					return o, fw.V("float_mod_magnitude", "%s = %s: |result| >= |b|", sql, got)
				}
				if g != want {
					return o, fw.V("float_mod_remainder", "%s = %s, truncated modulo gives %s", sql, got, val.Float(want))
				}
			}
		} else if !sameFloat(g, want) {
			return o, fw.V("arith_float_value", "%s: got %s, IEEE result %s", sql, got, val.Float(want))
		}
		o.Fingerprint = "float|" + c.Op + "|" + gen.JoinClasses(c.CA, c.CB)
		return o, nil
	}
}

func TestC06Arith(t *testing.T) {
	fw.Run(t, fw.Spec[arithCase]{
		ID: "C06", Name: "arith", Quick: 100000, Thorough: 3000000,
		Gen: genArith, Check: checkArith,
		Rule: "operand pairs (75% numeric-looking, 25% any class; 12% per operand numeric text assembled from parts) x {+,-,*,/,%}: query.Calculate and SELECT a op b must agree; NULL iff an operand is not numeric; integer iff both integers (error on /0, %0); exact value via big.Int when it fits int64; float results equal IEEE; on integral operands exactly representable in float64 the float path must equal the integer path; % has the sign of a and |r|<|b|; non-trivial = numeric result, distinct by (path, op, classes, signs)",
		Assumptions: []string{"integer results that overflow int64 are outside the stated domain and are excluded (counted in class arith_int_overflow_excluded)",
			"rounding of an inexact integer quotient is not documented: only the type is asserted"},
	})
}
