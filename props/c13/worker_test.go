package c13

// The worker: the test binary re-executed with C13_WORKER=1. It never enters
// the testing package (so testing's own "race detected during execution of
// test" bookkeeping is out of the picture), reads one case per line from fd 3,
// runs it on in-process csvq sessions and answers one JSON line on fd 4. The
// race runtime of this process writes its reports to the file named by
// GORACE log_path; the harness process reads that file after every answer.

import (
	"bufio"
	"context"
	"encoding/json"
	"fmt"
	"io"
	"net/http"
	"net/http/httptest"
	"os"
	"path/filepath"
	"runtime"
	"strconv"
	"strings"
	"sync"
	"sync/atomic"

	"github.com/mithrandie/csvq/lib/parser"
	"github.com/mithrandie/csvq/lib/query"

	"verif/internal/run"
)

type stmtRes struct {
	Err  string `json:"err,omitempty"` // run.ErrClass
	Msg  string `json:"msg,omitempty"`
	Rows int    `json:"rows"`
	Ran  bool   `json:"ran"`
}

type wres struct {
	Harness  string      `json:"harness,omitempty"` // the harness itself failed (setup, parse)
	Par      int64       `json:"par"`               // increase of query.VerifParallelTasks during the case (setup excluded)
	MaxG     int64       `json:"max_g"`             // query.VerifMaxGoroutines after the case
	Stmts    [][]stmtRes `json:"stmts"`
	Canceled bool        `json:"canceled,omitempty"` // the canceller fired before the program ended
}

// the loopback HTTP server of this worker process: remote tables for the lazy check
var (
	lazyOnce sync.Once
	lazyURL  string
)

func lazyServer() string {
	lazyOnce.Do(func() {
		srv := httptest.NewServer(http.HandlerFunc(func(w http.ResponseWriter, r *http.Request) {
			parts := strings.Split(strings.Trim(r.URL.Path, "/"), "/")
			n := 0
			if len(parts) >= 2 {
				n, _ = strconv.Atoi(parts[1])
			}
			if n < 0 || n > 1000 {
				n = 0
			}
			switch parts[0] {
			case "csv":
				w.Header().Set("Content-Type", "text/csv")
				_, _ = io.WriteString(w, lazyCSV(n))
			case "json":
				w.Header().Set("Content-Type", "application/json")
				_, _ = io.WriteString(w, lazyJSON(n))
			case "plain":
				w.Header().Set("Content-Type", "text/plain")
				_, _ = io.WriteString(w, lazyCSV(n))
			default:
				http.NotFound(w, r)
			}
		}))
		lazyURL = srv.URL // http://127.0.0.1:<port>
	})
	return lazyURL
}

func workerMain() {
	dir := os.Getenv("C13_WORKER_DIR")
	in := bufio.NewReaderSize(os.NewFile(3, "requests"), 1<<20)
	out := os.NewFile(4, "responses")
	enc := json.NewEncoder(out)
	for n := 0; ; n++ {
		line, err := in.ReadBytes('\n')
		if err != nil {
			os.Exit(0)
		}
		var c progCase
		var res wres
		if err := json.Unmarshal(line, &c); err != nil {
			res.Harness = "worker: request does not decode: " + err.Error()
		} else {
			cdir := filepath.Join(dir, fmt.Sprintf("case%d", n))
			res = execCase(c, cdir)
			_ = os.RemoveAll(cdir)
		}
		if err := enc.Encode(res); err != nil {
			os.Exit(3)
		}
	}
}

func setupSQL(c progCase) string {
	s := udfDecl + tableUDFs(c)
	for _, t := range c.Tables {
		if t.Format == "" {
			s += t.declareSQL()
		}
	}
	return s
}

func execCase(c progCase, dir string) (res wres) {
	if err := os.MkdirAll(dir, 0755); err != nil {
		res.Harness = err.Error()
		return
	}
	for _, t := range c.Tables {
		if t.Format != "" {
			if err := os.WriteFile(filepath.Join(dir, t.fileName()), []byte(t.fileText()), 0644); err != nil {
				res.Harness = err.Error()
				return
			}
		}
	}
	setup := setupSQL(c)
	if _, _, err := parser.Parse(setup, "", false, false); err != nil {
		res.Harness = "setup does not parse: " + err.Error()
		return
	}
	// parse everything first: a program that does not parse is a generator error
	parsed := make([][][]parser.Statement, len(c.Progs))
	for i, p := range c.Progs {
		for _, st := range p {
			sql := st.SQL
			if strings.Contains(sql, "{{URL}}") {
				sql = strings.ReplaceAll(sql, "{{URL}}", lazyServer())
			}
			ps, _, err := parser.Parse(sql, "", false, false)
			if err != nil {
				res.Harness = "statement does not parse: " + err.Error() + ": " + st.SQL
				return
			}
			parsed[i] = append(parsed[i], ps)
		}
	}

	ctx, cancel := context.WithCancel(context.Background())
	defer cancel()
	sessions := make([]*run.Sess, len(c.Progs))
	for i := range c.Progs {
		opt := run.Opt{Dir: dir, CPU: c.CPU, Ctx: ctx}
		if c.Stdin > 0 {
			opt.Stdin, opt.HasStdin = lazyCSV(c.Stdin), true
		}
		s, err := run.NewSess(opt)
		if err != nil {
			res.Harness = "session: " + err.Error()
			return
		}
		sessions[i] = s
	}
	defer func() {
		for _, s := range sessions {
			s.Close()
		}
	}()

	res.Stmts = make([][]stmtRes, len(c.Progs))
	for i := range c.Progs {
		res.Stmts[i] = make([]stmtRes, len(c.Progs[i]))
	}
	harness := make([]string, len(c.Progs))
	var par0 int64

	// every session sets up its temporary tables, then all wait at the barrier and run their statements
	var ready, done sync.WaitGroup
	start := make(chan struct{})
	for i := range c.Progs {
		ready.Add(1)
		done.Add(1)
		go func(i int) {
			defer done.Done()
			s := sessions[i]
			// every session parses its own copy: no syntax tree is shared between sessions
			setupStmts, _, _ := parser.Parse(setup, "", false, false)
			_, err := s.Proc.Execute(s.Ctx, setupStmts)
			s.Tx.SelectedViews = nil
			if err != nil {
				harness[i] = "setup failed: " + err.Error()
			}
			ready.Done()
			<-start
			if harness[i] != "" {
				return
			}
			for k := range parsed[i] {
				r := &res.Stmts[i][k]
				r.Ran = true
				s.Tx.AffectedRows = 0
				_, err := s.Proc.Execute(s.Ctx, parsed[i][k])
				if err != nil {
					r.Err = run.ErrClass(err)
					r.Msg = err.Error()
					if len(r.Msg) > 300 {
						r.Msg = r.Msg[:300]
					}
					s.Tx.SelectedViews = nil
					if c.KeepGoing {
						continue // like the interactive shell
					}
					return // like the CLI: the first error ends the program
				}
				r.Rows = s.Tx.AffectedRows
				if n := len(s.Tx.SelectedViews); n > 0 {
					r.Rows = s.Tx.SelectedViews[n-1].RecordLen()
				}
				s.Tx.SelectedViews = nil
			}
		}(i)
	}
	ready.Wait()
	par0 = atomic.LoadInt64(&query.VerifParallelTasks)

	var cwg sync.WaitGroup
	stop := make(chan struct{})
	var fired int32
	if c.Mode == "cancel" {
		cwg.Add(1)
		go func() {
			defer cwg.Done()
			for {
				select {
				case <-stop:
					return
				default:
				}
				if atomic.LoadInt64(&query.VerifParallelTasks) >= par0+int64(c.CancelAtTask) {
					for k := 0; k < c.CancelSpin; k++ {
						runtime.Gosched()
					}
					atomic.StoreInt32(&fired, 1)
					cancel()
					return
				}
				runtime.Gosched()
			}
		}()
	}
	close(start)
	done.Wait()
	close(stop)
	cwg.Wait()
	res.Par = atomic.LoadInt64(&query.VerifParallelTasks) - par0
	res.MaxG = atomic.LoadInt64(&query.VerifMaxGoroutines)
	res.Canceled = atomic.LoadInt32(&fired) == 1
	for _, h := range harness {
		if h != "" {
			res.Harness = h
		}
	}
	return
}
