package c13

// C13: parallel query evaluation and loading are free of data races.
//
// Oracle: the Go race detector. The driver builds this package with -race.
// Every case is executed in a *worker* process (this binary re-executed with
// C13_WORKER=1, see worker_test.go) whose race runtime logs to a file
// (GORACE log_path, halt_on_error=0, exitcode=0); after every case the harness
// reads what was appended to that file, parses the reports and turns each new
// one into a violation whose signature is the unordered pair of the top csvq
// source locations of the two conflicting accesses, written as
// file:Function+offset (line offset inside the enclosing function, so that a
// signature survives edits elsewhere in the file; the message has the lines).
//
// Why a worker and not the test process itself: the testing package marks the
// running (sub)test as failed as soon as the race runtime's error counter
// grows, which would turn a known finding into "search failed" and a non-zero
// exit; and a "fatal error: concurrent map writes" must not take the shard
// down. The race runtime prints a given race (same stacks / same address)
// only once per process, so after a *known* race was reported once the worker
// keeps running and the search continues past it; after an *unknown* race the
// worker is replaced so that rapid's shrinking sees the race again.

import (
	"bufio"
	"encoding/json"
	"fmt"
	"io"
	"os"
	"os/exec"
	"path/filepath"
	"regexp"
	"strings"
	"sync"
	"testing"
	"time"

	"pgregory.net/rapid"

	"verif/internal/fw"
	"verif/internal/run"
)

func TestMain(m *testing.M) {
	if os.Getenv("C13_WORKER") == "1" {
		workerMain()
		return
	}
	if os.Getenv("VERIF_SHRINKTIME") == "" {
		// every shrink step costs a worker start; keep it short
		_ = os.Setenv("VERIF_SHRINKTIME", "5s")
	}
	fw.Main(m)
}

// ---- worker management ----------------------------------------------------

type worker struct {
	cmd     *exec.Cmd
	req     *os.File
	lines   chan []byte // answers; closed when the worker's answer pipe ends
	dir     string
	logOff  int64
	waited  bool
	waitErr error
}

var (
	wmu     sync.Mutex
	workers = map[string]*worker{}
	selfExe string
)

func startWorker(check string) (*worker, error) {
	if selfExe == "" {
		p, err := os.Executable()
		if err != nil {
			return nil, err
		}
		selfExe = p
	}
	dir, err := os.MkdirTemp(fw.WorkDir(), "w-"+check+"-")
	if err != nil {
		return nil, err
	}
	reqR, reqW, err := os.Pipe()
	if err != nil {
		return nil, err
	}
	ansR, ansW, err := os.Pipe()
	if err != nil {
		return nil, err
	}
	errFile, err := os.Create(filepath.Join(dir, "stderr.txt"))
	if err != nil {
		return nil, err
	}
	cmd := exec.Command(selfExe)
	cmd.Dir = dir
	cmd.Stdout = errFile
	cmd.Stderr = errFile
	cmd.ExtraFiles = []*os.File{reqR, ansW}
	env := []string{}
	for _, e := range os.Environ() {
		if strings.HasPrefix(e, "GORACE=") || strings.HasPrefix(e, "VERIF_WORK=") || strings.HasPrefix(e, "C13_") {
			continue
		}
		env = append(env, e)
	}
	env = append(env, "C13_WORKER=1", "C13_WORKER_DIR="+dir, "VERIF_WORK="+dir,
		"GORACE=halt_on_error=0 exitcode=0 atexit_sleep_ms=0 history_size=3 log_path="+filepath.Join(dir, "race"))
	cmd.Env = env
	if err := cmd.Start(); err != nil {
		return nil, err
	}
	_ = reqR.Close()
	_ = ansW.Close()
	_ = errFile.Close()
	w := &worker{cmd: cmd, req: reqW, lines: make(chan []byte, 1), dir: dir}
	go func() {
		rd := bufio.NewReaderSize(ansR, 1<<20)
		for {
			line, err := rd.ReadBytes('\n')
			if len(line) > 0 && err == nil {
				w.lines <- line
			}
			if err != nil {
				close(w.lines)
				_ = ansR.Close()
				return
			}
		}
	}()
	fw.AddExtra("workers_started", 1)
	return w, nil
}

func (w *worker) kill() {
	_ = w.req.Close()
	if w.cmd.Process != nil {
		_ = w.cmd.Process.Kill()
	}
	w.wait()
	_ = os.RemoveAll(w.dir)
}

func (w *worker) wait() {
	if !w.waited {
		w.waited = true
		w.waitErr = w.cmd.Wait()
	}
}

// newLog returns what the race runtime appended to the worker's log since the last call.
func (w *worker) newLog() string {
	p := fmt.Sprintf("%s.%d", filepath.Join(w.dir, "race"), w.cmd.Process.Pid)
	f, err := os.Open(p)
	if err != nil {
		return ""
	}
	defer f.Close()
	if _, err := f.Seek(w.logOff, io.SeekStart); err != nil {
		return ""
	}
	b, _ := io.ReadAll(f)
	w.logOff += int64(len(b))
	return string(b)
}

func (w *worker) stderrTail() string {
	b, _ := os.ReadFile(filepath.Join(w.dir, "stderr.txt"))
	if len(b) > 6000 {
		b = b[:6000]
	}
	return string(b)
}

func dropWorker(check string) {
	wmu.Lock()
	defer wmu.Unlock()
	if w := workers[check]; w != nil {
		w.kill()
		delete(workers, check)
	}
}

type attempt struct {
	res      wres
	log      string // new race log text
	crashed  bool
	crashLog string
	timedOut bool
	err      error
}

// runOnce sends the case to the check's worker (starting one if needed) and waits for the answer.
func runOnce(check string, c progCase, limit time.Duration) attempt {
	wmu.Lock()
	w := workers[check]
	if w == nil {
		var err error
		if w, err = startWorker(check); err != nil {
			wmu.Unlock()
			return attempt{err: err}
		}
		workers[check] = w
	}
	wmu.Unlock()
	b, err := json.Marshal(c)
	if err != nil {
		return attempt{err: err}
	}
	b = append(b, '\n')
	if _, err := w.req.Write(b); err != nil {
		// the worker is gone: treated like a crash below
		_ = err
	}
	timer := time.NewTimer(limit)
	defer timer.Stop()
	select {
	case line, ok := <-w.lines:
		if !ok {
			w.wait()
			a := attempt{crashed: true, log: w.newLog(), crashLog: fmt.Sprintf("worker ended (%v)\n%s", w.waitErr, w.stderrTail())}
			dropWorker(check)
			return a
		}
		a := attempt{log: w.newLog()}
		if err := json.Unmarshal(line, &a.res); err != nil {
			a.err = fmt.Errorf("answer does not decode: %v", err)
		}
		return a
	case <-timer.C:
		a := attempt{timedOut: true}
		dropWorker(check)
		return a
	}
}

// ---- race reports ---------------------------------------------------------

type raceReport struct {
	Sig  string
	Locs [2]string
	Text string
}

var (
	accessHdr = regexp.MustCompile(`(?i)^(previous )?(atomic )?(read|write) at 0x[0-9a-f]+ by `)
	frameLoc  = regexp.MustCompile(`^\s+(/\S+\.go):(\d+)( \+0x[0-9a-f]+)?$`)
)

// relLoc maps an absolute source path to "lib/query/x.go:123" if it lies in the csvq tree.
func relLoc(path, line string) (string, bool) {
	repo := strings.TrimRight(run.RepoDir(), "/") + "/"
	if strings.HasPrefix(path, repo) {
		return strings.TrimPrefix(path, repo) + ":" + line, true
	}
	return path + ":" + line, false
}

// anchor turns "lib/query/x.go:123" into "lib/query/x.go:Func+7" (line offset inside the enclosing
// top-level function, read from the source tree), so that a signature survives edits elsewhere in
// the file. Falls back to the line number when the source cannot be read.
var (
	funcDecl  = regexp.MustCompile(`^func (?:\(\s*\w*\s*\*?(\w+)[^)]*\)\s*)?(\w+)`)
	funcIndex = map[string][]funcStart{}
	funcMu    sync.Mutex
)

type funcStart struct {
	line int
	name string
}

func anchor(loc string) string {
	i := strings.LastIndex(loc, ":")
	if i < 0 || strings.HasPrefix(loc, "/") {
		return loc
	}
	file := loc[:i]
	var line int
	if _, err := fmt.Sscanf(loc[i+1:], "%d", &line); err != nil {
		return loc
	}
	funcMu.Lock()
	defer funcMu.Unlock()
	idx, ok := funcIndex[file]
	if !ok {
		if b, err := os.ReadFile(filepath.Join(run.RepoDir(), file)); err == nil {
			for n, l := range strings.Split(string(b), "\n") {
				if m := funcDecl.FindStringSubmatch(l); m != nil {
					name := m[2]
					if m[1] != "" {
						name = m[1] + "." + name
					}
					idx = append(idx, funcStart{line: n + 1, name: name})
				}
			}
		}
		funcIndex[file] = idx
	}
	best := -1
	for k, f := range idx {
		if f.line <= line {
			best = k
		}
	}
	if best < 0 {
		return loc
	}
	return fmt.Sprintf("%s:%s+%d", file, idx[best].name, line-idx[best].line)
}

func parseReports(log string) []raceReport {
	var out []raceReport
	for _, block := range strings.Split(log, "==================") {
		if !strings.Contains(block, "WARNING: DATA RACE") {
			continue
		}
		lines := strings.Split(block, "\n")
		var locs []string
		for i := 0; i < len(lines) && len(locs) < 2; i++ {
			if !accessHdr.MatchString(lines[i]) {
				continue
			}
			// frames of this access: up to the next empty line
			loc, fallback := "", ""
			for j := i + 1; j < len(lines) && strings.TrimSpace(lines[j]) != ""; j++ {
				m := frameLoc.FindStringSubmatch(lines[j])
				if m == nil {
					continue
				}
				l, inRepo := relLoc(m[1], m[2])
				if inRepo {
					loc = l
					break
				}
				if fallback == "" && !strings.Contains(m[1], "/src/runtime/") && !strings.Contains(m[1], "/src/sync/") && !strings.Contains(m[1], "/src/internal/") {
					fallback = l
				}
			}
			if loc == "" {
				loc = fallback
			}
			if loc == "" {
				loc = "?"
			}
			locs = append(locs, loc)
		}
		for len(locs) < 2 {
			locs = append(locs, "?")
		}
		a0, a1 := anchor(locs[0]), anchor(locs[1])
		if a1 < a0 {
			a0, a1 = a1, a0
			locs[0], locs[1] = locs[1], locs[0]
		}
		out = append(out, raceReport{Sig: "race:" + a0 + "|" + a1, Locs: [2]string{locs[0], locs[1]}, Text: clipReport(strings.TrimSpace(block))})
	}
	return out
}

// clipReport keeps the two access stacks and the first frames of the goroutine creation stacks.
func clipReport(s string) string {
	lines := strings.Split(s, "\n")
	var out []string
	inCreated, kept := false, 0
	for _, l := range lines {
		if strings.HasPrefix(l, "Goroutine ") {
			inCreated, kept = true, 0
			out = append(out, l)
			continue
		}
		if inCreated {
			if strings.TrimSpace(l) == "" {
				inCreated = false
				out = append(out, l)
				continue
			}
			if kept < 6 {
				out = append(out, l)
			} else if kept == 6 {
				out = append(out, "      ...")
			}
			kept++
			continue
		}
		out = append(out, l)
	}
	r := strings.Join(out, "\n")
	if len(r) > 5000 {
		r = r[:5000] + "\n..."
	}
	return r
}

// inCsvq: at least one of the two accesses lies in the csvq tree (otherwise the harness raced with itself).
func (r raceReport) inCsvq() bool {
	for _, l := range r.Locs {
		if l != "?" && !strings.HasPrefix(l, "/") {
			return true
		}
	}
	return false
}

var (
	knownOnce sync.Once
	knownSigs map[string]bool
)

// known reads the signatures fw treats as known findings of C13 (only used to
// decide which of several reports of one case is returned first and whether
// the worker is replaced).
func known(sig string) bool {
	knownOnce.Do(func() {
		knownSigs = map[string]bool{}
		b, err := os.ReadFile(filepath.Join(fw.Root(), "known_findings.jsonl"))
		if err != nil {
			return
		}
		for _, line := range strings.Split(string(b), "\n") {
			var f struct {
				Property  string `json:"property"`
				Status    string `json:"status"`
				Signature string `json:"signature"`
			}
			if json.Unmarshal([]byte(strings.TrimSpace(line)), &f) == nil && f.Property == "C13" && f.Status == "known" {
				knownSigs[f.Signature] = true
			}
		}
	})
	return knownSigs[sig]
}

// ---- the check --------------------------------------------------------------

func validCase(c progCase) bool {
	if c.CPU < 1 || c.CPU > 64 || len(c.Progs) < 1 || len(c.Progs) > 4 || len(c.Tables) < 1 {
		return false
	}
	names := map[string]bool{}
	for _, t := range c.Tables {
		if t.N < 0 || t.N > 5000 || names[t.Name] || !regexp.MustCompile(`^[a-z][a-z0-9]*$`).MatchString(t.Name) {
			return false
		}
		names[t.Name] = true
		if t.Format != "" && fileExt[t.Format] == "" {
			return false
		}
	}
	return true
}

func programText(c progCase) string {
	var b strings.Builder
	for i, p := range c.Progs {
		for _, s := range p {
			fmt.Fprintf(&b, "  [session %d] %s;\n", i+1, s.SQL)
		}
	}
	for _, t := range c.Tables {
		f := t.Format
		if f == "" {
			f = "temporary table"
		}
		fmt.Fprintf(&b, "  %s: %d rows, %s\n", t.Name, t.N, f)
	}
	return b.String()
}

const caseLimit = 120 * time.Second

func checkIn(check string) func(c progCase) (fw.Outcome, *fw.Violation) {
	return func(c progCase) (fw.Outcome, *fw.Violation) {
		o := fw.Outcome{}
		if !validCase(c) {
			o.Discard = true
			return o, nil
		}
		a := runOnce(check, c, caseLimit)
		if a.timedOut {
			// not an oracle: the machine may be busy. One isolated retry with a 4x limit.
			fw.AddExtra("watchdog_retries", 1)
			a = runOnce(check, c, 4*caseLimit)
			if a.timedOut {
				return o, fw.Harness("case did not finish within %v (twice, the second time alone in a fresh worker):\n%s", 4*caseLimit, programText(c))
			}
		}
		if a.err != nil {
			return o, fw.Harness("worker: %v", a.err)
		}
		reports := parseReports(a.log)
		if a.crashed {
			if len(reports) == 0 {
				if i := strings.Index(a.crashLog, "fatal error: concurrent map"); i >= 0 {
					// the runtime's own detector of unsynchronised map access: a data race by definition
					line := a.crashLog[i:]
					if j := strings.Index(line, "\n"); j > 0 {
						line = line[:j]
					}
					return o, fw.V("fatal:"+strings.TrimPrefix(line, "fatal error: "), "the process died with %q\n%s\n%s", line, programText(c), a.crashLog)
				}
				// anything else is not a statement about races: once more in a fresh worker
				fw.AddExtra("worker_crash_retries", 1)
				b := runOnce(check, c, caseLimit)
				if b.crashed || b.timedOut || b.err != nil {
					return o, fw.Harness("worker crashed twice on the same case: %s\n%s", a.crashLog, programText(c))
				}
				a = b
				reports = parseReports(a.log)
			}
		}
		res := a.res
		if res.Harness != "" && len(reports) == 0 {
			return o, fw.Harness("%s\n%s", res.Harness, programText(c))
		}

		// classes
		ops := opsOf(c)
		o.Classes = append(o.Classes, fmt.Sprintf("cpu:%d", c.CPU), fmt.Sprintf("sessions:%d", len(c.Progs)))
		for _, op := range ops {
			o.Classes = append(o.Classes, "op:"+op)
		}
		formats := map[string]bool{}
		fileLoad := false
		maxN := 0
		for _, t := range c.Tables {
			used := false
			for _, p := range c.Progs {
				for _, s := range p {
					if strings.Contains(s.SQL, t.ref()) || (t.dmlTarget() != "" && strings.Contains(s.SQL, t.dmlTarget())) || (t.Format != "" && strings.Contains(s.SQL, t.fileName())) {
						used = true
					}
				}
			}
			if !used {
				continue
			}
			if t.N > maxN {
				maxN = t.N
			}
			if t.Format != "" {
				formats[t.Format] = true
				o.Classes = append(o.Classes, "file:"+t.Format)
				if t.N >= 2 {
					fileLoad = true
				}
				if t.N > 300 {
					o.Classes = append(o.Classes, "file_over_300_records")
				}
			} else {
				formats["temp"] = true
			}
		}
		switch {
		case maxN >= 1200:
			o.Classes = append(o.Classes, "rows:1200+")
		case maxN >= 640:
			o.Classes = append(o.Classes, "rows:640-1199")
		case maxN >= 341:
			o.Classes = append(o.Classes, "rows:341-639")
		case maxN >= 160:
			o.Classes = append(o.Classes, "rows:160-340")
		default:
			o.Classes = append(o.Classes, "rows:<160")
		}
		failSpec, failSeen, unexpected := "", true, 0
		failSpecs := map[string]bool{}
		for i, p := range c.Progs {
			for k, s := range p {
				if i >= len(res.Stmts) || k >= len(res.Stmts[i]) {
					continue
				}
				r := res.Stmts[i][k]
				if s.Fail != "" && strings.Contains(s.Fail, ":") {
					failSpecs[s.Fail] = true
					o.Classes = append(o.Classes, "fail_site:"+s.Fail[:strings.Index(s.Fail, ":")], "fail_kind:"+s.Fail[strings.Index(s.Fail, ":")+1:])
					if r.Ran && r.Err != "" {
						o.Classes = append(o.Classes, "worker_error:"+r.Err)
					} else {
						failSeen = false
						if os.Getenv("C13_DEBUG") != "" {
							fmt.Fprintf(os.Stderr, "C13_DEBUG expected error missing (%s): %s\n", s.Fail, s.SQL)
						}
					}
					continue
				}
				if r.Ran && r.Err != "" && !(c.Mode == "cancel" && res.Canceled) {
					unexpected++
					o.Classes = append(o.Classes, "unexpected_error:"+r.Err)
					fw.AddExtra("unexpected_statement_errors", 1)
					if os.Getenv("C13_DEBUG") != "" {
						fmt.Fprintf(os.Stderr, "C13_DEBUG unexpected error %s: %s\n   %s\n", r.Err, r.Msg, s.SQL)
					}
				}
				if r.Ran && r.Err == "" && r.Rows > 0 {
					o.Classes = append(o.Classes, "statement_with_rows")
				}
			}
		}
		failSpec = strings.Join(fw.SortedKeys(failSpecs), ",")
		if failSpec != "" && !failSeen {
			o.Classes = append(o.Classes, "expected_error_missing")
			fw.AddExtra("expected_error_missing", 1)
		}
		cancelKind := ""
		if c.Mode == "cancel" {
			cancelKind = "not_reached"
			if res.Canceled {
				cancelKind = "cancelled"
				for _, p := range res.Stmts {
					for _, r := range p {
						if r.Err != "" {
							cancelKind = "cancelled_with_error"
						}
					}
				}
			}
			o.Classes = append(o.Classes, "cancel:"+cancelKind)
		}
		if res.Par > 0 {
			o.Classes = append(o.Classes, "parallel_tasks>0")
			fw.AddExtra("parallel_task_managers", res.Par)
		}
		if fileLoad {
			o.Classes = append(o.Classes, "file_load>=2_records")
		}

		// the oracle
		if len(reports) > 0 {
			fw.AddExtra("race_reports", int64(len(reports)))
			var own []raceReport
			for _, r := range reports {
				if r.inCsvq() {
					own = append(own, r)
				}
			}
			if len(own) == 0 {
				return o, fw.Harness("race report without a csvq frame (the harness itself?):\n%s", reports[0].Text)
			}
			// several distinct races in one case: the first one that is not a known finding is returned, the
			// others are listed in the message (they come back in a later case or run)
			first := own[0]
			for _, r := range own {
				if !known(r.Sig) {
					first = r
					break
				}
			}
			seen := map[string]bool{first.Sig: true}
			var others []string
			for _, r := range own {
				if !seen[r.Sig] {
					seen[r.Sig] = true
					others = append(others, r.Sig)
				}
			}
			if !known(first.Sig) {
				dropWorker(check) // a fresh race runtime reports the same race again (shrinking, replay)
			}
			msg := fmt.Sprintf("data race between %s and %s while running (cpu %d):\n%s%s", first.Locs[0], first.Locs[1], c.CPU, programText(c), first.Text)
			if len(others) > 0 {
				msg += "\nfurther races reported in the same case: " + strings.Join(others, ", ")
			}
			return o, fw.V(first.Sig, "%s", msg)
		}

		// non-trivial: something ran on several goroutines, or a file with >= 2 records was loaded
		if (res.Par > 0 || fileLoad) && unexpected == 0 && (failSpec == "" || failSeen) {
			fs := fw.SortedKeys(formats)
			o.Fingerprint = fmt.Sprintf("%s|%s|%s|fail=%s|cancel=%s|sessions=%d", c.Mode, strings.Join(ops, ","), strings.Join(fs, ","), failSpec, cancelKind, len(c.Progs))
		}
		return o, nil
	}
}

func avoidNote() string {
	return fmt.Sprintf("generator keeps away from reported defects while these are true: avoidKnownLoaderPosRace=%v (eval, cancel and sessions then use temporary tables only; the load_* checks always read files), avoidKnownSubqueryFileInfoWrite=%v (statements with a FROM-subquery are the last ones of their program), avoidKnownSharedRandInLockNames=%v (the sessions check reads no files)", avoidKnownLoaderPosRace, avoidKnownSubqueryFileInfoWrite, avoidKnownSharedRandInLockNames)
}

const commonRule = "tables t1,t2 (160-2400 rows: 53% up to 340, 24% up to 500, 18% 640-900, 5% 1200-2000; files > 300 records) and t3 (5-40 rows) with columns id,k,g,v,s,d,j computed from a recipe (moduli, NULL period), as temporary tables or files; session with cpu 8-16; statements are executed in a worker process built with -race and every race report of the Go race detector (GORACE log_path) is a violation with signature race:<locA>|<locB> (top csvq frames of the two accesses as file:Function+line offset); non-trivial = query.VerifParallelTasks grew during the statements or a file with >= 2 records was loaded, no unexpected statement error; distinct by (mode, operator labels, formats, failure site:kind, cancel outcome, sessions)"

var commonAssumptions = []string{
	"the race detector only sees the happens-before relation of executed interleavings: unsynchronised accesses that execute are reported whatever their timing, code that is not reached is not judged",
	"the race runtime prints one report per distinct race (stacks / address) and process: a case is judged by what was appended to the log while it ran; after a report with an unknown signature the worker process is replaced",
	"statement errors are not judged (only counted: measured.unexpected_statement_errors); a worker that dies with 'fatal error: concurrent map ...' is a violation, any other death is retried once and then reported as a harness error",
}

func runCheck(t *testing.T, name string, quick, thorough int, gen func(*rapid.T) progCase, rule string) {
	defer dropWorker(name)
	fw.Run(t, fw.Spec[progCase]{
		ID: "C13", Name: name, Quick: quick, Thorough: thorough,
		Gen: gen, Check: checkIn(name),
		Rule:        rule + "; " + commonRule,
		Assumptions: append(append([]string{}, commonAssumptions...), avoidNote()),
	})
}

func TestC13Eval(t *testing.T) {
	runCheck(t, "eval", 170, 3400, genEval,
		"1-3 statements: every built-in function of the manual except CALL (incl. RAND(), RAND(lo,hi), NOW()) and user functions whose bodies use variables, a cursor over a table, SELECT..INTO and an own temporary table, evaluated per row; correlated scalar/EXISTS/IN subqueries in the select list and WHERE with large outer/small inner and small outer/large inner (also two levels, LATERAL with a big inner table); prepared statements executed repeatedly; filter, all join kinds (ON/USING/NATURAL/CROSS/LATERAL, outer), GROUP BY + aggregates (incl. LISTAGG, JSON_AGG, MEDIAN, user aggregate) / HAVING, half of them with >= 160 groups of several rows (key id % m) and LISTAGG/JSON_AGG .. WITHIN GROUP (ORDER BY <expression>) next to computed select fields, expression keys in PARTITION BY / ORDER BY of analytic functions, DISTINCT, UNION/EXCEPT/INTERSECT [ALL], ORDER BY + LIMIT/OFFSET/PERCENT/WITH TIES, analytic functions with frames, FROM subqueries, CTE, correlated and scalar subqueries, user functions, regexp/datetime/json functions, variables and flags, INSERT..SELECT/UPDATE/UPDATE..FROM/DELETE/REPLACE/ALTER ADD")
}

func TestC13LoadText(t *testing.T) {
	runCheck(t, "load_text", 60, 1200, genLoad([]string{"CSV", "TSV", "LTSV", "FIXED"}),
		"t1,t2 (and 60% of t3) are CSV/TSV/LTSV/FIXED files written by the harness (88%: 301-900 records, else 2/3/17/160/299/300); 1-2 statements: scans, SELECT *, the same file twice in one query (self join, IN subquery), two files in a set operation, filters/joins/grouping/sorting/analytic functions over the files, DML on CSV/TSV files (not committed)")
}

func TestC13LoadJSON(t *testing.T) {
	runCheck(t, "load_json", 50, 1000, genLoad([]string{"JSON", "JSONL"}),
		"like load_text with JSON and JSONL files")
}

func TestC13Error(t *testing.T) {
	runCheck(t, "error", 90, 1800, genError,
		"one statement that fails while workers run: an expression that divides by zero / takes a modulus by zero / calls a user function that triggers an error exactly at the row with a chosen id inside the range of the 2nd or a later worker (25% at a range boundary; also two failing rows) or fails at every row (unknown column, unknown function, scalar subquery with several rows), placed in WHERE, the select list, a GROUP BY key, an aggregate argument, HAVING, a join condition, ORDER BY, an analytic argument or PARTITION BY, DISTINCT, INSERT..SELECT, UPDATE SET/WHERE, DELETE WHERE; 25% with a normal statement before it")
}

func TestC13Cancel(t *testing.T) {
	runCheck(t, "cancel", 70, 1400, genCancel,
		"1-2 statements whose context is cancelled from another goroutine as soon as the 1st-4th parallel task manager of the program was created (plus 0-2000 scheduler yields); the moment is not an oracle")
}

func TestC13Recover(t *testing.T) {
	runCheck(t, "recover", 90, 1800, genRecover,
		"one session that goes on after errors (interactive shell, library): 1-3 statements failing in OFFSET / LIMIT / WHERE / ORDER BY evaluation, in a WITH clause, a subquery or set operation, on unknown objects, in DML, in a user function, then 1-3 statements of which the first has a per-row subquery evaluated by several workers")
}

func TestC13Lazy(t *testing.T) {
	runCheck(t, "lazy", 80, 1600, genLazy,
		"sources that are loaded and cached on first reference - remote tables (bare http:// URL, URL::(), CSV(',', URL::()), JSON('', URL::()), text/csv, application/json and text/plain bodies served by a loopback net/http/httptest server of the worker process), DATA:: strings, CSV_INLINE/JSON_INLINE, STDIN, a file nobody has read yet (all six formats, also as file: URL and INLINE::()) - are referenced for the FIRST time inside a subquery that several goroutines evaluate per record of a big outer table (fresh session and transaction per case: cold caches): WHERE IN / EXISTS / scalar subquery in the select list / the same or two different sources in two subqueries of one statement / the body of a user function / a join condition / an aggregate argument / ORDER BY / UPDATE..WHERE; 5% a remote table answering 404 (every worker fails while loading); 35% read the now cached source once more")
}

func TestC13Sessions(t *testing.T) {
	runCheck(t, "sessions", 90, 1800, genSessions,
		"two sessions (own Session, Transaction, Processor and temporary tables; csvq used as a library) run 1-3 statements each at the same time in two goroutines of one process: shared package-level state (goroutine manager, value and buffer pools, caches)")
}
