package c13

// Case structure, table recipes and the program generator shared by all C13
// checks. A case holds table *recipes* (sizes and moduli, the rows are computed
// from them) and the SQL text of the statements, so a replay file is small and
// readable.

import (
	"encoding/json"
	"fmt"
	"sort"
	"strings"

	"pgregory.net/rapid"

	"verif/internal/fw"
)

// Shapes on which csvq genuinely violates the property (reported; see the
// signatures in the final report). While a flag is true the generator keeps
// away from that shape in the *mixed* checks so that their search continues;
// the dedicated checks (load_text, load_json, error) always produce it. Set a
// flag to false once the defect is fixed in /repo or listed in
// known_findings.jsonl.
const (
	// every load of a CSV/TSV/LTSV/FIXED file with >= 2 records: the consumer
	// goroutine of readRecordSet reads `pos` while the producer writes it
	// (readRecordSet+36 vs +80); the JSONL loader has the same pattern
	// (loadViewFromJsonLinesFile+47 vs +117). While true, the eval / cancel / sessions
	// checks build every table as a temporary table instead of a file.
	avoidKnownLoaderPosRace = false
	// a FROM-subquery over a table marked the table's shared FileInfo as an inline table (the
	// "file  does not exist" defect); from then on every load of that table wrote FileInfo.Path, and
	// subqueries evaluated by several workers did that at the same time (loadView, `Path = ""`).
	// Fixed in /repo by b1128aa (the subquery branch copies the FileInfo): false. While true,
	// statements with a FROM-subquery are moved to the end of their program.
	avoidKnownSubqueryFileInfoWrite = false
	// two sessions in one process share one unsynchronised math/rand.Rand for the names of read-lock
	// files (lib/file/functions.go:32). While true, the sessions check never reads files.
	avoidKnownSharedRandInLockNames = false
)

var colNames = []string{"id", "k", "g", "v", "s", "d", "j"}

var fileFormats = []string{"CSV", "TSV", "LTSV", "FIXED", "JSON", "JSONL"}

var fileExt = map[string]string{"CSV": ".csv", "TSV": ".tsv", "LTSV": ".ltsv", "FIXED": ".txt", "JSON": ".json", "JSONL": ".jsonl"}

type tableSpec struct {
	Name      string `json:"name"`
	N         int    `json:"n"`
	Format    string `json:"format,omitempty"` // "" = temporary table, else a file of that format
	KMod      int    `json:"kmod"`
	GMod      int    `json:"gmod"`
	VMod      int    `json:"vmod"`
	SMod      int    `json:"smod"`
	NullEvery int    `json:"null_every,omitempty"`
}

type stmt struct {
	SQL  string   `json:"sql"`
	Ops  []string `json:"ops"`
	Fail string   `json:"fail,omitempty"` // site:kind of the injected failure
}

type progCase struct {
	Mode         string      `json:"mode"`            // eval | load | error | cancel | sessions | recover | lazy
	Stdin        int         `json:"stdin,omitempty"` // > 0: the session's standard input is a CSV table with that many records
	CPU          int         `json:"cpu"`
	Tables       []tableSpec `json:"tables"`
	Progs        [][]stmt    `json:"progs"`                // one statement list per session
	KeepGoing    bool        `json:"keep_going,omitempty"` // like the interactive shell: a failed statement does not end the program
	CancelAtTask int         `json:"cancel_at_task,omitempty"`
	CancelSpin   int         `json:"cancel_spin,omitempty"`
}

// ---- table data ---------------------------------------------------------

// cell returns the text of column col in row i and whether it is NULL.
func (ts tableSpec) cell(i int, col int) (string, bool) {
	mod := func(x, m int) int {
		if m < 1 {
			m = 1
		}
		return x % m
	}
	switch col {
	case 0:
		return fmt.Sprint(i + 1), false
	case 1:
		return fmt.Sprint(mod(i*5+1, ts.KMod)), false
	case 2:
		return fmt.Sprintf("g%d", mod(i*3+2, ts.GMod)), false
	case 3:
		if ts.NullEvery > 0 && i%ts.NullEvery == ts.NullEvery-1 {
			return "", true
		}
		return fmt.Sprint(mod(i*7+3, ts.VMod) - 3), false
	case 4:
		return fmt.Sprintf("s%d", mod(i*11+5, ts.SMod)), false
	case 5:
		return fmt.Sprintf("2020-%02d-%02d", 1+(i/28)%12, 1+i%28), false
	}
	// a JSON text without colon (LTSV) or blank (FIXED)
	return fmt.Sprintf(`[%d,"x%d"]`, mod(i*5+1, ts.KMod), i%5), false
}

func isNumCol(col int) bool { return col == 0 || col == 1 || col == 3 }

func (ts tableSpec) fileName() string { return ts.Name + fileExt[ts.Format] }

func (ts tableSpec) fixedPositions() []int {
	w := make([]int, len(colNames))
	for c := range colNames {
		w[c] = len(colNames[c])
	}
	for i := 0; i < ts.N; i++ {
		for c := range colNames {
			if s, _ := ts.cell(i, c); len(s) > w[c] {
				w[c] = len(s)
			}
		}
	}
	pos := make([]int, len(w))
	p := 0
	for c := range w {
		p += w[c] + 1
		pos[c] = p
	}
	return pos
}

// ref is the table expression for a FROM clause (without alias).
func (ts tableSpec) ref() string {
	switch ts.Format {
	case "":
		return ts.Name
	case "LTSV":
		return "LTSV(`" + ts.fileName() + "`)"
	case "FIXED":
		b, _ := json.Marshal(ts.fixedPositions())
		return "FIXED('" + string(b) + "', `" + ts.fileName() + "`)"
	}
	return "`" + ts.fileName() + "`"
}

// dmlTarget is the table name for INSERT/UPDATE/DELETE ("" = not used as a target).
func (ts tableSpec) dmlTarget() string {
	switch ts.Format {
	case "":
		return ts.Name
	case "CSV", "TSV", "JSON", "JSONL":
		return "`" + ts.fileName() + "`"
	}
	return ""
}

// fileText renders the file contents.
func (ts tableSpec) fileText() string {
	var b strings.Builder
	csvCell := func(s string, null bool) string {
		if null {
			return ""
		}
		if strings.ContainsAny(s, "\",\t") {
			return `"` + strings.ReplaceAll(s, `"`, `""`) + `"`
		}
		return s
	}
	switch ts.Format {
	case "CSV", "TSV":
		sep := ","
		if ts.Format == "TSV" {
			sep = "\t"
		}
		b.WriteString(strings.Join(colNames, sep) + "\n")
		for i := 0; i < ts.N; i++ {
			for c := range colNames {
				if c > 0 {
					b.WriteString(sep)
				}
				s, null := ts.cell(i, c)
				b.WriteString(csvCell(s, null))
			}
			b.WriteString("\n")
		}
	case "LTSV":
		for i := 0; i < ts.N; i++ {
			for c := range colNames {
				if c > 0 {
					b.WriteString("\t")
				}
				s, _ := ts.cell(i, c)
				b.WriteString(colNames[c] + ":" + s)
			}
			b.WriteString("\n")
		}
	case "FIXED":
		pos := ts.fixedPositions()
		line := func(cells []string) {
			p := 0
			for c, s := range cells {
				b.WriteString(s)
				b.WriteString(strings.Repeat(" ", pos[c]-p-len(s)))
				p = pos[c]
			}
			b.WriteString("\n")
		}
		line(colNames)
		for i := 0; i < ts.N; i++ {
			cells := make([]string, len(colNames))
			for c := range colNames {
				cells[c], _ = ts.cell(i, c)
			}
			line(cells)
		}
	case "JSON", "JSONL":
		if ts.Format == "JSON" {
			b.WriteString("[\n")
		}
		for i := 0; i < ts.N; i++ {
			b.WriteString("{")
			for c := range colNames {
				if c > 0 {
					b.WriteString(",")
				}
				s, null := ts.cell(i, c)
				b.WriteString(`"` + colNames[c] + `":`)
				switch {
				case null:
					b.WriteString("null")
				case isNumCol(c):
					b.WriteString(s)
				default:
					q, _ := json.Marshal(s)
					b.Write(q)
				}
			}
			b.WriteString("}")
			if ts.Format == "JSON" && i < ts.N-1 {
				b.WriteString(",")
			}
			b.WriteString("\n")
		}
		if ts.Format == "JSON" {
			b.WriteString("]\n")
		}
	}
	return b.String()
}

// declareSQL builds a temporary table from inline data.
func (ts tableSpec) declareSQL() string {
	var b strings.Builder
	b.WriteString("DECLARE " + ts.Name + " VIEW (" + strings.Join(colNames, ", ") + ");\n")
	for i := 0; i < ts.N; i++ {
		if i%100 == 0 {
			if i > 0 {
				b.WriteString(";\n")
			}
			b.WriteString("INSERT INTO " + ts.Name + " VALUES ")
		} else {
			b.WriteString(", ")
		}
		b.WriteString("(")
		for c := range colNames {
			if c > 0 {
				b.WriteString(", ")
			}
			s, null := ts.cell(i, c)
			switch {
			case null:
				b.WriteString("NULL")
			case isNumCol(c):
				b.WriteString(s)
			default:
				b.WriteString("'" + s + "'")
			}
		}
		b.WriteString(")")
	}
	if ts.N > 0 {
		b.WriteString(";\n")
	}
	return b.String()
}

const udfDecl = `
VAR @n := 3;
VAR @acc := 0;
DECLARE usq FUNCTION (@x) AS BEGIN
  IF @x IS NULL THEN RETURN 0; END IF;
  RETURN @x * @x + 1;
END;
DECLARE ustr FUNCTION (@x, @p DEFAULT '<') AS BEGIN
  VAR @r := @p || @x;
  RETURN @r || '>';
END;
DECLARE ufail FUNCTION (@x, @bad) AS BEGIN
  IF INTEGER(@x) = @bad THEN TRIGGER ERROR 70 'requested failure'; END IF;
  RETURN @x;
END;
DECLARE udyn FUNCTION (@x) AS BEGIN
  VAR @r;
  EXECUTE 'SELECT %s + 1 AS dynw%s INTO @r' USING COALESCE(@x, 0), COALESCE(@x, 0);
  RETURN @r;
END;
DECLARE usum AGGREGATE (cur, @m DEFAULT 1) AS BEGIN
  VAR @a := 0; VAR @x;
  WHILE @x IN cur DO
    IF @x IS NULL THEN CONTINUE; END IF;
    @a := @a + @x * @m;
  END WHILE;
  RETURN @a;
END;
`

// tableUDFs: user-defined functions whose bodies read the case's tables (cursor over the small
// table, SELECT .. INTO over a big one, a temporary table of their own).
func tableUDFs(c progCase) string {
	ref := func(name string) string {
		for _, t := range c.Tables {
			if t.Name == name {
				return t.ref()
			}
		}
		return ""
	}
	var b strings.Builder
	if r := ref("t3"); r != "" {
		b.WriteString(`
DECLARE ucur FUNCTION (@x) AS BEGIN
  VAR @sum := 0; VAR @v;
  DECLARE cur CURSOR FOR SELECT c.v FROM ` + r + ` c WHERE c.k = @x % 5;
  OPEN cur;
  WHILE @v IN cur DO
    IF @v IS NULL THEN CONTINUE; END IF;
    @sum := @sum + @v;
  END WHILE;
  CLOSE cur;
  DISPOSE CURSOR cur;
  RETURN @sum;
END;
`)
	}
	if r := ref("t1"); r != "" {
		b.WriteString(`
DECLARE ucnt FUNCTION (@x) AS BEGIN
  VAR @n;
  SELECT COUNT(*) INTO @n FROM ` + r + ` b WHERE b.k = @x AND b.v IS NOT NULL;
  RETURN @n;
END;
`)
	}
	b.WriteString(`
DECLARE utmp FUNCTION (@x) AS BEGIN
  DECLARE tt VIEW (a, b);
  INSERT INTO tt VALUES (@x, 1), (@x + 1, 2), (@x + 2, 3);
  VAR @r;
  SELECT SUM(a * b) INTO @r FROM tt;
  RETURN @r;
END;
`)
	return b.String()
}

// ---- generator ------------------------------------------------------------

type g struct {
	t      *rapid.T
	mode   string
	big    []tableSpec // >= 160 rows
	small  tableSpec   // <= 40 rows
	ops    map[string]bool
	fail   string // expression to inject ("" = none)
	failAt string // site chosen for the failure
	// noFilter: no WHERE clause / row-reducing join while the failing statement is generated
	noFilter bool
	seq      int
}

func (x *g) pct(label string, p int) bool     { return fw.Pct(x.t, label, p) }
func (x *g) rng(label string, lo, hi int) int { return fw.Range(x.t, label, lo, hi) }
func (x *g) pick(label string, xs []string) string {
	return fw.PickU(x.t, label, xs)
}
func (x *g) op(name string) { x.ops[name] = true }

func sub(tmpl string, a string, small string) string {
	return strings.NewReplacer("%a", a, "%S", small).Replace(tmpl)
}

var numTmpl = []string{
	"%a.v", "%a.k", "%a.id", "%a.v + %a.k", "%a.v * 2 - %a.k", "COALESCE(%a.v, 0) + 1", "ABS(%a.v)",
	"usq(%a.v)", "udyn(%a.k)", "udyn(%a.id)", "LEN(%a.s)", "YEAR(%a.d)", "JSON_VALUE('[0]', %a.j)",
	"CASE WHEN %a.v > 5 THEN 1 WHEN %a.v IS NULL THEN 0 ELSE -1 END", "IF(%a.k > 2, %a.v, %a.k)",
	"%a.id % 7", "ROUND(%a.v / 3.0, 2)", "%a.k + @n", "%a.v + @@CPU", "FLOAT(%a.v) * 1.5",
	"(SELECT MAX(c.v) FROM %S c WHERE c.k = %a.k % 5)", "(SELECT COUNT(*) FROM %S c WHERE c.id <= %a.k)",
}

var strTmpl = []string{
	"%a.s", "%a.g", "UPPER(%a.s)", "%a.s || '-' || %a.g", "REGEXP_REPLACE(%a.s, '[0-9]+', 'N')",
	"DATETIME_FORMAT(%a.d, '%Y/%m/%d')", "MD5(%a.s)", "SUBSTRING(%a.s, 1, 2)", "LPAD(%a.g, 5, '*')",
	"STRING(%a.v)", "COALESCE(STRING(%a.v), 'none')", "JSON_VALUE('[1]', %a.j)", "ustr(%a.s)", "ustr(%a.g, '[')",
	"ADD_DAY(%a.d, 3)", "REPLACE(%a.s, 's', 'S')", "FORMAT('%s:%05s', %a.g, %a.id)",
}

// every built-in function of the manual except CALL (an external process per row), evaluated per row
var fnTmpl = []string{
	// logical
	"COALESCE(%a.v, %a.k)", "IF(%a.v > 3, %a.s, %a.g)", "IFNULL(%a.v, 0)", "NULLIF(%a.k, 1)",
	// numeric
	"ABS(%a.v)", "ACOS(%a.v / 100.0)", "ACOSH(%a.id)", "ASIN(%a.v / 100.0)", "ASINH(%a.v)", "ATAN(%a.v)", "ATAN2(%a.v, %a.k + 1)", "ATANH(%a.v / 100.0)",
	"CBRT(%a.v)", "CEIL(%a.v / 3.0)", "CEIL(%a.v / 3.0, 1)", "COS(%a.v)", "COSH(%a.k)", "EXP(%a.k)", "EXP2(%a.k)", "EXPM1(%a.k)", "FLOOR(%a.v / 3.0)", "FLOOR(%a.v / 3.0, 1)",
	"IS_INF(%a.v)", "IS_NAN(%a.v)", "LOG(%a.id)", "LOG10(%a.id)", "LOG1P(%a.id)", "LOG2(%a.id)", "LOGB(%a.id)", "POW(%a.k, 2)", "ROUND(%a.v / 3.0)", "ROUND(%a.v / 3.0, 2)",
	"SIN(%a.v)", "SINH(%a.k)", "SQRT(%a.id)", "TAN(%a.v)", "TANH(%a.v)", "BIN_TO_DEC(BIN(%a.id))", "OCT_TO_DEC(OCT(%a.id))", "HEX_TO_DEC(HEX(%a.id))",
	"ENOTATION_TO_DEC(ENOTATION(%a.id * 1.5))", "NUMBER_FORMAT(%a.id * 1234.5, 2, '.', ',', '')", "RAND()", "RAND(1, 100)", "RAND(COALESCE(%a.k, 0), COALESCE(%a.k, 0) + 10)", "RAND() * %a.id",
	// datetime
	"NOW()", "DATETIME_FORMAT(%a.d, '%Y-%m-%d %H:%i:%s')", "YEAR(%a.d)", "MONTH(%a.d)", "DAY(%a.d)", "HOUR(NOW())", "MINUTE(NOW())", "SECOND(NOW())", "MILLISECOND(NOW())",
	"MICROSECOND(NOW())", "NANOSECOND(NOW())", "WEEKDAY(%a.d)", "UNIX_TIME(%a.d)", "UNIX_NANO_TIME(%a.d)", "DAY_OF_YEAR(%a.d)", "WEEK_OF_YEAR(%a.d)",
	"ADD_YEAR(%a.d, 1)", "ADD_MONTH(%a.d, %a.k)", "ADD_DAY(%a.d, %a.k)", "ADD_HOUR(%a.d, 5)", "ADD_MINUTE(%a.d, 5)", "ADD_SECOND(%a.d, %a.k)", "ADD_MILLI(%a.d, 5)", "ADD_MICRO(%a.d, 5)", "ADD_NANO(%a.d, 5)",
	"TRUNC_MONTH(%a.d)", "TRUNC_DAY(%a.d)", "TRUNC_TIME(NOW())", "TRUNC_HOUR(NOW())", "TRUNC_MINUTE(NOW())", "TRUNC_SECOND(NOW())", "TRUNC_MILLI(NOW())", "TRUNC_MICRO(NOW())", "TRUNC_NANO(NOW())",
	"DATE_DIFF(%a.d, NOW())", "TIME_DIFF(NOW(), %a.d)", "TIME_NANO_DIFF(%a.d, '2020-01-01')", "UTC(%a.d)", "MILLI_TO_DATETIME(%a.id * 100000)", "NANO_TO_DATETIME(%a.id * 1000000000)",
	// string
	"TRIM(' ' || %a.s || ' ')", "TRIM(%a.s, 's')", "LTRIM(%a.s, 's')", "RTRIM(%a.s || '  ')", "UPPER(%a.s)", "LOWER(%a.g)", "BASE64_ENCODE(%a.s)", "BASE64_DECODE(BASE64_ENCODE(%a.s))",
	"HEX_ENCODE(%a.s)", "HEX_DECODE(HEX_ENCODE(%a.g))", "LEN(%a.s)", "BYTE_LEN(%a.s)", "BYTE_LEN(%a.s, 'SJIS')", "WIDTH(%a.s)", "LPAD(%a.s, 8, '-')", "RPAD(%a.s, 8, 'ab')",
	"SUBSTRING(%a.s FROM 2 FOR 2)", "SUBSTRING(%a.s, 1, 2)", "SUBSTR(%a.s, 1)", "INSTR(%a.s, '1')", "LIST_ELEM(%a.j, ',', 0)", "REPLACE(%a.s, 's', 'S')",
	"REGEXP_MATCH(%a.s, '^S[0-9]+$', 'i')", "REGEXP_FIND(%a.s, '[0-9]+')", "REGEXP_FIND_SUBMATCHES(%a.s, '(s)([0-9]+)')", "REGEXP_FIND_ALL(%a.j, '[0-9]+')", "REGEXP_REPLACE(%a.s, '[0-9]', '#')",
	"TITLE_CASE(%a.g)", "FORMAT('%s-%d', %a.s, %a.id)", "JSON_VALUE('[0]', %a.j)", "JSON_OBJECT(%a.id, %a.s)",
	// cryptographic hash
	"MD5(%a.s)", "SHA1(%a.s)", "SHA256(%a.s)", "SHA512(%a.s)", "MD5_HMAC(%a.s, 'key')", "SHA1_HMAC(%a.s, 'key')", "SHA256_HMAC(%a.s, %a.g)", "SHA512_HMAC(%a.s, 'key')",
	// cast
	"STRING(%a.v)", "INTEGER(%a.v * 1.5)", "FLOAT(%a.v)", "DATETIME(%a.d)", "DATETIME(%a.d, 'Asia/Tokyo')", "BOOLEAN(%a.v % 2)", "TERNARY(%a.v % 2)",
	// user-defined functions with variables, a cursor over a table, SELECT .. INTO, an own temporary table
	"ucur(%a.k)", "utmp(%a.k)", "ucur(%a.v)", "utmp(%a.id)",
}

var predTmpl = []string{
	"%a.v > #", "%a.k = #", "%a.v IS NULL", "%a.v IS NOT NULL", "%a.s LIKE 's1%'", "%a.v IN (1, 2, 3, 5, 8)",
	"%a.v BETWEEN 2 AND 9", "REGEXP_MATCH(%a.s, '^s[0-4]')", "%a.k IN (SELECT c.k FROM %S c WHERE c.v > 3)",
	"EXISTS (SELECT 1 FROM %S c WHERE c.k = %a.k)", "%a.v > ANY (SELECT c.v FROM %S c)", "usq(%a.k) > 10",
	"%a.d > '2020-03-10'", "(%a.k, %a.g) IN ((1, 'g1'), (2, 'g2'), (3, 'g0'))", "NOT (%a.v < 3)",
	"(%a.v % 2 = 0 OR %a.k < 3)", "%a.id % 3 <> 1", "%a.g <> 'g1'", "%a.v <= ALL (SELECT c.v + 20 FROM %S c)",
}

func (x *g) num(a string) string {
	e := sub(x.pick("num", numTmpl), a, x.small.ref())
	x.noteExpr(e)
	return e
}

func (x *g) str(a string) string {
	e := sub(x.pick("str", strTmpl), a, x.small.ref())
	x.noteExpr(e)
	return e
}

func (x *g) noteExpr(e string) {
	switch {
	case strings.Contains(e, "SELECT"):
		x.op("corr_subquery")
	case strings.Contains(e, "udyn("):
		// the function body parses a statement text per invocation: several goroutines are inside parser.Parse at once
		x.op("udf_execute_dynamic_text")
	case strings.Contains(e, "usq(") || strings.Contains(e, "ustr("):
		x.op("udf")
	case strings.Contains(e, "REGEXP"):
		x.op("regexp")
	case strings.Contains(e, "DATE") || strings.Contains(e, "YEAR") || strings.Contains(e, "%a.d >"):
		x.op("datetime")
	case strings.Contains(e, "JSON_VALUE"):
		x.op("json_value")
	case strings.Contains(e, "@"):
		x.op("var_or_flag")
	}
}

func (x *g) fn(a string) string {
	e := sub(x.pick("fn", fnTmpl), a, x.small.ref())
	switch {
	case strings.Contains(e, "RAND("):
		x.op("rand")
	case strings.Contains(e, "NOW("):
		x.op("now")
	case strings.Contains(e, "udyn("):
		// the function body parses a statement text per invocation: several goroutines are inside parser.Parse at once
		x.op("udf_execute_dynamic_text")
	case strings.Contains(e, "ucur(") || strings.Contains(e, "utmp("):
		x.op("udf_body")
	default:
		x.op("builtin")
	}
	return e
}

func (x *g) any(a string) string {
	switch fw.Weighted(x.t, "exprKind", []int{40, 25, 35}) {
	case 0:
		return x.num(a)
	case 1:
		return x.str(a)
	}
	return x.fn(a)
}

func (x *g) pred1(a string) string {
	e := sub(x.pick("pred", predTmpl), a, x.small.ref())
	e = strings.Replace(e, "#", fmt.Sprint(x.rng("predConst", 0, 9)), 1)
	x.noteExpr(e)
	return e
}

func (x *g) pred(a string) string {
	p := x.pred1(a)
	switch fw.Weighted(x.t, "predShape", []int{55, 25, 20}) {
	case 1:
		p += " AND " + x.pred1(a)
	case 2:
		p = "(" + p + " OR " + x.pred1(a) + ")"
	}
	return p
}

// where returns " WHERE pred" (with the injected failure if this site was chosen) or "".
func (x *g) where(a string, pctWhere int) string {
	if x.takeFail("where") {
		x.op("where")
		return " WHERE " + x.failExpr(a) + " > -1000000"
	}
	if x.noFilter {
		// the statement contains an injected failure at another site: the failing row must reach it
		return ""
	}
	if x.pct("hasWhere", pctWhere) {
		x.op("where")
		return " WHERE " + x.pred(a)
	}
	return ""
}

// takeFail reports whether the pending failure is to be placed at this site.
func (x *g) takeFail(site string) bool {
	if x.fail != "" && x.failAt == site {
		return true
	}
	return false
}

func (x *g) failExpr(a string) string {
	e := strings.ReplaceAll(x.fail, "%a", a)
	x.fail = ""
	return e
}

func (x *g) bigTable(label string) tableSpec { return x.big[fw.Uniform(x.t, label, len(x.big))] }

// orderLimit: optional ORDER BY (+ LIMIT/OFFSET) over the given output expressions.
func (x *g) orderLimit(a string, pctOrder int, uniqueKey string) string {
	if x.takeFail("orderby") {
		x.op("orderby")
		return " ORDER BY " + x.failExpr(a)
	}
	if !x.pct("hasOrder", pctOrder) {
		return ""
	}
	x.op("orderby")
	var items []string
	n := x.rng("nOrder", 1, 2)
	for i := 0; i < n; i++ {
		it := x.any(a)
		it += x.pick("dir", []string{"", " ASC", " DESC", " DESC"})
		it += x.pick("nulls", []string{"", "", " NULLS FIRST", " NULLS LAST"})
		items = append(items, it)
	}
	if uniqueKey != "" && x.pct("orderUnique", 60) {
		items = append(items, uniqueKey)
	}
	s := " ORDER BY " + strings.Join(items, ", ")
	if x.pct("hasLimit", 40) {
		x.op("limit")
		switch fw.Weighted(x.t, "limitKind", []int{50, 25, 25}) {
		case 0:
			s += fmt.Sprintf(" LIMIT %d", x.rng("limit", 1, 120))
		case 1:
			s += fmt.Sprintf(" LIMIT %d PERCENT", x.rng("limitPct", 1, 90))
		case 2:
			s += fmt.Sprintf(" LIMIT %d WITH TIES", x.rng("limitTies", 1, 60))
		}
		if x.pct("hasOffset", 30) {
			s += fmt.Sprintf(" OFFSET %d", x.rng("offset", 1, 100))
		}
	}
	return s
}

func (x *g) selectList(a string, withID bool) string {
	var fs []string
	if withID {
		fs = append(fs, a+".id")
	}
	n := x.rng("nFields", 1, 3)
	for i := 0; i < n; i++ {
		fs = append(fs, fmt.Sprintf("%s AS c%d", x.any(a), i+1))
	}
	if x.takeFail("select") {
		fs = append(fs, x.failExpr(a)+" AS cf")
	}
	if x.pct("selectStar", 10) {
		fs = append(fs, a+".*")
	}
	return strings.Join(fs, ", ")
}

func (x *g) qFilter() string {
	x.op("filter")
	t := x.bigTable("filterTable")
	q := "SELECT " + x.selectList("a", true) + " FROM " + t.ref() + " a" + x.where("a", 85)
	return q + x.orderLimit("a", 35, "a.id")
}

var joinKinds = []string{"JOIN", "INNER JOIN", "LEFT JOIN", "LEFT OUTER JOIN", "RIGHT JOIN", "FULL JOIN", "FULL OUTER JOIN", "FULL JOIN", "CROSS JOIN", "NATURAL JOIN", "NATURAL LEFT JOIN", "USING", "LEFT USING", "LATERAL", "LEFT LATERAL"}

func (x *g) qJoin() string {
	t := x.bigTable("joinLeft")
	var r tableSpec
	bigRight := false
	// the join is a nested loop: a big right side only when the product stays moderate
	if other := x.bigTable("joinRight"); x.pct("joinBigRight", 25) && t.N*other.N <= 70000 {
		r, bigRight = other, true
	} else {
		r = x.small
	}
	kind := x.pick("joinKind", joinKinds)
	if bigRight && (kind == "CROSS JOIN" || strings.Contains(kind, "LATERAL")) {
		kind = "LEFT JOIN"
	}
	failing := x.fail != ""
	if failing && x.failAt == "joinon" {
		kind = x.pick("joinKindOn", []string{"JOIN", "LEFT JOIN", "RIGHT JOIN", "FULL JOIN"})
	}
	if failing && x.failAt == "where" {
		kind = "LEFT JOIN" // the failing row of the left table must reach the WHERE clause
	}
	x.op("join:" + strings.ReplaceAll(strings.ReplaceAll(kind, " OUTER", ""), " ", "_"))
	if bigRight {
		x.op("join_big_right")
	}
	left, right := t.ref()+" a", r.ref()+" b"
	if x.pct("joinSwap", 25) && !strings.Contains(kind, "LATERAL") && !bigRight && !failing {
		// small table on the left: the parallel split is over the left side, so keep this rarer
		left, right = r.ref()+" b", t.ref()+" a"
	}
	on := "a.k = b.k"
	switch fw.Weighted(x.t, "joinCond", []int{50, 20, 15, 15}) {
	case 1:
		on = "a.k = b.k AND a.g = b.g"
	case 2:
		on = "a.k = b.k AND " + x.pred1("a")
	case 3:
		on = "a.k % 7 = b.id % 7 AND " + x.pred1("b")
	}
	if x.takeFail("joinon") {
		on = x.failExpr("a") + " > -1000000 AND " + on
	}
	fields := "a.id, b.id AS bid, " + x.any("a") + " AS c1, " + x.any("b") + " AS c2"
	var from, usingWhere string
	switch kind {
	case "CROSS JOIN":
		from = left + " CROSS JOIN " + right
	case "NATURAL JOIN", "NATURAL LEFT JOIN":
		// every column has the same name: the natural join compares all of them
		from = left + " " + kind + " " + right
		fields = "id, k, " + x.pick("natField", []string{"COALESCE(v, 0) + 1", "UPPER(s)", "g"}) + " AS c1"
	case "USING", "LEFT USING":
		jk := "JOIN"
		if kind == "LEFT USING" {
			jk = "LEFT JOIN"
		}
		// after USING the merged column is only addressable as k
		from = left + " " + jk + " " + right + " USING (k)"
		fields = "a.id, b.id AS bid, k, " + x.pick("usingField", []string{"UPPER(a.s)", "a.v + b.v", "COALESCE(b.g, a.g)", "usq(a.v)", "k * 2"}) + " AS c1"
		usingWhere = x.pick("usingWhere", []string{"", "", " WHERE a.v > 3", " WHERE b.v IS NULL OR a.v < 5", " WHERE k > 1"})
	case "LATERAL", "LEFT LATERAL":
		jk := "JOIN"
		if kind == "LEFT LATERAL" {
			jk = "LEFT JOIN"
		}
		from = t.ref() + " a " + jk + " LATERAL (SELECT c.id, c.k, c.g, c.v, c.s, c.d, c.j FROM " + x.small.ref() + " c WHERE c.k = a.k % 5) b ON " + x.pick("latOn", []string{"TRUE", "b.v IS NOT NULL", "a.id % 2 = 0"})
	default:
		from = left + " " + kind + " " + right + " ON " + on
	}
	q := "SELECT " + fields + " FROM " + from
	switch {
	case strings.HasSuffix(kind, "USING"):
		q += usingWhere
	case !strings.HasPrefix(kind, "NATURAL"):
		q += x.where("a", 30)
	}
	if x.pct("joinOrder", 25) {
		x.op("orderby")
		q += " ORDER BY 1, 2"
	}
	return q
}

var aggTmpl = []string{
	"COUNT(*)", "COUNT(%a.v)", "COUNT(DISTINCT %a.k)", "SUM(%a.v)", "AVG(%a.v)", "MIN(%a.s)", "MAX(%a.v)", "MEDIAN(%a.v)",
	"LISTAGG(%a.s, ',')", "LISTAGG(DISTINCT %a.g, '|') WITHIN GROUP (ORDER BY %a.g)", "JSON_AGG(%a.v)", "STDEV(%a.v)", "VAR(%a.v)",
	"usum(%a.v)", "usum(%a.v, 2)", "SUM(%a.v + %a.k)", "SUM(usq(%a.v))", "SUM(DISTINCT %a.v)", "MAX(%a.d)",
	// ORDER BY expressions (not bare columns) inside the aggregate: evaluated as additional columns of a per-group view
	"LISTAGG(%a.s, ',') WITHIN GROUP (ORDER BY %a.v || 'x')", "LISTAGG(%a.g, '') WITHIN GROUP (ORDER BY %a.v * -1, %a.id)",
	"JSON_AGG(%a.v) WITHIN GROUP (ORDER BY %a.s || %a.g DESC)", "JSON_AGG(DISTINCT %a.k) WITHIN GROUP (ORDER BY %a.k % 3, %a.k)",
	"LISTAGG(%a.s, ',') WITHIN GROUP (ORDER BY usq(%a.v), %a.id)", "LISTAGG(DISTINCT %a.s, '|') WITHIN GROUP (ORDER BY UPPER(%a.s) DESC NULLS LAST)",
	"LISTAGG(%a.s, '|') WITHIN GROUP (ORDER BY (SELECT COUNT(*) FROM %S c WHERE c.k = %a.k % 5), %a.id)", "JSON_AGG(%a.s) WITHIN GROUP (ORDER BY LEN(%a.s), %a.s)",
	"SUM(%a.v * %a.k + 1)", "COUNT(DISTINCT %a.v % 4)", "usum(%a.v + %a.k, 3)", "MEDIAN(COALESCE(%a.v, 0) * 2)", "LISTAGG(%a.s || '-' || %a.g, ';')",
}

// list functions sorted by an expression: every group sorts its own view by an additional column
var listOrderAggs = []string{
	"LISTAGG(%a.s, ',') WITHIN GROUP (ORDER BY %a.v || 'x')", "LISTAGG(%a.g, '') WITHIN GROUP (ORDER BY %a.v * -1, %a.id)",
	"JSON_AGG(%a.v) WITHIN GROUP (ORDER BY %a.s || %a.g DESC)", "JSON_AGG(DISTINCT %a.k) WITHIN GROUP (ORDER BY %a.k % 3, %a.k)",
	"LISTAGG(%a.s, ',') WITHIN GROUP (ORDER BY usq(%a.v), %a.id)", "LISTAGG(DISTINCT %a.s, '|') WITHIN GROUP (ORDER BY UPPER(%a.s) DESC NULLS LAST)",
	"LISTAGG(%a.s, '|') WITHIN GROUP (ORDER BY (SELECT COUNT(*) FROM %S c WHERE c.k = %a.k % 5), %a.id)", "JSON_AGG(%a.s) WITHIN GROUP (ORDER BY LEN(%a.s), %a.s)",
	"LISTAGG(%a.id, ',') WITHIN GROUP (ORDER BY %a.id % 7, MD5(%a.s))", "JSON_AGG(%a.id) WITHIN GROUP (ORDER BY COALESCE(%a.v, 0) - %a.k DESC, %a.id)",
}

func (x *g) aggs(a string) []string {
	n := x.rng("nAggs", 1, 3)
	var out []string
	for i := 0; i < n; i++ {
		e := sub(x.pick("agg", aggTmpl), a, x.small.ref())
		if strings.Contains(e, "usum") || strings.Contains(e, "usq") {
			x.op("udf")
		}
		if strings.Contains(e, "WITHIN GROUP") && !strings.HasSuffix(e, "(ORDER BY "+a+".g)") {
			x.op("agg_order_by_expr")
		}
		out = append(out, e)
	}
	if x.takeFail("aggarg") {
		out = append(out, "SUM("+x.failExpr(a)+")")
	}
	return out
}

func (x *g) qGroup() string {
	t := x.bigTable("groupTable")
	if !(x.fail != "" && (x.failAt == "groupkey" || x.failAt == "having")) && x.pct("groupAll", 20) {
		x.op("aggregate_all")
		var fs []string
		for i, e := range x.aggs("a") {
			fs = append(fs, fmt.Sprintf("%s AS a%d", e, i+1))
		}
		return "SELECT " + strings.Join(fs, ", ") + " FROM " + t.ref() + " a" + x.where("a", 50)
	}
	x.op("groupby")
	keys := [][]string{{"a.g"}, {"a.k"}, {"a.g", "a.k"}, {"a.v % 3"}, {"YEAR(a.d)", "a.g"}, {"a.s"}, {"UPPER(a.g)"}}[fw.Uniform(x.t, "groupKeys", 7)]
	forceListOrder := false
	if x.pct("manyGroups", 50) {
		// >= 160 groups: the select list, HAVING and ORDER BY of the grouped view are evaluated per group by
		// several goroutines; with several rows per group the per-group work (sorting a per-group view by an
		// expression) takes long enough to overlap
		x.op("many_groups")
		for _, o := range x.big {
			if o.N > t.N {
				t = o
			}
		}
		m := x.rng("groupModulus", 160, 160+t.N/4)
		keys = [][]string{{fmt.Sprintf("a.id %% %d", m)}, {fmt.Sprintf("a.id %% %d", m)}, {"a.id"}, {"a.k", "a.s"}, {"a.s", "a.g", "a.k"}, {"a.id", "a.g"}, {"a.v", "a.s", "a.k"}}[fw.Uniform(x.t, "manyGroupKeys", 7)]
		forceListOrder = x.pct("forceListOrder", 60)
	}
	if x.takeFail("groupkey") {
		keys = []string{x.failExpr("a")}
	}
	var fs []string
	for i, k := range keys {
		// only a plain column key can be selected next to the aggregates
		if !strings.ContainsAny(k, "(% ") {
			fs = append(fs, fmt.Sprintf("%s AS k%d", k, i+1))
			if x.pct("computedKeyField", 50) {
				// a computed field of a group key next to the aggregates
				x.op("computed_key_field")
				fs = append(fs, fmt.Sprintf("%s AS kc%d", x.pick("computedKey", []string{k + " || 'a'", "UPPER(STRING(" + k + "))", "COALESCE(STRING(" + k + "), '-') || '!'"}), i+1))
			}
		}
	}
	if x.pct("computedConstField", 30) {
		fs = append(fs, x.pick("constField", []string{"1 + 1 AS two", "@n * 2 AS n2", "UPPER('x') AS ux", "NOW() AS ts"}))
	}
	for i, e := range x.aggs("a") {
		fs = append(fs, fmt.Sprintf("%s AS a%d", e, i+1))
	}
	if forceListOrder {
		x.op("agg_order_by_expr")
		fs = append(fs, sub(x.pick("listOrderAgg", listOrderAggs), "a", x.small.ref())+" AS lo")
	}
	q := "SELECT " + strings.Join(fs, ", ") + " FROM " + t.ref() + " a" + x.where("a", 40) + " GROUP BY " + strings.Join(keys, ", ")
	if x.takeFail("having") {
		x.op("having")
		q += " HAVING SUM(" + x.failExpr("a") + ") > -1000000"
	} else if !x.noFilter && x.pct("having", 35) {
		x.op("having")
		q += " HAVING " + x.pick("havingPred", []string{"COUNT(*) > 1", "SUM(a.v) > 10", "MAX(a.v) IS NOT NULL", "COUNT(DISTINCT a.k) >= 2", "COUNT(*) >= 1", "LISTAGG(a.s, ',') WITHIN GROUP (ORDER BY a.v || 'x') IS NOT NULL", "SUM(a.v * 2 + a.k) > -100000"})
	}
	if x.pct("groupOrder", 40) {
		x.op("orderby")
		q += " ORDER BY 1"
	}
	return q
}

func (x *g) qDistinct() string {
	x.op("distinct")
	t := x.bigTable("distinctTable")
	fs := [][]string{{"a.g"}, {"a.g", "a.k"}, {"a.v"}, {"a.k", "a.v % 2"}, {"UPPER(a.g)", "a.k"}, {"a.s", "a.g"}}[fw.Uniform(x.t, "distinctFields", 6)]
	if x.takeFail("distinct") {
		fs = append(fs, x.failExpr("a"))
	}
	return "SELECT DISTINCT " + strings.Join(fs, ", ") + " FROM " + t.ref() + " a" + x.where("a", 40) + x.orderLimit("a", 0, "")
}

func (x *g) qSetOp() string {
	op := x.pick("setOp", []string{"UNION", "UNION ALL", "EXCEPT", "EXCEPT ALL", "INTERSECT", "INTERSECT ALL"})
	x.op("set:" + strings.ReplaceAll(op, " ", "_"))
	t1, t2 := x.bigTable("setLeft"), x.bigTable("setRight")
	fs := x.pick("setFields", []string{"%a.k, %a.g", "%a.id, %a.v", "%a.g, %a.v % 4", "%a.k, %a.g, %a.s"})
	l := "SELECT " + sub(fs, "a", "") + " FROM " + t1.ref() + " a" + x.where("a", 60)
	r := "SELECT " + sub(fs, "b", "") + " FROM " + t2.ref() + " b"
	if x.pct("setRightWhere", 60) {
		r += " WHERE " + x.pred("b")
	}
	q := l + " " + op + " " + r
	if x.pct("setThird", 20) {
		q += " UNION SELECT " + sub(fs, "c", "") + " FROM " + x.small.ref() + " c"
	}
	if x.pct("setOrder", 30) {
		x.op("orderby")
		q += " ORDER BY 1, 2"
	}
	return q
}

func (x *g) qOrder() string {
	x.op("sort")
	t := x.bigTable("orderTable")
	q := "SELECT " + x.selectList("a", true) + " FROM " + t.ref() + " a" + x.where("a", 30)
	return q + x.orderLimit("a", 100, "a.id")
}

var anaTmpl = []string{
	"ROW_NUMBER()", "RANK()", "DENSE_RANK()", "CUME_DIST()", "PERCENT_RANK()", "NTILE(4)",
	"FIRST_VALUE(%a.v)", "LAST_VALUE(%a.v) IGNORE NULLS", "NTH_VALUE(%a.v, 2)", "LAG(%a.v, 1, 0)", "LEAD(%a.s)", "LAG(%a.v, 2) IGNORE NULLS",
	"COUNT(%a.v)", "COUNT(*)", "SUM(%a.v)", "AVG(%a.v)", "MIN(%a.s)", "MAX(%a.v)", "MEDIAN(%a.v)",
	"LISTAGG(%a.s, ',')", "JSON_AGG(%a.v)", "usum(%a.v)", "usum(%a.v, %a.k)", "SUM(usq(%a.v))", "COUNT(DISTINCT %a.k)",
}

func (x *g) anaCall(a string) string {
	fn := x.pick("anaFn", anaTmpl)
	if x.takeFail("anaarg") {
		fn = "SUM(" + x.failExpr(a) + ")"
	}
	fn = sub(fn, a, "")
	if strings.Contains(fn, "usum") || strings.Contains(fn, "usq") {
		x.op("udf")
	}
	var parts []string
	if x.takeFail("anapartition") {
		parts = append(parts, "PARTITION BY "+x.failExpr(a))
	} else if pk := x.pick("anaPartition", []string{"", "%a.g", "%a.g", "%a.k", "%a.g, %a.k", "%a.v % 3", "UPPER(%a.g)", "%a.k % 4, %a.g", "%a.s || %a.g", "%a.id % 97"}); pk != "" {
		parts = append(parts, "PARTITION BY "+sub(pk, a, ""))
	}
	name := fn[:strings.Index(fn, "(")]
	needOrder := map[string]bool{"ROW_NUMBER": false, "RANK": true, "DENSE_RANK": true, "CUME_DIST": true, "PERCENT_RANK": true, "NTILE": true,
		"FIRST_VALUE": true, "LAST_VALUE": true, "NTH_VALUE": true, "LAG": true, "LEAD": true}[name]
	star := fn == "COUNT(*)"
	ordered := false
	if !star && (needOrder || x.pct("anaOrder", 50)) {
		ordered = true
		ok := x.pick("anaOrderKey", []string{"%a.v", "%a.v DESC", "%a.s, %a.id", "%a.d DESC NULLS LAST", "%a.v NULLS LAST, %a.id DESC", "%a.id", "%a.v * -1, %a.id", "%a.v || 'x'", "UPPER(%a.s) DESC, %a.id", "usq(%a.v), %a.id", "LEN(%a.s), %a.id DESC"})
		parts = append(parts, "ORDER BY "+sub(ok, a, ""))
	}
	frameable := map[string]bool{"FIRST_VALUE": true, "LAST_VALUE": true, "NTH_VALUE": true, "COUNT": true, "SUM": true, "AVG": true, "MIN": true, "MAX": true, "MEDIAN": true, "usum": true}[name]
	if ordered && frameable && !strings.Contains(fn, "DISTINCT") && x.pct("anaFrame", 50) {
		parts = append(parts, x.pick("frame", []string{"ROWS UNBOUNDED PRECEDING", "ROWS 2 PRECEDING", "ROWS BETWEEN 1 PRECEDING AND 1 FOLLOWING",
			"ROWS BETWEEN CURRENT ROW AND UNBOUNDED FOLLOWING", "ROWS BETWEEN UNBOUNDED PRECEDING AND UNBOUNDED FOLLOWING", "ROWS BETWEEN 3 PRECEDING AND CURRENT ROW"}))
	}
	return fn + " OVER (" + strings.Join(parts, " ") + ")"
}

func (x *g) qAnalytic() string {
	x.op("analytic")
	t := x.bigTable("anaTable")
	n := x.rng("nAna", 1, 2)
	fs := []string{"a.id"}
	for i := 0; i < n; i++ {
		fs = append(fs, fmt.Sprintf("%s AS r%d", x.anaCall("a"), i+1))
	}
	if x.pct("anaExtraField", 30) {
		fs = append(fs, x.any("a")+" AS c1")
	}
	return "SELECT " + strings.Join(fs, ", ") + " FROM " + t.ref() + " a" + x.where("a", 30) + x.orderLimit("a", 20, "a.id")
}

func (x *g) qSubquery() string {
	t := x.bigTable("subTable")
	switch fw.Weighted(x.t, "subShape", []int{25, 20, 20, 15, 20}) {
	case 0:
		x.op("from_subquery")
		return "SELECT s.g, s.c, s.m FROM (SELECT a.g, COUNT(*) AS c, MAX(a.v) AS m FROM " + t.ref() + " a" + x.where("a", 50) + " GROUP BY a.g) s WHERE s.c > 0 ORDER BY s.g"
	case 1:
		x.op("cte")
		return "WITH w AS (SELECT a.id, a.k, a.g, a.v, a.s, a.d, a.j FROM " + t.ref() + " a" + x.where("a", 70) + ") SELECT x.id, " + x.any("x") + " AS c1, b.id AS bid FROM w x LEFT JOIN " + x.small.ref() + " b ON x.k = b.k" + x.orderLimit("x", 20, "x.id")
	case 2:
		x.op("from_subquery")
		return "SELECT s.id, " + x.any("s") + " AS c1 FROM (SELECT a.id, a.k, a.g, a.v, a.s, a.d, a.j FROM " + t.ref() + " a" + x.where("a", 60) + ") s WHERE " + x.pred("s")
	case 3:
		// an inline table read by the workers
		x.op("cte")
		x.op("corr_subquery")
		t2 := x.bigTable("cteOuter")
		return "WITH w AS (SELECT a.id, a.k, a.v FROM " + t.ref() + " a WHERE a.id <= " + fmt.Sprint(x.rng("cteRows", 5, 60)) + ") SELECT x.id, " + x.any("x") + " AS c1 FROM " + t2.ref() + " x WHERE " +
			x.pick("ctePred", []string{"x.k IN (SELECT w.k FROM w WHERE w.v > 2)", "EXISTS (SELECT 1 FROM w WHERE w.k = x.k AND w.id < x.id)", "x.v > (SELECT AVG(w.v) FROM w)", "x.v >= ALL (SELECT w.v FROM w WHERE w.k = x.k)"})
	}
	x.op("scalar_subquery")
	t2 := x.bigTable("subTable2")
	if t.N*t2.N > 600000 {
		// the uncorrelated subquery is evaluated again for every outer record
		t2 = x.small
	}
	return "SELECT a.id, (SELECT COUNT(*) FROM " + x.small.ref() + " c WHERE c.k = a.k) AS n1, " + x.any("a") + " AS c1 FROM " + t.ref() + " a WHERE a.v > (SELECT AVG(b.v) FROM " + t2.ref() + " b)" + x.orderLimit("a", 20, "a.id")
}

// qSmallOuter: the outer table is small (one goroutine), the correlated inner query runs over a big
// table on several goroutines that all refer to the same outer record.
func (x *g) qSmallOuter() string {
	x.op("small_outer")
	big := x.bigTable("innerBig")
	b, c := big.ref()+" b", x.small.ref()+" c"
	corr := x.pick("smallOuterCorr", []string{"b.k = c.k", "b.k = c.id", "b.k = c.k AND b.g <> c.g", "b.v > c.v AND b.k = c.k", "b.id % 7 = c.id % 7 AND b.s <> c.s"})
	switch fw.Weighted(x.t, "smallOuterShape", []int{22, 16, 14, 12, 12, 12, 12}) {
	case 0:
		x.op("scalar_subquery")
		return "SELECT c.id, c.g, (SELECT " + x.pick("soAgg", []string{"COUNT(*)", "MAX(b.v)", "SUM(b.v + c.v)", "MIN(b.s || c.s)"}) + " FROM " + b + " WHERE " + corr + ") AS n FROM " + c
	case 1:
		x.op("exists_subquery")
		return "SELECT c.id, " + x.any("c") + " AS c1 FROM " + c + " WHERE " + x.pick("soNot", []string{"", "NOT "}) + "EXISTS (SELECT 1 FROM " + b + " WHERE " + corr + ")"
	case 2:
		x.op("in_subquery")
		return "SELECT c.id, c.k FROM " + c + " WHERE c.k IN (SELECT b.k FROM " + b + " WHERE b.v > c.v OR b.g = c.g)"
	case 3:
		x.op("scalar_subquery")
		x.op("in_subquery")
		return "SELECT c.id, (SELECT COUNT(*) FROM " + b + " WHERE " + corr + ") AS n1, c.v IN (SELECT b.v FROM " + b + " WHERE b.k = c.k) AS f FROM " + c + " WHERE c.v > ANY (SELECT b.v - 10 FROM " + b + " WHERE b.g = c.g)"
	case 4:
		x.op("join:LATERAL_big_inner")
		return "SELECT c.id, l.k, l.n FROM " + c + " " + x.pick("soLat", []string{"JOIN", "LEFT JOIN"}) + " LATERAL (SELECT b.k, COUNT(*) AS n, MAX(b.v) AS m FROM " + b + " WHERE b.k = c.k AND b.v IS NOT NULL GROUP BY b.k) l ON " + x.pick("soLatOn", []string{"TRUE", "l.n > 1"})
	case 5:
		// two levels: the innermost query refers to both outer records
		x.op("nested_subquery")
		// (the innermost table is the small one: the cost is rows(c) x rows(b) x rows(e))
		return "SELECT c.id, (SELECT COUNT(*) FROM " + b + " WHERE b.k = c.k AND b.v > (SELECT AVG(e.v) FROM " + x.small.ref() + " e WHERE e.k = b.k % 5 AND e.id <> c.id)) AS n FROM " + c + " WHERE c.id <= 6"
	}
	x.op("udf_body")
	return "SELECT c.id, ucnt(c.k) AS n, ucur(c.id) AS m FROM " + c
}

// qPrepared: a prepared statement executed several times over a big table.
func (x *g) qPrepared() []string {
	t := x.bigTable("prepTable")
	if strings.Contains(t.ref(), "'") || strings.Contains(x.small.ref(), "'") {
		return []string{x.qFilter()}
	}
	x.op("prepared")
	x.seq++
	name := fmt.Sprintf("ps%d", x.seq)
	var body string
	var using [][]string
	switch fw.Uniform(x.t, "prepShape", 4) {
	case 0:
		body = "SELECT a.id, a.v + ? AS c1 FROM " + t.ref() + " a WHERE a.v > ? AND a.k IN (SELECT c.k FROM " + x.small.ref() + " c WHERE c.v > ?)"
		using = [][]string{{"1", "3", "2"}, {"10", "0", "5"}}
	case 1:
		body = "SELECT a.g, COUNT(*) AS n, SUM(a.v * :m) AS sv FROM " + t.ref() + " a WHERE a.k <> :k GROUP BY a.g"
		using = [][]string{{"2 AS m", "1 AS k"}, {"3 AS m", "0 AS k"}}
	case 2:
		body = "SELECT a.id, RANK() OVER (PARTITION BY a.g ORDER BY a.v) AS r FROM " + t.ref() + " a WHERE a.id % ? <> 0 ORDER BY a.id LIMIT ?"
		using = [][]string{{"3", "50"}, {"2", "200"}}
	default:
		body = "SELECT a.id, b.id AS bid FROM " + t.ref() + " a FULL JOIN " + x.small.ref() + " b ON a.k = b.k AND a.v > ?"
		using = [][]string{{"2"}, {"100"}}
	}
	out := []string{"PREPARE " + name + " FROM '" + body + "'"}
	for _, u := range using {
		out = append(out, "EXECUTE "+name+" USING "+strings.Join(u, ", "))
	}
	if x.pct("prepDispose", 50) {
		out = append(out, "DISPOSE PREPARE "+name)
	}
	return out
}

// qFnScan: several built-in functions per row.
func (x *g) qFnScan() string {
	x.op("fn_scan")
	t := x.bigTable("fnTable")
	n := x.rng("nFns", 2, 6)
	fs := []string{"a.id"}
	for i := 0; i < n; i++ {
		fs = append(fs, fmt.Sprintf("%s AS f%d", x.fn("a"), i+1))
	}
	q := "SELECT " + strings.Join(fs, ", ") + " FROM " + t.ref() + " a"
	switch fw.Weighted(x.t, "fnScanTail", []int{50, 25, 25}) {
	case 1:
		q += " WHERE " + x.fn("a") + " IS NOT NULL"
	case 2:
		q += " ORDER BY " + x.fn("a") + ", a.id"
	}
	return q
}

// dmlTable picks a table that may be the target of DML (temporary, or a file of a format addressed by name).
func (x *g) dmlTable() (tableSpec, bool) {
	if x.mode == "sessions" {
		// two sessions never write the same file (they would only wait for each other's locks)
		for _, t := range x.big {
			if t.Format == "" {
				return t, true
			}
		}
		return tableSpec{}, false
	}
	var cands []tableSpec
	for _, t := range x.big {
		if t.dmlTarget() != "" {
			cands = append(cands, t)
		}
	}
	if len(cands) == 0 {
		return tableSpec{}, false
	}
	return cands[fw.Uniform(x.t, "dmlTable", len(cands))], true
}

func (x *g) qDML() []string {
	t, ok := x.dmlTable()
	if !ok {
		return []string{x.qFilter()}
	}
	q := t.Name // column qualifier: the file name without extension or the temporary table's name
	src := x.bigTable("dmlSource")
	var out []string
	kinds := []int{25, 25, 15, 10, 20, 5}
	kind := fw.Weighted(x.t, "dmlKind", kinds)
	switch x.failAt {
	case "insertselect":
		kind = 0
	case "updateset", "updatewhere":
		kind = 1
	case "deletewhere":
		kind = 2
	}
	switch kind {
	case 0:
		x.op("insert_select")
		vexpr := x.num("a")
		if x.takeFail("insertselect") {
			vexpr = x.failExpr("a")
		}
		out = append(out, "INSERT INTO "+t.dmlTarget()+" (id, k, g, v, s, d, j) SELECT a.id + 100000, a.k, a.g, "+vexpr+", "+x.str("a")+", a.d, a.j FROM "+src.ref()+" a"+x.where("a", 60))
	case 1:
		x.op("update")
		set := "v = " + x.num(q)
		if x.takeFail("updateset") {
			set = "v = " + x.failExpr(q)
		}
		if x.pct("updateTwo", 40) {
			set += ", s = " + x.str(q)
		}
		w := ""
		if x.takeFail("updatewhere") {
			w = " WHERE " + x.failExpr(q) + " > -1000000"
		} else if !x.noFilter && x.pct("updateWhere", 70) {
			w = " WHERE " + x.pred(q)
		}
		out = append(out, "UPDATE "+t.dmlTarget()+" SET "+set+w)
	case 2:
		x.op("delete")
		w := " WHERE " + x.pred(q)
		if x.takeFail("deletewhere") {
			w = " WHERE " + x.failExpr(q) + " > 1000000"
		}
		out = append(out, "DELETE FROM "+t.dmlTarget()+w)
	case 3:
		x.op("update_join")
		out = append(out, "UPDATE a SET a.v = b.v + 1, a.s = b.s FROM "+t.dmlTarget()+" a JOIN "+x.small.ref()+" b ON a.k = b.id"+x.where("a", 50))
	case 4:
		x.op("replace")
		if key := x.pick("replaceKey", []string{"id", "id", "g", "k"}); key != "id" {
			// a key that is not unique in the target: rows in different workers' ranges match the same given record
			x.op("replace_nonunique_key")
			out = append(out, "REPLACE INTO "+t.dmlTarget()+" ("+key+", v, s) USING ("+key+") SELECT a."+key+", a.v, a.s FROM "+src.ref()+" a"+x.where("a", 60))
			break
		}
		out = append(out, "REPLACE INTO "+t.dmlTarget()+" (id, k, g, v, s, d, j) USING (id) SELECT a.id + "+x.pick("replaceShift", []string{"0", "50", "100000"})+", a.k, a.g, a.v, a.s, a.d, a.j FROM "+src.ref()+" a"+x.where("a", 60))
	case 5:
		x.op("alter_add")
		x.seq++
		out = append(out, "ALTER TABLE "+t.dmlTarget()+fmt.Sprintf(" ADD (nc%d DEFAULT ", x.seq)+x.pick("alterDefault", []string{"v + 1", "UPPER(s)", "usq(k)", "NULL"})+")")
	}
	// look at the result
	out = append(out, "SELECT COUNT(*) AS n, SUM(a.v) AS sv, MAX(a.s) AS ms FROM "+t.ref()+" a")
	return out
}

// program builds 1..maxQ statements.
func (x *g) program(maxQ int, weights []int) []stmt {
	n := x.rng("nStmts", 1, maxQ)
	var groups [][]stmt
	for i := 0; i < n; i++ {
		groups = append(groups, x.statement(weights))
	}
	return flatten(groups)
}

func hasOp(ss []stmt, op string) bool {
	for _, s := range ss {
		for _, o := range s.Ops {
			if o == op {
				return true
			}
		}
	}
	return false
}

// flatten concatenates the statement groups (with avoidKnownSubqueryFileInfoWrite: FROM-subqueries last).
func flatten(groups [][]stmt) []stmt {
	var out, last []stmt
	for _, g := range groups {
		if avoidKnownSubqueryFileInfoWrite && hasOp(g, "from_subquery") {
			last = append(last, g...)
		} else {
			out = append(out, g...)
		}
	}
	return append(out, last...)
}

// weights: filter, join, group, distinct, setop, order, analytic, subquery, dml, small outer, prepared, function scan
func (x *g) statement(weights []int) []stmt {
	x.ops = map[string]bool{}
	var sqls []string
	switch fw.Weighted(x.t, "shape", weights) {
	case 0:
		sqls = []string{x.qFilter()}
	case 1:
		sqls = []string{x.qJoin()}
	case 2:
		sqls = []string{x.qGroup()}
	case 3:
		sqls = []string{x.qDistinct()}
	case 4:
		sqls = []string{x.qSetOp()}
	case 5:
		sqls = []string{x.qOrder()}
	case 6:
		sqls = []string{x.qAnalytic()}
	case 7:
		sqls = []string{x.qSubquery()}
	case 8:
		sqls = x.qDML()
	case 9:
		sqls = []string{x.qSmallOuter()}
	case 10:
		sqls = x.qPrepared()
	default:
		sqls = []string{x.qFnScan()}
	}
	ops := fw.SortedKeys(x.ops)
	var out []stmt
	for _, s := range sqls {
		out = append(out, stmt{SQL: s, Ops: ops})
	}
	return out
}

var allShapes = []int{11, 16, 12, 6, 8, 7, 12, 8, 9, 12, 8, 9}

// ---- tables ---------------------------------------------------------------

func genSpec(t *rapid.T, name string, n int, format string) tableSpec {
	return tableSpec{Name: name, N: n, Format: format,
		KMod: fw.Range(t, "kmod", 2, 30), GMod: fw.Range(t, "gmod", 1, 12), VMod: fw.Range(t, "vmod", 4, 40), SMod: fw.Range(t, "smod", 3, 60),
		NullEvery: fw.PickU(t, "nullEvery", []int{0, 2, 3, 5, 11, 40})}
}

func bigN(t *rapid.T, file bool) int {
	lo := 160
	if file {
		lo = 301 // the loader's resize branch needs more than 300 records
	}
	switch fw.Weighted(t, "sizeClass", []int{53, 24, 18, 5}) {
	case 0:
		return fw.Range(t, "n", lo, 340)
	case 1:
		return fw.Range(t, "nMid", 341, 500)
	case 2:
		return fw.Range(t, "nLarge", 640, 900)
	}
	return fw.Range(t, "nHuge", 1200, 2000)
}

func genTables(t *rapid.T, filePct int, formats []string) (big []tableSpec, small tableSpec) {
	for _, name := range []string{"t1", "t2"} {
		format := ""
		if filePct > 0 && fw.Pct(t, "isFile", filePct) {
			format = fw.PickU(t, "format", formats)
		}
		big = append(big, genSpec(t, name, bigN(t, format != ""), format))
	}
	format := ""
	if filePct > 0 && fw.Pct(t, "smallIsFile", filePct/2) {
		format = fw.PickU(t, "smallFormat", formats)
	}
	small = genSpec(t, "t3", fw.Range(t, "nSmall", 5, 40), format)
	small.KMod = fw.Range(t, "smallKmod", 2, 8)
	return big, small
}

func mixedFilePct() int {
	if avoidKnownLoaderPosRace {
		return 0
	}
	return 25
}

func genCPU(t *rapid.T) int { return fw.Range(t, "cpu", 8, 16) }

func genEval(t *rapid.T) progCase {
	big, small := genTables(t, mixedFilePct(), fileFormats)
	x := &g{t: t, mode: "eval", big: big, small: small}
	return progCase{Mode: "eval", CPU: genCPU(t), Tables: append(big, small), Progs: [][]stmt{x.program(3, allShapes)}}
}

func genSessions(t *rapid.T) progCase {
	filePct := mixedFilePct()
	if avoidKnownSharedRandInLockNames {
		filePct = 0
	}
	big, small := genTables(t, filePct, fileFormats)
	c := progCase{Mode: "sessions", CPU: genCPU(t), Tables: append(big, small)}
	for i := 0; i < 2; i++ {
		x := &g{t: t, mode: "sessions", big: big, small: small}
		c.Progs = append(c.Progs, x.program(3, allShapes))
	}
	return c
}

func genCancel(t *rapid.T) progCase {
	big, small := genTables(t, mixedFilePct(), fileFormats)
	x := &g{t: t, mode: "cancel", big: big, small: small}
	c := progCase{Mode: "cancel", CPU: genCPU(t), Tables: append(big, small), Progs: [][]stmt{x.program(2, []int{10, 20, 12, 5, 7, 7, 12, 8, 7, 12, 3, 7})}}
	c.CancelAtTask = 1 + fw.Weighted(t, "cancelAtTask", []int{50, 25, 15, 10})
	c.CancelSpin = fw.PickU(t, "cancelSpin", []int{0, 0, 1, 5, 20, 100, 400, 2000})
	return c
}

// loadShapes: statements whose point is the file load itself.
func (x *g) loadStatement() []stmt {
	x.ops = map[string]bool{}
	t := x.bigTable("loadTable")
	var sql string
	switch fw.Weighted(x.t, "loadShape", []int{22, 14, 12, 12, 10, 10, 10, 10}) {
	case 0:
		x.op("load_scan")
		sql = "SELECT COUNT(*) AS n, MIN(a.id) AS lo, MAX(a.s) AS hi FROM " + t.ref() + " a"
	case 1:
		x.op("load_star")
		sql = "SELECT * FROM " + t.ref() + x.pick("starTail", []string{"", " LIMIT 5", " WHERE v IS NULL"})
	case 2:
		// the same file twice in one query: self-join of the small file, or big x big on the key
		x.op("self_join")
		if x.small.Format != "" && x.pct("selfSmall", 60) {
			sql = "SELECT a.id, b.id AS bid FROM " + x.small.ref() + " a JOIN " + x.small.ref() + " b ON a.k = b.k"
		} else if t.N <= 420 && x.pct("selfBig", 35) {
			sql = "SELECT a.id, b.id AS bid FROM " + t.ref() + " a JOIN " + t.ref() + " b ON a.id = b.id AND " + x.pred1("a")
		} else {
			sql = "SELECT a.id FROM " + t.ref() + " a WHERE a.k IN (SELECT b.k FROM " + t.ref() + " b WHERE b.id % 50 = 1)"
		}
	case 3:
		x.op("two_files")
		o := x.bigTable("loadOther")
		sql = "SELECT a.k, a.g FROM " + t.ref() + " a WHERE " + x.pred1("a") + " " + x.pick("loadSetOp", []string{"UNION", "EXCEPT", "INTERSECT", "UNION ALL"}) + " SELECT b.k, b.g FROM " + o.ref() + " b"
	case 4:
		return x.statement([]int{1, 0, 0, 0, 0, 0, 0, 0, 0})
	case 5:
		return x.statement([]int{0, 1, 1, 0, 0, 0, 0, 0, 0})
	case 6:
		return x.statement([]int{0, 0, 0, 1, 0, 1, 1, 1, 0})
	default:
		return x.statement([]int{0, 0, 0, 0, 0, 0, 0, 0, 1})
	}
	return []stmt{{SQL: sql, Ops: fw.SortedKeys(x.ops)}}
}

func genLoad(formats []string) func(t *rapid.T) progCase {
	return func(t *rapid.T) progCase {
		var big []tableSpec
		for _, name := range []string{"t1", "t2"} {
			f := fw.PickU(t, "format", formats)
			n := bigN(t, true)
			if fw.Pct(t, "shortFile", 12) {
				n = fw.PickU(t, "shortN", []int{2, 3, 17, 160, 299, 300})
			}
			big = append(big, genSpec(t, name, n, f))
		}
		sf := ""
		if fw.Pct(t, "smallIsFile", 60) {
			sf = fw.PickU(t, "smallFormat", formats)
		}
		small := genSpec(t, "t3", fw.Range(t, "nSmall", 5, 40), sf)
		small.KMod = fw.Range(t, "smallKmod", 2, 8)
		x := &g{t: t, mode: "load", big: big, small: small}
		n := fw.Range(t, "nStmts", 1, 2)
		var groups [][]stmt
		for i := 0; i < n; i++ {
			groups = append(groups, x.loadStatement())
		}
		return progCase{Mode: "load", CPU: genCPU(t), Tables: append(big, small), Progs: [][]stmt{flatten(groups)}}
	}
}

var failSites = []string{"where", "select", "groupkey", "aggarg", "having", "joinon", "orderby", "anaarg", "anapartition", "distinct", "insertselect", "updateset", "updatewhere", "deletewhere"}

// the statement shapes (weights in the order of statement()) that contain each failure site
var siteShapes = map[string][]int{
	"where": {4, 2, 2, 1, 1, 2, 2, 0, 0}, "select": {4, 0, 0, 0, 0, 3, 0, 0, 0}, "orderby": {4, 0, 0, 2, 0, 3, 2, 0, 0},
	"groupkey": {0, 0, 1, 0, 0, 0, 0, 0, 0}, "aggarg": {0, 0, 1, 0, 0, 0, 0, 0, 0}, "having": {0, 0, 1, 0, 0, 0, 0, 0, 0},
	"joinon": {0, 1, 0, 0, 0, 0, 0, 0, 0}, "anaarg": {0, 0, 0, 0, 0, 0, 1, 0, 0}, "anapartition": {0, 0, 0, 0, 0, 0, 1, 0, 0},
	"distinct": {0, 0, 0, 1, 0, 0, 0, 0, 0}, "insertselect": {0, 0, 0, 0, 0, 0, 0, 0, 1}, "updateset": {0, 0, 0, 0, 0, 0, 0, 0, 1},
	"updatewhere": {0, 0, 0, 0, 0, 0, 0, 0, 1}, "deletewhere": {0, 0, 0, 0, 0, 0, 0, 0, 1},
}

func genError(t *rapid.T) progCase {
	// the `error` check is about the shared error slot of the task managers: tables are temporary
	// (a file-load race would be reported by the load checks)
	big, small := genTables(t, 0, nil)
	x := &g{t: t, mode: "error", big: big, small: small}
	c := progCase{Mode: "error", CPU: genCPU(t), Tables: append(big, small)}
	var prog []stmt
	if fw.Pct(t, "preStatement", 25) {
		if pre := x.statement(allShapes); !(avoidKnownSubqueryFileInfoWrite && hasOp(pre, "from_subquery")) {
			prog = append(prog, pre...)
		}
	}
	site := fw.PickU(t, "failSite", failSites)
	// the failing row: an id inside the range of the 2nd or a later worker of the smaller big table
	minN := big[0].N
	if big[1].N < minN {
		minN = big[1].N
	}
	workers := minN / 80
	if c.CPU < workers {
		workers = c.CPU
	}
	per := minN / workers
	row := fw.Range(t, "failRow", per+1, minN)
	if fw.Pct(t, "failAtBoundary", 25) {
		row = per*fw.Range(t, "failWorker", 1, workers-1) + fw.PickU(t, "failEdge", []int{0, 1, 2})
	}
	kind := fw.PickU(t, "failKind", []string{"div0", "div0", "mod0", "udf", "udf", "two_rows", "all_rows_field", "all_rows_func", "all_rows_subquery"})
	var expr string
	switch kind {
	case "div0":
		expr = fmt.Sprintf("100 / (%%a.id - %d)", row)
	case "mod0":
		expr = fmt.Sprintf("100 %% (%%a.id - %d)", row)
	case "udf":
		expr = fmt.Sprintf("ufail(%%a.id, %d)", row)
	case "two_rows":
		row2 := fw.Range(t, "failRow2", 1, minN)
		expr = fmt.Sprintf("100 / ((%%a.id - %d) * (%%a.id - %d))", row, row2)
	case "all_rows_field":
		expr = "%a.nosuchcolumn + 1"
	case "all_rows_func":
		expr = "NOSUCHFUNCTION(%a.id)"
	case "all_rows_subquery":
		expr = "(SELECT c.id FROM " + small.ref() + " c)"
	}
	x.fail, x.failAt, x.noFilter = expr, site, true
	failing := x.statement(siteShapes[site])
	if x.fail == "" { // placed (always, by construction of siteShapes)
		failing[0].Fail = site + ":" + kind
	}
	prog = append(prog, failing...)
	c.Progs = [][]stmt{prog}
	return c
}

// genRecover: like the interactive shell or a library user, the session goes on after failed
// statements: 1-3 statements that fail at different stages (LIMIT / OFFSET / WHERE / ORDER BY evaluation,
// WITH clause, unknown objects, DML), then statements evaluated by several workers with per-row subqueries.
func genRecover(t *rapid.T) progCase {
	big, small := genTables(t, mixedFilePct(), fileFormats)
	x := &g{t: t, mode: "recover", big: big, small: small}
	c := progCase{Mode: "recover", CPU: genCPU(t), Tables: append(big, small), KeepGoing: true}
	var prog []stmt
	nFail := fw.Range(t, "nFailing", 1, 3)
	kinds := []string{"offset_string", "offset_string", "limit_string", "limit_offset_string", "where_div0", "orderby_div0", "select_unknown_column", "unknown_table",
		"with_unknown_column", "scalar_subquery_rows", "insert_field_count", "update_unknown_column", "udf_trigger", "into_undeclared", "execute_unknown", "function_args", "subquery_offset_string", "union_offset_string"}
	for i := 0; i < nFail; i++ {
		tb := x.bigTable("failTable")
		kind := fw.PickU(t, "recoverKind", kinds)
		var sql string
		switch kind {
		case "offset_string":
			sql = "SELECT a.id FROM " + tb.ref() + " a ORDER BY a.id OFFSET 'abc'"
		case "limit_string":
			sql = "SELECT a.id FROM " + tb.ref() + " a LIMIT 'abc'"
		case "limit_offset_string":
			sql = "SELECT a.id, a.v FROM " + tb.ref() + " a WHERE a.v > 2 LIMIT 10 OFFSET 'x'"
		case "where_div0":
			sql = fmt.Sprintf("SELECT a.id FROM %s a WHERE 100 / (INTEGER(a.id) - %d) > 0", tb.ref(), fw.Range(t, "recoverRow", 1, tb.N))
		case "orderby_div0":
			sql = fmt.Sprintf("SELECT a.id FROM %s a ORDER BY 100 %% (INTEGER(a.id) - %d)", tb.ref(), fw.Range(t, "recoverRow2", 1, tb.N))
		case "select_unknown_column":
			sql = "SELECT a.id, a.nosuchcolumn FROM " + tb.ref() + " a"
		case "unknown_table":
			sql = "SELECT x.id FROM nosuchtable x WHERE x.id IN (SELECT a.id FROM " + tb.ref() + " a)"
		case "with_unknown_column":
			sql = "WITH w AS (SELECT a.nosuchcolumn FROM " + tb.ref() + " a) SELECT * FROM w"
		case "scalar_subquery_rows":
			sql = "SELECT a.id FROM " + tb.ref() + " a WHERE a.v > (SELECT c.v FROM " + small.ref() + " c)"
		case "insert_field_count":
			sql = "INSERT INTO " + nvl(tb.dmlTarget(), "t9") + " (id, k) SELECT a.id, a.k, a.g FROM " + tb.ref() + " a"
		case "update_unknown_column":
			sql = "UPDATE " + nvl(tb.dmlTarget(), "t9") + " SET nosuchcolumn = 1"
		case "udf_trigger":
			sql = fmt.Sprintf("SELECT a.id, ufail(a.id, %d) AS f FROM %s a", fw.Range(t, "recoverRow3", 1, tb.N), tb.ref())
		case "into_undeclared":
			sql = "SELECT COUNT(*) INTO @undeclared FROM " + tb.ref() + " a"
		case "execute_unknown":
			sql = "EXECUTE nosuchstatement USING 1"
		case "function_args":
			sql = "SELECT a.id, UPPER(a.s, a.g, 3) AS f FROM " + tb.ref() + " a"
		case "subquery_offset_string":
			sql = "SELECT a.id FROM " + tb.ref() + " a WHERE a.k IN (SELECT c.k FROM " + small.ref() + " c ORDER BY c.k OFFSET 'abc')"
		case "union_offset_string":
			sql = "SELECT a.k FROM " + tb.ref() + " a UNION SELECT c.k FROM " + small.ref() + " c ORDER BY 1 OFFSET 'abc'"
		}
		prog = append(prog, stmt{SQL: sql, Ops: []string{"failing:" + kind}, Fail: "recover:" + kind})
	}
	// afterwards: per-row subqueries on several workers, then anything
	n := fw.Range(t, "nAfter", 1, 3)
	for i := 0; i < n; i++ {
		if i == 0 || fw.Pct(t, "afterCorr", 40) {
			x.ops = map[string]bool{}
			tb := x.bigTable("afterTable")
			x.op("corr_subquery")
			sql := "SELECT a.id, " + x.any("a") + " AS c1 FROM " + tb.ref() + " a WHERE " + fw.PickU(t, "afterPred", []string{
				"EXISTS (SELECT 1 FROM " + small.ref() + " c WHERE c.k = a.k)",
				"a.k IN (SELECT c.k FROM " + small.ref() + " c WHERE c.v > a.v)",
				"a.v > (SELECT AVG(c.v) FROM " + small.ref() + " c WHERE c.k = a.k % 5)",
				"(SELECT COUNT(*) FROM (SELECT c.id FROM " + small.ref() + " c WHERE c.k = a.k) s) > 0"})
			prog = append(prog, stmt{SQL: sql, Ops: fw.SortedKeys(x.ops)})
		} else {
			prog = append(prog, x.statement(allShapes)...)
		}
	}
	c.Progs = [][]stmt{prog}
	return c
}

func nvl(s, d string) string {
	if s == "" {
		return d
	}
	return s
}

// ---- lazily loaded sources -------------------------------------------------
//
// Sources that are loaded (and cached in the transaction) when they are first referenced: remote
// tables served by the worker's loopback HTTP server ({{URL}} is replaced by its address), DATA::
// strings, inline CSV/JSON, STDIN, and files nobody has read yet. The lazy check references them
// for the first time inside subqueries that several goroutines evaluate per record.

// lazyCell: the content of every lazily loaded source (columns id,k,g,v,s); k is below 5 so that
// `r.k = a.k % 5` matches.
func lazyCell(i, col int) string {
	switch col {
	case 0:
		return fmt.Sprint(i + 1)
	case 1:
		return fmt.Sprint(i % 5)
	case 2:
		return fmt.Sprintf("g%d", i%3)
	case 3:
		return fmt.Sprint((i * 7) % 11)
	}
	return fmt.Sprintf("s%d", i)
}

var lazyCols = []string{"id", "k", "g", "v", "s"}

func lazyCSV(n int) string {
	var b strings.Builder
	b.WriteString(strings.Join(lazyCols, ",") + "\n")
	for i := 0; i < n; i++ {
		for c := range lazyCols {
			if c > 0 {
				b.WriteString(",")
			}
			b.WriteString(lazyCell(i, c))
		}
		b.WriteString("\n")
	}
	return b.String()
}

func lazyJSON(n int) string {
	var b strings.Builder
	b.WriteString("[")
	for i := 0; i < n; i++ {
		if i > 0 {
			b.WriteString(",")
		}
		fmt.Fprintf(&b, `{"id":%s,"k":%s,"g":"%s","v":%s,"s":"%s"}`, lazyCell(i, 0), lazyCell(i, 1), lazyCell(i, 2), lazyCell(i, 3), lazyCell(i, 4))
	}
	b.WriteString("]")
	return b.String()
}

var lazyKinds = []string{"url_csv_bare", "url_csv_fn", "url_csv_fmt", "url_json_bare", "url_json_fmt", "url_plain", "data_csv", "data_json", "csv_inline", "json_inline", "stdin", "file_new", "file_url", "file_inline"}

// lazySource returns the FROM expression (with alias r) of a source of the given kind.
func (x *g) lazySource(kind string, t4 tableSpec) (string, string) {
	n := x.rng("lazyRows", 3, 30)
	tag := x.pick("lazyTag", []string{"a", "a", "b", "c"})
	switch kind {
	case "url_csv_bare":
		return fmt.Sprintf("{{URL}}/csv/%d/%s.csv r", n, tag), kind
	case "url_csv_fn":
		return fmt.Sprintf("URL::('{{URL}}/csv/%d/%s.csv') r", n, tag), kind
	case "url_csv_fmt":
		return fmt.Sprintf("CSV(',', URL::('{{URL}}/csv/%d/%s.csv')) r", n, tag), kind
	case "url_json_bare":
		return fmt.Sprintf("{{URL}}/json/%d/%s.json r", n, tag), kind
	case "url_json_fmt":
		return fmt.Sprintf("JSON('', URL::('{{URL}}/json/%d/%s.json')) r", n, tag), kind
	case "url_plain":
		return fmt.Sprintf("{{URL}}/plain/%d/%s r", n, tag), kind
	case "data_csv":
		return "CSV(',', DATA::('" + lazyCSV(n) + "')) r", kind
	case "data_json":
		return "JSON('', DATA::('" + lazyJSON(n) + "')) r", kind
	case "csv_inline":
		return "CSV_INLINE(',', '" + lazyCSV(n) + "') r", kind
	case "json_inline":
		return "JSON_INLINE('', '" + lazyJSON(n) + "') r", kind
	case "stdin":
		return "STDIN r", kind
	case "file_url":
		if t4.Format == "CSV" || t4.Format == "TSV" || t4.Format == "JSON" || t4.Format == "JSONL" {
			return "file:./" + t4.fileName() + " r", kind
		}
	case "file_inline":
		if t4.Format == "CSV" || t4.Format == "TSV" || t4.Format == "JSON" || t4.Format == "JSONL" {
			return "INLINE::('" + t4.fileName() + "') r", kind
		}
	}
	return t4.ref() + " r", "file_new"
}

func genLazy(t *rapid.T) progCase {
	big, small := genTables(t, mixedFilePct(), fileFormats)
	// the sources are re-read (inline files, DATA::) or re-parsed (remote tables) for every outer
	// record: two to four workers are enough, keep the outer tables at the lower end
	for i := range big {
		if big[i].Format == "" {
			big[i].N = 160 + big[i].N%120
		} else {
			big[i].N = 301 + big[i].N%40
		}
	}
	t4 := genSpec(t, "t4", fw.Range(t, "nT4", 3, 30), fw.PickU(t, "t4Format", fileFormats))
	t4.KMod = 5
	x := &g{t: t, mode: "lazy", big: big, small: small}
	c := progCase{Mode: "lazy", CPU: genCPU(t), Tables: append(append(big, small), t4), KeepGoing: true}
	var prog []stmt
	n := fw.Range(t, "nLazyStmts", 1, 2)
	for i := 0; i < n; i++ {
		x.ops = map[string]bool{}
		tb := x.bigTable("lazyOuter")
		kind := fw.PickU(t, "lazyKind", lazyKinds)
		if fw.Pct(t, "lazyPreferURL", 35) {
			kind = fw.PickU(t, "lazyURLKind", lazyKinds[:6])
		}
		src, kind := x.lazySource(kind, t4)
		x.op("lazy:" + kind)
		if kind == "stdin" {
			c.Stdin = fw.Range(t, "stdinRows", 3, 30)
		}
		// a second source: the same expression again (the same URL in two subqueries) or another one
		src2, kind2 := src, kind
		if fw.Pct(t, "lazyOtherSecond", 50) {
			src2, kind2 = x.lazySource(fw.PickU(t, "lazyKind2", lazyKinds), t4)
			if kind2 == "stdin" {
				c.Stdin = fw.Range(t, "stdinRows2", 3, 30)
			}
		}
		fail := ""
		var sqls []string
		shape := fw.Weighted(t, "lazyShape", []int{16, 14, 14, 16, 10, 8, 6, 6, 5, 5})
		switch shape {
		case 0:
			x.op("in_subquery")
			sqls = []string{"SELECT a.id, " + x.any("a") + " AS c1 FROM " + tb.ref() + " a WHERE a.k % 5 IN (SELECT r.k FROM " + src + " WHERE r.v > " + fmt.Sprint(x.rng("lazyConst", 0, 6)) + ")"}
		case 1:
			x.op("exists_subquery")
			sqls = []string{"SELECT a.id FROM " + tb.ref() + " a WHERE " + x.pick("lazyNot", []string{"", "NOT "}) + "EXISTS (SELECT 1 FROM " + src + " WHERE r.k = a.k % 5 AND r.v < a.v)"}
		case 2:
			x.op("scalar_subquery")
			sqls = []string{"SELECT a.id, (SELECT MAX(r.v) FROM " + src + " WHERE r.k = a.k % 5) AS m, " + x.any("a") + " AS c1 FROM " + tb.ref() + " a"}
		case 3:
			x.op("two_subqueries")
			x.op("lazy:" + kind2)
			sqls = []string{"SELECT a.id, (SELECT COUNT(*) FROM " + src2 + " WHERE r.k = a.k % 5) AS n FROM " + tb.ref() + " a WHERE a.k % 5 IN (SELECT r.k FROM " + src + ") " + x.pick("lazyAndOr", []string{"AND", "OR"}) + " a.v > (SELECT MIN(r.v) FROM " + src2 + ")"}
		case 4:
			x.op("udf_body")
			x.seq++
			fn := fmt.Sprintf("ulz%d", x.seq)
			sqls = []string{"DECLARE " + fn + " FUNCTION (@x) AS BEGIN VAR @n; SELECT COUNT(*) INTO @n FROM " + src + " WHERE r.k = @x % 5; RETURN @n; END",
				"SELECT a.id, " + fn + "(a.k) AS n FROM " + tb.ref() + " a" + x.pick("lazyUdfTail", []string{"", " WHERE " + fn + "(a.v) > 0"})}
		case 5:
			x.op("join_on_subquery")
			sqls = []string{"SELECT a.id, b.id AS bid FROM " + tb.ref() + " a " + x.pick("lazyJoin", []string{"JOIN", "LEFT JOIN", "FULL JOIN"}) + " " + small.ref() + " b ON a.k = b.k AND a.k % 5 IN (SELECT r.k FROM " + src + ")"}
		case 6:
			x.op("aggregate_arg_subquery")
			sqls = []string{"SELECT a.g, SUM((SELECT COUNT(*) FROM " + src + " WHERE r.k = a.k % 5)) AS n FROM " + tb.ref() + " a GROUP BY a.g"}
		case 7:
			x.op("orderby_subquery")
			sqls = []string{"SELECT a.id FROM " + tb.ref() + " a ORDER BY (SELECT MAX(r.v) FROM " + src + " WHERE r.k = a.k % 5), a.id"}
		case 8:
			if tgt := tb.dmlTarget(); tgt != "" {
				x.op("update_where_subquery")
				sqls = []string{"UPDATE " + tgt + " SET v = v + 1 WHERE k % 5 IN (SELECT r.k FROM " + src + ")"}
			} else {
				x.op("in_subquery")
				sqls = []string{"SELECT a.id FROM " + tb.ref() + " a WHERE a.k % 5 IN (SELECT r.k FROM " + src + ")"}
			}
		default:
			// a remote table that does not exist: every worker fails while loading it
			x.op("in_subquery")
			fail = "lazy:http_404"
			sqls = []string{"SELECT a.id FROM " + tb.ref() + " a WHERE a.k % 5 IN (SELECT r.k FROM {{URL}}/missing/" + x.pick("lazyMissing", []string{"x.csv", "y.json"}) + " r)"}
		}
		ops := fw.SortedKeys(x.ops)
		for k, q := range sqls {
			st := stmt{SQL: q, Ops: ops}
			if fail != "" && k == len(sqls)-1 {
				st.Fail = fail
			}
			prog = append(prog, st)
		}
		// afterwards the source is cached: read it once more at the top level or in another subquery
		if fail == "" && fw.Pct(t, "lazyAgain", 35) {
			q := "SELECT COUNT(*) AS n FROM " + src
			if fw.Pct(t, "lazyAgainSub", 50) {
				q = "SELECT a.id FROM " + x.bigTable("lazyOuter2").ref() + " a WHERE EXISTS (SELECT 1 FROM " + src + " WHERE r.k = a.k % 5)"
			}
			prog = append(prog, stmt{SQL: q, Ops: append(append([]string{}, ops...), "cached_again")})
		}
	}
	c.Progs = [][]stmt{prog}
	return c
}

// opsOf collects the operator labels of a case.
func opsOf(c progCase) []string {
	m := map[string]bool{}
	for _, p := range c.Progs {
		for _, s := range p {
			for _, o := range s.Ops {
				m[o] = true
			}
		}
	}
	out := fw.SortedKeys(m)
	sort.Strings(out)
	return out
}
