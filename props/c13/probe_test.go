package c13

import (
	"fmt"
	"os"
	"strings"
	"testing"

	"verif/internal/run"
)

func TestProbe(t *testing.T) {
	dir := t.TempDir()
	var b strings.Builder
	b.WriteString("id,v\n")
	for i := 0; i < 400; i++ {
		fmt.Fprintf(&b, "%d,%d\n", i, i%7)
	}
	os.WriteFile(dir+"/t.csv", []byte(b.String()), 0644)
	for k := 0; k < 3; k++ {
		s, err := run.NewSess(run.Opt{Dir: dir, CPU: 8})
		if err != nil {
			t.Fatal(err)
		}
		r := s.Exec("SELECT COUNT(*) FROM t WHERE v > 2")
		fmt.Println(r.Err, r.Views)
		s.Close()
	}
}
