package c13

import (
	"fmt"
	"os"
	"testing"

	"pgregory.net/rapid"
)

// dev only: run generated cases directly (no worker, no race) and print statement errors
func TestDevTemplates(t *testing.T) {
	if os.Getenv("C13_DEV") == "" {
		t.Skip()
	}
	gens := map[string]func(*rapid.T) progCase{"eval": genEval, "load_text": genLoad([]string{"CSV", "TSV", "LTSV", "FIXED"}), "load_json": genLoad([]string{"JSON", "JSONL"}), "error": genError, "cancel": genCancel, "sessions": genSessions}
	dir := t.TempDir()
	errs := map[string]int{}
	n := 0
	for name, gen := range gens {
		if f := os.Getenv("C13_DEV_ONLY"); f != "" && f != name {
			continue
		}
		rapid.Check(t, func(rt *rapid.T) {
			c := gen(rt)
			n++
			res := execCase(c, fmt.Sprintf("%s/c%d", dir, n))
			if res.Harness != "" {
				t.Errorf("%s: HARNESS %s", name, res.Harness)
			}
			for i, p := range c.Progs {
				for k, s := range p {
					r := res.Stmts[i][k]
					if s.Fail != "" {
						if r.Err == "" {
							key := name + " MISSING " + s.Fail
							if errs[key] == 0 {
								fmt.Printf("%s\n    %s\n", key, s.SQL)
							}
							errs[key]++
						}
						continue
					}
					if r.Err != "" && !(c.Mode == "cancel" && res.Canceled) {
						key := name + " " + r.Err + " " + r.Msg
						if len(key) > 120 {
							key = key[:120]
						}
						if errs[key] == 0 {
							fmt.Printf("%s\n    %s\n    %s\n", key, r.Msg, s.SQL)
						}
						errs[key]++
					}
				}
			}
		})
	}
	fmt.Println("cases", n, "distinct errors", len(errs))
	for k, v := range errs {
		fmt.Println(v, k)
	}
}
