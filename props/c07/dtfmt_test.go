package c07

import (
	"fmt"
	"sort"
	"strings"
	"testing"
	"time"

	"pgregory.net/rapid"

	"verif/internal/fw"
	"verif/internal/ref"
	"verif/internal/run"
	"verif/internal/val"
)

// ---------------------------------------------------------------------
// datetime_format: ORDER BY / LIMIT over key columns whose cells are strings in
// user-defined datetime notations (@@DATETIME_FORMAT). The manual (cast
// functions, "Format of string to be interpreted as datetime") says that
// strings of the forms passed by --datetime-format / @@DATETIME_FORMAT or of
// the built-in forms convert to datetime values; such cells must therefore sort
// chronologically, not as text. The reference does not parse anything: every
// datetime string the generator can produce is rendered here from a wall-clock
// time by a hand-written renderer per notation, and looked up again at check time.

type wall struct {
	Y, Mo, D, H, Mi, S int
}

var months = []string{"January", "February", "March", "April", "May", "June", "July", "August", "September", "October", "November", "December"}

func (w wall) weekday() string {
	return time.Date(w.Y, time.Month(w.Mo), w.D, 0, 0, 0, 0, time.UTC).Weekday().String()
}
func (w wall) dateOnly() bool { return w.H == 0 && w.Mi == 0 && w.S == 0 }
func (w wall) h12() (int, string) {
	h, p := w.H%12, "AM"
	if h == 0 {
		h = 12
	}
	if w.H >= 12 {
		p = "PM"
	}
	return h, p
}

// notation: one way of writing a wall-clock time. Format "" = built-in form
// (always recognised); Offset != nil: the string carries its own UTC offset
// (minutes), the wall time is then meant in that offset.
type notation struct {
	Name   string
	Format string // the @@DATETIME_FORMAT element that makes csvq recognise it
	OK     func(w wall) bool
	Render func(w wall) string
	Offset *int
}

func off(m int) *int { return &m }

var notations = []notation{
	{Name: "b_e_Y", Format: "%b %e %Y", OK: wall.dateOnly,
		Render: func(w wall) string { return fmt.Sprintf("%s %d %d", months[w.Mo-1][:3], w.D, w.Y) }},
	{Name: "e/c/y", Format: "%e/%c/%y", OK: func(w wall) bool { return w.dateOnly() && w.Y >= 2000 && w.Y <= 2030 },
		Render: func(w wall) string { return fmt.Sprintf("%d/%d/%02d", w.D, w.Mo, w.Y%100) }},
	{Name: "W_M_e_Y", Format: "%W, %M %e %Y", OK: wall.dateOnly,
		Render: func(w wall) string { return fmt.Sprintf("%s, %s %d %d", w.weekday(), months[w.Mo-1], w.D, w.Y) }},
	{Name: "d.m.Y", Format: "%d.%m.%Y", OK: wall.dateOnly,
		Render: func(w wall) string { return fmt.Sprintf("%02d.%02d.%04d", w.D, w.Mo, w.Y) }},
	{Name: "d.m.Y_H:i", Format: "%d.%m.%Y %H:%i", OK: func(w wall) bool { return w.S == 0 },
		Render: func(w wall) string { return fmt.Sprintf("%02d.%02d.%04d %02d:%02d", w.D, w.Mo, w.Y, w.H, w.Mi) }},
	{Name: "a_b_e_T_Y", Format: "%a %b %e %T %Y", OK: func(w wall) bool { return true },
		Render: func(w wall) string {
			return fmt.Sprintf("%s %s %d %02d:%02d:%02d %d", w.weekday()[:3], months[w.Mo-1][:3], w.D, w.H, w.Mi, w.S, w.Y)
		}},
	{Name: "b_e_Y_l:i_p", Format: "%b %e %Y %l:%i %p", OK: func(w wall) bool { return w.S == 0 },
		Render: func(w wall) string {
			h, p := w.h12()
			return fmt.Sprintf("%s %d %d %d:%02d %s", months[w.Mo-1][:3], w.D, w.Y, h, w.Mi, p)
		}},
	{Name: "b_e_Y_H:i_Z", Format: "%b %e %Y %H:%i %Z", OK: func(w wall) bool { return w.S == 0 }, Offset: off(0),
		Render: func(w wall) string {
			return fmt.Sprintf("%s %d %d %02d:%02d +00:00", months[w.Mo-1][:3], w.D, w.Y, w.H, w.Mi)
		}},
	{Name: "go_layout", Format: "2 Jan 2006", OK: wall.dateOnly, // the manual allows Go time layouts as formats
		Render: func(w wall) string { return fmt.Sprintf("%d %s %d", w.D, months[w.Mo-1][:3], w.Y) }},
	// built-in forms (manual table)
	{Name: "builtin_date", OK: wall.dateOnly,
		Render: func(w wall) string { return fmt.Sprintf("%04d-%02d-%02d", w.Y, w.Mo, w.D) }},
	{Name: "builtin_slash", OK: wall.dateOnly,
		Render: func(w wall) string { return fmt.Sprintf("%04d/%02d/%02d", w.Y, w.Mo, w.D) }},
	{Name: "builtin_datetime", OK: func(w wall) bool { return true },
		Render: func(w wall) string {
			return fmt.Sprintf("%04d-%02d-%02d %02d:%02d:%02d", w.Y, w.Mo, w.D, w.H, w.Mi, w.S)
		}},
	{Name: "builtin_T", OK: func(w wall) bool { return true },
		Render: func(w wall) string {
			return fmt.Sprintf("%04d-%02d-%02dT%02d:%02d:%02d", w.Y, w.Mo, w.D, w.H, w.Mi, w.S)
		}},
	{Name: "builtin_rfc3339_utc", OK: func(w wall) bool { return true }, Offset: off(0),
		Render: func(w wall) string {
			return fmt.Sprintf("%04d-%02d-%02dT%02d:%02d:%02dZ", w.Y, w.Mo, w.D, w.H, w.Mi, w.S)
		}},
	{Name: "builtin_offset_m8", OK: func(w wall) bool { return true }, Offset: off(-480),
		Render: func(w wall) string {
			return fmt.Sprintf("%04d-%02d-%02d %02d:%02d:%02d -08:00", w.Y, w.Mo, w.D, w.H, w.Mi, w.S)
		}},
}

const nUserNotations = 9

// wall-clock times: few dates x few times, so that equal instants in different
// notations are frequent; month names and day numbers are chosen so that text
// order and chronological order disagree. No time falls into a daylight-saving
// gap or overlap of the zones used.
var dtDates = [][3]int{{2012, 1, 2}, {2012, 2, 10}, {2011, 12, 31}, {2012, 4, 25}, {2021, 11, 12}, {2022, 1, 3}, {2023, 2, 1}, {2020, 12, 25}, {2012, 1, 10}}
var dtTimes = [][3]int{{0, 0, 0}, {0, 0, 0}, {10, 30, 0}, {15, 4, 5}, {23, 59, 0}, {8, 0, 0}}
var dtZones = []string{"UTC", "UTC", "America/Los_Angeles", "Asia/Tokyo"}

type dtEntry struct {
	not int
	w   wall
}

// every string the generator can emit -> how it was made
var dtTable = func() map[string]dtEntry {
	m := map[string]dtEntry{}
	for _, d := range dtDates {
		for _, tm := range dtTimes {
			w := wall{d[0], d[1], d[2], tm[0], tm[1], tm[2]}
			for i, n := range notations {
				if n.OK(w) {
					s := n.Render(w)
					if old, dup := m[s]; dup && (old.not != i || old.w != w) {
						panic("ambiguous datetime rendering " + s)
					}
					m[s] = dtEntry{not: i, w: w}
				}
			}
		}
	}
	return m
}()

// resolve: the instant a cell means in a session with the given active
// formats and location; ok=false: the cell is not a datetime there.
func resolveDT(s string, active map[string]bool, loc *time.Location) (time.Time, bool) {
	e, ok := dtTable[s]
	if !ok {
		return time.Time{}, false
	}
	n := notations[e.not]
	if n.Format != "" && !active[n.Format] {
		return time.Time{}, false
	}
	l := loc
	if n.Offset != nil {
		l = time.FixedZone("", *n.Offset*60)
	}
	return time.Date(e.w.Y, time.Month(e.w.Mo), e.w.D, e.w.H, e.w.Mi, e.w.S, 0, l), true
}

type dtfCase struct {
	Base    sortCase `json:"base"`
	Formats []string `json:"formats"` // active @@DATETIME_FORMAT elements, in the order they are set
	Style   string   `json:"style"`   // set_json | set_each | add_each
	TZ      string   `json:"tz"`
}

func (c dtfCase) pre() string {
	var b strings.Builder
	if c.TZ != "UTC" {
		b.WriteString("SET @@TIMEZONE TO " + val.QuoteSQL(c.TZ) + "; ")
	}
	switch c.Style {
	case "set_json":
		var qs []string
		for _, f := range c.Formats {
			qs = append(qs, `"`+f+`"`)
		}
		b.WriteString("SET @@DATETIME_FORMAT TO " + val.QuoteSQL("["+strings.Join(qs, ", ")+"]") + "; ")
	case "add_each":
		for _, f := range c.Formats {
			b.WriteString("ADD " + val.QuoteSQL(f) + " TO @@DATETIME_FORMAT; ")
		}
	default:
		for _, f := range c.Formats {
			b.WriteString("SET @@DATETIME_FORMAT TO " + val.QuoteSQL(f) + "; ")
		}
	}
	return b.String()
}

func genDtfCase(t *rapid.T) dtfCase {
	c := dtfCase{}
	b := &c.Base
	b.Source = fw.Pick(t, "source", []string{"csv", "view"})
	c.TZ = pickW(t, "tz", dtZones)
	// active formats: 1-3 of the user notations
	nf := []int{3, 2, 1}[weighted(t, "nFormats", []int{25, 35, 40})] // shrinks towards one format
	idx := make([]int, nUserNotations)
	for i := range idx {
		idx[i] = i
	}
	for i := nUserNotations - 1; i > 0; i-- {
		k := rapid.IntRange(0, i).Draw(t, "fmtShuffle")
		idx[i], idx[k] = idx[k], idx[i]
	}
	activeIdx := idx[:nf]
	active := map[string]bool{}
	for _, i := range activeIdx {
		c.Formats = append(c.Formats, notations[i].Format)
		active[notations[i].Format] = true
	}
	c.Style = pickW(t, "style", []string{"add_each", "set_json", "set_each"})

	large := rare(t, "large", 6)
	n := rapid.IntRange(2, 12).Draw(t, "rows")
	b.CPU = fw.Pick(t, "cpu", []int{1, 1, 2})
	if large {
		n = rapid.IntRange(160, 300).Draw(t, "rowsLarge")
		b.CPU = 4
	}
	ncol := pickW(t, "ncol", []int{3, 2, 2, 1, 1})
	nullPct := pickW(t, "nullPct", []int{40, 15, 15, 0})
	pools := make([][]val.Val, ncol)
	for j := 0; j < ncol; j++ {
		kind := "dt"
		if j > 0 {
			kind = []string{"text", "num", "dt"}[weighted(t, "kind", []int{30, 20, 50})]
		} else if rare(t, "firstText", 12) {
			kind = "text"
		}
		b.Kinds = append(b.Kinds, kind)
		ps := rapid.IntRange(2, 6).Draw(t, "poolSize")
		if large {
			ps = rapid.IntRange(4, 20).Draw(t, "poolSizeLarge")
		}
		seenI, seenF := map[float64]bool{}, map[float64]bool{}
		// fewer wall-clock times than pool entries: the same instant then appears in several notations
		var bases []wall
		if kind == "dt" {
			nb := rapid.IntRange(1, ps).Draw(t, "nBaseTimes")
			for k := 0; k < nb; k++ {
				d := dtDates[rapid.IntRange(0, len(dtDates)-1).Draw(t, "date")]
				tm := dtTimes[rapid.IntRange(0, len(dtTimes)-1).Draw(t, "time")]
				bases = append(bases, wall{d[0], d[1], d[2], tm[0], tm[1], tm[2]})
			}
		}
		for k := 0; k < ps; k++ {
			switch kind {
			case "num":
				pools[j] = append(pools[j], genNum(t, b.Source, true, seenI, seenF))
			case "dt":
				w := bases[k%len(bases)]
				// candidate notations: the active user formats (preferred) and the built-in forms
				var user, builtin []int
				for i, nt := range notations {
					if !nt.OK(w) {
						continue
					}
					if nt.Format == "" {
						builtin = append(builtin, i)
					} else if active[nt.Format] {
						user = append(user, i)
					}
				}
				var pick int
				if len(user) > 0 && chance(t, "userNotation", 70) {
					pick = user[rapid.IntRange(0, len(user)-1).Draw(t, "userNot")]
				} else {
					pick = builtin[rapid.IntRange(0, len(builtin)-1).Draw(t, "builtinNot")]
				}
				pools[j] = append(pools[j], val.Str(notations[pick].Render(w)))
			default:
				// text: strings in notations that are NOT active in this session (plain text there) and plain words
				var inactive []int
				for i := 0; i < nUserNotations; i++ {
					if !active[notations[i].Format] {
						inactive = append(inactive, i)
					}
				}
				if len(inactive) > 0 && chance(t, "inactiveNotation", 60) {
					nt := notations[inactive[rapid.IntRange(0, len(inactive)-1).Draw(t, "inactNot")]]
					d := dtDates[rapid.IntRange(0, len(dtDates)-1).Draw(t, "date")]
					w := wall{d[0], d[1], d[2], 0, 0, 0}
					if !nt.OK(w) {
						w = wall{2012, 1, 2, 0, 0, 0}
					}
					v := val.Str(nt.Render(w))
					if ref.OutsideModel(v) {
						// digit-led text of 8+ characters: the manual does not say whether it is datetime-like
						v = genText(t, false)
					}
					pools[j] = append(pools[j], v)
				} else {
					pools[j] = append(pools[j], genText(t, false))
				}
			}
		}
	}
	ids := make([]int64, n)
	for i := range ids {
		ids[i] = int64(i + 1)
	}
	for i := n - 1; i > 0; i-- {
		k := rapid.IntRange(0, i).Draw(t, "shuffle")
		ids[i], ids[k] = ids[k], ids[i]
	}
	b.IDs = ids
	b.Rows = make([][]val.Val, n)
	for i := 0; i < n; i++ {
		row := make([]val.Val, ncol)
		for j := 0; j < ncol; j++ {
			if rare(t, "isNull", nullPct) {
				row[j] = val.Null
			} else {
				row[j] = pools[j][rapid.IntRange(0, len(pools[j])-1).Draw(t, "cell")]
			}
		}
		b.Rows[i] = row
	}
	b.IDOnly = chance(t, "idOnly", 15)
	b.Star = !b.IDOnly && chance(t, "star", 20)
	// the first key is the first column (a datetime column in 88% of the cases)
	genKeys(t, b, 45)
	for i, k := range b.Keys {
		if k.Col == 0 && i != 0 {
			b.Keys[0], b.Keys[i] = b.Keys[i], b.Keys[0]
		}
	}
	if b.Keys[0].Col != 0 && chance(t, "firstKeyIsCol0", 70) {
		b.Keys[0].Col = 0
		for i := 1; i < len(b.Keys); i++ {
			if b.Keys[i].Col == 0 {
				b.Keys = append(b.Keys[:i], b.Keys[i+1:]...)
				break
			}
		}
	}
	if chance(t, "cut", 65) {
		genCut(t, b)
	} else {
		b.Cut = cutSpec{Form: "none"}
	}
	return c
}

func checkDtf(c dtfCase) (fw.Outcome, *fw.Violation) {
	b := c.Base
	loc, err := time.LoadLocation(c.TZ)
	if err != nil {
		return fw.Outcome{Discard: true}, nil // no time zone database on this machine
	}
	active := map[string]bool{}
	for _, f := range c.Formats {
		active[f] = true
	}
	// reference cells: datetime strings become instants; a key column must be all datetimes or none
	refRows := make([][]val.Val, len(b.Rows))
	isDT := make([]int, len(b.Kinds)) // 0 unknown, 1 datetime, 2 other
	type probe struct {
		s    string
		t    time.Time
		isDT bool
	}
	var probes []probe
	seenProbe := map[string]bool{}
	userCells, inactiveCells := 0, 0
	for i, row := range b.Rows {
		refRows[i] = make([]val.Val, len(row))
		for j, v := range row {
			refRows[i][j] = v
			if v.K != "S" {
				continue
			}
			tm, ok := resolveDT(v.S, active, loc)
			kind := 2
			if ok {
				kind = 1
				refRows[i][j] = val.Time(tm.UTC())
				if notations[dtTable[v.S].not].Format != "" {
					userCells++
				}
			} else if _, known := dtTable[v.S]; known {
				inactiveCells++
			}
			if isDT[j] == 0 {
				isDT[j] = kind
			} else if isDT[j] != kind {
				isDT[j] = 3
			}
			if b.Kinds[j] != "num" && !seenProbe[v.S] && len(probes) < 40 { // DATETIME() of a numeric string is a unix time: not probed
				seenProbe[v.S] = true
				probes = append(probes, probe{v.S, tm, ok})
			}
		}
	}
	for _, k := range b.Keys {
		if isDT[k.Col] == 3 {
			// datetimes and other text in one key column are not mutually comparable
			return fw.Outcome{Discard: true}, nil
		}
	}

	o, v := checkCaseExt(b, c.pre(), refRows)
	if v != nil || o.Discard {
		if v != nil {
			v.Msg = "session: " + c.pre() + "\n" + v.Msg
			if userCells > 0 && !strings.Contains(v.Sig, "error") {
				v.Sig = "dtfmt_" + v.Sig
			}
		}
		return o, v
	}

	// the same cells through DATETIME(): csvq's own conversion must agree with the
	// reference classification (datetime exactly when a user format or a built-in form applies)
	if len(probes) > 0 {
		dir := fw.WorkDir()
		s, err := run.NewSess(run.Opt{Dir: dir, CPU: 1})
		if err != nil {
			panic(err)
		}
		defer s.Close()
		if r := s.Exec(c.pre()); r.Err != nil {
			return o, fw.V("setup_error", "%s: %v", c.pre(), r.Err)
		}
		var items []string
		for _, p := range probes {
			items = append(items, "DATETIME("+val.QuoteSQL(p.s)+")")
		}
		tbl, err := s.Query("SELECT " + strings.Join(items, ", "))
		if err != nil || len(tbl.Rows) != 1 || len(tbl.Rows[0]) != len(probes) {
			return o, fw.V("dtfmt_datetime_function_error", "%s SELECT %s: %v", c.pre(), strings.Join(items, ", "), err)
		}
		for i, p := range probes {
			got := tbl.Rows[0][i]
			switch {
			case p.isDT && (got.K != "D" || !got.AsTime().Equal(p.t)):
				return o, fw.V("dtfmt_datetime_function_disagrees", "%s DATETIME(%q) = %s, expected %s", c.pre(), p.s, got, p.t.Format(time.RFC3339))
			case !p.isDT && got.K != "N":
				return o, fw.V("dtfmt_datetime_function_disagrees", "%s DATETIME(%q) = %s, expected NULL (no active format, no built-in form)", c.pre(), p.s, got)
			}
		}
	}

	// classes / non-triviality: does text order differ from chronological order in the first key column?
	o.Classes = append(o.Classes, "tz:"+c.TZ, "style:"+c.Style, fmt.Sprintf("formats:%d", len(c.Formats)))
	for _, f := range c.Formats {
		o.Classes = append(o.Classes, "format:"+f)
	}
	inverted, tieAcross, shortOrNonDigit := false, false, false
	if len(b.Keys) > 0 && isDT[b.Keys[0].Col] == 1 {
		col := b.Keys[0].Col
		type cell struct {
			s    string
			t    time.Time
			user bool
		}
		var cells []cell
		seen := map[string]bool{}
		for _, row := range b.Rows {
			if v := row[col]; v.K == "S" && !seen[v.S] {
				seen[v.S] = true
				tm, _ := resolveDT(v.S, active, loc)
				u := notations[dtTable[v.S].not].Format != ""
				cells = append(cells, cell{v.S, tm, u})
				if u && (len(v.S) < 8 || v.S[0] < '0' || v.S[0] > '9') {
					shortOrNonDigit = true
				}
			}
		}
		for i := range cells {
			for j := i + 1; j < len(cells); j++ {
				if !cells[i].user && !cells[j].user {
					continue
				}
				a, bb := strings.ToUpper(cells[i].s), strings.ToUpper(cells[j].s)
				switch {
				case cells[i].t.Equal(cells[j].t):
					tieAcross = true
				case cells[i].t.Before(cells[j].t) != (a < bb):
					inverted = true
				}
			}
		}
		o.Classes = append(o.Classes, "first_key:datetime")
	} else {
		o.Classes = append(o.Classes, "first_key:other")
	}
	if userCells > 0 {
		o.Classes = append(o.Classes, "cells_in_user_notation")
	}
	if inactiveCells > 0 {
		o.Classes = append(o.Classes, "cells_in_inactive_notation_are_text")
	}
	if inverted {
		o.Classes = append(o.Classes, "text_order_differs_from_time_order")
	}
	if tieAcross {
		o.Classes = append(o.Classes, "same_instant_in_two_notations")
	}
	if shortOrNonDigit {
		o.Classes = append(o.Classes, "user_notation_short_or_not_digit_led")
	}
	base := o.Fingerprint
	o.Fingerprint = ""
	if (inverted || tieAcross) && len(b.Rows) >= 2 {
		fs := append([]string(nil), c.Formats...)
		sort.Strings(fs)
		if base == "" {
			base = "trivial-cut:" + cutKind(b.Cut)
		}
		o.Fingerprint = fmt.Sprintf("dtf|%s|%s|%s|inv=%v|tie=%v|%s", strings.Join(fs, ";"), c.TZ, c.Style, inverted, tieAcross, base)
	}
	return o, nil
}

func TestC07DatetimeFormat(t *testing.T) {
	fw.Run(t, fw.Spec[dtfCase]{
		ID: "C07", Name: "datetime_format", Quick: 8000, Thorough: 160000,
		Gen: genDtfCase, Check: checkDtf,
		Rule: "a dedicated session per case with SET @@TIMEZONE (UTC, America/Los_Angeles, Asia/Tokyo) and 1-3 user datetime formats set through SET @@DATETIME_FORMAT with a JSON list, one SET per format, or ADD ... TO (9 notations: '%b %e %Y', '%e/%c/%y', '%W, %M %e %Y', '%d.%m.%Y', '%d.%m.%Y %H:%i', '%a %b %e %T %Y', '%b %e %Y %l:%i %p', '%b %e %Y %H:%i %Z', Go layout '2 Jan 2006'); key columns hold strings in the active notations mixed with built-in notations (also of the same instants: ties), NULLs; other key columns hold numbers or text, where text includes strings in notations that are NOT active (plain text in that session); then ORDER BY and LIMIT/OFFSET/PERCENT/WITH TIES as in 'sort' and 'cut'. Reference: each string was rendered here from a wall-clock time by a per-notation renderer and is looked up again (no parsing): a datetime exactly when its notation is active or built-in, instant in the session time zone unless the string carries an offset; then the 'sort'/'cut' oracle on those instants; additionally DATETIME(cell) in the same session must equal the reference instant / NULL. Non-trivial = >= 2 rows and the first key column is a datetime column in which, for some pair involving a user notation, upper-cased text order differs from chronological order or two notations spell the same instant; distinct by (formats, zone, style, inverted/tie, the 'sort'/'cut' fingerprint)",
		Assumptions: []string{assumeNeg, assumePct,
			"datetimes and plain text are never mixed in one key column: the documented comparison of a datetime string with other text is the text comparison, which is not transitive together with the chronological comparison, so such a column is outside the property's quantifier (mutually comparable values); plain text lives in other key columns",
			"two-digit years only for 2000-2030; no wall-clock time inside a daylight-saving gap or overlap; cases are discarded when the time zone database is missing",
			"analytic functions ordered by such keys are not generated here (their values belong to C17)"},
	})
}
