package c07

import (
	"fmt"
	"os"
	"strings"
	"testing"
	"time"

	"pgregory.net/rapid"

	"verif/internal/fw"
	"verif/internal/ref"
	"verif/internal/run"
	"verif/internal/val"
)

// ---------------------------------------------------------------------
// strict_equal: ORDER BY / LIMIT / OFFSET in a session with @@STRICT_EQUAL
// (command line --strict-equal). The manual: "Compare strictly that two values
// are equal for DISTINCT, GROUP BY and ORDER BY". Only equality is said to
// change, so the reference keeps the order of values that the comparison
// ladder orders, and is three-valued where the ladder says "equal":
//
//	ident - same type and same text: equal also strictly
//	diff  - ladder-equal, surely not strictly equal (letter case, integer vs
//	        float, datetime value vs its string): not tied, order free
//	open  - ladder-equal, differ only in surrounding blanks: the manual does
//	        not say whether strict equality trims; tied or not, order free
//
// What is asserted: permutation; no returned row precedes a row that MUST
// sort before it (at the first key that is not ident the ladder orders the
// pair); the number of rows kept; WITH TIES only adds rows that may equal
// the last kept row and leaves no surely-equal row behind; the rows outside
// the window can be split into lo rows before and the rest after it.

type strictCase struct {
	Base sortCase `json:"base"`
	How  string   `json:"how"` // set: SET @@STRICT_EQUAL TO TRUE | flag: the session starts with the flag (like --strict-equal)
}

const (
	srIdent = iota
	srLess
	srGreater
	srDiff
	srOpen
	srBad
)

func trimBlanks(s string) string { return strings.Trim(s, " \t\n\r\v\f") }

// strictRel: relation of two non-NULL key cells.
func strictRel(a, b val.Val) int {
	if a.K == b.K && a.S == b.S {
		return srIdent
	}
	rel, open := ref.Compare(a, b)
	if open {
		return srBad
	}
	switch rel {
	case ref.RelLt:
		return srLess
	case ref.RelGt:
		return srGreater
	case ref.RelEq:
		if a.K == "S" && b.K == "S" && trimBlanks(a.S) == trimBlanks(b.S) {
			return srOpen
		}
		return srDiff
	}
	return srBad
}

// strictKeyRel: relation of two cells under one ORDER BY item (NULL position and direction applied).
func strictKeyRel(a, b val.Val, k keyItem) int {
	desc := k.Dir == "DESC"
	nullsFirst := !desc
	if k.Nulls == "FIRST" {
		nullsFirst = true
	} else if k.Nulls == "LAST" {
		nullsFirst = false
	}
	switch {
	case a.IsNull() && b.IsNull():
		return srIdent
	case a.IsNull():
		if nullsFirst {
			return srLess
		}
		return srGreater
	case b.IsNull():
		if nullsFirst {
			return srGreater
		}
		return srLess
	}
	r := strictRel(a, b)
	if desc {
		if r == srLess {
			return srGreater
		} else if r == srGreater {
			return srLess
		}
	}
	return r
}

type strictModel struct {
	c     sortCase
	rowOf map[int64]int
	bad   bool
	// which relations occur between rows on some key (for the evidence)
	hasDiff, hasOpen, hasIdentDup bool
}

// rowRel: srLess - row i must precede row j; srGreater - j must precede i;
// srIdent - equal in all keys (and no tiebreak); srDiff / srOpen - no constraint.
func (m *strictModel) rowRel(i, j int) int {
	for _, k := range m.c.Keys {
		r := strictKeyRel(m.c.Rows[i][k.Col], m.c.Rows[j][k.Col], k)
		if r != srIdent {
			return r
		}
	}
	if m.c.TieBreak != "" {
		a, b := m.c.IDs[i], m.c.IDs[j]
		if (a < b) == (m.c.TieBreak != "DESC") {
			return srLess
		}
		return srGreater
	}
	return srIdent
}

// mayTie: the rows can have "the same sort keys" (every key ident or open).
func (m *strictModel) mayTie(i, j int) bool {
	if m.c.TieBreak != "" {
		return i == j
	}
	for _, k := range m.c.Keys {
		r := strictKeyRel(m.c.Rows[i][k.Col], m.c.Rows[j][k.Col], k)
		if r != srIdent && r != srOpen {
			return false
		}
	}
	return true
}

func buildStrict(c sortCase) *strictModel {
	m := &strictModel{c: c, rowOf: map[int64]int{}}
	for i, id := range c.IDs {
		m.rowOf[id] = i
	}
	for _, k := range c.Keys {
		var distinct []val.Val
		seen := map[val.Val]int{}
		for _, row := range c.Rows {
			v := row[k.Col]
			if v.IsNull() {
				continue
			}
			seen[v]++
			if seen[v] == 1 {
				distinct = append(distinct, v)
			} else {
				m.hasIdentDup = true
			}
		}
		for i := range distinct {
			if ref.OutsideModel(distinct[i]) {
				m.bad = true
			}
			if _, isBool := ref.AsBoolean(distinct[i]); isBool && distinct[i].K == "S" {
				m.bad = true // known finding: boolean-like text is not ordered
			}
			for j := i + 1; j < len(distinct); j++ {
				switch strictRel(distinct[i], distinct[j]) {
				case srBad:
					m.bad = true
				case srDiff:
					m.hasDiff = true
				case srOpen:
					m.hasOpen = true
				}
			}
		}
	}
	return m
}

// ---- generator --------------------------------------------------------------------

var strictWords = []string{"abc", "abd", "b", "zed", "é", "ab c", "k1", "x-1", "#tag", "日本", "no", "a_b"}
var strictDates = []string{"2012-02-03", "2012-02-04", "1999-12-31", "2000-01-01", "2024-02-29", "2012-11-01", "2012-02-13", "1970-01-01"}
var strictInts = []int64{-3, -1, 0, 1, 2, 3, 10, 100}
var strictFloats = []float64{-2.5, -1, 0, 0.5, 1, 2, 2.5, 3, 10, 100}

func caseVariant(t *rapid.T, w string) string {
	switch weighted(t, "caseVariant", []int{20, 20, 10, 10, 40}) {
	case 0:
		return strings.ToUpper(w)
	case 1:
		r := []rune(w)
		return strings.ToUpper(string(r[:1])) + string(r[1:])
	case 2:
		return " " + w
	case 3:
		return w + "  "
	}
	return w
}

func genStrictCase(t *rapid.T) strictCase {
	sc := strictCase{How: pickW(t, "how", []string{"flag", "set"})}
	c := &sc.Base
	c.Source = fw.Pick(t, "source", []string{"csv", "view"})
	large := rare(t, "large", 6)
	n := rapid.IntRange(2, 12).Draw(t, "rows")
	c.CPU = fw.Pick(t, "cpu", []int{1, 1, 2})
	if large {
		n = rapid.IntRange(160, 330).Draw(t, "rowsLarge")
		c.CPU = 4
	}
	ncol := fw.Pick(t, "ncol", []int{1, 2, 2, 3})
	nullPct := fw.Pick(t, "nullPct", []int{0, 15, 15, 40})
	pools := make([][]val.Val, ncol)
	for j := 0; j < ncol; j++ {
		kind := []string{"dt", "num", "text"}[weighted(t, "kind", []int{20, 25, 55})]
		if kind == "num" && c.Source == "csv" {
			// cells of a file are strings; how strings that spell numbers are ordered under strict equality is not documented
			kind = "text"
		}
		c.Kinds = append(c.Kinds, kind)
		ps := rapid.IntRange(2, 6).Draw(t, "poolSize")
		if large {
			ps = rapid.IntRange(4, 16).Draw(t, "poolSizeLarge")
		}
		switch kind {
		case "text":
			nb := rapid.IntRange(1, 3).Draw(t, "nWords")
			var words []string
			for k := 0; k < nb; k++ {
				words = append(words, fw.Pick(t, "word", strictWords))
			}
			for k := 0; k < ps; k++ {
				w := words[rapid.IntRange(0, len(words)-1).Draw(t, "wordOf")]
				pools[j] = append(pools[j], val.Str(caseVariant(t, w)))
			}
		case "num":
			for k := 0; k < ps; k++ {
				if rapid.IntRange(0, 1).Draw(t, "numIsInt") == 0 {
					pools[j] = append(pools[j], val.Int(fw.Pick(t, "int", strictInts)))
				} else {
					pools[j] = append(pools[j], val.Float(fw.Pick(t, "float", strictFloats)))
				}
			}
		default:
			// one zero-padded notation: text order and chronological order agree, whichever strict mode uses
			typed := c.Source == "view" && chance(t, "dtTypedColumn", 50)
			for k := 0; k < ps; k++ {
				s := fw.Pick(t, "date", strictDates)
				if typed && chance(t, "dtTyped", 70) {
					tm, _ := ref.AsDatetime(val.Str(s))
					pools[j] = append(pools[j], val.Time(tm.UTC()))
				} else {
					pools[j] = append(pools[j], val.Str(s))
				}
			}
		}
	}
	ids := make([]int64, n)
	for i := range ids {
		ids[i] = int64(1001 + i) // four digits each: the ids of a file are strings, text order and numeric order agree
	}
	for i := n - 1; i > 0; i-- {
		k := rapid.IntRange(0, i).Draw(t, "shuffle")
		ids[i], ids[k] = ids[k], ids[i]
	}
	c.IDs = ids
	c.Rows = make([][]val.Val, n)
	for i := 0; i < n; i++ {
		row := make([]val.Val, ncol)
		for j := 0; j < ncol; j++ {
			if rare(t, "isNull", nullPct) {
				row[j] = val.Null
			} else {
				row[j] = pools[j][rapid.IntRange(0, len(pools[j])-1).Draw(t, "cell")]
			}
		}
		c.Rows[i] = row
	}
	c.IDOnly = chance(t, "idOnly", 15)
	c.Star = !c.IDOnly && chance(t, "star", 20)
	genKeys(t, c, 20)
	if chance(t, "cut", 60) {
		genCut(t, c)
	} else {
		c.Cut = cutSpec{Form: "none"}
	}
	return sc
}

// ---- check ----------------------------------------------------------------------------

func checkStrict(sc strictCase) (fw.Outcome, *fw.Violation) {
	c := sc.Base
	o := fw.Outcome{}
	addClass := func(s string) { o.Classes = append(o.Classes, s) }
	n := len(c.Rows)
	cut := c.Cut
	m := buildStrict(c)
	if m.bad || len(c.Keys) == 0 {
		o.Discard = true
		return o, nil
	}

	dir, err := os.MkdirTemp(fw.WorkDir(), "c07s-")
	if err != nil {
		panic(err)
	}
	defer os.RemoveAll(dir)
	if c.Source == "csv" {
		if err := run.WriteFiles(dir, map[string]string{"t.csv": c.csvText()}); err != nil {
			panic(err)
		}
	}
	cpu := c.CPU
	if cpu < 1 {
		cpu = 1
	}
	s, err := run.NewSess(run.Opt{Dir: dir, CPU: cpu, WaitTimeout: 10 * time.Minute})
	if err != nil {
		panic(err)
	}
	defer s.Close()
	pre := "SET @@STRICT_EQUAL TO TRUE;"
	if sc.How == "flag" {
		s.Tx.Flags.SetStrictEqual(true)
		pre = "/* --strict-equal */"
	} else if r := s.Exec(pre); r.Err != nil {
		return o, fw.V("setup_error", "%s: %v", pre, r.Err)
	}
	if c.Source == "view" {
		if r := s.Exec(c.setupSQL()); r.Err != nil {
			return o, fw.V("setup_error", "%s: %v", c.setupSQL(), r.Err)
		}
	}
	sql := c.baseSQL() + c.orderBy() + c.cutSQL()
	tbl, qerr := s.Query(sql)
	sql = pre + " " + sql

	// counts the cut may keep (PERCENT: floor / ceiling), before any WITH TIES extension
	noTies := c
	noTies.Cut.WithTies = false
	wins, dontCare := (&refModel{c: noTies, n: n}).windows()
	zeroCount := cut.HasLimit && ((cut.Percent && cut.P100 <= 0) || (!cut.Percent && cut.N <= 0))
	if qerr != nil {
		if strings.Contains(qerr.Error(), "context deadline exceeded") {
			fw.AddExtra("lock_wait_timeout_discarded", 1)
			o.Discard = true
			return o, nil
		}
		if run.ErrClass(qerr) == "fatal" {
			if cut.WithTies && zeroCount {
				return o, fw.V("limit_zero_with_ties_fatal", "%s on %d rows: %v", sql, n, qerr)
			}
			return o, fw.V("strict_fatal_error", "%s on %d rows: %v", sql, n, qerr)
		}
		if dontCare {
			addClass("dontcare_negative:error")
			return o, nil
		}
		return o, fw.V("strict_unexpected_error", "%s: %v", sql, qerr)
	}
	out, v := c.decode(tbl)
	if v != nil {
		return o, v
	}

	// --- every returned row is an input row, none twice -----------------
	returned := map[int64]bool{}
	for p, r := range out {
		i, ok := m.rowOf[r.id]
		if !ok {
			return o, fw.V("strict_not_permutation", "%s: output row %d has id %d which is not in the table", sql, p, r.id)
		}
		if returned[r.id] {
			return o, fw.V("strict_not_permutation", "%s: id %d returned twice", sql, r.id)
		}
		returned[r.id] = true
		if !c.IDOnly {
			for j, cell := range r.cells {
				if !sameVal(cell, c.Rows[i][j]) {
					return o, fw.V("strict_not_permutation", "%s: row id %d column %s is %s, the table has %s", sql, r.id, colName(j), cell, c.Rows[i][j])
				}
			}
		}
	}
	// --- no row is returned before a row that must sort before it ----------
	idx := make([]int, len(out))
	for p, r := range out {
		idx[p] = m.rowOf[r.id]
	}
	for p := 0; p < len(idx); p++ {
		for q := p + 1; q < len(idx); q++ {
			if m.rowRel(idx[p], idx[q]) == srGreater {
				return o, fw.V("strict_sort_order", "%s: row id %d (position %d) is returned before row id %d (position %d) but must sort after it: at the first key in which the two rows are not strictly equal the comparison ladder orders them\n%s",
					sql, out[p].id, p, out[q].id, q, describe(c, out))
			}
		}
	}
	if dontCare {
		addClass("dontcare_negative:result")
		return o, nil
	}

	// --- the cut ------------------------------------------------------------
	ties := cut.WithTies && cut.HasLimit && c.TieBreak == ""
	lo := 0
	if len(wins) > 0 {
		lo = wins[0][0]
	}
	var countWhy string
	okCount, extended := false, false
	for _, w := range wins {
		base := w[1] - w[0]
		if !ties {
			if len(out) == base {
				okCount = true
			}
			continue
		}
		if len(out) < base || (base == 0 && len(out) > 0) {
			continue
		}
		good := true
		for p := base; p < len(out); p++ {
			if !m.mayTie(idx[base-1], idx[p]) {
				good = false
				countWhy = fmt.Sprintf("row id %d at position %d is beyond the %d rows of the limit but does not have the sort keys of the last of them (id %d)", out[p].id, p, base, out[base-1].id)
				break
			}
		}
		if good {
			okCount = true
			extended = len(out) > base
			break
		}
	}
	if !okCount {
		sig := "strict_cut_count"
		if ties && countWhy != "" {
			sig = "strict_with_ties_extends_over_unequal"
		} else if ties {
			sig = "strict_with_ties_count"
		}
		return o, fw.V(sig, "%s on %d rows: %d rows returned, expected %s%s\n%s", sql, n, len(out), winText(wins), map[bool]string{true: " plus the rows tied with the last one", false: ""}[ties], describe(c, out)+"\n"+countWhy)
	}
	// rows outside the window: before[x] - some returned row must sort after x; after[x] - some returned row must sort before x
	nBefore, nAfter := 0, 0
	for i := 0; i < n; i++ {
		if returned[c.IDs[i]] {
			continue
		}
		before, after := false, false
		for _, r := range idx {
			switch m.rowRel(i, r) {
			case srLess:
				before = true
			case srGreater:
				after = true
			}
		}
		if before && after {
			return o, fw.V("strict_cut_rows", "%s on %d rows: row id %d is not returned although it must sort between two returned rows\n%s", sql, n, c.IDs[i], describe(c, out))
		}
		if before {
			nBefore++
		}
		if after {
			nAfter++
		}
	}
	if len(out) > 0 && (nBefore > lo || nAfter > n-lo-len(out)) {
		return o, fw.V("strict_cut_rows", "%s on %d rows: %d rows are returned; of the others %d must sort before a returned row (the offset drops %d) and %d must sort after one (%d remain behind the window)\n%s",
			sql, n, len(out), nBefore, lo, nAfter, n-lo-len(out), describe(c, out))
	}
	if ties && len(out) > 0 && lo == 0 {
		last := idx[len(out)-1]
		for i := 0; i < n; i++ {
			if !returned[c.IDs[i]] && m.rowRel(i, last) == srIdent {
				return o, fw.V("strict_with_ties_misses_equal_row", "%s on %d rows: row id %d has strictly the same sort keys as the last returned row (id %d) but is not returned\n%s", sql, n, c.IDs[i], c.IDs[last], describe(c, out))
			}
		}
	}

	// --- classes and non-triviality ---------------------------------------------
	addClass("how:" + sc.How)
	addClass("source:" + c.Source)
	if n >= 160 {
		addClass("rows:large")
	}
	addClass(fmt.Sprintf("keys:%d", len(c.Keys)))
	var keyFp []string
	for _, k := range c.Keys {
		keyFp = append(keyFp, c.Kinds[k.Col][:1]+k.Dir+k.Nulls)
		addClass("key_kind:" + c.Kinds[k.Col])
	}
	if m.hasDiff {
		addClass("ladder_equal_not_strictly_equal(case,int/float,datetime/string)")
	}
	if m.hasOpen {
		addClass("differ_in_blanks_only")
	}
	if m.hasIdentDup {
		addClass("strictly_equal_duplicates")
	}
	if c.TieBreak != "" {
		addClass("tiebreak_id")
	}
	kind := "none"
	if cut.Form != "none" {
		kind = cutKind(cut)
		addClass("cut:" + kind)
		if extended {
			addClass("with_ties_extends")
			kind += "+ext"
		}
		if len(out) > 0 && len(out) < n {
			addClass("cut_removes_and_keeps")
		}
	}
	if n >= 2 && (m.hasDiff || m.hasOpen) && (cut.Form == "none" || (len(out) > 0 && len(out) < n)) {
		o.Fingerprint = fmt.Sprintf("strict|%s|%s|tb:%s|diff=%v|open=%v|dup=%v|%s|%s|large=%v", sc.How, strings.Join(keyFp, ","), c.TieBreak, m.hasDiff, m.hasOpen, m.hasIdentDup, kind, c.Source, n >= 160)
	}
	return o, nil
}

func TestC07StrictEqual(t *testing.T) {
	fw.Run(t, fw.Spec[strictCase]{
		ID: "C07", Name: "strict_equal", Quick: 6000, Thorough: 80000,
		Gen: genStrictCase, Check: checkStrict,
		Rule: "a session with @@STRICT_EQUAL (SET statement or the start-up flag of --strict-equal); tables of 2-12 rows (6%: 160-330 rows, CPU 4) from a CSV file or a typed temporary table; key columns of text drawn as letter-case / blank-padding variants of 1-3 words, typed integers and floats incl. 2 and 2.0 (temporary tables only), dates in one zero-padded notation as strings or typed datetimes; NULLs, duplicates; ORDER BY and LIMIT/OFFSET/PERCENT/WITH TIES as in 'sort' and 'cut'. Oracle: three-valued reference (strictly equal / ordered by the comparison ladder / ladder-equal but not strictly equal = no constraint): output is a duplicate-free subset cell for cell; no returned row precedes a row that must sort before it at the first key where the two are not strictly equal; the number of rows is the reference count (PERCENT of the pre-offset count), WITH TIES may only add rows that can equal the last counted row and (without offset) leaves no strictly equal row behind; the rows not returned split into at most m that must sort before a returned row and at most n-m-kept after. Non-trivial = some key column holds two values that are ladder-equal but not identical (strict mode decides) and a cut, when present, removes and keeps rows; distinct by (how set, key kinds/directions/null positions, tiebreak, relations present, cut kind, source, size class)",
		Assumptions: []string{assumeNeg, assumePct,
			"the manual only says that equality becomes strict: which of two values that are equal under the ordinary comparison but not strictly equal comes first is not asserted, and whether values that differ only in surrounding blanks are strictly equal is left open",
			"file cells are strings: number-like strings are not generated here (csvq compares them as text under strict equality, the manual does not say so); date strings use one zero-padded notation in which text order and chronological order agree, the unique ids have four digits each for the same reason; boolean-like text is excluded (known finding)"},
	})
}
