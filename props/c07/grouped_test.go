package c07

import (
	"encoding/json"
	"fmt"
	"os"
	"strconv"
	"strings"
	"testing"
	"time"

	"pgregory.net/rapid"

	"verif/internal/fw"
	"verif/internal/ref"
	"verif/internal/run"
	"verif/internal/val"
)

// ---------------------------------------------------------------------
// grouped: ORDER BY / LIMIT / OFFSET over the groups of a GROUP BY query, with
// aggregate functions as sort keys ("top n groups"), and ORDER BY inside
// LISTAGG / JSON_AGG ... WITHIN GROUP (ORDER BY ...), which sorts the rows of
// every group with the same View.OrderBy.
//
// Table: id (unique), g (group number), w (small integer or NULL), k1..kn (key
// columns as in 'sort'). The group key and the summed column are plain small
// integers so that which rows form a group and what the aggregates are is not
// in question (that belongs to the GROUP BY / aggregate property); the
// reference computes COUNT(*), COUNT(k), SUM(w), MIN(id), MAX(id) per group,
// sorts the groups by them with the 'sort' / 'cut' reference, and sorts the
// rows of each group by the WITHIN GROUP keys.

type gKey struct {
	Agg      string `json:"agg"`           // g | count_all | count_k | sum_w | min_id | max_id
	Col      int    `json:"col,omitempty"` // count_k: key column
	Dir      string `json:"dir,omitempty"`
	Nulls    string `json:"nulls,omitempty"`
	ViaAlias bool   `json:"via_alias,omitempty"` // select-list item "agg AS a<i>", ORDER BY a<i>
}

type groupCase struct {
	Source    string      `json:"source"`
	Kinds     []string    `json:"kinds"`
	IDs       []int64     `json:"ids"`
	G         []int64     `json:"g"`
	W         []val.Val   `json:"w"`
	Rows      [][]val.Val `json:"rows"`
	CPU       int         `json:"cpu"`
	Whole     bool        `json:"whole,omitempty"` // no GROUP BY: the list function runs over the whole table
	GKeys     []gKey      `json:"gkeys,omitempty"`
	Cut       cutSpec     `json:"cut"`
	List      string      `json:"list,omitempty"` // "" | listagg | json_agg
	LKeys     []keyItem   `json:"lkeys,omitempty"`
	LTieBreak string      `json:"ltie_break,omitempty"`
}

func (c groupCase) tableRef() string {
	if c.Source == "csv" {
		return "`t.csv`"
	}
	return "t"
}

func (c groupCase) csvText() string {
	var b strings.Builder
	b.WriteString("id,g,w")
	for j := range c.Kinds {
		b.WriteString("," + colName(j))
	}
	b.WriteString("\n")
	for i, row := range c.Rows {
		fmt.Fprintf(&b, "%d,%d,", c.IDs[i], c.G[i])
		if !c.W[i].IsNull() {
			b.WriteString(c.W[i].S)
		}
		for _, v := range row {
			b.WriteString(",")
			if !v.IsNull() {
				b.WriteString(csvQuote(v.S))
			}
		}
		b.WriteString("\n")
	}
	return b.String()
}

func (c groupCase) setupSQL() string {
	var b strings.Builder
	b.WriteString("DECLARE t VIEW (id, g, w")
	for j := range c.Kinds {
		b.WriteString(", " + colName(j))
	}
	b.WriteString("); INSERT INTO t VALUES ")
	for i, row := range c.Rows {
		if i > 0 {
			b.WriteString(", ")
		}
		fmt.Fprintf(&b, "(%d, %d, %s", c.IDs[i], c.G[i], c.W[i].SQL())
		for _, v := range row {
			b.WriteString(", " + v.SQL())
		}
		b.WriteString(")")
	}
	b.WriteString(";")
	return b.String()
}

func (k gKey) sql() string {
	switch k.Agg {
	case "count_all":
		return "COUNT(*)"
	case "count_k":
		return "COUNT(" + colName(k.Col) + ")"
	case "sum_w":
		return "SUM(w)"
	case "min_id":
		return "MIN(id)"
	case "max_id":
		return "MAX(id)"
	}
	return "g"
}

func (c groupCase) listSQL() string {
	if c.List == "" {
		return ""
	}
	tmp := sortCase{Keys: c.LKeys, TieBreak: c.LTieBreak}
	within := ""
	if ob := tmp.orderBy(); ob != "" {
		within = " WITHIN GROUP (" + strings.TrimSpace(ob) + ")"
	}
	if c.List == "json_agg" {
		return "JSON_AGG(id)" + within + " AS l"
	}
	return "LISTAGG(id, ',')" + within + " AS l"
}

func (c groupCase) sql() string {
	var cols []string
	if !c.Whole {
		cols = append(cols, "g")
	}
	if l := c.listSQL(); l != "" {
		cols = append(cols, l)
	}
	var items []string
	for i, k := range c.GKeys {
		s := k.sql()
		if k.ViaAlias {
			cols = append(cols, fmt.Sprintf("%s AS a%d", s, i))
			s = fmt.Sprintf("a%d", i)
		}
		if k.Dir != "" {
			s += " " + k.Dir
		}
		if k.Nulls != "" {
			s += " NULLS " + k.Nulls
		}
		items = append(items, s)
	}
	q := "SELECT " + strings.Join(cols, ", ") + " FROM " + c.tableRef()
	if !c.Whole {
		q += " GROUP BY g"
	}
	if len(items) > 0 {
		q += " ORDER BY " + strings.Join(items, ", ")
	}
	tmp := sortCase{Cut: c.Cut}
	if tmp.Cut.Form == "" {
		tmp.Cut.Form = "none"
	}
	return q + tmp.cutSQL()
}

// groups: group numbers in order of first appearance and the row indices of each.
func (c groupCase) groups() ([]int64, map[int64][]int) {
	var order []int64
	rows := map[int64][]int{}
	for i, g := range c.G {
		if c.Whole {
			g = 0
		}
		if _, ok := rows[g]; !ok {
			order = append(order, g)
		}
		rows[g] = append(rows[g], i)
	}
	return order, rows
}

// groupLevel: the flat case "one row per group, aggregates as key columns".
func (c groupCase) groupLevel() sortCase {
	order, rows := c.groups()
	sc := sortCase{Source: c.Source, IDs: order, Cut: c.Cut}
	if sc.Cut.Form == "" {
		sc.Cut.Form = "none"
	}
	for i, k := range c.GKeys {
		sc.Kinds = append(sc.Kinds, "num")
		sc.Keys = append(sc.Keys, keyItem{Col: i, Dir: k.Dir, Nulls: k.Nulls})
	}
	for _, g := range order {
		row := make([]val.Val, len(c.GKeys))
		for i, k := range c.GKeys {
			switch k.Agg {
			case "g":
				row[i] = val.Int(g)
			case "count_all":
				row[i] = val.Int(int64(len(rows[g])))
			case "count_k":
				n := int64(0)
				for _, r := range rows[g] {
					if !c.Rows[r][k.Col].IsNull() {
						n++
					}
				}
				row[i] = val.Int(n)
			case "sum_w":
				sum, any := int64(0), false
				for _, r := range rows[g] {
					if !c.W[r].IsNull() {
						sum += c.W[r].AsInt()
						any = true
					}
				}
				row[i] = val.Null
				if any {
					row[i] = val.Int(sum)
				}
			case "min_id", "max_id":
				best := c.IDs[rows[g][0]]
				for _, r := range rows[g] {
					if (k.Agg == "min_id") == (c.IDs[r] < best) && c.IDs[r] != best {
						best = c.IDs[r]
					}
				}
				row[i] = val.Int(best)
			}
		}
		sc.Rows = append(sc.Rows, row)
	}
	return sc
}

// ---- generator -------------------------------------------------------------------------

func genGroupCase(t *rapid.T) groupCase {
	sc := sortCase{}
	genTable(t, &sc)
	c := groupCase{Source: sc.Source, Kinds: sc.Kinds, IDs: sc.IDs, Rows: sc.Rows, CPU: sc.CPU}
	n := len(c.Rows)
	if n == 0 {
		// at least one row: an aggregate over an empty table is another property's business
		c.IDs = []int64{1}
		row := make([]val.Val, len(c.Kinds))
		for j := range row {
			row[j] = val.Null
		}
		c.Rows = [][]val.Val{row}
		n = 1
	}
	c.Whole = rare(t, "whole", 12)
	ng := rapid.IntRange(1, 6).Draw(t, "ngroups")
	many := n >= 160 && chance(t, "manyGroups", 40)
	if many {
		ng = rapid.IntRange(160, n).Draw(t, "ngroupsMany") // more groups than one goroutine takes
	}
	wNull := fw.Pick(t, "wNullPct", []int{0, 20, 50, 50})
	for i := 0; i < n; i++ {
		if many && i < ng {
			c.G = append(c.G, int64(i+1)) // every group number occurs
		} else {
			c.G = append(c.G, int64(rapid.IntRange(1, ng).Draw(t, "g")))
		}
		if rare(t, "wIsNull", wNull) {
			c.W = append(c.W, val.Null)
		} else {
			c.W = append(c.W, val.Int(int64(rapid.IntRange(-2, 3).Draw(t, "w"))))
		}
	}
	if !c.Whole {
		aggs := []string{"g", "min_id", "max_id", "count_k", "sum_w", "sum_w", "count_all", "count_all"}
		nk := []int{3, 2, 1, 0}[weighted(t, "nGKeys", []int{15, 35, 42, 8})]
		used := map[string]bool{}
		for i := 0; i < nk; i++ {
			k := gKey{Agg: pickW(t, "agg", aggs)}
			if k.Agg == "count_k" {
				k.Col = rapid.IntRange(0, len(c.Kinds)-1).Draw(t, "countCol")
			}
			name := k.sql()
			if used[name] {
				continue
			}
			used[name] = true
			k.Dir = fw.Pick(t, "gdir", []string{"", "ASC", "DESC", "DESC"})
			k.Nulls = fw.Pick(t, "gnulls", []string{"", "", "FIRST", "LAST"})
			k.ViaAlias = chance(t, "gAlias", 30)
			c.GKeys = append(c.GKeys, k)
		}
		c.Cut = cutSpec{Form: "none"}
		if len(c.GKeys) > 0 && chance(t, "cut", 60) {
			order, _ := c.groups()
			tmp := sortCase{Keys: make([]keyItem, 1), Rows: make([][]val.Val, len(order))}
			genCut(t, &tmp)
			c.Cut = tmp.Cut
		}
	} else {
		c.Cut = cutSpec{Form: "none"}
	}
	wList := 65
	if c.Whole {
		wList = 100
	}
	if c.Whole || chance(t, "list", wList) {
		c.List = pickW(t, "listFn", []string{"json_agg", "listagg", "listagg"})
		if chance(t, "withinGroup", 90) {
			tmp := sortCase{Kinds: c.Kinds}
			genKeys(t, &tmp, 50)
			c.LKeys, c.LTieBreak = tmp.Keys, tmp.TieBreak
		}
	}
	return c
}

// ---- check -----------------------------------------------------------------------------------

func parseIDList(kind string, cell val.Val) ([]int64, bool) {
	if cell.IsNull() {
		return nil, true
	}
	if cell.K != "S" {
		return nil, false
	}
	var ids []int64
	if kind == "json_agg" {
		var raw []interface{}
		dec := json.NewDecoder(strings.NewReader(cell.S))
		dec.UseNumber()
		if err := dec.Decode(&raw); err != nil {
			return nil, false
		}
		for _, x := range raw {
			var s string
			switch v := x.(type) {
			case json.Number:
				s = v.String()
			case string:
				s = v
			default:
				return nil, false
			}
			i, err := strconv.ParseInt(strings.TrimSpace(s), 10, 64)
			if err != nil {
				return nil, false
			}
			ids = append(ids, i)
		}
		return ids, true
	}
	for _, s := range strings.Split(cell.S, ",") {
		i, err := strconv.ParseInt(strings.TrimSpace(s), 10, 64)
		if err != nil {
			return nil, false
		}
		ids = append(ids, i)
	}
	return ids, true
}

func checkGroup(c groupCase) (fw.Outcome, *fw.Violation) {
	o := fw.Outcome{}
	addClass := func(s string) { o.Classes = append(o.Classes, s) }
	gl := c.groupLevel()
	gm := buildRef(gl)
	order, grows := c.groups()
	ordered := len(c.GKeys) > 0
	if gm.bad || (gl.Cut.Form != "none" && !ordered) {
		o.Discard = true
		return o, nil
	}
	// within-group references
	type grpRef struct {
		sc sortCase
		m  *refModel
	}
	lrefs := map[int64]grpRef{}
	if c.List != "" {
		for _, g := range order {
			sc := sortCase{Kinds: c.Kinds, Keys: c.LKeys, TieBreak: c.LTieBreak, Cut: cutSpec{Form: "none"}}
			for _, r := range grows[g] {
				sc.IDs = append(sc.IDs, c.IDs[r])
				sc.Rows = append(sc.Rows, c.Rows[r])
			}
			m := buildRef(sc)
			if m.bad {
				o.Discard = true
				return o, nil
			}
			lrefs[g] = grpRef{sc, m}
		}
	}

	dir, err := os.MkdirTemp(fw.WorkDir(), "c07g-")
	if err != nil {
		panic(err)
	}
	defer os.RemoveAll(dir)
	if c.Source == "csv" {
		if err := run.WriteFiles(dir, map[string]string{"t.csv": c.csvText()}); err != nil {
			panic(err)
		}
	}
	cpu := c.CPU
	if cpu < 1 {
		cpu = 1
	}
	s, err := run.NewSess(run.Opt{Dir: dir, CPU: cpu, WaitTimeout: 10 * time.Minute})
	if err != nil {
		panic(err)
	}
	defer s.Close()
	if c.Source == "view" {
		if r := s.Exec(c.setupSQL()); r.Err != nil {
			return o, fw.V("setup_error", "%v", r.Err)
		}
	}
	sql := c.sql()
	tbl, qerr := s.Query(sql)
	_, dontCare := gm.windows()
	if qerr != nil {
		if strings.Contains(qerr.Error(), "context deadline exceeded") {
			fw.AddExtra("lock_wait_timeout_discarded", 1)
			o.Discard = true
			return o, nil
		}
		if run.ErrClass(qerr) == "fatal" {
			return o, fw.V("grouped_fatal_error", "%s: %v", sql, qerr)
		}
		if dontCare {
			addClass("dontcare_negative:error")
			return o, nil
		}
		return o, fw.V("grouped_unexpected_error", "%s: %v", sql, qerr)
	}

	// decode: [g] [l] [aliases...]
	nAlias := 0
	for _, k := range c.GKeys {
		if k.ViaAlias {
			nAlias++
		}
	}
	want := nAlias
	if !c.Whole {
		want++
	}
	if c.List != "" {
		want++
	}
	var outs []nestOut
	var lists []val.Val
	for _, r := range tbl.Rows {
		if len(r) != want {
			return o, fw.V("grouped_result_shape", "%s: row has %d cells, expected %d", sql, len(r), want)
		}
		p := 0
		no := nestOut{}
		if !c.Whole {
			g, ok := ref.AsInteger(r[0])
			if !ok {
				return o, fw.V("grouped_result_shape", "%s: group cell %s", sql, r[0])
			}
			no.id = g
			p = 1
		}
		outs = append(outs, no)
		if c.List != "" {
			lists = append(lists, r[p])
		}
	}

	// --- the groups: sorted and cut like rows --------------------------------------
	why, dc := matchNest(gl, gm, outs, ordered)
	if dc {
		addClass("dontcare_negative:result")
		return o, nil
	}
	if why != "" {
		sig := "grouped_rows"
		if gl.Cut.Form == "none" {
			sig = "grouped_sort_order"
		}
		return o, fw.V(sig, "%s\n%s\n%s", sql, why, c.describe(outs))
	}

	// --- the list of every returned group: a permutation of the group's ids in the order of the WITHIN GROUP keys ----
	listOrdered := len(c.LKeys) > 0 || c.LTieBreak != ""
	listNontrivial := false
	for p, cell := range lists {
		lr := lrefs[outs[p].id]
		ids, ok := parseIDList(c.List, cell)
		if !ok {
			return o, fw.V("grouped_list_shape", "%s: group %d: list cell %s is not a list of ids", sql, outs[p].id, cell)
		}
		seen := map[int64]bool{}
		for _, id := range ids {
			if _, in := lr.m.rowOf[id]; !in || seen[id] {
				return o, fw.V("grouped_list_not_permutation", "%s: group %d: list %s holds id %d, which is not in the group or is listed twice (the group has ids %v)", sql, outs[p].id, cell, id, lr.sc.IDs)
			}
			seen[id] = true
		}
		if len(ids) != len(lr.sc.IDs) {
			return o, fw.V("grouped_list_not_permutation", "%s: group %d: list %s has %d ids, the group has %d (%v)", sql, outs[p].id, cell, len(ids), len(lr.sc.IDs), lr.sc.IDs)
		}
		if listOrdered {
			for q := 1; q < len(ids); q++ {
				if lr.m.groupOf[ids[q-1]] > lr.m.groupOf[ids[q]] {
					return o, fw.V("grouped_list_order", "%s: group %d: list %s has id %d before id %d, which must sort before it\n%s", sql, outs[p].id, cell, ids[q-1], ids[q], c.describe(outs))
				}
			}
			if len(ids) >= 2 && lr.m.groupAt[len(ids)-1] > 0 {
				listNontrivial = true
			}
		}
	}

	// --- classes -------------------------------------------------------------------------------
	addClass("source:" + c.Source)
	addClass(fmt.Sprintf("group_keys:%d", len(c.GKeys)))
	ng := len(order)
	switch {
	case c.Whole:
		addClass("no_group_by")
	case ng >= 160:
		addClass("groups:160+")
	case ng >= 2:
		addClass("groups:2-6")
	default:
		addClass("groups:1")
	}
	var gfp []string
	aggKey := false
	for _, k := range c.GKeys {
		addClass("group_key:" + k.Agg)
		f := k.Agg + k.Dir + k.Nulls
		if k.ViaAlias {
			f += "@"
			addClass("group_key_via_alias")
		}
		gfp = append(gfp, f)
		if k.Agg != "g" {
			aggKey = true
		}
	}
	hasNullKey, tiedGroups := false, false
	for _, row := range gl.Rows {
		for _, v := range row {
			if v.IsNull() {
				hasNullKey = true
			}
		}
	}
	if ordered && ng >= 2 && gm.groupAt[ng-1] < ng-1 {
		tiedGroups = true
		addClass("groups_tied_on_all_keys")
	}
	if hasNullKey {
		addClass("aggregate_key_is_null(SUM over NULLs)")
	}
	kind := "none"
	if gl.Cut.Form != "none" {
		kind = cutKind(gl.Cut)
		addClass("cut:" + kind)
		if len(outs) > 0 && len(outs) < ng {
			addClass("cut_removes_and_keeps")
		}
	}
	lfp := ""
	if c.List != "" {
		addClass("list:" + c.List)
		lfp = c.List
		for _, k := range c.LKeys {
			lfp += "," + c.Kinds[k.Col][:1] + k.Dir + k.Nulls
		}
		lfp += "|tb:" + c.LTieBreak
		if !listOrdered {
			addClass("list_without_order_by")
		}
		if listNontrivial {
			addClass("list_sorted_with_distinct_keys")
		}
	}
	groupNontrivial := ordered && aggKey && ng >= 2 && (gl.Cut.Form == "none" || (len(outs) > 0 && len(outs) < ng))
	if groupNontrivial || listNontrivial {
		o.Fingerprint = fmt.Sprintf("grouped|%s|%s|null=%v|tied=%v|%s|%s|many=%v|list_nt=%v|grp_nt=%v", strings.Join(gfp, ","), kind, hasNullKey, tiedGroups, lfp, c.Source, ng >= 160, listNontrivial, groupNontrivial)
	}
	return o, nil
}

func (c groupCase) describe(outs []nestOut) string {
	if len(c.Rows) > 24 {
		return fmt.Sprintf("(%d table rows, %d result rows; see the replay file)", len(c.Rows), len(outs))
	}
	var b strings.Builder
	b.WriteString("table (id g w | keys): ")
	for i, row := range c.Rows {
		fmt.Fprintf(&b, "[%d %d %s |", c.IDs[i], c.G[i], c.W[i])
		for _, v := range row {
			b.WriteString(" " + v.String())
		}
		b.WriteString("] ")
	}
	b.WriteString("\nreturned groups:")
	for _, r := range outs {
		fmt.Fprintf(&b, " %d", r.id)
	}
	return b.String()
}

func TestC07Grouped(t *testing.T) {
	fw.Run(t, fw.Spec[groupCase]{
		ID: "C07", Name: "grouped", Quick: 5000, Thorough: 80000,
		Gen: genGroupCase, Check: checkGroup,
		Rule: "tables as in 'sort' (>= 1 row) with two more columns: a group number g (1-6 groups; for 40% of the large tables 160-240 groups) and a small integer w with 0-50% NULLs; query SELECT g, [LISTAGG(id, ',') | JSON_AGG(id)] [WITHIN GROUP (ORDER BY keys as in 'sort')] FROM t GROUP BY g ORDER BY 0-3 of {g, COUNT(*), COUNT(k), SUM(w), MIN(id), MAX(id)} with directions and NULLS FIRST/LAST (30% named through a select-list alias), 60% with LIMIT/OFFSET/PERCENT/WITH TIES over the groups; 12% without GROUP BY (one list over the whole table). Oracle: the reference computes the aggregates per group and applies the 'cut' oracle to the groups (one row per group, SUM over NULLs only = NULL key); every returned list must hold exactly the ids of its group, ordered by the WITHIN GROUP keys (tie groups of the reference order never decrease). Non-trivial = >= 2 groups ordered by at least one aggregate with a cut that (if present) removes and keeps groups, or a list over >= 2 rows with >= 2 distinct sort-key tuples; distinct by (group keys/directions/null positions/alias, cut kind, NULL key present, tied groups, list function and its keys, source, size class)",
		Assumptions: []string{assumeDomain, assumeNeg, assumePct,
			"group numbers, ids and the summed column are small integers: which rows form a group and the values of the aggregates are not in question here (C04); their values are not compared, only the order they induce",
			"a list without WITHIN GROUP is only checked to be a permutation of the group's ids"},
	})
}
