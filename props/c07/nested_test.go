package c07

import (
	"fmt"
	"os"
	"sort"
	"strings"
	"testing"
	"time"

	"pgregory.net/rapid"

	"verif/internal/fw"
	"verif/internal/ref"
	"verif/internal/run"
	"verif/internal/val"
)

// ---------------------------------------------------------------------
// nested: the ordered / cut query reads from another ordered / cut query
// (derived table, CTE, operand of UNION ALL), up to two levels below the
// outermost query; any SELECT level may carry DISTINCT and an analytic
// function in its select list. The reference evaluates inside-out.

type analytic struct {
	Fn   string `json:"fn"`   // rank | row_number | count
	Part int    `json:"part"` // PARTITION BY key column, -1: none
	Ord  int    `json:"ord"`  // ORDER BY key column, -1: none
	Desc bool   `json:"desc,omitempty"`
}

type query struct {
	From       string    `json:"from"`            // table | derived | cte | union
	Inner      *query    `json:"inner,omitempty"` // derived / cte: the source query; union: the parenthesised operand
	Other      *query    `json:"other,omitempty"` // union: the other operand
	InnerRight bool      `json:"inner_right,omitempty"`
	SetOp      string    `json:"set_op,omitempty"`      // union: "" = UNION ALL | union | intersect | except (distinct results)
	OtherPlain bool      `json:"other_plain,omitempty"` // the other operand is written without parentheses (it has no ORDER BY / limit clause)
	AsWord     bool      `json:"as_word,omitempty"`
	Cols       []int     `json:"cols,omitempty"` // select list order: 0 = id, j = k<j>
	Distinct   bool      `json:"distinct,omitempty"`
	NoID       bool      `json:"no_id,omitempty"` // outermost SELECT DISTINCT without the id column
	An         *analytic `json:"analytic,omitempty"`
	Keys       []keyItem `json:"keys,omitempty"`
	TieBreak   string    `json:"tie_break,omitempty"`
	Cut        cutSpec   `json:"cut"`
}

type nestCase struct {
	Source string      `json:"source"`
	Kinds  []string    `json:"kinds"`
	IDs    []int64     `json:"ids"`
	Rows   [][]val.Val `json:"rows"`
	CPU    int         `json:"cpu"`
	Q      query       `json:"q"`
}

func (q *query) ordered() bool { return len(q.Keys) > 0 || q.TieBreak != "" }
func (q *query) hasCut() bool  { return q.Cut.Form != "" && q.Cut.Form != "none" }

// ---- reference ---------------------------------------------------------------

// synth builds the flat case "these rows, this ORDER BY, this cut".
func (nc *nestCase) synth(rows []int, q *query) sortCase {
	sc := sortCase{Source: nc.Source, Kinds: nc.Kinds, Keys: q.Keys, TieBreak: q.TieBreak, Cut: q.Cut}
	if sc.Cut.Form == "" {
		sc.Cut.Form = "none"
	}
	sc.IDs = make([]int64, len(rows))
	sc.Rows = make([][]val.Val, len(rows))
	for p, i := range rows {
		sc.IDs[p] = nc.IDs[i]
		sc.Rows[p] = nc.Rows[i]
	}
	return sc
}

type evalState struct {
	bad      bool // outside the modelled domain (discard)
	dontCare bool // a negative limit value somewhere below the outermost level
}

func canon(rows []int) string {
	s := append([]int(nil), rows...)
	sort.Ints(s)
	return fmt.Sprint(s)
}

func dedupe(alts [][]int) [][]int {
	seen := map[string]bool{}
	var out [][]int
	for _, a := range alts {
		k := canon(a)
		if !seen[k] {
			seen[k] = true
			out = append(out, a)
		}
	}
	return out
}

// inputs: the admissible row multisets (table row indices) that q's ORDER BY / cut receive.
func (nc *nestCase) inputs(q *query, st *evalState) [][]int {
	alts := nc.sourceRows(q, st)
	if q.Distinct && !q.NoID {
		// the select list contains the unique id: DISTINCT only merges copies of the same table row
		for i, a := range alts {
			seen := map[int]bool{}
			var d []int
			for _, r := range a {
				if !seen[r] {
					seen[r] = true
					d = append(d, r)
				}
			}
			if len(d) < len(a) && q.An != nil {
				st.bad = true // copies of a row may differ in the analytic column
			}
			alts[i] = d
		}
		alts = dedupe(alts)
	}
	return alts
}

func (nc *nestCase) sourceRows(q *query, st *evalState) [][]int {
	switch q.From {
	case "table":
		all := make([]int, len(nc.Rows))
		for i := range all {
			all[i] = i
		}
		return [][]int{all}
	case "derived", "cte":
		return nc.outputs(q.Inner, st)
	case "union":
		var alts [][]int
		for _, a := range nc.outputs(q.Inner, st) {
			for _, b := range nc.outputs(q.Other, st) {
				if q.SetOp == "" {
					alts = append(alts, append(append([]int(nil), a...), b...))
					continue
				}
				// UNION / INTERSECT / EXCEPT without ALL: the operands select all columns incl. the unique id, so
				// two result rows are equal exactly when they are copies of the same table row
				l, r := a, b
				if q.InnerRight {
					l, r = b, a
				}
				inR := map[int]bool{}
				for _, x := range r {
					inR[x] = true
				}
				seen := map[int]bool{}
				var out []int
				for _, x := range l {
					keep := true
					switch q.SetOp {
					case "intersect":
						keep = inR[x]
					case "except":
						keep = !inR[x]
					}
					if keep && !seen[x] {
						seen[x] = true
						out = append(out, x)
					}
				}
				if q.SetOp == "union" {
					for _, x := range r {
						if !seen[x] {
							seen[x] = true
							out = append(out, x)
						}
					}
				}
				alts = append(alts, out)
			}
		}
		return dedupe(alts)
	}
	st.bad = true
	return nil
}

// outputs: the admissible row multisets a non-outermost query returns. Which
// rows a cut keeps must not depend on the order of tied rows: the cut
// boundaries may only separate rows that differ in the sort keys (or copies of
// the same table row).
func (nc *nestCase) outputs(q *query, st *evalState) [][]int {
	var alts [][]int
	for _, in := range nc.inputs(q, st) {
		if !q.hasCut() {
			alts = append(alts, in)
			continue
		}
		if !q.ordered() {
			st.bad = true
			return nil
		}
		sc := nc.synth(in, q)
		m := buildRef(sc)
		if m.bad {
			st.bad = true
			return nil
		}
		wins, dc := m.windows()
		if dc {
			st.dontCare = true
			return nil
		}
		for _, w := range wins {
			for _, b := range []int{w[0], w[1]} {
				if b > 0 && b < m.n && m.groupAt[b] == m.groupAt[b-1] && sc.IDs[m.order[b]] != sc.IDs[m.order[b-1]] {
					st.bad = true
					return nil
				}
			}
			out := make([]int, 0, w[1]-w[0])
			for p := w[0]; p < w[1]; p++ {
				out = append(out, in[m.order[p]])
			}
			alts = append(alts, out)
		}
	}
	alts = dedupe(alts)
	if len(alts) > 16 {
		st.bad = true
	}
	return alts
}

// ---- SQL -------------------------------------------------------------------------

func colRef(j int) string {
	if j == 0 {
		return "id"
	}
	return colName(j - 1)
}

func (q *query) sql(nc *nestCase) string {
	tmp := sortCase{Keys: q.Keys, TieBreak: q.TieBreak, Cut: q.Cut}
	if tmp.Cut.Form == "" {
		tmp.Cut.Form = "none"
	}
	tail := tmp.orderBy() + tmp.cutSQL()
	if q.From == "union" {
		in := "(" + q.Inner.sql(nc) + ")"
		ot := q.Other.sql(nc)
		if !q.OtherPlain {
			ot = "(" + ot + ")"
		}
		op := map[string]string{"": " UNION ALL ", "union": " UNION ", "intersect": " INTERSECT ", "except": " EXCEPT "}[q.SetOp]
		if q.InnerRight {
			return ot + op + in + tail
		}
		return in + op + ot + tail
	}
	var cols []string
	for _, j := range q.Cols {
		if j == 0 && q.NoID {
			continue
		}
		cols = append(cols, colRef(j))
	}
	if q.An != nil {
		over := ""
		if q.An.Part >= 0 {
			over = "PARTITION BY " + colName(q.An.Part)
		}
		if q.An.Ord >= 0 {
			if over != "" {
				over += " "
			}
			over += "ORDER BY " + colName(q.An.Ord)
			if q.An.Desc {
				over += " DESC"
			}
		}
		fn := map[string]string{"rank": "RANK()", "row_number": "ROW_NUMBER()", "count": "COUNT(" + colName(0) + ")"}[q.An.Fn]
		cols = append(cols, fn+" OVER ("+over+") AS r")
	}
	sel := "SELECT "
	if q.Distinct {
		sel += "DISTINCT "
	}
	sel += strings.Join(cols, ", ") + " FROM "
	as := " "
	if q.AsWord {
		as = " AS "
	}
	switch q.From {
	case "table":
		tr := sortCase{Source: nc.Source}.tableRef()
		return sel + tr + tail
	case "derived":
		return sel + "(" + q.Inner.sql(nc) + ")" + as + "s" + tail
	case "cte":
		return "WITH c AS (" + q.Inner.sql(nc) + ") " + sel + "c" + tail
	}
	return "SELECT 'bad query node'"
}

func (q *query) shape() string {
	s := q.From
	if q.From == "union" && q.SetOp != "" {
		s = q.SetOp
	}
	if q.Distinct {
		s += "+distinct"
	}
	if q.An != nil {
		s += "+" + q.An.Fn
	}
	if q.hasCut() {
		s += "+" + cutKind(q.Cut)
	}
	switch q.From {
	case "derived", "cte":
		s += "(" + q.Inner.shape() + ")"
	case "union":
		a, b := q.Inner.shape(), q.Other.shape()
		if q.InnerRight {
			a, b = b, a
		}
		s += "(" + a + "," + b + ")"
	}
	return s
}

func cutKind(cut cutSpec) string {
	k := ""
	if cut.HasLimit {
		if cut.Percent {
			k = "percent"
		} else {
			k = "count"
		}
		if cut.WithTies {
			k += "_ties"
		}
	}
	if cut.HasOffset && cut.M > 0 {
		if k != "" {
			k += "_"
		}
		k += "offset"
	}
	if k == "" {
		k = "noop"
	}
	return k
}

// ---- generator -------------------------------------------------------------------------

func genAnalytic(t *rapid.T, ncol int) *analytic {
	a := &analytic{Part: -1, Ord: -1}
	switch weighted(t, "anFn", []int{30, 30, 40}) {
	case 0:
		a.Fn = "count"
		a.Part = rapid.IntRange(0, ncol-1).Draw(t, "anPart")
		if chance(t, "anCountOrd", 30) {
			a.Ord = rapid.IntRange(0, ncol-1).Draw(t, "anOrd")
		}
	case 1:
		a.Fn = "row_number"
		a.Ord = rapid.IntRange(0, ncol-1).Draw(t, "anOrd")
		if chance(t, "anPartition", 50) {
			a.Part = rapid.IntRange(0, ncol-1).Draw(t, "anPart")
		}
	default:
		a.Fn = "rank"
		a.Ord = rapid.IntRange(0, ncol-1).Draw(t, "anOrd")
		if chance(t, "anPartition", 30) {
			a.Part = rapid.IntRange(0, ncol-1).Draw(t, "anPart")
		}
	}
	a.Desc = a.Ord >= 0 && chance(t, "anDesc", 35)
	return a
}

// genQuery draws a query of at most depth levels below itself. The reference is
// evaluated while generating so that limit values are drawn around the real
// row counts.
func genQuery(t *rapid.T, nc *nestCase, depth int, outermost bool) *query {
	ncol := len(nc.Kinds)
	q := &query{From: "table", Cut: cutSpec{Form: "none"}}
	if depth > 0 {
		wTable := 20
		if outermost {
			wTable = 25
		}
		switch weighted(t, "from", []int{25, 15, 25, wTable}) {
		case 0:
			q.From = "union"
		case 1:
			q.From = "cte"
		case 2:
			q.From = "derived"
		}
	}
	switch q.From {
	case "derived", "cte":
		q.Inner = genQuery(t, nc, depth-1, false)
		q.AsWord = chance(t, "asWord", 30)
	case "union":
		q.Inner = genQuery(t, nc, depth-1, false)
		q.Other = genQuery(t, nc, 0, false)
		q.InnerRight = chance(t, "innerRight", 40)
		q.SetOp = []string{"except", "intersect", "union", ""}[weighted(t, "setOp", []int{18, 18, 18, 46})]
		q.OtherPlain = !q.Other.ordered() && !q.Other.hasCut() && chance(t, "otherPlain", 60)
		perm := make([]int, ncol+1)
		for i := range perm {
			perm[i] = i
		}
		if chance(t, "permuteUnionCols", 50) {
			for i := ncol; i > 0; i-- {
				k := rapid.IntRange(0, i).Draw(t, "unionColShuffle")
				perm[i], perm[k] = perm[k], perm[i]
			}
		}
		setUnionCols(q, perm)
	}
	if q.From != "union" {
		q.Cols = make([]int, ncol+1)
		for i := range q.Cols {
			q.Cols[i] = i
		}
		if chance(t, "permuteCols", 60) {
			for i := ncol; i > 0; i-- {
				k := rapid.IntRange(0, i).Draw(t, "colShuffle")
				q.Cols[i], q.Cols[k] = q.Cols[k], q.Cols[i]
			}
		}
		q.Distinct = chance(t, "distinct", 30)
		if chance(t, "analytic", 35) {
			q.An = genAnalytic(t, ncol)
		}
		if q.Distinct && q.An != nil && hasUnion(q.Inner) {
			q.An = nil // copies of a row could differ in the analytic column
		}
		if outermost {
			q.NoID = q.Distinct && chance(t, "distinctNoID", 35)
		}
	}
	// rows that reach this level (first admissible alternative)
	st := &evalState{}
	in := nc.inputs(q, st)
	total := 0
	if len(in) > 0 {
		total = len(in[0])
	}
	wantCut := false
	if outermost {
		wantCut = !q.NoID && chance(t, "outerCut", 70)
	} else {
		wantCut = chance(t, "innerCut", 75)
	}
	if wantCut || chance(t, "orderBy", 80) {
		tmp := sortCase{Kinds: nc.Kinds}
		tie := 40
		if wantCut && !outermost {
			tie = 100
		}
		genKeys(t, &tmp, tie)
		q.Keys, q.TieBreak = tmp.Keys, tmp.TieBreak
		if wantCut && !outermost && q.TieBreak == "" {
			q.TieBreak = "ASC"
		}
		if q.NoID {
			q.TieBreak = ""
		}
	}
	if wantCut {
		tmp := sortCase{Kinds: nc.Kinds, Keys: q.Keys, TieBreak: q.TieBreak, Rows: make([][]val.Val, total)}
		genCut(t, &tmp)
		cut := tmp.Cut
		if !outermost {
			// the manual is silent about negative values and about the rounding of a
			// fractional PERCENT row count: keep the inner levels to values whose result is determined
			if cut.M < 0 {
				cut.M = 0
			}
			if cut.N < 0 {
				cut.N = 0
			}
			if cut.P100 < 0 {
				cut.P100 = 0
			}
			cut.P100 -= cut.P100 % 25
		}
		q.Cut = cut
	}
	return q
}

// setUnionCols gives every operand of a union the same select-list order and no extra column.
func setUnionCols(q *query, perm []int) {
	for _, op := range []*query{q.Inner, q.Other} {
		if op.From == "union" {
			setUnionCols(op, perm)
		} else {
			op.Cols = append([]int(nil), perm...)
			op.An = nil
		}
	}
}

func hasUnion(q *query) bool {
	if q == nil {
		return false
	}
	return q.From == "union" || hasUnion(q.Inner) || hasUnion(q.Other)
}

func genNestCase(t *rapid.T) nestCase {
	sc := sortCase{}
	genTable(t, &sc)
	nc := nestCase{Source: sc.Source, Kinds: sc.Kinds, IDs: sc.IDs, Rows: sc.Rows, CPU: sc.CPU}
	depth := 2
	if !chance(t, "deep", 55) {
		depth = 1
	}
	if len(nc.Rows) >= 160 && depth == 2 && !chance(t, "deepLarge", 30) {
		depth = 1
	}
	nc.Q = *genQuery(t, &nc, depth, true)
	return nc
}

// ---- check ----------------------------------------------------------------------------------

type nestOut struct {
	id    int64 // 0 when the select list has no id
	cells []val.Val
	extra val.Val // analytic column
}

func checkNest(nc nestCase) (fw.Outcome, *fw.Violation) {
	o := fw.Outcome{}
	addClass := func(s string) { o.Classes = append(o.Classes, s) }
	q := &nc.Q
	st := &evalState{}
	ins := nc.inputs(q, st)
	if st.bad {
		o.Discard = true
		return o, nil
	}
	if q.hasCut() && !q.ordered() {
		o.Discard = true
		return o, nil
	}
	for _, in := range ins {
		if buildRef(nc.synth(in, q)).bad {
			o.Discard = true
			return o, nil
		}
	}

	dir, err := os.MkdirTemp(fw.WorkDir(), "c07n-")
	if err != nil {
		panic(err)
	}
	defer os.RemoveAll(dir)
	flat := sortCase{Source: nc.Source, Kinds: nc.Kinds, IDs: nc.IDs, Rows: nc.Rows}
	if nc.Source == "csv" {
		if err := run.WriteFiles(dir, map[string]string{"t.csv": flat.csvText()}); err != nil {
			panic(err)
		}
	}
	cpu := nc.CPU
	if cpu < 1 {
		cpu = 1
	}
	s, err := run.NewSess(run.Opt{Dir: dir, CPU: cpu, WaitTimeout: 10 * time.Minute})
	if err != nil {
		panic(err)
	}
	defer s.Close()
	if nc.Source == "view" {
		if r := s.Exec(flat.setupSQL()); r.Err != nil {
			return o, fw.V("setup_error", "%v", r.Err)
		}
	}
	sql := q.sql(&nc)
	tbl, qerr := s.Query(sql)
	if qerr != nil {
		if strings.Contains(qerr.Error(), "context deadline exceeded") {
			fw.AddExtra("lock_wait_timeout_discarded", 1)
			o.Discard = true
			return o, nil
		}
		if run.ErrClass(qerr) == "fatal" {
			return o, fw.V("nested_fatal_error", "%s: %v", sql, qerr)
		}
		if st.dontCare {
			return o, nil
		}
		if len(ins) > 0 {
			if _, dc := buildRef(nc.synth(ins[0], q)).windows(); dc {
				addClass("dontcare_negative:error")
				return o, nil
			}
		}
		return o, fw.V("nested_unexpected_error", "%s: %v", sql, qerr)
	}
	if st.dontCare {
		addClass("dontcare_negative:inner")
		return o, nil
	}

	// decode: cells in select-list order, analytic column last
	ncol := len(nc.Kinds)
	want := 0
	var sel []int
	if q.From == "union" {
		// column order of the left operand
		l := q.Inner
		if q.InnerRight {
			l = q.Other
		}
		for l.From == "union" {
			if l.InnerRight {
				l = l.Other
			} else {
				l = l.Inner
			}
		}
		sel = l.Cols
	} else {
		sel = q.Cols
	}
	for _, j := range sel {
		if !(j == 0 && q.NoID) {
			want++
		}
	}
	if q.An != nil && q.From != "union" {
		want++
	}
	var outs []nestOut
	for _, r := range tbl.Rows {
		if len(r) != want {
			return o, fw.V("nested_result_shape", "%s: row has %d cells, expected %d", sql, len(r), want)
		}
		no := nestOut{cells: make([]val.Val, ncol)}
		p := 0
		for _, j := range sel {
			if j == 0 && q.NoID {
				continue
			}
			if j == 0 {
				id, ok := ref.AsInteger(r[p])
				if !ok {
					return o, fw.V("nested_result_shape", "%s: id cell %s", sql, r[p])
				}
				no.id = id
			} else {
				no.cells[j-1] = r[p]
			}
			p++
		}
		if p < len(r) {
			no.extra = r[p]
		}
		outs = append(outs, no)
	}

	addClass("outer_from:" + q.From)
	if q.From == "union" && q.SetOp != "" {
		addClass("outer_set_operator:" + q.SetOp)
	}
	if q.Distinct {
		addClass("outer_distinct")
	}
	if q.An != nil {
		addClass("outer_analytic:" + q.An.Fn)
	}
	innerCuts, innerOffset, anyDistinct, anyAnalytic, depth := 0, false, q.Distinct, q.An != nil, 0
	var walk func(x *query, d int)
	walk = func(x *query, d int) {
		if x == nil {
			return
		}
		if d > depth {
			depth = d
		}
		if d > 0 {
			if x.hasCut() {
				innerCuts++
				if x.Cut.HasOffset && x.Cut.M > 0 {
					innerOffset = true
				}
			}
			anyDistinct = anyDistinct || x.Distinct
			anyAnalytic = anyAnalytic || x.An != nil
			addClass("inner_from:" + x.From)
			if x.From == "union" && x.SetOp != "" {
				addClass("inner_set_operator:" + x.SetOp)
			}
		}
		walk(x.Inner, d+1)
		walk(x.Other, d+1)
	}
	walk(q, 0)
	addClass(fmt.Sprintf("depth:%d", depth))
	addClass(fmt.Sprintf("inner_cuts:%d", innerCuts))
	if innerOffset && q.Cut.HasLimit && q.Cut.Percent && !(q.Cut.HasOffset && q.Cut.M > 0) {
		addClass("outer_percent_over_inner_offset")
	}
	if anyDistinct && anyAnalytic {
		addClass("distinct_with_analytic")
	}
	if len(nc.Rows) >= 160 {
		addClass("rows:large")
	}
	bigFp := ""
	{
		var allKeys []keyItem
		var collect func(x *query)
		collect = func(x *query) {
			if x != nil {
				allKeys = append(allKeys, x.Keys...)
				collect(x.Inner)
				collect(x.Other)
			}
		}
		collect(q)
		if beyond, sameImage, withFloat, _ := bigIntInfo(nc.Rows, allKeys); beyond {
			addClass("key_integers_beyond_2^53")
			bigFp = "|big"
			if sameImage {
				addClass("key_integers_with_same_float64_image")
				bigFp += "+same_image"
			}
			if withFloat {
				addClass("key_integers_beyond_2^53_next_to_floats")
			}
		}
	}

	if q.NoID {
		addClass("outer_distinct_without_id")
		return nc.checkDistinctNoID(o, sql, ins, outs)
	}

	// try every admissible input multiset
	var firstWhy string
	for _, in := range ins {
		sc := nc.synth(in, q)
		m := buildRef(sc)
		why, dc := matchNest(sc, m, outs, q.ordered())
		if dc {
			addClass("dontcare_negative:result")
			return o, nil
		}
		if why == "" {
			// non-trivial: ordered outermost query over >= 2 rows, some level below cuts its input
			removed := false
			var chk func(x *query)
			chk = func(x *query) {
				if x == nil {
					return
				}
				if x != q && x.hasCut() {
					st2 := &evalState{}
					i2 := nc.inputs(x, st2)
					o2 := nc.outputs(x, st2)
					if len(i2) > 0 && len(o2) > 0 && len(o2[0]) < len(i2[0]) && len(o2[0]) > 0 {
						removed = true
					}
				}
				chk(x.Inner)
				chk(x.Other)
			}
			chk(q)
			if removed {
				addClass("inner_cut_removes_and_keeps")
			}
			if q.hasCut() && len(outs) < len(in) && len(outs) > 0 {
				addClass("outer_cut_removes_and_keeps")
			}
			if q.ordered() && len(in) >= 2 && (removed || ((q.Distinct || q.An != nil) && depth == 0)) {
				bc := ""
				if q.hasCut() {
					bc = cutKind(q.Cut)
					if q.Cut.HasLimit && !q.Cut.Percent {
						bc += ":" + boundaryClass(q.Cut.N, int64(len(in)))
					}
				}
				dirs := ""
				for _, k := range q.Keys {
					dirs += nc.Kinds[k.Col][:1] + k.Dir + k.Nulls + ","
				}
				o.Fingerprint = fmt.Sprintf("nest|%s|%s|tb:%s|%s%s", q.shape(), dirs, q.TieBreak, bc, bigFp)
			}
			return o, nil
		}
		if firstWhy == "" {
			firstWhy = why
		}
	}
	sig := "nested_rows"
	switch {
	case anyDistinct && anyAnalytic:
		sig = "nested_rows_distinct_analytic"
	case innerOffset && q.Cut.HasLimit && q.Cut.Percent:
		sig = "nested_percent_after_inner_offset"
	case !q.hasCut():
		sig = "nested_sort_order"
	}
	return o, fw.V(sig, "%s\n%s\n%s", sql, firstWhy, nc.describe(outs))
}

// matchNest: "" when the output is an admissible result of sorting / cutting the rows of sc.
func matchNest(sc sortCase, m *refModel, outs []nestOut, ordered bool) (why string, dontCare bool) {
	avail := map[int64]int{}
	for _, id := range sc.IDs {
		avail[id]++
	}
	for p, r := range outs {
		i, ok := m.rowOf[r.id]
		if !ok || avail[r.id] == 0 {
			return fmt.Sprintf("output row %d (id %d) is not among the %d rows that reach the outermost query, or is returned too often", p, r.id, len(sc.IDs)), false
		}
		avail[r.id]--
		for j, cell := range r.cells {
			if !sameVal(cell, sc.Rows[i][j]) {
				return fmt.Sprintf("row id %d column %s is %s, the table has %s", r.id, colName(j), cell, sc.Rows[i][j]), false
			}
		}
	}
	if ordered {
		for p := 1; p < len(outs); p++ {
			if m.groupOf[outs[p-1].id] > m.groupOf[outs[p].id] {
				return fmt.Sprintf("row id %d (position %d) is returned before row id %d but must sort after it", outs[p-1].id, p-1, outs[p].id), false
			}
		}
	}
	wins, dc := m.windows()
	if dc {
		return "", true
	}
	for _, w := range wins {
		if w[1]-w[0] != len(outs) {
			continue
		}
		if !ordered {
			return "", false
		}
		ok := true
		for p, r := range outs {
			if m.groupOf[r.id] != m.groupAt[w[0]+p] {
				ok = false
				why = fmt.Sprintf("output position %d holds row id %d, which does not belong at sorted position %d of the %d rows that reach the outermost query (expected e.g. id %d)",
					p, r.id, w[0]+p, len(sc.IDs), sc.IDs[m.order[w[0]+p]])
				break
			}
		}
		if ok {
			return "", false
		}
	}
	if why == "" {
		why = fmt.Sprintf("%d rows returned; %d rows reach the outermost query, expected %s", len(outs), len(sc.IDs), winText(wins))
	}
	return why, false
}

// checkDistinctNoID: outermost SELECT DISTINCT over the key columns only (no
// cut). Which spellings DISTINCT merges is not this property's business: every
// output tuple must be a tuple of the input, no tuple may be returned twice,
// every input tuple must be represented by an output tuple that is equal to
// it under the comparison ladder, and the output must be sorted.
func (nc *nestCase) checkDistinctNoID(o fw.Outcome, sql string, ins [][]int, outs []nestOut) (fw.Outcome, *fw.Violation) {
	q := &nc.Q
	var why string
	for _, in := range ins {
		why = ""
		seen := map[string]bool{}
		for p, r := range outs {
			found := false
			for _, i := range in {
				same := true
				for j, cell := range r.cells {
					if !sameVal(cell, nc.Rows[i][j]) {
						same = false
						break
					}
				}
				if same {
					found = true
					break
				}
			}
			if !found {
				why = fmt.Sprintf("output row %d %v is not a row of the input", p, r.cells)
				break
			}
			k := fmt.Sprint(r.cells, r.extra)
			if seen[k] {
				why = fmt.Sprintf("output row %d %v is returned twice by SELECT DISTINCT", p, r.cells)
				break
			}
			seen[k] = true
		}
		equiv := func(a, b []val.Val) bool {
			for j := range a {
				if a[j].IsNull() != b[j].IsNull() {
					return false
				}
				if a[j].IsNull() {
					continue
				}
				if sameVal(a[j], b[j]) {
					continue
				}
				if rel, open := ref.Compare(a[j], b[j]); open || rel != ref.RelEq {
					return false
				}
			}
			return true
		}
		if why == "" {
			for _, i := range in {
				rep := false
				for _, r := range outs {
					if equiv(nc.Rows[i], r.cells) {
						rep = true
						break
					}
				}
				if !rep {
					why = fmt.Sprintf("input row id %d %v has no equal row in the output", nc.IDs[i], nc.Rows[i])
					break
				}
			}
		}
		if why == "" && len(q.Keys) > 0 {
			for p := 1; p < len(outs) && why == ""; p++ {
				for _, k := range q.Keys {
					r, ok := cmpKey(outs[p-1].cells[k.Col], outs[p].cells[k.Col], k)
					if !ok {
						o.Discard = true
						return o, nil
					}
					if r < 0 {
						break
					}
					if r > 0 {
						why = fmt.Sprintf("output row %d %v is returned before row %d %v but must sort after it", p-1, outs[p-1].cells, p, outs[p].cells)
						break
					}
				}
			}
		}
		if why == "" {
			if len(q.Keys) > 0 && len(outs) >= 2 {
				dirs := ""
				for _, k := range q.Keys {
					dirs += nc.Kinds[k.Col][:1] + k.Dir + k.Nulls + ","
				}
				o.Fingerprint = fmt.Sprintf("nest-distinct|%s|%s|shrunk=%v", q.shape(), dirs, len(outs) < len(in))
			}
			return o, nil
		}
	}
	sig := "nested_distinct_rows"
	if q.An != nil {
		sig = "nested_rows_distinct_analytic"
	}
	return o, fw.V(sig, "%s\n%s\n%s", sql, why, nc.describe(outs))
}

func (nc *nestCase) describe(outs []nestOut) string {
	if len(nc.Rows) > 24 {
		return fmt.Sprintf("(%d table rows, %d returned; see the replay file)", len(nc.Rows), len(outs))
	}
	var b strings.Builder
	b.WriteString("table (id | keys): ")
	for i, row := range nc.Rows {
		fmt.Fprintf(&b, "[%d |", nc.IDs[i])
		for _, v := range row {
			b.WriteString(" " + v.String())
		}
		b.WriteString("] ")
	}
	b.WriteString("\nreturned:")
	for _, r := range outs {
		if nc.Q.NoID {
			fmt.Fprintf(&b, " %v", r.cells)
		} else {
			fmt.Fprintf(&b, " %d", r.id)
		}
	}
	return b.String()
}

func TestC07Nested(t *testing.T) {
	fw.Run(t, fw.Spec[nestCase]{
		ID: "C07", Name: "nested", Quick: 14000, Thorough: 280000,
		Gen: genNestCase, Check: checkNest,
		Rule: "tables as in 'sort'; the outermost query reads from the table, a derived table, a CTE or a UNION ALL / UNION / INTERSECT / EXCEPT whose operands are queries themselves, up to two levels deep; every level may have ORDER BY, LIMIT / PERCENT / WITH TIES / OFFSET (inner levels with a cut always end their key list with the unique id, non-negative values, percentages in steps of 0.25), SELECT levels may permute the select list, use DISTINCT and carry RANK / ROW_NUMBER / COUNT OVER (PARTITION BY / ORDER BY key columns); oracle: inside-out reference - the rows an inner cut keeps are the input of the enclosing level (set operators without ALL: operands select every column incl. the unique id, so rows are equal exactly when they are the same table row), PERCENT counts the level's own pre-offset rows - then the 'cut' oracle on the outermost level (multiset of row ids, tie-group per position); outermost DISTINCT without id: every output tuple is an input tuple, none twice, every input tuple has a ladder-equal output tuple, output sorted; non-trivial = outermost query ordered over >= 2 rows and (a level below removes >=1 and keeps >=1 row, or a flat query with DISTINCT / analytic function), distinct by (query shape, key kinds/directions/null positions, tiebreak, outer cut kind and boundary class)",
		Assumptions: []string{assumeDomain, assumeNeg, assumePct,
			"values of the analytic column are not checked here (C17); which spellings SELECT DISTINCT merges is not asserted (C04)",
			"a level without ORDER BY never has a limit clause; the order in which a derived table hands its rows to the enclosing query is not relied upon"},
	})
}

var _ = rapid.Bool
