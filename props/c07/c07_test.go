package c07

import (
	"fmt"
	"math"
	"os"
	"sort"
	"strconv"
	"strings"
	"testing"
	"time"

	"pgregory.net/rapid"

	"verif/internal/fw"
	"verif/internal/ref"
	"verif/internal/run"
	"verif/internal/val"
)

func TestMain(m *testing.M) { fw.Main(m) }

// ---------------------------------------------------------------------
// Generator switches for shapes that hit defects already reported from this
// check. With a switch set to true the generator steers around that exact
// shape so that the search continues past it; the oracle is NOT changed (a
// replay file or a pinned known-finding case of that shape still fails).

// LIMIT 0 [PERCENT] WITH TIES after ORDER BY on >= 2 rows: Fatal Error
// (signature limit_zero_with_ties_fatal).
const avoidKnownLimitZeroTies = false

// LIMIT p PERCENT with p > 100 and more than 100 remaining rows: keeps 100
// rows (signature limit_percent_over_100).
const avoidKnownPercentOver100 = false

// LIMIT n WITH TIES OFFSET m (m > 0): the tie comparison uses the sort keys
// of the pre-offset positions (signature with_ties_after_offset).
const avoidKnownTiesAfterOffset = false

// A number key column that holds an integer and a float of equal value
// (2 and 2.0): the sort comparator is asymmetric for the pair and WITH TIES
// does not treat them as tied (signatures sort_order_int_float_equal,
// with_ties_int_float_equal).
const avoidKnownIntFloatEqual = false

// A text key column holding boolean-like words ('t', 'false', ...): ORDER BY
// leaves them unordered against other text.
const avoidKnownBoolLikeText = true

// ---------------------------------------------------------------------
// case

type keyItem struct {
	Col   int      `json:"col"`             // index into Kinds / row cells
	Dir   string   `json:"dir,omitempty"`   // "", ASC, DESC
	Nulls string   `json:"nulls,omitempty"` // "", FIRST, LAST
	Expr  *keyExpr `json:"expr,omitempty"`  // the ORDER BY item is an expression over the column (key_expr sub-check)
}

// keyExpr: an ORDER BY item that is not a bare column name. The reference
// computes the value the expression has in every row (derived column) and
// sorts by that.
type keyExpr struct {
	// qualified (t.k1) | plus0 (k1 + 0) | times2 (2 * k1) | neg (k1 * -1) | abs | upper | lower | concat (k1 || '') |
	// datetime (DATETIME(k1)) | coalesce | case_null (NULL replaced by Arg) | rank | dense_rank | row_number
	// (analytic function ordered by the column) | const (Arg) | plain (bare column; only with ViaAlias)
	Op       string   `json:"op"`
	Arg      *val.Val `json:"arg,omitempty"`
	IDir     string   `json:"idir,omitempty"`      // direction inside OVER (ORDER BY ...)
	INulls   string   `json:"inulls,omitempty"`    // null position inside OVER (ORDER BY ...)
	ViaAlias bool     `json:"via_alias,omitempty"` // the expression is a select-list item "expr AS x<i>" and ORDER BY names x<i>
}

type cutSpec struct {
	Form      string `json:"form"` // none | limit | fetch | offset_only
	HasLimit  bool   `json:"has_limit,omitempty"`
	Percent   bool   `json:"percent,omitempty"`
	N         int64  `json:"n,omitempty"`    // LIMIT n
	P100      int64  `json:"p100,omitempty"` // LIMIT p PERCENT, p in hundredths
	WithTies  bool   `json:"with_ties,omitempty"`
	Only      bool   `json:"only,omitempty"`
	RowWord   string `json:"row_word,omitempty"` // "", ROW, ROWS (FETCH needs one)
	First     string `json:"first,omitempty"`    // FIRST | NEXT
	HasOffset bool   `json:"has_offset,omitempty"`
	M         int64  `json:"m,omitempty"`
	OffWord   string `json:"off_word,omitempty"`
	ViaVars   bool   `json:"via_vars,omitempty"` // the counts are variables and the query runs twice with other integer arithmetic in between; the second result is judged
	// how the count values are written (ignored with ViaVars): "" literal | str ('3') | pad (' 3 ') | float (3.0) |
	// expr ((2 + 1)) | subq ((SELECT COUNT(*) FROM t) - d); percent: "" | str | expr
	NForm string `json:"n_form,omitempty"`
	MForm string `json:"m_form,omitempty"`
	PForm string `json:"p_form,omitempty"`
	// the query is a prepared statement with placeholders for the counts, executed first with other counts, then with these; the second result is judged
	ViaPrep bool `json:"via_prep,omitempty"`
}

type sortCase struct {
	Source   string      `json:"source"` // csv | view
	Kinds    []string    `json:"kinds"`  // per key column: num | dt | text
	IDs      []int64     `json:"ids"`    // unique row ids in table order
	Rows     [][]val.Val `json:"rows"`   // key cells per row (without id)
	Keys     []keyItem   `json:"keys"`   // ORDER BY items over key columns
	TieBreak string      `json:"tie_break,omitempty"`
	Cut      cutSpec     `json:"cut"`
	IDOnly   bool        `json:"id_only,omitempty"` // SELECT id only (keys not in the select list)
	Star     bool        `json:"star,omitempty"`
	CPU      int         `json:"cpu"`
	From     string      `json:"from,omitempty"` // "" | alias (FROM t AS a, keys qualified a.k1) | join1 (CROSS JOIN with a one-row derived table)
}

// ---------------------------------------------------------------------
// draws with calibrated probabilities. rapid's integer draws are strongly
// biased towards small values and the bounds (10% of IntRange(0,99) draws are
// 0), so "draw < pct" is not a pct% event. surv[v] is the measured
// P(IntRange(0,99) >= v) in 1/10000; rare() picks its threshold from it.
// Shrinking moves a draw towards 0, i.e. rare() towards false.

var surv = [100]int{10000, 8958, 7920, 7437, 6954, 6717, 6481, 6245, 6007, 5879, 5752, 5625, 5499, 5372, 5245, 5119, 4993, 4915, 4837, 4758,
	4679, 4601, 4524, 4445, 4367, 4288, 4210, 4131, 4053, 3975, 3897, 3819, 3741, 3685, 3629, 3573, 3516, 3460, 3404, 3346,
	3291, 3236, 3179, 3122, 3064, 3009, 2952, 2896, 2840, 2784, 2729, 2672, 2615, 2559, 2503, 2446, 2390, 2334, 2278, 2222,
	2166, 2109, 2054, 1997, 1941, 1894, 1849, 1802, 1756, 1710, 1662, 1615, 1569, 1522, 1475, 1428, 1381, 1334, 1287, 1239,
	1193, 1146, 1099, 1053, 1006, 959, 912, 865, 819, 772, 726, 680, 633, 586, 539, 492, 446, 399, 353, 306}

// rare draws true with probability about pct/100 (pct <= 60 is resolved well).
func rare(t *rapid.T, label string, pct int) bool {
	d := rapid.IntRange(0, 99).Draw(t, label)
	thr := 100
	for v := 1; v < 100; v++ {
		if surv[v] <= pct*100 {
			thr = v
			break
		}
	}
	return d >= thr
}

// chance: like rare for any pct (above 50 the complement is drawn, so shrinking moves towards true).
func chance(t *rapid.T, label string, pct int) bool {
	if pct <= 50 {
		return rare(t, label, pct)
	}
	return !rare(t, label, 100-pct)
}

// weighted picks an index with probability proportional to its weight; the
// last index is what shrinking moves towards.
func weighted(t *rapid.T, label string, weights []int) int {
	total := 0
	for _, w := range weights {
		total += w
	}
	for i := 0; i < len(weights)-1; i++ {
		if total <= 0 {
			break
		}
		if weights[i] > 0 && chance(t, fmt.Sprintf("%s_%d", label, i), weights[i]*100/total) {
			return i
		}
		total -= weights[i]
	}
	return len(weights) - 1
}

func pickW[T any](t *rapid.T, label string, xs []T) T {
	w := make([]int, len(xs))
	for i := range w {
		w[i] = 1
	}
	return xs[weighted(t, label, w)]
}

// ---------------------------------------------------------------------
// value pools

var numInts = []int64{-3, -2, -1, 0, 1, 2, 3, 4, 5, 6, 10, 100, -100, 1000000}
var numFloats = []float64{-2.5, -1, -0.5, 0, 0.1, 0.5, 1, 1.5, 2, 2.5, 3, 4.25, 10, 100, 1e10, -1e10}
var intSpell = []string{"%d", "%d", " %d", "%d ", "+%d", "0%d"}

func genNum(t *rapid.T, source string, allowEqualPair bool, seenInt, seenFloat map[float64]bool) val.Val {
	isInt := rapid.IntRange(0, 1).Draw(t, "numIsInt") == 0
	asStr := source == "csv" || chance(t, "numAsStr", 25)
	if isInt {
		i := fw.Pick(t, "numInt", numInts)
		for !allowEqualPair && seenFloat[float64(i)] {
			i += 1000
		}
		seenInt[float64(i)] = true
		if !asStr {
			return val.Int(i)
		}
		sp := fw.Pick(t, "intSpell", intSpell)
		if i < 0 && (sp == "+%d" || sp == "0%d") {
			sp = "%d"
		}
		return val.Str(fmt.Sprintf(sp, i))
	}
	f := fw.Pick(t, "numFloat", numFloats)
	if !allowEqualPair && seenInt[f] {
		// an integral float equal to an integer already in the pool: move it off the integer
		f += 0.125
	}
	seenFloat[f] = true
	if !asStr {
		return val.Float(f)
	}
	s := strconv.FormatFloat(f, 'f', -1, 64)
	if !strings.Contains(s, ".") {
		s += ".0"
	}
	switch rapid.IntRange(0, 5).Draw(t, "floatSpell") {
	case 0:
		s += "0"
	case 1:
		s = " " + s
	case 2:
		s = strconv.FormatFloat(f, 'e', -1, 64)
	}
	return val.Str(s)
}

var bigBases = []int64{1 << 53, -(1 << 53), 1 << 62, -(1 << 62), math.MaxInt64, -math.MaxInt64}

// genBigPool: 2-6 integers from one or two neighbourhoods of the bases, each
// spelled as an integer or a (padded) integer string, in drawn (unsorted)
// order. Two integers compare exactly, an integer and a float as float64
// (documented ladder). With floats in the column the integers therefore keep
// distinct float64 images: two different integers with one image next to a
// float of that value would make "equal sort keys" intransitive, which is
// outside the property's quantifier (mutually comparable values).
func genBigPool(t *rapid.T, source string, withFloats bool) []val.Val {
	var ints []int64
	nb := rapid.IntRange(1, 2).Draw(t, "bigBases")
	for b := 0; b < nb; b++ {
		base := pickW(t, "bigBase", bigBases)
		nk := rapid.IntRange(2, 3).Draw(t, "bigNeighbours")
		for k := 0; k < nk; k++ {
			d := int64(rapid.IntRange(-2, 2).Draw(t, "bigDelta"))
			x := base + d
			if (d > 0 && x < base) || (d < 0 && x > base) {
				x = base // would leave the 64-bit range
			}
			ok := true
			for _, y := range ints {
				if y == x || (withFloats && float64(y) == float64(x)) {
					ok = false
				}
			}
			if ok {
				ints = append(ints, x)
			}
		}
	}
	var pool []val.Val
	for _, x := range ints {
		asStr := source == "csv" || chance(t, "bigAsStr", 40)
		if withFloats && rare(t, "bigFloatCell", 35) {
			f := float64(x)
			if asStr {
				pool = append(pool, val.Str(strconv.FormatFloat(f, 'f', -1, 64)+".0"))
			} else {
				pool = append(pool, val.Float(f))
			}
			continue
		}
		if !asStr {
			pool = append(pool, val.Int(x))
			continue
		}
		pool = append(pool, val.Str(pickW(t, "bigPadL", []string{"  ", " ", ""})+strconv.FormatInt(x, 10)+pickW(t, "bigPadR", []string{" ", "", ""})))
	}
	return pool
}

// bigIntInfo describes the integers of the key columns: some beyond 2^53, two
// different ones with the same float64 image, floats in such a column.
func bigIntInfo(rows [][]val.Val, keys []keyItem) (beyond, sameImage, withFloat, intransitive bool) {
	for _, k := range keys {
		img := map[float64]int64{}
		colBeyond, colSame, colFloat := false, false, false
		for _, row := range rows {
			v := row[k.Col]
			if v.IsNull() {
				continue
			}
			if i, ok := ref.AsInteger(v); ok {
				if i >= 1<<53 || i <= -(1<<53) {
					colBeyond = true
				}
				if j, seen := img[float64(i)]; seen && j != i {
					colSame = true
				}
				img[float64(i)] = i
			} else if _, ok := ref.AsFloat(v); ok {
				colFloat = true
			}
		}
		beyond = beyond || colBeyond
		sameImage = sameImage || colSame
		withFloat = withFloat || (colFloat && colBeyond)
		intransitive = intransitive || (colSame && colFloat)
	}
	return
}

var dtStrings = []string{
	"2012-02-03", "2012/02/03", "2012-02-03 00:00:00", "2012-02-03T00:00:00Z", "2012-02-03 09:00:00 +09:00",
	"2012-02-03 10:30:00", "2012-02-03T10:30:00", "2012/02/03 10:30:00", "2012-02-03 10:30:00.5", "2012-02-03T08:30:00-02:00",
	"2012-02-04", "2012-02-04 00:00:00", "1999-12-31", "1999-12-31 23:59:59", "2000-01-01", "2024-02-29", "2024-02-29T12:00:00Z",
	"1969-12-31 23:59:59", "1970-01-01",
}

func genDt(t *rapid.T, source string) val.Val {
	s := fw.Pick(t, "dt", dtStrings)
	if source == "view" && chance(t, "dtTyped", 60) {
		tm, ok := ref.AsDatetime(val.Str(s))
		if ok {
			return val.Time(tm.UTC())
		}
	}
	if chance(t, "dtPad", 10) {
		s = " " + s + " "
	}
	return val.Str(s)
}

var textBase = []string{"", " ", "a", "A", "b", "B ", "  c", "abc", "ABC", "Abc ", "abd", "ab", "ab c", "zed", "Zoo", "é", "É", "ü", "日本",
	"a_b", "x-1", "#tag", "k1", "-", "yes", "no", "null", "a:b"}
var boolLike = []string{"t", "T", "f", "true", "False", " TRUE "}

func genText(t *rapid.T, allowBool bool) val.Val {
	wBool := 0
	if allowBool {
		wBool = 15
	}
	switch k := weighted(t, "textKind", []int{wBool, 40, 50}); {
	case k == 2:
		return val.Str(fw.Pick(t, "textBase", textBase))
	case k == 1:
		n := rapid.IntRange(1, 3).Draw(t, "wordLen")
		b := make([]byte, n)
		for i := range b {
			b[i] = "abcdABCD"[rapid.IntRange(0, 7).Draw(t, "letter")]
		}
		w := string(b)
		if chance(t, "wordPad", 15) {
			w = " " + w + "  "
		}
		return val.Str(w)
	default:
		return val.Str(fw.Pick(t, "boolLike", boolLike))
	}
}

// ---------------------------------------------------------------------
// generators

func genTable(t *rapid.T, c *sortCase) {
	c.Source = fw.Pick(t, "source", []string{"csv", "view"})
	large := rare(t, "large", 10) // shrinks towards small tables
	var n int
	if large {
		n = rapid.IntRange(160, 400).Draw(t, "rowsLarge")
		c.CPU = 4
	} else {
		if rare(t, "rowsTiny", 8) {
			n = rapid.IntRange(0, 1).Draw(t, "rowsTinyN")
		} else {
			n = rapid.IntRange(2, 12).Draw(t, "rows")
		}
		c.CPU = fw.Pick(t, "cpu", []int{1, 1, 2})
	}
	ncol := fw.Pick(t, "ncol", []int{1, 1, 2, 2, 3})
	nullPct := fw.Pick(t, "nullPct", []int{0, 15, 15, 40})
	pools := make([][]val.Val, ncol)
	for j := 0; j < ncol; j++ {
		kind := fw.Pick(t, "kind", []string{"num", "num", "dt", "text"})
		c.Kinds = append(c.Kinds, kind)
		maxPool := 5
		if large {
			maxPool = 24
		}
		ps := rapid.IntRange(1, maxPool).Draw(t, "poolSize")
		allowPair := !avoidKnownIntFloatEqual && chance(t, "intFloatPair", 35)
		allowBool := !avoidKnownBoolLikeText && chance(t, "boolLikeText", 20)
		seenI, seenF := map[float64]bool{}, map[float64]bool{}
		if kind == "num" && rare(t, "bigInts", 20) {
			// integers around +-2^53, +-2^62, +-(2^63-1) that differ by 1-2, optionally with floats of that magnitude
			pools[j] = genBigPool(t, c.Source, rare(t, "bigWithFloats", 35))
			continue
		}
		for k := 0; k < ps; k++ {
			switch kind {
			case "num":
				pools[j] = append(pools[j], genNum(t, c.Source, allowPair, seenI, seenF))
			case "dt":
				pools[j] = append(pools[j], genDt(t, c.Source))
			default:
				pools[j] = append(pools[j], genText(t, allowBool))
			}
		}
	}
	ids := make([]int64, n)
	for i := range ids {
		ids[i] = int64(i + 1)
	}
	// Fisher-Yates with drawn indices: ids are not in table order
	for i := n - 1; i > 0; i-- {
		k := rapid.IntRange(0, i).Draw(t, "shuffle")
		ids[i], ids[k] = ids[k], ids[i]
	}
	c.IDs = ids
	c.Rows = make([][]val.Val, n)
	for i := 0; i < n; i++ {
		row := make([]val.Val, ncol)
		for j := 0; j < ncol; j++ {
			if rare(t, "isNull", nullPct) {
				row[j] = val.Null
			} else {
				row[j] = pools[j][rapid.IntRange(0, len(pools[j])-1).Draw(t, "cell")]
			}
		}
		c.Rows[i] = row
	}
	c.IDOnly = chance(t, "idOnly", 15)
	c.Star = !c.IDOnly && chance(t, "star", 20)
}

func genKeys(t *rapid.T, c *sortCase, tiePct int) {
	ncol := len(c.Kinds)
	nk := rapid.IntRange(1, ncol).Draw(t, "nkeys")
	perm := make([]int, ncol)
	for i := range perm {
		perm[i] = i
	}
	for i := ncol - 1; i > 0; i-- {
		k := rapid.IntRange(0, i).Draw(t, "keyShuffle")
		perm[i], perm[k] = perm[k], perm[i]
	}
	for i := 0; i < nk; i++ {
		c.Keys = append(c.Keys, keyItem{
			Col:   perm[i],
			Dir:   fw.Pick(t, "dir", []string{"", "ASC", "DESC", "DESC"}),
			Nulls: fw.Pick(t, "nulls", []string{"", "", "FIRST", "LAST"}),
		})
	}
	if chance(t, "tieBreak", tiePct) {
		c.TieBreak = fw.Pick(t, "tieDir", []string{"ASC", "DESC"})
	}
}

func clamp(x, lo, hi int64) int64 {
	if x < lo {
		return lo
	}
	if x > hi {
		return hi
	}
	return x
}

// boundary value relative to a count k (k >= 0)
func genBoundary(t *rapid.T, label string, k int64, total int64) int64 {
	switch weighted(t, label+"Class", []int{4, 8, 10, 12, 12, 8, 6, 4, 36}) {
	case 0:
		return -int64(rapid.IntRange(1, 3).Draw(t, label+"Neg"))
	case 1:
		return 0
	case 2:
		return 1
	case 3:
		return k - 1
	case 4:
		return k
	case 5:
		return k + 1
	case 6:
		return total + int64(rapid.IntRange(0, 7).Draw(t, label+"Beyond"))
	case 7:
		return 1000
	default:
		if k <= 1 {
			return 1
		}
		return int64(rapid.IntRange(1, int(k-1)).Draw(t, label+"Mid"))
	}
}

func genCut(t *rapid.T, c *sortCase) {
	total := int64(len(c.Rows))
	cut := cutSpec{}
	switch weighted(t, "form", []int{8, 32, 60}) {
	case 0:
		cut.Form = "offset_only"
	case 1:
		cut.Form = "fetch"
	default:
		cut.Form = "limit"
	}
	cut.HasOffset = cut.Form == "offset_only" || chance(t, "hasOffset", 50)
	lo := int64(0)
	if cut.HasOffset {
		cut.M = genBoundary(t, "off", total, total)
		if cut.M < -3 {
			cut.M = -1
		}
		cut.OffWord = fw.Pick(t, "offWord", []string{"", "ROW", "ROWS"})
		lo = clamp(cut.M, 0, total)
	}
	rem := total - lo
	if cut.Form != "offset_only" {
		cut.HasLimit = true
		cut.Percent = chance(t, "percent", 35)
		if cut.Percent {
			switch weighted(t, "pctClass", []int{4, 6, 6, 10, 14, 14, 46}) {
			case 0:
				cut.P100 = -int64(rapid.IntRange(1, 5000).Draw(t, "pctNeg"))
			case 1:
				cut.P100 = 0
			case 2:
				cut.P100 = 10000
			case 3:
				cut.P100 = fw.Pick(t, "pctOver", []int64{15000, 10050, 10001, 100000, 20000})
			case 4:
				cut.P100 = fw.Pick(t, "pctFrac", []int64{1250, 3333, 10, 50, 6667, 9999, 1, 7, 70, 120})
			case 5:
				cut.P100 = fw.Pick(t, "pctRound", []int64{5000, 2500, 7500, 1000, 2000, 100, 9000})
			default:
				// a percentage that lands on or next to a whole number of rows
				if total > 0 {
					k := int64(rapid.IntRange(0, int(total)).Draw(t, "pctRows"))
					cut.P100 = k*10000/total + int64(rapid.IntRange(-1, 1).Draw(t, "pctNudge"))
					if cut.P100 < 0 {
						cut.P100 = 0
					}
				} else {
					cut.P100 = 5000
				}
			}
		} else {
			cut.N = genBoundary(t, "lim", rem, total)
			if cut.N < -3 {
				cut.N = -1
			}
		}
		cut.WithTies = chance(t, "withTies", 40)
		if !cut.WithTies {
			cut.Only = chance(t, "only", 30)
		}
		cut.RowWord = fw.Pick(t, "rowWord", []string{"", "ROW", "ROWS"})
		cut.First = fw.Pick(t, "first", []string{"FIRST", "NEXT"})
		if cut.Form == "fetch" && !cut.Percent && cut.RowWord == "" {
			cut.RowWord = "ROWS"
		}
	}
	ordered := len(c.Keys) > 0 || c.TieBreak != ""
	if avoidKnownLimitZeroTies && cut.WithTies && ordered && ((cut.Percent && cut.P100 <= 0) || (!cut.Percent && cut.N <= 0)) {
		cut.WithTies = false
	}
	if avoidKnownTiesAfterOffset && cut.WithTies && ordered && lo > 0 {
		cut.HasOffset, cut.M, cut.OffWord = false, 0, ""
		rem = total
	}
	if avoidKnownPercentOver100 && cut.Percent && cut.P100 > 10000 && rem > 100 {
		cut.P100 = 10000
	}
	c.Cut = cut
}

func genSortCase(t *rapid.T) sortCase {
	c := sortCase{}
	genTable(t, &c)
	genKeys(t, &c, 30)
	c.Cut = cutSpec{Form: "none"}
	return c
}

func genCutCase(t *rapid.T) sortCase {
	c := sortCase{}
	genTable(t, &c)
	if chance(t, "noOrderBy", 6) {
		// no ORDER BY at all
	} else {
		genKeys(t, &c, 50)
	}
	genCut(t, &c)
	// only the cut sub-check declares the variables (checkCut); the nested and datetime_format sub-checks share genCut
	if c.Cut.Form != "none" && c.Cut.Form != "" {
		switch weighted(t, "countsVia", []int{15, 12, 73}) {
		case 0:
			c.Cut.ViaVars = true
		case 1:
			c.Cut.ViaPrep = true
		}
		if !c.Cut.ViaVars {
			intForms := []string{"subq", "expr", "float", "pad", "str", "", "", "", ""}
			if c.Cut.ViaPrep {
				intForms = []string{"float", "pad", "str", "", ""}
			}
			c.Cut.NForm = pickW(t, "nForm", intForms)
			c.Cut.MForm = pickW(t, "mForm", intForms)
			c.Cut.PForm = pickW(t, "pForm", []string{"expr", "str", "", ""})
			if c.Cut.ViaPrep && c.Cut.PForm == "expr" {
				c.Cut.PForm = ""
			}
		}
	}
	return c
}

// genKeyExprCase: ORDER BY items that are expressions over the key columns.
func genKeyExprCase(t *rapid.T) sortCase {
	c := sortCase{}
	genTable(t, &c)
	genKeys(t, &c, 40)
	c.From = []string{"selfjoin", "join1", "alias", ""}[weighted(t, "from", []int{15, 12, 23, 50})]
	if c.From == "selfjoin" && len(c.Rows) > 40 {
		c.From = "alias" // the join evaluates its condition for every pair of rows
	}
	if c.From == "join1" || c.From == "selfjoin" {
		c.Star = false // the joined table would add columns
	}
	big, _, _, _ := bigIntInfo(c.Rows, c.Keys)
	for i := range c.Keys {
		if !chance(t, "isExpr", 75) {
			continue
		}
		k := &c.Keys[i]
		kind := c.Kinds[k.Col]
		ops := []string{"const", "row_number", "dense_rank", "rank", "case_null", "coalesce", "qualified", "plain"}
		switch kind {
		case "num":
			if !big {
				ops = append(ops, "abs", "neg", "neg", "times2", "plus0")
			}
		case "text":
			ops = append(ops, "concat", "lower", "upper")
		case "dt":
			ops = append(ops, "datetime", "datetime")
		}
		e := &keyExpr{Op: pickW(t, "op", ops)}
		if e.Op == "qualified" && (c.From == "alias" || c.From == "selfjoin") {
			e.Op = "plain" // the table has an alias: the qualifier is the alias anyway
		}
		switch e.Op {
		case "coalesce", "case_null":
			var a val.Val
			switch kind {
			case "num":
				a = genNum(t, "view", true, map[float64]bool{}, map[float64]bool{})
				if big {
					a = val.Int(0)
				}
			case "dt":
				a = genDt(t, "view")
			default:
				a = genText(t, false)
			}
			e.Arg = &a
		case "const":
			a := pickW(t, "constArg", []val.Val{val.Null, val.Str("x"), val.Int(1)})
			e.Arg = &a
		case "rank", "dense_rank", "row_number":
			e.IDir = fw.Pick(t, "idir", []string{"", "ASC", "DESC"})
			e.INulls = fw.Pick(t, "inulls", []string{"", "", "FIRST", "LAST"})
		}
		e.ViaAlias = !c.Star && chance(t, "viaAlias", 30)
		if e.Op == "plain" && !e.ViaAlias && c.From != "alias" && c.From != "selfjoin" {
			k.Expr = nil
			continue
		}
		k.Expr = e
	}
	if chance(t, "cut", 50) {
		genCut(t, &c)
	} else {
		c.Cut = cutSpec{Form: "none"}
	}
	return c
}

// ---------------------------------------------------------------------
// SQL rendering

func colName(j int) string { return fmt.Sprintf("k%d", j+1) }

func pctText(p100 int64) string {
	neg := p100 < 0
	if neg {
		p100 = -p100
	}
	s := fmt.Sprintf("%d", p100/100)
	if r := p100 % 100; r != 0 {
		s += strings.TrimRight(fmt.Sprintf(".%02d", r), "0")
	}
	if neg {
		s = "-" + s
	}
	return s
}

// keyColRef: how an ORDER BY item names its column.
func (c sortCase) keyColRef(k keyItem) string {
	switch {
	case c.From == "alias":
		return "a." + colName(k.Col)
	case c.From == "selfjoin":
		// the table joined with itself on the unique id: odd key columns are read from the second copy
		if k.Col%2 == 1 {
			return "b." + colName(k.Col)
		}
		return "a." + colName(k.Col)
	case k.Expr != nil && k.Expr.Op == "qualified":
		return "t." + colName(k.Col)
	}
	return colName(k.Col)
}

// keyExprSQL: the expression of an ORDER BY item (without direction / null position).
func (c sortCase) keyExprSQL(k keyItem) string {
	col := c.keyColRef(k)
	if k.Expr == nil {
		return col
	}
	arg := "NULL"
	if k.Expr.Arg != nil {
		arg = k.Expr.Arg.SQL()
	}
	over := func(extra string) string {
		o := col
		if k.Expr.IDir != "" {
			o += " " + k.Expr.IDir
		}
		if k.Expr.INulls != "" {
			o += " NULLS " + k.Expr.INulls
		}
		return " OVER (ORDER BY " + o + extra + ")"
	}
	switch k.Expr.Op {
	case "plus0":
		return col + " + 0"
	case "times2":
		return "2 * " + col
	case "neg":
		return col + " * -1"
	case "abs":
		return "ABS(" + col + ")"
	case "upper":
		return "UPPER(" + col + ")"
	case "lower":
		return "LOWER(" + col + ")"
	case "concat":
		return col + " || ''"
	case "datetime":
		return "DATETIME(" + col + ")"
	case "coalesce":
		return "COALESCE(" + col + ", " + arg + ")"
	case "case_null":
		return "CASE WHEN " + col + " IS NULL THEN " + arg + " ELSE " + col + " END"
	case "rank":
		return "RANK()" + over("")
	case "dense_rank":
		return "DENSE_RANK()" + over("")
	case "row_number":
		idc := "id"
		if c.From == "alias" || c.From == "selfjoin" {
			idc = "a.id"
		}
		return "ROW_NUMBER()" + over(", "+idc)
	case "const":
		return arg
	}
	return col
}

func (c sortCase) orderBy() string {
	var items []string
	for i, k := range c.Keys {
		s := c.keyExprSQL(k)
		if k.Expr != nil && k.Expr.ViaAlias {
			s = fmt.Sprintf("x%d", i)
		}
		if k.Dir != "" {
			s += " " + k.Dir
		}
		if k.Nulls != "" {
			s += " NULLS " + k.Nulls
		}
		items = append(items, s)
	}
	if c.TieBreak != "" {
		if c.From == "alias" || c.From == "selfjoin" {
			items = append(items, "a.id "+c.TieBreak)
		} else {
			items = append(items, "id "+c.TieBreak)
		}
	}
	if len(items) == 0 {
		return ""
	}
	return " ORDER BY " + strings.Join(items, ", ")
}

// cutVarsSQL declares the variables a ViaVars cut refers to.
func (c sortCase) cutVarsSQL() string {
	return fmt.Sprintf("VAR @cn := %d; VAR @cm := %d; VAR @cp := %s;", c.Cut.N, c.Cut.M, pctText(c.Cut.P100))
}

// countText writes an integer count in the drawn form.
func (c sortCase) countText(x int64, form string) string {
	switch form {
	case "str":
		return fmt.Sprintf("'%d'", x)
	case "pad":
		return fmt.Sprintf("' %d '", x)
	case "float":
		return fmt.Sprintf("%d.0", x)
	case "expr":
		return fmt.Sprintf("(%d + 1)", x-1)
	case "subq":
		d := int64(len(c.Rows)) - x
		if d < 0 {
			return fmt.Sprintf("((SELECT COUNT(*) FROM %s) + %d)", c.tableRef(), -d)
		}
		return fmt.Sprintf("((SELECT COUNT(*) FROM %s) - %d)", c.tableRef(), d)
	}
	return fmt.Sprintf("%d", x)
}

func (c sortCase) cutSQL() string {
	cut := c.Cut
	nText, mText, pText := c.countText(cut.N, cut.NForm), c.countText(cut.M, cut.MForm), pctText(cut.P100)
	switch cut.PForm {
	case "str":
		pText = "'" + pText + "'"
	case "expr":
		pText = "(" + pText + " * 1)"
	}
	if cut.ViaVars {
		nText, mText, pText = "@cn", "@cm", "@cp"
	} else if cut.ViaPrep {
		nText, mText, pText = ":cn", ":cm", ":cp"
	}
	off := ""
	if cut.HasOffset {
		off = " OFFSET " + mText
		if cut.OffWord != "" {
			off += " " + cut.OffWord
		}
	}
	mode := ""
	if cut.WithTies {
		mode = " WITH TIES"
	} else if cut.Only {
		mode = " ONLY"
	}
	switch cut.Form {
	case "offset_only":
		return off
	case "limit":
		if cut.Percent {
			return " LIMIT " + pText + " PERCENT" + mode + off
		}
		s := " LIMIT " + nText
		if cut.RowWord != "" {
			s += " " + cut.RowWord
		}
		return s + mode + off
	case "fetch":
		if cut.Percent {
			return off + " FETCH " + cut.First + " " + pText + " PERCENT" + mode
		}
		return off + fmt.Sprintf(" FETCH %s %s %s", cut.First, nText, cut.RowWord) + mode
	}
	return ""
}

func (c sortCase) tableRef() string {
	if c.Source == "csv" {
		return "`t.csv`"
	}
	return "t"
}

// aliasItems: select-list items "expr AS x<i>" of the ORDER BY items that are named through an alias.
func (c sortCase) aliasItems() []string {
	var items []string
	for i, k := range c.Keys {
		if k.Expr != nil && k.Expr.ViaAlias {
			items = append(items, fmt.Sprintf("%s AS x%d", c.keyExprSQL(k), i))
		}
	}
	return items
}

func (c sortCase) selectList() string {
	var cols []string
	q := ""
	if c.From == "selfjoin" {
		q = "a."
	}
	switch {
	case c.IDOnly:
		cols = []string{q + "id"}
	case c.Star && q == "":
		cols = []string{"*"}
	default:
		cols = []string{q + "id"}
		for j := range c.Kinds {
			cols = append(cols, q+colName(j))
		}
	}
	return strings.Join(append(cols, c.aliasItems()...), ", ")
}

func (c sortCase) fromSQL() string {
	switch c.From {
	case "alias":
		return c.tableRef() + " AS a"
	case "join1":
		return c.tableRef() + " CROSS JOIN (SELECT 1 AS one) AS j"
	case "selfjoin":
		return c.tableRef() + " AS a JOIN " + c.tableRef() + " AS b ON a.id = b.id"
	}
	return c.tableRef()
}

func (c sortCase) baseSQL() string {
	return "SELECT " + c.selectList() + " FROM " + c.fromSQL()
}

func csvQuote(s string) string {
	return `"` + strings.ReplaceAll(s, `"`, `""`) + `"`
}

func (c sortCase) csvText() string {
	var b strings.Builder
	b.WriteString("id")
	for j := range c.Kinds {
		b.WriteString("," + colName(j))
	}
	b.WriteString("\n")
	for i, row := range c.Rows {
		b.WriteString(strconv.FormatInt(c.IDs[i], 10))
		for _, v := range row {
			b.WriteString(",")
			if !v.IsNull() {
				b.WriteString(csvQuote(v.S))
			}
		}
		b.WriteString("\n")
	}
	return b.String()
}

func (c sortCase) setupSQL() string {
	var b strings.Builder
	b.WriteString("DECLARE t VIEW (id")
	for j := range c.Kinds {
		b.WriteString(", " + colName(j))
	}
	b.WriteString(");")
	if len(c.Rows) > 0 {
		b.WriteString(" INSERT INTO t VALUES ")
		for i, row := range c.Rows {
			if i > 0 {
				b.WriteString(", ")
			}
			b.WriteString("(" + strconv.FormatInt(c.IDs[i], 10))
			for _, v := range row {
				b.WriteString(", " + v.SQL())
			}
			b.WriteString(")")
		}
		b.WriteString(";")
	}
	return b.String()
}

// ---------------------------------------------------------------------
// reference

// cmpKey compares two cells under one ORDER BY item: <0 a first, 0 tied, >0 b
// first; ok=false when the pair has no documented order (outside the domain).
func cmpKey(a, b val.Val, k keyItem) (int, bool) {
	desc := k.Dir == "DESC"
	nullsFirst := !desc // manual: FIRST is the default for ASC, otherwise LAST
	if k.Nulls == "FIRST" {
		nullsFirst = true
	} else if k.Nulls == "LAST" {
		nullsFirst = false
	}
	switch {
	case a.IsNull() && b.IsNull():
		return 0, true
	case a.IsNull():
		if nullsFirst {
			return -1, true
		}
		return 1, true
	case b.IsNull():
		if nullsFirst {
			return 1, true
		}
		return -1, true
	}
	rel, open := ref.Compare(a, b)
	if open {
		return 0, false
	}
	r := 0
	switch rel {
	case ref.RelEq:
		return 0, true
	case ref.RelLt:
		r = -1
	case ref.RelGt:
		r = 1
	default:
		return 0, false
	}
	if desc {
		r = -r
	}
	return r, true
}

// derived: the case the reference sorts - every ORDER BY item that is an
// expression gets a column holding the expression's value per row, and the key
// points at that column. ok=false: some value is outside what the reference computes.
func (c sortCase) derived() (sortCase, bool) {
	has := false
	for _, k := range c.Keys {
		if k.Expr != nil {
			has = true
		}
	}
	if !has {
		return c, true
	}
	rc := c
	rc.Kinds = append([]string(nil), c.Kinds...)
	rc.Keys = append([]keyItem(nil), c.Keys...)
	rc.Rows = make([][]val.Val, len(c.Rows))
	for i, row := range c.Rows {
		rc.Rows[i] = append([]val.Val(nil), row...)
	}
	ok := true
	for ki, k := range c.Keys {
		if k.Expr == nil {
			continue
		}
		e := k.Expr
		kind := c.Kinds[k.Col]
		col := make([]val.Val, len(c.Rows))
		for i, row := range c.Rows {
			col[i] = row[k.Col]
		}
		switch e.Op {
		case "plain", "qualified", "plus0", "times2", "upper", "lower", "concat", "datetime":
			// same order and same ties as the column itself
		case "neg", "abs":
			for i, v := range col {
				if v.IsNull() {
					continue
				}
				if x, isInt := ref.AsInteger(v); isInt {
					if x == math.MinInt64 || x >= 1<<53 || x <= -(1<<53) {
						ok = false
					}
					if x < 0 || e.Op == "neg" {
						x = -x
					}
					col[i] = val.Int(x)
				} else if f, isF := ref.AsFloat(v); isF {
					if f < 0 || e.Op == "neg" {
						f = -f
					}
					col[i] = val.Float(f)
				} else {
					ok = false
				}
			}
		case "coalesce", "case_null":
			for i, v := range col {
				if v.IsNull() && e.Arg != nil {
					col[i] = *e.Arg
				}
			}
		case "const":
			for i := range col {
				if e.Arg != nil {
					col[i] = *e.Arg
				} else {
					col[i] = val.Null
				}
			}
			kind = "num"
		case "rank", "dense_rank", "row_number":
			inner := sortCase{Kinds: c.Kinds, IDs: c.IDs, Rows: c.Rows, Keys: []keyItem{{Col: k.Col, Dir: e.IDir, Nulls: e.INulls}}}
			if e.Op == "row_number" {
				inner.TieBreak = "ASC"
			}
			im := buildRef(inner)
			if im.bad {
				ok = false
				break
			}
			first := map[int]int{} // tie group -> first position
			for p := 0; p < im.n; p++ {
				if _, seen := first[im.groupAt[p]]; !seen {
					first[im.groupAt[p]] = p
				}
				switch e.Op {
				case "rank":
					col[im.order[p]] = val.Int(int64(first[im.groupAt[p]] + 1))
				case "dense_rank":
					col[im.order[p]] = val.Int(int64(im.groupAt[p] + 1))
				default:
					col[im.order[p]] = val.Int(int64(p + 1))
				}
			}
			kind = "num"
		default:
			ok = false
		}
		if e.Op == "times2" || e.Op == "plus0" {
			for _, v := range col {
				if x, isInt := ref.AsInteger(v); isInt && (x >= 1<<53 || x <= -(1<<53)) {
					ok = false // arithmetic on integers of that size belongs to another property
				}
			}
		}
		for i := range rc.Rows {
			rc.Rows[i] = append(rc.Rows[i], col[i])
		}
		rc.Kinds = append(rc.Kinds, kind)
		rc.Keys[ki] = keyItem{Col: len(rc.Kinds) - 1, Dir: k.Dir, Nulls: k.Nulls}
	}
	return rc, ok
}

type refModel struct {
	c       sortCase
	n       int
	order   []int         // row indices in reference order
	groupAt []int         // tie-group number of each reference position
	groupOf map[int64]int // id -> tie-group number
	rowOf   map[int64]int // id -> row index
	bad     bool          // some pair had no documented order
}

func (m *refModel) cmpRows(i, j int) int {
	for _, k := range m.c.Keys {
		r, ok := cmpKey(m.c.Rows[i][k.Col], m.c.Rows[j][k.Col], k)
		if !ok {
			m.bad = true
			return 0
		}
		if r != 0 {
			return r
		}
	}
	if m.c.TieBreak != "" {
		a, b := m.c.IDs[i], m.c.IDs[j]
		r := 0
		if a < b {
			r = -1
		} else if a > b {
			r = 1
		}
		if m.c.TieBreak == "DESC" {
			r = -r
		}
		return r
	}
	return 0
}

func buildRef(c sortCase) *refModel {
	m := &refModel{c: c, n: len(c.Rows), groupOf: map[int64]int{}, rowOf: map[int64]int{}}
	// every pair of non-NULL cells of a key column must be ordered by the documented ladder
	for _, k := range c.Keys {
		var distinct []val.Val
		seen := map[val.Val]bool{}
		for _, row := range c.Rows {
			v := row[k.Col]
			if !v.IsNull() && !seen[v] {
				seen[v] = true
				distinct = append(distinct, v)
			}
		}
		for i := range distinct {
			if ref.OutsideModel(distinct[i]) {
				m.bad = true
			}
			for j := i + 1; j < len(distinct); j++ {
				if _, ok := cmpKey(distinct[i], distinct[j], k); !ok {
					m.bad = true
				}
			}
		}
	}
	if _, _, _, intransitive := bigIntInfo(c.Rows, c.Keys); intransitive {
		// integers compare exactly, integer and float as float64: with two integers of one
		// float64 image and floats in the column "equal" is not transitive
		m.bad = true
	}
	m.order = make([]int, m.n)
	for i := range m.order {
		m.order[i] = i
		m.rowOf[c.IDs[i]] = i
	}
	if m.bad {
		return m
	}
	sort.SliceStable(m.order, func(a, b int) bool { return m.cmpRows(m.order[a], m.order[b]) < 0 })
	m.groupAt = make([]int, m.n)
	g := 0
	for p := 0; p < m.n; p++ {
		if p > 0 && m.cmpRows(m.order[p-1], m.order[p]) != 0 {
			g++
		}
		m.groupAt[p] = g
		m.groupOf[c.IDs[m.order[p]]] = g
	}
	return m
}

func sameVal(a, b val.Val) bool {
	if a.K != b.K {
		return false
	}
	switch a.K {
	case "N":
		return true
	case "F":
		x, y := a.AsFloat(), b.AsFloat()
		return x == y || (x != x && y != y)
	case "D":
		return a.AsTime().Equal(b.AsTime())
	}
	return a.S == b.S
}

// window: admissible [lo, hi) windows over the reference order; dontCare
// reports a negative LIMIT/OFFSET/PERCENT (manual silent).
func (m *refModel) windows() (wins [][2]int, dontCare bool) {
	cut := m.c.Cut
	n := int64(m.n)
	lo := int64(0)
	if cut.HasOffset {
		if cut.M < 0 {
			return nil, true
		}
		lo = clamp(cut.M, 0, n)
	}
	rem := n - lo
	if !cut.HasLimit {
		return [][2]int{{int(lo), int(n)}}, false
	}
	var counts []int64
	if cut.Percent {
		if cut.P100 < 0 {
			return nil, true
		}
		// exact N*p/100 = N*P100/10000; the manual does not say how a fractional
		// number of records is rounded: floor and ceiling are both accepted
		num := n * cut.P100
		fl, ce := num/10000, (num+9999)/10000
		counts = []int64{fl, ce}
		if num%10000 == 0 && cut.P100%25 != 0 {
			// p is not exactly representable in binary floating point: the product can
			// land a hair above or below the whole number
			counts = []int64{fl - 1, fl, fl + 1}
		}
	} else {
		if cut.N < 0 {
			return nil, true
		}
		counts = []int64{cut.N}
	}
	ordered := len(m.c.Keys) > 0 || m.c.TieBreak != ""
	seen := map[int64]bool{}
	for _, cnt := range counts {
		cnt = clamp(cnt, 0, rem)
		hi := lo + cnt
		if cut.WithTies && ordered && cnt > 0 {
			for hi < n && m.groupAt[hi] == m.groupAt[hi-1] {
				hi++
			}
		}
		if !seen[hi] {
			seen[hi] = true
			wins = append(wins, [2]int{int(lo), int(hi)})
		}
	}
	return wins, false
}

// ---------------------------------------------------------------------
// check

type outRow struct {
	id    int64
	cells []val.Val
}

func (c sortCase) decode(tbl run.Tbl) ([]outRow, *fw.Violation) {
	want := 1
	if !c.IDOnly {
		want = 1 + len(c.Kinds)
	}
	extra := len(c.aliasItems()) // aliased ORDER BY expressions follow the table columns
	var out []outRow
	for _, r := range tbl.Rows {
		if len(r) != want+extra {
			return nil, fw.V("result_shape", "row has %d cells, expected %d", len(r), want+extra)
		}
		id, ok := ref.AsInteger(r[0])
		if !ok {
			return nil, fw.V("result_shape", "id cell %s is not an integer", r[0])
		}
		out = append(out, outRow{id: id, cells: r[1:want]})
	}
	return out, nil
}

func (c sortCase) hasIntFloatEqual() bool {
	for _, k := range c.Keys {
		if c.Kinds[k.Col] != "num" {
			continue
		}
		ints, floats := map[float64]bool{}, map[float64]bool{}
		for _, row := range c.Rows {
			v := row[k.Col]
			if v.IsNull() {
				continue
			}
			if i, ok := ref.AsInteger(v); ok {
				ints[float64(i)] = true
			} else if f, ok := ref.AsFloat(v); ok {
				floats[f] = true
			}
		}
		for f := range floats {
			if ints[f] {
				return true
			}
		}
	}
	return false
}

func (c sortCase) hasBoolLike() bool {
	for _, k := range c.Keys {
		if c.Kinds[k.Col] != "text" {
			continue
		}
		for _, row := range c.Rows {
			if _, ok := ref.AsBoolean(row[k.Col]); ok {
				return true
			}
		}
	}
	return false
}

func boundaryClass(x, k int64) string {
	switch {
	case x < 0:
		return "neg"
	case x == 0:
		return "0"
	case x == k-1 && k > 2:
		return "k-1"
	case x == k:
		return "k"
	case x == k+1:
		return "k+1"
	case x > k+1:
		return "beyond"
	case x == 1:
		return "1"
	}
	return "mid"
}

func checkCase(c sortCase) (fw.Outcome, *fw.Violation) { return checkCaseExt(c, "", nil) }

// checkCaseExt: pre is executed in the session before the query (session
// flags); refRows, when given, are the cells the reference compares instead of
// c.Rows (same shape; used when the meaning of a cell depends on the session).
func checkCaseExt(c sortCase, pre string, refRows [][]val.Val) (fw.Outcome, *fw.Violation) {
	o := fw.Outcome{}
	addClass := func(s string) { o.Classes = append(o.Classes, s) }
	n := len(c.Rows)
	cut := c.Cut
	ordered := len(c.Keys) > 0 || c.TieBreak != ""
	addClass("source:" + c.Source)
	if n >= 160 {
		addClass("rows:large")
	} else if n < 2 {
		addClass("rows:0-1")
	} else {
		addClass("rows:small")
	}
	addClass(fmt.Sprintf("keys:%d", len(c.Keys)))
	if c.TieBreak != "" {
		addClass("tiebreak_id")
	}
	if !ordered {
		addClass("no_order_by")
	}

	rc := c
	if refRows != nil {
		rc.Rows = refRows
	}
	rc, derivedOK := rc.derived()
	if !derivedOK {
		o.Discard = true
		return o, nil
	}
	m := buildRef(rc)
	if m.bad {
		o.Discard = true
		return o, nil
	}

	// --- run ---------------------------------------------------------
	dir, err := os.MkdirTemp(fw.WorkDir(), "c07-")
	if err != nil {
		panic(err)
	}
	defer os.RemoveAll(dir)
	if c.Source == "csv" {
		if err := run.WriteFiles(dir, map[string]string{"t.csv": c.csvText()}); err != nil {
			panic(err)
		}
	}
	cpu := c.CPU
	if cpu < 1 {
		cpu = 1
	}
	// generous lock wait: on a loaded machine the default 2 s can pass before the table file is opened
	s, err := run.NewSess(run.Opt{Dir: dir, CPU: cpu, WaitTimeout: 10 * time.Minute})
	if err != nil {
		panic(err)
	}
	defer s.Close()
	if pre != "" {
		if r := s.Exec(pre); r.Err != nil {
			return o, fw.V("setup_error", "%s: %v", pre, r.Err)
		}
	}
	if c.Source == "view" {
		if r := s.Exec(c.setupSQL()); r.Err != nil {
			return o, fw.V("setup_error", "%s: %v", c.setupSQL(), r.Err)
		}
	}
	sql := c.baseSQL() + c.orderBy() + c.cutSQL()
	if cut.ViaVars {
		// the counts are read from variables; the query runs once, other integers and floats are computed, and
		// the second run - the one judged below - must read the same counts again
		addClass("cut_via_variables_second_run")
		if r := s.Exec(c.cutVarsSQL()); r.Err != nil {
			return o, fw.V("setup_error", "%s: %v", c.cutVarsSQL(), r.Err)
		}
		_, _ = s.Query(sql)
		if r := s.Exec("VAR @zz1 := 100 + 23; VAR @zz2 := 7 * 6; VAR @zz3 := 0.5 + 0.25; VAR @zz4 := @zz1 - @zz2;"); r.Err != nil {
			return o, fw.V("setup_error", "arithmetic between the runs: %v", r.Err)
		}
		sql = "/* second run; " + c.cutVarsSQL() + " */ " + sql
	}
	var tbl run.Tbl
	var qerr error
	if cut.ViaPrep && !cut.ViaVars {
		// the counts are placeholders of a prepared statement that is executed with other counts first; the
		// second execution - the one judged below - must not remember anything of the first
		addClass("cut_via_prepared_statement_second_execution")
		using := func(n, m, p100 int64) string {
			var parts []string
			if cut.HasLimit && !cut.Percent {
				parts = append(parts, c.countText(n, cut.NForm)+" AS cn")
			}
			if cut.HasLimit && cut.Percent {
				pt := pctText(p100)
				if cut.PForm == "str" {
					pt = "'" + pt + "'"
				}
				parts = append(parts, pt+" AS cp")
			}
			if cut.HasOffset {
				parts = append(parts, c.countText(m, cut.MForm)+" AS cm")
			}
			return "EXECUTE p USING " + strings.Join(parts, ", ") + ";"
		}
		prep := "PREPARE p FROM " + val.QuoteSQL(sql) + ";"
		if r := s.Exec(prep); r.Err != nil {
			return o, fw.V("setup_error", "%s: %v", prep, r.Err)
		}
		_ = s.Exec(using(cut.N+1, cut.M+1, cut.P100+500))
		sql = prep + " /* after " + using(cut.N+1, cut.M+1, cut.P100+500) + " */ " + using(cut.N, cut.M, cut.P100)
		tbl, qerr = s.Query(using(cut.N, cut.M, cut.P100))
	} else {
		tbl, qerr = s.Query(sql)
	}

	wins, dontCare := m.windows()
	zeroCount := cut.HasLimit && ((cut.Percent && cut.P100 <= 0) || (!cut.Percent && cut.N <= 0))
	if qerr != nil {
		cls := run.ErrClass(qerr)
		if strings.Contains(qerr.Error(), "context deadline exceeded") {
			// the file-lock wait timed out (machine overloaded): nothing was observed about sorting
			fw.AddExtra("lock_wait_timeout_discarded", 1)
			o.Discard = true
			return o, nil
		}
		if cls == "fatal" {
			if cut.WithTies && ordered && zeroCount {
				return o, fw.V("limit_zero_with_ties_fatal", "%s on %d rows: %v", sql, n, qerr)
			}
			return o, fw.V("fatal_error", "%s on %d rows: %v", sql, n, qerr)
		}
		if dontCare {
			addClass("dontcare_negative:error")
			return o, nil
		}
		return o, fw.V("unexpected_error", "%s: %v (%s)", sql, qerr, cls)
	}
	out, v := c.decode(tbl)
	if v != nil {
		return o, v
	}

	// --- every returned row is an input row, none twice -----------------
	seen := map[int64]bool{}
	for p, r := range out {
		i, ok := m.rowOf[r.id]
		if !ok {
			return o, fw.V("not_permutation", "%s: output row %d has id %d which is not in the table", sql, p, r.id)
		}
		if seen[r.id] {
			return o, fw.V("not_permutation", "%s: id %d returned twice", sql, r.id)
		}
		seen[r.id] = true
		if !c.IDOnly {
			for j, cell := range r.cells {
				if !sameVal(cell, c.Rows[i][j]) {
					return o, fw.V("not_permutation", "%s: row id %d column %s is %s, the table has %s", sql, r.id, colName(j), cell, c.Rows[i][j])
				}
			}
		}
	}
	// --- sorted: tie-group numbers never decrease -----------------------
	sortSig := func() string {
		switch {
		case rc.hasIntFloatEqual():
			return "sort_order_int_float_equal"
		case rc.hasBoolLike():
			return "sort_order_bool_like_text"
		}
		return "sort_order"
	}
	if ordered {
		for p := 1; p < len(out); p++ {
			if m.groupOf[out[p-1].id] > m.groupOf[out[p].id] {
				return o, fw.V(sortSig(), "%s: row id %d (position %d) is returned before row id %d but must sort after it\n%s", sql, out[p-1].id, p-1, out[p].id, describe(c, out))
			}
		}
	}
	if dontCare {
		addClass("dontcare_negative:result")
		return o, nil
	}

	// --- the cut ------------------------------------------------------------
	var win *[2]int
	for i := range wins {
		if wins[i][1]-wins[i][0] == len(out) {
			win = &wins[i]
		}
	}
	if win == nil {
		sig := "cut_count"
		lo := 0
		if cut.HasOffset {
			lo = int(clamp(cut.M, 0, int64(n)))
		}
		switch {
		case cut.Form == "none":
			sig = "not_permutation"
		case cut.Percent && cut.P100 > 10000:
			sig = "limit_percent_over_100"
		case cut.WithTies && ordered && lo > 0:
			sig = "with_ties_after_offset"
		case cut.WithTies && ordered && rc.hasIntFloatEqual():
			sig = "with_ties_int_float_equal"
		case cut.WithTies && ordered && rc.hasBoolLike():
			sig = "with_ties_bool_like_text"
		case cut.WithTies && ordered:
			sig = "with_ties_count"
		case cut.Percent:
			sig = "percent_count"
		case !cut.HasLimit:
			sig = "offset_count"
		}
		return o, fw.V(sig, "%s on %d rows: %d rows returned, expected %s\n%s", sql, n, len(out), winText(wins), describe(c, out))
	}
	lo, hi := win[0], win[1]
	if ordered {
		for p, r := range out {
			if m.groupOf[r.id] != m.groupAt[lo+p] {
				sig := sortSig()
				if cut.Form != "none" {
					sig = "cut_rows"
					if rc.hasIntFloatEqual() {
						sig = "cut_rows_int_float_equal"
					} else if rc.hasBoolLike() {
						sig = "cut_rows_bool_like_text"
					}
				}
				return o, fw.V(sig, "%s on %d rows: output position %d holds row id %d, which is not one of the rows that belong at sorted position %d (expected e.g. id %d)\n%s",
					sql, n, p, r.id, lo+p, c.IDs[m.order[lo+p]], describe(c, out))
			}
		}
	} else {
		// no ORDER BY: "first n" is relative to the order in which the same query
		// returns its rows without the limit clause; asserted when that order is
		// reproducible within the session
		full1, e1 := s.Query(c.baseSQL())
		full2, e2 := s.Query(c.baseSQL())
		if e1 != nil || e2 != nil {
			return o, fw.V("unexpected_error", "%s: %v %v", c.baseSQL(), e1, e2)
		}
		f1, v1 := c.decode(full1)
		f2, v2 := c.decode(full2)
		if v1 != nil || v2 != nil || len(f1) != n || len(f2) != n {
			return o, fw.V("not_permutation", "%s returned %d rows of %d", c.baseSQL(), len(f1), n)
		}
		stable := true
		for i := range f1 {
			if f1[i].id != f2[i].id {
				stable = false
			}
		}
		if stable {
			for p, r := range out {
				if f1[lo+p].id != r.id {
					return o, fw.V("cut_rows_unordered", "%s: output position %d holds id %d, the unlimited query has id %d at position %d", sql, p, r.id, f1[lo+p].id, lo+p)
				}
			}
			addClass("unordered_window_checked")
		}
	}

	// --- classes and non-triviality ---------------------------------------------
	hasNull, dupFirst := false, false
	for _, k := range rc.Keys {
		for _, row := range rc.Rows {
			if row[k.Col].IsNull() {
				hasNull = true
			}
		}
	}
	if len(c.Keys) > 0 {
		k0 := rc.Keys[0]
		only := sortCase{Rows: rc.Rows, IDs: c.IDs, Keys: []keyItem{k0}, Kinds: rc.Kinds}
		m0 := buildRef(only)
		if !m0.bad && n > 0 && m0.groupAt[n-1] < n-1 {
			dupFirst = true
		}
	}
	if hasNull {
		addClass("keys_have_null")
	}
	if dupFirst {
		addClass("first_key_has_duplicates")
	}
	if rc.hasIntFloatEqual() {
		addClass("int_float_equal_pair")
	}
	bigFp := ""
	if beyond, sameImage, withFloat, _ := bigIntInfo(rc.Rows, c.Keys); beyond {
		addClass("key_integers_beyond_2^53")
		bigFp = "|big"
		if sameImage {
			addClass("key_integers_with_same_float64_image")
			bigFp += "+same_image"
		}
		if withFloat {
			addClass("key_integers_beyond_2^53_next_to_floats")
			bigFp += "+floats"
		}
	}
	if rc.hasBoolLike() {
		addClass("bool_like_text")
	}
	var keyFp []string
	for _, k := range c.Keys {
		d, np := "A", "-"
		if k.Dir == "DESC" {
			d = "D"
		} else if k.Dir == "" {
			d = "a"
		}
		if k.Nulls != "" {
			np = k.Nulls[:1]
		}
		keyFp = append(keyFp, c.Kinds[k.Col][:1]+d+np)
		addClass("key_kind:" + c.Kinds[k.Col])
		addClass("key_dir:" + map[string]string{"A": "ASC", "a": "default", "D": "DESC"}[d])
		addClass("key_nulls:" + map[string]string{"-": "default", "F": "FIRST", "L": "LAST"}[np])
	}
	exprFp := ""
	for _, k := range c.Keys {
		if k.Expr != nil {
			addClass("key_expr:" + k.Expr.Op)
			exprFp += k.Expr.Op
			if k.Expr.ViaAlias {
				addClass("key_expr_via_select_alias")
				exprFp += "@"
			}
			if k.Expr.IDir != "" || k.Expr.INulls != "" {
				exprFp += "(" + k.Expr.IDir + k.Expr.INulls + ")"
			}
			exprFp += ","
		}
	}
	if c.From != "" {
		addClass("from:" + c.From)
		exprFp += "from:" + c.From
	}
	if exprFp != "" {
		bigFp += "|expr:" + exprFp
	}
	if !cut.ViaVars && cut.Form != "none" && cut.Form != "" {
		forms := ""
		if cut.HasLimit && !cut.Percent && cut.NForm != "" {
			addClass("limit_written_as:" + cut.NForm)
			forms += "n:" + cut.NForm
		}
		if cut.HasOffset && cut.MForm != "" {
			addClass("offset_written_as:" + cut.MForm)
			forms += "m:" + cut.MForm
		}
		if cut.HasLimit && cut.Percent && cut.PForm != "" {
			addClass("percent_written_as:" + cut.PForm)
			forms += "p:" + cut.PForm
		}
		if cut.ViaPrep {
			forms += "prep"
		}
		if forms != "" {
			bigFp += "|counts:" + forms
		}
	}
	keys := strings.Join(keyFp, ",") + "|tb:" + c.TieBreak + bigFp
	interesting := len(c.Keys) >= 2 || dupFirst || hasNull

	if cut.Form == "none" {
		if n >= 2 && interesting {
			ngroups := 0
			if n > 0 {
				ngroups = m.groupAt[n-1] + 1
			}
			gc := "all_tied"
			if ngroups == n {
				gc = "all_distinct"
			} else if ngroups > 1 {
				gc = "some_tied"
			}
			addClass("groups:" + gc)
			o.Fingerprint = fmt.Sprintf("sort|%s|%s|null=%v|dup=%v|%s|large=%v|sel=%v%v", keys, c.Source, hasNull, dupFirst, gc, n >= 160, c.IDOnly, c.Star)
		}
		return o, nil
	}

	// cut classes
	kind := cut.Form
	if cut.HasLimit {
		if cut.Percent {
			kind += ":percent"
		} else {
			kind += ":count"
		}
		if cut.WithTies {
			kind += ":ties"
		}
	}
	if cut.HasOffset {
		kind += ":offset"
	}
	addClass("cut:" + kind)
	bc := ""
	if cut.HasOffset {
		bc += "off=" + boundaryClass(cut.M, int64(n))
		addClass("offset:" + boundaryClass(cut.M, int64(n)))
	}
	rem := int64(n - lo)
	if cut.HasLimit {
		if cut.Percent {
			num := int64(n) * cut.P100
			pc := ""
			switch {
			case cut.P100 == 0:
				pc = "0"
			case cut.P100 == 10000:
				pc = "100"
			case cut.P100 > 10000:
				pc = ">100"
			case num%10000 == 0:
				pc = "whole_rows"
			default:
				pc = "fractional_rows"
			}
			bc += "|pct=" + pc
			addClass("percent:" + pc)
			if pc == "fractional_rows" {
				if int64(hi-lo) < rem && !cut.WithTies {
					if int64(hi-lo) == num/10000 {
						addClass("percent_rounding:floor")
					} else {
						addClass("percent_rounding:ceil")
					}
				}
			}
			if cut.P100 > 10000 && rem > 100 {
				addClass("percent_over_100_on_more_than_100_rows")
			}
		} else {
			bc += "|lim=" + boundaryClass(cut.N, rem)
			addClass("limit:" + boundaryClass(cut.N, rem))
		}
	}
	if ordered && hi < n && hi > lo && m.groupAt[hi] == m.groupAt[hi-1] {
		bc += "|splits_tie_group"
		addClass("cut_splits_tie_group")
	}
	if ordered && lo > 0 && lo < n && m.groupAt[lo] == m.groupAt[lo-1] {
		bc += "|offset_splits_tie_group"
		addClass("offset_splits_tie_group")
	}
	if cut.WithTies && ordered && cut.HasLimit {
		base := int64(-1)
		if !cut.Percent {
			base = clamp(cut.N, 0, rem)
		}
		if base >= 0 && int64(hi-lo) > base {
			bc += "|ties_extend"
			addClass("with_ties_extends")
		}
	}
	removes, keeps := len(out) < n, len(out) > 0
	if removes && keeps {
		addClass("cut_removes_and_keeps")
	}
	if ordered && interesting && removes && keeps {
		o.Fingerprint = fmt.Sprintf("cut|%s|%s|%s", keys, kind, bc)
	}
	return o, nil
}

func winText(wins [][2]int) string {
	var parts []string
	for _, w := range wins {
		parts = append(parts, fmt.Sprintf("%d (sorted positions %d..%d)", w[1]-w[0], w[0], w[1]-1))
	}
	return strings.Join(parts, " or ")
}

func describe(c sortCase, out []outRow) string {
	var b strings.Builder
	if len(c.Rows) > 24 {
		fmt.Fprintf(&b, "(%d table rows, %d returned; see the replay file)", len(c.Rows), len(out))
		return b.String()
	}
	b.WriteString("table (id | keys): ")
	for i, row := range c.Rows {
		fmt.Fprintf(&b, "[%d |", c.IDs[i])
		for _, v := range row {
			b.WriteString(" " + v.String())
		}
		b.WriteString("] ")
	}
	b.WriteString("\nreturned ids:")
	for _, r := range out {
		fmt.Fprintf(&b, " %d", r.id)
	}
	return b.String()
}

const assumeNeg = "negative LIMIT / OFFSET / PERCENT values: the manual is silent, so an ordinary error or any sorted duplicate-free subset of the table is accepted (a Fatal Error is not)"
const assumePct = "rounding of a fractional PERCENT row count is not documented: floor and ceiling are both accepted; for percentages that are not multiples of 0.25 an exactly whole product may be off by one through binary floating point"
const assumeDomain = "key columns: numbers (|x| <= 1e10, or - in 20% of the number columns - integers within 2 of +-2^53, +-2^62, +-(2^63-1) as integers or padded integer strings, compared exactly; when floats of that magnitude share the column the integers keep distinct float64 images, because an integer and a float compare as float64 and equal keys must stay transitive; no NaN/Inf), datetimes in the layouts the ladder reference parses, or text that is neither numeric nor datetime-like; cases where the documented ladder gives no order for some pair are discarded"

func TestC07Sort(t *testing.T) {
	fw.Run(t, fw.Spec[sortCase]{
		ID: "C07", Name: "sort", Quick: 10000, Thorough: 200000,
		Gen: genSortCase, Check: checkCase,
		Rule:        "tables of 0-12 rows (10%: 160-400 rows with CPU 4) from a CSV file or a typed temporary table, 1-3 key columns of numbers (incl. neighbouring integers beyond 2^53 that share a float64 image) / datetimes / text drawn from small pools (duplicates) with 0-40% NULLs; ORDER BY over 1-3 of them with ASC/DESC and NULLS FIRST/LAST, optionally id as unique last key; oracle: every output row is an input row (by id, cell for cell), none twice, all present, and output position i holds a row of the tie group that the reference order (documented comparison ladder, documented NULL default) has at position i; non-trivial = >=2 rows and (>=2 keys or duplicates in the first key or NULLs), distinct by (key kinds/directions/null positions, tiebreak, source, tie structure, size class, select list)",
		Assumptions: []string{assumeDomain, "tie order is free: rows with equal keys are only required to occupy their group's positions"},
	})
}

func TestC07KeyExpr(t *testing.T) {
	fw.Run(t, fw.Spec[sortCase]{
		ID: "C07", Name: "key_expr", Quick: 8000, Thorough: 120000,
		Gen: genKeyExprCase, Check: checkCase,
		Rule: "tables, key lists and cuts as in 'sort' / 'cut'; 75% of the ORDER BY items are expressions over their key column instead of the bare name: table-qualified name, k + 0, 2 * k, k * -1, ABS(k) (numbers), UPPER / LOWER / k || '' (text), DATETIME(k) (datetimes), COALESCE(k, c) and CASE WHEN k IS NULL THEN c ELSE k END with a constant of the column's kind, RANK() / DENSE_RANK() / ROW_NUMBER() OVER (ORDER BY k [ASC|DESC] [NULLS FIRST|LAST][, id]), a constant; 30% of them are written as a select-list item 'expr AS x' with ORDER BY naming the alias; FROM is the table, the table under an alias (keys qualified with it), the table cross-joined with a one-row derived table, or the table joined with itself on the unique id (keys taken alternately from the two copies); oracle: the reference computes the value of every expression per row (negation / absolute value numerically, NULL replacement, rank / dense rank / row number from the reference order of the inner key) and then applies the 'sort' / 'cut' oracle to these derived columns; non-trivial as in 'sort' / 'cut' (on the derived keys), distinct additionally by (expression kinds, alias use, FROM shape)",
		Assumptions: []string{assumeDomain, assumeNeg, assumePct,
			"order-preserving expressions (k + 0, 2 * k, UPPER, LOWER, || '', DATETIME, qualified names) are taken to keep the order and the ties of their column; arithmetic is not applied to integers beyond 2^53 (integer overflow and float rounding belong to the arithmetic property)",
			"the values of RANK / DENSE_RANK / ROW_NUMBER are computed from the reference order of the inner key (their definition is checked by C17); boolean-valued expressions (k IS NULL) are not used as keys (booleans are outside the quantifier)"},
	})
}

func TestC07Cut(t *testing.T) {
	fw.Run(t, fw.Spec[sortCase]{
		ID: "C07", Name: "cut", Quick: 24000, Thorough: 480000,
		Gen: genCutCase, Check: checkCase,
		Rule: "tables and ORDER BY as in 'sort' (50% with unique id tiebreak, 6% without ORDER BY) plus LIMIT n / p PERCENT [ONLY | WITH TIES] [OFFSET m], the FETCH FIRST|NEXT spelling, or OFFSET alone; n, m from {negative, 0, 1, middle, count-1, count, count+1, beyond}, p from {negative, 0, fractional, whole-row, 100, >100}; the counts are written as literals, strings ('3', ' 3 '), integral floats (3.0), expressions ((2 + 1)), subqueries ((SELECT COUNT(*) FROM t) - d), percentages also as strings and products; 15% read them from variables (the query runs twice, the second run is judged), 12% are placeholders of a prepared statement that is first executed with other counts (the second execution is judged); oracle: reference window [m, m+n) over the reference order (PERCENT of the pre-offset count, WITH TIES extended to the end of the last kept row's tie group, ignored without ORDER BY), output length equals the window's and position i holds a row of the tie group at window position i (exact sequence when the keys are unique; key-tuple multiset otherwise); non-trivial = ORDER BY present, (>=2 keys or duplicates in the first key or NULLs) and the cut removes >=1 and keeps >=1 row, distinct by (key kinds/directions/null positions, tiebreak, limit kind, boundary class)",
		Assumptions: []string{assumeDomain, assumeNeg, assumePct,
			"without ORDER BY the kept rows are compared with the same query without the limit clause, when two runs of that query return the same order"},
	})
}
