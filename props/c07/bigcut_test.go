package c07

// Sub-check big_cut: ORDER BY / LIMIT / OFFSET / PERCENT / WITH TIES on tables
// of 13 to 3000 rows. The tables of the other sub-checks have at most 12 rows
// or 160-400 rows; code paths chosen by the size of the view (partial sorts,
// thresholds), tie groups that reach far beyond the cut, and percentages whose
// product with the row count is a whole number only for particular counts are
// out of their reach.
//
// The table is a function of a few drawn parameters (pool of key values per
// column, multipliers that spread the pool over the rows, a stride that
// permutes the ids), so a case is small, shrinks quickly and is expanded into
// the ordinary sortCase when it is checked; oracle and reference are those of
// 'cut'.

import (
	"fmt"
	"testing"

	"pgregory.net/rapid"

	"verif/internal/fw"
	"verif/internal/val"
)

type bigCol struct {
	Kind    string    `json:"kind"`
	Pool    []val.Val `json:"pool"`
	A       int       `json:"a"`                  // cell of row i = Pool[(i*A + B) mod len(Pool)]
	B       int       `json:"b"`                  //
	NullMod int       `json:"null_mod,omitempty"` // rows with (i*3 + B) mod NullMod == 0 hold NULL (0: no NULLs)
}

type bigCase struct {
	N        int       `json:"n"`
	Cols     []bigCol  `json:"cols"`
	IDStride int       `json:"id_stride"` // id of row i = (i*IDStride mod N) + 1, IDStride coprime to N
	Keys     []keyItem `json:"keys"`
	TieBreak string    `json:"tie_break,omitempty"`
	Cut      cutSpec   `json:"cut"`
	IDOnly   bool      `json:"id_only,omitempty"`
	CPU      int       `json:"cpu"`
}

func gcd(a, b int) int {
	for b != 0 {
		a, b = b, a%b
	}
	return a
}

func (b bigCase) expand() sortCase {
	c := sortCase{Source: "csv", CPU: b.CPU, Keys: b.Keys, TieBreak: b.TieBreak, Cut: b.Cut, IDOnly: b.IDOnly}
	for _, col := range b.Cols {
		c.Kinds = append(c.Kinds, col.Kind)
	}
	c.IDs = make([]int64, b.N)
	c.Rows = make([][]val.Val, b.N)
	for i := 0; i < b.N; i++ {
		c.IDs[i] = int64((i*b.IDStride)%b.N) + 1
		row := make([]val.Val, len(b.Cols))
		for j, col := range b.Cols {
			if col.NullMod > 0 && (i*3+col.B)%col.NullMod == 0 {
				row[j] = val.Null
			} else {
				row[j] = col.Pool[(i*col.A+col.B)%len(col.Pool)]
			}
		}
		c.Rows[i] = row
	}
	return c
}

// row counts whose product with many percentages is a whole number
var friendlyCounts = []int{20, 25, 40, 50, 75, 80, 100, 120, 125, 150, 160, 175, 180, 200, 250, 300, 375, 400, 500, 600, 625, 750, 800, 875,
	1000, 1200, 1250, 1500, 1750, 1875, 2000, 2400, 2500, 3000}

func genBigCutCase(t *rapid.T) bigCase {
	b := bigCase{}
	switch weighted(t, "sizeClass", []int{30, 30, 10, 30}) {
	case 0:
		b.N = fw.Pick(t, "rowsFriendly", friendlyCounts)
	case 1:
		b.N = rapid.IntRange(13, 159).Draw(t, "rowsMedium")
	case 2:
		b.N = rapid.IntRange(401, 999).Draw(t, "rowsLarge")
	default:
		b.N = rapid.IntRange(1000, 3000).Draw(t, "rowsHuge")
	}
	b.CPU = fw.Pick(t, "cpu", []int{1, 2, 4})
	ncol := fw.Pick(t, "ncol", []int{1, 1, 2})
	for j := 0; j < ncol; j++ {
		col := bigCol{Kind: fw.Pick(t, "kind", []string{"num", "num", "dt", "text"})}
		// small pools give tie groups of hundreds of rows, large ones groups of a few rows
		ps := fw.Pick(t, "poolSize", []int{1, 2, 3, 5, 8, 13, 24, 40})
		seenI, seenF := map[float64]bool{}, map[float64]bool{}
		for k := 0; k < ps; k++ {
			switch col.Kind {
			case "num":
				col.Pool = append(col.Pool, genNum(t, "csv", false, seenI, seenF))
			case "dt":
				col.Pool = append(col.Pool, genDt(t, "csv"))
			default:
				col.Pool = append(col.Pool, genText(t, false))
			}
		}
		col.A = rapid.IntRange(1, 97).Draw(t, "spreadA")
		col.B = rapid.IntRange(0, 40).Draw(t, "spreadB")
		col.NullMod = fw.Pick(t, "nullMod", []int{0, 0, 7, 3, 50})
		b.Cols = append(b.Cols, col)
	}
	b.IDStride = rapid.IntRange(1, b.N).Draw(t, "idStride")
	for gcd(b.IDStride, b.N) != 1 {
		b.IDStride++
	}
	b.IDStride %= b.N
	if b.IDStride == 0 {
		b.IDStride = 1
	}
	b.IDOnly = chance(t, "idOnly", 15)

	c := b.expand()
	genKeys(t, &c, 40)
	total := int64(b.N)
	switch weighted(t, "bigCutClass", []int{40, 30, 30}) {
	case 0:
		// a small window at the head of a large table, mostly WITH TIES: the tie group of the last kept row reaches far beyond it
		cut := cutSpec{Form: fw.Pick(t, "form", []string{"limit", "limit", "fetch"}), HasLimit: true}
		cut.N = int64(rapid.IntRange(1, int(total/12)+1).Draw(t, "smallN"))
		if chance(t, "hasOffset", 40) {
			cut.HasOffset = true
			cut.M = int64(rapid.IntRange(0, int(total/20)+1).Draw(t, "smallM"))
			cut.OffWord = fw.Pick(t, "offWord", []string{"", "ROW", "ROWS"})
		}
		cut.WithTies = chance(t, "withTies", 70)
		cut.RowWord = fw.Pick(t, "rowWord", []string{"", "ROW", "ROWS"})
		cut.First = fw.Pick(t, "first", []string{"FIRST", "NEXT"})
		if cut.Form == "fetch" && cut.RowWord == "" {
			cut.RowWord = "ROWS"
		}
		c.Cut = cut
	case 1:
		// a percentage (multiple of 0.25, so exactly representable) whose product with the row count is a whole number
		cut := cutSpec{Form: fw.Pick(t, "form", []string{"limit", "limit", "fetch"}), HasLimit: true, Percent: true}
		k := int64(rapid.IntRange(0, int(total)).Draw(t, "pctRows"))
		// move k to the nearest count for which k*10000/total is a whole multiple of 25 hundredths
		for d := int64(0); d <= total; d++ {
			if k+d <= total && ((k+d)*10000)%(total*25) == 0 {
				k += d
				break
			}
			if k-d >= 0 && ((k-d)*10000)%(total*25) == 0 {
				k -= d
				break
			}
		}
		cut.P100 = k * 10000 / total
		if chance(t, "hasOffset", 35) {
			cut.HasOffset = true
			cut.M = int64(rapid.IntRange(0, int(total/3)+1).Draw(t, "pctOff"))
			cut.OffWord = fw.Pick(t, "offWord", []string{"", "ROW", "ROWS"})
		}
		cut.WithTies = chance(t, "withTies", 30)
		cut.RowWord = fw.Pick(t, "rowWord", []string{"", "ROW", "ROWS"})
		cut.First = fw.Pick(t, "first", []string{"FIRST", "NEXT"})
		cut.PForm = pickW(t, "pForm", []string{"str", "", "", ""})
		c.Cut = cut
	default:
		genCut(t, &c)
	}
	b.Keys, b.TieBreak, b.Cut = c.Keys, c.TieBreak, c.Cut
	return b
}

func checkBigCutCase(b bigCase) (fw.Outcome, *fw.Violation) {
	if b.N < 1 || len(b.Cols) == 0 || b.IDStride < 1 || gcd(b.IDStride, b.N) != 1 {
		return fw.Outcome{Discard: true}, nil
	}
	for _, col := range b.Cols {
		if len(col.Pool) == 0 || col.A < 0 || col.B < 0 {
			return fw.Outcome{Discard: true}, nil
		}
	}
	o, v := checkCase(b.expand())
	size := "rows:13-159"
	switch {
	case b.N >= 1000:
		size = "rows:1000+"
	case b.N > 400:
		size = "rows:401-999"
	case b.N >= 160:
		size = "rows:160-400"
	}
	o.Classes = append(o.Classes, size)
	if o.Fingerprint != "" {
		o.Fingerprint = size + "|" + o.Fingerprint
		if b.Cut.Percent && b.Cut.P100%25 == 0 && (int64(b.N)*b.Cut.P100)%10000 == 0 {
			o.Classes = append(o.Classes, "percent_exact_whole_product")
			o.Fingerprint += fmt.Sprintf("|whole:%d", b.N)
		}
	}
	return o, v
}

func TestC07BigCut(t *testing.T) {
	fw.Run(t, fw.Spec[bigCase]{
		ID: "C07", Name: "big_cut", Quick: 2400, Thorough: 48000,
		Gen: genBigCutCase, Check: checkBigCutCase,
		Rule:        "CSV tables of 13-3000 rows (30% a count from {20, 25, ..., 2500, 3000} that divides many percentages, 30% 13-159, 10% 401-999, 30% 1000-3000; --cpu 1, 2 or 4) whose 1-2 key columns spread a drawn pool of 1-40 values (numbers / datetimes / text as in 'sort') over the rows by i*a+b mod pool size, with NULLs every 3rd / 7th / 50th row or none and ids permuted by a stride; ORDER BY as in 'cut'; the cut is 40% a small window at the head (LIMIT n <= rows/12 [OFFSET m <= rows/20], 70% WITH TIES, so the tie group of the last kept row reaches far beyond the window), 30% a PERCENT that is a multiple of 0.25 and gives a whole number of rows (exact count required), 30% as in 'cut'; oracle of 'cut'; non-trivial as in 'cut', distinct additionally by size class and, for whole-product percentages, the row count",
		Assumptions: []string{assumeDomain, assumeNeg, assumePct},
	})
}
