package c05

import (
	"fmt"
	"os"
	"path/filepath"
	"regexp"
	"strconv"
	"strings"
	"sync/atomic"
	"testing"
	"time"

	"pgregory.net/rapid"

	"verif/internal/fw"
	"verif/internal/ref"
	"verif/internal/run"
	"verif/internal/val"
)

func TestMain(m *testing.M) { fw.Main(m) }

// ---------------------------------------------------------------------
// Known open defects the generator steers around so that the search goes on.
// Both shapes stay executable by checkHist (a replay file or a pinned case
// containing them is checked against the unchanged oracle); setting
// C05_NO_AVOID=replace,stdin lets the generator produce them again.

// View.replace (lib/query/view.go, "for i, isReplaced := range replacedRecord")
// appends the given rows that matched no record by ranging over a Go map: with
// two or more such rows their order varies from run to run. The generator gives
// REPLACE at most one row without a matching record.
const avoidReplaceUnmatchedOrder = false

// loadObjectFromStdin (lib/query/load_view.go:521-537) takes the exclusive STDIN
// lock for every statement that loads STDIN for update, because FileInfo.ForUpdate
// of the stdin view is never set; the lock is only released by COMMIT/ROLLBACK, so
// the second data-changing statement on STDIN inside one transaction waits for the
// session's own lock and fails with "lock wait timeout period exceeded". The
// generator puts a COMMIT or ROLLBACK between two such statements.
const avoidStdinSecondDMLLockTimeout = true

func avoid(name string, dflt bool) bool {
	for _, x := range strings.Split(os.Getenv("C05_NO_AVOID"), ",") {
		if strings.TrimSpace(x) == name {
			return false
		}
	}
	return dflt
}

// ---------------------------------------------------------------------
// the case

type histCase struct {
	TKind string `json:"t_kind"` // file | temp | stdin
	UKind string `json:"u_kind"` // "" (no second table) | file | temp
	T     *table `json:"t"`
	U     *table `json:"u,omitempty"`
	Ops   []opT  `json:"ops"`
}

func (c histCase) model() *model {
	m := &model{tabs: map[string]*table{}}
	if c.T != nil {
		m.tabs["t"] = c.T.clone()
	}
	if c.U != nil && c.UKind != "" {
		m.tabs["u"] = c.U.clone()
	}
	return m
}

func (c histCase) naming() naming {
	nm := naming{kind: map[string]string{"t": c.TKind}}
	if c.UKind != "" {
		nm.kind["u"] = c.UKind
	}
	return nm
}

const maxRows = 10
const maxSteps = 12

// ---------------------------------------------------------------------
// generator: builds the history next to a live copy of the model, so that
// predicates can be aimed at strict non-empty subsets and every statement is
// inside the modelled fragment by construction.

type bnd struct{ q, tab string } // qualifier used in expressions ("" = unqualified), logical table

type gen struct {
	t          *rapid.T
	m          *model
	kinds      map[string]map[string]string // table -> column -> int | str
	tk         map[string]string
	committed  *model
	ckinds     map[string]map[string]string
	fresh      int
	stdinDirty bool
	pending    map[string]string // kinds of columns added by the operation under construction
	subOuter   []bnd             // non-nil: expressions and predicates may hold scalar subqueries; the tables of the enclosing statement
	ops        []opT
}

func copyKinds(k map[string]map[string]string) map[string]map[string]string {
	out := map[string]map[string]string{}
	for t, m := range k {
		out[t] = map[string]string{}
		for c, v := range m {
			out[t][c] = v
		}
	}
	return out
}

func (g *gen) pct(label string, p int) bool     { return fw.Pct(g.t, label, p) }
func (g *gen) rng(label string, lo, hi int) int { return fw.Range(g.t, label, lo, hi) }

func (g *gen) intLit() int64 {
	switch fw.Weighted(g.t, "intclass", []int{78, 10, 12}) {
	case 1:
		return int64(g.rng("neg", -3, -1))
	case 2:
		return fw.PickU(g.t, "big", []int64{20, 30, 100})
	}
	return int64(g.rng("small", 0, 12))
}

func (g *gen) strLit() string {
	return fw.PickU(g.t, "letter", []string{"b", "k", "m", "q"}) + strconv.Itoa(g.rng("digit", 0, 9))
}

func (g *gen) lit(kind string, nullPct int) node {
	if g.pct("null", nullPct) {
		return nNull()
	}
	if kind == "str" {
		return nStr(g.strLit())
	}
	return nInt(g.intLit())
}

func (g *gen) initTable(name string) {
	cols := []string{"id"}
	kinds := map[string]string{"id": "int"}
	for _, c := range []struct {
		n, k string
		p    int
	}{{"v", "int", 85}, {"s", "str", 85}, {"w", "int", 30}} {
		if g.pct("col_"+c.n, c.p) {
			cols = append(cols, c.n)
			kinds[c.n] = c.k
		}
	}
	if len(cols) < 2 {
		cols = append(cols, "v")
		kinds["v"] = "int"
	}
	n := fw.Weighted(g.t, "nrows", []int{4, 6, 12, 18, 20, 20, 20})
	ids := rapid.Permutation([]int{1, 2, 3, 4, 5, 6, 7, 8, 9}).Draw(g.t, "ids")
	tb := &table{Cols: cols}
	for i := 0; i < n; i++ {
		var row []val.Val
		for _, c := range cols {
			var v val.Val
			switch c {
			case "id":
				switch {
				case g.pct("idnull", 8):
					v = val.Null
				case i > 0 && g.pct("iddup", 15):
					v = tb.Rows[g.rng("dupof", 0, i-1)][0]
					if v.IsNull() {
						v = val.Int(int64(ids[i]))
					}
				default:
					v = val.Int(int64(ids[i]))
				}
			case "v":
				v = val.Int(fw.PickU(g.t, "v", []int64{0, 10, 20, 30}))
				if g.pct("vnull", 15) {
					v = val.Null
				}
			case "w":
				v = val.Int(int64(g.rng("w", 0, 5)))
				if g.pct("wnull", 15) {
					v = val.Null
				}
			default:
				v = val.Str(g.strLit())
				if g.pct("snull", 15) {
					v = val.Null
				}
			}
			row = append(row, v)
		}
		tb.Rows = append(tb.Rows, row)
	}
	g.m.tabs[name] = tb
	g.kinds[name] = kinds
}

func (g *gen) colsOfKind(tab, kind string, exclude map[string]bool) []string {
	var out []string
	for _, c := range g.m.tabs[tab].Cols {
		if g.kinds[tab][c] == kind && !exclude[tab+"."+c] {
			out = append(out, c)
		}
	}
	return out
}

// colNodes: column references of a kind over the bindings.
func (g *gen) colNodes(bs []bnd, kind string, exclude map[string]bool) []node {
	var out []node
	for _, b := range bs {
		for _, c := range g.colsOfKind(b.tab, kind, exclude) {
			out = append(out, nCol(b.q, c))
		}
	}
	return out
}

// expr draws a value expression of the kind over the bindings.
func (g *gen) expr(kind string, bs []bnd, exclude map[string]bool) node {
	if g.subOuter != nil && g.pct("subq", 28) {
		if n, ok := g.subq(kind, exclude); ok {
			if kind == "int" && g.pct("subq_plus", 30) {
				return nBin("add", n, nInt(int64(g.rng("k", 1, 5))))
			}
			return n
		}
	}
	same := g.colNodes(bs, kind, exclude)
	if kind == "int" {
		w := []int{30, 25, 15, 8, 7, 10, 5}
		if len(same) == 0 {
			w = []int{90, 0, 0, 0, 0, 0, 10}
		}
		switch fw.Weighted(g.t, "intexpr", w) {
		case 0:
			return nInt(g.intLit())
		case 1:
			return fw.PickU(g.t, "col", same)
		case 2:
			return nBin("add", fw.PickU(g.t, "col", same), nInt(int64(g.rng("k", 1, 5))))
		case 3:
			return nBin("mul", fw.PickU(g.t, "col", same), nInt(int64(g.rng("k", 2, 3))))
		case 4:
			return nBin("sub", fw.PickU(g.t, "col", same), nInt(int64(g.rng("k", 1, 5))))
		case 5:
			return nBin("add", fw.PickU(g.t, "col", same), fw.PickU(g.t, "col2", same))
		}
		return nNull()
	}
	ints := g.colNodes(bs, "int", exclude)
	w := []int{35, 20, 15, 10, 8, 7, 5}
	if len(same) == 0 {
		w[1], w[2], w[3], w[5] = 0, 0, 0, 0
	}
	if len(ints) == 0 {
		w[4] = 0
	}
	suffix := func() node { return nStr(fw.PickU(g.t, "suffix", []string{"k", "m", "q", "k1", "m2"})) }
	switch fw.Weighted(g.t, "strexpr", w) {
	case 0:
		return nStr(g.strLit())
	case 1:
		return fw.PickU(g.t, "col", same)
	case 2:
		return nBin("cat", fw.PickU(g.t, "col", same), suffix())
	case 3:
		return nBin("cat", suffix(), fw.PickU(g.t, "col", same))
	case 4:
		return nBin("cat", fw.PickU(g.t, "icol", ints), suffix())
	case 5:
		return nBin("cat", fw.PickU(g.t, "col", same), fw.PickU(g.t, "col2", same))
	}
	return nNull()
}

// subq draws a scalar subquery (SELECT f(z.c) FROM tab z [WHERE ...]) over the
// target of the enclosing statement or the other table, optionally correlated
// with the row of the enclosing statement.
func (g *gen) subq(kind string, exclude map[string]bool) (node, bool) {
	outer := g.subOuter
	g.subOuter = nil
	defer func() { g.subOuter = outer }()
	tab := outer[0].tab
	if names := g.m.names(); len(names) > 1 && g.pct("subq_other", 35) {
		for _, t := range names {
			if t != tab {
				tab = t
				break
			}
		}
	}
	n := node{K: "subq", Q: tab}
	ints, strs := g.colsOfKind(tab, "int", nil), g.colsOfKind(tab, "str", nil)
	if kind == "int" {
		w := []int{25, 20, 10, 12, 13, 20}
		if len(ints) == 0 {
			w = []int{0, 0, 0, 0, 1, 0}
		}
		n.Op = []string{"sum", "max", "min", "count", "countall", "one"}[fw.Weighted(g.t, "subq_fn", w)]
		if n.Op != "countall" {
			n.C = fw.PickU(g.t, "subq_col", ints)
		}
	} else {
		if len(strs) == 0 {
			return n, false
		}
		n.Op, n.C = "one", fw.PickU(g.t, "subq_col", strs)
	}
	if n.Op == "one" || g.pct("subq_where", 55) {
		var oc []node
		for _, b := range outer {
			for _, c := range g.colsOfKind(b.tab, "int", exclude) {
				oc = append(oc, nCol(b.tab, c))
			}
		}
		corr := 50
		if n.Op == "one" {
			corr = 75
		}
		switch {
		case len(ints) > 0 && len(oc) > 0 && g.pct("subq_correlated", corr):
			zc := ints[0] // the first integer column is the key-like one
			if g.pct("otherkey", 25) {
				zc = fw.PickU(g.t, "zkey", ints)
			}
			o := "="
			if n.Op != "one" || g.pct("nonequi", 15) {
				o = fw.PickU(g.t, "relop", relOps)
			}
			n.A = []node{nCmp(o, nCol(subqAlias, zc), fw.PickU(g.t, "outercol", oc))}
		case n.Op == "one" && len(ints) > 0:
			n.A = []node{nCmp("=", nCol(subqAlias, ints[0]), g.pivot(bnd{subqAlias, tab}, ints[0], "int"))}
		default:
			if p, ok := g.pred([]bnd{{subqAlias, tab}}); ok {
				n.A = []node{p}
			}
		}
	}
	if n.Op == "one" {
		// more than one record is an error in csvq: fall back to an aggregate where that would happen
		ot := g.m.tabs[outer[0].tab]
		for _, row := range ot.Rows {
			if _, err := evalVal(n, env{{q: outer[0].tab, tab: ot, row: row, m: g.m}}); err != nil {
				if kind != "int" {
					return n, false
				}
				n.Op = "max"
				break
			}
		}
	}
	return n, true
}

// existing: the non-NULL values of a column as literals.
func (g *gen) existing(tab, col string) []node {
	tb := g.m.tabs[tab]
	i := tb.col(col)
	var out []node
	for _, r := range tb.Rows {
		v := r[i]
		if v.IsNull() {
			continue
		}
		if n, ok := ref.AsInteger(v); ok {
			out = append(out, nInt(n))
		} else {
			out = append(out, nStr(v.S))
		}
	}
	return out
}

func (g *gen) pivot(b bnd, col, kind string) node {
	ex := g.existing(b.tab, col)
	if len(ex) > 0 && g.pct("fromtable", 80) {
		p := fw.PickU(g.t, "pivot", ex)
		if p.K == "int" {
			p.N += fw.PickU(g.t, "jitter", []int64{0, 0, 0, -1, 1})
		}
		return p
	}
	return g.lit(kind, 0)
}

var relOps = []string{"=", "<>", "<", "<=", ">", ">="}

func (g *gen) atom(bs []bnd) (node, bool) {
	type cand struct {
		b    bnd
		c, k string
	}
	var cs []cand
	for _, b := range bs {
		for _, c := range g.m.tabs[b.tab].Cols {
			cs = append(cs, cand{b, c, g.kinds[b.tab][c]})
		}
	}
	if len(cs) == 0 {
		return node{}, false
	}
	// integer columns are the backbone of the predicates
	var ws []int
	for _, c := range cs {
		if c.k == "int" {
			ws = append(ws, 3)
		} else {
			ws = append(ws, 1)
		}
	}
	c := cs[fw.Weighted(g.t, "predcol", ws)]
	col := nCol(c.b.q, c.c)
	if c.k == "int" && g.subOuter != nil && g.pct("subq_atom", 22) {
		if n, ok := g.subq("int", nil); ok {
			return nCmp(fw.PickU(g.t, "relop", relOps), col, n), true
		}
	}
	if c.k == "int" {
		others := g.colNodes(bs, "int", map[string]bool{c.b.tab + "." + c.c: true})
		w := []int{53, 15, 12, 12, 8}
		if len(others) == 0 {
			w[1] = 0
		}
		switch fw.Weighted(g.t, "intatom", w) {
		case 0:
			return nCmp(fw.PickU(g.t, "relop", relOps), col, g.pivot(c.b, c.c, "int")), true
		case 1:
			return nCmp(fw.PickU(g.t, "relop", relOps), col, fw.PickU(g.t, "other", others)), true
		case 2:
			return node{K: "isnull", Neg: g.pct("notnull", 50), A: []node{col}}, true
		case 3:
			n := node{K: "in", Neg: g.pct("notin", 25), A: []node{col}}
			for i, k := 0, g.rng("inlen", 1, 3); i < k; i++ {
				n.A = append(n.A, g.pivot(c.b, c.c, "int"))
			}
			return n, true
		}
		return nCmp(fw.PickU(g.t, "relop", relOps), nBin("add", col, nInt(int64(g.rng("k", 1, 3)))), g.pivot(c.b, c.c, "int")), true
	}
	switch fw.Weighted(g.t, "stratom", []int{60, 20, 20}) {
	case 0:
		return nCmp(fw.PickU(g.t, "srelop", []string{"=", "<>", "<", ">="}), col, g.pivot(c.b, c.c, "str")), true
	case 1:
		return node{K: "isnull", Neg: g.pct("notnull", 50), A: []node{col}}, true
	}
	n := node{K: "in", Neg: g.pct("notin", 25), A: []node{col}}
	for i, k := 0, g.rng("inlen", 1, 3); i < k; i++ {
		n.A = append(n.A, g.pivot(c.b, c.c, "str"))
	}
	return n, true
}

func (g *gen) pred(bs []bnd) (node, bool) {
	a, ok := g.atom(bs)
	if !ok {
		return a, false
	}
	switch fw.Weighted(g.t, "predshape", []int{55, 12, 33}) {
	case 1:
		return node{K: "not", A: []node{a}}, true
	case 2:
		b, _ := g.atom(bs)
		return nBin(fw.PickU(g.t, "logic", []string{"and", "or"}), a, b), true
	}
	return a, true
}

// aimed draws up to four predicates and keeps the first for which try reports
// a strict non-empty subset (the last usable one otherwise).
func (g *gen) aimed(bs []bnd, try func(p *node) (string, error)) *node {
	var fallback *node
	rank := map[string]int{"none": 1, "all": 2}
	best := 0
	for i := 0; i < 4; i++ {
		p, ok := g.pred(bs)
		if !ok {
			break
		}
		sub, err := try(&p)
		if err != nil {
			continue
		}
		pp := p
		if sub == "strict" {
			return &pp
		}
		if rank[sub] > best {
			fallback, best = &pp, rank[sub]
		}
		if g.pct("takeany", 15) {
			break
		}
	}
	return fallback
}

// simulate: the effect of op on a copy of the live model.
func (g *gen) simulate(op opT) (*effect, error) {
	return g.m.clone().apply(op)
}

func (g *gen) pickCols(tab string, must []string) []string {
	all := g.m.tabs[tab].Cols
	perm := rapid.Permutation(append([]string(nil), all...)).Draw(g.t, "colperm")
	k := g.rng("ncols", 1, len(all))
	out := append([]string(nil), must...)
	for _, c := range perm {
		if len(out) >= k && len(out) >= len(must) {
			break
		}
		dup := false
		for _, m := range out {
			if m == c {
				dup = true
			}
		}
		if !dup {
			out = append(out, c)
		}
	}
	// the written order is a permutation too
	return rapid.Permutation(out).Draw(g.t, "listorder")
}

func (g *gen) ext(tabs ...string) bool {
	for _, t := range tabs {
		if g.tk[t] == "file" {
			return g.pct("ext", 30)
		}
	}
	return false
}

func (g *gen) genInsert(T string) (opT, bool) {
	room := maxRows - len(g.m.tabs[T].Rows)
	if room < 1 {
		return opT{}, false
	}
	op := opT{K: "insert", T: T, Ext: g.ext(T)}
	cols := g.m.tabs[T].Cols
	if g.pct("collist", 55) {
		op.Cols = g.pickCols(T, nil)
		cols = op.Cols
	}
	n := g.rng("nins", 1, min(3, room))
	for i := 0; i < n; i++ {
		var r []node
		for _, c := range cols {
			r = append(r, g.lit(g.kinds[T][c], 12))
		}
		op.Rows = append(op.Rows, r)
	}
	return op, true
}

func (g *gen) selectList(T string, cols []string, O string) []node {
	var sel []node
	for _, c := range cols {
		sel = append(sel, g.expr(g.kinds[T][c], []bnd{{"", O}}, nil))
	}
	return sel
}

func (g *gen) genInsel(T, O string) (opT, bool) {
	room := maxRows - len(g.m.tabs[T].Rows)
	op := opT{K: "insel", T: T, O: O, Ext: g.ext(T, O)}
	g.subOuter = []bnd{{O, O}}
	defer func() { g.subOuter = nil }()
	cols := g.m.tabs[T].Cols
	if g.pct("collist", 55) {
		op.Cols = g.pickCols(T, nil)
		cols = op.Cols
	}
	op.Sel = g.selectList(T, cols, O)
	try := func(p *node) (string, error) {
		o := op
		o.Where = p
		ef, err := g.simulate(o)
		if err != nil {
			return "", err
		}
		if ef.total > room {
			return "", outside("too many rows")
		}
		return subsetClass(ef.total, len(g.m.tabs[O].Rows)), nil
	}
	if g.pct("where", 65) || len(g.m.tabs[O].Rows) > room {
		op.Where = g.aimed([]bnd{{"", O}}, try)
	}
	if _, err := try(op.Where); err != nil {
		return op, false
	}
	if ic := g.colsOfKind(O, "int", nil); len(ic) > 0 && g.pct("order", 35) {
		o := op
		o.Order, o.Desc = fw.PickU(g.t, "ordercol", ic), g.pct("desc", 50)
		if _, err := g.simulate(o); err == nil {
			op = o
		}
	}
	return op, true
}

func (g *gen) genUpdate(T string) (opT, bool) {
	op := opT{K: "update", T: T, Ext: g.ext(T)}
	g.subOuter = []bnd{{T, T}}
	defer func() { g.subOuter = nil }()
	cols := rapid.Permutation(append([]string(nil), g.m.tabs[T].Cols...)).Draw(g.t, "setcols")
	n := 1
	if len(cols) > 1 && g.pct("twoset", 30) {
		n = 2
	}
	assigned := map[string]bool{}
	for _, c := range cols[:n] {
		assigned[T+"."+c] = true
	}
	for _, c := range cols[:n] {
		ex := map[string]bool{}
		for k := range assigned {
			if k != T+"."+c {
				ex[k] = true
			}
		}
		op.Set = append(op.Set, setT{T: T, C: c, E: g.expr(g.kinds[T][c], []bnd{{"", T}}, ex)})
	}
	if g.pct("where", 88) {
		op.Where = g.aimed([]bnd{{"", T}}, func(p *node) (string, error) {
			o := op
			o.Where = p
			ef, err := g.simulate(o)
			if err != nil {
				return "", err
			}
			return ef.subset, nil
		})
	}
	_, err := g.simulate(op)
	return op, err == nil
}

func (g *gen) genDelete(T string) (opT, bool) {
	op := opT{K: "delete", T: T, Ext: g.ext(T)}
	g.subOuter = []bnd{{T, T}}
	defer func() { g.subOuter = nil }()
	if g.pct("where", 92) {
		op.Where = g.aimed([]bnd{{"", T}}, func(p *node) (string, error) {
			o := op
			o.Where = p
			ef, err := g.simulate(o)
			if err != nil {
				return "", err
			}
			return ef.subset, nil
		})
	}
	_, err := g.simulate(op)
	return op, err == nil
}

// joinSkeleton draws FROM L JOIN R ON ... of a join form.
func (g *gen) joinSkeleton(kind, L, R string) opT {
	op := opT{K: kind, T: L, O: R, Ext: g.ext(L, R), Alias: g.pct("alias", 40)}
	op.Join = []string{"inner", "left", "cross"}[fw.Weighted(g.t, "join", []int{55, 25, 20})]
	li, ri := g.colsOfKind(L, "int", nil), g.colsOfKind(R, "int", nil)
	var on *node
	if len(li) > 0 && len(ri) > 0 {
		lc, rc := li[0], ri[0] // the first integer column is the key-like one
		if g.pct("otherkey", 20) {
			lc, rc = fw.PickU(g.t, "lkey", li), fw.PickU(g.t, "rkey", ri)
		}
		o := "="
		if g.pct("nonequi", 12) {
			o = fw.PickU(g.t, "onop", []string{"<", "<>", ">="})
		}
		c := nCmp(o, nCol(L, lc), nCol(R, rc))
		on = &c
	}
	if op.Join != "cross" {
		if on == nil {
			c := nCmp("=", nInt(1), nInt(1))
			on = &c
		}
		op.On = on
	} else if on != nil && g.pct("crosskey", 80) {
		op.Where = on // FROM L, R WHERE L.k = R.k [AND ...]
	}
	return op
}

func (g *gen) genJoin(kind, L, R string) (opT, bool) {
	var fallback *opT
	for attempt := 0; attempt < 4; attempt++ {
		op := g.joinSkeleton(kind, L, R)
		bs := []bnd{{L, L}, {R, R}}
		if kind == "deljoin" {
			op.Targets = [][]string{{L}, {R}, {L, R}, {R, L}}[fw.Weighted(g.t, "targets", []int{45, 25, 20, 10})]
		} else {
			op.Targets = [][]string{{L}, {R}, {L, R}}[fw.Weighted(g.t, "targets", []int{65, 20, 15})]
			if op.Join == "left" && g.pct("leftonly", 85) {
				op.Targets = []string{L}
			}
			assigned := map[string]bool{}
			type tc struct{ t, c string }
			var items []tc
			for _, t := range op.Targets {
				cols := rapid.Permutation(append([]string(nil), g.m.tabs[t].Cols...)).Draw(g.t, "setcols")
				n := 1
				if len(cols) > 1 && g.pct("twoset", 25) {
					n = 2
				}
				for _, c := range cols[:n] {
					items = append(items, tc{t, c})
					assigned[t+"."+c] = true
				}
			}
			for _, it := range items {
				ex := map[string]bool{}
				for k := range assigned {
					if k != it.t+"."+it.c {
						ex[k] = true
					}
				}
				op.Set = append(op.Set, setT{T: it.t, C: it.c, E: g.expr(g.kinds[it.t][it.c], bs, ex)})
			}
		}
		base := op.Where
		if g.pct("where", 70) {
			p := g.aimed(bs, func(p *node) (string, error) {
				o := op
				o.Where = p
				if base != nil {
					c := nBin("and", *base, *p)
					o.Where = &c
				}
				ef, err := g.simulate(o)
				if err != nil {
					return "", err
				}
				return ef.subset, nil
			})
			if p != nil {
				op.Where = p
				if base != nil {
					c := nBin("and", *base, *p)
					op.Where = &c
				}
			}
		}
		ef, err := g.simulate(op)
		if err != nil {
			continue
		}
		if ef.subset == "none" {
			// an empty match is always inside the model: prefer the form without the extra predicate, or another draw
			o2 := op
			o2.Where = base
			if ef2, err2 := g.simulate(o2); err2 == nil && ef2.subset != "none" {
				return o2, true
			}
			if fallback == nil {
				f := op
				fallback = &f
			}
			continue
		}
		return op, true
	}
	if fallback != nil && g.pct("acceptnone", 40) {
		return *fallback, true
	}
	return opT{}, false
}

// keyCols: one or two columns to use as REPLACE keys (integer columns first).
func (g *gen) keyCols(T string) []string {
	ic, sc := g.colsOfKind(T, "int", nil), g.colsOfKind(T, "str", nil)
	all := append(append([]string(nil), ic...), sc...)
	if len(all) == 0 {
		return nil
	}
	keys := []string{all[0]}
	if g.pct("otherkey", 25) {
		keys = []string{fw.PickU(g.t, "key", all)}
	}
	if len(all) > 2 && g.pct("twokeys", 22) {
		for _, c := range rapid.Permutation(all).Draw(g.t, "key2") {
			if c != keys[0] {
				keys = append(keys, c)
				break
			}
		}
	}
	return keys
}

func (g *gen) genReplace(T string) (opT, bool) {
	tb := g.m.tabs[T]
	keys := g.keyCols(T)
	if len(keys) == 0 {
		return opT{}, false
	}
	for attempt := 0; attempt < 3; attempt++ {
		op := opT{K: "replace", T: T, Ext: g.ext(T), Keys: keys}
		if g.pct("allcols", 25) {
			// no column list: all columns
		} else {
			op.Cols = g.pickCols(T, keys)
		}
		cols := op.Cols
		if len(cols) == 0 {
			cols = tb.Cols
		}
		room := maxRows - len(tb.Rows)
		n := g.rng("nrep", 1, 3)
		misses := 0
		for i := 0; i < n; i++ {
			hit := len(tb.Rows) > 0 && g.pct("hit", 60)
			if !hit && (misses >= room || (avoid("replace", avoidReplaceUnmatchedOrder) && misses >= 1)) {
				if len(tb.Rows) == 0 {
					continue
				}
				hit = true
			}
			var src []val.Val
			if hit {
				src = tb.Rows[g.rng("hitrow", 0, len(tb.Rows)-1)]
			} else {
				misses++
			}
			var r []node
			for _, c := range cols {
				isKey := false
				for _, k := range keys {
					if k == c {
						isKey = true
					}
				}
				switch {
				case isKey && hit && !src[tb.col(c)].IsNull():
					v := src[tb.col(c)]
					if x, ok := ref.AsInteger(v); ok {
						r = append(r, nInt(x))
					} else {
						r = append(r, nStr(v.S))
					}
				case isKey && g.kinds[T][c] == "str":
					g.fresh++
					r = append(r, nStr(fmt.Sprintf("z%d", g.fresh)))
				case isKey:
					g.fresh++
					r = append(r, nInt(int64(40+g.fresh)))
				default:
					r = append(r, g.lit(g.kinds[T][c], 10))
				}
			}
			op.Rows = append(op.Rows, r)
		}
		if len(op.Rows) == 0 {
			continue
		}
		ef, err := g.simulate(op)
		if err != nil || ef.appended > room || (avoid("replace", avoidReplaceUnmatchedOrder) && ef.appended > 1) {
			continue
		}
		return op, true
	}
	return opT{}, false
}

func (g *gen) genRepsel(T, O string) (opT, bool) {
	keys := g.keyCols(T)
	if len(keys) == 0 {
		return opT{}, false
	}
	room := maxRows - len(g.m.tabs[T].Rows)
	g.subOuter = []bnd{{O, O}}
	defer func() { g.subOuter = nil }()
	for attempt := 0; attempt < 3; attempt++ {
		op := opT{K: "repsel", T: T, O: O, Ext: g.ext(T, O), Keys: keys}
		op.Cols = g.pickCols(T, keys)
		for _, c := range op.Cols {
			isKey := false
			for _, k := range keys {
				if k == c {
					isKey = true
				}
			}
			same := g.colNodes([]bnd{{"", O}}, g.kinds[T][c], nil)
			if isKey && len(same) > 0 {
				// a key is fed from a column of the source (the first of the kind is the key-like one)
				n := same[0]
				if g.pct("otherkeysrc", 25) {
					n = fw.PickU(g.t, "keysrc", same)
				}
				op.Sel = append(op.Sel, n)
			} else {
				op.Sel = append(op.Sel, g.expr(g.kinds[T][c], []bnd{{"", O}}, nil))
			}
		}
		try := func(p *node) (string, error) {
			o := op
			o.Where = p
			ef, err := g.simulate(o)
			if err != nil {
				return "", err
			}
			if ef.appended > room || (avoid("replace", avoidReplaceUnmatchedOrder) && ef.appended > 1) {
				return "", outside("too many rows without a match")
			}
			switch {
			case ef.total == 0:
				return "none", nil
			case ef.appended > 0 && ef.total > ef.appended:
				return "strict", nil
			}
			return "all", nil
		}
		if _, err := try(nil); err != nil || g.pct("where", 50) {
			op.Where = g.aimed([]bnd{{"", O}}, try)
		}
		sub, err := try(op.Where)
		if err != nil || (sub == "none" && attempt < 2) {
			continue
		}
		return op, true
	}
	return opT{}, false
}

func (g *gen) genAdd(T string) (opT, bool) {
	tb := g.m.tabs[T]
	if len(tb.Cols) >= 7 {
		return opT{}, false
	}
	op := opT{K: "add", T: T, Ext: g.ext(T)}
	n := 1
	if g.pct("several", 30) {
		n = g.rng("nadd", 2, 3)
	}
	g.pending = map[string]string{}
	for i := 0; i < n; i++ {
		g.fresh++
		a := addT{Name: fmt.Sprintf("n%d", g.fresh)}
		kind := fw.PickU(g.t, "addkind", []string{"int", "str"})
		switch fw.Weighted(g.t, "default", []int{30, 25, 45}) {
		case 1:
			d := g.lit(kind, 0)
			a.Def = &d
		case 2:
			d := g.expr(kind, []bnd{{"", T}}, nil)
			a.Def = &d
		}
		g.pending[a.Name] = kind
		op.Adds = append(op.Adds, a)
	}
	op.Paren = n == 1 && g.pct("paren", 20)
	op.Pos = []string{"", "FIRST", "LAST", "BEFORE", "AFTER"}[fw.Weighted(g.t, "pos", []int{15, 15, 10, 30, 30})]
	if op.Pos == "BEFORE" || op.Pos == "AFTER" {
		op.PosCol = fw.PickU(g.t, "poscol", tb.Cols)
	}
	_, err := g.simulate(op)
	return op, err == nil
}

func (g *gen) genDrop(T string) (opT, bool) {
	tb := g.m.tabs[T]
	if len(tb.Cols) < 3 {
		return opT{}, false
	}
	n := 1
	if len(tb.Cols) >= 4 && g.pct("dropseveral", 30) {
		n = 2
	}
	perm := rapid.Permutation(append([]string(nil), tb.Cols...)).Draw(g.t, "dropcols")
	op := opT{K: "drop", T: T, Ext: g.ext(T)}
	ints := len(g.colsOfKind(T, "int", nil))
	for _, c := range perm {
		if len(op.Drops) == n {
			break
		}
		if g.kinds[T][c] == "int" {
			if ints <= 1 {
				continue // keep an integer column for the predicates
			}
			ints--
		}
		op.Drops = append(op.Drops, c)
	}
	if len(op.Drops) == 0 {
		return op, false
	}
	op.Paren = len(op.Drops) == 1 && g.pct("paren", 20)
	_, err := g.simulate(op)
	return op, err == nil
}

func (g *gen) genRename(T string) (opT, bool) {
	tb := g.m.tabs[T]
	g.fresh++
	op := opT{K: "rename", T: T, Ext: g.ext(T), Old: fw.PickU(g.t, "old", tb.Cols), New: fmt.Sprintf("r%d", g.fresh)}
	_, err := g.simulate(op)
	return op, err == nil
}

func (g *gen) accept(op opT) {
	switch op.K {
	case "commit":
		g.committed, g.ckinds = g.m.clone(), copyKinds(g.kinds)
		g.stdinDirty = false
	case "rollback":
		g.m, g.kinds = g.committed.clone(), copyKinds(g.ckinds)
		g.stdinDirty = false
	default:
		if _, err := g.m.apply(op); err != nil {
			panic("generator produced an operation outside the model: " + err.Error())
		}
		switch op.K {
		case "add":
			for c, k := range g.pending {
				g.kinds[op.T][c] = k
			}
		case "drop":
			for _, c := range op.Drops {
				delete(g.kinds[op.T], c)
			}
		case "rename":
			g.kinds[op.T][op.New] = g.kinds[op.T][op.Old]
			delete(g.kinds[op.T], op.Old)
		}
		for _, t := range forUpdateTables(op) {
			if g.tk[t] == "stdin" {
				g.stdinDirty = true
			}
		}
	}
	g.ops = append(g.ops, op)
}

var opKinds = []string{"insert", "insel", "update", "updjoin", "delete", "deljoin", "replace", "repsel", "add", "drop", "rename", "commit", "rollback"}

func genCase(t *rapid.T) histCase {
	g := &gen{t: t, m: &model{tabs: map[string]*table{}}, kinds: map[string]map[string]string{}, tk: map[string]string{}}
	c := histCase{TKind: []string{"file", "temp", "stdin"}[fw.Weighted(t, "tkind", []int{40, 30, 30})]}
	g.tk["t"] = c.TKind
	g.initTable("t")
	tables := []string{"t"}
	if fw.Pct(t, "two", 75) {
		c.UKind = fw.PickU(t, "ukind", []string{"file", "temp"})
		g.tk["u"] = c.UKind
		g.initTable("u")
		tables = append(tables, "u")
	}
	c.T = g.m.tabs["t"].clone()
	if c.UKind != "" {
		c.U = g.m.tabs["u"].clone()
	}
	g.committed, g.ckinds = g.m.clone(), copyKinds(g.kinds)

	steps := fw.Range(t, "steps", 3, maxSteps)
	weights := []int{11, 8, 14, 11, 9, 9, 9, 5, 8, 4, 3, 5, 4}
	if len(tables) == 1 {
		weights[3], weights[5] = 0, 0
	}
	for len(g.ops) < steps {
		kind := opKinds[fw.Weighted(t, "op", weights)]
		T := "t"
		if len(tables) == 2 && fw.Pct(t, "target_u", 35) {
			T = "u"
		}
		O := T
		if len(tables) == 2 && (kind == "updjoin" || kind == "deljoin" || fw.Pct(t, "othersource", 80)) {
			O = map[string]string{"t": "u", "u": "t"}[T]
		}
		if kind != "commit" && kind != "rollback" && avoid("stdin", avoidStdinSecondDMLLockTimeout) && g.stdinDirty {
			touches := g.tk[T] == "stdin" || ((kind == "updjoin" || kind == "deljoin") && g.tk[O] == "stdin")
			if touches {
				if fw.Pct(t, "boundary_commit", 75) {
					g.accept(opT{K: "commit"})
				} else {
					g.accept(opT{K: "rollback"})
				}
				if len(g.ops) >= steps {
					break
				}
			}
		}
		var op opT
		ok := false
		switch kind {
		case "insert":
			op, ok = g.genInsert(T)
		case "insel":
			op, ok = g.genInsel(T, O)
		case "update":
			op, ok = g.genUpdate(T)
		case "updjoin", "deljoin":
			op, ok = g.genJoin(kind, T, O)
		case "delete":
			op, ok = g.genDelete(T)
		case "replace":
			op, ok = g.genReplace(T)
		case "repsel":
			op, ok = g.genRepsel(T, O)
		case "add":
			op, ok = g.genAdd(T)
		case "drop":
			op, ok = g.genDrop(T)
		case "rename":
			op, ok = g.genRename(T)
		case "commit", "rollback":
			op, ok = opT{K: kind}, true
		}
		if !ok {
			// fall back to statements that are always available
			if len(g.m.tabs[T].Rows) >= maxRows/2 {
				op, ok = g.genDelete(T)
			} else {
				op, ok = g.genInsert(T)
			}
			if !ok {
				op, ok = g.genUpdate(T)
			}
			if !ok {
				continue
			}
		}
		if kind != "commit" && kind != "rollback" && fw.Pct(t, "wrap", 35) {
			n := 1
			if fw.Pct(t, "wrap2", 35) {
				n = 2
			}
			for i := 0; i < n; i++ {
				op.Wrap = append(op.Wrap, []string{"if", "case", "while", "func"}[fw.Weighted(t, "wrapper", []int{30, 20, 25, 25})])
			}
		}
		g.accept(op)
	}
	c.Ops = g.ops
	return c
}

// ---------------------------------------------------------------------
// expectations (pure) and execution

type stepExp struct {
	op         opT
	sql        string
	prog       string // the program text executed: the statement, possibly inside control flow
	ef         *effect
	after      *model // all tables after the step
	committed  *model // commit: the committed state
	stdinAgain bool   // a second for-update statement on STDIN inside one transaction
}

// text: the program text of the step as executed.
func (st stepExp) text() string { return strings.TrimSuffix(st.prog, ";") }

// expectations runs the model over the history; the history is cut at the
// first operation outside the modelled fragment.
func expectations(c histCase) ([]stepExp, string) {
	nm := c.naming()
	cur := c.model()
	committed := cur.clone()
	stdinDirty := false
	var steps []stepExp
	for _, op := range c.Ops {
		st := stepExp{op: op}
		switch op.K {
		case "commit":
			committed = cur.clone()
			st.committed = committed.clone()
			stdinDirty = false
		case "rollback":
			cur = committed.clone()
			stdinDirty = false
		default:
			if op.O != "" && cur.tabs[op.O] == nil {
				return steps, "other table"
			}
			ef, err := cur.apply(op)
			if err != nil {
				return steps, whyOutside(err)
			}
			st.ef = ef
			for _, t := range forUpdateTables(op) {
				if nm.kind[t] == "stdin" {
					st.stdinAgain = stdinDirty
					stdinDirty = true
				}
			}
		}
		st.sql = nm.sql(op)
		st.prog = st.sql + ";"
		if len(op.Wrap) > 0 {
			if op.K == "commit" || op.K == "rollback" {
				return steps, "wrapped transaction statement"
			}
			var ok bool
			if st.prog, ok = wrapSQL(st.sql, op.Wrap, len(steps)); !ok {
				return steps, "wrapper"
			}
		}
		st.after = cur.clone()
		steps = append(steps, st)
	}
	return steps, ""
}

func csvText(tb *table) string {
	var b strings.Builder
	b.WriteString(strings.Join(tb.Cols, ","))
	b.WriteString("\n")
	for _, r := range tb.Rows {
		for i, v := range r {
			if i > 0 {
				b.WriteString(",")
			}
			if !v.IsNull() {
				b.WriteString(v.S)
			}
		}
		b.WriteString("\n")
	}
	return b.String()
}

func showTable(cols []string, rows [][]val.Val) string {
	var b strings.Builder
	b.WriteString("      " + strings.Join(cols, "|") + "\n")
	for _, r := range rows {
		var cs []string
		for _, v := range r {
			cs = append(cs, v.String())
		}
		b.WriteString("      " + strings.Join(cs, "|") + "\n")
	}
	return b.String()
}

func cellEq(want, got val.Val) bool {
	if want.IsNull() || got.IsNull() {
		return want.IsNull() && got.IsNull()
	}
	return want.S == got.S
}

func rowEqual(a, b []val.Val) bool {
	if len(a) != len(b) {
		return false
	}
	for i := range a {
		if !cellEq(a[i], b[i]) {
			return false
		}
	}
	return true
}

// diffTable compares by column names, column order, row order, cell text and NULL-ness.
func diffTable(want *table, got run.Tbl) string {
	if strings.Join(want.Cols, "\x00") != strings.Join(got.Header, "\x00") {
		return fmt.Sprintf("columns %v, expected %v", got.Header, want.Cols)
	}
	if len(want.Rows) != len(got.Rows) {
		return fmt.Sprintf("%d rows, expected %d", len(got.Rows), len(want.Rows))
	}
	for i := range want.Rows {
		if !rowEqual(want.Rows[i], got.Rows[i]) {
			return fmt.Sprintf("row %d differs", i+1)
		}
	}
	return ""
}

// samePrefixPermutedTail: got equals want on the first n rows and holds the
// remaining rows of want in another order.
func samePrefixPermutedTail(want *table, got run.Tbl, n int) bool {
	if len(want.Rows) != len(got.Rows) || n > len(want.Rows) || strings.Join(want.Cols, "\x00") != strings.Join(got.Header, "\x00") {
		return false
	}
	for i := 0; i < n; i++ {
		if !rowEqual(want.Rows[i], got.Rows[i]) {
			return false
		}
	}
	used := make([]bool, len(got.Rows))
	for _, w := range want.Rows[n:] {
		found := false
		for j := n; j < len(got.Rows); j++ {
			if !used[j] && rowEqual(w, got.Rows[j]) {
				used[j], found = true, true
				break
			}
		}
		if !found {
			return false
		}
	}
	return true
}

var logRe = regexp.MustCompile(`^(no|\d+) records? (inserted|updated|deleted|replaced) on "(.*)"\.$`)

type logLine struct {
	n    int
	verb string
	path string
}

func parseLog(out string) []logLine {
	var ls []logLine
	for _, l := range strings.Split(out, "\n") {
		m := logRe.FindStringSubmatch(strings.TrimSpace(l))
		if m == nil {
			continue
		}
		n := 0
		if m[1] != "no" {
			n, _ = strconv.Atoi(m[1])
		}
		ls = append(ls, logLine{n, m[2], m[3]})
	}
	return ls
}

var caseSeq int64

type runner struct {
	c     histCase
	nm    naming
	cpu   int
	dir   string
	s     *run.Sess
	trace []string

	shortWait bool
}

func (r *runner) note(format string, args ...interface{}) {
	r.trace = append(r.trace, fmt.Sprintf(format, args...))
}

func (r *runner) tail() string {
	t := r.trace
	if len(t) > 14 {
		t = t[len(t)-14:]
	}
	return fmt.Sprintf("\n    [cpu %d, t: %s, u: %s]\n    %s", r.cpu, r.c.TKind, r.c.UKind, strings.Join(t, "\n    "))
}

func (r *runner) pathTable(p string) string {
	for t, k := range r.nm.kind {
		switch k {
		case "file":
			if filepath.Base(p) == t+".csv" {
				return t
			}
		case "stdin":
			if strings.EqualFold(p, "STDIN") {
				return t
			}
		default:
			if strings.EqualFold(p, t) {
				return t
			}
		}
	}
	return ""
}

func (r *runner) selectAll(s *run.Sess, t string) (run.Tbl, error) {
	return s.Query("SELECT * FROM " + r.nm.tref(t, false) + ";")
}

// compareAll checks every table of the model against SELECT *.
func (r *runner) compareAll(st stepExp) *fw.Violation {
	isTarget := map[string]bool{}
	if st.ef != nil {
		for t := range st.ef.counts {
			isTarget[t] = true
		}
		if st.ef.verb == "" {
			isTarget[st.op.T] = true
		}
	}
	for _, t := range st.after.names() {
		want := st.after.tabs[t]
		got, err := r.selectAll(r.s, t)
		if err != nil {
			return fw.V("select_after_"+st.op.K+"_error", "SELECT * FROM %s after %q failed: %v%s", t, st.text(), err, r.tail())
		}
		d := diffTable(want, got)
		if d == "" {
			continue
		}
		sig := st.op.K + "_result"
		switch {
		case !isTarget[t] && st.ef != nil:
			sig = st.op.K + "_changed_other_table"
		case (st.op.K == "replace" || st.op.K == "repsel") && st.ef.appended >= 2 && samePrefixPermutedTail(want, got, len(want.Rows)-st.ef.appended):
			sig = "replace_unmatched_order"
			d = fmt.Sprintf("the %d given rows without a matching record were appended in another order than given", st.ef.appended)
		}
		return fw.V(sig, "table %s after %q: %s\n    got\n%s    expected\n%s%s", t, st.text(), d, showTable(got.Header, got.Rows), showTable(want.Cols, want.Rows), r.tail())
	}
	return nil
}

func (r *runner) start() *fw.Violation {
	r.dir = filepath.Join(fw.WorkDir(), fmt.Sprintf("c05-%d", atomic.AddInt64(&caseSeq, 1)))
	if err := os.MkdirAll(r.dir, 0755); err != nil {
		return fw.Harness("mkdir: %v", err)
	}
	m := r.c.model()
	files := map[string]string{}
	opt := run.Opt{Dir: r.dir, CPU: r.cpu, CaptureOut: true}
	for _, t := range m.names() {
		switch r.nm.kind[t] {
		case "file":
			files[t+".csv"] = csvText(m.tabs[t])
		case "stdin":
			opt.HasStdin, opt.Stdin = true, csvText(m.tabs[t])
			if r.shortWait {
				// the history holds two for-update statements on STDIN in one transaction: if the
				// session waits there, it waits for its own lock (nobody else can hold the lock of a
				// private session), so a short wait loses nothing
				opt.WaitTimeout = 3 * time.Second
			}
		}
	}
	if err := run.WriteFiles(r.dir, files); err != nil {
		return fw.Harness("write files: %v", err)
	}
	s, err := run.NewSess(opt)
	if err != nil {
		return fw.Harness("session: %v", err)
	}
	r.s = s
	s.Tx.Flags.SetQuiet(false)
	for _, t := range m.names() {
		if r.nm.kind[t] != "temp" {
			continue
		}
		tb := m.tabs[t]
		setup := []string{fmt.Sprintf("DECLARE %s VIEW (%s);", t, strings.Join(tb.Cols, ", "))}
		for _, row := range tb.Rows {
			var vs []string
			for _, v := range row {
				vs = append(vs, v.SQL())
			}
			setup = append(setup, fmt.Sprintf("INSERT INTO %s VALUES (%s);", t, strings.Join(vs, ", ")))
		}
		for _, q := range setup {
			if res := s.Exec(q); res.Err != nil {
				return fw.Harness("set-up statement %q failed: %v", q, res.Err)
			}
		}
	}
	if res := s.Exec("COMMIT;"); res.Err != nil {
		return fw.Harness("set-up COMMIT failed: %v", res.Err)
	}
	for _, t := range m.names() {
		got, err := r.selectAll(s, t)
		if err != nil {
			return fw.Harness("initial SELECT * FROM %s failed: %v", t, err)
		}
		if d := diffTable(m.tabs[t], got); d != "" {
			return fw.Harness("initial table %s is not the generated one: %s", t, d)
		}
	}
	return nil
}

func (r *runner) finish() {
	if r.s != nil {
		r.s.Close()
	}
	if r.dir != "" {
		_ = os.RemoveAll(r.dir)
	}
}

func (r *runner) step(st stepExp) *fw.Violation {
	r.s.Out.Reset()
	res := r.s.Exec(st.prog)
	out := r.s.Out.String()
	line := strings.TrimSuffix(st.prog, ";")
	if res.Err != nil {
		line += "   -> " + run.ErrClass(res.Err) + " " + res.Err.Error()
	} else {
		line += "   -> " + strings.ReplaceAll(strings.TrimSpace(out), "\n", " / ")
	}
	r.note("%s", line)
	if res.ParseErr {
		return fw.Harness("generated statement does not parse: %s: %v", st.text(), res.Err)
	}
	if res.Err != nil {
		msg := res.Err.Error()
		sig := st.op.K + "_error"
		switch {
		case st.stdinAgain && strings.Contains(msg, "lock wait timeout"):
			sig = "stdin_second_dml_lock_timeout"
		case strings.Contains(msg, "file  does not exist"):
			sig = "from_subquery_poisons_fileinfo"
		}
		return fw.V(sig, "%q failed: %s %v; the model expects it to succeed%s", st.text(), run.ErrClass(res.Err), res.Err, r.tail())
	}
	switch st.op.K {
	case "commit":
		if v := r.compareAll(st); v != nil {
			return v
		}
		// the files, re-read by a fresh session, equal the model
		for _, t := range st.committed.names() {
			if r.nm.kind[t] != "file" {
				continue
			}
			fs, err := run.NewSess(run.Opt{Dir: r.dir, CPU: r.cpu})
			if err != nil {
				return fw.Harness("session: %v", err)
			}
			got, err := r.selectAll(fs, t)
			fs.Close()
			if err != nil {
				return fw.V("commit_file_unreadable", "after COMMIT a fresh session cannot read %s: %v%s", t, err, r.tail())
			}
			if d := diffTable(st.committed.tabs[t], got); d != "" {
				b, _ := os.ReadFile(filepath.Join(r.dir, t+".csv"))
				return fw.V("commit_file_differs", "file %s.csv re-read by a fresh session after COMMIT: %s\n    got\n%s    expected\n%s    file: %q%s", t, d, showTable(got.Header, got.Rows), showTable(st.committed.tabs[t].Cols, st.committed.tabs[t].Rows), b, r.tail())
			}
		}
		return nil
	case "rollback":
		return r.compareAll(st)
	}
	ef := st.ef
	if ef.verb != "" {
		// the reported number of affected records
		// (statements inside blocks run on child processors, which do not store it: there only the log line)
		if len(st.op.Wrap) == 0 && res.Affected != ef.total {
			return fw.V(st.op.K+"_count", "%q reported %d affected records; the statement %s %d%s", st.text(), res.Affected, ef.verb, ef.total, r.tail())
		}
		seen := map[string]bool{}
		for _, l := range parseLog(out) {
			t := r.pathTable(l.path)
			if t == "" {
				return fw.V(st.op.K+"_log_table", "%q logged %q, not a table of the statement%s", st.text(), l.path, r.tail())
			}
			if l.verb != ef.verb {
				return fw.V(st.op.K+"_log_verb", "%q logged records %s, expected %s%s", st.text(), l.verb, ef.verb, r.tail())
			}
			if l.n != ef.counts[t] || seen[t] {
				return fw.V(st.op.K+"_log_count", "%q logged %d record(s) %s on %s; the statement %s %d there%s", st.text(), l.n, l.verb, t, ef.verb, ef.counts[t], r.tail())
			}
			seen[t] = true
		}
		for t, n := range ef.counts {
			if n > 0 && !seen[t] {
				return fw.V(st.op.K+"_log_missing", "%q logged nothing for %s (%d records %s): %q%s", st.text(), t, n, ef.verb, out, r.tail())
			}
		}
	}
	return r.compareAll(st)
}

func runHistory(c histCase, steps []stepExp, cpu int) *fw.Violation {
	r := &runner{c: c, nm: c.naming(), cpu: cpu}
	for _, st := range steps {
		r.shortWait = r.shortWait || st.stdinAgain
	}
	defer r.finish()
	if v := r.start(); v != nil {
		return v
	}
	for _, st := range steps {
		if v := r.step(st); v != nil {
			return v
		}
	}
	return nil
}

var tokenOf = map[string]string{"insert": "I", "insel": "Is", "update": "U", "updjoin": "Uj", "delete": "D", "deljoin": "Dj",
	"replace": "R", "repsel": "Rs", "add": "A", "drop": "X", "rename": "N", "commit": "C", "rollback": "B"}

func checkHist(c histCase) (fw.Outcome, *fw.Violation) {
	o := fw.Outcome{}
	class := func(s string) { o.Classes = append(o.Classes, s) }
	if c.T == nil || (c.TKind != "file" && c.TKind != "temp" && c.TKind != "stdin") || (c.UKind != "" && (c.U == nil || (c.UKind != "file" && c.UKind != "temp"))) {
		o.Discard = true
		return o, nil
	}
	for _, tb := range []*table{c.T, c.U} {
		if tb == nil {
			continue
		}
		if len(tb.Cols) < 2 {
			o.Discard = true
			return o, nil
		}
		for _, r := range tb.Rows {
			if len(r) != len(tb.Cols) {
				o.Discard = true
				return o, nil
			}
		}
	}
	steps, cut := expectations(c)
	if cut != "" {
		fw.AddExtra("history_cut:"+cut, 1)
	}
	if len(steps) == 0 {
		o.Discard = true
		return o, nil
	}
	class("t:" + c.TKind)
	if c.UKind != "" {
		class("u:" + c.UKind)
	} else {
		class("u:none")
	}

	for _, cpu := range []int{1, 4} {
		if v := runHistory(c, steps, cpu); v != nil {
			return o, v
		}
	}
	o.Evals = 2

	// classes and the non-trivial rule
	var toks []string
	changing, strict := 0, false
	kinds := map[string]bool{}
	for _, st := range steps {
		tok := tokenOf[st.op.K]
		if st.ef == nil {
			class("op:" + st.op.K)
			toks = append(toks, tok)
			continue
		}
		ef := st.ef
		class("op:" + st.op.K)
		if c.naming().kind[st.op.T] == "stdin" {
			class("on_stdin")
		}
		if len(st.op.Wrap) > 0 {
			for _, w := range st.op.Wrap {
				class("wrap:" + w)
			}
			if len(st.op.Wrap) > 1 {
				class("wrap:nested")
			}
			class("wrapped:" + c.naming().kind[st.op.T])
			tok = strings.Join(st.op.Wrap, ">") + ">" + tok
		}
		{
			reads, corr, any := map[string]bool{}, false, false
			for _, x := range st.op.Set {
				if hasSubq(x.E, reads, &corr) {
					any = true
					class("subq:in_set")
				}
			}
			for _, x := range st.op.Sel {
				if hasSubq(x, reads, &corr) {
					any = true
					class("subq:in_select_list")
				}
			}
			if st.op.Where != nil && hasSubq(*st.op.Where, reads, &corr) {
				any = true
				class("subq:in_where")
			}
			if any {
				tok += "q"
				if reads[st.op.T] {
					class("subq:reads_target")
				}
				if corr {
					class("subq:correlated")
				}
			}
		}
		if ef.changed {
			changing++
			kinds[st.op.K] = true
		}
		switch st.op.K {
		case "update", "delete", "updjoin", "deljoin":
			class(st.op.K + ":matched_" + ef.subset)
			tok += ef.subset[:1]
			if ef.subset == "strict" {
				strict = true
			}
		case "replace", "repsel":
			how := "nothing"
			switch {
			case ef.appended > 0 && ef.total > ef.appended:
				how = "updates_and_appends"
			case ef.appended > 0:
				how = "appends"
			case ef.total > 0:
				how = "updates"
			}
			class(st.op.K + ":" + how)
			if ef.appended >= 2 {
				class(st.op.K + ":appends_2+")
			}
			tok += how[:1]
			if ef.subset == "strict" {
				strict = true
			}
		case "insert", "insel":
			n := "0"
			switch {
			case ef.total == 1:
				n = "1"
			case ef.total > 1:
				n = "2+"
			}
			class(st.op.K + ":rows_" + n)
			if len(st.op.Cols) > 0 {
				class(st.op.K + ":column_list")
			}
			if st.op.Order != "" {
				class("insel:order_by")
			}
			tok += n[:1]
		case "add":
			pos := st.op.Pos
			if pos == "" {
				pos = "default"
			}
			class("add:" + pos)
			if len(st.op.Adds) > 1 {
				class("add:several")
			}
			for _, a := range st.op.Adds {
				switch {
				case a.Def == nil:
					class("add:no_default")
				case a.Def.K == "int" || a.Def.K == "str" || a.Def.K == "null":
					class("add:default_literal")
				default:
					class("add:default_expression")
				}
			}
		case "drop":
			if len(st.op.Drops) > 1 {
				class("drop:several")
			}
		}
		if st.op.K == "updjoin" || st.op.K == "deljoin" {
			class("join:" + st.op.Join)
			if len(st.op.Targets) > 1 {
				class("join:two_targets")
			}
		}
		toks = append(toks, tok)
	}
	if cut != "" {
		class("history_cut")
	}
	if changing >= 3 && len(kinds) >= 2 && strict {
		class("nontrivial")
		o.Fingerprint = c.TKind + "/" + c.UKind + ":" + strings.Join(toks, " ")
	}
	return o, nil
}

func TestC05History(t *testing.T) {
	fw.Run(t, fw.Spec[histCase]{
		ID: "C05", Name: "dml_history", Quick: 10000, Thorough: 200000,
		Gen: genCase, Check: checkHist,
		Rule: "tables t (CSV file, temporary table or STDIN) and optionally u (file or temporary table), 2-4 columns (integer-like id/v/w, string s; NULLs, duplicate ids), 0-6 rows, and a history of 3-12 statements generated up front next to a live copy of the model: INSERT VALUES (column subset / permuted list), INSERT SELECT (expressions, WHERE, ORDER BY on a total order; other table or itself), UPDATE (1-2 SET items), scalar subqueries (SUM/MAX/MIN/COUNT/single value over the target or the other table, optionally correlated) in SET values, WHERE clauses of UPDATE/DELETE and in INSERT/REPLACE..SELECT (all read the state before the statement), UPDATE..FROM (JOIN / LEFT JOIN / comma join, aliases, one or two targets), DELETE, multi-table DELETE, REPLACE USING(1-2 keys) VALUES / SELECT, ALTER TABLE ADD (one/several, DEFAULT literal/expression, FIRST/LAST/BEFORE/AFTER) / DROP / RENAME, COMMIT, ROLLBACK; 35% of the data-changing statements run inside control flow executing them exactly once (IF, CASE, WHILE with a counter, a user function body called once; nested up to two deep), the model being that of the bare statement; predicates (relational operators, AND/OR/NOT, IS NULL, IN, arithmetic) are aimed at strict non-empty subsets. Each history is executed statement by statement on one in-process session at --cpu 1 and again at --cpu 4; after every step SELECT * of every table equals the model (column names and order, row order, cell text, NULL-ness), Tx.AffectedRows and the 'N record(s) <verb> on <table>' log lines equal the model's inserted/matched/removed counts; after COMMIT every file re-read by a fresh session equals the model; after ROLLBACK the model is the last committed state. Non-trivial = at least 3 data-changing steps of at least 2 kinds, one of which matches a strict non-empty subset of its target's rows; distinct by (table kinds, sequence of rule names with their match class)",
		Assumptions: []string{
			"UPDATE counts the records matched by the condition (changed or not), per property statement; REPLACE counts the records whose key matched plus the rows appended",
			"SET expressions never read a column assigned by another SET item of the same statement (evaluation order not documented); a record to update that is joined more than once, updating the NULL-extended side of a LEFT JOIN, ORDER BY keys with ties or NULLs, REPLACE rows with duplicate or NULL keys are outside the modelled fragment: the history is cut there (measured as history_cut:*)",
			"a scalar subquery inside a data-changing statement reads the tables as they were before the statement (the manual says nothing else; textbook semantics); SUM returns a float whose text equals the integer sum (cells are compared by text)",
			"a statement inside IF / CASE / WHILE / a function body changes the tables of the enclosing scopes exactly as the bare statement does (temporary-table.md, control-flow.md: only declarations are local to a block); Tx.AffectedRows is not stored by child processors, inside blocks only the log line is compared",
			"tables keep at least two columns (a one-column record with a NULL cell is a blank CSV line: C02)",
			"the row order of SELECT over one table of at most 10 rows is the table's row order at --cpu 1 and --cpu 4",
			"avoidReplaceUnmatchedOrder: REPLACE is generated with at most one row that matches no record (known open defect: several such rows are appended in Go-map order)",
			"avoidStdinSecondDMLLockTimeout: the generator separates two statements that load STDIN for update by COMMIT/ROLLBACK (open defect: the second one waits for the session's own STDIN lock and fails)",
		},
	})
}
