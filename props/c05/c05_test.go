package c05

import (
	"encoding/json"
	"fmt"
	"os"
	"path/filepath"
	"regexp"
	"strconv"
	"strings"
	"sync/atomic"
	"testing"
	"time"

	"pgregory.net/rapid"

	"github.com/mithrandie/csvq/lib/query"

	"verif/internal/fw"
	"verif/internal/ref"
	"verif/internal/run"
	"verif/internal/val"
)

func TestMain(m *testing.M) { fw.Main(m) }

// ---------------------------------------------------------------------
// Known open defects the generator steers around so that the search goes on.
// Both shapes stay executable by checkHist (a replay file or a pinned case
// containing them is checked against the unchanged oracle); setting
// C05_NO_AVOID=replace,stdin lets the generator produce them again.

// View.replace (lib/query/view.go, "for i, isReplaced := range replacedRecord")
// appends the given rows that matched no record by ranging over a Go map: with
// two or more such rows their order varies from run to run. The generator gives
// REPLACE at most one row without a matching record.
const avoidReplaceUnmatchedOrder = false

// loadObjectFromStdin (lib/query/load_view.go:521-537) takes the exclusive STDIN
// lock for every statement that loads STDIN for update, because FileInfo.ForUpdate
// of the stdin view is never set; the lock is only released by COMMIT/ROLLBACK, so
// the second data-changing statement on STDIN inside one transaction waits for the
// session's own lock and fails with "lock wait timeout period exceeded". The
// generator puts a COMMIT or ROLLBACK between two such statements.
const avoidStdinSecondDMLLockTimeout = true

// The LTSV reader of the dependency github.com/mithrandie/go-text v1.6.0
// (ltsv/reader.go, "case ':': readingKey = false") drops every colon of a field
// after the first one: the value a:b:c is written correctly by COMMIT but read
// back as abc, and the next COMMIT of the table writes the damaged text into
// cells no statement touched. The generator gives LTSV tables no text with a colon.
const avoidLTSVValueColonLost = true

func avoid(name string, dflt bool) bool {
	for _, x := range strings.Split(os.Getenv("C05_NO_AVOID"), ",") {
		if strings.TrimSpace(x) == name {
			return false
		}
	}
	return dflt
}

// ---------------------------------------------------------------------
// the case

type histCase struct {
	TKind string `json:"t_kind"`          // file | temp | stdin
	UKind string `json:"u_kind"`          // "" (no second table) | file | temp
	TFmt  string `json:"t_fmt,omitempty"` // file tables: "" (csv) | tsv | json | jsonl | ltsv
	UFmt  string `json:"u_fmt,omitempty"`
	TPos  string `json:"t_pos,omitempty"` // fixed: SPACES | [p1, p2, ...]
	UPos  string `json:"u_pos,omitempty"`
	T     *table `json:"t"`
	U     *table `json:"u,omitempty"`
	Ops   []opT  `json:"ops"`
	CPU   int    `json:"cpu,omitempty"`   // --cpu of the second execution (0: 4)
	TNew  bool   `json:"t_new,omitempty"` // the file table is created by CREATE TABLE inside the session and filled by INSERT; nothing is committed before the history
	UNew  bool   `json:"u_new,omitempty"`
}

// created: the file tables that exist only inside the transaction when the history starts.
func (c histCase) created() map[string]bool {
	return map[string]bool{"t": c.TNew && c.TKind == "file", "u": c.UNew && c.UKind == "file"}
}

func (c histCase) anyCreated() bool { cr := c.created(); return cr["t"] || cr["u"] }

func (c histCase) model() *model {
	m := &model{tabs: map[string]*table{}}
	if c.T != nil {
		m.tabs["t"] = c.T.clone()
	}
	if c.U != nil && c.UKind != "" {
		m.tabs["u"] = c.U.clone()
	}
	return m
}

func (c histCase) naming() naming {
	nm := naming{kind: map[string]string{"t": c.TKind}, ffmt: map[string]string{}, pos: map[string]string{}}
	if c.TKind == "file" {
		nm.ffmt["t"], nm.pos["t"] = c.TFmt, c.TPos
	}
	if c.UKind != "" {
		nm.kind["u"] = c.UKind
		if c.UKind == "file" {
			nm.ffmt["u"], nm.pos["u"] = c.UFmt, c.UPos
		}
	}
	return nm
}

const maxRows = 10
const maxSteps = 12

// ---------------------------------------------------------------------
// generator: builds the history next to a live copy of the model, so that
// predicates can be aimed at strict non-empty subsets and every statement is
// inside the modelled fragment by construction.

type bnd struct{ q, tab string } // qualifier used in expressions ("" = unqualified), logical table

type gen struct {
	t          *rapid.T
	m          *model
	kinds      map[string]map[string]string // table -> column -> int | str
	tk         map[string]string
	committed  *model
	ckinds     map[string]map[string]string
	fresh      int
	stdinDirty bool
	pending    map[string]string // kinds of columns added by the operation under construction
	subOuter   []bnd             // non-nil: expressions and predicates may hold scalar subqueries; the tables of the enclosing statement
	ops        []opT
	fixed      map[string]bool // fixed-length file tables: no payload column is added to them
	noCtl      bool            // a table is an LTSV file: no generated text holds a tab or a line break
	maxRows    int             // no statement grows a table beyond this
	subqPct    int             // scale (percent) of the subquery probabilities
	bulk       bool
}

// rawPool: cell texts of the payload column p. No predicate and no expression
// of a generated statement reads p: its cells are only inserted, copied as a
// whole (SET p = p2, SELECT p) or left alone, so the model needs no rule about
// their type - only "all other cells are unchanged" and "the given value is
// stored" apply, whatever the text looks like.
var rawPool = []string{"007", "1.50", " x ", "a,b", `say "hi"`, "l1\nl2", "true", "2024-01-02 03:04:05", "Åä-日本", "-0", "1e3", "0x1F", "it's", "NULL", "tab\there", `back\slash`, "0123456789012345678901234567890123456789", "+5", ".5", "1,000", "null", " ", "\"", "a\r\nb"}

func (g *gen) rawLit() node {
	if g.noCtl {
		return nStr(fw.PickU(g.t, "raw", rawPoolNoCtl))
	}
	return nStr(fw.PickU(g.t, "raw", rawPool))
}

// rawPoolNoCtl: the texts an LTSV field value may hold (no tab, no line break).
var rawPoolNoCtl = func() []string {
	var out []string
	for _, s := range rawPool {
		if !strings.ContainsAny(s, "\t\r\n") && !(strings.Contains(s, ":") && avoid("ltsv", avoidLTSVValueColonLost)) {
			out = append(out, s)
		}
	}
	return out
}()

func hasColon(tb *table) bool {
	for _, r := range tb.Rows {
		for _, v := range r {
			if !v.IsNull() && strings.Contains(v.S, ":") {
				return true
			}
		}
	}
	return false
}

func hasCtl(tb *table) bool {
	for _, r := range tb.Rows {
		for _, v := range r {
			if !v.IsNull() && strings.ContainsAny(v.S, "\t\r\n") {
				return true
			}
		}
	}
	return false
}

func copyKinds(k map[string]map[string]string) map[string]map[string]string {
	out := map[string]map[string]string{}
	for t, m := range k {
		out[t] = map[string]string{}
		for c, v := range m {
			out[t][c] = v
		}
	}
	return out
}

func (g *gen) pct(label string, p int) bool     { return fw.Pct(g.t, label, p) }
func (g *gen) rng(label string, lo, hi int) int { return fw.Range(g.t, label, lo, hi) }

func (g *gen) intLit() int64 {
	switch fw.Weighted(g.t, "intclass", []int{78, 10, 12}) {
	case 1:
		return int64(g.rng("neg", -3, -1))
	case 2:
		return fw.PickU(g.t, "big", []int64{20, 30, 100})
	}
	return int64(g.rng("small", 0, 12))
}

func (g *gen) strLit() string {
	return fw.PickU(g.t, "letter", []string{"b", "k", "m", "q"}) + strconv.Itoa(g.rng("digit", 0, 9))
}

func (g *gen) lit(kind string, nullPct int) node {
	if g.pct("null", nullPct) {
		return nNull()
	}
	switch kind {
	case "str":
		return nStr(g.strLit())
	case "raw":
		return g.rawLit()
	}
	return nInt(g.intLit())
}

func (g *gen) initTable(name string) {
	cols := []string{"id"}
	kinds := map[string]string{"id": "int"}
	for _, c := range []struct {
		n, k string
		p    int
	}{{"v", "int", 85}, {"s", "str", 85}, {"w", "int", 30}} {
		if g.pct("col_"+c.n, c.p) {
			cols = append(cols, c.n)
			kinds[c.n] = c.k
		}
	}
	if len(cols) < 2 {
		cols = append(cols, "v")
		kinds["v"] = "int"
	}
	if g.pct("col_p", 35) {
		cols = append(cols, "p")
		kinds["p"] = "raw"
	}
	n := fw.Weighted(g.t, "nrows", []int{4, 6, 12, 18, 20, 20, 20})
	ids := rapid.Permutation([]int{1, 2, 3, 4, 5, 6, 7, 8, 9}).Draw(g.t, "ids")
	tb := &table{Cols: cols}
	for i := 0; i < n; i++ {
		var row []val.Val
		for _, c := range cols {
			var v val.Val
			switch c {
			case "id":
				switch {
				case g.pct("idnull", 8):
					v = val.Null
				case i > 0 && g.pct("iddup", 15):
					v = tb.Rows[g.rng("dupof", 0, i-1)][0]
					if v.IsNull() {
						v = val.Int(int64(ids[i]))
					}
				default:
					v = val.Int(int64(ids[i]))
				}
			case "v":
				v = val.Int(fw.PickU(g.t, "v", []int64{0, 10, 20, 30}))
				if g.pct("vnull", 15) {
					v = val.Null
				}
			case "w":
				v = val.Int(int64(g.rng("w", 0, 5)))
				if g.pct("wnull", 15) {
					v = val.Null
				}
			case "p":
				v = val.Str(fw.PickU(g.t, "raw", rawPool))
				if g.pct("pnull", 15) {
					v = val.Null
				}
			default:
				v = val.Str(g.strLit())
				if g.pct("snull", 15) {
					v = val.Null
				}
			}
			row = append(row, v)
		}
		tb.Rows = append(tb.Rows, row)
	}
	g.m.tabs[name] = tb
	g.kinds[name] = kinds
}

func (g *gen) colsOfKind(tab, kind string, exclude map[string]bool) []string {
	var out []string
	for _, c := range g.m.tabs[tab].Cols {
		if g.kinds[tab][c] == kind && !exclude[tab+"."+c] {
			out = append(out, c)
		}
	}
	return out
}

// colNodes: column references of a kind over the bindings.
func (g *gen) colNodes(bs []bnd, kind string, exclude map[string]bool) []node {
	var out []node
	for _, b := range bs {
		for _, c := range g.colsOfKind(b.tab, kind, exclude) {
			out = append(out, nCol(b.q, c))
		}
	}
	return out
}

// expr draws a value expression of the kind over the bindings.
func (g *gen) expr(kind string, bs []bnd, exclude map[string]bool) node {
	if kind == "raw" {
		same := g.colNodes(bs, "raw", exclude)
		w := []int{45, 45, 10}
		if len(same) == 0 {
			w[1] = 0
		}
		switch fw.Weighted(g.t, "rawexpr", w) {
		case 0:
			return g.rawLit()
		case 1:
			return fw.PickU(g.t, "col", same)
		}
		return nNull()
	}
	if g.subOuter != nil && g.pct("subq", 28*g.subqPct/100) {
		if n, ok := g.subq(kind, exclude); ok {
			if kind == "int" && g.pct("subq_plus", 30) {
				return nBin("add", n, nInt(int64(g.rng("k", 1, 5))))
			}
			return n
		}
	}
	same := g.colNodes(bs, kind, exclude)
	if kind == "int" {
		w := []int{30, 25, 15, 8, 7, 10, 5}
		if len(same) == 0 {
			w = []int{90, 0, 0, 0, 0, 0, 10}
		}
		switch fw.Weighted(g.t, "intexpr", w) {
		case 0:
			return nInt(g.intLit())
		case 1:
			return fw.PickU(g.t, "col", same)
		case 2:
			return nBin("add", fw.PickU(g.t, "col", same), nInt(int64(g.rng("k", 1, 5))))
		case 3:
			return nBin("mul", fw.PickU(g.t, "col", same), nInt(int64(g.rng("k", 2, 3))))
		case 4:
			return nBin("sub", fw.PickU(g.t, "col", same), nInt(int64(g.rng("k", 1, 5))))
		case 5:
			return nBin("add", fw.PickU(g.t, "col", same), fw.PickU(g.t, "col2", same))
		}
		return nNull()
	}
	ints := g.colNodes(bs, "int", exclude)
	w := []int{35, 20, 15, 10, 8, 7, 5}
	if len(same) == 0 {
		w[1], w[2], w[3], w[5] = 0, 0, 0, 0
	}
	if len(ints) == 0 {
		w[4] = 0
	}
	suffix := func() node { return nStr(fw.PickU(g.t, "suffix", []string{"k", "m", "q", "k1", "m2"})) }
	switch fw.Weighted(g.t, "strexpr", w) {
	case 0:
		return nStr(g.strLit())
	case 1:
		return fw.PickU(g.t, "col", same)
	case 2:
		return nBin("cat", fw.PickU(g.t, "col", same), suffix())
	case 3:
		return nBin("cat", suffix(), fw.PickU(g.t, "col", same))
	case 4:
		return nBin("cat", fw.PickU(g.t, "icol", ints), suffix())
	case 5:
		return nBin("cat", fw.PickU(g.t, "col", same), fw.PickU(g.t, "col2", same))
	}
	return nNull()
}

// subq draws a scalar subquery (SELECT f(z.c) FROM tab z [WHERE ...]) over the
// target of the enclosing statement or the other table, optionally correlated
// with the row of the enclosing statement.
func (g *gen) subq(kind string, exclude map[string]bool) (node, bool) {
	outer := g.subOuter
	g.subOuter = nil
	defer func() { g.subOuter = outer }()
	tab := outer[0].tab
	if names := g.m.names(); len(names) > 1 && g.pct("subq_other", 35) {
		for _, t := range names {
			if t != tab {
				tab = t
				break
			}
		}
	}
	n := node{K: "subq", Q: tab}
	ints, strs := g.colsOfKind(tab, "int", nil), g.colsOfKind(tab, "str", nil)
	if kind == "int" {
		w := []int{25, 20, 10, 12, 13, 20}
		if len(ints) == 0 {
			w = []int{0, 0, 0, 0, 1, 0}
		}
		n.Op = []string{"sum", "max", "min", "count", "countall", "one"}[fw.Weighted(g.t, "subq_fn", w)]
		if n.Op != "countall" {
			n.C = fw.PickU(g.t, "subq_col", ints)
		}
	} else {
		if len(strs) == 0 {
			return n, false
		}
		n.Op, n.C = "one", fw.PickU(g.t, "subq_col", strs)
	}
	if n.Op == "one" || g.pct("subq_where", 55) {
		var oc []node
		for _, b := range outer {
			for _, c := range g.colsOfKind(b.tab, "int", exclude) {
				oc = append(oc, nCol(b.tab, c))
			}
		}
		corr := 50
		if n.Op == "one" {
			corr = 75
		}
		switch {
		case len(ints) > 0 && len(oc) > 0 && g.pct("subq_correlated", corr):
			zc := ints[0] // the first integer column is the key-like one
			if g.pct("otherkey", 25) {
				zc = fw.PickU(g.t, "zkey", ints)
			}
			o := "="
			if n.Op != "one" || g.pct("nonequi", 15) {
				o = fw.PickU(g.t, "relop", relOps)
			}
			n.A = []node{nCmp(o, nCol(subqAlias, zc), fw.PickU(g.t, "outercol", oc))}
		case n.Op == "one" && len(ints) > 0:
			n.A = []node{nCmp("=", nCol(subqAlias, ints[0]), g.pivot(bnd{subqAlias, tab}, ints[0], "int"))}
		default:
			if p, ok := g.pred([]bnd{{subqAlias, tab}}); ok {
				n.A = []node{p}
			}
		}
	}
	if n.Op == "one" {
		// more than one record is an error in csvq: fall back to an aggregate where that would happen
		ot := g.m.tabs[outer[0].tab]
		for _, row := range ot.Rows {
			if _, err := evalVal(n, env{{q: outer[0].tab, tab: ot, row: row, m: g.m}}); err != nil {
				if kind != "int" {
					return n, false
				}
				n.Op = "max"
				break
			}
		}
	}
	return n, true
}

// subqPred draws col [NOT] IN (SELECT z.c FROM tab z [WHERE ...]) or [NOT]
// EXISTS (SELECT 1 FROM tab z WHERE ...) over the target of the enclosing
// statement or the other table; the WHERE of the subquery may be correlated
// with the row of the enclosing statement.
func (g *gen) subqPred(col node) (node, bool) {
	outer := g.subOuter
	g.subOuter = nil
	defer func() { g.subOuter = outer }()
	tab := outer[0].tab
	if names := g.m.names(); len(names) > 1 && g.pct("subq_other", 60) {
		for _, t := range names {
			if t != tab {
				tab = t
				break
			}
		}
	}
	ints := g.colsOfKind(tab, "int", nil)
	if len(ints) == 0 {
		return node{}, false
	}
	var oc []node
	for _, b := range outer {
		for _, c := range g.colsOfKind(b.tab, "int", nil) {
			oc = append(oc, nCol(b.tab, c))
		}
	}
	if g.pct("exists", 40) && len(oc) > 0 {
		n := node{K: "exists", Q: tab, Neg: g.pct("notexists", 35)}
		zc := ints[0]
		if g.pct("otherkey", 25) {
			zc = fw.PickU(g.t, "zkey", ints)
		}
		o := "="
		if g.pct("nonequi", 20) {
			o = fw.PickU(g.t, "relop", relOps)
		}
		w := nCmp(o, nCol(subqAlias, zc), fw.PickU(g.t, "outercol", oc))
		if g.pct("and", 35) {
			if p, ok := g.atom([]bnd{{subqAlias, tab}}); ok {
				w = nBin("and", w, p)
			}
		}
		n.A = []node{w}
		return n, true
	}
	n := node{K: "insub", Q: tab, C: ints[0], Neg: g.pct("notin", 30), A: []node{col}}
	if g.pct("otherkey", 25) {
		n.C = fw.PickU(g.t, "zcol", ints)
	}
	if g.pct("subq_where", 60) {
		if len(oc) > 0 && g.pct("subq_correlated", 30) {
			n.A = append(n.A, nCmp(fw.PickU(g.t, "relop", relOps), nCol(subqAlias, fw.PickU(g.t, "zkey", ints)), fw.PickU(g.t, "outercol", oc)))
		} else if p, ok := g.pred([]bnd{{subqAlias, tab}}); ok {
			n.A = append(n.A, p)
		}
	}
	return n, true
}

// srcForm draws how a table the statement only reads is reached.
func (g *gen) srcForm(op *opT, tab string, pct int) {
	if tab == "" || !g.pct("srcform", pct) {
		return
	}
	op.Src, op.SrcTab = fw.PickU(g.t, "src", []string{"with", "derived"}), tab
}

// subqTable: the table a statement's subqueries read ("" if none or several).
func subqTable(op opT) string {
	reads := map[string]bool{}
	for _, x := range op.Set {
		hasSubq(x.E, reads, nil)
	}
	for _, x := range op.Sel {
		hasSubq(x, reads, nil)
	}
	if op.Where != nil {
		hasSubq(*op.Where, reads, nil)
	}
	if len(reads) != 1 {
		return ""
	}
	for t := range reads {
		return t
	}
	return ""
}

// existing: the non-NULL values of a column as literals.
func (g *gen) existing(tab, col string) []node {
	tb := g.m.tabs[tab]
	i := tb.col(col)
	var out []node
	for _, r := range tb.Rows {
		v := r[i]
		if v.IsNull() {
			continue
		}
		if n, ok := ref.AsInteger(v); ok {
			out = append(out, nInt(n))
		} else {
			out = append(out, nStr(v.S))
		}
	}
	return out
}

func (g *gen) pivot(b bnd, col, kind string) node {
	ex := g.existing(b.tab, col)
	if len(ex) > 0 && g.pct("fromtable", 80) {
		p := fw.PickU(g.t, "pivot", ex)
		if p.K == "int" {
			p.N += fw.PickU(g.t, "jitter", []int64{0, 0, 0, -1, 1})
		}
		return p
	}
	return g.lit(kind, 0)
}

var relOps = []string{"=", "<>", "<", "<=", ">", ">="}

func (g *gen) atom(bs []bnd) (node, bool) {
	type cand struct {
		b    bnd
		c, k string
	}
	var cs []cand
	for _, b := range bs {
		for _, c := range g.m.tabs[b.tab].Cols {
			if g.kinds[b.tab][c] != "raw" { // the payload column is never read by a predicate
				cs = append(cs, cand{b, c, g.kinds[b.tab][c]})
			}
		}
	}
	if len(cs) == 0 {
		return node{}, false
	}
	// integer columns are the backbone of the predicates
	var ws []int
	for _, c := range cs {
		if c.k == "int" {
			ws = append(ws, 3)
		} else {
			ws = append(ws, 1)
		}
	}
	c := cs[fw.Weighted(g.t, "predcol", ws)]
	col := nCol(c.b.q, c.c)
	if c.k == "int" && g.subOuter != nil && g.pct("subq_atom", 22*g.subqPct/100) {
		if n, ok := g.subq("int", nil); ok {
			return nCmp(fw.PickU(g.t, "relop", relOps), col, n), true
		}
	}
	if c.k == "int" && g.subOuter != nil && g.pct("subq_pred", 14*g.subqPct/100) {
		if n, ok := g.subqPred(col); ok {
			return n, true
		}
	}
	if c.k == "int" {
		others := g.colNodes(bs, "int", map[string]bool{c.b.tab + "." + c.c: true})
		w := []int{53, 15, 12, 12, 8}
		if len(others) == 0 {
			w[1] = 0
		}
		switch fw.Weighted(g.t, "intatom", w) {
		case 0:
			return nCmp(fw.PickU(g.t, "relop", relOps), col, g.pivot(c.b, c.c, "int")), true
		case 1:
			return nCmp(fw.PickU(g.t, "relop", relOps), col, fw.PickU(g.t, "other", others)), true
		case 2:
			return node{K: "isnull", Neg: g.pct("notnull", 50), A: []node{col}}, true
		case 3:
			n := node{K: "in", Neg: g.pct("notin", 25), A: []node{col}}
			for i, k := 0, g.rng("inlen", 1, 3); i < k; i++ {
				n.A = append(n.A, g.pivot(c.b, c.c, "int"))
			}
			return n, true
		}
		return nCmp(fw.PickU(g.t, "relop", relOps), nBin("add", col, nInt(int64(g.rng("k", 1, 3)))), g.pivot(c.b, c.c, "int")), true
	}
	switch fw.Weighted(g.t, "stratom", []int{60, 20, 20}) {
	case 0:
		return nCmp(fw.PickU(g.t, "srelop", []string{"=", "<>", "<", ">="}), col, g.pivot(c.b, c.c, "str")), true
	case 1:
		return node{K: "isnull", Neg: g.pct("notnull", 50), A: []node{col}}, true
	}
	n := node{K: "in", Neg: g.pct("notin", 25), A: []node{col}}
	for i, k := 0, g.rng("inlen", 1, 3); i < k; i++ {
		n.A = append(n.A, g.pivot(c.b, c.c, "str"))
	}
	return n, true
}

func (g *gen) pred(bs []bnd) (node, bool) {
	a, ok := g.atom(bs)
	if !ok {
		return a, false
	}
	switch fw.Weighted(g.t, "predshape", []int{55, 12, 33}) {
	case 1:
		return node{K: "not", A: []node{a}}, true
	case 2:
		b, _ := g.atom(bs)
		return nBin(fw.PickU(g.t, "logic", []string{"and", "or"}), a, b), true
	}
	return a, true
}

// aimed draws up to four predicates and keeps the first for which try reports
// a strict non-empty subset (the last usable one otherwise).
func (g *gen) aimed(bs []bnd, try func(p *node) (string, error)) *node {
	var fallback *node
	rank := map[string]int{"none": 1, "all": 2}
	best := 0
	for i := 0; i < 4; i++ {
		p, ok := g.pred(bs)
		if !ok {
			break
		}
		sub, err := try(&p)
		if err != nil {
			continue
		}
		pp := p
		if sub == "strict" {
			return &pp
		}
		if rank[sub] > best {
			fallback, best = &pp, rank[sub]
		}
		if g.pct("takeany", 15) {
			break
		}
	}
	return fallback
}

// simulate: the effect of op on a copy of the live model.
func (g *gen) simulate(op opT) (*effect, error) {
	return g.m.clone().apply(op)
}

func (g *gen) pickCols(tab string, must []string) []string {
	all := g.m.tabs[tab].Cols
	perm := rapid.Permutation(append([]string(nil), all...)).Draw(g.t, "colperm")
	k := g.rng("ncols", 1, len(all))
	out := append([]string(nil), must...)
	for _, c := range perm {
		if len(out) >= k && len(out) >= len(must) {
			break
		}
		dup := false
		for _, m := range out {
			if m == c {
				dup = true
			}
		}
		if !dup {
			out = append(out, c)
		}
	}
	// the written order is a permutation too
	return rapid.Permutation(out).Draw(g.t, "listorder")
}

func (g *gen) ext(tabs ...string) bool {
	for _, t := range tabs {
		if g.tk[t] == "file" {
			return g.pct("ext", 30)
		}
	}
	return false
}

func (g *gen) genInsert(T string) (opT, bool) {
	room := g.maxRows - len(g.m.tabs[T].Rows)
	if room < 1 {
		return opT{}, false
	}
	op := opT{K: "insert", T: T, Ext: g.ext(T)}
	cols := g.m.tabs[T].Cols
	if g.pct("collist", 55) {
		op.Cols = g.pickCols(T, nil)
		cols = op.Cols
	}
	n := g.rng("nins", 1, min(3, room))
	for i := 0; i < n; i++ {
		var r []node
		for _, c := range cols {
			if g.kinds[T][c] == "int" && g.pct("value_expr", 14*g.subqPct/100+4) {
				r = append(r, g.valueExpr(T))
				continue
			}
			r = append(r, g.lit(g.kinds[T][c], 12))
		}
		op.Rows = append(op.Rows, r)
	}
	if _, err := g.simulate(op); err != nil {
		return op, false
	}
	return op, true
}

// valueExpr: an integer value of a VALUES list that is not a literal: arithmetic
// on literals or an uncorrelated scalar subquery (an aggregate over the target
// or the other table), e.g. (SELECT MAX(z.id) FROM t z) + 1.
func (g *gen) valueExpr(T string) node {
	if g.pct("arith", 30) {
		return nBin(fw.PickU(g.t, "arithop", []string{"add", "sub", "mul"}), nInt(g.intLit()), nInt(int64(g.rng("k", 1, 5))))
	}
	tab := T
	if names := g.m.names(); len(names) > 1 && g.pct("subq_other", 35) {
		for _, t := range names {
			if t != tab {
				tab = t
				break
			}
		}
	}
	n := node{K: "subq", Q: tab, Op: "countall"}
	if ints := g.colsOfKind(tab, "int", nil); len(ints) > 0 {
		n.Op = []string{"max", "min", "count", "countall", "sum"}[fw.Weighted(g.t, "subq_fn", []int{40, 15, 15, 15, 15})]
		if n.Op != "countall" {
			n.C = ints[0]
			if g.pct("otherkey", 30) {
				n.C = fw.PickU(g.t, "subq_col", ints)
			}
		}
		if g.pct("subq_where", 40) {
			if p, ok := g.pred([]bnd{{subqAlias, tab}}); ok {
				n.A = []node{p}
			}
		}
	}
	if g.pct("subq_plus", 60) {
		return nBin("add", n, nInt(int64(g.rng("k", 1, 5))))
	}
	return n
}

func (g *gen) selectList(T string, cols []string, O string) []node {
	var sel []node
	for _, c := range cols {
		sel = append(sel, g.expr(g.kinds[T][c], []bnd{{"", O}}, nil))
	}
	return sel
}

func (g *gen) genInsel(T, O string) (opT, bool) {
	room := g.maxRows - len(g.m.tabs[T].Rows)
	op := opT{K: "insel", T: T, O: O, Ext: g.ext(T, O)}
	g.subOuter = []bnd{{O, O}}
	defer func() { g.subOuter = nil }()
	cols := g.m.tabs[T].Cols
	if g.pct("collist", 55) {
		op.Cols = g.pickCols(T, nil)
		cols = op.Cols
	}
	op.Sel = g.selectList(T, cols, O)
	try := func(p *node) (string, error) {
		o := op
		o.Where = p
		ef, err := g.simulate(o)
		if err != nil {
			return "", err
		}
		if ef.total > room {
			return "", outside("too many rows")
		}
		return subsetClass(ef.total, len(g.m.tabs[O].Rows)), nil
	}
	if g.pct("where", 65) || len(g.m.tabs[O].Rows) > room {
		op.Where = g.aimed([]bnd{{"", O}}, try)
	}
	if _, err := try(op.Where); err != nil {
		return op, false
	}
	if ic := g.colsOfKind(O, "int", nil); len(ic) > 0 && g.pct("order", 35) {
		o := op
		o.Order, o.Desc = fw.PickU(g.t, "ordercol", ic), g.pct("desc", 50)
		if _, err := g.simulate(o); err == nil {
			op = o
		}
	}
	g.srcForm(&op, O, 25)
	return op, true
}

func (g *gen) genUpdate(T string) (opT, bool) {
	op := opT{K: "update", T: T, Ext: g.ext(T)}
	g.subOuter = []bnd{{T, T}}
	defer func() { g.subOuter = nil }()
	cols := rapid.Permutation(append([]string(nil), g.m.tabs[T].Cols...)).Draw(g.t, "setcols")
	n := 1
	if len(cols) > 1 && g.pct("twoset", 30) {
		n = 2
	}
	assigned := map[string]bool{}
	for _, c := range cols[:n] {
		assigned[T+"."+c] = true
	}
	for _, c := range cols[:n] {
		ex := map[string]bool{}
		for k := range assigned {
			if k != T+"."+c {
				ex[k] = true
			}
		}
		op.Set = append(op.Set, setT{T: T, C: c, E: g.expr(g.kinds[T][c], []bnd{{"", T}}, ex)})
	}
	if g.pct("where", 88) {
		op.Where = g.aimed([]bnd{{"", T}}, func(p *node) (string, error) {
			o := op
			o.Where = p
			ef, err := g.simulate(o)
			if err != nil {
				return "", err
			}
			return ef.subset, nil
		})
	}
	if st := subqTable(op); st != "" {
		g.srcForm(&op, st, 30)
	} else {
		g.srcForm(&op, T, 4) // an unused common table over the target itself
	}
	_, err := g.simulate(op)
	return op, err == nil
}

func (g *gen) genDelete(T string) (opT, bool) {
	op := opT{K: "delete", T: T, Ext: g.ext(T)}
	g.subOuter = []bnd{{T, T}}
	defer func() { g.subOuter = nil }()
	if g.pct("where", 92) {
		op.Where = g.aimed([]bnd{{"", T}}, func(p *node) (string, error) {
			o := op
			o.Where = p
			ef, err := g.simulate(o)
			if err != nil {
				return "", err
			}
			return ef.subset, nil
		})
	}
	if st := subqTable(op); st != "" {
		g.srcForm(&op, st, 30)
	}
	_, err := g.simulate(op)
	return op, err == nil
}

// joinSkeleton draws FROM L JOIN R ON ... of a join form.
func (g *gen) joinSkeleton(kind, L, R string) opT {
	op := opT{K: kind, T: L, O: R, Ext: g.ext(L, R), Alias: g.pct("alias", 40)}
	op.Join = []string{"inner", "left", "cross"}[fw.Weighted(g.t, "join", []int{55, 25, 20})]
	li, ri := g.colsOfKind(L, "int", nil), g.colsOfKind(R, "int", nil)
	var on *node
	if len(li) > 0 && len(ri) > 0 {
		lc, rc := li[0], ri[0] // the first integer column is the key-like one
		if g.pct("otherkey", 20) {
			lc, rc = fw.PickU(g.t, "lkey", li), fw.PickU(g.t, "rkey", ri)
		}
		o := "="
		if g.pct("nonequi", 12) {
			o = fw.PickU(g.t, "onop", []string{"<", "<>", ">="})
		}
		c := nCmp(o, nCol(L, lc), nCol(R, rc))
		on = &c
	}
	if op.Join != "cross" {
		if on == nil {
			c := nCmp("=", nInt(1), nInt(1))
			on = &c
		}
		op.On = on
	} else if on != nil && g.pct("crosskey", 80) {
		op.Where = on // FROM L, R WHERE L.k = R.k [AND ...]
	}
	return op
}

func (g *gen) genJoin(kind, L, R string) (opT, bool) {
	var fallback *opT
	for attempt := 0; attempt < 4; attempt++ {
		op := g.joinSkeleton(kind, L, R)
		bs := []bnd{{L, L}, {R, R}}
		if kind == "deljoin" {
			op.Targets = [][]string{{L}, {R}, {L, R}, {R, L}}[fw.Weighted(g.t, "targets", []int{45, 25, 20, 10})]
		} else {
			op.Targets = [][]string{{L}, {R}, {L, R}}[fw.Weighted(g.t, "targets", []int{65, 20, 15})]
			if op.Join == "left" && g.pct("leftonly", 85) {
				op.Targets = []string{L}
			}
			assigned := map[string]bool{}
			type tc struct{ t, c string }
			var items []tc
			for _, t := range op.Targets {
				cols := rapid.Permutation(append([]string(nil), g.m.tabs[t].Cols...)).Draw(g.t, "setcols")
				n := 1
				if len(cols) > 1 && g.pct("twoset", 25) {
					n = 2
				}
				for _, c := range cols[:n] {
					items = append(items, tc{t, c})
					assigned[t+"."+c] = true
				}
			}
			for _, it := range items {
				ex := map[string]bool{}
				for k := range assigned {
					if k != it.t+"."+it.c {
						ex[k] = true
					}
				}
				op.Set = append(op.Set, setT{T: it.t, C: it.c, E: g.expr(g.kinds[it.t][it.c], bs, ex)})
			}
		}
		onlyRead := true
		for _, t := range op.Targets {
			if t == R {
				onlyRead = false
			}
		}
		if onlyRead {
			g.srcForm(&op, R, 22)
		}
		base := op.Where
		if g.pct("where", 70) {
			p := g.aimed(bs, func(p *node) (string, error) {
				o := op
				o.Where = p
				if base != nil {
					c := nBin("and", *base, *p)
					o.Where = &c
				}
				ef, err := g.simulate(o)
				if err != nil {
					return "", err
				}
				return ef.subset, nil
			})
			if p != nil {
				op.Where = p
				if base != nil {
					c := nBin("and", *base, *p)
					op.Where = &c
				}
			}
		}
		ef, err := g.simulate(op)
		if err != nil {
			continue
		}
		if ef.subset == "none" {
			// an empty match is always inside the model: prefer the form without the extra predicate, or another draw
			o2 := op
			o2.Where = base
			if ef2, err2 := g.simulate(o2); err2 == nil && ef2.subset != "none" {
				return o2, true
			}
			if fallback == nil {
				f := op
				fallback = &f
			}
			continue
		}
		return op, true
	}
	if fallback != nil && g.pct("acceptnone", 40) {
		return *fallback, true
	}
	return opT{}, false
}

// keyCols: one or two columns to use as REPLACE keys (integer columns first).
func (g *gen) keyCols(T string) []string {
	ic, sc := g.colsOfKind(T, "int", nil), g.colsOfKind(T, "str", nil)
	all := append(append([]string(nil), ic...), sc...)
	if len(all) == 0 {
		return nil
	}
	keys := []string{all[0]}
	if g.pct("otherkey", 25) {
		keys = []string{fw.PickU(g.t, "key", all)}
	}
	if len(all) > 2 && g.pct("twokeys", 22) {
		for _, c := range rapid.Permutation(all).Draw(g.t, "key2") {
			if c != keys[0] {
				keys = append(keys, c)
				break
			}
		}
	}
	return keys
}

func (g *gen) genReplace(T string) (opT, bool) {
	tb := g.m.tabs[T]
	keys := g.keyCols(T)
	if len(keys) == 0 {
		return opT{}, false
	}
	for attempt := 0; attempt < 3; attempt++ {
		op := opT{K: "replace", T: T, Ext: g.ext(T), Keys: keys}
		if g.pct("allcols", 25) {
			// no column list: all columns
		} else {
			op.Cols = g.pickCols(T, keys)
		}
		cols := op.Cols
		if len(cols) == 0 {
			cols = tb.Cols
		}
		room := g.maxRows - len(tb.Rows)
		n := g.rng("nrep", 1, 3)
		misses := 0
		for i := 0; i < n; i++ {
			hit := len(tb.Rows) > 0 && g.pct("hit", 60)
			if !hit && (misses >= room || (avoid("replace", avoidReplaceUnmatchedOrder) && misses >= 1)) {
				if len(tb.Rows) == 0 {
					continue
				}
				hit = true
			}
			var src []val.Val
			if hit {
				src = tb.Rows[g.rng("hitrow", 0, len(tb.Rows)-1)]
			} else {
				misses++
			}
			var r []node
			for _, c := range cols {
				isKey := false
				for _, k := range keys {
					if k == c {
						isKey = true
					}
				}
				switch {
				case isKey && hit && !src[tb.col(c)].IsNull():
					v := src[tb.col(c)]
					if x, ok := ref.AsInteger(v); ok {
						r = append(r, nInt(x))
					} else {
						r = append(r, nStr(v.S))
					}
				case isKey && g.kinds[T][c] == "str":
					g.fresh++
					r = append(r, nStr(fmt.Sprintf("z%d", g.fresh)))
				case isKey:
					g.fresh++
					r = append(r, nInt(int64(40+g.fresh)))
				default:
					r = append(r, g.lit(g.kinds[T][c], 10))
				}
			}
			op.Rows = append(op.Rows, r)
		}
		if len(op.Rows) == 0 {
			continue
		}
		ef, err := g.simulate(op)
		if err != nil || ef.appended > room || (avoid("replace", avoidReplaceUnmatchedOrder) && ef.appended > 1) {
			continue
		}
		return op, true
	}
	return opT{}, false
}

func (g *gen) genRepsel(T, O string) (opT, bool) {
	keys := g.keyCols(T)
	if len(keys) == 0 {
		return opT{}, false
	}
	room := g.maxRows - len(g.m.tabs[T].Rows)
	g.subOuter = []bnd{{O, O}}
	defer func() { g.subOuter = nil }()
	for attempt := 0; attempt < 3; attempt++ {
		op := opT{K: "repsel", T: T, O: O, Ext: g.ext(T, O), Keys: keys}
		op.Cols = g.pickCols(T, keys)
		for _, c := range op.Cols {
			isKey := false
			for _, k := range keys {
				if k == c {
					isKey = true
				}
			}
			same := g.colNodes([]bnd{{"", O}}, g.kinds[T][c], nil)
			if isKey && len(same) > 0 {
				// a key is fed from a column of the source (the first of the kind is the key-like one)
				n := same[0]
				if g.pct("otherkeysrc", 25) {
					n = fw.PickU(g.t, "keysrc", same)
				}
				op.Sel = append(op.Sel, n)
			} else {
				op.Sel = append(op.Sel, g.expr(g.kinds[T][c], []bnd{{"", O}}, nil))
			}
		}
		try := func(p *node) (string, error) {
			o := op
			o.Where = p
			ef, err := g.simulate(o)
			if err != nil {
				return "", err
			}
			if ef.appended > room || (avoid("replace", avoidReplaceUnmatchedOrder) && ef.appended > 1) {
				return "", outside("too many rows without a match")
			}
			switch {
			case ef.total == 0:
				return "none", nil
			case ef.appended > 0 && ef.total > ef.appended:
				return "strict", nil
			}
			return "all", nil
		}
		if _, err := try(nil); err != nil || g.pct("where", 50) {
			op.Where = g.aimed([]bnd{{"", O}}, try)
		}
		sub, err := try(op.Where)
		if err != nil || (sub == "none" && attempt < 2) {
			continue
		}
		g.srcForm(&op, O, 25)
		return op, true
	}
	return opT{}, false
}

func (g *gen) genAdd(T string) (opT, bool) {
	tb := g.m.tabs[T]
	if len(tb.Cols) >= 7 {
		return opT{}, false
	}
	op := opT{K: "add", T: T, Ext: g.ext(T)}
	n := 1
	if g.pct("several", 30) {
		n = g.rng("nadd", 2, 3)
	}
	g.pending = map[string]string{}
	for i := 0; i < n; i++ {
		g.fresh++
		a := addT{Name: fmt.Sprintf("n%d", g.fresh)}
		kind := []string{"int", "str", "raw"}[fw.Weighted(g.t, "addkind", []int{42, 42, 16})]
		if kind == "raw" && g.fixed[T] {
			kind = "str"
		}
		switch fw.Weighted(g.t, "default", []int{30, 25, 45}) {
		case 1:
			d := g.lit(kind, 0)
			a.Def = &d
		case 2:
			d := g.expr(kind, []bnd{{"", T}}, nil)
			a.Def = &d
		}
		g.pending[a.Name] = kind
		op.Adds = append(op.Adds, a)
	}
	op.Paren = n == 1 && g.pct("paren", 20)
	op.Pos = []string{"", "FIRST", "LAST", "BEFORE", "AFTER"}[fw.Weighted(g.t, "pos", []int{15, 15, 10, 30, 30})]
	if op.Pos == "BEFORE" || op.Pos == "AFTER" {
		op.PosCol = fw.PickU(g.t, "poscol", tb.Cols)
	}
	_, err := g.simulate(op)
	return op, err == nil
}

func (g *gen) genDrop(T string) (opT, bool) {
	tb := g.m.tabs[T]
	if len(tb.Cols) < 3 {
		return opT{}, false
	}
	n := 1
	if len(tb.Cols) >= 4 && g.pct("dropseveral", 30) {
		n = 2
	}
	perm := rapid.Permutation(append([]string(nil), tb.Cols...)).Draw(g.t, "dropcols")
	op := opT{K: "drop", T: T, Ext: g.ext(T)}
	ints := len(g.colsOfKind(T, "int", nil))
	for _, c := range perm {
		if len(op.Drops) == n {
			break
		}
		if g.kinds[T][c] == "int" {
			if ints <= 1 {
				continue // keep an integer column for the predicates
			}
			ints--
		}
		op.Drops = append(op.Drops, c)
	}
	if len(op.Drops) == 0 {
		return op, false
	}
	op.Paren = len(op.Drops) == 1 && g.pct("paren", 20)
	_, err := g.simulate(op)
	return op, err == nil
}

func (g *gen) genRename(T string) (opT, bool) {
	tb := g.m.tabs[T]
	g.fresh++
	op := opT{K: "rename", T: T, Ext: g.ext(T), Old: fw.PickU(g.t, "old", tb.Cols), New: fmt.Sprintf("r%d", g.fresh)}
	_, err := g.simulate(op)
	return op, err == nil
}

func (g *gen) accept(op opT) {
	switch op.K {
	case "commit":
		g.committed, g.ckinds = g.m.clone(), copyKinds(g.kinds)
		g.stdinDirty = false
	case "rollback":
		g.m, g.kinds = g.committed.clone(), copyKinds(g.ckinds)
		g.stdinDirty = false
	default:
		if _, err := g.m.apply(op); err != nil {
			panic("generator produced an operation outside the model: " + err.Error())
		}
		switch op.K {
		case "add":
			for c, k := range g.pending {
				g.kinds[op.T][c] = k
			}
		case "drop":
			for _, c := range op.Drops {
				delete(g.kinds[op.T], c)
			}
		case "rename":
			g.kinds[op.T][op.New] = g.kinds[op.T][op.Old]
			delete(g.kinds[op.T], op.Old)
		}
		for _, t := range forUpdateTables(op) {
			if g.tk[t] == "stdin" {
				g.stdinDirty = true
			}
		}
	}
	g.ops = append(g.ops, op)
}

var opKinds = []string{"insert", "insel", "update", "updjoin", "delete", "deljoin", "replace", "repsel", "add", "drop", "rename", "commit", "rollback"}

// fileFormat draws the format of a file table; JSON and LTSV cannot hold a table
// without records, an LTSV value cannot hold a tab or a line break.
func fileFormat(t *rapid.T, tb *table, m *model) string {
	w := []int{34, 12, 16, 8, 10, 20}
	if len(tb.Rows) == 0 {
		w[2], w[3], w[4] = 0, 0, 0
	}
	// (statements copy texts from one table into the other: what LTSV cannot hold must be in neither)
	anyCtl, anyColon := false, false
	for _, n := range m.names() {
		anyCtl = anyCtl || hasCtl(m.tabs[n])
		anyColon = anyColon || hasColon(m.tabs[n])
	}
	if anyCtl {
		w[4] = 0
	}
	if tb.col("p") >= 0 {
		w[5] = 0 // a fixed-length field cannot hold the odd texts (leading / trailing spaces, line breaks)
	}
	if w[4] > 0 && anyColon && avoid("ltsv", avoidLTSVValueColonLost) {
		w[4] = 0
		fw.AddExtra("generator_excluded_known:ltsv_table_with_colon_in_a_value", 1)
	}
	return []string{"", "tsv", "json", "jsonl", "ltsv", "fixed"}[fw.Weighted(t, "format", w)]
}

const fixedWidth = 30 // explicit positions: every field is this wide (no generated value is longer than 24 bytes)

// fixedPositions draws the delimiter positions of a fixed-length table: found
// from the spaces of the file (SPACES) or given explicitly, one per column.
func fixedPositions(t *rapid.T, tb *table) string {
	// SPACES (positions found from the blanks of the file) is not generated: the detection is a
	// heuristic that cannot tell a NULL cell from a gap, so a re-read table may legitimately
	// differ; a pinned case covers the one SPACES shape that is unambiguous.
	var ps []string
	for i := range tb.Cols {
		ps = append(ps, strconv.Itoa((i+1)*fixedWidth))
	}
	return "[" + strings.Join(ps, ", ") + "]"
}

// explicitPositions: the number of explicit delimiter positions (0: none / SPACES).
func explicitPositions(pos string) int {
	if !strings.HasPrefix(pos, "[") {
		return 0
	}
	return len(strings.Split(pos, ","))
}

// isJSON: the formats without a header line (the column names live in the records).
func isJSON(f string) bool { return f == "json" || f == "jsonl" || f == "ltsv" }

func genCase(t *rapid.T) histCase {
	g := &gen{t: t, m: &model{tabs: map[string]*table{}}, kinds: map[string]map[string]string{}, tk: map[string]string{}, maxRows: maxRows, subqPct: 100}
	c := histCase{TKind: []string{"file", "temp", "stdin"}[fw.Weighted(t, "tkind", []int{40, 30, 30})]}
	g.tk["t"] = c.TKind
	g.initTable("t")
	if fw.Pct(t, "two", 75) {
		c.UKind = fw.PickU(t, "ukind", []string{"file", "temp"})
		g.tk["u"] = c.UKind
		g.initTable("u")
	}
	if c.TKind == "file" {
		if c.TFmt = fileFormat(t, g.m.tabs["t"], g.m); c.TFmt == "fixed" {
			c.TPos = fixedPositions(t, g.m.tabs["t"])
		} else {
			c.TNew = fw.Pct(t, "created", 22)
		}
	}
	if c.UKind == "file" {
		if c.UFmt = fileFormat(t, g.m.tabs["u"], g.m); c.UFmt == "fixed" {
			c.UPos = fixedPositions(t, g.m.tabs["u"])
		} else {
			c.UNew = fw.Pct(t, "created", 22)
		}
	}
	c.T = g.m.tabs["t"].clone()
	if c.UKind != "" {
		c.U = g.m.tabs["u"].clone()
	}
	g.history(&c, fw.Range(t, "steps", 3, maxSteps), []int{11, 8, 14, 11, 9, 9, 9, 5, 8, 4, 3, 5, 4})
	return c
}

// history draws the operations of a case whose tables are initialised.
func (g *gen) history(c *histCase, steps int, weights []int) {
	t := g.t
	tables := []string{"t"}
	if c.UKind != "" {
		tables = append(tables, "u")
	}
	g.noCtl = (c.TKind == "file" && c.TFmt == "ltsv") || (c.UKind == "file" && c.UFmt == "ltsv")
	g.fixed = map[string]bool{"t": c.TKind == "file" && c.TFmt == "fixed", "u": c.UKind == "file" && c.UFmt == "fixed"}
	jsonTabs := map[string]bool{"t": c.TKind == "file" && isJSON(c.TFmt), "u": c.UKind == "file" && isJSON(c.UFmt)}
	g.committed, g.ckinds = g.m.clone(), copyKinds(g.kinds)
	// a table made by CREATE TABLE in this transaction disappears with ROLLBACK: none is generated before the first COMMIT
	pendingCreate := c.anyCreated()
	weights = append([]int(nil), weights...)
	if len(tables) == 1 {
		weights[3], weights[5] = 0, 0
	}
	for guard := 0; len(g.ops) < steps && guard < 8*steps+20; guard++ {
		kind := opKinds[fw.Weighted(t, "op", weights)]
		T := "t"
		if len(tables) == 2 && fw.Pct(t, "target_u", 35) {
			T = "u"
		}
		O := T
		if len(tables) == 2 && (kind == "updjoin" || kind == "deljoin" || fw.Pct(t, "othersource", 80)) {
			O = map[string]string{"t": "u", "u": "t"}[T]
		}
		if kind != "commit" && kind != "rollback" && avoid("stdin", avoidStdinSecondDMLLockTimeout) && g.stdinDirty {
			touches := g.tk[T] == "stdin" || ((kind == "updjoin" || kind == "deljoin") && g.tk[O] == "stdin")
			if touches {
				jsonEmpty := false
				for _, tn := range tables {
					if jsonTabs[tn] && len(g.m.tabs[tn].Rows) == 0 {
						jsonEmpty = true
					}
				}
				switch {
				case jsonEmpty && pendingCreate:
					continue
				case (fw.Pct(t, "boundary_commit", 75) || pendingCreate) && !jsonEmpty:
					g.accept(opT{K: "commit"})
					pendingCreate = false
				default:
					g.accept(opT{K: "rollback"})
				}
				if len(g.ops) >= steps {
					break
				}
			}
		}
		var op opT
		ok := false
		switch kind {
		case "insert":
			op, ok = g.genInsert(T)
		case "insel":
			op, ok = g.genInsel(T, O)
		case "update":
			op, ok = g.genUpdate(T)
		case "updjoin", "deljoin":
			op, ok = g.genJoin(kind, T, O)
		case "delete":
			op, ok = g.genDelete(T)
		case "replace":
			op, ok = g.genReplace(T)
		case "repsel":
			op, ok = g.genRepsel(T, O)
		case "add":
			op, ok = g.genAdd(T)
		case "drop":
			op, ok = g.genDrop(T)
		case "rename":
			op, ok = g.genRename(T)
		case "commit", "rollback":
			op, ok = opT{K: kind}, true
			if kind == "commit" {
				// a JSON file cannot hold a table without records (the column names would be lost)
				for _, tn := range tables {
					if jsonTabs[tn] && len(g.m.tabs[tn].Rows) == 0 {
						ok = false
					}
				}
				if !ok {
					fw.AddExtra("generator_skipped:commit_of_empty_json_table", 1)
					continue
				}
				pendingCreate = false
			} else if pendingCreate {
				fw.AddExtra("generator_skipped:rollback_of_created_table", 1)
				continue
			}
		}
		if !ok {
			// fall back to statements that are always available
			if len(g.m.tabs[T].Rows) >= g.maxRows/2 || (g.bulk && fw.Pct(t, "fallback_delete", 50)) {
				op, ok = g.genDelete(T)
			} else {
				op, ok = g.genInsert(T)
			}
			if !ok {
				op, ok = g.genUpdate(T)
			}
			if !ok {
				continue
			}
		}
		if op.K != "commit" && op.K != "rollback" && fw.Pct(t, "wrap", 35) {
			n := 1
			if fw.Pct(t, "wrap2", 35) {
				n = 2
			}
			for i := 0; i < n; i++ {
				op.Wrap = append(op.Wrap, []string{"if", "case", "while", "func"}[fw.Weighted(t, "wrapper", []int{30, 20, 25, 25})])
			}
		}
		switch op.K {
		case "insert", "insel", "update", "updjoin", "delete", "deljoin", "replace", "repsel":
			// a prepared statement with every literal a placeholder, alone or innermost in the control flow
			if fw.Pct(t, "prepared", 14) {
				op.Wrap = append(op.Wrap, "prep")
			}
		}
		g.accept(op)
	}
	c.Ops = g.ops
}

// ---------------------------------------------------------------------
// expectations (pure) and execution

type stepExp struct {
	op         opT
	sql        string
	prog       string // the program text executed: the statement, possibly inside control flow
	ef         *effect
	after      *model // all tables after the step
	committed  *model // commit: the committed state
	stdinAgain bool   // a second for-update statement on STDIN inside one transaction
}

// text: the program text of the step as executed.
func (st stepExp) text() string { return strings.TrimSuffix(st.prog, ";") }

// expectations runs the model over the history; the history is cut at the
// first operation outside the modelled fragment.
func expectations(c histCase) ([]stepExp, string) {
	nm := c.naming()
	cur := c.model()
	committed := cur.clone()
	stdinDirty := false
	pendingCreate := c.anyCreated()
	var steps []stepExp
	for _, op := range c.Ops {
		st := stepExp{op: op}
		switch op.K {
		case "commit":
			for t, f := range nm.ffmt {
				if isJSON(f) && cur.tabs[t] != nil && len(cur.tabs[t].Rows) == 0 {
					// a JSON file without records holds no column names: the format cannot represent the table
					return steps, "commit of an empty table in a format without header line"
				}
			}
			committed = cur.clone()
			st.committed = committed.clone()
			stdinDirty = false
			pendingCreate = false
		case "rollback":
			if pendingCreate {
				// the table made by CREATE TABLE in this transaction is discarded: nothing left to compare
				return steps, "rollback of a created table"
			}
			cur = committed.clone()
			stdinDirty = false
		default:
			if op.O != "" && cur.tabs[op.O] == nil {
				return steps, "other table"
			}
			ef, err := cur.apply(op)
			if err != nil {
				return steps, whyOutside(err)
			}
			st.ef = ef
			for _, t := range forUpdateTables(op) {
				if nm.kind[t] == "stdin" {
					st.stdinAgain = stdinDirty
					stdinDirty = true
				}
			}
		}
		st.sql = nm.sql(op)
		st.prog = st.sql + ";"
		if len(op.Wrap) > 0 {
			if op.K == "commit" || op.K == "rollback" {
				return steps, "wrapped transaction statement"
			}
			var ok bool
			if st.prog, ok = wrapSQL(st.sql, op.Wrap, len(steps)); !ok {
				return steps, "wrapper"
			}
		}
		st.after = cur.clone()
		steps = append(steps, st)
	}
	return steps, ""
}

func csvText(tb *table) string { return delimitedText(tb, ",") }

// delimitedText: CSV / TSV text of a table: NULL is an empty field; a cell that is
// not a plain word is enclosed in double quotes (quotes doubled), the empty string is "".
func delimitedText(tb *table, delim string) string {
	plain := func(s string) bool {
		if s == "" {
			return false
		}
		for i := 0; i < len(s); i++ {
			c := s[i]
			if !(c == '_' || c == '-' || c == '.' || (c >= '0' && c <= '9') || (c >= 'a' && c <= 'z') || (c >= 'A' && c <= 'Z')) {
				return false
			}
		}
		return true
	}
	var b strings.Builder
	b.WriteString(strings.Join(tb.Cols, delim))
	b.WriteString("\n")
	for _, r := range tb.Rows {
		for i, v := range r {
			if i > 0 {
				b.WriteString(delim)
			}
			switch {
			case v.IsNull():
			case plain(v.S):
				b.WriteString(v.S)
			default:
				b.WriteString(`"` + strings.ReplaceAll(v.S, `"`, `""`) + `"`)
			}
		}
		b.WriteString("\n")
	}
	return b.String()
}

// jsonText: a JSON array of objects (one line per object without the array for
// JSON Lines); integer cells are numbers, other cells strings, NULL is null.
func jsonText(tb *table, lines bool) string {
	var objs []string
	for _, r := range tb.Rows {
		var fs []string
		for i, v := range r {
			k, _ := json.Marshal(tb.Cols[i])
			x := "null"
			switch {
			case v.IsNull():
			case v.K == "I":
				x = v.S
			default:
				j, _ := json.Marshal(v.S)
				x = string(j)
			}
			fs = append(fs, string(k)+":"+x)
		}
		objs = append(objs, "{"+strings.Join(fs, ",")+"}")
	}
	if lines {
		return strings.Join(objs, "\n") + "\n"
	}
	return "[" + strings.Join(objs, ",\n") + "]\n"
}

// fixedText: a fixed-length file with a header line; NULL is a blank field. With
// explicit positions every field is fixedWidth wide, with SPACES a field is as wide
// as its longest text and fields are separated by one space.
func fixedText(tb *table, pos string) string {
	widths := make([]int, len(tb.Cols))
	for i, c := range tb.Cols {
		widths[i] = len(c)
	}
	for _, r := range tb.Rows {
		for i, v := range r {
			if !v.IsNull() && len(v.S) > widths[i] {
				widths[i] = len(v.S)
			}
		}
	}
	sep := " "
	if explicitPositions(pos) > 0 {
		sep = ""
		for i := range widths {
			widths[i] = fixedWidth
		}
	}
	var b strings.Builder
	line := func(cells []string) {
		for i, c := range cells {
			if i > 0 {
				b.WriteString(sep)
			}
			b.WriteString(c + strings.Repeat(" ", widths[i]-len(c)))
		}
		b.WriteString("\n")
	}
	line(tb.Cols)
	for _, r := range tb.Rows {
		cells := make([]string, len(r))
		for i, v := range r {
			if !v.IsNull() {
				cells[i] = v.S
			}
		}
		line(cells)
	}
	return b.String()
}

func fileText(tb *table, format string) string {
	switch format {
	case "tsv":
		return delimitedText(tb, "\t")
	case "json":
		return jsonText(tb, false)
	case "jsonl":
		return jsonText(tb, true)
	case "fixed":
		panic("fixed-length text needs the positions: fixedText")
	case "ltsv":
		var b strings.Builder
		for _, r := range tb.Rows {
			for i, v := range r {
				if i > 0 {
					b.WriteString("\t")
				}
				b.WriteString(tb.Cols[i] + ":")
				if !v.IsNull() {
					b.WriteString(v.S)
				}
			}
			b.WriteString("\n")
		}
		return b.String()
	}
	return csvText(tb)
}

func showTable(cols []string, rows [][]val.Val) string {
	var b strings.Builder
	b.WriteString("      " + strings.Join(cols, "|") + "\n")
	for i, r := range rows {
		if i >= 24 {
			b.WriteString(fmt.Sprintf("      ... (%d records in all)\n", len(rows)))
			break
		}
		var cs []string
		for _, v := range r {
			cs = append(cs, v.String())
		}
		b.WriteString("      " + strings.Join(cs, "|") + "\n")
	}
	return b.String()
}

func cellEq(want, got val.Val) bool {
	if want.IsNull() || got.IsNull() {
		return want.IsNull() && got.IsNull()
	}
	return want.S == got.S
}

func rowEqual(a, b []val.Val) bool {
	if len(a) != len(b) {
		return false
	}
	for i := range a {
		if !cellEq(a[i], b[i]) {
			return false
		}
	}
	return true
}

// diffTable compares by column names, column order, row order, cell text and NULL-ness.
func diffTable(want *table, got run.Tbl) string {
	if strings.Join(want.Cols, "\x00") != strings.Join(got.Header, "\x00") {
		return fmt.Sprintf("columns %v, expected %v", got.Header, want.Cols)
	}
	if len(want.Rows) != len(got.Rows) {
		return fmt.Sprintf("%d rows, expected %d", len(got.Rows), len(want.Rows))
	}
	for i := range want.Rows {
		if !rowEqual(want.Rows[i], got.Rows[i]) {
			return fmt.Sprintf("row %d differs: got %v, expected %v", i+1, got.Rows[i], want.Rows[i])
		}
	}
	return ""
}

// colonsLost: got is want except that cells holding colons came back without them.
func colonsLost(want *table, got run.Tbl) bool {
	if len(want.Rows) != len(got.Rows) || strings.Join(want.Cols, "\x00") != strings.Join(got.Header, "\x00") {
		return false
	}
	lost := false
	for i := range want.Rows {
		if len(want.Rows[i]) != len(got.Rows[i]) {
			return false
		}
		for j, w := range want.Rows[i] {
			g := got.Rows[i][j]
			switch {
			case cellEq(w, g):
			case !w.IsNull() && !g.IsNull() && strings.Contains(w.S, ":") && strings.ReplaceAll(w.S, ":", "") == g.S:
				lost = true
			default:
				return false
			}
		}
	}
	return lost
}

// samePrefixPermutedTail: got equals want on the first n rows and holds the
// remaining rows of want in another order.
func samePrefixPermutedTail(want *table, got run.Tbl, n int) bool {
	if len(want.Rows) != len(got.Rows) || n > len(want.Rows) || strings.Join(want.Cols, "\x00") != strings.Join(got.Header, "\x00") {
		return false
	}
	for i := 0; i < n; i++ {
		if !rowEqual(want.Rows[i], got.Rows[i]) {
			return false
		}
	}
	used := make([]bool, len(got.Rows))
	for _, w := range want.Rows[n:] {
		found := false
		for j := n; j < len(got.Rows); j++ {
			if !used[j] && rowEqual(w, got.Rows[j]) {
				used[j], found = true, true
				break
			}
		}
		if !found {
			return false
		}
	}
	return true
}

var logRe = regexp.MustCompile(`^(no|\d+) records? (inserted|updated|deleted|replaced) on "(.*)"\.$`)

type logLine struct {
	n    int
	verb string
	path string
}

func parseLog(out string) []logLine {
	var ls []logLine
	for _, l := range strings.Split(out, "\n") {
		m := logRe.FindStringSubmatch(strings.TrimSpace(l))
		if m == nil {
			continue
		}
		n := 0
		if m[1] != "no" {
			n, _ = strconv.Atoi(m[1])
		}
		ls = append(ls, logLine{n, m[2], m[3]})
	}
	return ls
}

var caseSeq int64

type runner struct {
	c     histCase
	nm    naming
	cpu   int
	dir   string
	s     *run.Sess
	trace []string

	shortWait bool
	mismatch  map[string]bool   // during COMMIT: fixed-length tables whose number of columns is not the number of explicit positions
	stop      bool              // the history ends here without a verdict on the rest (an admissible refusal)
	onDisk    map[string]string // file tables: the bytes on disk after the last successful COMMIT (or the initial file)
}

func (r *runner) readDisk() {
	r.onDisk = map[string]string{}
	for t, k := range r.nm.kind {
		if k == "file" {
			b, _ := os.ReadFile(filepath.Join(r.dir, t+r.nm.fileExt(t)))
			r.onDisk[t] = string(b)
		}
	}
}

func (r *runner) note(format string, args ...interface{}) {
	r.trace = append(r.trace, fmt.Sprintf(format, args...))
}

func (r *runner) tail() string {
	t := r.trace
	if len(t) > 14 {
		t = t[len(t)-14:]
	}
	return fmt.Sprintf("\n    [cpu %d, t: %s, u: %s]\n    %s", r.cpu, r.c.TKind, r.c.UKind, strings.Join(t, "\n    "))
}

func (r *runner) pathTable(p string) string {
	for t, k := range r.nm.kind {
		switch k {
		case "file":
			if filepath.Base(p) == t+r.nm.fileExt(t) {
				return t
			}
		case "stdin":
			if strings.EqualFold(p, "STDIN") {
				return t
			}
		default:
			if strings.EqualFold(p, t) {
				return t
			}
		}
	}
	return ""
}

func (r *runner) selectAll(s *run.Sess, t string) (run.Tbl, error) {
	return s.Query("SELECT * FROM " + r.nm.tref(t, false) + ";")
}

// compareAll checks every table of the model against SELECT *.
func (r *runner) compareAll(st stepExp) *fw.Violation {
	isTarget := map[string]bool{}
	if st.ef != nil {
		for t := range st.ef.counts {
			isTarget[t] = true
		}
		if st.ef.verb == "" {
			isTarget[st.op.T] = true
		}
	}
	for _, t := range st.after.names() {
		want := st.after.tabs[t]
		got, err := r.selectAll(r.s, t)
		if err != nil {
			return fw.V("select_after_"+st.op.K+"_error", "SELECT * FROM %s after %q failed: %v%s", t, st.text(), err, r.tail())
		}
		d := diffTable(want, got)
		if d == "" {
			continue
		}
		sig := st.op.K + "_result"
		switch {
		case !isTarget[t] && st.ef != nil:
			sig = st.op.K + "_changed_other_table"
		case st.op.K == "commit" && r.mismatch[t]:
			sig = "fixed_positions_field_count"
			d += fmt.Sprintf(" (COMMIT wrote %d columns with the %d delimiter positions %s and reported success)", len(want.Cols), explicitPositions(r.nm.fixedPos(t)), r.nm.fixedPos(t))
		case st.op.K == "commit" && r.nm.fixedPos(t) == "SPACES" && len(got.Header) < len(want.Cols):
			sig = "fixed_spaces_positions_reused"
			d += " (the table was read with positions found from the spaces of the file and written with those positions, without separating spaces)"
		case r.nm.kind[t] == "file" && r.nm.ffmt[t] == "ltsv" && colonsLost(want, got):
			sig = "ltsv_value_colon_lost"
			d += " (the cells that differ are the expected texts without their colons)"
		case (st.op.K == "replace" || st.op.K == "repsel") && st.ef.appended >= 2 && samePrefixPermutedTail(want, got, len(want.Rows)-st.ef.appended):
			sig = "replace_unmatched_order"
			d = fmt.Sprintf("the %d given rows without a matching record were appended in another order than given", st.ef.appended)
		}
		return fw.V(sig, "table %s after %q: %s\n    got\n%s    expected\n%s%s", t, st.text(), d, showTable(got.Header, got.Rows), showTable(want.Cols, want.Rows), r.tail())
	}
	return nil
}

func (r *runner) start() *fw.Violation {
	r.dir = filepath.Join(fw.WorkDir(), fmt.Sprintf("c05-%d", atomic.AddInt64(&caseSeq, 1)))
	if err := os.MkdirAll(r.dir, 0755); err != nil {
		return fw.Harness("mkdir: %v", err)
	}
	m := r.c.model()
	created := r.c.created()
	files := map[string]string{}
	opt := run.Opt{Dir: r.dir, CPU: r.cpu, CaptureOut: true}
	for _, t := range m.names() {
		switch r.nm.kind[t] {
		case "file":
			if created[t] {
				continue
			}
			if r.nm.ffmt[t] == "fixed" {
				files[t+r.nm.fileExt(t)] = fixedText(m.tabs[t], r.nm.pos[t])
			} else {
				files[t+r.nm.fileExt(t)] = fileText(m.tabs[t], r.nm.ffmt[t])
			}
		case "stdin":
			opt.HasStdin, opt.Stdin = true, csvText(m.tabs[t])
			if r.shortWait {
				// the history holds two for-update statements on STDIN in one transaction: if the
				// session waits there, it waits for its own lock (nobody else can hold the lock of a
				// private session), so a short wait loses nothing
				opt.WaitTimeout = 3 * time.Second
			}
		}
	}
	if err := run.WriteFiles(r.dir, files); err != nil {
		return fw.Harness("write files: %v", err)
	}
	s, err := run.NewSess(opt)
	if err != nil {
		return fw.Harness("session: %v", err)
	}
	r.s = s
	s.Tx.Flags.SetQuiet(false)
	for _, t := range m.names() {
		if r.nm.kind[t] != "temp" {
			continue
		}
		tb := m.tabs[t]
		setup := []string{fmt.Sprintf("DECLARE %s VIEW (%s);", t, strings.Join(tb.Cols, ", "))}
		for _, row := range tb.Rows {
			var vs []string
			for _, v := range row {
				vs = append(vs, v.SQL())
			}
			setup = append(setup, fmt.Sprintf("INSERT INTO %s VALUES (%s);", t, strings.Join(vs, ", ")))
		}
		for _, q := range setup {
			if res := s.Exec(q); res.Err != nil {
				return fw.Harness("set-up statement %q failed: %v", q, res.Err)
			}
		}
	}
	if res := s.Exec("COMMIT;"); res.Err != nil {
		return fw.Harness("set-up COMMIT failed: %v", res.Err)
	}
	for _, t := range m.names() {
		if !created[t] {
			continue
		}
		tb := m.tabs[t]
		setup := []string{fmt.Sprintf("CREATE TABLE %s (%s);", r.nm.tref(t, true), strings.Join(tb.Cols, ", "))}
		for _, row := range tb.Rows {
			var vs []string
			for _, v := range row {
				vs = append(vs, v.SQL())
			}
			setup = append(setup, fmt.Sprintf("INSERT INTO %s VALUES (%s);", r.nm.tref(t, true), strings.Join(vs, ", ")))
		}
		for i, q := range setup {
			if res := s.Exec(q); res.Err != nil {
				if i > 0 {
					// INSERT VALUES into the table this transaction created is a statement of the property
					return fw.V("insert_into_created_table_error", "%q after CREATE TABLE in the same transaction failed: %s %v", q, run.ErrClass(res.Err), res.Err)
				}
				return fw.Harness("set-up statement %q failed: %v", q, res.Err)
			}
		}
	}
	for _, t := range m.names() {
		got, err := r.selectAll(s, t)
		if err != nil {
			if created[t] {
				return fw.V("select_created_table_error", "SELECT * FROM %s after CREATE TABLE and %d INSERT statements in the same transaction failed: %v", t, len(m.tabs[t].Rows), err)
			}
			return fw.Harness("initial SELECT * FROM %s failed: %v", t, err)
		}
		if d := diffTable(m.tabs[t], got); d != "" {
			if created[t] {
				return fw.V("insert_into_created_table_result", "table %s after CREATE TABLE and %d single-row INSERT statements in the same transaction: %s\n    got\n%s    expected\n%s", t, len(m.tabs[t].Rows), d, showTable(got.Header, got.Rows), showTable(m.tabs[t].Cols, m.tabs[t].Rows))
			}
			return fw.Harness("initial table %s is not the generated one: %s", t, d)
		}
	}
	return nil
}

func (r *runner) finish() {
	if r.s != nil {
		r.s.Close()
	}
	if r.dir != "" {
		_ = os.RemoveAll(r.dir)
	}
}

func (r *runner) step(st stepExp) *fw.Violation {
	r.s.Out.Reset()
	res := r.s.Exec(st.prog)
	out := r.s.Out.String()
	line := strings.TrimSuffix(st.prog, ";")
	if res.Err != nil {
		line += "   -> " + run.ErrClass(res.Err) + " " + res.Err.Error()
	} else {
		line += "   -> " + strings.ReplaceAll(strings.TrimSpace(out), "\n", " / ")
	}
	r.note("%s", line)
	if res.ParseErr {
		return fw.Harness("generated statement does not parse: %s: %v", st.text(), res.Err)
	}
	// a fixed-length table with explicit delimiter positions whose number of columns is no
	// longer the number of positions cannot be written with those positions
	var mismatch []string
	if st.op.K == "commit" {
		for _, t := range st.committed.names() {
			if n := explicitPositions(r.nm.fixedPos(t)); n > 0 && n != len(st.committed.tabs[t].Cols) {
				mismatch = append(mismatch, t)
			}
		}
	}
	r.mismatch = map[string]bool{}
	for _, t := range mismatch {
		r.mismatch[t] = true
	}
	if res.Err != nil && len(mismatch) > 0 && strings.Contains(res.Err.Error(), "data encode error") {
		// admissible: COMMIT refuses to write the table; then its file is as it was
		// (the files of other tables of the transaction may have been written before the refusal:
		// whether COMMIT is all-or-nothing over several files is not this property's business)
		for _, t := range mismatch {
			b, _ := os.ReadFile(filepath.Join(r.dir, t+r.nm.fileExt(t)))
			if string(b) != r.onDisk[t] {
				return fw.V("refused_commit_changed_file", "COMMIT failed (%v) but file %s changed:\n    before %q\n    after  %q%s", res.Err, t+r.nm.fileExt(t), r.onDisk[t], b, r.tail())
			}
		}
		fw.AddExtra("history_end:commit_refused_fixed_positions", 1)
		r.stop = true
		return nil
	}
	if res.Err != nil {
		msg := res.Err.Error()
		sig := st.op.K + "_error"
		switch {
		case st.stdinAgain && strings.Contains(msg, "lock wait timeout"):
			sig = "stdin_second_dml_lock_timeout"
		case strings.Contains(msg, "file  does not exist"):
			sig = "from_subquery_poisons_fileinfo"
		}
		return fw.V(sig, "%q failed: %s %v; the model expects it to succeed%s", st.text(), run.ErrClass(res.Err), res.Err, r.tail())
	}
	switch st.op.K {
	case "commit":
		if v := r.compareAll(st); v != nil {
			return v
		}
		// the files, re-read by a fresh session, equal the model
		for _, t := range st.committed.names() {
			if r.nm.kind[t] != "file" {
				continue
			}
			fs, err := run.NewSess(run.Opt{Dir: r.dir, CPU: r.cpu})
			if err != nil {
				return fw.Harness("session: %v", err)
			}
			got, err := r.selectAll(fs, t)
			fs.Close()
			if err != nil {
				for _, mt := range mismatch {
					if mt == t {
						return fw.V("fixed_positions_field_count", "after a COMMIT that reported success a fresh session cannot read %s (%d columns written with the %d delimiter positions %s): %v%s", t, len(st.committed.tabs[t].Cols), explicitPositions(r.nm.fixedPos(t)), r.nm.fixedPos(t), err, r.tail())
					}
				}
				return fw.V("commit_file_unreadable", "after COMMIT a fresh session cannot read %s: %v%s", t, err, r.tail())
			}
			if d := diffTable(st.committed.tabs[t], got); d != "" {
				b, _ := os.ReadFile(filepath.Join(r.dir, t+r.nm.fileExt(t)))
				if len(b) > 1500 {
					b = append(b[:1500:1500], "..."...)
				}
				sig := "commit_file_differs"
				if r.nm.ffmt[t] == "ltsv" && colonsLost(st.committed.tabs[t], got) {
					sig = "ltsv_value_colon_lost"
				}
				for _, mt := range mismatch {
					if mt == t {
						sig = "fixed_positions_field_count"
						d += fmt.Sprintf(" (COMMIT wrote %d columns with the %d delimiter positions %s and reported success)", len(st.committed.tabs[t].Cols), explicitPositions(r.nm.fixedPos(t)), r.nm.fixedPos(t))
					}
				}
				return fw.V(sig, "file %s re-read by a fresh session after COMMIT: %s\n    got\n%s    expected\n%s    file: %q%s", t+r.nm.fileExt(t), d, showTable(got.Header, got.Rows), showTable(st.committed.tabs[t].Cols, st.committed.tabs[t].Rows), b, r.tail())
			}
		}
		r.readDisk()
		return nil
	case "rollback":
		return r.compareAll(st)
	}
	ef := st.ef
	if ef.verb != "" {
		// the reported number of affected records
		// (statements inside blocks run on child processors, which do not store it: there only the log line;
		// EXECUTE of a prepared statement runs it on the processor of the EXECUTE statement)
		if (len(st.op.Wrap) == 0 || (len(st.op.Wrap) == 1 && st.op.Wrap[0] == "prep")) && res.Affected != ef.total {
			return fw.V(st.op.K+"_count", "%q reported %d affected records; the statement %s %d%s", st.text(), res.Affected, ef.verb, ef.total, r.tail())
		}
		seen := map[string]bool{}
		for _, l := range parseLog(out) {
			t := r.pathTable(l.path)
			if t == "" {
				return fw.V(st.op.K+"_log_table", "%q logged %q, not a table of the statement%s", st.text(), l.path, r.tail())
			}
			if l.verb != ef.verb {
				return fw.V(st.op.K+"_log_verb", "%q logged records %s, expected %s%s", st.text(), l.verb, ef.verb, r.tail())
			}
			if l.n != ef.counts[t] || seen[t] {
				return fw.V(st.op.K+"_log_count", "%q logged %d record(s) %s on %s; the statement %s %d there%s", st.text(), l.n, l.verb, t, ef.verb, ef.counts[t], r.tail())
			}
			seen[t] = true
		}
		for t, n := range ef.counts {
			if n > 0 && !seen[t] {
				return fw.V(st.op.K+"_log_missing", "%q logged nothing for %s (%d records %s): %q%s", st.text(), t, n, ef.verb, out, r.tail())
			}
		}
	}
	return r.compareAll(st)
}

func runHistory(c histCase, steps []stepExp, cpu int) *fw.Violation {
	r := &runner{c: c, nm: c.naming(), cpu: cpu}
	for _, st := range steps {
		r.shortWait = r.shortWait || st.stdinAgain
	}
	defer r.finish()
	if v := r.start(); v != nil {
		return v
	}
	r.readDisk()
	for _, st := range steps {
		if v := r.step(st); v != nil {
			return v
		}
		if r.stop {
			break
		}
	}
	return nil
}

var tokenOf = map[string]string{"insert": "I", "insel": "Is", "update": "U", "updjoin": "Uj", "delete": "D", "deljoin": "Dj",
	"replace": "R", "repsel": "Rs", "add": "A", "drop": "X", "rename": "N", "commit": "C", "rollback": "B"}

func checkHist(c histCase) (fw.Outcome, *fw.Violation) { return checkHistRule(c, false) }

// checkHistRule: bulk selects the non-trivial rule of the bulk sub-check.
func checkHistRule(c histCase, bulk bool) (fw.Outcome, *fw.Violation) {
	o := fw.Outcome{}
	class := func(s string) { o.Classes = append(o.Classes, s) }
	if c.T == nil || (c.TKind != "file" && c.TKind != "temp" && c.TKind != "stdin") || (c.UKind != "" && (c.U == nil || (c.UKind != "file" && c.UKind != "temp"))) {
		o.Discard = true
		return o, nil
	}
	for _, tb := range []*table{c.T, c.U} {
		if tb == nil {
			continue
		}
		if len(tb.Cols) < 2 {
			o.Discard = true
			return o, nil
		}
		for _, r := range tb.Rows {
			if len(r) != len(tb.Cols) {
				o.Discard = true
				return o, nil
			}
		}
	}
	steps, cut := expectations(c)
	if cut != "" {
		fw.AddExtra("history_cut:"+cut, 1)
	}
	if len(steps) == 0 {
		o.Discard = true
		return o, nil
	}
	class("t:" + c.TKind)
	if c.UKind != "" {
		class("u:" + c.UKind)
	} else {
		class("u:none")
	}

	cpu2 := c.CPU
	if cpu2 < 2 || cpu2 > 16 {
		cpu2 = 4
	}
	par0 := atomic.LoadInt64(&query.VerifParallelTasks)
	for _, cpu := range []int{1, cpu2} {
		if v := runHistory(c, steps, cpu); v != nil {
			return o, v
		}
	}
	o.Evals = 2
	parallel := atomic.LoadInt64(&query.VerifParallelTasks) > par0
	for _, f := range []string{c.naming().ffmt["t"], c.naming().ffmt["u"]} {
		if f != "" {
			class("format:" + f)
		}
	}
	for _, tn := range []string{"t", "u"} {
		if p := c.naming().fixedPos(tn); p != "" {
			if explicitPositions(p) > 0 {
				class("fixed:explicit_positions")
			} else {
				class("fixed:spaces")
			}
		}
	}
	for tn, is := range c.created() {
		if is {
			class("created_table:" + tn)
		}
	}
	for tn, tb := range map[string]*table{"t": c.T, "u": c.U} {
		if tb != nil && tb.col("p") >= 0 {
			class("payload_column:" + c.naming().kind[tn])
		}
	}

	// classes and the non-trivial rule
	var toks []string
	changing, strict := 0, false
	kinds := map[string]bool{}
	for _, st := range steps {
		tok := tokenOf[st.op.K]
		if st.ef == nil {
			class("op:" + st.op.K)
			toks = append(toks, tok)
			continue
		}
		ef := st.ef
		class("op:" + st.op.K)
		if c.naming().kind[st.op.T] == "stdin" {
			class("on_stdin")
		}
		if len(st.op.Wrap) > 0 {
			for _, w := range st.op.Wrap {
				class("wrap:" + w)
			}
			if len(st.op.Wrap) > 1 {
				class("wrap:nested")
			}
			class("wrapped:" + c.naming().kind[st.op.T])
			tok = strings.Join(st.op.Wrap, ">") + ">" + tok
		}
		{
			reads, corr, any := map[string]bool{}, false, false
			for _, x := range st.op.Set {
				if hasSubq(x.E, reads, &corr) {
					any = true
					class("subq:in_set")
				}
			}
			for _, x := range st.op.Sel {
				if hasSubq(x, reads, &corr) {
					any = true
					class("subq:in_select_list")
				}
			}
			for _, row := range st.op.Rows {
				for _, x := range row {
					if hasSubq(x, reads, &corr) {
						any = true
						class("subq:in_values")
					} else if len(x.A) > 0 {
						class(st.op.K + ":value_expression")
					}
				}
			}
			if st.op.Where != nil && hasSubq(*st.op.Where, reads, &corr) {
				any = true
				class("subq:in_where")
			}
			for _, k := range []string{"insub", "exists"} {
				if st.op.Where != nil && hasSubqPred(*st.op.Where, k) {
					class("subq:" + map[string]string{"insub": "in_subquery", "exists": "exists"}[k])
				}
			}
			if st.op.Src != "" {
				class("src:" + st.op.Src)
				class("src:" + st.op.Src + ":" + st.op.K)
				tok += "[" + st.op.Src[:1] + "]"
			}
			if any {
				tok += "q"
				if reads[st.op.T] {
					class("subq:reads_target")
				}
				if corr {
					class("subq:correlated")
				}
			}
		}
		if ef.changed {
			changing++
			kinds[st.op.K] = true
		}
		switch st.op.K {
		case "update", "delete", "updjoin", "deljoin":
			class(st.op.K + ":matched_" + ef.subset)
			tok += ef.subset[:1]
			if ef.subset == "strict" {
				strict = true
			}
		case "replace", "repsel":
			how := "nothing"
			switch {
			case ef.appended > 0 && ef.total > ef.appended:
				how = "updates_and_appends"
			case ef.appended > 0:
				how = "appends"
			case ef.total > 0:
				how = "updates"
			}
			class(st.op.K + ":" + how)
			if ef.appended >= 2 {
				class(st.op.K + ":appends_2+")
			}
			tok += how[:1]
			if ef.subset == "strict" {
				strict = true
			}
		case "insert", "insel":
			n := "0"
			switch {
			case ef.total == 1:
				n = "1"
			case ef.total > 1:
				n = "2+"
			}
			class(st.op.K + ":rows_" + n)
			if len(st.op.Cols) > 0 {
				class(st.op.K + ":column_list")
			}
			if st.op.Order != "" {
				class("insel:order_by")
			}
			tok += n[:1]
		case "add":
			pos := st.op.Pos
			if pos == "" {
				pos = "default"
			}
			class("add:" + pos)
			if len(st.op.Adds) > 1 {
				class("add:several")
			}
			for _, a := range st.op.Adds {
				switch {
				case a.Def == nil:
					class("add:no_default")
				case a.Def.K == "int" || a.Def.K == "str" || a.Def.K == "null":
					class("add:default_literal")
				default:
					class("add:default_expression")
				}
			}
		case "drop":
			if len(st.op.Drops) > 1 {
				class("drop:several")
			}
		}
		if st.op.K == "updjoin" || st.op.K == "deljoin" {
			class("join:" + st.op.Join)
			if len(st.op.Targets) > 1 {
				class("join:two_targets")
			}
		}
		toks = append(toks, tok)
	}
	if cut != "" {
		class("history_cut")
	}
	if (!bulk && changing >= 3 && len(kinds) >= 2 && strict) || (bulk && parallel && changing >= 1 && strict) {
		class("nontrivial")
		o.Fingerprint = c.TKind + c.TFmt + "/" + c.UKind + c.UFmt + ":" + strings.Join(toks, " ")
	}
	if parallel {
		class("parallel_tasks")
	}
	return o, nil
}

func TestC05History(t *testing.T) {
	fw.Run(t, fw.Spec[histCase]{
		ID: "C05", Name: "dml_history", Quick: 10000, Thorough: 200000,
		Gen: genCase, Check: checkHist,
		Rule: "tables t (file, temporary table or STDIN) and optionally u (file or temporary table); a file is CSV (34%), TSV, JSON, JSON Lines (JSON holds integers as numbers, so the cells are typed there), LTSV (then no generated text holds a tab or a line break, which an LTSV value cannot hold) or fixed-length text named in every statement by the table object FIXED('[30, 60, ...]', `t.txt`) with one explicit delimiter position per initial column (tables without the payload column only); 22% of the file tables do not exist beforehand but are made by CREATE TABLE and filled by INSERT inside the session, uncommitted when the history starts (no ROLLBACK is generated before the first COMMIT then: it would discard the table); 2-5 columns (integer-like id/v/w, string s; NULLs, duplicate ids; in 35% of the tables a payload column p of odd cell texts - leading zeros, decimals, spaces, delimiters, quotes, line breaks, non-ASCII, 'NULL', 'true', a datetime, 40 digits - which no predicate and no expression reads: it is only inserted, copied whole or left alone), 0-6 rows, and a history of 3-12 statements generated up front next to a live copy of the model: INSERT VALUES (column subset / permuted list; a value may be arithmetic on literals or an uncorrelated scalar aggregate subquery over the target or the other table), INSERT SELECT (expressions, WHERE, ORDER BY on a total order; other table or itself), UPDATE (1-2 SET items), scalar subqueries (SUM/MAX/MIN/COUNT/single value over the target or the other table, optionally correlated) in SET values, WHERE clauses of UPDATE/DELETE and in INSERT/REPLACE..SELECT, [NOT] IN (subquery) and [NOT] EXISTS (correlated or not) in the WHERE clauses of UPDATE/DELETE/INSERT..SELECT/REPLACE..SELECT (all read the state before the statement); a table the statement only reads (the source of INSERT/REPLACE..SELECT, the non-target table of a join form, the table of the subqueries) is reached directly, through WITH c05ct AS (SELECT * FROM tab) in front of the statement or through a derived table (SELECT * FROM tab) in the FROM clause; UPDATE..FROM (JOIN / LEFT JOIN / comma join, aliases, one or two targets), DELETE, multi-table DELETE, REPLACE USING(1-2 keys) VALUES / SELECT, ALTER TABLE ADD (one/several, DEFAULT literal/expression, FIRST/LAST/BEFORE/AFTER) / DROP / RENAME, COMMIT, ROLLBACK; 35% of the data-changing statements run inside control flow executing them exactly once (IF, CASE, WHILE with a counter, a user function body called once; nested up to two deep), 14% of the INSERT/UPDATE/DELETE/REPLACE statements are PREPAREd with every literal turned into a positional placeholder and EXECUTEd USING the literals (alone or innermost in the control flow), the model being that of the bare statement; predicates (relational operators, AND/OR/NOT, IS NULL, IN, arithmetic) are aimed at strict non-empty subsets. Each history is executed statement by statement on one in-process session at --cpu 1 and again at --cpu 4; after every step SELECT * of every table equals the model (column names and order, row order, cell text, NULL-ness), Tx.AffectedRows and the 'N record(s) <verb> on <table>' log lines equal the model's inserted/matched/removed counts; after COMMIT every file (in its format) re-read by a fresh session equals the model; after ROLLBACK the model is the last committed state. Non-trivial = at least 3 data-changing steps of at least 2 kinds, one of which matches a strict non-empty subset of its target's rows; distinct by (table kinds and file formats, sequence of rule names with their match class and source form)",
		Assumptions: []string{
			"UPDATE counts the records matched by the condition (changed or not), per property statement; REPLACE counts the records whose key matched plus the rows appended",
			"SET expressions never read a column assigned by another SET item of the same statement (evaluation order not documented); a record to update that is joined more than once, updating the NULL-extended side of a LEFT JOIN, ORDER BY keys with ties or NULLs, REPLACE rows with duplicate or NULL keys are outside the modelled fragment: the history is cut there (measured as history_cut:*)",
			"a scalar subquery inside a data-changing statement reads the tables as they were before the statement (the manual says nothing else; textbook semantics); SUM returns a float whose text equals the integer sum (cells are compared by text)",
			"a statement inside IF / CASE / WHILE / a function body changes the tables of the enclosing scopes exactly as the bare statement does (temporary-table.md, control-flow.md: only declarations are local to a block); Tx.AffectedRows is not stored by child processors, inside blocks only the log line is compared",
			"tables keep at least two columns (a one-column record with a NULL cell is a blank CSV line: C02)",
			"the payload column never holds the empty string (CSV/TSV without --enclose-all write it as an empty field, which is read back as NULL: a limit of the format, C02) and a table in a JSON format or in LTSV is not committed while it has no records (the column names live in the records); the generator skips such a COMMIT (measured as generator_skipped:*), a replayed history is cut there",
			"IN (subquery) is = ANY and NOT IN is <> ALL with three-valued logic, FALSE / TRUE over no record; EXISTS is TRUE with at least one record (comparison-operators.md); WITH and derived tables over SELECT * FROM tab read tab as it was before the statement, like a direct reference",
			"EXECUTE runs the prepared statement on the processor of the EXECUTE statement: for a prepared statement outside control flow Tx.AffectedRows is compared as for the bare statement",
			"the row order of SELECT over one table of at most 10 rows is the table's row order at --cpu 1 and --cpu 4",
			"avoidReplaceUnmatchedOrder: REPLACE is generated with at most one row that matches no record (known open defect: several such rows are appended in Go-map order)",
			"a fixed-length table with explicit delimiter positions whose number of columns was changed by ALTER TABLE ADD / DROP cannot be written with those positions: COMMIT either refuses with a data encoding error and leaves the file of that table as it was (the history ends there, measured as history_end:*) or must write a file that reads back as the model; writing fewer or more fields and reporting success is the violation fixed_positions_field_count",
			"avoidLTSVValueColonLost: no text of an LTSV table holds a colon (known open defect of the LTSV reader in the dependency go-text v1.6.0: every colon of a value after the first is dropped when the file is read, so a committed a:b comes back as ab); measured as generator_excluded_known:*",
			"avoidStdinSecondDMLLockTimeout: the generator separates two statements that load STDIN for update by COMMIT/ROLLBACK (open defect: the second one waits for the session's own STDIN lock and fails)",
		},
	})
}
