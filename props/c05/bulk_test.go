package c05

import (
	"fmt"
	"testing"

	"pgregory.net/rapid"

	"verif/internal/fw"
	"verif/internal/val"
)

// ---------------------------------------------------------------------
// bulk: the same histories and the same model over tables large enough for
// csvq to split the work of one statement over several goroutines
// (lib/query/goroutine_manager.go: one goroutine per 80 records, at most --cpu).
// dml_history never crosses that threshold (at most 10 records), so the
// parallel paths of WHERE filtering, joins, View.replace, INSERT..SELECT,
// ALTER TABLE ADD .. DEFAULT <expression> and the loaders are only exercised here.
//
// The initial tables are described by a recipe (the replay file stays small);
// the table is a pure function of the recipe.

type recipe struct {
	N      int      `json:"n"`
	Cols   []string `json:"cols"`   // id first; then any of v s w p
	Stride int      `json:"stride"` // id of row i = ((i*stride + rot) mod n) + 1, a permutation when gcd(stride, n) = 1
	Rot    int      `json:"rot"`
	A      int      `json:"a"`
	B      int      `json:"b"`
	Nulls  int      `json:"nulls"`             // 0: no NULL cells; k: in row i the column number (i mod k) is NULL when that column exists (id excepted)
	IDNull []int    `json:"id_null,omitempty"` // rows whose id is NULL
	IDDup  []int    `json:"id_dup,omitempty"`  // rows whose id repeats the id of the row before
}

func gcd(a, b int) int {
	for b != 0 {
		a, b = b, a%b
	}
	return a
}

func (r recipe) valid() bool {
	if r.N < 1 || r.N > 5000 || len(r.Cols) < 2 || r.Cols[0] != "id" || r.Stride < 1 || r.Rot < 0 || r.A < 0 || r.B < 0 || r.Nulls < 0 {
		return false
	}
	seen := map[string]bool{}
	for _, c := range r.Cols {
		if seen[c] || (c != "id" && c != "v" && c != "s" && c != "w" && c != "p") {
			return false
		}
		seen[c] = true
	}
	return true
}

func (r recipe) kinds() map[string]string {
	k := map[string]string{}
	for _, c := range r.Cols {
		k[c] = map[string]string{"id": "int", "v": "int", "w": "int", "s": "str", "p": "raw"}[c]
	}
	return k
}

func (r recipe) build() *table {
	tb := &table{Cols: append([]string(nil), r.Cols...)}
	stride := r.Stride
	if gcd(stride, r.N) != 1 {
		stride = 1
	}
	idNull, idDup := map[int]bool{}, map[int]bool{}
	for _, i := range r.IDNull {
		idNull[i] = true
	}
	for _, i := range r.IDDup {
		idDup[i] = true
	}
	letters := []string{"b", "k", "m", "q"}
	for i := 0; i < r.N; i++ {
		row := make([]val.Val, len(r.Cols))
		for ci, c := range r.Cols {
			var v val.Val
			switch c {
			case "id":
				switch {
				case idNull[i]:
					v = val.Null
				case idDup[i] && i > 0 && !row0Null(tb, i-1):
					v = tb.Rows[i-1][0]
				default:
					v = val.Int(int64((i*stride+r.Rot)%r.N + 1))
				}
			case "v":
				v = val.Int([]int64{0, 10, 20, 30}[(i*r.A+r.B)%4])
			case "w":
				v = val.Int(int64((i*r.B + r.A) % 6))
			case "s":
				v = val.Str(letters[(i+r.A)%4] + fmt.Sprint((i*3+r.B)%10))
			case "p":
				v = val.Str(rawPool[(i*(r.A+1)+r.B)%len(rawPool)])
			}
			if c != "id" && r.Nulls > 0 && i%r.Nulls == ci {
				v = val.Null
			}
			row[ci] = v
		}
		tb.Rows = append(tb.Rows, row)
	}
	return tb
}

func row0Null(tb *table, i int) bool { return tb.Rows[i][0].IsNull() }

type bulkCase struct {
	TKind string  `json:"t_kind"`
	UKind string  `json:"u_kind"`
	TFmt  string  `json:"t_fmt,omitempty"`
	UFmt  string  `json:"u_fmt,omitempty"`
	TPos  string  `json:"t_pos,omitempty"`
	UPos  string  `json:"u_pos,omitempty"`
	TR    recipe  `json:"t"`
	UR    *recipe `json:"u,omitempty"`
	CPU   int     `json:"cpu"`
	Ops   []opT   `json:"ops"`
}

func (b bulkCase) hist() (histCase, bool) {
	c := histCase{TKind: b.TKind, UKind: b.UKind, TFmt: b.TFmt, UFmt: b.UFmt, TPos: b.TPos, UPos: b.UPos, CPU: b.CPU, Ops: b.Ops}
	if !b.TR.valid() || (b.UKind != "" && (b.UR == nil || !b.UR.valid())) {
		return c, false
	}
	c.T = b.TR.build()
	if b.UKind != "" {
		c.U = b.UR.build()
	}
	return c, true
}

func genRecipe(t *rapid.T, name string, n int) recipe {
	r := recipe{N: n, Cols: []string{"id"}}
	for _, c := range []struct {
		n string
		p int
	}{{"v", 85}, {"s", 70}, {"w", 35}, {"p", 30}} {
		if fw.Pct(t, name+"_col_"+c.n, c.p) {
			r.Cols = append(r.Cols, c.n)
		}
	}
	if len(r.Cols) < 2 {
		r.Cols = append(r.Cols, "v")
	}
	r.Stride = fw.PickU(t, name+"_stride", []int{1, 1, 7, 11, 13, 17, 19, 23, 29, 31, 37, 41})
	if gcd(r.Stride, n) != 1 {
		r.Stride = 1
	}
	r.Rot = fw.Range(t, name+"_rot", 0, n-1)
	r.A, r.B = fw.Range(t, name+"_a", 1, 9), fw.Range(t, name+"_b", 0, 9)
	r.Nulls = fw.PickU(t, name+"_nulls", []int{0, 5, 7, 11, 16})
	for i, k := 0, fw.Weighted(t, name+"_idnulls", []int{55, 30, 15}); i < k; i++ {
		r.IDNull = append(r.IDNull, fw.Range(t, name+"_idnull", 0, n-1))
	}
	for i, k := 0, fw.Weighted(t, name+"_iddups", []int{50, 25, 15, 10}); i < k; i++ {
		r.IDDup = append(r.IDDup, fw.Range(t, name+"_iddup", 1, max(1, n-1)))
	}
	return r
}

func sizeClass(n int) string {
	switch {
	case n < 80:
		return "<80"
	case n < 160:
		return "80-159"
	case n < 240:
		return "160-239"
	case n < 320:
		return "240-319"
	case n < 480:
		return "320-479"
	}
	return "480+"
}

func genBulk(t *rapid.T) bulkCase {
	g := &gen{t: t, m: &model{tabs: map[string]*table{}}, kinds: map[string]map[string]string{}, tk: map[string]string{}, maxRows: 1200, subqPct: 15, bulk: true}
	b := bulkCase{TKind: []string{"file", "temp", "stdin"}[fw.Weighted(t, "tkind", []int{45, 30, 25})]}
	b.CPU = fw.PickU(t, "cpu", []int{2, 3, 4, 8})
	var n int
	switch fw.Weighted(t, "tsize", []int{8, 32, 25, 22, 13}) {
	case 0:
		n = fw.Range(t, "n", 81, 159) // one goroutine, but beyond every small-table shortcut
	case 1:
		n = fw.Range(t, "n", 160, 239) // two goroutines
	case 2:
		n = fw.Range(t, "n", 240, 319) // three
	case 3:
		n = fw.Range(t, "n", 320, 479) // four or five
	default:
		n = fw.Range(t, "n", 480, 700)
	}
	b.TR = genRecipe(t, "t", n)
	g.tk["t"] = b.TKind
	g.m.tabs["t"], g.kinds["t"] = b.TR.build(), b.TR.kinds()
	if fw.Pct(t, "two", 70) {
		b.UKind = fw.PickU(t, "ukind", []string{"file", "temp"})
		un := fw.Range(t, "un", 3, 40)
		if fw.Pct(t, "ubig", 40) {
			un = fw.Range(t, "un", 160, 340)
		}
		ur := genRecipe(t, "u", un)
		b.UR = &ur
		g.tk["u"] = b.UKind
		g.m.tabs["u"], g.kinds["u"] = ur.build(), ur.kinds()
	}
	if b.TKind == "file" {
		if b.TFmt = fileFormat(t, g.m.tabs["t"], g.m); b.TFmt == "fixed" {
			b.TPos = fixedPositions(t, g.m.tabs["t"])
		}
	}
	if b.UKind == "file" {
		if b.UFmt = fileFormat(t, g.m.tabs["u"], g.m); b.UFmt == "fixed" {
			b.UPos = fixedPositions(t, g.m.tabs["u"])
		}
	}
	c := histCase{TKind: b.TKind, UKind: b.UKind, TFmt: b.TFmt, UFmt: b.UFmt, TPos: b.TPos, UPos: b.UPos}
	//                    insert insel update updjoin delete deljoin replace repsel add drop rename commit rollback
	g.history(&c, fw.Range(t, "steps", 2, 5), []int{7, 10, 15, 8, 13, 7, 9, 9, 10, 4, 2, 6, 3})
	b.Ops = c.Ops
	return b
}

func checkBulk(b bulkCase) (fw.Outcome, *fw.Violation) {
	c, ok := b.hist()
	if !ok || b.CPU < 2 || b.CPU > 16 {
		return fw.Outcome{Discard: true}, nil
	}
	o, v := checkHistRule(c, true)
	if v != nil || o.Discard {
		return o, v
	}
	o.Classes = append(o.Classes, "rows_t:"+sizeClass(b.TR.N), fmt.Sprintf("cpu:%d", b.CPU))
	if b.UR != nil {
		o.Classes = append(o.Classes, "rows_u:"+sizeClass(b.UR.N))
	}
	if o.Fingerprint != "" {
		o.Fingerprint = fmt.Sprintf("%s|%s|%d|%s", sizeClass(b.TR.N), map[bool]string{true: "u", false: "-"}[b.UR != nil], b.CPU, o.Fingerprint)
	}
	return o, nil
}

func TestC05Bulk(t *testing.T) {
	fw.Run(t, fw.Spec[bulkCase]{
		ID: "C05", Name: "bulk", Quick: 640, Thorough: 12000,
		Gen: genBulk, Check: checkBulk,
		Rule: "the operations, the model and the oracle of dml_history over tables large enough for csvq to split one statement over several goroutines (80 records per goroutine): t has 81-700 records (92% at least 160) in a CSV/TSV/JSON/JSON Lines/LTSV/fixed-length file, a temporary table or STDIN, u (70%) 3-40 or 160-340 records; the initial tables are computed from a recipe (ids a permutation of 1..n with up to 2 NULLs and up to 3 repeats, v/w/s/p from moduli, NULL cells on a period); histories of 2-5 statements, executed at --cpu 1 and again at --cpu 2/3/4/8; after every step SELECT * of every table equals the model as a sequence and the affected-record counts equal the model's. Non-trivial = query.VerifParallelTasks grew during the history (a statement really ran on several goroutines) and a data-changing step matched a strict non-empty subset of its target; distinct by (size class of t, presence of u, cpu, table kinds and formats, sequence of rule names with their match class)",
		Assumptions: []string{
			"as dml_history; scalar / IN / EXISTS subqueries are drawn at 15% of their dml_history rate (one subquery evaluation per record of a large table)",
			"the row order of SELECT * over one table is the table's row order at every --cpu",
		},
	})
}
