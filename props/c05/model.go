// Package c05 decides property C05: INSERT / UPDATE / DELETE / REPLACE / ALTER
// TABLE change exactly what they say and report it.
//
// model.go holds the operation IR (the replay file is a list of these), the
// reference model written from the manual pages insert-query.md,
// update-query.md, delete-query.md, replace-query.md, alter-table-query.md,
// temporary-table.md (textbook edits on an ordered table), and the rendering
// of an operation as csvq SQL text.
package c05

import (
	"errors"
	"fmt"
	"sort"
	"strings"

	"verif/internal/ref"
	"verif/internal/val"
)

// ---------------------------------------------------------------------
// expression / predicate IR (safe fragment: integers, short non-numeric
// strings, NULL; + - * ||; relational operators, AND OR NOT, IS NULL, IN)

type node struct {
	K   string `json:"k"`             // int str null col | add sub mul cat | cmp and or not isnull in | subq | insub exists
	Op  string `json:"op,omitempty"`  // cmp: = <> < <= > >= ; subq: sum max min count countall one
	Neg bool   `json:"neg,omitempty"` // isnull: IS NOT NULL; in: NOT IN
	N   int64  `json:"n,omitempty"`   // int
	S   string `json:"s,omitempty"`   // str
	Q   string `json:"q,omitempty"`   // col: logical table ("t" / "u"), "z" = the table of the enclosing subquery, "" = unqualified; subq: table
	C   string `json:"c,omitempty"`   // col: column name
	A   []node `json:"a,omitempty"`   // operands; subq: optional WHERE predicate
}

func nInt(i int64) node             { return node{K: "int", N: i} }
func nStr(s string) node            { return node{K: "str", S: s} }
func nNull() node                   { return node{K: "null"} }
func nCol(q, c string) node         { return node{K: "col", Q: q, C: c} }
func nBin(k string, a, b node) node { return node{K: k, A: []node{a, b}} }
func nCmp(op string, a, b node) node {
	return node{K: "cmp", Op: op, A: []node{a, b}}
}

// errOutside: the operation is outside the modelled fragment (or is an error
// in csvq whose outcome the property does not describe); the history is cut there.
type outsideErr struct{ why string }

func (e *outsideErr) Error() string { return e.why }

func outside(format string, args ...interface{}) error {
	return &outsideErr{why: fmt.Sprintf(format, args...)}
}

func whyOutside(err error) string {
	var o *outsideErr
	if errors.As(err, &o) {
		w := o.why
		if i := strings.IndexAny(w, ":("); i > 0 {
			w = w[:i]
		}
		return strings.TrimSpace(w)
	}
	return "other"
}

// table is an ordered table.
type table struct {
	Cols []string    `json:"cols"`
	Rows [][]val.Val `json:"rows"`
}

func (t *table) clone() *table {
	c := &table{Cols: append([]string(nil), t.Cols...)}
	for _, r := range t.Rows {
		c.Rows = append(c.Rows, append([]val.Val(nil), r...))
	}
	return c
}

func (t *table) col(name string) int {
	for i, c := range t.Cols {
		if c == name {
			return i
		}
	}
	return -1
}

// binding: one table of the row environment; row nil = NULL-extended side of a LEFT JOIN.
type binding struct {
	q   string
	tab *table
	row []val.Val
	m   *model // set on the first binding: the state before the statement, read by scalar subqueries
}

type env []binding

func (e env) model() *model {
	for _, b := range e {
		if b.m != nil {
			return b.m
		}
	}
	return nil
}

// subqAlias: the alias of the table of a scalar subquery, (SELECT f(z.c) FROM tab z WHERE ...).
const subqAlias = "z"

func (e env) lookup(q, c string) (val.Val, error) {
	found := 0
	var out val.Val
	for _, b := range e {
		if q != "" && b.q != q {
			continue
		}
		i := b.tab.col(c)
		if i < 0 {
			continue
		}
		found++
		if b.row == nil {
			out = val.Null
		} else {
			out = b.row[i]
		}
	}
	switch found {
	case 1:
		return out, nil
	case 0:
		return val.Null, outside("unknown column: %s.%s", q, c)
	}
	return val.Null, outside("ambiguous column: %s.%s", q, c)
}

func text(v val.Val) string { return v.S }

const intBound = int64(1) << 40

// evalVal evaluates a value expression (arithmetic-operators.md,
// string-operators.md: NULL if an operand is NULL).
func evalVal(n node, e env) (val.Val, error) {
	switch n.K {
	case "int":
		return val.Int(n.N), nil
	case "str":
		return val.Str(n.S), nil
	case "null":
		return val.Null, nil
	case "col":
		return e.lookup(n.Q, n.C)
	case "add", "sub", "mul":
		if len(n.A) != 2 {
			return val.Null, outside("arity")
		}
		a, err := evalVal(n.A[0], e)
		if err != nil {
			return val.Null, err
		}
		b, err := evalVal(n.A[1], e)
		if err != nil {
			return val.Null, err
		}
		if a.IsNull() || b.IsNull() {
			return val.Null, nil
		}
		x, ok1 := ref.AsInteger(a)
		y, ok2 := ref.AsInteger(b)
		if !ok1 || !ok2 {
			return val.Null, outside("non-integer operand of arithmetic: %s, %s", a, b)
		}
		if x > intBound || x < -intBound || y > intBound || y < -intBound {
			return val.Null, outside("integer range")
		}
		var r int64
		switch n.K {
		case "add":
			r = x + y
		case "sub":
			r = x - y
		default:
			if (x > 1<<20 || x < -(1<<20)) && (y > 1<<20 || y < -(1<<20)) {
				return val.Null, outside("integer range")
			}
			r = x * y
		}
		return val.Int(r), nil
	case "cat":
		if len(n.A) != 2 {
			return val.Null, outside("arity")
		}
		a, err := evalVal(n.A[0], e)
		if err != nil {
			return val.Null, err
		}
		b, err := evalVal(n.A[1], e)
		if err != nil {
			return val.Null, err
		}
		if a.IsNull() || b.IsNull() {
			return val.Null, nil
		}
		if (a.K != "I" && a.K != "S") || (b.K != "I" && b.K != "S") {
			return val.Null, outside("concatenation operand type")
		}
		s := text(a) + text(b)
		if len(s) > 24 {
			return val.Null, outside("string length")
		}
		return val.Str(s), nil
	case "subq":
		return evalSubq(n, e)
	}
	return val.Null, outside("not a value expression: %s", n.K)
}

// evalSubq: a scalar subquery (value.md: exactly one field, at most one record,
// NULL without a record; aggregate-functions.md: COUNT counts non-NULL values,
// COUNT(*) all records, MIN/MAX/SUM ignore NULLs and are NULL when nothing is
// left). It reads the state BEFORE the statement that contains it.
func evalSubq(n node, e env) (val.Val, error) {
	mm := e.model()
	if mm == nil {
		return val.Null, outside("subquery without a table state")
	}
	for _, b := range e {
		if b.q == subqAlias {
			return val.Null, outside("nested subquery")
		}
	}
	st := mm.tabs[n.Q]
	if st == nil {
		return val.Null, outside("subquery table")
	}
	ci := -1
	if n.Op != "countall" {
		if ci = st.col(n.C); ci < 0 {
			return val.Null, outside("unknown column: %s", n.C)
		}
	}
	if len(n.A) > 1 {
		return val.Null, outside("arity")
	}
	records := 0
	var vals []val.Val
	for _, row := range st.Rows {
		if len(n.A) == 1 {
			inner := append(append(env{}, e...), binding{q: subqAlias, tab: st, row: row})
			t, err := evalTern(n.A[0], inner)
			if err != nil {
				return val.Null, err
			}
			if t != ref.T {
				continue
			}
		}
		records++
		if ci >= 0 {
			vals = append(vals, row[ci])
		}
	}
	switch n.Op {
	case "countall":
		return val.Int(int64(records)), nil
	case "count":
		c := 0
		for _, v := range vals {
			if !v.IsNull() {
				c++
			}
		}
		return val.Int(int64(c)), nil
	case "one":
		switch records {
		case 0:
			return val.Null, nil
		case 1:
			return vals[0], nil
		}
		return val.Null, outside("scalar subquery with several records")
	case "sum", "max", "min":
		have := false
		var acc int64
		for _, v := range vals {
			if v.IsNull() {
				continue
			}
			x, ok := ref.AsInteger(v)
			if !ok || x > intBound || x < -intBound {
				return val.Null, outside("aggregate over a non-integer value: %s", v)
			}
			switch {
			case !have:
				acc = x
			case n.Op == "sum":
				acc += x
			case n.Op == "max" && x > acc, n.Op == "min" && x < acc:
				acc = x
			}
			have = true
		}
		if !have {
			return val.Null, nil
		}
		return val.Int(acc), nil
	}
	return val.Null, outside("subquery function %s", n.Op)
}

// hasSubq reports a scalar subquery inside n; reads: the tables they read.
func hasSubq(n node, reads map[string]bool, correlated *bool) bool {
	found := false
	if n.K == "insub" || n.K == "exists" {
		found = true
		if reads != nil {
			reads[n.Q] = true
		}
		if w := subqPredWhere(n); correlated != nil && w != nil {
			var refs [][2]string
			colRefs(*w, &refs)
			for _, r := range refs {
				if r[0] != subqAlias {
					*correlated = true
				}
			}
		}
		if n.K == "insub" && len(n.A) > 0 {
			return hasSubq(n.A[0], reads, correlated) || found
		}
		return found
	}
	if n.K == "subq" {
		found = true
		if reads != nil {
			reads[n.Q] = true
		}
		if correlated != nil && len(n.A) == 1 {
			var refs [][2]string
			colRefs(n.A[0], &refs)
			for _, r := range refs {
				if r[0] != subqAlias {
					*correlated = true
				}
			}
		}
	}
	for _, a := range n.A {
		if hasSubq(a, reads, correlated) {
			found = true
		}
	}
	return found
}

// subqPredWhere: the WHERE predicate of an insub / exists node (nil: none).
func subqPredWhere(n node) *node {
	switch {
	case n.K == "insub" && len(n.A) == 2:
		return &n.A[1]
	case n.K == "exists" && len(n.A) == 1:
		return &n.A[0]
	}
	return nil
}

// hasSubqPred reports an IN (subquery) / EXISTS predicate inside n.
func hasSubqPred(n node, kind string) bool {
	if n.K == kind {
		return true
	}
	for _, a := range n.A {
		if hasSubqPred(a, kind) {
			return true
		}
	}
	return false
}

// evalTern evaluates a predicate with Kleene logic (logic-operators.md,
// comparison-operators.md) over the documented coercion ladder.
func evalTern(n node, e env) (int, error) {
	switch n.K {
	case "cmp":
		if len(n.A) != 2 {
			return ref.U, outside("arity")
		}
		a, err := evalVal(n.A[0], e)
		if err != nil {
			return ref.U, err
		}
		b, err := evalVal(n.A[1], e)
		if err != nil {
			return ref.U, err
		}
		rel, open := ref.Compare(a, b)
		if open {
			return ref.U, outside("comparison of a number with a non-numeric string: %s, %s", a, b)
		}
		return ref.Op(rel, n.Op), nil
	case "and", "or":
		if len(n.A) != 2 {
			return ref.U, outside("arity")
		}
		a, err := evalTern(n.A[0], e)
		if err != nil {
			return ref.U, err
		}
		b, err := evalTern(n.A[1], e)
		if err != nil {
			return ref.U, err
		}
		if n.K == "and" {
			return ref.And(a, b), nil
		}
		return ref.Or(a, b), nil
	case "not":
		if len(n.A) != 1 {
			return ref.U, outside("arity")
		}
		a, err := evalTern(n.A[0], e)
		if err != nil {
			return ref.U, err
		}
		return ref.Not(a), nil
	case "isnull":
		if len(n.A) != 1 {
			return ref.U, outside("arity")
		}
		a, err := evalVal(n.A[0], e)
		if err != nil {
			return ref.U, err
		}
		r := ref.F
		if a.IsNull() {
			r = ref.T
		}
		if n.Neg {
			r = ref.Not(r)
		}
		return r, nil
	case "in":
		if len(n.A) < 2 {
			return ref.U, outside("arity")
		}
		a, err := evalVal(n.A[0], e)
		if err != nil {
			return ref.U, err
		}
		r := ref.F
		for _, x := range n.A[1:] {
			b, err := evalVal(x, e)
			if err != nil {
				return ref.U, err
			}
			rel, open := ref.Compare(a, b)
			if open {
				return ref.U, outside("comparison of a number with a non-numeric string: %s, %s", a, b)
			}
			r = ref.Or(r, ref.Op(rel, "="))
		}
		if n.Neg {
			r = ref.Not(r)
		}
		return r, nil
	case "insub", "exists":
		return evalSubqPred(n, e)
	}
	return ref.U, outside("not a predicate: %s", n.K)
}

// evalSubqPred: value [NOT] IN (SELECT z.c FROM tab z [WHERE ...]) and [NOT]
// EXISTS (SELECT 1 FROM tab z [WHERE ...]) (comparison-operators.md: IN is
// = ANY - TRUE if any comparison is TRUE, else UNKNOWN if any is UNKNOWN, else
// FALSE, FALSE without a record; NOT IN is <> ALL; EXISTS is TRUE with at
// least one record, else FALSE). The subquery reads the state BEFORE the
// statement that contains it.
//
//	insub:  A[0] the value, A[1] (optional) the WHERE predicate of the subquery
//	exists: A[0] (optional) the WHERE predicate of the subquery
func evalSubqPred(n node, e env) (int, error) {
	mm := e.model()
	if mm == nil {
		return ref.U, outside("subquery without a table state")
	}
	for _, b := range e {
		if b.q == subqAlias {
			return ref.U, outside("nested subquery")
		}
	}
	st := mm.tabs[n.Q]
	if st == nil {
		return ref.U, outside("subquery table")
	}
	var where *node
	var a val.Val
	ci := -1
	if n.K == "insub" {
		if len(n.A) < 1 || len(n.A) > 2 {
			return ref.U, outside("arity")
		}
		if ci = st.col(n.C); ci < 0 {
			return ref.U, outside("unknown column: %s", n.C)
		}
		var err error
		if a, err = evalVal(n.A[0], e); err != nil {
			return ref.U, err
		}
		if len(n.A) == 2 {
			where = &n.A[1]
		}
	} else {
		if len(n.A) > 1 {
			return ref.U, outside("arity")
		}
		if len(n.A) == 1 {
			where = &n.A[0]
		}
	}
	r := ref.F
	for _, row := range st.Rows {
		if where != nil {
			inner := append(append(env{}, e...), binding{q: subqAlias, tab: st, row: row})
			t, err := evalTern(*where, inner)
			if err != nil {
				return ref.U, err
			}
			if t != ref.T {
				continue
			}
		}
		if n.K == "exists" {
			r = ref.T
			break
		}
		rel, open := ref.Compare(a, row[ci])
		if open {
			return ref.U, outside("comparison of a number with a non-numeric string: %s, %s", a, row[ci])
		}
		r = ref.Or(r, ref.Op(rel, "="))
	}
	if n.Neg {
		r = ref.Not(r)
	}
	return r, nil
}

// colRefs lists the (qualifier, column) pairs an expression reads.
func colRefs(n node, out *[][2]string) {
	if n.K == "col" {
		*out = append(*out, [2]string{n.Q, n.C})
	}
	for _, a := range n.A {
		colRefs(a, out)
	}
}

// render prints an expression; q maps a logical table to its SQL qualifier.
func render(n node, q map[string]string) string {
	bin := func(op string) string {
		return "(" + render(n.A[0], q) + " " + op + " " + render(n.A[1], q) + ")"
	}
	switch n.K {
	case "int":
		return val.Int(n.N).SQL()
	case "str":
		return val.QuoteSQL(n.S)
	case "null":
		return "NULL"
	case "col":
		if n.Q != "" {
			return q[n.Q] + "." + n.C
		}
		return n.C
	case "add":
		return bin("+")
	case "sub":
		return bin("-")
	case "mul":
		return bin("*")
	case "cat":
		return bin("||")
	case "cmp":
		return bin(n.Op)
	case "and":
		return bin("AND")
	case "or":
		return bin("OR")
	case "not":
		return "(NOT " + render(n.A[0], q) + ")"
	case "isnull":
		if n.Neg {
			return "(" + render(n.A[0], q) + " IS NOT NULL)"
		}
		return "(" + render(n.A[0], q) + " IS NULL)"
	case "subq":
		col := q[subqAlias] + "." + n.C
		f := map[string]string{"sum": "SUM(" + col + ")", "max": "MAX(" + col + ")", "min": "MIN(" + col + ")",
			"count": "COUNT(" + col + ")", "countall": "COUNT(*)", "one": col}[n.Op]
		s := "(SELECT " + f + " FROM " + q["tref:"+n.Q] + " " + q[subqAlias]
		if len(n.A) == 1 {
			s += " WHERE " + render(n.A[0], q)
		}
		return s + ")"
	case "insub":
		op := " IN "
		if n.Neg {
			op = " NOT IN "
		}
		sq := "(SELECT " + q[subqAlias] + "." + n.C + " FROM " + q["tref:"+n.Q] + " " + q[subqAlias]
		if len(n.A) == 2 {
			sq += " WHERE " + render(n.A[1], q)
		}
		return "(" + render(n.A[0], q) + op + sq + "))"
	case "exists":
		sq := "EXISTS (SELECT 1 FROM " + q["tref:"+n.Q] + " " + q[subqAlias]
		if len(n.A) == 1 {
			sq += " WHERE " + render(n.A[0], q)
		}
		if n.Neg {
			return "(NOT " + sq + "))"
		}
		return "(" + sq + "))"
	case "in":
		var xs []string
		for _, a := range n.A[1:] {
			xs = append(xs, render(a, q))
		}
		op := " IN ("
		if n.Neg {
			op = " NOT IN ("
		}
		return "(" + render(n.A[0], q) + op + strings.Join(xs, ", ") + "))"
	}
	return "NULL"
}

// ---------------------------------------------------------------------
// operations

type setT struct {
	T string `json:"t"` // logical table of the assigned column
	C string `json:"c"`
	E node   `json:"e"`
}

type addT struct {
	Name string `json:"name"`
	Def  *node  `json:"def,omitempty"`
}

type opT struct {
	K       string   `json:"k"`                 // insert insel update updjoin delete deljoin replace repsel add drop rename commit rollback
	T       string   `json:"t,omitempty"`       // target table (join forms: left table)
	O       string   `json:"o,omitempty"`       // insel/repsel: source table; join forms: right table
	Ext     bool     `json:"ext,omitempty"`     // a file is named `t.csv` instead of t
	Alias   bool     `json:"alias,omitempty"`   // join forms: tables get the aliases x, y
	Paren   bool     `json:"paren,omitempty"`   // add/drop of one column written with the list syntax
	Cols    []string `json:"cols,omitempty"`    // insert/replace: column list (empty = not written = all columns)
	Rows    [][]node `json:"rows,omitempty"`    // insert/replace VALUES
	Keys    []string `json:"keys,omitempty"`    // replace USING
	Sel     []node   `json:"sel,omitempty"`     // insel/repsel: select list
	Order   string   `json:"order,omitempty"`   // insel/repsel: ORDER BY column of the source
	Desc    bool     `json:"desc,omitempty"`    //
	Set     []setT   `json:"set,omitempty"`     // update/updjoin
	Targets []string `json:"targets,omitempty"` // updjoin/deljoin: tables named after UPDATE / DELETE
	Join    string   `json:"join,omitempty"`    // inner left cross
	On      *node    `json:"on,omitempty"`
	Where   *node    `json:"where,omitempty"`
	Adds    []addT   `json:"adds,omitempty"`
	Pos     string   `json:"pos,omitempty"`     // "" FIRST LAST BEFORE AFTER
	PosCol  string   `json:"pos_col,omitempty"` //
	Drops   []string `json:"drops,omitempty"`
	Old     string   `json:"old,omitempty"`
	New     string   `json:"new,omitempty"`
	Wrap    []string `json:"wrap,omitempty"`    // control flow around the statement, outermost first: if case while func; "prep" (innermost only): PREPARE with every literal a placeholder + EXECUTE USING
	Src     string   `json:"src,omitempty"`     // how the table SrcTab, which the statement only reads, is reached: "" directly | with (WITH c05ct AS (SELECT * FROM tab)) | derived ((SELECT * FROM tab) in the FROM clause)
	SrcTab  string   `json:"src_tab,omitempty"` // insel/repsel: the source; join forms: the right table (not a target); otherwise the table read by the subqueries
}

const (
	commonTableName  = "c05ct"
	derivedTableName = "c05dt"
)

// model: the tables by logical name.
type model struct {
	tabs map[string]*table
}

func (m *model) clone() *model {
	c := &model{tabs: map[string]*table{}}
	for k, t := range m.tabs {
		c.tabs[k] = t.clone()
	}
	return c
}

func (m *model) names() []string {
	var ns []string
	for k := range m.tabs {
		ns = append(ns, k)
	}
	sort.Strings(ns)
	return ns
}

// effect: what a statement is expected to report.
type effect struct {
	verb     string         // inserted updated deleted replaced; "" for ALTER
	counts   map[string]int // per target table
	total    int
	fields   int    // ALTER: number of fields
	subset   string // none strict all (UPDATE/DELETE/REPLACE: rows of the target matched); "-" otherwise
	appended int    // REPLACE: given rows without a matching record
	changed  bool   // the statement changed data (or the structure)
}

func distinctStrings(xs []string) bool {
	seen := map[string]bool{}
	for _, x := range xs {
		if seen[x] {
			return false
		}
		seen[x] = true
	}
	return true
}

func subsetClass(matched, total int) string {
	switch {
	case matched == 0:
		return "none"
	case matched < total:
		return "strict"
	}
	return "all"
}

type jrow struct{ l, r int } // indices into the left / right table; r = -1: NULL-extended

// joined computes the rows of "L JOIN R ON cond WHERE pred" that pass.
func (m *model) joined(op opT) ([]jrow, error) {
	lt, rt := m.tabs[op.T], m.tabs[op.O]
	if lt == nil || rt == nil || op.T == op.O {
		return nil, outside("join tables")
	}
	var out []jrow
	pass := func(l int, r int) (bool, error) {
		if op.Where == nil {
			return true, nil
		}
		e := env{{q: op.T, tab: lt, row: lt.Rows[l]}, {q: op.O, tab: rt}}
		if r >= 0 {
			e[1].row = rt.Rows[r]
		}
		t, err := evalTern(*op.Where, e)
		return t == ref.T, err
	}
	for l := range lt.Rows {
		any := false
		for r := range rt.Rows {
			on := ref.T
			if op.Join != "cross" {
				if op.On == nil {
					return nil, outside("join without condition")
				}
				var err error
				on, err = evalTern(*op.On, env{{q: op.T, tab: lt, row: lt.Rows[l]}, {q: op.O, tab: rt, row: rt.Rows[r]}})
				if err != nil {
					return nil, err
				}
			}
			if on != ref.T {
				continue
			}
			any = true
			ok, err := pass(l, r)
			if err != nil {
				return nil, err
			}
			if ok {
				out = append(out, jrow{l, r})
			}
		}
		if !any && op.Join == "left" {
			ok, err := pass(l, -1)
			if err != nil {
				return nil, err
			}
			if ok {
				out = append(out, jrow{l, -1})
			}
		}
	}
	return out, nil
}

// given evaluates the rows an INSERT / REPLACE provides, in the given order,
// as full-width records of the target (missing columns NULL).
func (m *model) given(op opT) ([][]val.Val, []int, error) {
	tt := m.tabs[op.T]
	cols := op.Cols
	if len(cols) == 0 {
		cols = tt.Cols
	}
	if !distinctStrings(cols) {
		return nil, nil, outside("duplicate column in the column list")
	}
	idx := make([]int, len(cols))
	for i, c := range cols {
		idx[i] = tt.col(c)
		if idx[i] < 0 {
			return nil, nil, outside("unknown column: %s", c)
		}
	}
	var vals [][]val.Val
	switch op.K {
	case "insert", "replace":
		for _, r := range op.Rows {
			if len(r) != len(cols) {
				return nil, nil, outside("row value length")
			}
			var vs []val.Val
			for _, n := range r {
				// a value may be a scalar subquery: it reads the state before the statement
				v, err := evalVal(n, env{{q: "\x00values", tab: &table{}, m: m}})
				if err != nil {
					return nil, nil, err
				}
				vs = append(vs, v)
			}
			vals = append(vals, vs)
		}
		if len(vals) == 0 {
			return nil, nil, outside("no rows")
		}
	default: // insel, repsel
		st := m.tabs[op.O]
		if st == nil {
			return nil, nil, outside("source table")
		}
		if len(op.Sel) != len(cols) {
			return nil, nil, outside("select list length")
		}
		var picked []int
		for i, r := range st.Rows {
			if op.Where != nil {
				t, err := evalTern(*op.Where, env{{q: op.O, tab: st, row: r, m: m}})
				if err != nil {
					return nil, nil, err
				}
				if t != ref.T {
					continue
				}
			}
			picked = append(picked, i)
		}
		if op.Order != "" {
			// only total orders are modelled: distinct non-NULL integers
			oc := st.col(op.Order)
			if oc < 0 {
				return nil, nil, outside("unknown column: %s", op.Order)
			}
			keys := map[int]int64{}
			seen := map[int64]bool{}
			for _, i := range picked {
				k, ok := ref.AsInteger(st.Rows[i][oc])
				if !ok || seen[k] {
					return nil, nil, outside("ORDER BY key not a total order")
				}
				seen[k] = true
				keys[i] = k
			}
			sort.SliceStable(picked, func(a, b int) bool {
				if op.Desc {
					return keys[picked[a]] > keys[picked[b]]
				}
				return keys[picked[a]] < keys[picked[b]]
			})
		}
		for _, i := range picked {
			var vs []val.Val
			for _, n := range op.Sel {
				v, err := evalVal(n, env{{q: op.O, tab: st, row: st.Rows[i], m: m}})
				if err != nil {
					return nil, nil, err
				}
				vs = append(vs, v)
			}
			vals = append(vals, vs)
		}
	}
	var recs [][]val.Val
	for _, vs := range vals {
		rec := make([]val.Val, len(tt.Cols))
		for i := range rec {
			rec[i] = val.Null
		}
		for i, v := range vs {
			rec[idx[i]] = v
		}
		recs = append(recs, rec)
	}
	return recs, idx, nil
}

// apply performs the textbook edit; on error the model is unchanged.
func (m *model) apply(op opT) (*effect, error) {
	ef := &effect{counts: map[string]int{}, subset: "-"}
	tt := m.tabs[op.T]
	if tt == nil {
		return nil, outside("target table")
	}
	switch op.K {
	case "insert", "insel":
		recs, _, err := m.given(op)
		if err != nil {
			return nil, err
		}
		nt := tt.clone()
		nt.Rows = append(nt.Rows, recs...)
		m.tabs[op.T] = nt
		ef.verb, ef.counts[op.T], ef.total, ef.changed = "inserted", len(recs), len(recs), len(recs) > 0

	case "replace", "repsel":
		recs, idx, err := m.given(op)
		if err != nil {
			return nil, err
		}
		if len(op.Keys) == 0 || !distinctStrings(op.Keys) {
			return nil, outside("replace keys")
		}
		var kidx []int
		isKey := map[int]bool{}
		for _, k := range op.Keys {
			i := tt.col(k)
			listed := false
			for _, j := range idx {
				if j == i {
					listed = true
				}
			}
			if i < 0 || !listed {
				return nil, outside("replace key not in the column list")
			}
			kidx = append(kidx, i)
			isKey[i] = true
		}
		same := func(a, b []val.Val) (bool, error) {
			for _, i := range kidx {
				rel, open := ref.Compare(a[i], b[i])
				if open {
					return false, outside("comparison of a number with a non-numeric string")
				}
				if ref.Op(rel, "=") != ref.T {
					return false, nil
				}
			}
			return true, nil
		}
		// the property is stated for given keys that are distinct and non-NULL
		for i, a := range recs {
			for _, k := range kidx {
				if a[k].IsNull() {
					return nil, outside("NULL key in a given row")
				}
			}
			for _, b := range recs[:i] {
				eq, err := same(a, b)
				if err != nil {
					return nil, err
				}
				if eq {
					return nil, outside("duplicate key in the given rows")
				}
			}
		}
		nt := tt.clone()
		used := make([]bool, len(recs))
		matched := 0
		for _, row := range nt.Rows {
			for j, rec := range recs {
				eq, err := same(row, rec)
				if err != nil {
					return nil, err
				}
				if eq {
					for _, i := range idx {
						if !isKey[i] {
							row[i] = rec[i]
						}
					}
					used[j] = true
					matched++
					break
				}
			}
		}
		for j, rec := range recs {
			if !used[j] {
				nt.Rows = append(nt.Rows, rec)
				ef.appended++
			}
		}
		m.tabs[op.T] = nt
		ef.verb, ef.total = "replaced", matched+ef.appended
		ef.counts[op.T] = ef.total
		ef.subset = subsetClass(matched, len(tt.Rows))
		ef.changed = ef.total > 0

	case "update":
		if len(op.Set) == 0 {
			return nil, outside("empty SET")
		}
		assigned := map[string]bool{}
		for _, s := range op.Set {
			if s.T != op.T || tt.col(s.C) < 0 || assigned[s.C] {
				return nil, outside("SET target")
			}
			assigned[s.C] = true
		}
		for _, s := range op.Set {
			var refs [][2]string
			colRefs(s.E, &refs)
			for _, r := range refs {
				if r[0] == subqAlias {
					continue // a subquery reads the table as it was before the statement
				}
				if assigned[r[1]] && r[1] != s.C {
					return nil, outside("SET expression reads a column assigned in the same statement")
				}
			}
		}
		nt := tt.clone()
		matched := 0
		for i, row := range tt.Rows {
			e := env{{q: op.T, tab: tt, row: row, m: m}}
			if op.Where != nil {
				t, err := evalTern(*op.Where, e)
				if err != nil {
					return nil, err
				}
				if t != ref.T {
					continue
				}
			}
			matched++
			for _, s := range op.Set {
				v, err := evalVal(s.E, e)
				if err != nil {
					return nil, err
				}
				nt.Rows[i][tt.col(s.C)] = v
			}
		}
		m.tabs[op.T] = nt
		ef.verb, ef.counts[op.T], ef.total = "updated", matched, matched
		ef.subset, ef.changed = subsetClass(matched, len(tt.Rows)), matched > 0

	case "delete":
		nt := &table{Cols: append([]string(nil), tt.Cols...)}
		removed := 0
		for _, row := range tt.Rows {
			if op.Where != nil {
				t, err := evalTern(*op.Where, env{{q: op.T, tab: tt, row: row, m: m}})
				if err != nil {
					return nil, err
				}
				if t != ref.T {
					nt.Rows = append(nt.Rows, append([]val.Val(nil), row...))
					continue
				}
			}
			removed++
		}
		m.tabs[op.T] = nt
		ef.verb, ef.counts[op.T], ef.total = "deleted", removed, removed
		ef.subset, ef.changed = subsetClass(removed, len(tt.Rows)), removed > 0

	case "updjoin", "deljoin":
		if len(op.Targets) == 0 || !distinctStrings(op.Targets) {
			return nil, outside("targets")
		}
		for _, t := range op.Targets {
			if t != op.T && t != op.O {
				return nil, outside("targets")
			}
		}
		jr, err := m.joined(op)
		if err != nil {
			return nil, err
		}
		ot := m.tabs[op.O]
		rowOf := func(t string, j jrow) int {
			if t == op.T {
				return j.l
			}
			return j.r
		}
		isTarget := map[string]bool{}
		for _, t := range op.Targets {
			isTarget[t] = true
		}
		newTabs := map[string]*table{}
		hit := map[string]map[int]bool{}
		for _, t := range op.Targets {
			newTabs[t] = m.tabs[t].clone()
			hit[t] = map[int]bool{}
		}
		if op.K == "updjoin" {
			if len(op.Set) == 0 {
				return nil, outside("empty SET")
			}
			assigned := map[string]bool{}
			perTarget := map[string]int{}
			for _, s := range op.Set {
				if !isTarget[s.T] || m.tabs[s.T].col(s.C) < 0 || assigned[s.T+"."+s.C] {
					return nil, outside("SET target")
				}
				assigned[s.T+"."+s.C] = true
				perTarget[s.T]++
			}
			for _, t := range op.Targets {
				if perTarget[t] == 0 {
					return nil, outside("target without SET item")
				}
			}
			for _, s := range op.Set {
				var refs [][2]string
				colRefs(s.E, &refs)
				for _, r := range refs {
					if r[0] == "" {
						return nil, outside("unqualified column in a join form")
					}
					if assigned[r[0]+"."+r[1]] && !(r[0] == s.T && r[1] == s.C) {
						return nil, outside("SET expression reads a column assigned in the same statement")
					}
				}
			}
			for _, j := range jr {
				e := env{{q: op.T, tab: tt, row: tt.Rows[j.l]}, {q: op.O, tab: ot}}
				if j.r >= 0 {
					e[1].row = ot.Rows[j.r]
				}
				seenHere := map[string]bool{}
				for _, s := range op.Set {
					ri := rowOf(s.T, j)
					if ri < 0 {
						return nil, outside("update of the NULL-extended side of an outer join")
					}
					if !seenHere[s.T] {
						if hit[s.T][ri] {
							return nil, outside("a record to update is joined more than once")
						}
						seenHere[s.T] = true
					}
					v, err := evalVal(s.E, e)
					if err != nil {
						return nil, err
					}
					newTabs[s.T].Rows[ri][m.tabs[s.T].col(s.C)] = v
				}
				for t := range seenHere {
					hit[t][rowOf(t, j)] = true
				}
			}
			ef.verb = "updated"
		} else {
			for _, j := range jr {
				for _, t := range op.Targets {
					if ri := rowOf(t, j); ri >= 0 {
						hit[t][ri] = true
					}
				}
			}
			for _, t := range op.Targets {
				old := m.tabs[t]
				nt := &table{Cols: append([]string(nil), old.Cols...)}
				for i, row := range old.Rows {
					if !hit[t][i] {
						nt.Rows = append(nt.Rows, append([]val.Val(nil), row...))
					}
				}
				newTabs[t] = nt
			}
			ef.verb = "deleted"
		}
		sub := "none"
		for _, t := range op.Targets {
			n := len(hit[t])
			ef.counts[t] = n
			ef.total += n
			switch c := subsetClass(n, len(m.tabs[t].Rows)); {
			case c == "strict":
				sub = "strict"
			case c == "all" && sub != "strict":
				sub = "all"
			}
		}
		for t, nt := range newTabs {
			m.tabs[t] = nt
		}
		ef.subset, ef.changed = sub, ef.total > 0

	case "add":
		if len(op.Adds) == 0 {
			return nil, outside("no columns")
		}
		names := append([]string(nil), tt.Cols...)
		for _, a := range op.Adds {
			names = append(names, a.Name)
		}
		lower := make([]string, len(names))
		for i, n := range names {
			lower[i] = strings.ToLower(n)
		}
		if !distinctStrings(lower) {
			return nil, outside("duplicate column name")
		}
		pos := len(tt.Cols)
		switch op.Pos {
		case "", "LAST":
		case "FIRST":
			pos = 0
		case "BEFORE", "AFTER":
			i := tt.col(op.PosCol)
			if i < 0 {
				return nil, outside("unknown column: %s", op.PosCol)
			}
			pos = i
			if op.Pos == "AFTER" {
				pos = i + 1
			}
		default:
			return nil, outside("position")
		}
		nt := &table{}
		nt.Cols = append(nt.Cols, tt.Cols[:pos]...)
		for _, a := range op.Adds {
			nt.Cols = append(nt.Cols, a.Name)
		}
		nt.Cols = append(nt.Cols, tt.Cols[pos:]...)
		for _, row := range tt.Rows {
			var nr []val.Val
			nr = append(nr, row[:pos]...)
			for _, a := range op.Adds {
				v := val.Null
				if a.Def != nil {
					var err error
					v, err = evalVal(*a.Def, env{{q: op.T, tab: tt, row: row}})
					if err != nil {
						return nil, err
					}
				}
				nr = append(nr, v)
			}
			nr = append(nr, row[pos:]...)
			nt.Rows = append(nt.Rows, nr)
		}
		m.tabs[op.T] = nt
		ef.fields, ef.changed = len(op.Adds), true

	case "drop":
		if len(op.Drops) == 0 || !distinctStrings(op.Drops) {
			return nil, outside("drop list")
		}
		drop := map[int]bool{}
		for _, d := range op.Drops {
			i := tt.col(d)
			if i < 0 {
				return nil, outside("unknown column: %s", d)
			}
			drop[i] = true
		}
		if len(tt.Cols)-len(drop) < 2 {
			// (a table written with one column and a NULL cell is a blank line in CSV: C02's business)
			return nil, outside("fewer than two columns would remain")
		}
		nt := &table{}
		for i, c := range tt.Cols {
			if !drop[i] {
				nt.Cols = append(nt.Cols, c)
			}
		}
		for _, row := range tt.Rows {
			var nr []val.Val
			for i, v := range row {
				if !drop[i] {
					nr = append(nr, v)
				}
			}
			nt.Rows = append(nt.Rows, nr)
		}
		m.tabs[op.T] = nt
		ef.fields, ef.changed = len(drop), true

	case "rename":
		i := tt.col(op.Old)
		if i < 0 {
			return nil, outside("unknown column: %s", op.Old)
		}
		for _, c := range tt.Cols {
			if strings.EqualFold(c, op.New) {
				return nil, outside("duplicate column name")
			}
		}
		nt := tt.clone()
		nt.Cols[i] = op.New
		m.tabs[op.T] = nt
		ef.fields, ef.changed = 1, true

	default:
		return nil, outside("operation kind %s", op.K)
	}
	return ef, nil
}

// ---------------------------------------------------------------------
// SQL text

// naming: how the tables of a case are written in SQL.
type naming struct {
	kind map[string]string // logical table -> file | temp | stdin
	ffmt map[string]string // logical table -> file format of a file table: "" (csv) | tsv | json | jsonl | ltsv | fixed
	pos  map[string]string // fixed: the delimiter positions every reference gives, SPACES or [p1, p2, ...]
}

// fixedPos: the delimiter positions of a fixed-length file table ("" for every other table).
func (nm naming) fixedPos(t string) string {
	if nm.kind[t] == "file" && nm.ffmt[t] == "fixed" {
		return nm.pos[t]
	}
	return ""
}

// fileExt: the extension of a file table (csvq chooses the format by it).
func (nm naming) fileExt(t string) string {
	switch nm.ffmt[t] {
	case "tsv", "json", "jsonl", "ltsv":
		return "." + nm.ffmt[t]
	case "fixed":
		return ".txt"
	}
	return ".csv"
}

// tref: the table reference of a logical table.
func (nm naming) tref(t string, ext bool) string {
	switch nm.kind[t] {
	case "stdin":
		return "STDIN"
	case "file":
		if p := nm.fixedPos(t); p != "" {
			// a fixed-length file is always named by a table object; its name in the statement is the file's base name
			return "FIXED('" + p + "', `" + t + ".txt`)"
		}
		if ext {
			return "`" + t + nm.fileExt(t) + "`"
		}
	}
	return t
}

func (nm naming) sql(op opT) string {
	// qualifiers: a table is known by its name (STDIN for the stdin table) unless a join form
	// gives aliases; "z" is the alias inside scalar subqueries; tref:<table> its table reference
	q := map[string]string{subqAlias: subqAlias}
	for t := range nm.kind {
		q[t] = nm.tref(t, false)
		if nm.fixedPos(t) != "" {
			q[t] = t
		}
		q["tref:"+t] = nm.tref(t, op.Ext)
	}
	// a table that is only read, reached through a common table or a derived table
	with, srcItem := "", ""
	if op.Src != "" && nm.kind[op.SrcTab] != "" {
		direct := nm.tref(op.SrcTab, op.Ext)
		switch op.Src {
		case "with":
			with = "WITH " + commonTableName + " AS (SELECT * FROM " + direct + ") "
			q["tref:"+op.SrcTab] = commonTableName
			srcItem = commonTableName
		case "derived":
			q["tref:"+op.SrcTab] = "(SELECT * FROM " + direct + ")"
			srcItem = "(SELECT * FROM " + direct + ") " + derivedTableName
		}
	}
	fromSrc := srcItem != "" && op.SrcTab == op.O // the FROM clause itself names the table
	if fromSrc && (op.K == "insel" || op.K == "repsel") {
		q[op.O] = commonTableName
		if op.Src == "derived" {
			q[op.O] = derivedTableName
		}
	}
	where := func() string {
		if op.Where == nil {
			return ""
		}
		return " WHERE " + render(*op.Where, q)
	}
	list := func(cols []string) string {
		if len(cols) == 0 {
			return ""
		}
		return " (" + strings.Join(cols, ", ") + ")"
	}
	values := func() string {
		var rs []string
		for _, r := range op.Rows {
			var vs []string
			for _, n := range r {
				vs = append(vs, render(n, q))
			}
			rs = append(rs, "("+strings.Join(vs, ", ")+")")
		}
		return " VALUES " + strings.Join(rs, ", ")
	}
	sel := func() string {
		var es []string
		for _, n := range op.Sel {
			es = append(es, render(n, q))
		}
		src := nm.tref(op.O, op.Ext)
		if fromSrc {
			src = srcItem
		}
		s := " SELECT " + strings.Join(es, ", ") + " FROM " + src + where()
		if op.Order != "" {
			s += " ORDER BY " + op.Order
			if op.Desc {
				s += " DESC"
			}
		}
		return s
	}
	from := func() string {
		alias := op.Alias || nm.kind[op.T] == "stdin" || nm.kind[op.O] == "stdin"
		l, r := nm.tref(op.T, op.Ext), nm.tref(op.O, op.Ext)
		if fromSrc {
			r = q["tref:"+op.O]
		}
		switch {
		case alias:
			q[op.T], q[op.O] = "x", "y"
			l, r = l+" x", r+" y"
		case fromSrc && op.Src == "derived":
			q[op.O] = derivedTableName
			r += " " + derivedTableName
		case fromSrc:
			q[op.O] = commonTableName
		}
		switch op.Join {
		case "cross":
			return " FROM " + l + ", " + r
		case "left":
			return " FROM " + l + " LEFT JOIN " + r + " ON " + render(*op.On, q)
		}
		return " FROM " + l + " JOIN " + r + " ON " + render(*op.On, q)
	}
	targets := func() string {
		var ts []string
		for _, t := range op.Targets {
			ts = append(ts, q[t])
		}
		return strings.Join(ts, ", ")
	}
	switch op.K {
	case "insert":
		return with + "INSERT INTO " + nm.tref(op.T, op.Ext) + list(op.Cols) + values()
	case "insel":
		return with + "INSERT INTO " + nm.tref(op.T, op.Ext) + list(op.Cols) + sel()
	case "replace":
		return with + "REPLACE INTO " + nm.tref(op.T, op.Ext) + list(op.Cols) + " USING (" + strings.Join(op.Keys, ", ") + ")" + values()
	case "repsel":
		return with + "REPLACE INTO " + nm.tref(op.T, op.Ext) + list(op.Cols) + " USING (" + strings.Join(op.Keys, ", ") + ")" + sel()
	case "update":
		var ss []string
		for _, s := range op.Set {
			ss = append(ss, s.C+" = "+render(s.E, q))
		}
		return with + "UPDATE " + nm.tref(op.T, op.Ext) + " SET " + strings.Join(ss, ", ") + where()
	case "delete":
		return with + "DELETE FROM " + nm.tref(op.T, op.Ext) + where()
	case "updjoin":
		f := from()
		var ss []string
		for _, s := range op.Set {
			ss = append(ss, q[s.T]+"."+s.C+" = "+render(s.E, q))
		}
		return with + "UPDATE " + targets() + " SET " + strings.Join(ss, ", ") + f + where()
	case "deljoin":
		f := from()
		return with + "DELETE " + targets() + f + where()
	case "add":
		var cs []string
		for _, a := range op.Adds {
			c := a.Name
			if a.Def != nil {
				c += " DEFAULT " + render(*a.Def, q)
			}
			cs = append(cs, c)
		}
		s := "ALTER TABLE " + nm.tref(op.T, op.Ext) + " ADD "
		if len(cs) > 1 || op.Paren {
			s += "(" + strings.Join(cs, ", ") + ")"
		} else {
			s += cs[0]
		}
		switch op.Pos {
		case "FIRST", "LAST":
			s += " " + op.Pos
		case "BEFORE", "AFTER":
			s += " " + op.Pos + " " + op.PosCol
		}
		return s
	case "drop":
		s := "ALTER TABLE " + nm.tref(op.T, op.Ext) + " DROP "
		if len(op.Drops) > 1 || op.Paren {
			return s + "(" + strings.Join(op.Drops, ", ") + ")"
		}
		return s + op.Drops[0]
	case "rename":
		return "ALTER TABLE " + nm.tref(op.T, op.Ext) + " RENAME " + op.Old + " TO " + op.New
	case "commit":
		return "COMMIT"
	case "rollback":
		return "ROLLBACK"
	}
	return "-- unknown operation " + op.K
}

// forUpdateTables lists the tables a statement loads for update (every table
// of the FROM clause in the join forms).
func forUpdateTables(op opT) []string {
	switch op.K {
	case "updjoin", "deljoin":
		return []string{op.T, op.O}
	case "commit", "rollback":
		return nil
	}
	return []string{op.T}
}

// wrapSQL puts a statement into control flow (control-flow.md,
// user-defined-function.md): every wrapper executes its body exactly once, so
// the effect is that of the bare statement. Variable and function names are
// unique per step and nesting level and declared where they are used.
func wrapSQL(stmt string, wrap []string, step int) (string, bool) {
	s := stmt + ";"
	if len(wrap) > 3 || (len(wrap) == 3 && wrap[2] != "prep") {
		return s, false
	}
	for i := len(wrap) - 1; i >= 0; i-- {
		switch wrap[i] {
		case "if":
			s = "IF 1 = 1 THEN " + s + " END IF;"
		case "case":
			s = "CASE WHEN TRUE THEN " + s + " END CASE;"
		case "while":
			v := fmt.Sprintf("@c05w%d_%d", step, i)
			s = "VAR " + v + " := 0; WHILE " + v + " < 1 DO " + v + " := " + v + " + 1; " + s + " END WHILE;"
		case "prep":
			if i != len(wrap)-1 {
				return s, false
			}
			text, vals := placeholders(stmt)
			p := fmt.Sprintf("c05p%d", step)
			s = "PREPARE " + p + " FROM " + val.QuoteSQL(text) + "; EXECUTE " + p
			if len(vals) > 0 {
				s += " USING " + strings.Join(vals, ", ")
			}
			s += "; DISPOSE PREPARE " + p + ";"
		case "func":
			f := fmt.Sprintf("c05f%d_%d", step, i)
			s = "DECLARE " + f + " FUNCTION () AS BEGIN " + s + " RETURN 1; END; VAR " + fmt.Sprintf("@c05r%d_%d", step, i) + " := " + f + "();"
		default:
			return s, false
		}
	}
	return s, true
}

// placeholders turns every integer and string literal of a rendered statement
// into a positional placeholder (prepared-statement.md) and returns the
// literals in order; -3 becomes -? with the value 3. The statement text is the
// one nm.sql produces: literals are unsigned digit runs and single-quoted
// strings with backslash escapes, identifiers may be back-quoted.
func placeholders(sql string) (string, []string) {
	isWord := func(c byte) bool {
		return c == '_' || c == '.' || c == '@' || c == '`' || (c >= '0' && c <= '9') || (c >= 'a' && c <= 'z') || (c >= 'A' && c <= 'Z') || c >= 0x80
	}
	var b strings.Builder
	var vals []string
	for i := 0; i < len(sql); {
		c := sql[i]
		switch {
		case c == '`':
			j := i + 1
			for j < len(sql) && sql[j] != '`' {
				j++
			}
			j = min(j+1, len(sql))
			b.WriteString(sql[i:j])
			i = j
		case c == '\'' && strings.HasSuffix(b.String(), "FIXED("):
			// the delimiter positions of a table object stay in the statement text
			j := i + 1
			for j < len(sql) && sql[j] != '\'' {
				j++
			}
			j = min(j+1, len(sql))
			b.WriteString(sql[i:j])
			i = j
		case c == '\'':
			j := i + 1
			for j < len(sql) && sql[j] != '\'' {
				if sql[j] == '\\' {
					j++
				}
				j++
			}
			j = min(j+1, len(sql))
			vals = append(vals, sql[i:j])
			b.WriteByte('?')
			i = j
		case c >= '0' && c <= '9' && (i == 0 || !isWord(sql[i-1])):
			j := i
			for j < len(sql) && sql[j] >= '0' && sql[j] <= '9' {
				j++
			}
			if j < len(sql) && isWord(sql[j]) {
				b.WriteString(sql[i:j])
			} else {
				vals = append(vals, sql[i:j])
				b.WriteByte('?')
			}
			i = j
		default:
			b.WriteByte(c)
			i++
		}
	}
	return b.String(), vals
}
