package c19

import (
	"regexp"
	"strings"
	"testing"

	"pgregory.net/rapid"
)

// Native fuzz targets with the oracles of load_data and programs. A plain
// `go test` (and the quick tier) only runs their seed corpora. Thorough tier:
//
//	cd /verif && go test -tags verif -run '^$' -fuzz '^FuzzLoad$' -fuzztime 5m ./props/c19
//	cd /verif && go test -tags verif -run '^$' -fuzz '^FuzzProgram$' -fuzztime 5m ./props/c19
//
// Defects that are already reported (the avoidKnown* constants) are tolerated so
// that the fuzzer keeps going.

var toleratedSignatures = map[string]bool{
	"fixed_single_line_no_positions_endless_loop": true,
	"json_output_path_conflict_fatal":             true,
	"window_frame_offset_unclamped":               true,
	"zero_column_table_aggregate_fatal":           true,
	"record_set_preallocation_unbounded":          true,
}

func init() {
	for _, k := range knownShapes {
		toleratedSignatures[k.sig] = true
	}
}

var fuzzEncodings = []string{"", "AUTO", "UTF8", "UTF8M", "UTF16", "UTF16LE", "UTF16BEM", "SJIS"}
var fuzzDelims = []string{"", ",", ";", "\t", " ", "\"", "あ", "|"}
var fuzzPositions = []string{"SPACES", "[2,4,6]", "S[2,4]", "[1,5,9]", "[]", "[3,2]", "S[1]", "[1,1000000000]"}
var fuzzQueries = []string{"", "{}", "data", "[0]", "data{}", "[]", "{c1, c2 as x}", "a..b"}

// loadCaseFromFuzz maps the fuzzer's scalars onto the option vector.
func loadCaseFromFuzz(data []byte, fmtSel uint8, opts uint16) loadCase {
	c := loadCase{Data: data, Origin: "fuzz", Ext: ".dat"}
	c.Format = formats[int(fmtSel)%len(formats)]
	c.Via = []string{"stdin", "file", "object_data", "object_file"}[opts&3]
	c.NoHeader = opts&4 != 0
	c.Uneven = opts&8 != 0
	c.WithoutNull = opts&16 != 0
	c.Enc = fuzzEncodings[(opts>>5)&7]
	sel := int((opts >> 8) & 7)
	switch c.Format {
	case "CSV":
		c.Delim = fuzzDelims[sel]
	case "FIXED":
		c.Pos = fuzzPositions[sel]
	case "JSON", "JSONL":
		c.JQ = fuzzQueries[sel]
	}
	if opts&(1<<11) != 0 {
		c.Ext = fileExt[c.Format]
	}
	return c
}

func FuzzLoad(f *testing.F) {
	for fi, format := range formats {
		for si, seed := range seedFiles[format] {
			f.Add(seed, uint8(fi), uint16(si*37+fi))
			f.Add(seed, uint8(fi), uint16(si*8+2+256*si))
		}
	}
	for _, s := range []string{"", "\"", "a,b\n1", "a,b\r\n\"x", "\xff\xfe", "{\"a\":", "[{}]", "a:1\tb", "\x00", "a,b\n1,2,3\n4\n"} {
		for fi := range formats {
			f.Add([]byte(s), uint8(fi), uint16(8+fi))
		}
	}
	f.Fuzz(func(t *testing.T, data []byte, fmtSel uint8, opts uint16) {
		// csvq's work is quadratic in the number of columns: keep inputs small
		if len(data) > 4096 {
			return
		}
		c := loadCaseFromFuzz(data, fmtSel, opts)
		if avoidKnownSingleLineNoPositions && c.Format == "FIXED" && singleLineNoPositions(c.Pos) {
			return
		}
		if _, v := checkLoad(c); v != nil && !toleratedSignatures[v.Sig] && v.Sig != "HARNESS" {
			t.Fatalf("%s", v.Error())
		}
	})
}

// programs the fuzz target does not execute: they reach outside the process,
// can legitimately run for ever, or ask for results of unbounded size.
var fuzzBanned = []string{"$", "CALL", "SOURCE", "EXECUTE", "CHDIR", "RELOAD", "://", "URL", "FILE::", "INLINE::", "HTTP", "WHILE", "FUNCTION", "AGGREGATE", "RECURSIVE", "REPOSITORY", "`/", "'/", "\"/", "..", "~", "STDIN", "COMMIT", "CREATE", "SYNTAX"}
var fuzzBigNumber = regexp.MustCompile(`[0-9]{6,}|[0-9][eE][+-]?[0-9]`)

func FuzzProgram(f *testing.F) {
	gen := rapid.Custom(genProg)
	for i := 0; i < 120; i++ {
		c := gen.Example(i + 1)
		if len(c.SQL) < 2000 {
			f.Add(c.SQL)
		}
	}
	for _, s := range []string{"", ";", "SELECT 1", "SELECT NULL LIMIT 0 PERCENT WITH TIES", "SELECT LAG(1, -1) OVER ()", "SET @@FORMAT TO JSON; SELECT 1 AS `b.c`, 2 AS b", "SELECT JSON_VALUE('[', '[]')"} {
		f.Add(s)
	}
	f.Fuzz(func(t *testing.T, src string) {
		if len(src) > 4000 {
			return
		}
		up := strings.ToUpper(src)
		for _, b := range fuzzBanned {
			if strings.Contains(up, b) {
				return
			}
		}
		if fuzzBigNumber.MatchString(src) {
			return
		}
		c := progCase{Kind: "fuzz", Name: "fuzz", SQL: src, Capture: true}
		if openShapeOf(c) {
			return
		}
		_, v := checkProg(c)
		if v != nil && v.Sig == "HARNESS" {
			return // does not parse: outside the domain of valid programs
		}
		if v != nil && !toleratedSignatures[v.Sig] {
			t.Fatalf("%s", v.Error())
		}
	})
}
