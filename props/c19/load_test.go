package c19

import (
	"bytes"
	"encoding/json"
	"fmt"
	"os"
	"path/filepath"
	"sort"
	"strconv"
	"strings"
	"testing"
	"unicode/utf16"

	"github.com/mithrandie/csvq/lib/option"
	"pgregory.net/rapid"

	"verif/internal/fw"
	"verif/internal/run"
)

// ---------------------------------------------------------------------
// load_data: byte strings x format x option vector x way of loading.

type loadCase struct {
	Data        []byte `json:"data"`
	Format      string `json:"format"` // CSV TSV LTSV FIXED JSON JSONL
	Via         string `json:"via"`    // stdin | file | object_data | object_file | object_inline_file
	Ext         string `json:"ext"`    // extension of the temp file
	Delim       string `json:"delim"`  // "" = not set
	Pos         string `json:"pos"`    // "" = not set
	Enc         string `json:"enc"`    // "" = not set
	NoHeader    bool   `json:"no_header"`
	Uneven      bool   `json:"uneven"`
	WithoutNull bool   `json:"without_null"`
	JQ          string `json:"jq"`
	Origin      string `json:"origin"` // how the bytes were made (label only)
	// CPU: @@CPU of the session (0 = 1). With more than one core the loaders pad / convert the
	// records of inputs of 160 records and more in several goroutines.
	CPU int `json:"cpu,omitempty"`
}

var formats = []string{"CSV", "TSV", "LTSV", "FIXED", "JSON", "JSONL"}
var vias = []string{"stdin", "file", "object_data", "object_file", "object_inline_file"}
var encodings = []string{"", "AUTO", "UTF8", "UTF8M", "UTF16", "UTF16BE", "UTF16LE", "UTF16BEM", "UTF16LEM", "SJIS"}
var delims = []string{"", ",", ";", "|", "\t", " ", ":", "\"", "\n", "あ", `\t`, "a"}
var badDelims = []string{"ab", ",,", `\\\\`}
var weirdPositions = []string{"SPACES", "spaces", "[]", "S[]", "[0]", "[-1]", "[3,2]", "[2,2]", "[1,1000000000]", "[1,2,3,4,5,6,7,8,9,10,11,12]", "S[1,3]", "s[2]", "[1.5]", "[9223372036854775808]", "[\"1\"]", "{}", "garbage", "S[", "[1,2", "[5]", "[2,4,6]", "[1,5,9]"}

// Genuine defect found by this check, FIXED in /repo (9bfa47c): FIXED with single-line mode and an empty
// position list ('S[]') never reaches the end of the data: the reader returns
// empty records for ever and memory grows without bound. The generator keeps
// away from that exact shape so that the search continues; set to false to
// reproduce it (signature fixed_single_line_no_positions_endless_loop).
const avoidKnownSingleLineNoPositions = false

// Genuine defect found by this check, FIXED in /repo (6284839): readRecordSet (lib/query/load_view.go:1245)
// re-allocates the record set after 300 records with capacity
// fileSize/pos*300*1.2, where pos is the number of data bytes in those records:
// a 300 KB file whose first 300 records hold one byte of data reserves 2.5 GB,
// 1.5 MB reserve 13 GB. While true the generated inputs stay below 100 KB (at
// most 0.86 GB, under the memory ceiling of the oracle); set to false to let
// the generator build such files (signature record_set_preallocation_unbounded).
const avoidKnownPreallocation = false

func maxDataLen() int {
	if avoidKnownPreallocation {
		return 100000
	}
	return 2000000
}

// singleLineNoPositions: the option selects single-line mode with no positions.
func singleLineNoPositions(pos string) bool {
	if !strings.HasPrefix(pos, "S[") && !strings.HasPrefix(pos, "s[") {
		return false
	}
	var ps []int
	if err := json.Unmarshal([]byte(pos[1:]), &ps); err != nil {
		return false
	}
	return len(ps) == 0
}

// queries over the nested rows of renderNested
var nestedQueries = []string{"items", "items[0]", "items[1]", "item", "items{}", "items[]", "items{c2}", "items[0].c2", "e", "e[0]", "e{}", "e[]", "e[0].x", "s", "s[]", "s[0]", "s{}", "n", "n.k", "n.k[]", "n.k{}", "n.k[0]", "item.c2", "{items}", "{e}", "{c1, items as x}", "data.items", "data[0].items", "data[].items", "data{items}", "nosuch", "c1", ""}

var jsonQueries = []string{"", "{}", "[]", "data", "data[0]", "data{}", "data[]", "data.rows", "[0]", "[1].c1", "{c1, c2 as x}", "{c1}", "data{c1 as `a b`}", "`data`", "'data'", "c1", "nosuch", "nosuch{}", "[99]", "[].c1", "data[].c2", "{c1, c1}", "{nosuch}",
	"[", "{", "a..b", "a[", "'unterminated", "[-1]", "[99999999999999999999]", "{a as}", "{,}", ".", "data.", "[0][0][0]", "{}{}", "[]{}", "data[]{}", "1", "\x00", "{c1 as ''}"}
var fileExt = map[string]string{"CSV": ".csv", "TSV": ".tsv", "LTSV": ".ltsv", "FIXED": ".txt", "JSON": ".json", "JSONL": ".jsonl"}

var cellPool = []string{"", "a", "1", "-3.5", "x y", `q"uote`, "comma,inside", "tab\tin", "line\nbreak", "cr\rin", "日本語", "ｱｲｳ", "  pad ", "NULL", "true", "ÿ", "é", "​", "0001", "1e400", "a:b", "{\"k\":1}", "[1,2]", "'", "\\", "null"}

// seed files of the repository, by format (read once; the bytes are copied
// into the case, so a replay does not depend on them).
var seedFiles = map[string][][]byte{}

func init() {
	dir := filepath.Join(run.RepoDir(), "testdata", "csv")
	add := func(format string, names ...string) {
		for _, n := range names {
			if b, err := os.ReadFile(filepath.Join(dir, n)); err == nil {
				seedFiles[format] = append(seedFiles[format], b)
			}
		}
	}
	add("CSV", "dup_name.csv", "group_table.csv", "table1.csv", "table1_bom.csv", "table1b.csv", "table2.csv", "table4.csv", "table5.csv", "table_broken.csv", "table_empty.csv", "table_noheader.csv", "table_sjis.csv", "empty.txt")
	add("TSV", "dup_name.tsv", "table3.tsv")
	add("LTSV", "table6.ltsv", "table6_bom.ltsv")
	add("FIXED", "fixed_length.txt", "fixed_length_bom.txt", "fixed_length_sl.txt", "empty.txt")
	add("JSON", "table.json", "table_a.json", "table_h.json")
	add("JSONL", "table7.jsonl")
	fallback := map[string]string{
		"CSV":   "c1,c2\n1,\"a b\"\n2,\n",
		"TSV":   "c1\tc2\n1\ta\n2\tb\n",
		"LTSV":  "c1:1\tc2:a\nc1:2\tc2:b\n",
		"FIXED": "c1 c2 \n1  a  \n2  b  \n",
		"JSON":  `[{"c1":1,"c2":"a"},{"c1":2,"c2":null}]`,
		"JSONL": "{\"c1\":1,\"c2\":\"a\"}\n{\"c1\":2}\n",
	}
	for f, s := range fallback {
		seedFiles[f] = append(seedFiles[f], []byte(s))
	}
}

func toUTF16(s string, big bool, bom bool) []byte {
	u := utf16.Encode([]rune(s))
	var b bytes.Buffer
	put := func(x uint16) {
		if big {
			b.WriteByte(byte(x >> 8))
			b.WriteByte(byte(x))
		} else {
			b.WriteByte(byte(x))
			b.WriteByte(byte(x >> 8))
		}
	}
	if bom {
		put(0xfeff)
	}
	for _, x := range u {
		put(x)
	}
	return b.Bytes()
}

// renderTable writes a cell grid in the given format. Returns the bytes and,
// for FIXED, the delimiter positions that fit them.
func renderTable(t *rapid.T, format string, delim string, header []string, rows [][]string, sloppy bool) ([]byte, string) {
	var b bytes.Buffer
	lb := fw.PickU(t, "linebreak", []string{"\n", "\n", "\r\n", "\r"})
	switch format {
	case "CSV", "TSV":
		d := delim
		if format == "TSV" {
			d = "\t"
		}
		if d == "" {
			d = ","
		}
		if d == `\t` {
			d = "\t"
		}
		q := func(c string) string {
			if sloppy {
				return c
			}
			if strings.ContainsAny(c, "\"\r\n") || strings.Contains(c, d) || (c != "" && fw.Pct(t, "quoteAnyway", 15)) {
				return `"` + strings.ReplaceAll(c, `"`, `""`) + `"`
			}
			return c
		}
		line := func(cs []string) {
			for i, c := range cs {
				if i > 0 {
					b.WriteString(d)
				}
				b.WriteString(q(c))
			}
			b.WriteString(lb)
		}
		if header != nil {
			line(header)
		}
		for _, r := range rows {
			line(r)
		}
	case "LTSV":
		for _, r := range rows {
			for i, c := range r {
				if i > 0 {
					b.WriteString("\t")
				}
				name := "c" + strconv.Itoa(i+1)
				if header != nil && i < len(header) {
					name = header[i]
				}
				if !sloppy {
					c = strings.NewReplacer("\t", " ", "\n", " ", "\r", " ").Replace(c)
					name = strings.NewReplacer("\t", "_", "\n", "_", "\r", "_", ":", "_").Replace(name)
				}
				b.WriteString(name + ":" + c)
			}
			b.WriteString(lb)
		}
	case "FIXED":
		all := rows
		if header != nil {
			all = append([][]string{header}, rows...)
		}
		ncol := 0
		for _, r := range all {
			if len(r) > ncol {
				ncol = len(r)
			}
		}
		width := make([]int, ncol)
		clean := func(c string) string {
			if sloppy {
				return c
			}
			return strings.NewReplacer("\t", " ", "\n", " ", "\r", " ").Replace(c)
		}
		for _, r := range all {
			for i, c := range r {
				if n := len(clean(c)); n+1 > width[i] {
					width[i] = n + 1
				}
			}
		}
		pos := make([]int, ncol)
		acc := 0
		for i, w := range width {
			acc += w
			pos[i] = acc
		}
		for _, r := range all {
			for i, c := range r {
				c = clean(c)
				b.WriteString(c)
				b.WriteString(strings.Repeat(" ", width[i]-len(c)))
			}
			b.WriteString(lb)
		}
		pj, _ := json.Marshal(pos)
		return b.Bytes(), string(pj)
	case "JSON", "JSONL":
		obj := func(r []string) string {
			var o bytes.Buffer
			o.WriteString("{")
			for i, c := range r {
				if i > 0 {
					o.WriteString(",")
				}
				name := "c" + strconv.Itoa(i+1)
				if header != nil && i < len(header) {
					name = header[i]
				}
				nb, _ := json.Marshal(name)
				o.Write(nb)
				o.WriteString(":")
				switch {
				case c == "" || c == "null":
					o.WriteString("null")
				case c == "true" || c == "1" || c == "-3.5" || c == "[1,2]" || c == "{\"k\":1}" || c == "1e400":
					o.WriteString(c)
				default:
					cb, _ := json.Marshal(c)
					o.Write(cb)
				}
			}
			o.WriteString("}")
			return o.String()
		}
		if format == "JSONL" {
			for _, r := range rows {
				b.WriteString(obj(r))
				b.WriteString(lb)
			}
		} else {
			wrap := fw.Uniform(t, "jsonwrap", 4)
			switch wrap {
			case 1:
				b.WriteString(`{"data":`)
			case 2:
				b.WriteString(`{"data":{"rows":`)
			}
			b.WriteString("[")
			for i, r := range rows {
				if i > 0 {
					b.WriteString(",")
					if fw.Pct(t, "jsonnl", 30) {
						b.WriteString(lb)
					}
				}
				b.WriteString(obj(r))
			}
			b.WriteString("]")
			switch wrap {
			case 1:
				b.WriteString(`}`)
			case 2:
				b.WriteString(`}}`)
			}
		}
	}
	return b.Bytes(), ""
}

// renderNested writes JSON / JSON Lines rows whose members are arrays (empty,
// of scalars, of objects) and objects, the shapes a json-query can select.
func renderNested(t *rapid.T, format string) []byte {
	arr := func(label string) string {
		return fw.PickU(t, label, []string{"[]", "[]", "[{\"c2\":\"a\"}]", "[{\"c2\":\"a\"},{\"c2\":\"b\",\"c3\":1}]", "[1,2]", "[[]]", "[{}]", "[null]", "null", "{}", "1", "[{\"c2\":[]}]"})
	}
	row := func() string {
		return fmt.Sprintf("{\"c1\":%d,\"items\":%s,\"item\":%s,\"e\":%s,\"s\":%s,\"n\":{\"k\":%s}}", fw.Range(t, "c1", 0, 3), arr("items"),
			fw.PickU(t, "item", []string{"{\"c2\":\"x\"}", "{}", "null", "[]", "\"s\""}), arr("e"), fw.PickU(t, "s", []string{"[1,2]", "[]", "[\"a\"]"}), arr("k"))
	}
	n := fw.Range(t, "nestedRows", 0, 4)
	var rows []string
	for i := 0; i < n; i++ {
		rows = append(rows, row())
	}
	if format == "JSONL" {
		return []byte(strings.Join(rows, "\n") + "\n")
	}
	switch fw.Uniform(t, "nestedWrap", 3) {
	case 0:
		return []byte("[" + strings.Join(rows, ",") + "]")
	case 1:
		return []byte("{\"data\":[" + strings.Join(rows, ",") + "]}")
	default:
		if len(rows) == 0 {
			return []byte("{}")
		}
		return []byte(rows[0])
	}
}

var strayBytes = []string{"\r", "\n", "\x00", "\"", ",", "\t", ":", "{", "}", "[", "]", " ", "\\", "\"\"", "\r\n", "'"}
var badUTF8 = []string{"\xff", "\xc3", "\xed\xa0\x80", "\xf8\x88\x80\x80\x80", "\xe3\x81", "\xfe\xff", "\x80", "\xc0\xaf", "\x93\xfa\x96\x7b"}
var boms = []string{"\xef\xbb\xbf", "\xff\xfe", "\xfe\xff", "\xef\xbb", "\xef\xbb\xbf\xef\xbb\xbf"}

func mutate(t *rapid.T, b []byte, format string) ([]byte, string) {
	pos := func(label string) int { return fw.Range(t, label, 0, len(b)) }
	ins := func(p int, s string) []byte {
		out := make([]byte, 0, len(b)+len(s))
		out = append(out, b[:p]...)
		out = append(out, s...)
		return append(out, b[p:]...)
	}
	switch fw.Uniform(t, "mutation", 13) {
	case 0:
		return append([]byte{}, b[:pos("cut")]...), "truncate"
	case 1:
		var qs []int
		for i, c := range b {
			if c == '"' {
				qs = append(qs, i)
			}
		}
		if len(qs) == 0 {
			return ins(pos("q"), `"`), "quote_insert"
		}
		return ins(qs[fw.Uniform(t, "whichq", len(qs))], `"`), "quote_dup"
	case 2:
		return ins(pos("p"), fw.PickU(t, "stray", strayBytes)), "stray"
	case 3:
		return ins(pos("p"), fw.PickU(t, "bad", badUTF8)), "bad_utf8"
	case 4:
		return append([]byte(fw.PickU(t, "bom", boms)), b...), "bom"
	case 5:
		// a very long run. Runs of characters that can be field separators are kept
		// at 1 500: csvq's work per table is quadratic in the number of columns
		// (20 000 columns take ~15 s), which is slowness, not a hang.
		ch := fw.PickU(t, "longc", []string{"x", "x", "あ", "\"", " ", ",", "\t"})
		n := fw.PickU(t, "longn", []int{300, 5000, 5000, 70000})
		if ch != "x" && n > 1500 {
			n = 1500
		}
		return ins(pos("p"), strings.Repeat(ch, n)), "long_line"
	case 6:
		// uneven field counts: drop a delimiter or add a field to one line
		d := map[string]string{"CSV": ",", "TSV": "\t", "LTSV": "\t", "FIXED": " ", "JSON": ",", "JSONL": ","}[format]
		var ds []int
		for i := range b {
			if bytes.HasPrefix(b[i:], []byte(d)) {
				ds = append(ds, i)
			}
		}
		if len(ds) > 0 && fw.Pct(t, "drop", 50) {
			p := ds[fw.Uniform(t, "whichd", len(ds))]
			return append(append([]byte{}, b[:p]...), b[p+len(d):]...), "uneven_drop"
		}
		var ls []int
		for i, c := range b {
			if c == '\n' || c == '\r' {
				ls = append(ls, i)
			}
		}
		p := len(b)
		if len(ls) > 0 {
			p = ls[fw.Uniform(t, "whichl", len(ls))]
		}
		return ins(p, d+fw.PickU(t, "extra", []string{"", "z", "k:v", "\"z\""})), "uneven_add"
	case 7:
		p := pos("p")
		q := p + fw.Range(t, "n", 0, 8)
		if q > len(b) {
			q = len(b)
		}
		return append(append([]byte{}, b[:p]...), b[q:]...), "delete"
	case 8:
		p := pos("p")
		q := p + fw.Range(t, "n", 0, 40)
		if q > len(b) {
			q = len(b)
		}
		times := fw.PickU(t, "times", []int{1, 2, 40})
		return ins(p, strings.Repeat(string(b[p:q]), times)), "splice_dup"
	case 9:
		rep := fw.PickU(t, "lb", []string{"\r\n", "\r", "\n\n", "\r\r\n"})
		return bytes.ReplaceAll(b, []byte("\n"), []byte(rep)), "linebreaks"
	case 10:
		big, bom := fw.Pct(t, "be", 50), fw.Pct(t, "bom", 60)
		return toUTF16(string(b), big, bom), "to_utf16"
	case 11:
		return append(append([]byte{}, b...), fw.PickU(t, "tail", []string{"x", "\"", "\"x", ",", "\t", "{", "[", "\x00", "\\", "a:b"})...), "tail"
	default:
		// many rows: the loader reallocates its record set after 300 rows
		p := pos("p")
		line := fw.PickU(t, "rowtext", []string{"1,2\n", ",\n", "a\n", "\n", "c1:1\tc2:2\n", "{\"c1\":1}\n", "1  2  \n", "\"\",\"\"\n"})
		return ins(p, strings.Repeat(line, fw.PickU(t, "nrows", []int{299, 300, 301, 700}))), "many_rows"
	}
}

var sloppyAlphabet = []byte("\",\n\r\t a1:{}[]\\\x00")

func genLoad(t *rapid.T) loadCase {
	c := loadCase{}
	c.Format = fw.PickU(t, "format", formats)
	c.Via = vias[fw.Weighted(t, "via", []int{30, 25, 25, 10, 10})]
	c.Ext = ".dat"
	if fw.Pct(t, "extByFormat", 40) {
		c.Ext = fileExt[c.Format]
	}
	c.NoHeader = fw.Pct(t, "noHeader", 30)
	c.Uneven = fw.Pct(t, "uneven", 40)
	c.WithoutNull = fw.Pct(t, "withoutNull", 30)
	if fw.Pct(t, "encSet", 60) {
		c.Enc = fw.PickU(t, "enc", encodings)
		if fw.Pct(t, "encBad", 3) {
			c.Enc = fw.PickU(t, "encBadV", []string{"LATIN1", "utf-8", " "})
		}
	}
	if c.Format == "CSV" && fw.Pct(t, "delimSet", 60) {
		c.Delim = fw.PickU(t, "delim", delims)
		if fw.Pct(t, "delimBad", 4) {
			c.Delim = fw.PickU(t, "delimBadV", badDelims)
		}
	}
	if c.Format == "JSON" || c.Format == "JSONL" {
		c.JQ = fw.PickU(t, "jq", jsonQueries)
		if fw.Pct(t, "jqPlain", 45) {
			c.JQ = fw.PickU(t, "jqPlainV", []string{"", "{}", "data", "data.rows"})
		}
	}

	fixedPos := ""
	originWeights := []int{50, 22, 12, 16, 0}
	if c.Format == "JSON" || c.Format == "JSONL" {
		originWeights = []int{35, 15, 10, 15, 25}
	}
	switch k := fw.Weighted(t, "origin", originWeights); k {
	case 4: // rows that hold empty / scalar / object arrays and nested objects, with a query that selects them
		c.Data = renderNested(t, c.Format)
		c.JQ = fw.PickU(t, "nestedQuery", nestedQueries)
		c.Origin = "nested"
	case 0: // structured table, rendered in the format
		ncol := fw.Range(t, "ncol", 1, 5)
		nrow := fw.Range(t, "nrow", 0, 6)
		if fw.Pct(t, "manyRows", 4) {
			nrow = fw.PickU(t, "manyRowsN", []int{299, 300, 301, 650})
		}
		if fw.Pct(t, "splitRows", 5) {
			// around the sizes at which csvq divides records between 2, 3, 4 goroutines (80 per core)
			nrow = fw.PickU(t, "splitRowsN", []int{159, 160, 161, 239, 240, 241, 320, 321})
		}
		var header []string
		if !c.NoHeader || c.Format == "LTSV" || c.Format == "JSON" || c.Format == "JSONL" {
			header = make([]string, ncol)
			for i := range header {
				header[i] = "c" + strconv.Itoa(i+1)
				if fw.Pct(t, "oddName", 15) {
					header[i] = fw.PickU(t, "oddNameV", []string{"", "c1", "a.b", "a b", "日本", "x\"y", "*", "c1 ", "1"})
				}
			}
		}
		rows := make([][]string, nrow)
		ragged := fw.Pct(t, "ragged", 25)
		for i := range rows {
			n := ncol
			if ragged {
				n = fw.Range(t, "rowlen", 0, ncol+2)
			}
			rows[i] = make([]string, n)
			for j := range rows[i] {
				if nrow > 50 {
					rows[i][j] = fw.PickU(t, "cellSmall", []string{"", "a", "1"})
				} else {
					rows[i][j] = fw.PickU(t, "cell", cellPool)
				}
			}
		}
		c.Data, fixedPos = renderTable(t, c.Format, c.Delim, header, rows, fw.Pct(t, "sloppy", 15))
		c.Origin = "table"
	case 1: // a seed file of the repository
		fs := seedFiles[c.Format]
		c.Data = append([]byte{}, fs[fw.Uniform(t, "seed", len(fs))]...)
		c.Origin = "seed"
	case 2: // random bytes
		c.Data = rapid.SliceOfN(rapid.Byte(), 0, 120).Draw(t, "bytes")
		c.Origin = "bytes"
	default: // random text over the characters the parsers care about
		n := fw.Range(t, "alphaLen", 0, 60)
		c.Data = make([]byte, n)
		for i := range c.Data {
			c.Data[i] = sloppyAlphabet[fw.Uniform(t, "alpha", len(sloppyAlphabet))]
		}
		c.Origin = "alphabet"
	}
	if c.Origin == "seed" || fw.Pct(t, "mutate", 45) {
		nm := fw.Range(t, "nmut", 1, 3)
		if c.Origin == "seed" && fw.Pct(t, "seedAsIs", 20) {
			nm = 0
		}
		for i := 0; i < nm; i++ {
			var m string
			c.Data, m = mutate(t, c.Data, c.Format)
			c.Origin += "+" + m
		}
	}
	// encode consistently with the declared encoding in most cases
	if strings.HasPrefix(c.Enc, "UTF16") && !strings.Contains(c.Origin, "to_utf16") && fw.Pct(t, "encodeAsDeclared", 75) {
		big := c.Enc == "UTF16BE" || c.Enc == "UTF16BEM" || (c.Enc == "UTF16" && fw.Pct(t, "be", 50))
		bom := strings.HasSuffix(c.Enc, "M") || (c.Enc == "UTF16" && fw.Pct(t, "bom", 70))
		c.Data = toUTF16(string(c.Data), big, bom)
		c.Origin += "+enc16"
	}
	if c.Enc == "UTF8M" && fw.Pct(t, "bom8", 75) {
		c.Data = append([]byte("\xef\xbb\xbf"), c.Data...)
	}
	if c.Format == "FIXED" {
		switch fw.Weighted(t, "posKind", []int{35, 20, 30, 15}) {
		case 0:
			if fixedPos != "" {
				c.Pos = fixedPos
			} else {
				c.Pos = "SPACES"
			}
		case 1:
			c.Pos = "SPACES"
		case 2:
			c.Pos = fw.PickU(t, "posWeird", weirdPositions)
		default:
			if fixedPos != "" {
				c.Pos = "S" + fixedPos
			} else {
				c.Pos = "S[2,4]"
			}
		}
		if fw.Pct(t, "posUnset", 8) {
			c.Pos = ""
		}
		if avoidKnownSingleLineNoPositions && singleLineNoPositions(c.Pos) {
			c.Pos = "S[1]"
		}
	}
	if !avoidKnownPreallocation && fw.Uniform(t, "sparseHead", 500) == 0 {
		// 300 records with one byte of data in front of a long file: the loader's capacity estimate
		c.Data = []byte("a,b\nx,\n" + strings.Repeat(",\n", 65000))
		c.Origin += "+sparse_head"
	}
	if len(c.Data) > maxDataLen() {
		c.Data = c.Data[:maxDataLen()]
	}
	// several cores: mostly for inputs long enough to be divided between goroutines
	cpuPct := 15
	if lineCount(c.Data) >= 160 {
		cpuPct = 65
	}
	if fw.Pct(t, "cpuSet", cpuPct) {
		c.CPU = fw.PickU(t, "cpu", []int{2, 3, 4, 16})
	}
	return c
}

func lineCount(b []byte) int {
	return bytes.Count(b, []byte("\n")) + bytes.Count(b, []byte("\r")) + bytes.Count(b, []byte("},"))
}

func (c loadCase) fileName() string { return "t" + c.Ext }

// program builds the statements that load the bytes. The second result is the
// part of the program that matters for messages (the data literal is elided).
func (c loadCase) program() (string, string) {
	var st []string
	set := func(flag, v string) { st = append(st, fmt.Sprintf("SET @@%s TO %s;", flag, v)) }
	object := strings.HasPrefix(c.Via, "object_")
	// everything that a table object cannot express is set through flags; for
	// stdin / file every option is a flag.
	if c.Uneven {
		set("ALLOW_UNEVEN_FIELDS", "TRUE")
	}
	if !object {
		set("IMPORT_FORMAT", sqlQuote(c.Format))
		if c.Delim != "" {
			set("DELIMITER", sqlQuote(c.Delim))
		}
		if c.Pos != "" {
			set("DELIMITER_POSITIONS", sqlQuote(c.Pos))
		}
		if c.Enc != "" {
			set("ENCODING", sqlQuote(c.Enc))
		}
		if c.NoHeader {
			set("NO_HEADER", "TRUE")
		}
		if c.WithoutNull {
			set("WITHOUT_NULL", "TRUE")
		}
		if c.JQ != "" {
			set("JSON_QUERY", sqlQuote(c.JQ))
		}
	}
	var from, fromShown string
	switch c.Via {
	case "stdin":
		from = "STDIN"
	case "file":
		from = "`" + c.fileName() + "`"
	default:
		var src, srcShown string
		switch c.Via {
		case "object_data":
			src = "DATA::('" + option.EscapeString(string(c.Data)) + "')"
			srcShown = "DATA::(<data>)"
		case "object_file":
			src = "`" + c.fileName() + "`"
		default:
			src = "INLINE::(" + sqlQuote(c.fileName()) + ")"
		}
		if srcShown == "" {
			srcShown = src
		}
		enc := c.Enc
		if enc == "" {
			enc = "AUTO"
		}
		var head, tail string
		switch c.Format {
		case "CSV", "TSV":
			d := c.Delim
			if c.Format == "TSV" {
				d = "\t"
			}
			if d == "" {
				d = ","
			}
			head = "CSV(" + sqlQuote(d) + ", "
			tail = fmt.Sprintf(", %s, %s, %s)", sqlQuote(enc), boolSQL(c.NoHeader), boolSQL(c.WithoutNull))
		case "FIXED":
			p := c.Pos
			if p == "" {
				p = "SPACES"
			}
			head = "FIXED(" + sqlQuote(p) + ", "
			tail = fmt.Sprintf(", %s, %s, %s)", sqlQuote(enc), boolSQL(c.NoHeader), boolSQL(c.WithoutNull))
		case "LTSV":
			head = "LTSV("
			tail = fmt.Sprintf(", %s, %s)", sqlQuote(enc), boolSQL(c.WithoutNull))
		case "JSON":
			head = "JSON(" + sqlQuote(c.JQ) + ", "
			tail = ")"
		default:
			head = "JSONL(" + sqlQuote(c.JQ) + ", "
			tail = ")"
		}
		from = head + src + tail
		fromShown = head + srcShown + tail
	}
	if fromShown == "" {
		fromShown = from
	}
	pre := strings.Join(st, " ")
	return pre + " SELECT * FROM " + from + ";", strings.TrimSpace(pre + " SELECT * FROM " + fromShown + ";")
}

func (c loadCase) optClass() string {
	dc := "-"
	switch {
	case c.Delim == "":
	case len([]rune(option.UnescapeString(c.Delim, '\''))) != 1:
		dc = "bad"
	case c.Delim == "," || c.Delim == "\t" || c.Delim == `\t`:
		dc = "usual"
	default:
		dc = "odd"
	}
	pc := "-"
	switch {
	case c.Pos == "":
	case strings.EqualFold(c.Pos, "SPACES"):
		pc = "spaces"
	case strings.HasPrefix(strings.ToUpper(c.Pos), "S["):
		pc = "single"
	default:
		pc = "list"
	}
	jc := "-"
	if c.Format == "JSON" || c.Format == "JSONL" {
		switch {
		case c.JQ == "" || c.JQ == "{}":
			jc = "all"
		case strings.ContainsAny(c.JQ, "{["):
			jc = "shape"
		default:
			jc = "path"
		}
	}
	e := c.Enc
	if e == "" {
		e = "-"
	}
	return fmt.Sprintf("d=%s,p=%s,e=%s,nh=%v,un=%v,wn=%v,jq=%s", dc, pc, e, c.NoHeader, c.Uneven, c.WithoutNull, jc)
}

// data-level rejections: the loader looked at the bytes and refused them.
var rejectionNumbers = map[string]bool{"E10001": true, "E10701": true, "E10702": true, "E10704": true, "E11301": true}

var loadDir string

func loadScratch() string {
	if loadDir == "" {
		loadDir = filepath.Join(fw.WorkDir(), "load")
		_ = os.MkdirAll(loadDir, 0755)
	}
	return loadDir
}

func checkLoad(c loadCase) (fw.Outcome, *fw.Violation) {
	o := fw.Outcome{Classes: []string{"format=" + c.Format, "via=" + c.Via}}
	for _, part := range strings.Split(c.Origin, "+") {
		if part != "" {
			o.Classes = append(o.Classes, "origin:"+part)
		}
	}
	if c.CPU > 1 {
		o.Classes = append(o.Classes, "cpu>1")
	}
	if c.Format == "JSONL" && c.JQ != "" {
		// a row for which the json-query selects an empty array (documented error or a rectangular table)
		key := c.JQ
		if i := strings.IndexAny(key, "{["); i >= 0 {
			key = key[:i]
		}
		if i := strings.LastIndex(key, "."); i >= 0 {
			key = key[i+1:]
		}
		if key != "" && bytes.Contains(c.Data, []byte(`"`+key+`":[]`)) {
			o.Classes = append(o.Classes, "jsonl_query_selects_empty_array")
		}
	}
	sql, shown := c.program()
	dir := loadScratch()
	opt := run.Opt{Dir: dir, CPU: c.CPU}
	path := ""
	switch c.Via {
	case "stdin":
		opt.HasStdin, opt.Stdin = true, string(c.Data)
	case "object_data":
	default:
		// the extension decides nothing here: stale files of other formats must not be found instead
		ents, _ := os.ReadDir(dir)
		for _, e := range ents {
			_ = os.Remove(filepath.Join(dir, e.Name()))
		}
		path = filepath.Join(dir, c.fileName())
		if err := os.WriteFile(path, c.Data, 0644); err != nil {
			return o, fw.Harness("write %s: %v", path, err)
		}
	}
	res := execGuarded(opt, sql, func(s *run.Sess, eo *execOut) {
		// the loaded tables themselves, not only what SELECT * made of them
		if path != "" {
			if v, ok := s.Tx.CachedViews.Load(strings.ToUpper(path)); ok {
				if m := rectangular(v); m != "" && eo.Ragged == "" {
					eo.Ragged = "cached view of the file: " + m
				}
			}
		}
		if c.Via == "stdin" {
			if v, ok := s.Proc.ReferenceScope.Global().TemporaryTables.Load("STDIN"); ok {
				if m := rectangular(v); m != "" && eo.Ragged == "" {
					eo.Ragged = "stdin table: " + m
				}
			}
		}
	})
	what := fmt.Sprintf("%s\nformat=%s via=%s cpu=%d options: %s\ndata (%d bytes): %q", shown, c.Format, c.Via, c.CPU, c.optClass(), len(c.Data), clip(string(c.Data), 400))
	if res.ParseErr {
		return o, fw.Harness("generated load program does not parse: %v\n%s", res.Err, clip(shown, 600))
	}
	class, v := judge(res, what)
	if v != nil {
		if (v.Sig == "hang" || v.Sig == "runaway_memory") && c.Format == "FIXED" && singleLineNoPositions(c.Pos) {
			v.Sig = "fixed_single_line_no_positions_endless_loop"
		} else if v.Sig == "runaway_memory" && c.Format != "JSON" && bytes.Count(c.Data, []byte("\n"))+bytes.Count(c.Data, []byte("\r")) >= 300 {
			v.Sig = "record_set_preallocation_unbounded"
		}
		return o, v
	}
	switch {
	case res.Err == nil && res.Views == 1:
		o.Classes = append(o.Classes, "outcome=loaded")
		if res.Records >= 2 {
			o.Classes = append(o.Classes, "loaded>=2")
			o.Fingerprint = fmt.Sprintf("%s|%s|%s|loaded|w%d", c.Format, c.Via, c.optClass(), min(res.Fields, 4))
		}
		if c.CPU > 1 && res.Records >= 160 {
			// the loader's per-record work (padding of short records, JSON conversion) was divided between goroutines
			o.Classes = append(o.Classes, "loaded_in_goroutines")
			o.Fingerprint += "|split"
		}
	case res.Err != nil:
		o.Classes = append(o.Classes, "outcome=error:"+class)
		if rejectionNumbers[class] && (bytes.Count(c.Data, []byte("\n"))+bytes.Count(c.Data, []byte("\r"))+bytes.Count(c.Data, []byte("},")) >= 2) {
			o.Classes = append(o.Classes, "rejected_after_record")
			o.Fingerprint = fmt.Sprintf("%s|%s|%s|rejected:%s", c.Format, c.Via, c.optClass(), class)
		}
	}
	return o, nil
}

func TestC19LoadData(t *testing.T) {
	fw.Run(t, fw.Spec[loadCase]{
		ID: "C19", Name: "load_data", Quick: 100000, Thorough: 2000000,
		Gen: genLoad, Check: checkLoad,
		Rule: "bytes = {cell grid rendered as CSV/TSV/LTSV/FIXED/JSON/JSONL (quoted or sloppy, LF/CRLF/CR, ragged rows, odd names, 0..650 rows) | a /repo/testdata/csv seed | random bytes | random text over the parsers' special characters}, then 0-3 mutations (truncate, duplicated/inserted quote, stray CR/LF/NUL/quote/delimiter, invalid UTF-8, BOMs, 5 000 / 70 000 byte runs, dropped/added field, delete, repeated splice, line-break rewrite, UTF-16 transcoding, garbage tail, 299..700 inserted rows) x option vector (delimiter incl. quote/newline/multi-byte/invalid, delimiter positions incl. SPACES, S[...], unsorted/negative/huge/malformed, encoding AUTO/UTF8[M]/UTF16[BE|LE][M]/SJIS/invalid, no-header, allow-uneven-fields, without-null, json-query from a list of valid and malformed queries) x way of loading (STDIN, file + import flags, FMT(.., DATA::(..)), FMT(.., `file`), FMT(.., INLINE::(file))) x @@CPU of the session (1, or 2/3/4/16 in 15% of the cases and in 65% of those with 160 lines and more; row counts 159..321 around the 80-records-per-core split points) so that the loaders' per-record padding / conversion runs in several goroutines. Oracle: Execute returns (20 s watchdog, re-tried once with 80 s), no panic escapes, no *query.FatalError, error code documented, every result view and the cached/stdin table itself is rectangular. non-trivial = >=2 records loaded, or a data-level rejection of bytes with >=2 line/record separators; distinct by (format, way, option-vector class, outcome, width, loaded in several goroutines)",
		Assumptions: []string{
			"program text is UTF-8: bytes given through DATA::('...') pass through the SQL scanner, which replaces invalid UTF-8 by U+FFFD (the file and stdin ways carry the raw bytes)",
			"an error that is not a csvq error type is accepted (the CLI maps it to exit code 1) unless its text shows a Go runtime failure",
		},
	})
}

// sortedNames returns the keys of a map in order (enumeration of built-ins must not depend on map order).
func sortedNames[V any](m map[string]V) []string {
	ks := make([]string, 0, len(m))
	for k := range m {
		ks = append(ks, k)
	}
	sort.Strings(ks)
	return ks
}
