package c19

import (
	"bufio"
	"fmt"
	"net"
	"os"
	"path/filepath"
	"strings"
	"sync"
	"sync/atomic"
	"testing"
	"time"

	"pgregory.net/rapid"

	"verif/internal/fw"
	"verif/internal/run"
)

// ---------------------------------------------------------------------
// url_tables: remote tables served by a misbehaving loopback HTTP server,
// queried by the real binary (a Go runtime abort such as "fatal error: sync:
// unlock of unlocked mutex" cannot be recovered: it has to be observed from
// outside the process).

type urlCase struct {
	Behaviour string   `json:"behaviour"` // what the server does for the request
	Ext       string   `json:"ext"`       // extension of the resource: csv tsv json jsonl ltsv txt none
	Form      string   `json:"form"`      // how the query names the table; {URL} is the resource
	Stmt      string   `json:"stmt"`      // statements around the table form {T}
	Flags     []string `json:"flags"`
}

var urlBodies = map[string]string{
	"csv":   "c1,c2\n1,a\n2,b\n",
	"tsv":   "c1\tc2\n1\ta\n2\tb\n",
	"json":  `[{"c1":1,"c2":"a"},{"c1":2,"c2":"b"}]`,
	"jsonl": "{\"c1\":1,\"c2\":\"a\"}\n{\"c1\":2,\"c2\":\"b\"}\n",
	"ltsv":  "c1:1\tc2:a\nc1:2\tc2:b\n",
	"txt":   "c1 c2 \n1  a  \n2  b  \n",
	"none":  "c1,c2\n1,a\n",
}

var urlContentTypes = map[string]string{"csv": "text/csv", "tsv": "text/tab-separated-values", "json": "application/json", "jsonl": "application/x-ndjson", "ltsv": "text/plain", "txt": "text/plain", "none": "application/octet-stream"}

// behaviours of the server; every one of them ends the exchange within a few
// hundred milliseconds (a server that never answers is a legitimate wait).
var urlBehaviours = []string{
	"ok", "ok", "ok_no_length", "ok_chunked", "ok_charset", "ok_http10",
	"status_404", "status_500", "status_403_with_body", "status_204", "status_301_to_ok", "status_302_loop", "status_302_no_location", "status_999", "status_100_then_ok",
	"truncated_body", "truncated_body_after_rows", "length_too_small", "length_zero_with_body", "length_negative", "length_garbage", "length_twice",
	"chunked_broken_size", "chunked_truncated", "chunked_no_terminator", "chunked_huge_size",
	"closed_before_response", "closed_after_status_line", "closed_in_headers", "reset_mid_body",
	"empty_body", "wrong_content_type_json", "wrong_content_type_csv", "no_content_type", "content_type_garbage",
	"gzip_garbage", "gzip_header_plain_body", "huge_header", "many_headers", "header_without_colon", "nul_in_header", "binary_body", "bom_body", "utf16_body", "slow_body", "not_http", "http2_preface", "very_long_status_line", "body_100kb",
}

// {URLB} is the bare url followed by a blank: the url token of the grammar runs up
// to the next white space, so ')' or ';' directly behind it would become part of it.
var urlForms = []string{
	"{URLB}", "{URLB}", "URL::('{URL}')", "CSV(',', {URLB})", "CSV(',', URL::('{URL}'))", "JSON('', {URLB})", "JSON('', URL::('{URL}'))", "JSONL('', {URLB})", "JSONL('', URL::('{URL}'))", "LTSV({URLB})", "LTSV(URL::('{URL}'))", "FIXED('SPACES', {URLB})", "FIXED('[3,6]', URL::('{URL}'))",
	"CSV_INLINE(',', `{URL}`)", "JSON_INLINE('', `{URL}`)", "JSON_TABLE('', `{URL}`)", "CSV(',', {URLB}, 'SJIS', TRUE, TRUE)", "JSON('c1', {URLB})", "`{URL}`", "URL::('{URL}?a=1&b=%20#frag')", "URL::('{URL}/../data.csv')", "URL::(NULL)", "URL::('')", "URL::('http://')", "URL::('ftp://127.0.0.1/x.csv')", "URL::('http://127.0.0.1:1/x.csv')",
}

var urlStmts = []string{
	"SELECT * FROM {T}",
	"SELECT * FROM {T}; SELECT * FROM {T}",
	"SELECT a.c1, b.* FROM {T} a JOIN {T} b ON a.c1 = b.c1",
	"SELECT * FROM {T} x WHERE c1 = 1",
	"SELECT (SELECT c1 FROM {T} LIMIT 1) FROM DUAL",
	"UPDATE {T} SET c1 = 1",
	"INSERT INTO {T} VALUES (1, 2)",
	"DECLARE cur CURSOR FOR SELECT * FROM {T}; OPEN cur; VAR @a, @b; FETCH cur INTO @a, @b; PRINT @a",
	"SET @@CPU TO 4; SELECT * FROM {T} a JOIN {T} b ON a.c1 = b.c1 JOIN {T} c ON a.c1 = c.c1",
	"SELECT * FROM {T}; ROLLBACK; SELECT * FROM {T}",
	"CREATE TABLE `copy.csv` AS SELECT * FROM {T}",
}

// aggregates over the remote table: an empty body is a table without columns, the
// shape of the open finding zero_column_table_aggregate_fatal
var urlAggregateStmts = []string{"SELECT COUNT(*) FROM {T} a JOIN {T} b ON a.c1 = b.c1", "SELECT (SELECT COUNT(*) FROM {T}) FROM DUAL", "SELECT c1, COUNT(*) FROM {T} GROUP BY c1 ORDER BY c1"}

func init() {
	if !avoidKnownZeroColumnAggregate {
		urlStmts = append(urlStmts, urlAggregateStmts...)
	}
}

func genURL(t *rapid.T) urlCase {
	c := urlCase{}
	c.Behaviour = fw.PickU(t, "behaviour", urlBehaviours)
	c.Ext = fw.PickU(t, "ext", []string{"csv", "csv", "tsv", "json", "json", "jsonl", "ltsv", "txt", "none"})
	c.Form = fw.PickU(t, "form", urlForms)
	if fw.Pct(t, "plainForm", 45) {
		c.Form = fw.PickU(t, "plainFormV", []string{"{URLB}", "URL::('{URL}')"})
	}
	c.Stmt = fw.PickU(t, "stmt", urlStmts)
	if fw.Pct(t, "plainStmt", 40) {
		c.Stmt = "SELECT * FROM {T}"
	}
	if fw.Pct(t, "format", 30) {
		c.Flags = append(c.Flags, "--format", fw.PickU(t, "formatV", []string{"JSON", "CSV", "LTSV", "FIXED"}))
	}
	if fw.Pct(t, "stats", 15) {
		c.Flags = append(c.Flags, "--stats")
	}
	if fw.Pct(t, "quiet", 50) {
		c.Flags = append(c.Flags, "--quiet")
	}
	return c
}

// ---- the server -------------------------------------------------------------

var urlServer struct {
	once sync.Once
	addr string
	err  error
}

func startURLServer() (string, error) {
	urlServer.once.Do(func() {
		ln, err := net.Listen("tcp", "127.0.0.1:0")
		if err != nil {
			urlServer.err = err
			return
		}
		urlServer.addr = ln.Addr().String()
		go func() {
			for {
				conn, err := ln.Accept()
				if err != nil {
					return
				}
				go serveURLConn(conn)
			}
		}()
	})
	return urlServer.addr, urlServer.err
}

// the request path is /<behaviour>/data.<ext>
func serveURLConn(conn net.Conn) {
	defer conn.Close()
	_ = conn.SetDeadline(time.Now().Add(10 * time.Second))
	rd := bufio.NewReader(conn)
	line, err := rd.ReadString('\n')
	if err != nil {
		return
	}
	for {
		h, err := rd.ReadString('\n')
		if err != nil || h == "\r\n" || h == "\n" {
			break
		}
	}
	parts := strings.Fields(line)
	if len(parts) < 2 {
		return
	}
	seg := strings.Split(strings.TrimPrefix(parts[1], "/"), "/")
	behaviour := seg[0]
	ext := "csv"
	if len(seg) > 1 {
		if i := strings.LastIndex(seg[1], "."); i >= 0 {
			ext = seg[1][i+1:]
		} else {
			ext = "none"
		}
	}
	body, ok := urlBodies[ext]
	if !ok {
		body = urlBodies["csv"]
	}
	ctype := urlContentTypes[ext]
	w := func(s string) { _, _ = conn.Write([]byte(s)) }
	head := func(status string, headers ...string) {
		w("HTTP/1.1 " + status + "\r\n")
		for _, h := range headers {
			w(h + "\r\n")
		}
		w("\r\n")
	}
	cl := func(n int) string { return fmt.Sprintf("Content-Length: %d", n) }
	ct := "Content-Type: " + ctype
	switch behaviour {
	case "ok":
		head("200 OK", ct, cl(len(body)), "Connection: close")
		w(body)
	case "ok_no_length":
		head("200 OK", ct, "Connection: close")
		w(body)
	case "ok_chunked":
		head("200 OK", ct, "Transfer-Encoding: chunked", "Connection: close")
		w(fmt.Sprintf("%x\r\n%s\r\n0\r\n\r\n", len(body), body))
	case "ok_charset":
		head("200 OK", ct+"; charset=utf-8", cl(len(body)), "Connection: close")
		w(body)
	case "ok_http10":
		w("HTTP/1.0 200 OK\r\n" + ct + "\r\n\r\n" + body)
	case "status_404":
		head("404 Not Found", "Content-Type: text/plain", cl(9), "Connection: close")
		w("not found")
	case "status_500":
		head("500 Internal Server Error", cl(0), "Connection: close")
	case "status_403_with_body":
		head("403 Forbidden", ct, cl(len(body)), "Connection: close")
		w(body)
	case "status_204":
		head("204 No Content", "Connection: close")
	case "status_301_to_ok":
		head("301 Moved Permanently", "Location: /ok/data."+ext, cl(0), "Connection: close")
	case "status_302_loop":
		head("302 Found", "Location: /status_302_loop/data."+ext, cl(0), "Connection: close")
	case "status_302_no_location":
		head("302 Found", cl(0), "Connection: close")
	case "status_999":
		head("999 Whatever", ct, cl(len(body)), "Connection: close")
		w(body)
	case "status_100_then_ok":
		w("HTTP/1.1 100 Continue\r\n\r\n")
		head("200 OK", ct, cl(len(body)), "Connection: close")
		w(body)
	case "truncated_body":
		head("200 OK", ct, cl(len(body)+100), "Connection: close")
		w(body[:len(body)/2])
	case "truncated_body_after_rows":
		head("200 OK", ct, cl(len(body)+1), "Connection: close")
		w(body)
	case "length_too_small":
		head("200 OK", ct, cl(len(body)/2), "Connection: close")
		w(body)
	case "length_zero_with_body":
		head("200 OK", ct, cl(0), "Connection: close")
		w(body)
	case "length_negative":
		head("200 OK", ct, "Content-Length: -5", "Connection: close")
		w(body)
	case "length_garbage":
		head("200 OK", ct, "Content-Length: abc", "Connection: close")
		w(body)
	case "length_twice":
		head("200 OK", ct, cl(len(body)), cl(len(body)+3), "Connection: close")
		w(body)
	case "chunked_broken_size":
		head("200 OK", ct, "Transfer-Encoding: chunked", "Connection: close")
		w("zz\r\n" + body + "\r\n0\r\n\r\n")
	case "chunked_truncated":
		head("200 OK", ct, "Transfer-Encoding: chunked", "Connection: close")
		w(fmt.Sprintf("%x\r\n%s", len(body)+50, body))
	case "chunked_no_terminator":
		head("200 OK", ct, "Transfer-Encoding: chunked", "Connection: close")
		w(fmt.Sprintf("%x\r\n%s\r\n", len(body), body))
	case "chunked_huge_size":
		head("200 OK", ct, "Transfer-Encoding: chunked", "Connection: close")
		w("ffffffffffffffff\r\n" + body)
	case "closed_before_response":
	case "closed_after_status_line":
		w("HTTP/1.1 200 OK\r\n")
	case "closed_in_headers":
		w("HTTP/1.1 200 OK\r\n" + ct + "\r\nContent-Len")
	case "reset_mid_body":
		head("200 OK", ct, cl(len(body)+100))
		w(body[:3])
		if tc, ok := conn.(*net.TCPConn); ok {
			_ = tc.SetLinger(0) // RST instead of FIN
		}
	case "empty_body":
		head("200 OK", ct, cl(0), "Connection: close")
	case "wrong_content_type_json":
		head("200 OK", "Content-Type: application/json", cl(len(body)), "Connection: close")
		w(body)
	case "wrong_content_type_csv":
		head("200 OK", "Content-Type: text/csv", cl(len(body)), "Connection: close")
		w(body)
	case "no_content_type":
		head("200 OK", cl(len(body)), "Connection: close")
		w(body)
	case "content_type_garbage":
		head("200 OK", "Content-Type: ;;;=;\"", cl(len(body)), "Connection: close")
		w(body)
	case "gzip_garbage":
		head("200 OK", ct, "Content-Encoding: gzip", cl(len(body)), "Connection: close")
		w(body)
	case "gzip_header_plain_body":
		head("200 OK", ct, "Content-Encoding: gzip", "Connection: close")
		w("\x1f\x8b\x08\x00\x00\x00\x00\x00" + body)
	case "huge_header":
		head("200 OK", ct, "X-Big: "+strings.Repeat("h", 1200000), cl(len(body)), "Connection: close")
		w(body)
	case "many_headers":
		hs := []string{ct, cl(len(body)), "Connection: close"}
		for i := 0; i < 2000; i++ {
			hs = append(hs, fmt.Sprintf("X-H%d: v", i))
		}
		head("200 OK", hs...)
		w(body)
	case "header_without_colon":
		head("200 OK", ct, "this is not a header", cl(len(body)), "Connection: close")
		w(body)
	case "nul_in_header":
		head("200 OK", "Content-Type: text/\x00csv", cl(len(body)), "Connection: close")
		w(body)
	case "binary_body":
		b := "\x00\x01\x02\xff\xfe\x00\x00,\n\"\x00"
		head("200 OK", ct, cl(len(b)), "Connection: close")
		w(b)
	case "bom_body":
		head("200 OK", ct, cl(len(body)+3), "Connection: close")
		w("\xef\xbb\xbf" + body)
	case "utf16_body":
		b := string(toUTF16(body, false, true))
		head("200 OK", ct, cl(len(b)), "Connection: close")
		w(b)
	case "slow_body":
		head("200 OK", ct, cl(len(body)), "Connection: close")
		for i := 0; i < len(body); i += 5 {
			end := i + 5
			if end > len(body) {
				end = len(body)
			}
			w(body[i:end])
			time.Sleep(20 * time.Millisecond)
		}
	case "not_http":
		w("SSH-2.0-OpenSSH_9.0\r\n")
	case "http2_preface":
		w("PRI * HTTP/2.0\r\n\r\nSM\r\n\r\n")
	case "very_long_status_line":
		w("HTTP/1.1 200 " + strings.Repeat("O", 1100000) + "\r\n\r\n")
	case "body_100kb":
		// distinct keys: the statements join the table with itself
		var sb strings.Builder
		sb.WriteString("c1,c2\n")
		for i := 0; sb.Len() < 100000; i++ {
			fmt.Fprintf(&sb, "%d,abcdefghijklmnopqrstuvwxyzabcdefghijklmnopqrstuvwxyz\n", i)
		}
		b := sb.String()
		head("200 OK", ct, cl(len(b)), "Connection: close")
		w(b)
	default:
		head("404 Not Found", cl(0), "Connection: close")
	}
}

var urlSeq int64

func checkURL(c urlCase) (fw.Outcome, *fw.Violation) {
	o := fw.Outcome{Classes: []string{"behaviour=" + c.Behaviour}}
	bin, err := run.Binary(fw.WorkDir(), false)
	if err != nil {
		return o, fw.Harness("%v", err)
	}
	addr, err := startURLServer()
	if err != nil {
		// no loopback networking: reported as skipped, never as passed
		fw.AddExtra("url_tables_skipped_no_loopback", 1)
		o.Discard = true
		return o, nil
	}
	ext := "." + c.Ext
	if c.Ext == "none" {
		ext = ""
	}
	url := "http://" + addr + "/" + c.Behaviour + "/data" + ext
	table := strings.ReplaceAll(strings.ReplaceAll(c.Form, "{URLB}", url+" "), "{URL}", url)
	prog := strings.ReplaceAll(c.Stmt, "{T}", table) + ";"
	home := filepath.Join(fw.WorkDir(), "clihome")
	_ = os.MkdirAll(home, 0755)
	runOnce := func(limit time.Duration) (run.CLIRes, string) {
		dir := filepath.Join(fw.WorkDir(), fmt.Sprintf("url-%d", atomic.AddInt64(&urlSeq, 1)))
		_ = os.RemoveAll(dir)
		_ = os.MkdirAll(dir, 0755)
		args := append(append([]string{}, c.Flags...), prog)
		// no proxy between the child and the loopback server
		return run.CLI(run.CLIOpt{Bin: bin, Dir: dir, Home: home, Args: args, Timeout: limit, Env: []string{"NO_PROXY=*", "no_proxy=*", "HTTP_PROXY=", "http_proxy="}}), dir
	}
	res, dir := runOnce(20 * time.Second)
	if res.TimedOut {
		fw.AddExtra("watchdog_retries", 1)
		_ = os.RemoveAll(dir)
		res, dir = runOnce(80 * time.Second)
	}
	defer os.RemoveAll(dir)
	what := fmt.Sprintf("server behaviour %s, csvq %s %q\nexit=%d signaled=%v\nstdout: %s\nstderr: %s", c.Behaviour, strings.Join(c.Flags, " "), prog, res.Code, res.Signaled, clip(res.Stdout, 300), clip(res.Stderr, 1800))
	if res.Code == -1 {
		return o, fw.Harness("child could not be started: %s", clip(res.Stderr, 400))
	}
	if res.TimedOut {
		return o, fw.V("url_hang:"+c.Behaviour, "the process did not terminate within 20 s and again not within 80 s\n%s", what)
	}
	for _, marker := range []string{"fatal error:", "Fatal Error", "panic:", "goroutine "} {
		if strings.Contains(res.Stderr, marker) || strings.Contains(res.Stdout, marker) {
			sig := "url_internal_failure:" + digitsRe.ReplaceAllString(clip(firstLine(res.Stderr[strings.Index(res.Stderr+marker, marker):]), 70), "N")
			if !strings.Contains(res.Stderr, marker) {
				sig = "url_internal_failure:stdout"
			}
			if strings.Contains(res.Stderr, "query.Record.GroupLen") {
				sig = "zero_column_table_aggregate_fatal"
			}
			return o, fw.V(sig, "internal failure text %q in the output\n%s", marker, what)
		}
	}
	if res.Signaled {
		return o, fw.V("url_killed_by_signal", "the process died of signal %v\n%s", res.Signal, what)
	}
	// the command line is fixed and correct: "incorrect command usage" (2) cannot be the reason
	// for an exit code 2, which is also what an aborting Go runtime returns
	if !documentedCodes[res.Code] || res.Code == 2 {
		return o, fw.V("url_undocumented_exit_code", "exit code %d\n%s", res.Code, what)
	}
	if left := run.ControlFiles(dir); len(left) > 0 {
		return o, fw.V("url_control_files_left", "control files left behind: %v\n%s", left, what)
	}
	o.Classes = append(o.Classes, fmt.Sprintf("exit=%d", res.Code))
	fl := c.Form
	if i := strings.Index(fl, "("); i > 0 {
		fl = fl[:i]
	}
	o.Fingerprint = fmt.Sprintf("%s|%s|%s|%s|exit=%d", c.Behaviour, c.Ext, fl, c.Stmt[:strings.Index(c.Stmt+" ", " ")], res.Code)
	return o, nil
}

func TestC19URLTables(t *testing.T) {
	fw.Run(t, fw.Spec[urlCase]{
		ID: "C19", Name: "url_tables", Quick: 1200, Thorough: 24000,
		Gen: genURL, Check: checkURL,
		Rule: "the csvq binary queries a remote table http://127.0.0.1:PORT/<behaviour>/data.<ext> (ext csv/tsv/json/jsonl/ltsv/txt/none) on a raw-TCP loopback server in the test process with 49 behaviours: correct answers (Content-Length, close-delimited, chunked, charset, HTTP/1.0), statuses 404/500/403/204/301/302 loop/302 without Location/999/100-continue, body shorter than Content-Length, Content-Length too small/zero/negative/garbage/twice, broken / truncated / unterminated / huge chunks, connection closed before the response, after the status line, inside the headers, reset in the body, empty body, wrong/missing/garbage content type, gzip garbage, 1.2 MB header, 2 000 headers, malformed header lines, binary / BOM / UTF-16 / 100 KB bodies, slow body, not HTTP at all; x table form (bare url, URL::(), CSV/JSON/JSONL/LTSV/FIXED(.., url), CSV_INLINE/JSON_INLINE/JSON_TABLE) x statement (SELECT once/twice in one transaction, self joins with --cpu 4, subquery, cursor, UPDATE/INSERT on the remote table, CREATE TABLE AS) x --format/--stats/--quiet. Oracle: the process terminates (20 s watchdog, re-tried once with 80 s), is not killed by a signal, neither stream contains 'fatal error:', 'Fatal Error', 'panic:' or 'goroutine ', exit code in {0,1,4,8,16,32,64} (2 = incorrect command usage cannot occur with this command line and is what an aborting Go runtime returns), no control files left. non-trivial = every run; distinct by (behaviour, extension, table form, statement, exit code)",
		Assumptions: []string{"every server behaviour ends the exchange within a second: a server that never answers is a legitimate wait and is not generated",
			"if no loopback listener can be opened the cases are discarded and counted in measured.url_tables_skipped_no_loopback, not passed"},
	})
}
