package c19

import (
	"fmt"
	"os"
	"path/filepath"
	"strings"
	"sync/atomic"
	"testing"
	"time"

	"pgregory.net/rapid"

	"verif/internal/fw"
	"verif/internal/run"
)

// ---------------------------------------------------------------------
// cli_programs: the real process. The in-process sub-checks send output to a
// buffer and never print rollback notices or --stats; a failure between a
// statement and the end of the process (a result that cannot be encoded for the
// chosen output format, followed by the automatic rollback's notices, the
// statistics, the removal of --out) only shows in the binary.

type cliCase struct {
	Flags   []string `json:"flags"`   // command-line options
	DML     []string `json:"dml"`     // 0-2 statements that change a file table and stay uncommitted
	Selects []string `json:"selects"` // 1-2 queries whose output encoding succeeds or fails
	Tail    string   `json:"tail"`    // "" | COMMIT | ROLLBACK after the statements
	Source  bool     `json:"source"`  // pass the program with --source instead of as the argument
}

var cliTables = map[string]string{
	"t.csv": "c1,c2\n1,a\n2,b\n3,\n",
	"u.csv": "k,v\n1,x\n",
}

var cliFormats = []string{"CSV", "TSV", "FIXED", "JSON", "JSONL", "LTSV", "GFM", "ORG", "BOX", "TEXT", "JSONH", "JSONA"}

// values and column names; several of them cannot be written in some format or encoding.
var cliValues = []string{"1", "NULL", "'a'", "'a\tb'", "'x\ny'", "'x\r\ny'", "'☃'", "'😀'", "'日本'", "'é'", "'a,b'", "'q\"q'", "'a:b'", "''", "1.5", "TRUE", "'" + strings.Repeat("w", 40) + "'", "DATETIME('2012-02-03 09:18:15')", "'\x00'"}
var cliNames = []string{"a", "b", "x..y", "a.b", "a.", ".a", "c1:c2", "a\tb", "a\nb", "", "☃", "日本", "a", "n n", "x.y.z", "x.y"}

var cliSelects = []string{
	"SELECT {v} AS `{n}`, {v} AS `{n}`",
	"SELECT {v} AS `{n}`",
	"SELECT * FROM t",
	"SELECT c1, c2 AS `{n}` FROM t WHERE c1 > 1",
	"SELECT {v} AS `{n}`, c2 FROM t",
	"SELECT c1, {v} AS `{n}` FROM t ORDER BY c1 DESC",
	"SELECT * FROM t WHERE FALSE",
	"SELECT * FROM t JOIN u ON t.c1 = u.k",
	"SELECT COUNT(*) AS `{n}` FROM t",
	"SELECT * FROM nosuch",
	"SELECT 1 / 0",
	"PRINT {v}",
}

var cliDML = []string{
	"INSERT INTO t VALUES (9, 'n')",
	"INSERT INTO t VALUES (9, {v})",
	"UPDATE t SET c2 = {v}",
	"UPDATE t SET c2 = 'z' WHERE c1 = 1",
	"DELETE FROM t WHERE c1 = 1",
	"DELETE FROM t",
	"ALTER TABLE t ADD `{n}`",
	"CREATE TABLE `n.csv` (a, b)",
	"INSERT INTO u VALUES (2, {v})",
	"UPDATE t SET c2 = 'z' WHERE FALSE",
	"REPLACE INTO u USING (k) VALUES (1, {v})",
}

func genCLI(t *rapid.T) cliCase {
	c := cliCase{}
	add := func(label string, pct int, args ...string) {
		if fw.Pct(t, label, pct) {
			c.Flags = append(c.Flags, args...)
		}
	}
	if fw.Pct(t, "format", 88) {
		c.Flags = append(c.Flags, "--format", fw.PickU(t, "formatV", cliFormats))
	}
	if fw.Pct(t, "writeEncoding", 35) {
		c.Flags = append(c.Flags, "--write-encoding", fw.PickU(t, "writeEncodingV", []string{"SJIS", "SJIS", "SJIS", "UTF8", "UTF8M", "UTF16", "UTF16LE", "UTF16BEM"}))
	}
	if fw.Pct(t, "lineBreak", 20) {
		c.Flags = append(c.Flags, "--line-break", fw.PickU(t, "lineBreakV", []string{"CRLF", "CR", "LF"}))
	}
	if fw.Pct(t, "writeDelimiter", 15) {
		c.Flags = append(c.Flags, "--write-delimiter", fw.PickU(t, "writeDelimiterV", []string{";", "\\t", "|", "\""}))
	}
	if fw.Pct(t, "positions", 25) {
		c.Flags = append(c.Flags, "--write-delimiter-positions", fw.PickU(t, "positionsV", []string{"SPACES", "[1,2]", "[3,6]", "S[2,2]", "[30,60]", "[1]", "S[30,60]"}))
	}
	add("encloseAll", 15, "--enclose-all")
	if fw.Pct(t, "jsonEscape", 15) {
		c.Flags = append(c.Flags, "--json-escape", fw.PickU(t, "jsonEscapeV", []string{"BACKSLASH", "HEX", "HEXALL"}))
	}
	add("prettyPrint", 15, "--pretty-print")
	add("withoutHeader", 15, "--without-header")
	add("stripEnding", 15, "--strip-ending-line-break")
	add("scientific", 10, "--scientific-notation")
	add("stats", 35, "--stats")
	add("quiet", 45, "--quiet")
	if fw.Pct(t, "cpu", 25) {
		c.Flags = append(c.Flags, "--cpu", fw.PickU(t, "cpuV", []string{"1", "2", "4"}))
	}
	add("countDiacritical", 8, "--count-diacritical-sign")
	add("countFormat", 8, "--count-format-code")
	add("eastAsian", 8, "--east-asian-encoding")
	add("color", 12, "--color")
	if fw.Pct(t, "out", 25) {
		c.Flags = append(c.Flags, "--out", fw.PickU(t, "outV", []string{"result.txt", "result.json", "result.csv"}))
	}
	fill := func(s string) string {
		for strings.Contains(s, "{v}") {
			s = strings.Replace(s, "{v}", fw.PickU(t, "value", cliValues), 1)
		}
		for strings.Contains(s, "{n}") {
			s = strings.Replace(s, "{n}", fw.PickU(t, "name", cliNames), 1)
		}
		return s
	}
	for i, n := 0, fw.Weighted(t, "ndml", []int{25, 50, 25}); i < n; i++ {
		c.DML = append(c.DML, fill(fw.PickU(t, "dml", cliDML)))
	}
	for i, n := 0, 1+fw.Weighted(t, "nselect", []int{65, 35}); i < n; i++ {
		c.Selects = append(c.Selects, fill(fw.PickU(t, "select", cliSelects)))
	}
	c.Tail = []string{"", "COMMIT", "ROLLBACK"}[fw.Weighted(t, "tail", []int{70, 15, 15})]
	c.Source = fw.Pct(t, "viaSource", 20)
	return c
}

var cliSeq int64

func (c cliCase) program() string {
	var st []string
	st = append(st, c.DML...)
	st = append(st, c.Selects...)
	if c.Tail != "" {
		st = append(st, c.Tail)
	}
	return strings.Join(st, ";\n") + ";"
}

func checkCLI(c cliCase) (fw.Outcome, *fw.Violation) {
	o := fw.Outcome{}
	bin, err := run.Binary(fw.WorkDir(), false)
	if err != nil {
		return o, fw.Harness("%v", err)
	}
	prog := c.program()
	if strings.Contains(prog, "\x00") && !c.Source {
		// a NUL cannot be passed in an argument vector
		c.Source = true
	}
	home := filepath.Join(fw.WorkDir(), "clihome")
	_ = os.MkdirAll(home, 0755)

	runOnce := func(limit time.Duration) (run.CLIRes, string, error) {
		dir := filepath.Join(fw.WorkDir(), fmt.Sprintf("cli-%d", atomic.AddInt64(&cliSeq, 1)))
		_ = os.RemoveAll(dir)
		if err := os.MkdirAll(dir, 0755); err != nil {
			return run.CLIRes{}, dir, err
		}
		if err := run.WriteFiles(dir, cliTables); err != nil {
			return run.CLIRes{}, dir, err
		}
		args := append([]string{}, c.Flags...)
		if c.Source {
			if err := os.WriteFile(filepath.Join(dir, "prog.sql"), []byte(prog), 0644); err != nil {
				return run.CLIRes{}, dir, err
			}
			args = append(args, "--source", "prog.sql")
		} else {
			args = append(args, prog)
		}
		return run.CLI(run.CLIOpt{Bin: bin, Dir: dir, Home: home, Args: args, Timeout: limit}), dir, nil
	}
	res, dir, err := runOnce(20 * time.Second)
	if err == nil && res.TimedOut {
		fw.AddExtra("watchdog_retries", 1)
		_ = os.RemoveAll(dir)
		res, dir, err = runOnce(80 * time.Second)
	}
	defer os.RemoveAll(dir)
	if err != nil {
		return o, fw.Harness("setup failed: %v", err)
	}
	what := fmt.Sprintf("csvq %s %s\nprogram:\n%s\nexit=%d signaled=%v\nstdout: %s\nstderr: %s", strings.Join(c.Flags, " "), map[bool]string{true: "--source prog.sql", false: "<program>"}[c.Source],
		clip(prog, 1200), res.Code, res.Signaled, clip(res.Stdout, 300), clip(res.Stderr, 1500))
	if res.Code == -1 {
		return o, fw.Harness("child could not be started: %s", clip(res.Stderr, 400))
	}
	if res.TimedOut {
		return o, fw.V("cli_hang", "the process did not terminate within 20 s and again not within 80 s on an isolated re-run; control files left: %v\n%s", run.ControlFiles(dir), what)
	}
	for _, marker := range []string{"Fatal Error", "panic:", "goroutine "} {
		if strings.Contains(res.Stderr, marker) || strings.Contains(res.Stdout, marker) {
			return o, fw.V("cli_fatal:"+fatalSig(res.Stderr), "internal failure text %q in the output\n%s", marker, what)
		}
	}
	if res.Signaled {
		return o, fw.V("cli_killed_by_signal", "the process died of signal %v\n%s", res.Signal, what)
	}
	if !documentedCodes[res.Code] {
		return o, fw.V("cli_undocumented_exit_code", "exit code %d is not documented\n%s", res.Code, what)
	}
	if left := run.ControlFiles(dir); len(left) > 0 {
		return o, fw.V("cli_control_files_left", "control files left behind: %v\n%s", left, what)
	}
	// A run that ends with an error is rolled back, and so is one that ends with ROLLBACK: the table
	// files are untouched and a created table does not exist. (A run that ends normally commits.)
	if res.Code != 0 || c.Tail == "ROLLBACK" {
		for name, content := range cliTables {
			b, rerr := os.ReadFile(filepath.Join(dir, name))
			if rerr != nil || string(b) != content {
				return o, fw.V("cli_uncommitted_change_written", "%s differs although nothing was committed (read error: %v): %q\n%s", name, rerr, clip(string(b), 200), what)
			}
		}
		if _, serr := os.Stat(filepath.Join(dir, "n.csv")); serr == nil {
			return o, fw.V("cli_uncommitted_change_written", "n.csv exists although its creation was not committed\n%s", what)
		}
	}

	format := "-"
	enc := "-"
	for i, f := range c.Flags {
		if f == "--format" {
			format = c.Flags[i+1]
		}
		if f == "--write-encoding" {
			enc = c.Flags[i+1]
		}
	}
	has := func(f string) bool {
		for _, x := range c.Flags {
			if x == f {
				return true
			}
		}
		return false
	}
	encodeFailed := res.Code != 0 && strings.Contains(res.Stderr, "data encode error")
	o.Classes = []string{"format=" + format, fmt.Sprintf("exit=%d", res.Code), fmt.Sprintf("dml=%d", len(c.DML)), fmt.Sprintf("stats=%v", has("--stats")), fmt.Sprintf("quiet=%v", has("--quiet"))}
	if encodeFailed {
		o.Classes = append(o.Classes, "encode_error")
		if len(c.DML) > 0 && !has("--quiet") {
			o.Classes = append(o.Classes, "encode_error_with_rollback_notice")
		}
		if has("--stats") {
			o.Classes = append(o.Classes, "encode_error_with_stats")
		}
	}
	o.Fingerprint = fmt.Sprintf("%s|%s|exit=%d|enc_err=%v|dml=%d|stats=%v|quiet=%v|out=%v|tail=%s", format, enc, res.Code, encodeFailed, len(c.DML), has("--stats"), has("--quiet"), has("--out"), c.Tail)
	return o, nil
}

func TestC19CLIPrograms(t *testing.T) {
	fw.Run(t, fw.Spec[cliCase]{
		ID: "C19", Name: "cli_programs", Quick: 1200, Thorough: 24000,
		Gen: genCLI, Check: checkCLI,
		Rule: "the csvq binary in a fresh directory with two CSV tables: 0-2 uncommitted DML/DDL statements on the file tables (INSERT, UPDATE, DELETE, REPLACE, ALTER, CREATE TABLE) + 1-2 statements that produce output (SELECTs with values and column names some format or encoding cannot write: `x..y` for JSON, TAB / line break / ':' for LTSV and fixed-length, characters outside Shift_JIS, NUL; also plain, empty, failing queries and PRINT) + optional COMMIT/ROLLBACK, as argument or --source, under a generated vector of command-line options (--format all 12, --write-encoding, --line-break, --write-delimiter, --write-delimiter-positions incl. too narrow / single-line, --enclose-all, --json-escape, --pretty-print, --without-header, --strip-ending-line-break, --scientific-notation, --stats, --quiet, --cpu, --count-*, --east-asian-encoding, --color, --out). Oracle: the process terminates (20 s watchdog, re-tried once with 80 s: cli_hang), is not killed by a signal, exit code documented, no 'Fatal Error'/'panic:'/'goroutine ' in either stream, no .lock/.rlock/.temp files left, after an error exit or a final ROLLBACK the table files are byte-identical and no created file exists. non-trivial = every run; distinct by (format, write encoding, exit code, encode error, number of uncommitted statements, --stats, --quiet, --out, tail)",
	})
}
