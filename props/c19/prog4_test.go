package c19

import (
	"fmt"
	"os"
	"path/filepath"
	"strings"
	"sync/atomic"
	"time"

	"pgregory.net/rapid"

	"verif/internal/fw"
	"verif/internal/run"
)

// ---------------------------------------------------------------------
// programs, fourth part: user-defined functions whose bodies are programs of
// their own (data-changing statements, SELECT INTO, cursors, prepared
// statements, nested and recursive calls, transaction control, errors),
// called from every place an expression is evaluated - including the inside of
// data-changing statements, where csvq holds its operation lock.

// Known genuine finding (reported, not repaired): a statement that takes the
// transaction's operation lock (INSERT, UPDATE, REPLACE, DELETE, ALTER TABLE,
// REMOVE FROM @@DATETIME_FORMAT, COMMIT, ROLLBACK), executed in the body of a
// user-defined function that is called while such a statement evaluates its
// expressions, waits for the lock its own caller holds: the process hangs for
// ever and ignores SIGINT/SIGTERM (Transaction.operationMutex is a plain
// sync.Mutex, lib/query/query.go Insert/Update/Replace/Delete/...). While true
// the generator pairs a locking body only with call sites outside data-changing
// statements (signature dml_in_function_called_from_dml_deadlock; the pairs
// left out are counted in measured.excluded_known_dml_in_function_called_from_dml).
const avoidKnownOperationLockDeadlock = true

const deadlockShapeArg = "shape=locking_body_called_under_operation_lock"

const udfPrelude = "DECLARE tv VIEW (c1, c2); INSERT INTO tv VALUES (1, 'a'), (2, 'b'), (3, NULL); DECLARE fv VIEW (x); DECLARE uv VIEW (y); " +
	"DECLARE g FUNCTION (@p) AS BEGIN RETURN @p + 1; END; DECLARE gd FUNCTION (@p) AS BEGIN INSERT INTO fv VALUES (@p); RETURN @p; END; "

var udfBodies = []struct {
	label, sql string
	locks      bool // the body takes the operation lock
}{
	{"insert_view", "INSERT INTO fv VALUES (@a);", true},
	{"insert_file", "INSERT INTO t2 VALUES (@a, 'f');", true},
	{"insert_select", "INSERT INTO fv SELECT c1 FROM tv;", true},
	{"update_view", "UPDATE tv SET c2 = 'f' WHERE c1 = @a;", true},
	{"update_file", "UPDATE t SET c2 = 'f' WHERE c1 = @a;", true},
	{"delete", "DELETE FROM fv;", true},
	{"replace", "REPLACE INTO fv USING (x) VALUES (@a);", true},
	{"alter_add", "ALTER TABLE fv ADD n;", true},
	{"alter_rename", "ALTER TABLE fv RENAME x TO x2;", true},
	{"remove_flag_element", "REMOVE '%Y' FROM @@DATETIME_FORMAT;", true},
	{"nested_call_locking", "VAR @x := gd(@a);", true},
	{"commit", "COMMIT;", true},
	{"rollback", "ROLLBACK;", true},
	{"declare_view_insert", "DECLARE lv VIEW (a); INSERT INTO lv VALUES (@a);", true},
	{"select_into", "VAR @x; SELECT MAX(c1) INTO @x FROM tv;", false},
	{"select_into_file", "VAR @x, @y; SELECT c1, c2 INTO @x, @y FROM t WHERE c1 = @a;", false},
	{"cursor", "DECLARE cf CURSOR FOR SELECT c1 FROM tv; OPEN cf; VAR @x; FETCH cf INTO @x; CLOSE cf; DISPOSE CURSOR cf;", false},
	{"cursor_left_open", "DECLARE cf CURSOR FOR SELECT c1 FROM tv; OPEN cf;", false},
	{"nested_call", "VAR @x := g(g(@a));", false},
	{"recursion", "IF @a IS NULL OR @a < 1 THEN RETURN 0; END IF; VAR @x := f(@a - 1);", false},
	{"create_table", "CREATE TABLE `n.csv` (a);", false},
	{"declare_view", "DECLARE lv VIEW (a);", false},
	{"prepare", "PREPARE ps FROM 'SELECT 1'; EXECUTE ps; DISPOSE PREPARE ps;", false},
	{"set_flag", "SET @@CPU TO 2; SET @@FORMAT TO 'JSON';", false},
	{"add_flag_element", "ADD '%Y' TO @@DATETIME_FORMAT;", false},
	{"trigger_error", "IF @a = 2 THEN TRIGGER ERROR 'in function'; END IF;", false},
	{"print", "PRINT @a; ECHO 'x';", false},
	{"while", "VAR @i := 0; WHILE @i < 3 DO @i := @i + 1; IF @i = 2 THEN CONTINUE; END IF; END WHILE;", false},
	{"select", "SELECT @a;", false},
	{"select_for_update", "SELECT * FROM t FOR UPDATE;", false},
	{"source", "SOURCE `ok.sql`;", false},
	{"declare_function", "DECLARE innerf FUNCTION () AS BEGIN RETURN 1; END; VAR @x := innerf();", false},
	{"undeclared_variable", "@nosuch := 1;", false},
	{"return_early", "RETURN;", false},
	{"shadow", "VAR @a2 := @a; DECLARE tv VIEW (z); INSERT INTO tv VALUES (1);", true},
}

// call sites; {F} a call with a column argument, {F1} a call with a constant. dml: the call is
// evaluated by a statement that holds the operation lock.
var udfSites = []struct {
	label, sql string
	dml        bool
}{
	{"select", "SELECT {F} FROM tv;", false},
	{"select_const", "SELECT {F1};", false},
	{"where", "SELECT * FROM tv WHERE {F} = 1;", false},
	{"order_by", "SELECT c1 FROM tv ORDER BY {F};", false},
	{"group_by", "SELECT {F}, COUNT(*) FROM tv GROUP BY {F};", false},
	{"aggregate_arg", "SELECT SUM({F}), LISTAGG({F}, ',') FROM tv;", false},
	{"analytic", "SELECT SUM({F}) OVER (PARTITION BY c1), RANK() OVER (ORDER BY {F}) FROM tv;", false},
	{"join_on", "SELECT * FROM tv JOIN t2 ON {F} = t2.c1;", false},
	{"subquery", "SELECT (SELECT {F} FROM tv LIMIT 1), c1 FROM tv;", false},
	{"create_as", "CREATE TABLE `m.csv` (x) AS SELECT {F} FROM tv;", false},
	{"variable", "VAR @r := {F1}; SELECT @r;", false},
	{"control_flow", "IF {F1} = 1 THEN PRINT 'y'; END IF; WHILE {F1} < 0 DO PRINT 'n'; END WHILE;", false},
	{"cursor", "DECLARE cu CURSOR FOR SELECT {F} FROM tv; OPEN cu; VAR @q; FETCH cu INTO @q; SELECT @q;", false},
	{"parallel", "SET @@CPU TO 4; SELECT COUNT({F2}) FROM big;", false},
	{"parallel_where", "SET @@CPU TO 3; SELECT COUNT(*) FROM big WHERE {F2} > 100;", false},
	{"twice", "SELECT {F}, {F} FROM tv; SELECT {F1};", false},
	{"limit", "SELECT c1 FROM tv LIMIT {F1};", false},
	{"insert_values", "INSERT INTO uv VALUES ({F1});", true},
	{"insert_select", "INSERT INTO uv SELECT {F} FROM tv;", true},
	{"insert_file", "INSERT INTO t2 SELECT {F}, 'i' FROM tv;", true},
	{"update_set", "UPDATE tv SET c2 = {F};", true},
	{"update_where", "UPDATE tv SET c2 = 'u' WHERE {F} = 1;", true},
	{"update_file", "UPDATE t SET c2 = {F};", true},
	{"delete_where", "DELETE FROM tv WHERE {F} = 1;", true},
	{"replace_values", "REPLACE INTO uv USING (y) VALUES ({F1});", true},
	{"replace_select", "REPLACE INTO uv USING (y) SELECT {F} FROM tv;", true},
	{"alter_default", "ALTER TABLE tv ADD n DEFAULT {F};", true},
	{"update_parallel", "SET @@CPU TO 4; UPDATE big SET s = {F2};", true},
}

var udfTails = []string{"", "SELECT * FROM fv;", "COMMIT;", "ROLLBACK; SELECT * FROM tv;", "SELECT {F1}; SHOW FUNCTIONS;", "DISPOSE FUNCTION f; SELECT {F1};"}

func genUDFCase(t *rapid.T) progCase {
	c := progCase{Kind: "udf", Files: true, Capture: true}
	body := fw.PickU(t, "udfBody", udfBodies)
	site := fw.PickU(t, "udfSite", udfSites)
	if avoidKnownOperationLockDeadlock && body.locks && site.dml {
		fw.AddExtra("excluded_known_dml_in_function_called_from_dml", 1)
		for site.dml {
			site = fw.PickU(t, "udfSiteOutsideDML", udfSites)
		}
	}
	form := "function"
	decl := "DECLARE f FUNCTION (@a) AS BEGIN " + body.sql + " RETURN @a; END; "
	f, f1, f2 := "f(c1)", "f(1)", "f(v % 7)"
	if body.label != "recursion" && fw.Pct(t, "udfAggregate", 20) {
		form = "aggregate"
		decl = "DECLARE f AGGREGATE (cur, @a DEFAULT 1) AS BEGIN " + body.sql + " VAR @v; FETCH cur INTO @v; RETURN @v; END; "
		f1 = "(SELECT f(c1) FROM tv)"
	}
	sql := site.sql + " " + fw.PickU(t, "udfTail", udfTails)
	sql = strings.ReplaceAll(sql, "{F2}", f2)
	sql = strings.ReplaceAll(sql, "{F1}", f1)
	sql = strings.ReplaceAll(sql, "{F}", f)
	c.Name = body.label
	c.Args = []string{form, "site=" + site.label, fmt.Sprintf("site_holds_lock=%v", site.dml), fmt.Sprintf("body_takes_lock=%v", body.locks)}
	if body.locks && site.dml {
		c.Args = append(c.Args, deadlockShapeArg)
	}
	c.SQL = udfPrelude + decl + strings.TrimSpace(sql)
	return c
}

func isDeadlockShape(c progCase) bool {
	if c.Kind != "udf" {
		return false
	}
	for _, a := range c.Args {
		if a == deadlockShapeArg {
			return true
		}
	}
	return false
}

var udfSeq int64

// checkDeadlockShape runs a program of the known deadlock shape in the real binary: a process
// can be killed, a goroutine that waits for its own lock cannot. The shape is known to hang, so
// one limit without a re-try is enough: a slow machine can only turn the NOTE "no longer
// reproduces" into the KNOWN-FINDING line, never raise an alarm.
func checkDeadlockShape(c progCase) (fw.Outcome, *fw.Violation) {
	o := fw.Outcome{Classes: []string{"kind=udf", "udf=" + c.Name, "known_deadlock_shape"}}
	bin, err := run.Binary(fw.WorkDir(), false)
	if err != nil {
		return o, fw.Harness("%v", err)
	}
	dir := filepath.Join(fw.WorkDir(), fmt.Sprintf("udf-%d", atomic.AddInt64(&udfSeq, 1)))
	defer os.RemoveAll(dir)
	if err := os.MkdirAll(dir, 0755); err != nil {
		return o, fw.Harness("%v", err)
	}
	files := map[string]string{"prog.sql": c.SQL}
	for n, content := range progFiles {
		files[n] = content
	}
	if err := run.WriteFiles(dir, files); err != nil {
		return o, fw.Harness("%v", err)
	}
	res := run.CLI(run.CLIOpt{Bin: bin, Dir: dir, Home: dir, Args: []string{"--source", "prog.sql"}, Timeout: 12 * time.Second})
	what := fmt.Sprintf("%s\nexit=%d\nstderr: %s", clip(c.SQL, 1200), res.Code, clip(res.Stderr, 800))
	if res.TimedOut {
		return o, fw.V("dml_in_function_called_from_dml_deadlock", "the process did not terminate within 12 s (it waits for the operation lock its own statement holds)\n%s", what)
	}
	for _, marker := range []string{"Fatal Error", "panic:", "goroutine "} {
		if strings.Contains(res.Stderr, marker) {
			return o, fw.V("cli_fatal:"+fatalSig(res.Stderr), "internal failure text %q in the output\n%s", marker, what)
		}
	}
	if !documentedCodes[res.Code] {
		return o, fw.V("undocumented_exit_code", "exit code %d is not documented\n%s", res.Code, what)
	}
	o.Fingerprint = fmt.Sprintf("udf|%s|%s|exit=%d", c.Name, strings.Join(c.Args, ","), res.Code)
	return o, nil
}
