package c19

import (
	"fmt"
	"testing"

	"github.com/mithrandie/csvq/lib/parser"
	"pgregory.net/rapid"
)

func TestTmpParse(t *testing.T) {
	g := rapid.Custom(genProg)
	seen := map[string]bool{}
	for i := 0; i < 30000; i++ {
		c := g.Example(i + 1)
		if _, _, err := parser.Parse(c.SQL, "", false, false); err != nil {
			k := c.Kind + "/" + c.Name + ": " + err.Error()
			if !seen[k] {
				seen[k] = true
				fmt.Printf("%s\n    %s\n", k, clip(c.SQL, 300))
			}
		}
	}
}
